(* QInlHtml2.v -- T64 (html), part 2: the scanners of Inl3d.v (ht_pi, ht_until, ht_comment, ht_cdata, nextNok, parseHTMLTag)
   on two related readers, and the main theorem q_parseHTMLTag (two independent adequate fuels). *)
From Coq Require Import List ZArith Lia Bool.
Import ListNotations.
Require Import Base Tables Utf8 Tree Rdr Link Collect Html Recog Inl3a Inl3b Inl3c Inl3d ShapesBase ShapesR IFBase IFLink IFHtml QuoteSimMap QIRdrBase QInlHtml1.
Open Scope Z_scope.

(* ---------------------------------------------------------------- prefixes *)
Lemma hbp_cons l p ps : hasBytePrefix l (p :: ps) = true -> exists t, l = p :: t /\ hasBytePrefix t ps = true.
Proof.
  destruct l as [|x t]; cbn [hasBytePrefix]; [discriminate|]. intros H. apply andb_true_iff in H. destruct H as [H1 H2]. apply Z.eqb_eq in H1. subst x.
  exists t. split; [reflexivity|exact H2].
Qed.
Lemma len_cons {A} (x : A) l : len (x :: l) = 1 + len l.
Proof. unfold len. cbn [length]. lia. Qed.
Lemma len_nonneg {A} (l : list A) : 0 <= len l. Proof. unfold len. lia. Qed.

(* ---------------------------------------------------------------- one step inside a span (one reader) *)
Lemma next_inside r node : fst (curNode r) = Some node -> (ikind node =? IndentKind) = false -> r_pos r + 1 < iend node ->
  fst (next r) = true /\ r_pos (snd (next r)) = r_pos r + 1 /\ fst (curNode (snd (next r))) = Some node.
Proof.
  intros En Hk L. unfold next. destruct (curNode_cases r) as [E|(pre & m & rest & E1 & E & E3)]; rewrite E in En |- *; cbn [fst] in En; [discriminate|].
  inversion En; subst m. cbn [withSpans r_src r_pos r_spans r_vpos]. rewrite Hk. cbn [andb negb].
  destruct (Z.ltb_spec (r_pos r + 1) (iend node)) as [_|X]; [|lia]. cbn [fst snd r_pos]. split; [reflexivity|]. split; [reflexivity|].
  pose proof (spanHas_range _ _ E3) as (R1 & R2 & R3).
  match goal with |- fst (curNode ?x) = _ => rewrite (curNode_head node rest x) by (first [reflexivity|apply spanHas_intro; cbn [r_pos]; lia]) end.
  reflexivity.
Qed.

(* the quoted spans are well formed over sQ *)
Section SpW.
  Variables (sD sQ : bytes) (sg : Z -> Z) (IK : list inline).
  Hypothesis S : SGood sD sQ sg.
  Lemma iend_mvS_g u : gsp sD sg IK u -> iend (mvS sg u) = sg (iend u - 1) + 1.
  Proof. intros (A & B & C & T & _). rewrite iend_mvS, (T (iend u - 1)) by lia. lia. Qed.
  Lemma spW_mvS : forall sp, Forall (gsp sD sg IK) sp -> spW sD sp = true -> spW sQ (map (mvS sg) sp) = true.
  Proof.
    induction sp as [|i r IH]; intros G W; [reflexivity|]. inversion G as [|? ? Gi Gr]; subst. pose proof (spW_cons _ _ _ W) as (A & B & C & D & Wr).
    pose proof Gi as (Ga & Gb & Gc & Gt & _). cbn [map spW]. rewrite (IH Gr Wr), andb_true_r, istart_mvS, (iend_mvS_g i Gi).
    pose proof (SG_nn _ _ _ S (istart i) Ga) as N1. pose proof (SG_lt _ _ _ S (iend i - 1) ltac:(lia)) as N2.
    assert (N3 : sg (istart i) <= sg (iend i - 1)) by (rewrite (Gt (iend i - 1)) by lia; lia).
    replace (0 <=? sg (istart i)) with true by (symmetry; apply Z.leb_le; lia).
    replace (sg (istart i) <=? sg (iend i - 1) + 1) with true by (symmetry; apply Z.leb_le; lia).
    replace (sg (iend i - 1) + 1 <=? len sQ) with true by (symmetry; apply Z.leb_le; lia). cbn [andb].
    apply forallb_forall. intros j' Hj'. apply in_map_iff in Hj'. destruct Hj' as (j & <- & Hj). apply Z.leb_le. rewrite istart_mvS.
    pose proof (D j Hj) as Dj. pose proof (SG_mono _ _ _ S (iend i - 1) (istart j) ltac:(lia) ltac:(lia)). lia.
  Qed.
  Lemma RR_PL' ie r r' : QIRdrBase.RR sD sQ sg IK ie r r' -> PL sQ r'.
  Proof. intros (_ & B & C & G & W & _). split; [exact B|]. rewrite C. apply spW_mvS; assumption. Qed.
End SpW.

Section QH2.
  Variables (sD sQ : bytes) (sg : Z -> Z) (IK : list inline).
  Hypothesis S : SGood sD sQ sg.
  Hypothesis IKw : spW sD IK = true.
  Variable lo : Z.
  Hypothesis H62 : NoGtBehind sD IK.
  Notation RR := (QIRdrBase.RR sD sQ sg IK true).
  Notation RB := (QInlHtml1.RB sD sQ sg IK lo).
  Notation EndH := (QInlHtml1.EndH sD sg IK lo).
  Notation EndO := (QInlHtml1.EndO sD sg IK lo).
  Notation InIK := (QIRdrBase.InIK IK).

  Ltac cpair H r r' c r1 r1' H1 Hnl E E' :=
    let Ec := fresh "Ec" in let c' := fresh "c'" in
    pose proof (RB_current sD sQ sg IK S lo r r' H) as (Ec & H1 & Hnl);
    destruct (current r) as [c r1] eqn:E; destruct (current r') as [c' r1'] eqn:E'; cbn [fst snd] in Ec, H1, Hnl; subst c'; cbn [fst snd].
  Ltac npair H r r' ok r1 r1' Hok Hnl :=
    let Eo := fresh "Eo" in let ok' := fresh "ok'" in
    pose proof (RB_next sD sQ sg IK S IKw lo r r' H) as (Eo & Hok & Hnl);
    destruct (next r) as [ok r1]; destruct (next r') as [ok' r1']; cbn [fst snd] in Eo, Hok, Hnl; subst ok'.
  Ltac rpair H r r' rem r1 r1' H1 E :=
    let Er := fresh "Er" in let rem' := fresh "rem'" in
    pose proof (RB_remaining sD sQ sg IK S lo r r' H) as (Er & H1);
    destruct (remainingNodeBytes r) as [rem r1] eqn:E; destruct (remainingNodeBytes r') as [rem' r1']; cbn [fst snd] in Er, H1; subst rem'.

  (* the result of the tag scanner *)
  Definition SpanH (start start' : Z) (res res' : Z * Z) : Prop :=
    (res = nullSpan /\ res' = nullSpan) \/ (exists e e', res = (start, e) /\ res' = (start', e') /\ EndH e e').
  Lemma SpanH_null a b : SpanH a b nullSpan nullSpan. Proof. left. split; reflexivity. Qed.
  Lemma SpanH_end a b e e' : EndH e e' -> SpanH a b (a, e) (b, e').
  Proof. intros H. right. exists e, e'. split; [reflexivity|]. split; [reflexivity|exact H]. Qed.

  (* ---------------------------------------------------------------- the rest of the current span *)
  Lemma rem_node r r' rem r0 : RR r r' -> remainingNodeBytes r = (rem, r0) -> 0 < len rem ->
    exists node, fst (curNode r0) = Some node /\ (ikind node =? IndentKind) = false /\ r_pos r0 = r_pos r /\ len rem = iend node - r_pos r /\
                 iend node <= len sD /\ (forall k, 0 <= k < len rem -> at_ rem k = at_ sD (r_pos r + k)).
  Proof.
    intros H E L. pose proof H as (A & _). unfold remainingNodeBytes in E. destruct (curNode r) as [n r1] eqn:Ec.
    destruct n as [node|]; inversion E; subst rem r0; [|unfold len in L; cbn in L; lia].
    destruct (bRR_curNode_in sD sQ sg IK true S r r' node H ltac:(rewrite Ec; reflexivity)) as (Gn & Hin & _ & Hlt).
    pose proof Gn as (Ga & Gb & Gc & Gt & Gk & _). exists node.
    split; [replace r1 with (snd (curNode r)) by (rewrite Ec; reflexivity); rewrite curNode_idem, Ec; reflexivity|].
    split; [rewrite Gk; reflexivity|]. split; [replace r1 with (snd (curNode r)) by (rewrite Ec; reflexivity); apply pos_curNode|].
    rewrite A. split; [apply len_sub_in; lia|]. split; [exact Gc|]. intros k Hk. rewrite len_sub_in in Hk by lia. apply at_sub; lia.
  Qed.

  (* one step inside a span, both readers *)
  Lemma step_in r r' node : RB r r' -> fst (curNode r) = Some node -> (ikind node =? IndentKind) = false -> r_pos r + 1 < iend node ->
    at_ sD (r_pos r) <> 10 ->
    RB (snd (next r)) (snd (next r')) /\ fst (next r) = true /\ fst (next r') = true /\ r_pos (snd (next r)) = r_pos r + 1 /\
    fst (curNode (snd (next r))) = Some node /\ jumped (snd (next r)) = false /\ jumped (snd (next r')) = false.
  Proof.
    intros H En Hk L N. destruct (next_inside r node En Hk L) as (Ok & Ep & En1).
    pose proof (RB_next sD sQ sg IK S IKw lo r r' H) as (Eo & _ & X). destruct (X N) as [H1 J]. destruct (J Ok) as (J1 & J2 & _).
    split; [exact H1|]. split; [exact Ok|]. split; [rewrite Eo; exact Ok|]. split; [exact Ep|]. split; [exact En1|]. split; assumption.
  Qed.

  (* the reader stands on "ab>" inside one span: two steps, then the end *)
  Lemma three_in r r' rem r0 r0' t a b : RB r r' -> remainingNodeBytes r = (rem, r0) -> RB r0 r0' -> rem = a :: b :: 62 :: t -> a <> 10 -> b <> 10 ->
    EndH (r_pos (snd (next (snd (next r0)))) + 1) (r_pos (snd (next (snd (next r0')))) + 1).
  Proof.
    intros H E H0 Er Na Nb. pose proof (len_nonneg t) as Ht.
    assert (Hl : len rem = 3 + len t) by (rewrite Er, !len_cons; lia).
    destruct (rem_node r r' rem r0 (RB_RR _ _ _ _ _ _ _ H) E ltac:(lia)) as (node & En & Hk & Ep & El & Hlt & Hat).
    assert (A0 : at_ sD (r_pos r0) = a) by (rewrite Ep, <- (Z.add_0_r (r_pos r)), <- Hat by lia; rewrite Er; reflexivity).
    assert (A1 : at_ sD (r_pos r0 + 1) = b) by (rewrite Ep, <- Hat by lia; rewrite Er; reflexivity).
    assert (A2 : at_ sD (r_pos r0 + 2) = 62) by (rewrite Ep, <- Hat by lia; rewrite Er; reflexivity).
    destruct (step_in r0 r0' node H0 En Hk ltac:(lia) ltac:(congruence)) as (H1 & _ & _ & P1 & En1 & _).
    destruct (step_in _ _ node H1 En1 Hk ltac:(lia) ltac:(rewrite P1; congruence)) as (H2 & _ & _ & P2 & En2 & _).
    apply (gt_here sD sQ sg IK S lo H62 _ _ H2).
    pose proof (RB_RR _ _ _ _ _ _ _ H2) as HR2. rewrite (bRR_current_raw sD sQ sg IK true S _ _ HR2) by (rewrite P2, P1; lia).
    rewrite P2, P1. replace (r_pos r0 + 1 + 1) with (r_pos r0 + 2) by lia. exact A2.
  Qed.

  (* ---------------------------------------------------------------- processing instruction *)
  Lemma q_ht_pi : forall f r r' start start', RB r r' -> SpanH start start' (ht_pi f r start) (ht_pi f r' start').
  Proof.
    induction f as [|f IH]; intros r r' start start' H; [apply SpanH_null|]. cbn [ht_pi]. unfold cur.
    cpair H r r' c r1 r1' H1 Hnl Ec1 Ec1'. destruct (Z.eqb_spec c 63) as [E63|N63]; cbn [negb].
    - npair H1 r1 r1' ok r2 r2' Hok Hnl2. destruct (Hnl2 (Hnl ltac:(lia))) as [H2 J]. destruct ok; cbn [negb orb]; [|apply SpanH_null].
      destruct (J eq_refl) as (J1 & J2 & _). rewrite J1, J2.
      pose proof (RB_current sD sQ sg IK S lo r2 r2' H2) as (Ec2 & _). rewrite Ec2.
      destruct (Z.eqb_spec (fst (current r2)) 62) as [E62|N62]; [apply SpanH_end, (gt_here sD sQ sg IK S lo H62 _ _ H2 E62)|apply IH, H2].
    - npair H1 r1 r1' ok r2 r2' Hok Hnl2. destruct ok; cbn [negb]; [apply IH, Hok; reflexivity|apply SpanH_null].
  Qed.

  (* ---------------------------------------------------------------- declaration: up to '>' *)
  Definition OptE (x x' : option reader) : Prop :=
    match x, x' with None, None => True | Some a, Some a' => EndH (r_pos a + 1) (r_pos a' + 1) | _, _ => False end.
  Lemma q_ht_until : forall f r r', RB r r' -> OptE (ht_until f r 62) (ht_until f r' 62).
  Proof.
    induction f as [|f IH]; intros r r' H; [exact I|]. cbn [ht_until]. unfold cur.
    pose proof (gt_here_cur sD sQ sg IK S lo H62 r r' H) as X.
    cpair H r r' c r1 r1' H1 Hnl Ec1 Ec1'. cbn [fst snd] in X. destruct (Z.eqb_spec c 62) as [E62|N62]; [cbn [OptE]; apply X, E62|].
    npair H1 r1 r1' ok r2 r2' Hok Hnl2. destruct ok; cbn [negb]; [apply IH, Hok; reflexivity|exact I].
  Qed.

  (* ---------------------------------------------------------------- comment, CDATA *)
  Lemma q_ht_comment : forall f r r' start start', RB r r' -> SpanH start start' (ht_comment f r start) (ht_comment f r' start').
  Proof.
    induction f as [|f IH]; intros r r' start start' H; [apply SpanH_null|]. cbn [ht_comment].
    rpair H r r' rem r0 r0' H0 Erem. destruct (hasBytePrefix rem [45; 45; 62]) eqn:Ep.
    - apply hbp_cons in Ep. destruct Ep as (t1 & E1 & Ep). apply hbp_cons in Ep. destruct Ep as (t2 & E2 & Ep). apply hbp_cons in Ep. destruct Ep as (t3 & E3 & _). subst t1 t2.
      cbv zeta. apply SpanH_end. apply (three_in r r' rem r0 r0' t3 45 45 H Erem H0 E1); lia.
    - destruct (hasBytePrefix rem [45; 45]); [apply SpanH_null|].
      npair H0 r0 r0' ok r1 r1' Hok Hnl. destruct ok; cbn [negb]; [apply IH, Hok; reflexivity|apply SpanH_null].
  Qed.
  Lemma q_ht_cdata : forall f r r' start start', RB r r' -> SpanH start start' (ht_cdata f r start) (ht_cdata f r' start').
  Proof.
    induction f as [|f IH]; intros r r' start start' H; [apply SpanH_null|]. cbn [ht_cdata].
    rpair H r r' rem r0 r0' H0 Erem. destruct (hasBytePrefix rem [93; 93; 62]) eqn:Ep.
    - apply hbp_cons in Ep. destruct Ep as (t1 & E1 & Ep). apply hbp_cons in Ep. destruct Ep as (t2 & E2 & Ep). apply hbp_cons in Ep. destruct Ep as (t3 & E3 & _). subst t1 t2.
      cbv zeta. apply SpanH_end. apply (three_in r r' rem r0 r0' t3 93 93 H Erem H0 E1); lia.
    - npair H0 r0 r0' ok r1 r1' Hok Hnl. destruct ok; cbn [negb]; [apply IH, Hok; reflexivity|apply SpanH_null].
  Qed.
  Definition OptB (x x' : option reader) : Prop :=
    match x, x' with None, None => True | Some a, Some a' => RB a a' | _, _ => False end.
  Lemma q_nextNok : forall n r r', RB r r' -> OptB (nextNok n r) (nextNok n r').
  Proof.
    induction n as [|n IH]; intros r r' H; [exact H|]. cbn [nextNok]. npair H r r' ok r1 r1' Hok Hnl.
    destruct ok; [apply IH, Hok; reflexivity|exact I].
  Qed.

  (* ---------------------------------------------------------------- parseHTMLTag, the same fuel on both sides *)
  Lemma EndO_span start start' e e' : lo <= start -> 0 <= lo -> EndO e e' ->
    SpanH start start' (if e <? 0 then nullSpan else (start, e)) (if e' <? 0 then nullSpan else (start', e')).
  Proof.
    intros Hs Hl [[-> ->]|He]; [apply SpanH_null|]. pose proof He as (q & Hq & _ & _ & -> & ->).
    pose proof (SG_nn _ _ _ S q ltac:(lia)). destruct (Z.ltb_spec (q + 1) 0); [lia|]. destruct (Z.ltb_spec (sg q + 1) 0); [lia|]. apply SpanH_end, He.
  Qed.

  Lemma q_parseHTMLTag_same f r r' : RB r r' -> 0 <= lo ->
    SpanH (r_pos r) (r_pos r') (parseHTMLTag f r) (parseHTMLTag f r').
  Proof.
    intros H Hlo. pose proof H as (_ & _ & Hlo'). unfold parseHTMLTag. unfold cur.
    cpair H r r' c r0 r0' H0 Hnl0 Ec0 Ec0'. destruct (Z.eqb_spec c 60) as [E60|N60]; cbn [negb]; [|apply SpanH_null]. cbv zeta.
    npair H0 r0 r0' ok r1 r1' Hok1 Hnl1. destruct (Hnl1 (Hnl0 ltac:(lia))) as [H1 J1]. destruct ok; cbn [negb orb]; [|apply SpanH_null].
    destruct (J1 eq_refl) as (Ja & Jb & _). rewrite Ja, Jb. clear Ja Jb.
    cpair H1 r1 r1' c1 r2 r2' H2 Hnl2 Ec2 Ec2'.
    destruct (Z.eqb_spec c1 63) as [E63|N63].
    { npair H2 r2 r2' ok2 r3 r3' Hok3 Hnl3. destruct ok2; cbn [negb]; [apply q_ht_pi, Hok3; reflexivity|apply SpanH_null]. }
    destruct (Z.eqb_spec c1 33) as [E33|N33].
    { npair H2 r2 r2' ok2 r3 r3' Hok3 Hnl3. destruct (Hnl3 (Hnl2 ltac:(lia))) as [H3 J3]. destruct ok2; cbn [negb orb]; [|apply SpanH_null].
      destruct (J3 eq_refl) as (Ja & Jb & _). rewrite Ja, Jb. clear Ja Jb.
      rpair H3 r3 r3' rem r4 r4' H4 Erem.
      destruct ((0 <? len rem) && isASCIILetter (at_ rem 0)) eqn:El.
      { apply andb_true_iff in El. destruct El as [El1 El2]. apply Z.ltb_lt in El1.
        destruct (rem_node r3 r3' rem r4 (RB_RR _ _ _ _ _ _ _ H3) Erem El1) as (node & En & Hk & Ep & Eln & Hlt & Hat).
        assert (N4 : at_ sD (r_pos r4) <> 10).
        { rewrite Ep, <- (Z.add_0_r (r_pos r3)), <- Hat by lia. pose proof (letter_ge33 _ El2). lia. }
        pose proof (RB_next sD sQ sg IK S IKw lo r4 r4' H4) as (_ & _ & X). destruct (X N4) as [H5 _].
        pose proof (q_ht_until f _ _ H5) as Hu.
        destruct (ht_until f (snd (next r4)) 62) as [x|]; destruct (ht_until f (snd (next r4')) 62) as [x'|]; cbn [OptE] in Hu; try contradiction; [|apply SpanH_null].
        apply SpanH_end, Hu. }
      destruct (hasBytePrefix rem [45; 45]) eqn:Ep2.
      { apply hbp_cons in Ep2. destruct Ep2 as (t1 & E1 & Ep2). apply hbp_cons in Ep2. destruct Ep2 as (t2 & E2 & _). subst t1.
        assert (Hl : len rem = 2 + len t2) by (rewrite E1, !len_cons; lia). pose proof (len_nonneg t2) as Ht.
        destruct (rem_node r3 r3' rem r4 (RB_RR _ _ _ _ _ _ _ H3) Erem ltac:(lia)) as (node & En & Hk & Ep & Eln & Hlt & Hat).
        assert (A0 : at_ sD (r_pos r4) = 45) by (rewrite Ep, <- (Z.add_0_r (r_pos r3)), <- Hat by lia; rewrite E1; reflexivity).
        assert (A1 : at_ sD (r_pos r4 + 1) = 45) by (rewrite Ep, <- Hat by lia; rewrite E1; reflexivity).
        destruct (step_in r4 r4' node H4 En Hk ltac:(lia) ltac:(lia)) as (H5 & _ & _ & P5 & _).
        npair H5 (snd (next r4)) (snd (next r4')) ok3 r6 r6' Hok6 Hnl6. destruct (Hnl6 ltac:(rewrite P5; lia)) as [H6 J6].
        destruct ok3; cbn [negb orb]; [|apply SpanH_null]. destruct (J6 eq_refl) as (Ja & Jb & _). rewrite Ja, Jb. clear Ja Jb.
        rpair H6 r6 r6' ts r7 r7' H7 Ets. destruct (_ || _); [apply SpanH_null|apply q_ht_comment, H7]. }
      destruct (hasBytePrefix rem [91; 67; 68; 65; 84; 65; 91]); [|apply SpanH_null].
      pose proof (q_nextNok 7 r4 r4' H4) as Hn.
      destruct (nextNok 7 r4) as [x|]; destruct (nextNok 7 r4') as [x'|]; cbn [OptB] in Hn; try contradiction; [|apply SpanH_null].
      apply q_ht_cdata, Hn. }
    destruct (Z.eqb_spec c1 47) as [E47|N47].
    - pose proof (q_parseHTMLClosingTag sD sQ sg IK S IKw lo H62 f r2 r2' H2) as He.
      destruct (parseHTMLClosingTag f r2) as [e x]. destruct (parseHTMLClosingTag f r2') as [e' x']. cbn [fst] in He. apply EndO_span; assumption.
    - pose proof (q_parseHTMLOpenTag sD sQ sg IK S IKw lo H62 f r2 r2' H2) as He.
      destruct (parseHTMLOpenTag f r2) as [e x]. destruct (parseHTMLOpenTag f r2') as [e' x']. cbn [fst] in He. apply EndO_span; assumption.
  Qed.
End QH2.
