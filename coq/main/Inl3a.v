From Coq Require Import List ZArith Lia Bool.
Import ListNotations.
Require Import Base Tables Utf8 Tree Rdr Link Collect Html.
Open Scope Z_scope.

(* inline nodes during parsing carry an identity (the Go pointer) *)
Inductive pn := PN (id kind s e indent : Z) (ref : bytes) (kids : list pn).
Definition pid n := match n with PN i _ _ _ _ _ _ => i end.
Definition pkind n := match n with PN _ k _ _ _ _ _ => k end.
Definition ps n := match n with PN _ _ s _ _ _ _ => s end.
Definition pe n := match n with PN _ _ _ e _ _ _ => e end.
Definition pind n := match n with PN _ _ _ _ i _ _ => i end.
Definition pref n := match n with PN _ _ _ _ _ r _ => r end.
Definition pkids n := match n with PN _ _ _ _ _ _ k => k end.
Definition setSpan n s e := match n with PN i k _ _ ind r ks => PN i k s e ind r ks end.
Definition setKids n ks := match n with PN i k s e ind r _ => PN i k s e ind r ks end.
Definition setRef n r := match n with PN i k s e ind _ ks => PN i k s e ind r ks end.
Definition setInd n v := match n with PN i k s e _ r ks => PN i k s e v r ks end.

Fixpoint ofInline (i : inline) : pn := match i with Inl k s e ind r ks => PN 0 k s e ind r (map ofInline ks) end.
Fixpoint toInline (n : pn) : inline := match n with PN _ k s e ind r ks => Inl k s e ind r (map toInline ks) end.

Definition spanLen (s e : Z) : Z := if (0 <=? s) && (0 <=? e) && (s <=? e) then e - s else 0.
Definition plen n := spanLen (ps n) (pe n).

(* search / update by identity *)
Fixpoint findNode (fuel : nat) (id : Z) (l : list pn) : option pn :=
  match fuel with
  | O => None
  | S f =>
    match l with
    | [] => None
    | n :: r => if pid n =? id then Some n else
                match findNode f id (pkids n) with Some x => Some x | None => findNode f id r end
    end
  end.
Fixpoint updNode (fuel : nat) (id : Z) (g : pn -> pn) (l : list pn) : list pn :=
  match fuel with
  | O => l
  | S f => map (fun n => if pid n =? id then g n else setKids n (updNode f id g (pkids n))) l
  end.
Fixpoint psize (n : pn) : nat := match n with PN _ _ _ _ _ _ ks => S (fold_right (fun c a => (psize c + a)%nat) O ks) end.
Definition fsize (l : list pn) : nat := S (fold_right (fun c a => (psize c + a)%nat) O l).

Definition hasId (id : Z) (l : list pn) : bool := existsb (fun n => pid n =? id) l.

(* wrap at the level that contains startId (inlines.go:1782); parentEnd is the End of the parent's span *)
Fixpoint splitAtId (id : Z) (l : list pn) : list pn * list pn :=   (* through the element with id, inclusive | rest *)
  match l with
  | [] => ([], [])
  | n :: r => if pid n =? id then ([n], r) else let '(a, b) := splitAtId id r in (n :: a, b)
  end.
Fixpoint splitBeforeId (id : option Z) (l : list pn) : list pn * list pn :=
  match l with
  | [] => ([], [])
  | n :: r => match id with
              | Some i => if pid n =? i then ([], l) else let '(a, b) := splitBeforeId id r in (n :: a, b)
              | None => let '(a, b) := splitBeforeId id r in (n :: a, b)
              end
  end.
Definition wrapLevel (newId kind : Z) (startId : Z) (endId endStart : option Z) (parentEnd : Z) (l : list pn) : list pn :=
  let '(pre, post) := splitAtId startId l in
  let startNode := match rev pre with n :: _ => n | [] => PN 0 0 0 0 0 [] [] end in
  let '(mid, rest) := splitBeforeId endId post in
  let e := match endStart with Some v => v | None => parentEnd end in
  pre ++ [PN newId kind (pe startNode) e 0 [] mid] ++ rest.
Fixpoint wrapIn (fuel : nat) (newId kind startId : Z) (endId endStart : option Z) (parentEnd : Z) (l : list pn) : list pn :=
  match fuel with
  | O => l
  | S f =>
    if hasId startId l then wrapLevel newId kind startId endId endStart parentEnd l
    else map (fun n => setKids n (wrapIn f newId kind startId endId endStart (pe n) (pkids n))) l
  end.
Fixpoint removeId (fuel : nat) (id : Z) (l : list pn) : list pn :=
  match fuel with
  | O => l
  | S f =>
    if hasId id l then filter (fun n => negb (pid n =? id)) l
    else map (fun n => setKids n (removeId f id (pkids n))) l
  end.

(* delimiter stack *)
Record delim := { d_typ : Z; d_flags : Z; d_n : Z; d_node : Z }.
Definition tStar := 1. Definition tUnder := 2. Definition tLink := 3. Definition tImage := 4.
Definition fActive := 1. Definition fOpener := 2. Definition fCloser := 4.
Definition hasFlag (d : delim) (f : Z) : bool := negb ((d_flags d / f) mod 2 =? 0).
Definition clearFlag (d : delim) (f : Z) : delim :=
  if hasFlag d f then {| d_typ := d_typ d; d_flags := d_flags d - f; d_n := d_n d; d_node := d_node d |} else d.
Definition delStack {A} (l : list A) (i j : Z) : list A := upto l i ++ from_ l j.
Definition nthD (l : list delim) (i : Z) : delim :=
  nth (Z.to_nat i) l {| d_typ := 0; d_flags := 0; d_n := 0; d_node := -1 |}.

Record ist := {
  rk : list pn; isrc : bytes; unp : list inline; upos : Z; stk : list delim;
  ign : bool; nid : Z; rootEnd : Z; matcher : list bytes }.
Definition setRk st v := {| rk := v; isrc := isrc st; unp := unp st; upos := upos st; stk := stk st; ign := ign st; nid := nid st; rootEnd := rootEnd st; matcher := matcher st |}.
Definition setUpos st v := {| rk := rk st; isrc := isrc st; unp := unp st; upos := v; stk := stk st; ign := ign st; nid := nid st; rootEnd := rootEnd st; matcher := matcher st |}.
Definition setStk st v := {| rk := rk st; isrc := isrc st; unp := unp st; upos := upos st; stk := v; ign := ign st; nid := nid st; rootEnd := rootEnd st; matcher := matcher st |}.
Definition setIgn st v := {| rk := rk st; isrc := isrc st; unp := unp st; upos := upos st; stk := stk st; ign := v; nid := nid st; rootEnd := rootEnd st; matcher := matcher st |}.
Definition bumpId st := {| rk := rk st; isrc := isrc st; unp := unp st; upos := upos st; stk := stk st; ign := ign st; nid := nid st + 1; rootEnd := rootEnd st; matcher := matcher st |}.

Definition spanEnd (st : ist) : Z :=
  if len (unp st) <=? upos st then
    match rev (unp st) with l :: _ => iend l | [] => len (isrc st) end
  else iend (nth (Z.to_nat (upos st)) (unp st) (mkI 0 0 0)).
Definition isLastSpan (st : ist) : bool := len (unp st) - 1 <=? upos st.
Definition unpFrom (st : ist) : list inline := from_ (unp st) (upos st).
Definition advanceTo (st : ist) (pos : Z) : ist :=
  let i := nodeIndexForPosition (unpFrom st) pos in
  if 0 <=? i then setUpos st (upos st + i) else setUpos st (len (unp st)).

(* addToRoot: only nodes that consume at least one source byte; returns the node's identity *)
Definition addNode (st : ist) (kind s e : Z) (kids : list pn) : ist * Z :=
  if spanLen s e =? 0 then (st, -1) else
  let id := nid st in
  (bumpId (setRk st (rk st ++ [PN id kind s e 0 [] kids])), id).
Definition addText (st : ist) (s e : Z) : ist := fst (addNode st TextKind s e []).

Definition nodeOf (st : ist) (id : Z) : pn :=
  match findNode (fsize (rk st)) id (rk st) with Some n => n | None => PN (-1) 0 (-1) (-1) 0 [] [] end.
Definition wrap (st : ist) (kind startId : Z) (endId : option Z) : ist * Z :=
  let id := nid st in
  let endStart := match endId with Some i => Some (ps (nodeOf st i)) | None => None end in
  (bumpId (setRk st (wrapIn (fsize (rk st)) id kind startId endId endStart (rootEnd st) (rk st))), id).
Definition removeNode (st : ist) (id : Z) : ist := setRk st (removeId (fsize (rk st)) id (rk st)).
Definition updN (st : ist) (id : Z) (g : pn -> pn) : ist := setRk st (updNode (fsize (rk st)) id g (rk st)).
Definition matchRef (st : ist) (label : bytes) : bool := existsb (Utf8.bytes_eqb label) (matcher st).
