From Coq Require Import List ZArith Lia Bool.
Import ListNotations.
Require Import Base Tree Rdr Link Collect Html ShapesBase ShapesR IFBase IFLink IFHtml EolCRLFDefs EolCRLFSimBytes EolCRLFSimStream
  EolGenCrlfRdrDefs EolGenCrlfRdrStep EolGenCrlfRdrNext EolGenCrlfRdrLink EolGenCrlfRdrLink2 EolGenCrlfRdrColl.
Open Scope Z_scope.

(* C14 (ii), CRLF clause: the scanners of Html.v on a reader over R and on the corresponding reader over crlf R.
   Two fuels; each is only assumed to exceed the potential nu of its reader. *)

Lemma m13_letter c : isASCIILetter (m13 c) = isASCIILetter c.
Proof. unfold m13. destruct (Z.eqb_spec c 10) as [->|N]; reflexivity. Qed.
Lemma m13_digit c : isASCIIDigit (m13 c) = isASCIIDigit c.
Proof. unfold m13. destruct (Z.eqb_spec c 10) as [->|N]; reflexivity. Qed.
Lemma m13_attrName c : isAttrNameChar (m13 c) = isAttrNameChar c.
Proof. unfold m13. destruct (Z.eqb_spec c 10) as [->|N]; reflexivity. Qed.
Lemma m13_unq c : isUnquotedAttributeValueChar (m13 c) = isUnquotedAttributeValueChar c.
Proof. unfold m13. destruct (Z.eqb_spec c 10) as [->|N]; reflexivity. Qed.

Section HtmlSim.
  Variable R : bytes.
  Variable Eb : Z.
  Hypothesis R13 : ~ In 13 R.
  Notation P := (phiP R).
  Notation R' := (crlf R).
  Notation F := (phiI R).
  Notation RR := (RR R Eb).
  Notation RM := (RM R Eb).
  Notation PVc := (PVc R).
  Notation SPI := (SPI R Eb).
  Notation W := (W R Eb).

  Ltac f0 HW := exfalso; destruct (W_PL R Eb _ _ HW) as [?P1 ?P2]; first [eapply (fuel0 R); eassumption|eapply (fuel0 R'); eassumption].
  Ltac done2 H := cbn [fst snd]; split; [reflexivity|exact H].

  (* ---------------------------------------------------------------- tag name *)
  Lemma tagName_loop_sim : forall f' f r r', RR r r' -> nu R r < Z.of_nat f -> nu R' r' < Z.of_nat f' ->
    RR (tagName_loop f r) (tagName_loop f' r').
  Proof.
    induction f' as [|f' IH]; intros f r r' H Hn Hn'; [f0 (or_introl H : W r r')|]. destruct f as [|f]; [f0 (or_introl H : W r r')|].
    cbn [tagName_loop]. destruct (current r) as [c r1] eqn:Ec. destruct (current r') as [c' r1'] eqn:Ec'.
    destruct (currentE_RR R Eb R13 _ _ _ _ _ _ H Ec Ec') as (-> & H1 & Hc & N1 & N1' & _).
    rewrite m13_letter, m13_digit, m13_eqb by discriminate.
    destruct (isASCIILetter c || isASCIIDigit c || (c =? 45)) eqn:Et; [|exact H1].
    assert (N10 : c <> 10) by (intros ->; discriminate Et).
    destruct (next r1) as [ok r2] eqn:En. destruct (next r1') as [ok' r2'] eqn:En'.
    destruct (nextE_RR R Eb _ _ _ _ _ _ H1 ltac:(rewrite Hc; exact N10) En En') as (-> & H2 & _ & [U1 U2] & [U1' U2']).
    destruct ok; [|exact H2]. apply IH; [exact H2|specialize (U2 eq_refl); lia|specialize (U2' eq_refl); lia].
  Qed.

  Lemma parseHTMLTagName_sim f f' r r' : RR r r' -> nu R r < Z.of_nat f -> nu R' r' < Z.of_nat f' ->
    fst (parseHTMLTagName f' r') = fst (parseHTMLTagName f r) /\ RR (snd (parseHTMLTagName f r)) (snd (parseHTMLTagName f' r')).
  Proof.
    intros H Hn Hn'. unfold parseHTMLTagName. destruct (current r) as [c r1] eqn:Ec. destruct (current r') as [c' r1'] eqn:Ec'.
    destruct (currentE_RR R Eb R13 _ _ _ _ _ _ H Ec Ec') as (-> & H1 & Hc & N1 & N1' & _).
    rewrite m13_letter. destruct (isASCIILetter c) eqn:Et; cbn [negb]; [|done2 H1].
    assert (N10 : c <> 10) by (intros ->; discriminate Et).
    destruct (next r1) as [ok r2] eqn:En. destruct (next r1') as [ok' r2'] eqn:En'.
    destruct (nextE_RR R Eb _ _ _ _ _ _ H1 ltac:(rewrite Hc; exact N10) En En') as (-> & H2 & _ & [U1 U2] & [U1' U2']).
    destruct ok; cbn [negb]; [|done2 H2]. cbn [fst snd]. split; [reflexivity|].
    apply tagName_loop_sim; [exact H2|lia|lia].
  Qed.

  (* ---------------------------------------------------------------- attributes *)
  Lemma attrName_loop_sim : forall f' f r r', RR r r' -> nu R r < Z.of_nat f -> nu R' r' < Z.of_nat f' ->
    fst (attrName_loop f' r') = fst (attrName_loop f r) /\ RR (snd (attrName_loop f r)) (snd (attrName_loop f' r')).
  Proof.
    induction f' as [|f' IH]; intros f r r' H Hn Hn'; [f0 (or_introl H : W r r')|]. destruct f as [|f]; [f0 (or_introl H : W r r')|].
    cbn [attrName_loop]. destruct (current r) as [c r1] eqn:Ec. destruct (current r') as [c' r1'] eqn:Ec'.
    destruct (currentE_RR R Eb R13 _ _ _ _ _ _ H Ec Ec') as (-> & H1 & Hc & N1 & N1' & _).
    rewrite m13_attrName. destruct (isAttrNameChar c) eqn:Et; [|done2 H1].
    assert (N10 : c <> 10) by (intros ->; discriminate Et).
    destruct (next r1) as [ok r2] eqn:En. destruct (next r1') as [ok' r2'] eqn:En'.
    destruct (nextE_RR R Eb _ _ _ _ _ _ H1 ltac:(rewrite Hc; exact N10) En En') as (-> & H2 & _ & [U1 U2] & [U1' U2']).
    destruct ok; [|done2 H2]. apply IH; [exact H2|specialize (U2 eq_refl); lia|specialize (U2' eq_refl); lia].
  Qed.

  (* a quoted attribute value may span lines *)
  Lemma untilQuote_sim : forall f' f r r' q, W r r' -> q <> 10 -> q <> 13 -> nu R r < Z.of_nat f -> nu R' r' < Z.of_nat f' ->
    fst (untilQuote f' r' q) = fst (untilQuote f r q) /\ RR (snd (untilQuote f r q)) (snd (untilQuote f' r' q)).
  Proof.
    induction f' as [|f' IH]; intros f r r' q HW Q1 Q2 Hn Hn'; [f0 HW|]. destruct f as [|f]; [f0 HW|].
    destruct (current r) as [c r1] eqn:Ec. destruct (current r') as [c' r1'] eqn:Ec'.
    destruct (next r1) as [ok r2] eqn:En. destruct (next r1') as [ok' r2'] eqn:En'.
    assert (Q10 : (10 =? q) = false) by (apply Z.eqb_neq; intros E; apply Q1; symmetry; exact E).
    assert (Q13 : (13 =? q) = false) by (apply Z.eqb_neq; intros E; apply Q2; symmetry; exact E).
    destruct HW as [H|H].
    - destruct (currentE_RR R Eb R13 _ _ _ _ _ _ H Ec Ec') as (-> & H1 & Hc & N1 & N1' & _).
      destruct (Z.eq_dec c 10) as [->|N10].
      + destruct (nextE_RR10 R Eb _ _ _ _ _ _ H1 Hc En En') as [(-> & -> & H2 & _)|(-> & HM & Hlt)].
        * cbn [untilQuote]. rewrite Ec, Ec'. change (m13 10) with 13. rewrite Q10, Q13, En, En'. done2 H2.
        * assert (E' : untilQuote (S f') r' q = untilQuote f' r2' q).
          { cbn [untilQuote]. rewrite Ec'. change (m13 10) with 13. rewrite Q13, En'. reflexivity. }
          rewrite E'. apply IH; [right; apply (RM_uncur R Eb r 10 r1); [apply (RR_SPI R Eb _ _ H)|exact Ec|exact HM]|exact Q1|exact Q2|lia|lia].
      + destruct (nextE_RR R Eb _ _ _ _ _ _ H1 ltac:(rewrite Hc; exact N10) En En') as (-> & H2 & _ & [U1 U2] & [U1' U2']).
        cbn [untilQuote]. rewrite Ec, Ec', (m13_eqb c q Q1 Q2), En, En'. destruct (c =? q); [done2 H2|].
        destruct ok; [|done2 H2]. apply IH; [left; exact H2|exact Q1|exact Q2|specialize (U2 eq_refl); lia|specialize (U2' eq_refl); lia].
    - destruct (currentE_RM R Eb _ _ _ _ _ _ H Ec Ec') as (-> & -> & H1 & N1 & N1' & _).
      destruct (nextE_RM R Eb _ _ _ _ _ _ H1 En En') as (-> & H2 & _ & [U1 U2] & [U1' U2']).
      cbn [untilQuote]. rewrite Ec, Ec', Q10, En, En'.
      destruct ok; [|done2 H2]. apply IH; [left; exact H2|exact Q1|exact Q2|specialize (U2 eq_refl); lia|specialize (U2' eq_refl); lia].
  Qed.

  Lemma unq_ne10 c : isUnquotedAttributeValueChar c = true -> c <> 10.
  Proof. intros H ->. discriminate H. Qed.

  Lemma unquoted_loop_sim : forall f' f r r', RR r r' -> cur r <> 10 -> nu R r < Z.of_nat f -> nu R' r' < Z.of_nat f' ->
    RR (unquoted_loop f r) (unquoted_loop f' r').
  Proof.
    induction f' as [|f' IH]; intros f r r' H N10 Hn Hn'; [f0 (or_introl H : W r r')|]. destruct f as [|f]; [f0 (or_introl H : W r r')|].
    cbn [unquoted_loop]. destruct (next r) as [ok r1] eqn:En. destruct (next r') as [ok' r1'] eqn:En'.
    destruct (nextE_RR R Eb _ _ _ _ _ _ H N10 En En') as (-> & H1 & _ & [U1 U2] & [U1' U2']).
    destruct ok; cbn [negb]; [|exact H1]. specialize (U2 eq_refl). specialize (U2' eq_refl).
    destruct (current r1) as [c r2] eqn:Ec. destruct (current r1') as [c' r2'] eqn:Ec'.
    destruct (currentE_RR R Eb R13 _ _ _ _ _ _ H1 Ec Ec') as (-> & H2 & Hc & N2 & N2' & _).
    rewrite m13_unq. destruct (isUnquotedAttributeValueChar c) eqn:Eu; [|exact H2].
    apply IH; [exact H2|rewrite Hc; apply unq_ne10, Eu|lia|lia].
  Qed.
End HtmlSim.

Print Assumptions tagName_loop_sim.
Print Assumptions parseHTMLTagName_sim.
Print Assumptions attrName_loop_sim.
Print Assumptions untilQuote_sim.
Print Assumptions unquoted_loop_sim.
