From Coq Require Import List ZArith Lia Bool.
Import ListNotations.
Require Import Base Tree Rdr.
Require Import ShapesBase.
Open Scope Z_scope.

(* ================================================================================================
   T28, part 1: the well-formedness predicate `lines` for the inline entries of a paragraph
   (Paragraph / SetextHeading blocks).  B is the byte buffer the positions refer to, M an upper bound
   for the entry ends.
   ================================================================================================ *)

Definition isEOLz (c : Z) : Prop := c = 10 \/ c = 13.
Definition gapB (c : Z) : Prop := c = 32 \/ c = 9 \/ c = 62.          (* bytes a container prefix is made of *)
Definition gapE (c : Z) : Prop := gapB c \/ isEOLz c.                   (* the byte before a later entry *)

Lemma isEOLz_dec c : {isEOLz c} + {~ isEOLz c}.
Proof. unfold isEOLz. destruct (Z.eq_dec c 10); [left; tauto|]. destruct (Z.eq_dec c 13); [left; tauto|right; tauto]. Qed.
Lemma gapE_not_tick c : gapE c -> c <> 96.
Proof. unfold gapE, gapB, isEOLz. lia. Qed.
Lemma gapE_nonzero c : gapE c -> c <> 0.
Proof. unfold gapE, gapB, isEOLz. lia. Qed.

(* [s, e) is (the tail of) one line of B: a line ending byte occurs only at the very end (LF, CR, or CR LF), and the
   segment ends with a line ending unless it runs to the end of the buffer *)
Definition lineOK (B : bytes) (s e : Z) : Prop :=
  0 <= s /\ s <= e /\ e <= len B /\
  (forall i, s <= i < e -> isEOLz (at_ B i) -> i = e - 1 \/ (i = e - 2 /\ at_ B i = 13 /\ at_ B (e - 1) = 10)) /\
  (e = len B \/ (s < e /\ isEOLz (at_ B (e - 1)))).

Lemma lineOK_tail B s s' e : lineOK B s e -> s <= s' <= e -> (s' < e \/ e = len B) -> lineOK B s' e.
Proof.
  intros (A & A1 & A2 & A3 & A4) Hs Hne. split; [lia|]. split; [lia|]. split; [lia|]. split.
  - intros i Hi. apply A3. lia.
  - destruct A4 as [A4|[A4 A5]]; [left; exact A4|]. destruct Hne as [Hne|Hne]; [right; split; [exact Hne|exact A5]|left; exact Hne].
Qed.

Definition unpOK (B : bytes) (M : Z) (u : inline) : Prop :=
  ikind u = UnparsedKind /\ ikids u = [] /\ 0 <= istart u /\ istart u < iend u /\ iend u <= M /\
  lineOK B (istart u) (iend u) /\ ~ isEOLz (at_ B (istart u)).
Definition indOK (B : bytes) (u : inline) : Prop :=
  ikind u = IndentKind /\ ikids u = [] /\ 0 <= istart u /\ iend u = istart u + 1 /\ at_ B (istart u) = 9 /\
  0 < iindent u <= 3.
Definition nextIs (u : inline) (r : list inline) : Prop :=
  match r with v :: _ => ikind v = UnparsedKind /\ istart v = iend u | [] => False end.

Fixpoint lines (B : bytes) (M : Z) (ik : list inline) : Prop :=
  match ik with
  | [] => True
  | u :: r =>
    (unpOK B M u \/ (indOK B u /\ nextIs u r)) /\
    (forall j, In j r -> iend u <= istart j /\ gapE (at_ B (istart j - 1))) /\
    lines B M r
  end.

Ltac msplit := repeat match goal with |- _ /\ _ => split end.

(* ---- basic facts ---- *)
Lemma unpOK_mono B M M' u : M <= M' -> unpOK B M u -> unpOK B M' u.
Proof. intros H (A & A1 & A2 & A3 & A4 & A5 & A6). unfold unpOK. msplit; try assumption; lia. Qed.
Lemma lines_mono B M M' : M <= M' -> forall ik, lines B M ik -> lines B M' ik.
Proof.
  intros H. induction ik as [|u r IH]; [tauto|]. intros (A & A1 & A2). split; [|split; [exact A1|apply IH, A2]].
  destruct A as [A|A]; [left; eapply unpOK_mono; eassumption|right; exact A].
Qed.
Lemma lines_tail B M u r : lines B M (u :: r) -> lines B M r.
Proof. intros (_ & _ & H). exact H. Qed.
Lemma lines_skipn B M : forall n ik, lines B M ik -> lines B M (skipn n ik).
Proof.
  induction n as [|n IH]; intros ik H; [exact H|]. destruct ik as [|u r]; [exact I|]. cbn [skipn]. apply IH. eapply lines_tail; exact H.
Qed.
Lemma lines_from B M ik n : lines B M ik -> lines B M (from_ ik n).
Proof. apply lines_skipn. Qed.

(* every entry: a valid non-empty span below the bound *)
Lemma lines_entry B M : forall ik u, lines B M ik -> In u ik ->
  0 <= istart u /\ istart u < iend u /\ iend u <= M /\ ikids u = [] /\ (ikind u = UnparsedKind \/ ikind u = IndentKind).
Proof.
  induction ik as [|v r IH]; intros u H Hin; [destruct Hin|]. destruct H as (A & A1 & A2). destruct Hin as [<-|Hin]; [|apply IH; assumption].
  destruct A as [(B1 & B2 & B3 & B4 & B5 & _)|[(B1 & B2 & B3 & B4 & B5 & B6) Hn]].
  - msplit; try assumption. left; exact B1.
  - unfold nextIs in Hn. destruct r as [|w r']; [contradiction|]. destruct Hn as [N1 N2].
    destruct (IH w A2 (or_introl eq_refl)) as (C1 & C2 & C3 & _).
    msplit; try assumption; try lia.
Qed.

Lemma lines_sorted B M : forall u r, lines B M (u :: r) -> forall j, In j r -> iend u <= istart j.
Proof. intros u r (_ & A & _) j Hj. apply A, Hj. Qed.

(* two members of the list that contain the same position start at the same place *)
Lemma lines_tricho B M : forall ik u v, lines B M ik -> In u ik -> In v ik ->
  u = v \/ iend u <= istart v \/ iend v <= istart u.
Proof.
  induction ik as [|w r IH]; intros u v H Hu Hv; [destruct Hu|]. destruct H as (A & A1 & A2).
  destruct Hu as [<-|Hu]; destruct Hv as [<-|Hv].
  - left; reflexivity.
  - right; left. apply A1, Hv.
  - right; right. apply A1, Hu.
  - apply IH; assumption.
Qed.

(* appending a group of entries that lies after all the present ones *)
Lemma lines_app B M M' : M <= M' -> forall a b, lines B M a -> lines B M' b ->
  (forall u j, In u a -> In j b -> iend u <= istart j /\ gapE (at_ B (istart j - 1))) ->
  lines B M' (a ++ b).
Proof.
  intros HM. induction a as [|u r IH]; intros b Ha Hb Hab; [exact Hb|]. destruct Ha as (A & A1 & A2). cbn [app lines].
  split; [|split].
  - destruct A as [A|[A Hn]]; [left; eapply unpOK_mono; eassumption|right; split; [exact A|]].
    unfold nextIs in *. destruct r as [|w r']; [contradiction|exact Hn].
  - intros j Hj. apply in_app_or in Hj. destruct Hj as [Hj|Hj]; [apply A1, Hj|apply Hab; [left; reflexivity|exact Hj]].
  - apply IH; [exact A2|exact Hb|]. intros x j Hx Hj. apply Hab; [right; exact Hx|exact Hj].
Qed.

Lemma lines_one B M v : unpOK B M v -> lines B M [v].
Proof. intros H. split; [left; exact H|split; [intros j []|exact I]]. Qed.
Lemma lines_two B M i v : indOK B i -> unpOK B M v -> istart v = iend i -> lines B M [i; v].
Proof.
  intros Hi Hv E. split; [right; split; [exact Hi|split; [apply Hv|exact E]]|]. split; [|apply lines_one, Hv].
  intros j [<-|[]]. split; [lia|]. rewrite E. destruct Hi as (_ & _ & _ & E1 & E2 & _). rewrite E1. replace (istart i + 1 - 1) with (istart i) by lia.
  rewrite E2. left. right. left. reflexivity.
Qed.

(* ---- the positions may be read in another buffer that agrees below the bound ---- *)
Definition agreeTo (B B' : bytes) (H : Z) : Prop := forall i, 0 <= i < H -> at_ B' i = at_ B i.

Lemma lineOK_agree B B' H s e : agreeTo B B' H -> e <= H -> len B' = H -> H <= len B -> lineOK B s e -> lineOK B' s e.
Proof.
  intros Ag He HL HB (A & A1 & A2 & A3 & A4). split; [exact A|]. split; [exact A1|]. split; [lia|]. split.
  - intros i Hi. rewrite (Ag i) by lia. intros Hz. destruct (A3 i Hi Hz) as [E|(E1 & E2 & E3)]; [left; exact E|right].
    split; [exact E1|]. rewrite (Ag (e - 1)) by lia. tauto.
  - destruct A4 as [A4|[A4 A5]]; [left; lia|right; split; [exact A4|rewrite (Ag (e - 1)) by lia; exact A5]].
Qed.
Lemma unpOK_agree B B' H M u : agreeTo B B' H -> M <= H -> len B' = H -> H <= len B -> unpOK B M u -> unpOK B' M u.
Proof.
  intros Ag HM HL HB (A & A1 & A2 & A3 & A4 & A5 & A6). unfold unpOK. msplit; try assumption.
  - eapply lineOK_agree; try eassumption. lia.
  - rewrite (Ag (istart u)) by lia. exact A6.
Qed.
Lemma lines_agree B B' H M : agreeTo B B' H -> M <= H -> len B' = H -> H <= len B -> forall ik, lines B M ik -> lines B' M ik.
Proof.
  intros Ag HM HL HB. induction ik as [|u r IH]; [tauto|]. intros Hl. pose proof Hl as (A & A1 & A2). split; [|split; [|apply IH, A2]].
  - destruct A as [A|[(C & C1 & C2 & C3 & C4 & C5) Hn]]; [left; eapply unpOK_agree; eassumption|right]. split; [|exact Hn].
    unfold nextIs in Hn. destruct r as [|w r']; [contradiction|]. destruct Hn as [N1 N2].
    destruct (lines_entry B M (w :: r') w A2 (or_introl eq_refl)) as (D1 & D2 & D3 & _).
    unfold indOK. msplit; try assumption; try lia. rewrite (Ag (istart u)) by lia. exact C4.
  - intros j Hj. destruct (A1 j Hj) as [E1 E2]. split; [exact E1|].
    destruct (lines_entry B M (u :: r) j Hl (or_intror Hj)) as (D1 & D2 & D3 & _).
    destruct (lines_entry B M (u :: r) u Hl (or_introl eq_refl)) as (F1 & F2 & _).
    rewrite (Ag (istart j - 1)) by lia. exact E2.
Qed.

Lemma agreeTo_upto B H : H <= len B -> agreeTo B (upto B H) H.
Proof. intros HB i Hi. apply at_upto. lia. Qed.
