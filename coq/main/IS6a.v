From Coq Require Import List ZArith Lia Bool.
Import ListNotations.
Require Import Base Tables Utf8 Tree Rdr Link Collect Html Recog Inl3a Inl3b Inl3c Inl3d Inl3e Props PEProof.
Require Import Leaf3e GI0 ShapesBase ShapesR.
Open Scope Z_scope.

(* ================================================================== *)
(* IS6a: the cursor of the tokeniser: which entry of the span list is  *)
(* current (upos), that the position lies at or after its start, and   *)
(* what a well-formed span list (spOK) says about the entries.         *)
(* ================================================================== *)

(* ---------------------------------------------------------------- fields the forest operations do not touch *)
Definition sameF (st st' : ist) : Prop := upos st' = upos st /\ unp st' = unp st /\ isrc st' = isrc st.
Lemma sameF_refl st : sameF st st. Proof. repeat split. Qed.
Lemma sameF_trans a b c : sameF a b -> sameF b c -> sameF a c.
Proof. intros (A1 & A2 & A3) (B1 & B2 & B3). repeat split; congruence. Qed.

Lemma pe_loop_sameF : forall fuel st ob cp, sameF st (pe_loop fuel st ob cp).
Proof.
  induction fuel as [|f IH]; intros st ob cp; [apply sameF_refl|]. cbn [pe_loop].
  destruct (_ <? 0); [apply sameF_refl|].
  destruct (_ <=? _).
  - match goal with |- context [wrap ?A ?K ?X ?Y] => destruct (wrap A K X Y) as [st3 wid] eqn:Ew;
      assert (E3 : sameF st st3) by (change st3 with (fst (st3, wid)); rewrite <- Ew; repeat split) end.
    destruct (plen _ =? 0); cbv beta iota; destruct (plen _ =? 0);
      (eapply sameF_trans; [|apply IH]); destruct E3 as (A1 & A2 & A3); repeat split; assumption.
  - destruct (negb _); (eapply sameF_trans; [|apply IH]); repeat split.
Qed.
Lemma processEmphasis_sameF st sb : sameF st (processEmphasis st sb).
Proof. unfold processEmphasis. destruct (pe_loop_sameF (4 * (length (stk st) + length (isrc st)) + 8) st (repeat sb 14) sb) as (A & B & C). repeat split; assumption. Qed.
Lemma finishLink_sameF st kind odi : sameF st (finishLink st kind odi).
Proof.
  unfold finishLink. destruct (processEmphasis_sameF st (odi + 1)) as (A & B & C).
  destruct (kind =? LinkKind); repeat split; assumption.
Qed.
Lemma addNode_sameF st k s e kids : sameF st (fst (addNode st k s e kids)).
Proof. unfold addNode. destruct (spanLen s e =? 0); repeat split. Qed.
Lemma addText_sameF st s e : sameF st (addText st s e). Proof. apply addNode_sameF. Qed.

Lemma spanEnd_sameF st st' : sameF st st' -> spanEnd st' = spanEnd st.
Proof. intros (A & B & C). unfold spanEnd. rewrite A, B, C. reflexivity. Qed.
Lemma isLastSpan_sameF st st' : sameF st st' -> isLastSpan st' = isLastSpan st.
Proof. intros (A & B & C). unfold isLastSpan. rewrite A, B. reflexivity. Qed.
Lemma unpFrom_sameF st st' : sameF st st' -> unpFrom st' = unpFrom st.
Proof. intros (A & B & C). unfold unpFrom. rewrite A, B. reflexivity. Qed.
Lemma advanceTo_sameF st st' p : sameF st st' -> upos (advanceTo st' p) = upos (advanceTo st p) /\ sameF (setUpos st (upos (advanceTo st p))) (advanceTo st' p).
Proof.
  intros H. pose proof (unpFrom_sameF _ _ H) as Hu. destruct H as (A & B & C). unfold advanceTo. rewrite Hu, A, B.
  destruct (0 <=? _); split; repeat split; assumption.
Qed.

(* ---------------------------------------------------------------- entries of a well-formed span list *)
Section Spans.
  Variable src : bytes.
  Variable U : list inline.
  Hypothesis HOK : spOK src U = true.

  Definition nthU (k : Z) : inline := nth (Z.to_nat k) U (mkI 0 0 0).

  Lemma spOK_all : forall l, spOK src l = true -> forall i, In i l -> 0 <= istart i /\ istart i < iend i /\ iend i <= len src /\
    (ikind i = IndentKind -> forallb isSpTab (sub src (istart i) (iend i)) = true).
  Proof.
    induction l as [|x r IH]; intros H i Hi; [contradiction|]. pose proof (spOK_iend _ _ _ H) as He.
    pose proof (spOK_cons _ _ _ H) as (A & B & C & D & F & G). destruct Hi as [->|Hi]; [repeat split; assumption|apply IH; assumption].
  Qed.
  Lemma spOK_sorted_nat : forall l, spOK src l = true -> forall j k, (j < k)%nat -> (k < length l)%nat ->
    iend (nth j l (mkI 0 0 0)) <= istart (nth k l (mkI 0 0 0)).
  Proof.
    induction l as [|x r IH]; intros H j k Hjk Hk; [cbn in Hk; lia|].
    pose proof (spOK_cons _ _ _ H) as (A & B & C & D & F & G). destruct k as [|k]; [lia|]. cbn [length] in Hk.
    destruct j as [|j].
    - cbn [nth]. apply C. apply nth_In. lia.
    - cbn [nth]. apply IH; [exact G|lia|lia].
  Qed.
  Lemma nthU_in k : 0 <= k < len U -> In (nthU k) U.
  Proof. intros H. unfold nthU. apply nth_In. unfold len in H. lia. Qed.
  Lemma nthU_range k : 0 <= k < len U -> 0 <= istart (nthU k) /\ istart (nthU k) < iend (nthU k) /\ iend (nthU k) <= len src.
  Proof. intros H. destruct (spOK_all U HOK _ (nthU_in k H)) as (A & B & C & _). tauto. Qed.
  Lemma nthU_sorted j k : 0 <= j -> j < k -> k < len U -> iend (nthU j) <= istart (nthU k).
  Proof. intros A B C. unfold nthU. apply spOK_sorted_nat; [exact HOK|lia|unfold len in C; lia]. Qed.
  Lemma nthU_indent k p : 0 <= k < len U -> ikind (nthU k) = IndentKind -> istart (nthU k) <= p < iend (nthU k) -> isSpTab (at_ src p) = true.
  Proof.
    intros H Hk Hp. destruct (spOK_all U HOK _ (nthU_in k H)) as (A & B & C & D).
    assert (Hh : spanHas (nthU k) p = true) by (apply spanHas_intro; lia).
    destruct (indent_blank src (nthU k) p (D Hk) Hh) as [L|L]; [lia|exact L].
  Qed.

  (* ---- spanEnd ---- *)
  Lemma spanEnd_in st : unp st = U -> 0 <= upos st < len U -> spanEnd st = iend (nthU (upos st)).
  Proof. intros E H. unfold spanEnd. rewrite E. destruct (Z.leb_spec (len U) (upos st)); [lia|reflexivity]. Qed.
  Lemma last_nthU x r : rev U = x :: r -> x = nthU (len U - 1) /\ 0 < len U.
  Proof.
    intros H. assert (E : U = rev r ++ [x]) by (rewrite <- (rev_involutive U), H; reflexivity).
    unfold nthU, len. rewrite E, app_length, rev_length. cbn [length]. split; [|lia].
    replace (Z.to_nat (Z.of_nat (length r + 1) - 1)) with (length (rev r)) by (rewrite rev_length; lia).
    rewrite app_nth2 by lia. rewrite Nat.sub_diag. reflexivity.
  Qed.
  Lemma spanEnd_out st : unp st = U -> len U <= upos st -> 0 < len U -> spanEnd st = iend (nthU (len U - 1)).
  Proof.
    intros E H Hl. unfold spanEnd. rewrite E. destruct (Z.leb_spec (len U) (upos st)); [|lia].
    destruct (rev U) as [|x r] eqn:Er; [|destruct (last_nthU x r Er) as [-> _]; reflexivity].
    exfalso. assert (HU0 : U = []) by (rewrite <- (rev_involutive U), Er; reflexivity). rewrite HU0 in Hl. change (len (@nil inline)) with 0 in Hl. lia.
  Qed.
  Lemma spanEnd_mono st st' : unp st = U -> unp st' = U -> isrc st' = isrc st -> 0 <= upos st -> upos st <= upos st' -> spanEnd st <= spanEnd st'.
  Proof.
    intros E E' Es H0 Hle. destruct (Z.lt_ge_cases (upos st') (len U)) as [L'|L'].
    - rewrite (spanEnd_in st E), (spanEnd_in st' E') by lia. destruct (Z.eq_dec (upos st) (upos st')) as [->|Hne]; [lia|].
      pose proof (nthU_sorted (upos st) (upos st') ltac:(lia) ltac:(lia) L'). pose proof (nthU_range (upos st') ltac:(lia)). lia.
    - destruct (Z.lt_ge_cases 0 (len U)) as [Hpos|Hz].
      + rewrite (spanEnd_out st' E' L' Hpos). destruct (Z.lt_ge_cases (upos st) (len U)) as [L|L].
        * rewrite (spanEnd_in st E) by lia. destruct (Z.eq_dec (upos st) (len U - 1)) as [->|Hne]; [lia|].
          pose proof (nthU_sorted (upos st) (len U - 1) ltac:(lia) ltac:(lia) ltac:(lia)). pose proof (nthU_range (len U - 1) ltac:(lia)). lia.
        * rewrite (spanEnd_out st E L Hpos). lia.
      + assert (HU0 : U = []) by (destruct U; [reflexivity|unfold len in Hz; cbn in Hz; lia]). unfold spanEnd. rewrite E, E', Es, HU0. change (len (@nil inline)) with 0.
        destruct (Z.leb_spec 0 (upos st)); [|lia]. destruct (Z.leb_spec 0 (upos st')); [|lia]. cbn. lia.
  Qed.

  (* ---- advanceTo ---- *)
  Lemma nth_skipn_ {A} (l : list A) d : forall n m, nth m (skipn n l) d = nth (n + m) l d.
  Proof. intros n. revert l. induction n as [|n IH]; intros l m; [reflexivity|]. destruct l as [|x l]; [destruct m; reflexivity|]. cbn. apply IH. Qed.
  Lemma advanceTo_spec st p : unp st = U -> 0 <= upos st <= len U ->
    upos st <= upos (advanceTo st p) <= len U /\
    (upos (advanceTo st p) < len U -> spanHas (nthU (upos (advanceTo st p))) p = true).
  Proof.
    intros E H0. unfold advanceTo, nodeIndexForPosition.
    destruct (nodeIdx_split (unpFrom st) p 0 ltac:(lia)) as [H|(H1 & pre & n & rest & E1 & E2 & E3)].
    - destruct (Z.leb_spec 0 (nodeIdx (unpFrom st) p 0)); [lia|]. cbn [upos setUpos]. rewrite E. split; [lia|intros; lia].
    - remember (nodeIdx (unpFrom st) p 0) as k eqn:Ek. destruct (Z.leb_spec 0 k); [|lia]. cbn [upos setUpos].
      replace (k - 0) with k in E2 by lia.
      unfold unpFrom, from_ in E2. rewrite E in E2.
      assert (Hlen : (Z.to_nat k + Z.to_nat (upos st) < length U)%nat).
      { assert (Hl : length (skipn (Z.to_nat k) (skipn (Z.to_nat (upos st)) U)) = S (length rest)) by (rewrite E2; reflexivity).
        rewrite !skipn_length in Hl. lia. }
      split; [unfold len; lia|]. intros _.
      assert (En : nth 0 (skipn (Z.to_nat k) (skipn (Z.to_nat (upos st)) U)) (mkI 0 0 0) = n) by (rewrite E2; reflexivity).
      rewrite !nth_skipn_ in En. unfold nthU. replace (Z.to_nat (upos st + k)) with (Z.to_nat (upos st) + (Z.to_nat k + 0))%nat by lia.
      rewrite En. exact E3.
  Qed.
End Spans.
