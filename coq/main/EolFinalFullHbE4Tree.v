(* T63-F1 (D2).  Copy of En3Tree.v over the invariant EolFinalFullHbE4Tree.en = En3Tree.en plus one clause (lastX): the last entry of a
   PARAGRAPH holds a byte that is not space / tab / line ending, and once the paragraph is closed it ends at the end of the block.
   Changes w.r.t. En3Tree.v: module names; the places that build or use that clause; closing lemmas take "a paragraph is open -> e = lineStart". *)
From Coq Require Import List ZArith Lia Bool.
Import ListNotations.
Require Import Base Tree Rdr Link Collect LP Rules Starts Driver Props L2Kind L2CC BSDef BSRdr BSTree BSOcp BSOrph BSClose BSLine1 BSLine2 BSLine3 BSShift
  GramTree ShDef ShRdr ShClose.
Require Import ShapesBase EntBase EntOcpDefs EntOcp En3Ocp.
Open Scope Z_scope.

(* ================================================================================================
   T28, part 2: the invariant `en` on block trees.
     Paragraph / SetextHeading: the entries are `lines` (bounded by M while the block is open, by its end once closed)
                                and start at or after the block's start;
     every closed block ends at a position that cannot split a NUL triple (bdy); blocks of the other kinds
     (except definitions) hold no Unparsed entry;
     ATXHeading: always closed (it is opened and closed inside its start function), at most one Unparsed entry inside the block;
     no open SetextHeading.
   ================================================================================================ *)
Definition isPS (K : Z) : Prop := K = ParagraphKind \/ K = SetextHeadingKind.
(* (En2*: the same development as Ent*, with two more facts about the single entry [a, t) of an ATX heading:
   line ending bytes only form a suffix of it, and what follows its end) *)
Definition isSTLEz (c : Z) : Prop := c = 32 \/ c = 9 \/ c = 10 \/ c = 13.
Definition eolTail (B : bytes) (a t : Z) : Prop :=
  forall i, a <= i < t -> isEOLz (at_ B i) -> forall j, i <= j < t -> isEOLz (at_ B j).
Definition atxTail (B : bytes) (a t : Z) : Prop :=
  a = t \/ len B <= t \/ isSTLEz (at_ B t) \/ (isSTLEz (at_ B (t - 1)) /\ at_ B t <> 41).
Definition atxE (B : bytes) (s e : Z) (ik : list inline) : Prop :=
  ik = [] \/ exists a t, ik = [mkI UnparsedKind a t] /\ 0 <= a /\ s <= a /\ a <= t /\ t <= e /\ eolTail B a t /\ atxTail B a t.
Definition bound (M e : Z) : Z := if e <? 0 then M else e.
(* kinds that carry no condition on the shape of the entries *)
Definition freeK (K : Z) : Prop := K <> ParagraphKind /\ K <> SetextHeadingKind /\ K <> ATXHeadingKind.
Definition noU (ik : list inline) : Prop := forall u, In u ik -> ikind u <> UnparsedKind.
Definition lastI (ik : list inline) : option inline := match rev ik with x :: _ => Some x | [] => None end.
Definition nb41 (B : bytes) (p : Z) : Prop := len B <= p \/ at_ B p <> 41.
(* (En3*: the En2* development with three more facts:
     - the last entry of an OPEN paragraph ends exactly at M (the start of the line being processed);
     - the byte after the last entry of a CLOSED paragraph / setext heading is not ')' (or lies beyond the buffer);
     - open blocks lie on the right spine: all children but the last are closed, a closed block has closed children.
   M is therefore no longer monotone: see en_relabel / en_path.) *)
(* (T46 (3): two more facts, about the entries that have children before the inline pass:
     - the InfoString entry of a fenced code block lies inside the block, its children are leaves inside it, and every byte of
       it that is textual (or NUL) lies in one of them: the bytes between the children are the backslashes of escapes;
     - the children of the label / destination / title entries of a link reference definition are leaves.) *)
Definition txz (c : Z) : bool := Props.textual c || (c =? 0).
Definition kidsLeaf (u : inline) : Prop := forall k, In k (ikids u) -> ikids k = [].
Definition infoC (B : bytes) (u : inline) : Prop :=
  kidsLeaf u /\ istart u <= iend u /\ (forall k, In k (ikids u) -> istart u <= istart k /\ istart k <= iend k) /\
  (forall p, istart u <= p < iend u -> txz (at_ B p) = true -> exists k, In k (ikids u) /\ istart k <= p < iend k).
Definition xk (B : bytes) (K s : Z) (ik : list inline) : Prop :=
  (K = FencedCodeBlockKind -> forall u, In u ik -> ikids u <> [] -> s <= istart u /\ infoC B u) /\
  (K = LinkReferenceDefinitionKind -> forall u, In u ik -> kidsLeaf u).
(* (E4: the En3 development with one more fact, about the last entry of a PARAGRAPH: it holds a byte that is not a space, tab or
   line ending byte, and once the paragraph is closed it ends exactly at the end of the block) *)
Definition nbz (c : Z) : Prop := c <> 32 /\ c <> 9 /\ c <> 10 /\ c <> 13.
Definition inkU (B : bytes) (L : inline) : Prop := exists i0, istart L <= i0 < iend L /\ nbz (at_ B i0).
Definition lastX (B : bytes) (K e : Z) (L : inline) : Prop := K = ParagraphKind -> inkU B L /\ (0 <= e -> iend L = e).
Lemma lastX_other B K e L : K <> ParagraphKind -> lastX B K e L. Proof. intros N E. contradiction. Qed.
Definition ikOK (B : bytes) (M K s e : Z) (ik : list inline) (bk : list block) : Prop :=
  (isPS K -> lines B (bound M e) ik /\ (forall u, In u ik -> s <= istart u) /\ (e < 0 -> 0 <= s <= M)) /\
  (K = ATXHeadingKind -> 0 <= e /\ atxE B s e ik) /\
  (e < 0 -> K <> SetextHeadingKind) /\
  (0 <= e -> bdy B e) /\
  ((freeK K -> K <> LinkReferenceDefinitionKind -> noU ik) /\
   (isPS K -> forall L, lastI ik = Some L -> (if e <? 0 then iend L = M else nb41 B (iend L)) /\ lastX B K e L) /\
   (0 <= e -> closedL bk) /\ (closedL (removelast bk) /\ xk B K s ik)).
Fixpoint en (B : bytes) (M : Z) (b : block) : Prop :=
  match b with Blk K s e bk ik _ _ _ _ _ => ikOK B M K s e ik bk /\ allP (en B M) bk end.

Lemma en_eq B M b : en B M b <-> ikOK B M (bkind b) (bstart b) (bend b) (bik b) (bkids b) /\ allP (en B M) (bkids b).
Proof. destruct b; reflexivity. Qed.

Lemma bound_open M e : e < 0 -> bound M e = M.
Proof. intros H. unfold bound. destruct (Z.ltb_spec e 0); [reflexivity|lia]. Qed.
Lemma bound_closed M e : 0 <= e -> bound M e = e.
Proof. intros H. unfold bound. destruct (Z.ltb_spec e 0); [lia|reflexivity]. Qed.
Lemma bound_mono M M' e : M <= M' -> bound M e <= bound M' e.
Proof. intros H. unfold bound. destruct (e <? 0); lia. Qed.

(* ---- closed subtrees; paragraphs that are still open and hold entries ---- *)
Fixpoint dc (b : block) : Prop := match b with Blk _ _ e bk _ _ _ _ _ _ => 0 <= e /\ allP dc bk end.
Lemma dc_eq b : dc b <-> 0 <= bend b /\ allP dc (bkids b). Proof. destruct b; reflexivity. Qed.
Fixpoint opara (b : block) : Prop :=
  match b with Blk K _ e bk ik _ _ _ _ _ =>
    (isPS K /\ e < 0 /\ ik <> []) \/ (fix ex (l : list block) : Prop := match l with [] => False | x :: r => opara x \/ ex r end) bk end.
Definition oparaL (l : list block) : Prop := exists x, In x l /\ opara x.
Lemma opara_eq b : opara b <-> (isPS (bkind b) /\ bend b < 0 /\ bik b <> []) \/ oparaL (bkids b).
Proof.
  destruct b as [K s e bk ik a n c l lb]. cbn [opara bkind bend bik bkids]. unfold oparaL.
  assert (G : forall l0, (fix ex (l : list block) : Prop := match l with [] => False | x :: r => opara x \/ ex r end) l0 <-> exists x, In x l0 /\ opara x).
  { induction l0 as [|x r IH]; [split; [intros []|intros (x & [] & _)]|]. rewrite IH. split.
    - intros [H|(y & Hy & Ho)]; [exists x; split; [left; reflexivity|exact H]|exists y; split; [right; exact Hy|exact Ho]].
    - intros (y & [<-|Hy] & Ho); [left; exact Ho|right; exists y; tauto]. }
  rewrite G. tauto.
Qed.

Lemma en_dc B M : forall b, en B M b -> 0 <= bend b -> dc b.
Proof.
  fix IH 1. intros [K s e bk ik a n c l lb]. cbn [en bend dc]. intros ((_ & _ & _ & _ & (_ & _ & C7 & _)) & C) He. split; [exact He|].
  specialize (C7 He). induction bk as [|x r IHr]; [exact I|]. destruct C as [C1 C2]. destruct C7 as [D1 D2]. split; [apply IH; assumption|apply IHr; assumption].
Qed.
Lemma dc_not_opara : forall b, dc b -> ~ opara b.
Proof.
  fix IH 1. intros [K s e bk ik a n c l lb] Hd Ho. rewrite dc_eq in Hd. rewrite opara_eq in Ho. cbn [bkind bend bik bkids] in *.
  destruct Hd as [He Hk]. destruct Ho as [(_ & X & _)|(x & Hx & Ho)]; [lia|].
  induction bk as [|y r IHr]; [destruct Hx|]. destruct Hk as [K1 K2]. destruct Hx as [<-|Hx]; [exact (IH y K1 Ho)|apply IHr; assumption].
Qed.

(* a tree without such a paragraph can be read against any later line start *)
Lemma ikOK_relabel B M M' K s e ik bk : M <= M' -> ~ (isPS K /\ e < 0 /\ ik <> []) -> ikOK B M K s e ik bk -> ikOK B M' K s e ik bk.
Proof.
  intros H N (A & A1 & A2 & A3 & (A4 & A5 & A6 & A7)). split; [|split; [exact A1|split; [exact A2|split; [exact A3|split; [exact A4|split; [|split; assumption]]]]]].
  - intros HK. destruct (A HK) as (C & C1 & C2). destruct (Z.ltb_spec e 0) as [L|L].
    + destruct ik as [|u r]; [|exfalso; apply N; split; [exact HK|split; [exact L|discriminate]]].
      split; [exact I|split; [exact C1|intros _; specialize (C2 L); lia]].
    + unfold bound in *. destruct (Z.ltb_spec e 0); [lia|]. split; [exact C|split; [exact C1|intros; lia]].
  - intros HK L0 HL. specialize (A5 HK L0 HL). destruct (Z.ltb_spec e 0) as [L|L]; [|exact A5].
    exfalso. apply N. split; [exact HK|split; [exact L|]]. intros E. rewrite E in HL. discriminate.
Qed.
Lemma en_relabel B M M' : M <= M' -> forall b, en B M b -> ~ opara b -> en B M' b.
Proof.
  intros Hle. fix IH 1. intros [K s e bk ik a n c l lb]. cbn [en]. intros (A & E) No. rewrite opara_eq in No. cbn [bkind bend bik bkids] in No.
  split; [apply (ikOK_relabel B M M'); [exact Hle|tauto|exact A]|].
  assert (Nk : forall x, In x bk -> ~ opara x) by (intros x Hx Ho; apply No; right; exists x; tauto). clear No A.
  induction bk as [|x r IHr]; [exact I|]. destruct E as [E1 E2]. split; [apply IH; [exact E1|apply Nk; left; reflexivity]|apply IHr; [exact E2|intros y Hy; apply Nk; right; exact Hy]].
Qed.
Lemma en_closed_any B M M' b : M <= M' -> en B M b -> 0 <= bend b -> en B M' b.
Proof. intros H He Hc. apply (en_relabel B M M' H b He). apply dc_not_opara. eapply en_dc; eassumption. Qed.

Lemma ikOK_free B M K s e ik bk : freeK K -> (0 <= e -> bdy B e) -> (K <> LinkReferenceDefinitionKind -> noU ik) ->
  (0 <= e -> closedL bk) -> closedL (removelast bk) -> xk B K s ik -> ikOK B M K s e ik bk.
Proof.
  intros (N1 & N2 & N3) Hb Hn H7 H8 H9. split; [intros [E|E]; contradiction|]. split; [intros E; contradiction|]. split; [intros _; exact N2|].
  split; [exact Hb|]. split; [intros _; exact Hn|]. split; [intros [E|E]; contradiction|split; [assumption|split; assumption]].
Qed.
Lemma noU_nil : noU []. Proof. intros u []. Qed.
Lemma noU_app a b : noU a -> noU b -> noU (a ++ b).
Proof. intros Ha Hb u Hu. apply in_app_or in Hu. destruct Hu; [apply Ha|apply Hb]; assumption. Qed.
Lemma noU_incl a b : (forall u, In u a -> In u b) -> noU b -> noU a.
Proof. intros H Hb u Hu. apply Hb, H, Hu. Qed.

Lemma xk_other B K s ik : K <> FencedCodeBlockKind -> K <> LinkReferenceDefinitionKind -> xk B K s ik.
Proof. intros N1 N2. split; intros E; contradiction. Qed.
Lemma xk_nil B K s : xk B K s [].
Proof. split; intros _ u []. Qed.
Lemma xk_PS B K s ik : isPS K -> xk B K s ik.
Proof. intros [-> | ->]; apply xk_other; discriminate. Qed.
Lemma xk_app B K s a b : xk B K s a -> xk B K s b -> xk B K s (a ++ b).
Proof.
  intros [A1 A2] [B1 B2]. split; intros HK u Hu; apply in_app_or in Hu; destruct Hu as [Hu|Hu]; [apply A1|apply B1|apply A2|apply B2]; assumption.
Qed.
Lemma xk_incl B K s a b : (forall u, In u a -> In u b) -> xk B K s b -> xk B K s a.
Proof. intros H [B1 B2]. split; intros HK u Hu; [apply B1|apply B2]; try assumption; apply H, Hu. Qed.
Lemma xk_kidless B K s ik : K <> LinkReferenceDefinitionKind -> (forall u, In u ik -> ikids u = []) -> xk B K s ik.
Proof. intros N H. split; [intros _ u Hu Hk; destruct (Hk (H u Hu))|intros E; contradiction]. Qed.

(* ---- setters ---- *)
Lemma en_set_bn B M b v : en B M (set_bn b v) <-> en B M b. Proof. destruct b; reflexivity. Qed.
Lemma en_set_bchar B M b v : en B M (set_bchar b v) <-> en B M b. Proof. destruct b; reflexivity. Qed.
Lemma en_set_bindent B M b v : en B M (set_bindent b v) <-> en B M b. Proof. destruct b; reflexivity. Qed.
Lemma en_set_bloose B M b v : en B M (set_bloose b v) <-> en B M b. Proof. destruct b; reflexivity. Qed.
Lemma en_set_blast B M b v : en B M (set_blast b v) <-> en B M b. Proof. destruct b; reflexivity. Qed.

Lemma en_kids_struct B M b : en B M b -> (0 <= bend b -> closedL (bkids b)) /\ closedL (removelast (bkids b)).
Proof. rewrite en_eq. intros ((_ & _ & _ & _ & (_ & _ & A & (A' & _))) & _). split; assumption. Qed.
Lemma en_xk B M b : en B M b -> xk B (bkind b) (bstart b) (bik b).
Proof. rewrite en_eq. intros ((_ & _ & _ & _ & (_ & _ & _ & (_ & A))) & _). exact A. Qed.

Lemma en_set_bkids B M b ks : en B M b -> allP (en B M) ks -> (0 <= bend b -> closedL ks) -> closedL (removelast ks) -> en B M (set_bkids b ks).
Proof.
  rewrite !en_eq. rewrite bkind_set_bkids, bstart_set_bkids, bend_set_bkids, bik_set_bkids, bkids_set_bkids.
  intros ((A & A1 & A2 & A3 & (A4 & A5 & _ & (_ & A8))) & _) Hk H7 H8. split; [|exact Hk]. repeat (split; try assumption).
Qed.
Lemma en_lastBlock B M b c : en B M b -> lastBlock b = Some c -> en B M c.
Proof. rewrite en_eq. intros (_ & H) Hl. eapply allP_In; [exact H|eapply lastBlock_In; exact Hl]. Qed.
Lemma en_getAt B M : forall d b x, en B M b -> getAt d b = Some x -> en B M x.
Proof.
  induction d as [|d IH]; intros b x Hb H; [inversion H; subst; exact Hb|]. cbn [getAt] in H.
  destruct (lastBlock b) as [c|] eqn:El; [|discriminate]. eapply IH; [|exact H]. eapply en_lastBlock; eassumption.
Qed.
Lemma en_set_lastBlocks B M b c L : en B M b -> lastBlock b = Some c -> allP (en B M) L -> (0 <= bend b -> closedL L) -> closedL (removelast L) ->
  en B M (set_lastBlocks b L).
Proof.
  intros Hb Hl HL H7 H8. unfold set_lastBlocks. pose proof (lastBlock_split b c Hl) as Es.
  pose proof Hb as Hb'. rewrite en_eq in Hb'. destruct Hb' as (_ & E). rewrite Es in E. apply allP_app in E.
  destruct (en_kids_struct B M b Hb) as [S7 S8].
  apply en_set_bkids; [exact Hb|apply allP_app; tauto| |].
  - intros He. apply closedL_app. split; [exact S8|apply H7, He].
  - apply closedL_removelast_app; assumption.
Qed.
Lemma en_updAt_at B M f : forall d b, en B M b ->
  (forall x, getAt d b = Some x -> en B M x -> en B M (f x) /\ (0 <= bend x -> 0 <= bend (f x))) ->
  en B M (updAt d f b) /\ (0 <= bend b -> 0 <= bend (updAt d f b)).
Proof.
  induction d as [|d IH]; intros b Hb Hf; [apply Hf; [reflexivity|exact Hb]|]. cbn [updAt].
  destruct (lastBlock b) as [c|] eqn:El; [|tauto].
  destruct (IH c (en_lastBlock B M b c Hb El)) as [I1 I2].
  { intros x Hx. apply Hf. cbn [getAt]. rewrite El. exact Hx. }
  split; [|rewrite bend_set_lastBlocks; tauto].
  destruct (en_kids_struct B M b Hb) as [S7 _].
  eapply en_set_lastBlocks; [exact Hb|exact El|split; [exact I1|exact I]| |exact I].
  intros He. split; [|exact I]. apply I2. specialize (S7 He). rewrite (lastBlock_split b c El) in S7. apply closedL_app in S7. destruct S7 as [_ [S7 _]]. exact S7.
Qed.
Lemma en_updAt B M f d b : en B M b ->
  (forall x, getAt d b = Some x -> en B M x -> en B M (f x) /\ (0 <= bend x -> 0 <= bend (f x))) -> en B M (updAt d f b).
Proof. intros H1 H2. exact (proj1 (en_updAt_at B M f d b H1 H2)). Qed.
Lemma en_append B M x y : en B M x -> en B M y -> bend x < 0 -> closedL (bkids x) -> en B M (appendB y x).
Proof.
  intros Hx Hy Ho Hc. pose proof Hx as Hx'. rewrite en_eq in Hx'. destruct Hx' as (_ & C). unfold appendB.
  apply en_set_bkids; [exact Hx|apply allP_app; split; [exact C|split; [exact Hy|exact I]]|intros; lia|].
  rewrite removelast_last. exact Hc.
Qed.

(* a fresh block *)
Lemma en_newBlock B M K s : K <> SetextHeadingKind -> K <> ATXHeadingKind -> 0 <= s <= M -> en B M (newBlock K s).
Proof.
  intros N N2 Hs. unfold newBlock. cbn [en]. split; [|exact I]. split; [|split; [|split; [|split]]].
  - intros _. split; [exact I|]. split; [intros u []|intros _; exact Hs].
  - intros E. contradiction.
  - intros _. exact N.
  - intros; lia.
  - split; [intros _ _; apply noU_nil|]. split; [intros _ L X; discriminate|split; [intros; exact I|split; [exact I|apply xk_nil]]].
Qed.

(* ---- closing ---- *)
Lemma en_set_bend_close B M b e : en B M b -> bend b < 0 -> M <= e -> 0 <= e -> bdy B e -> closedL (bkids b) ->
  (isPS (bkind b) -> bik b <> [] -> nb41 B M /\ e = M) -> en B M (set_bend b e).
Proof.
  rewrite !en_eq. rewrite bkind_set_bend, bstart_set_bend, bend_set_bend, bik_set_bend, bk_set_bend.
  intros ((A & A1 & A2 & A3 & (A4 & A5 & A6 & A7)) & C) Ho HM He Hbd Hck Ht. split; [|exact C]. split; [|split; [|split; [|split]]].
  - intros HK. destruct (A HK) as (C1 & C2 & C3). rewrite bound_open in C1 by exact Ho. rewrite bound_closed by exact He.
    split; [apply (lines_mono B M e HM), C1|]. split; [exact C2|intros; lia].
  - intros HK. destruct (A1 HK) as (C1 & _). lia.
  - intros; lia.
  - intros _. exact Hbd.
  - split; [exact A4|]. split; [|split; [intros _; exact Hck|exact A7]].
    intros HK L HL. specialize (A5 HK L HL). destruct (Z.ltb_spec (bend b) 0) as [X|X]; [|lia]. destruct (Z.ltb_spec e 0); [lia|].
    destruct A5 as [A5 A5x].
    assert (Hne : bik b <> []) by (intros E; rewrite E in HL; discriminate).
    destruct (Ht HK Hne) as [Ht1 Ht2].
    split; [rewrite A5; exact Ht1|]. intros EK. destruct (A5x EK) as [I1 _]. split; [exact I1|]. intros _. lia.
Qed.

Lemma en_onCloseList B M b : en B M b -> en B M (onCloseList b).
Proof.
  intros H. unfold onCloseList. cbv zeta. destruct (bloose b || _); [|exact H].
  destruct (en_kids_struct B M b H) as [S7 S8].
  apply en_set_bkids; [apply en_set_bloose, H| | |].
  - rewrite en_eq in H. destruct H as (_ & H). apply allP_map. eapply allP_impl; [|exact H]. intros x Hx. apply en_set_bloose, Hx.
  - rewrite bend_set_bloose. intros He. apply closedL_map; [intros x; apply bend_set_bloose|apply S7, He].
  - rewrite removelast_map. apply closedL_map; [intros x; apply bend_set_bloose|exact S8].
Qed.
Lemma en_set_bik_free B M b ik : freeK (bkind b) -> (bkind b <> LinkReferenceDefinitionKind -> noU ik) -> xk B (bkind b) (bstart b) ik ->
  en B M b -> en B M (set_bik b ik).
Proof.
  intros HK Hn Hx. rewrite !en_eq. destruct b as [K s e bk ik0 a n c l lb]. cbn [set_bik bkind bstart bend bik bkids] in *.
  intros ((_ & _ & _ & A3 & (_ & _ & A6 & (A7 & _))) & C). split; [apply ikOK_free; assumption|exact C].
Qed.
Lemma en_noU B M b : en B M b -> freeK (bkind b) -> bkind b <> LinkReferenceDefinitionKind -> noU (bik b).
Proof. rewrite en_eq. intros ((_ & _ & _ & _ & (A & _)) & _). exact A. Qed.

Lemma bik_set_bik' b v : bik (set_bik b v) = v. Proof. destruct b; reflexivity. Qed.

(* the entries kept by onCloseIndented are among the old ones *)
Lemma trimBlankTail_incl src : forall rk u, In u (trimBlankTail src rk) -> In u rk.
Proof.
  induction rk as [|c r IH]; intros u Hu; [exact Hu|]. cbn [trimBlankTail] in Hu.
  destruct (_ && _); [right; apply IH, Hu|exact Hu].
Qed.
Lemma onCloseIndented_incl src b u : In u (bik (onCloseIndented src b)) -> In u (bik b).
Proof.
  unfold onCloseIndented. cbv zeta. rewrite bik_set_bik'. intros Hu. rewrite <- in_rev in Hu. apply trimBlankTail_incl in Hu. rewrite <- in_rev in Hu.
  destruct (rev (bik b)) as [|l0 [|pv r]] eqn:Er; try exact Hu.
  destruct (_ && _ && _ && _); [|exact Hu]. rewrite <- in_rev in Hu. rewrite (in_rev (bik b)), Er. right. exact Hu.
Qed.

Lemma bdy_src B H e : H <= len B -> bdy B H -> bdy (upto B H) e -> e <= len (upto B H) -> 0 <= H -> bdy B e.
Proof.
  intros HB HH Hb Hle H0. assert (Hl : len (upto B H) = H) by (rewrite ShapesBase.len_upto; lia). rewrite Hl in *.
  destruct Hb as [Hb|[Hb|Hb]]; [left; exact Hb|replace e with H by lia; exact HH|].
  right. right. destruct (Z.lt_ge_cases (e - 1) 0) as [L|L]; [rewrite ShapesBase.at_neg in Hb by lia; congruence|].
  rewrite ShapesBase.at_upto in Hb by lia. exact Hb.
Qed.

(* every result of closing is closed (top level) *)
Lemma lines_ascI B M : forall ik lo, lines B M ik -> (forall u, In u ik -> lo <= istart u) -> lo <= M -> ascI lo M ik.
Proof.
  induction ik as [|u r IH]; intros lo Hl Hlo HM; [exact HM|]. cbn [ascI].
  destruct (lines_entry B M (u :: r) u Hl (or_introl eq_refl)) as (A1 & A2 & A3 & _).
  split; [apply Hlo; left; reflexivity|]. split; [lia|]. apply IH; [eapply lines_tail; exact Hl| |exact A3].
  intros j Hj. eapply lines_sorted; [exact Hl|exact Hj].
Qed.

Lemma closeBlock_closedL B M src e fuel b : 0 <= e -> (1 <= fuel)%nat -> cc b = true -> en B M b -> closedL (closeBlock fuel src b e).
Proof.
  intros He Hf Hc Hb. destruct fuel as [|f]; [lia|]. cbn [closeBlock].
  destruct (isOpen b) eqn:Eo; cbn [negb]; [|unfold isOpen in Eo; apply Z.ltb_ge in Eo; split; [exact Eo|exact I]].
  unfold isOpen in Eo. apply Z.ltb_lt in Eo. cbv zeta.
  assert (Hcl : forall x, bend x = e -> closedL [match lastBlock x with Some c => set_lastBlocks x (closeBlock f src c e) | None => x end]).
  { intros x Ex. split; [|exact I]. cbn beta. destruct (lastBlock x); [rewrite bend_set_lastBlocks|]; lia. }
  rewrite bkind_set_bend.
  destruct (bkind b =? ListKind); [apply Hcl; rewrite bend_onCloseList; apply bend_set_bend|].
  destruct (bkind b =? IndentedCodeBlockKind); [apply Hcl; unfold onCloseIndented; rewrite bend_set_bik; apply bend_set_bend|].
  destruct ((bkind b =? ParagraphKind) || (bkind b =? SetextHeadingKind)) eqn:Ep; [|apply Hcl, bend_set_bend].
  pose proof Hb as Hb'. rewrite en_eq in Hb'. destruct Hb' as ((A & _ & A2 & _) & C).
  assert (HK : bkind b = ParagraphKind).
  { apply orb_true_iff in Ep. destruct Ep as [Ep|Ep]; apply Z.eqb_eq in Ep; [exact Ep|]. exfalso. apply (A2 Eo). exact Ep. }
  destruct (A (or_introl HK)) as (L1 & L2 & L3). rewrite bound_open in L1 by exact Eo. specialize (L3 Eo).
  pose proof (para_no_kids b Hc HK) as Hk.
  unfold onCloseParagraph. rewrite bik_set_bend. destruct (bik b) as [|first rest] eqn:Eb.
  { split; [rewrite bend_set_bend; exact He|exact I]. }
  cbv zeta. rewrite bkind_set_bend, HK. change (ParagraphKind =? SetextHeadingKind) with false. cbv iota.
  rewrite <- Eb. rewrite <- (bik_set_bend b e).
  pose proof (ocp_res_start ParagraphKind (bn b) e M (2 * length src + 10) src (set_bend b e) He ltac:(lia)
                ltac:(rewrite bk_set_bend; exact Hk) (bend_set_bend b e) ltac:(rewrite bkind_set_bend; exact HK) ltac:(destruct b; reflexivity)
                ltac:(rewrite bstart_set_bend; lia)
                ltac:(rewrite bstart_set_bend, bik_set_bend, Eb; apply (lines_ascI B); [exact L1|exact L2|lia]) first rest
                ltac:(rewrite bik_set_bend; exact Eb)) as Hres.
  eapply allP_impl; [|exact Hres]. intros y (Hy & _). exact Hy.
Qed.

Lemma lastI_skipn {A : Type} : True. Proof. exact I. Qed.
Lemma lastI_skipn' : forall n (l : list inline) L, lastI (skipn n l) = Some L -> lastI l = Some L.
Proof.
  induction n as [|n IH]; intros l L H; [exact H|]. destruct l as [|x l]; [discriminate|]. cbn [skipn] in H. specialize (IH l L H).
  unfold lastI in *. cbn [rev]. destruct (rev l) as [|y r]; [discriminate|]. exact IH.
Qed.
Lemma lastI_nonnil (l : list inline) : l <> [] -> exists L, lastI l = Some L.
Proof. intros H. unfold lastI. destruct (rev l) as [|x r] eqn:E; [exfalso; apply H; rewrite <- (rev_involutive l), E; reflexivity|eauto]. Qed.

(* closing a block: the results satisfy the invariant and are closed.  An open paragraph with entries inside the block is
   closed too: then the byte at M (where its last entry ends) must not be ')' *)
Lemma en_closeBlock B M H src e : src = upto B H -> H <= len B -> 0 <= e <= H -> M <= e -> bdy B e -> bdy B H ->
  forall fuel b, (bheight b <= fuel)%nat -> cc b = true -> en B M b -> (opara b -> nb41 B M /\ e = M) ->
  allP (en B M) (closeBlock fuel src b e) /\ closedL (closeBlock fuel src b e).
Proof.
  intros Esrc HB He HM Hbe HbH. induction fuel as [|f IH]; intros b Hh Hcc Hb Ht.
  { destruct (bheight_S b) as (k & Ek). lia. }
  split; [|apply (closeBlock_closedL B M); [lia|lia|exact Hcc|exact Hb]].
  cbn [closeBlock]. destruct (isOpen b) eqn:Eo; cbn [negb]; [|split; [exact Hb|exact I]].
  unfold isOpen in Eo. apply Z.ltb_lt in Eo. cbv zeta.
  destruct (en_kids_struct B M b Hb) as [_ S8].
  assert (Hck : closedL (removelast (bkids b))) by exact S8.
  (* the block itself, closed, before its last child is closed: its children are not all closed yet, so we state en for the
     final block directly *)
  assert (Hfin : forall x, bkind x = bkind b -> bstart x = bstart b -> bend x = e -> (isPS (bkind b) -> False) ->
            (bkind b = ATXHeadingKind -> False) -> (freeK (bkind b) -> bkind b <> LinkReferenceDefinitionKind -> noU (bik x)) ->
            allP (en B M) (bkids x) -> closedL (bkids x) -> xk B (bkind b) (bstart b) (bik x) -> en B M x).
  { intros x K1 K2 K3 NPS NATX HnU Hk Hc HX. rewrite en_eq, K1, K2, K3. split; [|exact Hk]. split; [intros X; destruct (NPS X)|].
    split; [intros X; destruct (NATX X)|]. split; [intros; lia|]. split; [intros _; exact Hbe|]. split; [exact HnU|].
    split; [intros X; destruct (NPS X)|split; [intros _; exact Hc|split; [apply closedL_removelast, Hc|exact HX]]]. }
  pose proof Hb as Hb'. rewrite en_eq in Hb'. destruct Hb' as ((A & A1 & A2 & A3 & (A4 & A5 & A6 & (A7 & A8))) & C).
  (* generic: close the last child first, then the block *)
  assert (Hgen : forall x, bkind x = bkind b -> bstart x = bstart b -> bend x = e -> (isPS (bkind b) -> False) ->
            (freeK (bkind b) -> bkind b <> LinkReferenceDefinitionKind -> noU (bik x)) ->
            allP (en B M) (bkids x) -> closedL (removelast (bkids x)) ->
            (forall c, lastBlock x = Some c -> (bheight c <= f)%nat /\ cc c = true /\ (opara c -> nb41 B M /\ e = M)) ->
            xk B (bkind b) (bstart b) (bik x) ->
            en B M (match lastBlock x with Some c => set_lastBlocks x (closeBlock f src c e) | None => x end)).
  { intros x K1 K2 K3 NPS HnU Hk Hc8 Hlast HX.
    assert (NATX : bkind b = ATXHeadingKind -> False) by (intros X; destruct (A1 X); lia).
    destruct (lastBlock x) as [c|] eqn:El.
    - destruct (Hlast c eq_refl) as (L1 & L2 & L3).
      assert (Enc : en B M c) by (eapply allP_In; [exact Hk|eapply lastBlock_In; exact El]).
      destruct (IH c L1 L2 Enc L3) as [I1 I2].
      pose proof (lastBlock_split x c El) as Es.
      apply Hfin.
      + rewrite bkind_set_lastBlocks. exact K1.
      + rewrite bstart_set_lastBlocks. exact K2.
      + rewrite bend_set_lastBlocks. exact K3.
      + exact NPS.
      + exact NATX.
      + intros F1 F2. unfold set_lastBlocks. rewrite bik_set_bkids. exact (HnU F1 F2).
      + unfold set_lastBlocks. rewrite bkids_set_bkids. rewrite Es in Hk. apply allP_app in Hk. apply allP_app. split; [tauto|exact I1].
      + unfold set_lastBlocks. rewrite bkids_set_bkids. apply closedL_app. split; [exact Hc8|exact I2].
      + unfold set_lastBlocks. rewrite bik_set_bkids. exact HX.
    - assert (Ek : bkids x = []).
      { unfold lastBlock in El. destruct (rev (bkids x)) eqn:Er; [|discriminate]. rewrite <- (rev_involutive (bkids x)), Er. reflexivity. }
      apply Hfin; try assumption; rewrite Ek; exact I. }
  assert (Hlastb : forall c, In c (bkids b) -> (bheight c <= f)%nat /\ cc c = true /\ (opara c -> nb41 B M /\ e = M)).
  { intros c Hin. split; [pose proof (bheight_kid b c Hin); lia|]. split.
    - apply cc_parts in Hcc. destruct Hcc as [_ Hcc']. unfold ccL in Hcc'. rewrite forallb_forall in Hcc'. apply Hcc', Hin.
    - intros Ho. apply Ht. rewrite opara_eq. right. exists c. tauto. }
  rewrite bkind_set_bend.
  destruct (Z.eqb_spec (bkind b) ListKind) as [EL|NL].
  { split; [|exact I].
    assert (NPS : isPS (bkind b) -> False) by (rewrite EL; intros [X|X]; discriminate).
    unfold onCloseList. cbv zeta. destruct (bloose (set_bend b e) || _).
    - apply Hgen.
      + rewrite bkind_set_bkids, bkind_set_bloose. apply bkind_set_bend.
      + rewrite bstart_set_bkids, bstart_set_bloose. apply bstart_set_bend.
      + rewrite bend_set_bkids, bend_set_bloose. apply bend_set_bend.
      + exact NPS.
      + rewrite bik_set_bkids. destruct b; exact A4.
      + rewrite bkids_set_bkids, bk_set_bend. apply allP_map. eapply allP_impl; [|exact C]. intros x Hx. apply en_set_bloose, Hx.
      + rewrite bkids_set_bkids, bk_set_bend, removelast_map. apply closedL_map; [intros x; apply bend_set_bloose|exact S8].
      + intros c Hl. pose proof (lastBlock_In _ _ Hl) as Hin. rewrite bkids_set_bkids, bk_set_bend in Hin. apply in_map_iff in Hin.
        destruct Hin as (c0 & <- & Hin0). destruct (Hlastb c0 Hin0) as (L1 & L2 & L3).
        split; [rewrite bheight_set_bloose; exact L1|]. split; [rewrite cc_set_bloose; exact L2|]. intros Ho. apply L3. destruct c0; exact Ho.
      + rewrite bik_set_bkids. destruct b; exact A8.
    - apply Hgen; try (destruct b; reflexivity); try assumption.
      + destruct b; exact A4.
      + rewrite bk_set_bend. exact C.
      + rewrite bk_set_bend. exact S8.
      + intros c Hl. apply Hlastb. rewrite <- (bk_set_bend b e). eapply lastBlock_In; exact Hl.
      + destruct b; exact A8. }
  destruct (Z.eqb_spec (bkind b) IndentedCodeBlockKind) as [EI|NI].
  { split; [|exact I].
    assert (NPS : isPS (bkind b) -> False) by (rewrite EI; intros [X|X]; discriminate).
    assert (Hfk : freeK (bkind b)) by (rewrite EI; repeat split; discriminate).
    assert (Hnl : bkind b <> LinkReferenceDefinitionKind) by (rewrite EI; discriminate).
    assert (Fx : bkind (onCloseIndented src (set_bend b e)) = bkind b /\ bstart (onCloseIndented src (set_bend b e)) = bstart b /\
                 bend (onCloseIndented src (set_bend b e)) = e /\ bkids (onCloseIndented src (set_bend b e)) = bkids b).
    { unfold onCloseIndented. cbv zeta. rewrite bkind_set_bik, bstart_set_bik, bend_set_bik, bk_set_bik, bkind_set_bend, bstart_set_bend, bend_set_bend, bk_set_bend. tauto. }
    destruct Fx as (X1 & X2 & X3 & X4).
    apply Hgen; try assumption.
    - intros _ _. eapply noU_incl; [|exact (A4 Hfk Hnl)]. intros u Hu. apply onCloseIndented_incl in Hu. rewrite bik_set_bend in Hu. exact Hu.
    - rewrite X4. exact C.
    - rewrite X4. exact S8.
    - intros c Hl. apply Hlastb. rewrite <- X4. eapply lastBlock_In; exact Hl.
    - apply xk_other; rewrite EI; discriminate. }
  destruct ((bkind b =? ParagraphKind) || (bkind b =? SetextHeadingKind)) eqn:Ep.
  2:{ split; [|exact I]. apply orb_false_iff in Ep. destruct Ep as [Ep1 Ep2]. apply Z.eqb_neq in Ep1, Ep2.
      apply Hgen; try (destruct b; reflexivity).
      - intros [X|X]; contradiction.
      - destruct b; exact A4.
      - rewrite bk_set_bend. exact C.
      - rewrite bk_set_bend. exact S8.
      - intros c Hl. apply Hlastb. rewrite <- (bk_set_bend b e). eapply lastBlock_In; exact Hl.
      - destruct b; exact A8. }
  assert (HK : bkind b = ParagraphKind).
  { apply orb_true_iff in Ep. destruct Ep as [Ep|Ep]; apply Z.eqb_eq in Ep; [exact Ep|]. exfalso. apply (A2 Eo). exact Ep. }
  destruct (A (or_introl HK)) as (L1 & L2 & L3). rewrite bound_open in L1 by exact Eo.
  pose proof (para_no_kids b Hcc HK) as Hnk.
  assert (Hb1 : en B M (set_bend b e)).
  { apply en_set_bend_close; try assumption; [lia|rewrite Hnk; exact I|]. intros _ Hne. apply Ht. rewrite opara_eq. left. split; [left; exact HK|split; [exact Eo|exact Hne]]. }
  rewrite onCloseParagraph_run by (rewrite bkind_set_bend, HK; discriminate).
  assert (Hlen : len src = H) by (rewrite Esrc, ShapesBase.len_upto; lia).
  assert (Hls : lines src e (bik (set_bend b e))).
  { rewrite bik_set_bend. apply (lines_agree B src H e); [rewrite Esrc; apply agreeTo_upto, HB|lia|exact Hlen|exact HB|].
    apply (lines_mono B M e HM), L1. }
  apply allP_intro. intros y Hy.
  destruct (ocpRun_spec2 src (set_bend b e) e Hls ltac:(lia) ltac:(rewrite bik_set_bend, bstart_set_bend; exact L2) y Hy)
    as [(K1 & K2 & K3 & K4)|[(pos & n & Ey & Hpos)|Ey]].
  - rewrite en_eq, K2. split; [|exact I]. apply ikOK_free; [rewrite K1; repeat split; discriminate| |intros X; rewrite K1 in X; contradiction|intros; exact I|exact I|].
    + intros _. apply (bdy_src B H); [exact HB|exact HbH|rewrite <- Esrc; exact K3|rewrite <- Esrc; exact K4|lia].
    + split; [intros X; rewrite K1 in X; discriminate|]. intros _ u Hu.
      refine (ocpRun_defs src (set_bend b e) _ _ y Hy K1 u Hu); [|rewrite bkind_set_bend, HK; discriminate].
      intros v Hv. rewrite bik_set_bend in Hv. apply (lines_entry B M (bik b) v L1 Hv).
  - subst y. rewrite bik_set_bend in *. rewrite en_eq.
    assert (F : bkind (set_bik (set_bstart (set_bend b e) pos) (skipn n (bik b))) = bkind b /\
                bstart (set_bik (set_bstart (set_bend b e) pos) (skipn n (bik b))) = pos /\
                bend (set_bik (set_bstart (set_bend b e) pos) (skipn n (bik b))) = e /\
                bik (set_bik (set_bstart (set_bend b e) pos) (skipn n (bik b))) = skipn n (bik b) /\
                bkids (set_bik (set_bstart (set_bend b e) pos) (skipn n (bik b))) = bkids b) by (destruct b; repeat split).
    destruct F as (F1 & F2 & F3 & F4 & F5). rewrite F1, F2, F3, F4, F5. split; [|exact C].
    split; [|split; [|split; [|split]]].
    + intros _. rewrite bound_closed by lia. split; [apply lines_skipn; apply (lines_mono B M e HM), L1|]. split; [exact Hpos|intros; lia].
    + intros E. rewrite HK in E. discriminate.
    + intros; lia.
    + intros _. exact Hbe.
    + split; [intros (X & _); rewrite HK in X; contradiction|]. rewrite Hnk. split; [|split; [intros; exact I|split; [exact I|apply xk_PS; left; exact HK]]].
      intros _ L HL. destruct (Z.ltb_spec e 0); [lia|]. apply lastI_skipn' in HL. pose proof (A5 (or_introl HK) L HL) as X.
      destruct (Z.ltb_spec (bend b) 0); [|lia]. destruct X as [X Xx].
      assert (Hop : opara b).
      { rewrite opara_eq. left. split; [left; exact HK|split; [exact Eo|]]. intros E. unfold lastI in HL. rewrite E in HL. discriminate. }
      destruct (Ht Hop) as [Ht1 Ht2].
      split; [rewrite X; exact Ht1|]. intros EK. destruct (Xx EK) as [I1 _]. split; [exact I1|intros _; lia].
  - subst y. exact Hb1.
Qed.

(* ---- cutting the buffer (makeRoot) ---- *)
Lemma lineOK_shift B n s e : 0 <= n <= s -> n <= len B -> lineOK B s e -> lineOK (from_ B n) (s - n) (e - n).
Proof.
  intros Hn HB (A & A1 & A2 & A3 & A4).
  assert (Hat : forall i, n <= i -> at_ (from_ B n) (i - n) = at_ B i).
  { intros i Hi. rewrite ShapesBase.at_from by lia. f_equal. lia. }
  assert (Hl : len (from_ B n) = len B - n) by (apply ShapesBase.len_from; lia).
  split; [lia|]. split; [lia|]. split; [lia|]. split.
  - intros i Hi. replace i with ((i + n) - n) by lia. rewrite Hat by lia. intros Hz.
    destruct (A3 (i + n) ltac:(lia) Hz) as [E|(E1 & E2 & E3)]; [left; lia|right]. split; [lia|]. split; [exact E2|].
    replace (e - n - 1) with ((e - 1) - n) by lia. rewrite Hat by lia. exact E3.
  - destruct A4 as [A4|[A4 A5]]; [left; lia|right]. split; [lia|]. replace (e - n - 1) with ((e - 1) - n) by lia. rewrite Hat by lia. exact A5.
Qed.

Lemma istart_shiftI n u : istart (shiftI n u) = istart u + n. Proof. destruct u; reflexivity. Qed.
Lemma iend_shiftI n u : 0 <= iend u -> iend (shiftI n u) = iend u + n.
Proof. destruct u as [k s e i r ks]. cbn [shiftI iend]. intros H. destruct (Z.leb_spec 0 e); [reflexivity|lia]. Qed.
Lemma ikind_shiftI' n u : ikind (shiftI n u) = ikind u. Proof. destruct u; reflexivity. Qed.
Lemma iindent_shiftI n u : iindent (shiftI n u) = iindent u. Proof. destruct u; reflexivity. Qed.
Lemma ikids_shiftI n u : ikids u = [] -> ikids (shiftI n u) = []. Proof. destruct u as [k s e i r ks]. cbn. intros ->. reflexivity. Qed.

Lemma lines_shift B n M : 0 <= n <= len B -> forall ik, lines B M ik -> (forall u, In u ik -> n <= istart u) ->
  lines (from_ B n) (M - n) (map (shiftI (- n)) ik).
Proof.
  intros Hn.
  assert (Hat : forall i, n <= i -> at_ (from_ B n) (i - n) = at_ B i).
  { intros i Hi. rewrite ShapesBase.at_from by lia. f_equal. lia. }
  induction ik as [|u r IH]; intros Hl Hlo; [exact I|]. pose proof Hl as (A & A1 & A2). cbn [map lines].
  destruct (lines_entry B M (u :: r) u Hl (or_introl eq_refl)) as (E1 & E2 & E3 & _).
  pose proof (Hlo u (or_introl eq_refl)) as Hu.
  split; [|split].
  - destruct A as [(C & C1 & C2 & C3 & C4 & C5 & C6)|[(C & C1 & C2 & C3 & C4 & C5) Hnx]].
    + left. unfold unpOK. rewrite ikind_shiftI', istart_shiftI, iend_shiftI by lia.
      split; [exact C|]. split; [apply ikids_shiftI, C1|]. split; [lia|]. split; [lia|]. split; [lia|]. split.
      * replace (istart u + - n) with (istart u - n) by lia. replace (iend u + - n) with (iend u - n) by lia. apply lineOK_shift; [lia|lia|exact C5].
      * replace (istart u + - n) with (istart u - n) by lia. rewrite Hat by lia. exact C6.
    + right. split.
      * unfold indOK. rewrite ikind_shiftI', istart_shiftI, iend_shiftI, iindent_shiftI by lia.
        split; [exact C|]. split; [apply ikids_shiftI, C1|]. split; [lia|]. split; [lia|]. split; [|exact C5].
        replace (istart u + - n) with (istart u - n) by lia. rewrite Hat by lia. exact C4.
      * unfold nextIs in *. destruct r as [|v r']; [contradiction|]. cbn [map]. rewrite ikind_shiftI', istart_shiftI, iend_shiftI by lia.
        destruct Hnx as [N1 N2]. split; [exact N1|lia].
  - intros j Hj. apply in_map_iff in Hj. destruct Hj as (j0 & <- & Hj0). destruct (A1 j0 Hj0) as [D1 D2].
    rewrite istart_shiftI, iend_shiftI by lia. split; [lia|]. replace (istart j0 + - n - 1) with ((istart j0 - 1) - n) by lia.
    rewrite Hat by lia. exact D2.
  - apply IH; [exact A2|]. intros x Hx. apply Hlo. right. exact Hx.
Qed.

Lemma ikids_shiftI_map n u : ikids (shiftI n u) = map (shiftI n) (ikids u). Proof. destruct u; reflexivity. Qed.
Lemma xk_shift B n K s ik : 0 <= n <= len B -> n <= s -> xk B K s ik -> xk (from_ B n) K (s + - n) (map (shiftI (- n)) ik).
Proof.
  intros Hn Hs [X1 X2]. split.
  - intros HK u' Hu' Hk'. apply in_map_iff in Hu'. destruct Hu' as (u & <- & Hu). rewrite ikids_shiftI_map in Hk'.
    assert (Hk : ikids u <> []) by (intros E; rewrite E in Hk'; apply Hk'; reflexivity).
    destruct (X1 HK u Hu Hk) as (Y0 & Y1 & Y2 & Y3 & Y4).
    rewrite istart_shiftI. split; [lia|]. split; [|split; [|split]].
    + intros k' Hk2. rewrite ikids_shiftI_map in Hk2. apply in_map_iff in Hk2. destruct Hk2 as (k & <- & Hk2). apply ikids_shiftI, Y1, Hk2.
    + rewrite istart_shiftI, iend_shiftI by lia. lia.
    + intros k' Hk2. rewrite ikids_shiftI_map in Hk2. apply in_map_iff in Hk2. destruct Hk2 as (k & <- & Hk2). destruct (Y3 k Hk2) as [Z1 Z2].
      rewrite !istart_shiftI, iend_shiftI by lia. lia.
    + intros p' Hp' Ht. rewrite istart_shiftI, iend_shiftI in Hp' by lia. rewrite ShapesBase.at_from in Ht by lia.
      destruct (Y4 (n + p') ltac:(lia) Ht) as (k & Hk2 & Hk3). destruct (Y3 k Hk2) as [Z1 Z2].
      exists (shiftI (- n) k). split; [rewrite ikids_shiftI_map; apply in_map, Hk2|]. rewrite istart_shiftI, iend_shiftI by lia. lia.
  - intros HK u' Hu' k' Hk2. apply in_map_iff in Hu'. destruct Hu' as (u & <- & Hu). rewrite ikids_shiftI_map in Hk2. apply in_map_iff in Hk2.
    destruct Hk2 as (k & <- & Hk2). apply ikids_shiftI, (X2 HK u Hu k Hk2).
Qed.

Lemma en_shift B n : 0 <= n <= len B -> forall M M' b, sp M' b -> n <= bstart b -> en B M b ->
  en (from_ B n) (M - n) (shiftB (- n) b).
Proof.
  intros Hn M M'. fix IH 1. intros [K s e bk ik a nn c l lb] HS Hs. cbn [bstart] in Hs. cbn [shiftB en sp] in *.
  intros ((A & A1 & A2 & A3 & A4) & C). destruct HS as (P1 & P2 & _ & P4 & P5).
  assert (Hst : forall x, In x bk -> n <= bstart x).
  { intros x Hx. pose proof (chain_starts _ _ _ x P4 Hx). lia. }
  assert (Hb : bound (M - n) (if 0 <=? e then e + - n else e) = bound M e - n).
  { unfold bound. destruct (Z.leb_spec 0 e) as [L|L].
    - destruct (Z.ltb_spec e 0); [lia|]. destruct (Z.ltb_spec (e + - n) 0); lia.
    - destruct (Z.ltb_spec e 0); [reflexivity|lia]. }
  split.
  - split; [|split; [|split; [|split]]].
    + intros HK. destruct (A HK) as (C1 & C2 & C3). rewrite Hb. split; [apply lines_shift; [exact Hn|exact C1|]|].
      * intros u Hu. specialize (C2 u Hu). lia.
      * split.
        -- intros u Hu. apply in_map_iff in Hu. destruct Hu as (u0 & <- & Hu0). rewrite istart_shiftI. specialize (C2 u0 Hu0). lia.
        -- intros He. destruct (Z.leb_spec 0 e) as [L|L]; [lia|]. specialize (C3 L). lia.
    + intros HK. destruct (A1 HK) as (C1 & C2). destruct (Z.leb_spec 0 e) as [L|L]; [|lia]. split; [lia|].
      destruct C2 as [->|(a0 & t & -> & D1 & D2 & D3 & D4 & D5 & D6)]; [left; reflexivity|right].
      exists (a0 - n), (t - n). split; [unfold mkI; cbn [map shiftI]; destruct (Z.leb_spec 0 t); [|lia]; f_equal; lia|].
      split; [lia|]. split; [lia|]. split; [lia|]. split; [lia|].
      assert (Hat' : forall i, n <= i -> at_ (from_ B n) (i - n) = at_ B i) by (intros i Hi; rewrite ShapesBase.at_from by lia; f_equal; lia).
      split.
      * intros i Hi Hz j Hj. replace j with ((j + n) - n) by lia. rewrite Hat' by lia. apply (D5 (i + n) ltac:(lia)); [|lia].
        replace i with ((i + n) - n) in Hz by lia. rewrite Hat' in Hz by lia. exact Hz.
      * unfold atxTail in *. rewrite ShapesBase.len_from by lia. destruct D6 as [X|[X|[X|[X1 X2]]]]; [left; lia|right; left; lia| |].
        -- destruct (Z.lt_ge_cases t (len B)) as [Lt|Ge]; [|right; left; lia]. right. right. left. rewrite Hat' by lia. exact X.
        -- destruct (Z.eq_dec a0 t) as [Eq|Ne]; [left; lia|]. destruct (Z.lt_ge_cases t (len B)) as [Lt|Ge]; [|right; left; lia].
           right. right. right. replace (t - n - 1) with ((t - 1) - n) by lia. rewrite !Hat' by lia. split; assumption.
    + intros He. apply A2. destruct (Z.leb_spec 0 e); lia.
    + destruct (Z.leb_spec 0 e) as [L|L]; [|intros; lia]. intros _. specialize (A3 L).
      assert (Hne : n <= e) by lia. unfold bdy in *. rewrite ShapesBase.len_from by lia.
      destruct A3 as [X|[X|X]]; [left; lia|right; left; lia|].
      destruct (Z.eq_dec e n) as [->|Nn]; [left; lia|]. right. right. rewrite ShapesBase.at_from by lia. replace (n + (e + - n - 1)) with (e - 1) by lia. exact X.
    + destruct A4 as (A4 & A5 & A6 & (A7 & A8)).
      assert (Hcl : forall l0, (forall x, In x l0 -> In x bk) -> closedL l0 -> closedL (map (shiftB (- n)) l0)).
      { intros l0 Hin H0. unfold closedL. apply allP_map. apply allP_intro. intros x Hx. pose proof (allP_In _ _ _ H0 Hx) as Hb0.
        cbn beta in Hb0. rewrite bend_shiftB. destruct (Z.leb_spec 0 (bend x)); [|lia].
        assert (Hx' : sp M' x) by (eapply allP_In; [exact P5|apply Hin, Hx]). rewrite sp_eq in Hx'. destruct Hx' as (_ & Q & _).
        pose proof (Hst x (Hin x Hx)). lia. }
      split; [|split; [|split]].
      * intros HK HL u Hu. apply in_map_iff in Hu. destruct Hu as (u0 & <- & Hu0). rewrite ikind_shiftI'. apply (A4 HK HL u0 Hu0).
      * intros HK L HL. unfold lastI in HL. rewrite <- map_rev in HL. destruct (rev ik) as [|L0 rr] eqn:Er; [discriminate|]. cbn [map] in HL. inversion HL; subst L.
        assert (HinL : In L0 ik) by (apply in_rev; rewrite Er; left; reflexivity).
        destruct (A HK) as (C1 & C2 & C3). destruct (lines_entry B _ ik L0 C1 HinL) as (E1 & E2 & E3 & _). pose proof (C2 L0 HinL) as E4.
        assert (HL0 : lastI ik = Some L0) by (unfold lastI; rewrite Er; reflexivity). specialize (A5 HK L0 HL0).
        destruct A5 as [A5 A5x]. split.
        2:{ intros EK. destruct (A5x EK) as [(i0 & Hi0 & Hnb) Hend]. split.
            - exists (i0 - n). rewrite istart_shiftI, iend_shiftI by lia. split; [lia|]. rewrite ShapesBase.at_from by lia.
              replace (n + (i0 - n)) with i0 by lia. exact Hnb.
            - rewrite iend_shiftI by lia. destruct (Z.leb_spec 0 e) as [Le|Le]; [intros _; specialize (Hend Le); lia|intros; lia]. }
        rewrite iend_shiftI by lia. destruct (Z.leb_spec 0 e) as [Le|Le].
        -- destruct (Z.ltb_spec e 0); [lia|]. destruct (Z.ltb_spec (e + - n) 0); [lia|]. unfold nb41 in *. rewrite ShapesBase.len_from by lia.
           destruct A5 as [X|X]; [left; lia|]. destruct (Z.lt_ge_cases (iend L0) (len B)); [|left; lia]. right. rewrite ShapesBase.at_from by lia.
           replace (n + (iend L0 + - n)) with (iend L0) by lia. exact X.
        -- destruct (Z.ltb_spec e 0); [|lia]. lia.
      * destruct (Z.leb_spec 0 e) as [Le|Le]; [|intros; lia]. intros _. apply Hcl; [tauto|apply A6, Le].
      * split; [rewrite removelast_map; apply Hcl; [intros x Hx; apply removelast_In, Hx|exact A7]|apply xk_shift; assumption].
  - clear A A1 A2 A3 A4 P4. induction bk as [|x r IHr]; [exact I|]. destruct C as [C1 C2]. destruct P5 as [Q1 Q2]. cbn [map allP]. split.
    + apply IH; [exact Q1|apply Hst; left; reflexivity|exact C1].
    + apply IHr; [exact Q2|exact C2|]. intros y Hy. apply Hst. right. exact Hy.
Qed.
