From Coq Require Import List ZArith Lia Bool.
Import ListNotations.
Require Import Base Tables Utf8 Tree Rdr Link Collect Html Recog Inl3a Inl3b Inl3c Inl3d Inl3e Driver.
Require Import ShapesBase ShapesR Leaf3e RdrBound IFBase IFLink IFTokDef IFFrame IFTokAux.
Open Scope Z_scope.

(* ================================================================ the cursor upos never moves backwards *)
Definition um (st st' : ist) : Prop := upos st <= upos st'.
Lemma um_refl st : um st st. Proof. unfold um. lia. Qed.
Lemma um_trans a b c : um a b -> um b c -> um a c. Proof. unfold um. lia. Qed.
Lemma um_ux st st' : ux st st' -> um st st'. Proof. unfold um, ux. lia. Qed.

Lemma um_advanceTo X p : 0 <= upos X <= len (unp X) -> um X (advanceTo X p).
Proof. intros H. destruct (advanceTo_facts X p (mkI 0 0 0) H) as [A _]. exact A. Qed.
Lemma um_collectCodeSpan st a b c d : um st (collectCodeSpan st a b c d).
Proof. unfold um. rewrite collectCodeSpan_upos. destruct (_ =? 0); lia. Qed.

(* states built from a base state st2 by the setters that touch neither upos nor unp *)
Lemma um_link st st1 X kind odi p : fr st st1 -> ux st st1 -> 0 <= upos st <= len (unp st) ->
  upos X = upos st1 -> unp X = unp st1 -> um st (finishLink (advanceTo X p) kind odi).
Proof.
  intros [_ F] Hx Hu E1 E2. unfold ux in Hx. eapply um_trans; [|apply um_ux, ux_finishLink].
  eapply um_trans; [|apply um_advanceTo; rewrite E1, E2, F, Hx; exact Hu]. unfold um. rewrite E1, Hx. lia.
Qed.

Lemma um_parseEndBracketF rf tf st start : 0 <= upos st <= len (unp st) -> um st (fst (parseEndBracketF rf tf st start)).
Proof.
  intros Hu. unfold parseEndBracketF. cbv zeta.
  pose proof (fr_lookFor st) as F1. pose proof (ux_lookFor st) as X1. destruct (lookForLinkOrImage st) as [st1 odi]. cbn [fst] in F1, X1.
  destruct (odi <? 0); [cbn [fst]; apply um_ux; eapply ux_trans; [exact X1|apply ux_addText]|].
  assert (Hfail : um st (setStk (addText st1 start (start + 1)) (delStack (stk st1) odi (odi + 1)))).
  { apply um_ux. eapply ux_trans; [exact X1|]. eapply ux_trans; [apply ux_addText|reflexivity]. }
  match goal with |- context [match ?X with Some _ => _ | None => _ end] => destruct X as [[[[[ispan dspan] dtext] tspan] ttext]|] end.
  - match goal with |- context [wrap ?s ?k ?a ?b] => pose proof (fr_wrap s k a b) as [Fw1 Fw2]; pose proof (ux_wrap s k a b) as Xw;
      destruct (wrap s k a b) as [st2 lid]; cbn [fst] in Fw1, Fw2, Xw end.
    cbn [fst]. unfold ux in Xw.
    destruct (spanValid dspan); destruct (spanValid tspan); (eapply um_link; [exact F1|exact X1|exact Hu|exact Xw|exact Fw2]).
  - match goal with |- um st (fst (match ?X with pair _ _ => _ end)) => destruct X as [lspan linner] end.
    match goal with |- um st (fst (if ?c then _ else _)) => destruct c end.
    + destruct (negb (matchRef _ _)); [cbn [fst]; exact Hfail|].
      match goal with |- context [wrap ?s ?k ?a ?b] => pose proof (ux_wrap s k a b) as Xw; destruct (wrap s k a b) as [st2 lid]; cbn [fst] in Xw end.
      cbn [fst]. apply um_ux. eapply ux_trans; [exact X1|]. eapply ux_trans; [|apply ux_finishLink]. exact Xw.
    + destruct (spanValid lspan).
      * destruct (negb (matchRef _ _)); [cbn [fst]; exact Hfail|].
        match goal with |- context [wrap ?s ?k ?a ?b] => pose proof (fr_wrap s k a b) as [Fw1 Fw2]; pose proof (ux_wrap s k a b) as Xw;
          destruct (wrap s k a b) as [st2 lid]; cbn [fst] in Fw1, Fw2, Xw end.
        cbn [fst]. unfold ux in Xw. eapply um_link; [exact F1|exact X1|exact Hu|exact Xw|exact Fw2].
      * destruct (negb (matchRef _ _)); [cbn [fst]; exact Hfail|].
        match goal with |- context [wrap ?s ?k ?a ?b] => pose proof (ux_wrap s k a b) as Xw; destruct (wrap s k a b) as [st2 lid]; cbn [fst] in Xw end.
        cbn [fst]. apply um_ux. eapply ux_trans; [exact X1|]. eapply ux_trans; [|apply ux_finishLink]. exact Xw.
Qed.

Lemma upos_addText st a b : upos (addText st a b) = upos st. Proof. apply ux_addText. Qed.
Lemma upos_addNode st k a b ks : upos (fst (addNode st k a b ks)) = upos st. Proof. apply ux_addNode. Qed.
Lemma unp_addText st a b : unp (addText st a b) = unp st. Proof. apply fr_addText. Qed.
Lemma unp_addNode st k a b ks : unp (fst (addNode st k a b ks)) = unp st. Proof. apply fr_addNode. Qed.
Ltac ums := unfold um; repeat (first [rewrite upos_addText | rewrite upos_addNode | progress cbn [upos setStk setIgn setRk]]); lia.

Lemma um_istepF rf tf st pos ps : 0 <= upos st <= len (unp st) -> um st (fst (fst (istepF rf tf st pos ps))).
Proof.
  intros Hu. unfold istepF. cbv zeta.
  destruct (_ || _).
  { pose proof (ux_parseDelimiterRun (addText st ps pos) pos) as H. destruct (parseDelimiterRun _ pos) as [st1 e]. cbn [fst] in *.
    apply um_ux. eapply ux_trans; [apply ux_addText|exact H]. }
  destruct (_ =? 91).
  { match goal with |- context [addNode ?s ?k ?a ?b ?c] => pose proof (ux_addNode s k a b c) as H; destruct (addNode s k a b c) as [st1 id]; cbn [fst] in H end.
    cbn [fst]. apply um_ux. eapply ux_trans; [apply ux_addText|]. eapply ux_trans; [exact H|reflexivity]. }
  destruct (_ =? 93).
  { pose proof (um_parseEndBracketF rf tf (addText st ps pos) pos ltac:(rewrite upos_addText, unp_addText; exact Hu)) as H.
    destruct (parseEndBracketF rf tf _ pos) as [st1 e]. cbn [fst] in *. eapply um_trans; [apply um_ux, ux_addText|exact H]. }
  destruct (_ =? 33).
  { destruct (_ || _); [cbn [fst]; apply um_refl|].
    match goal with |- context [addNode ?s ?k ?a ?b ?c] => pose proof (ux_addNode s k a b c) as H; destruct (addNode s k a b c) as [st1 id]; cbn [fst] in H end.
    cbn [fst]. apply um_ux. eapply ux_trans; [apply ux_addText|]. eapply ux_trans; [exact H|reflexivity]. }
  destruct (_ =? 32).
  { destruct (parseHardLineBreakSpace _) as [e ok]. destruct (_ && _); cbn [fst]; ums. }
  destruct (_ =? 96).
  { destruct (parseCodeSpan _ _ _) as [[cS cE] sE]. destruct (0 <=? sE); cbn [fst]; [|apply um_refl].
    eapply um_trans; [apply um_ux, ux_addText|apply um_collectCodeSpan]. }
  destruct (_ =? 60).
  { destruct (0 <=? _); [cbn [fst]; ums|]. destruct (parseHTMLTag _ _) as [ts te]. destruct (negb _); cbn [fst]; [apply um_refl|].
    eapply um_trans; [|apply um_advanceTo; rewrite upos_addNode, upos_addText, unp_addNode, unp_addText; exact Hu]. ums. }
  destruct (_ =? 92).
  { pose proof (ux_parseBackslash (addText st ps pos) pos) as H. destruct (parseBackslash _ pos) as [st1 e]. cbn [fst] in *.
    apply um_ux. eapply ux_trans; [apply ux_addText|exact H]. }
  destruct (_ =? 38). { destruct (_ <? 0); cbn [fst]; ums. }
  destruct (_ =? 10). { cbn [fst]. destruct (negb _); ums. }
  destruct (_ =? 13). { cbn [fst]. destruct (negb _); ums. }
  cbn [fst]. apply um_refl.
Qed.

Lemma um_iloopF rf tf : forall fuel st pos ps, 0 <= upos st -> um st (fst (iloopF rf tf fuel st pos ps)).
Proof.
  induction fuel as [|f IH]; intros st pos ps H0; [apply um_refl|]. cbn [iloopF].
  destruct (Z.ltb_spec (upos st) (len (unp st))) as [L|L]; cbn [andb]; [|apply um_refl].
  destruct (pos <? spanEnd st); [|apply um_refl].
  pose proof (um_istepF rf tf st pos ps ltac:(lia)) as H. destruct (istepF rf tf st pos ps) as [[st1 p1] ps1]. cbn [fst] in H.
  eapply um_trans; [exact H|apply IH]. unfold um in H. lia.
Qed.
