(* IFull.v -- T71: the list-item clause of C09 through the inline pass and the renderer.  For every bullet / ordered marker mk (delimiter
   delim), N in 1..4 and every tab-free document D with okDoc D whose marker line is not a thematic break (IFullDefs.itemHyps):

   (1) parseFull_item : parseFull_item_statement
         exists lbL lbI, parseFull (item mk N D) =
           ([itemRoot mk N delim D (looseOf (itemKids K D (fst (parseBlocks D)))) lbL lbI (itemKids3 K D (fst (parseFull D)))], 0),  K = len mk + N
       one list > one item > ListMarker :: the rewritten root blocks of D under iB3 (positions by sigmaK K D, ends by the end map, Text and
       RawHTML nodes that span several lines cut after every line feed).  IFull4.parseFull_item_final: the same with the looseness read
       off the final children (looseOf (itemKids3 K D (fst (parseFull D)))), IFull4.looseOf_final.
   (2) renderDoc_item : renderDoc_item_statement          (safe mode: ignoreRaw c = true)
         renderDoc c (item mk N D) =
           listOpen c mk delim ++ openTag c "li" ++ concat (renderPiecesT c D (negb loose)) ++ closeTag c "li" ++ listClose c delim
       listOpen = "<ul>" for a bullet, "<ol>" resp. "<ol start="n">" (n = mkNumber mk <> 1) for an ordered marker; renderPiecesT c D t are the
       renderings of the root blocks of D below a parent with tightness t (renderB ... parentTight := t): in a tight list (loose = false)
       a root paragraph renders without <p>, everything else as in renderDoc c D = joinBlocks (renderPiecesT c D false).
   Route: ItemSimMain.parseBlocks_item (block layer, T65) -> QInlCore.parseInlines_quote_core (the abstract core of T64, unchanged) with
   IInlBytesInst (SGood / GapSp / GapNoParen for item mk N D: the gaps are runs of spaces) and IFull3.leaf_hypsI -> IFull1.parseFull_item_of
   -> IRender.renderDoc_item_of_tree_statement (IRender2: QRender2/3 for an arbitrary position map). *)
From Coq Require Import List ZArith Lia Bool.
Import ListNotations.
Require Import Base Tree LP Driver Inl3e Render QuoteSimDefs ItemSimDefs IFullDefs IFull1 IFull3 IFull4 IRender.
Open Scope Z_scope.

Theorem renderDoc_item : renderDoc_item_statement.
Proof. exact (renderDoc_item_of_tree_statement parseFull_item). Qed.
Print Assumptions renderDoc_item.

(* renderDoc of D itself in the same vocabulary *)
Lemma renderDoc_piecesT c D : renderDoc c D = joinBlocks (renderPiecesT c D false).
Proof. unfold renderDoc, renderPiecesT. destruct (parseFull D). reflexivity. Qed.

(* (2) with the looseness read off the final tree *)
Theorem renderDoc_item_final : forall c mk delim N D, ignoreRaw c = true -> itemHyps mk delim N D ->
  let loose := looseOf (itemKids3 (len mk + N) D (fst (parseFull D))) in
  renderDoc c (item mk N D) =
    listOpen c mk delim ++ openTag c s_li ++ concat (renderPiecesT c D (negb loose)) ++ closeTag c s_li ++ listClose c delim.
Proof. intros c mk delim N D Hc HH. cbv zeta. rewrite looseOf_final. apply (renderDoc_item c mk delim N D Hc HH). Qed.
Print Assumptions renderDoc_item_final.
