From Coq Require Import List ZArith Lia Bool.
Import ListNotations.
Require Import Base Tree Rdr Link Collect LP Rules Leaf3e RdrBound L2Kind L2CC BSDef BSRdr BSRdr2 BSTree.
Open Scope Z_scope.

Lemma sp_leaf_closed M x : bkids x = [] -> 0 <= bstart x -> bstart x <= bend x -> bend x <= M -> sp M x.
Proof. intros Hk A B C. rewrite sp_eq, Hk. split; [lia|]. split; [right; lia|]. split; [intros; lia|]. split; exact I. Qed.
Lemma sp_refDef M s d kids : 0 <= s <= M -> (d < 0 \/ s <= d <= M) -> sp M (refDefBlock s d kids).
Proof. intros A B. unfold refDefBlock. cbn [sp chain allP]. repeat split; try lia; try discriminate. Qed.

Lemma cut_fields orig pos ik : bkids (set_bik (set_bstart orig pos) ik) = bkids orig /\ bend (set_bik (set_bstart orig pos) ik) = bend orig /\
  bstart (set_bik (set_bstart orig pos) ik) = pos.
Proof. destruct orig; repeat split. Qed.

(* appending one block to an ordered result *)
Lemma res_snoc M lo pe result x : allP (sp M) result -> chain lo pe result -> run lo result <= bstart x -> sp M x ->
  (pe < 0 \/ bend x <= pe) ->
  allP (sp M) (result ++ [x]) /\ chain lo pe (result ++ [x]) /\ run lo (result ++ [x]) = Z.max (bstart x) (bend x).
Proof.
  intros A B C D E. split; [apply allP_app; cbn [allP]; tauto|]. split.
  - apply chain_app. split; [exact B|]. cbn [chain]. tauto.
  - rewrite run_app. reflexivity.
Qed.

Section Ocp.
  Variables e pe : Z.
  Hypothesis Hpe : pe < 0 \/ e <= pe.
  Notation RBe := (RB e).

  Lemma sp_ocp : forall fuel rfuel src orig r result lo,
    bkids orig = [] -> bend orig = e -> 0 <= bstart orig -> bstart orig <= r_pos r -> good r -> RBe r ->
    allP (sp e) result -> chain lo pe result -> run lo result <= bstart orig ->
    allP (sp e) (ocp_loop fuel rfuel src orig None r result) /\ chain lo pe (ocp_loop fuel rfuel src orig None r result).
  Proof.
    induction fuel as [|f IH]; intros rfuel src orig r result lo Hk He H0 Hp Hg HR Hres Hch Hrun.
    assert (He0 : 0 <= e) by (destruct HR as (_ & B & _); lia).
    assert (HB1 : -1 <= e) by lia.
    assert (Hso : sp e orig) by (apply sp_leaf_closed; [exact Hk|exact H0|destruct HR as (_ & B & _); lia|lia]).
    assert (Hkeep : allP (sp e) (result ++ [orig]) /\ chain lo pe (result ++ [orig])).
    { destruct (res_snoc e lo pe result orig Hres Hch Hrun Hso ltac:(rewrite He; exact Hpe)) as (A & B & _). tauto. }
    { cbn [ocp_loop]. exact Hkeep. }
    assert (He0 : 0 <= e) by (destruct HR as (_ & B & _); lia).
    assert (HB1 : -1 <= e) by lia.
    assert (Hso : sp e orig) by (apply sp_leaf_closed; [exact Hk|exact H0|destruct HR as (_ & B & _); lia|lia]).
    assert (Hkeep : allP (sp e) (result ++ [orig]) /\ chain lo pe (result ++ [orig])).
    { destruct (res_snoc e lo pe result orig Hres Hch Hrun Hso ltac:(rewrite He; exact Hpe)) as (A & B & _). tauto. }
    cbn [ocp_loop]. cbv zeta.
    destruct (parseLinkLabel_spec rfuel r Hg) as (Hg1 & Ha1 & Hv1). pose proof (RB_parseLinkLabel e rfuel r HR) as HR1.
    destruct (parseLinkLabel rfuel r) as [[lspan linner] r1]. cbn [fst snd] in Hg1, Ha1, Hv1, HR1.
    destruct (negb (spanValid lspan)) eqn:Ev; [exact Hkeep|]. apply negb_false_iff in Ev. destruct (Hv1 Ev) as [Es L1]. clear Hv1.
    set (s := fst lspan) in *.
    assert (Hs0 : 0 <= s <= e) by (rewrite Es; destruct HR as (_ & B & _); lia).
    destruct (good_current' r1 Hg1) as [Hg2 Ha2]. pose proof (RB_current e r1 HR1) as HR2.
    destruct (current r1) as [c r2]. cbn [snd] in Hg2, Ha2, HR2. destruct (negb (c =? 58)); [exact Hkeep|].
    destruct (good_next' r2 Hg2) as [Hg3 Ha3]. pose proof (RB_next' e r2 HR2) as HR3.
    destruct (next r2) as [? r3]. cbn [snd] in Hg3, Ha3, HR3.
    destruct (good_skipLinkSpace rfuel r3 Hg3) as [Hg4 Ha4]. pose proof (RB_skipLinkSpace e rfuel r3 HR3) as HR4.
    destruct (skipLinkSpace rfuel r3) as [ok r4]. cbn [snd] in Hg4, Ha4, HR4. destruct (negb ok); [exact Hkeep|].
    destruct (good_parseLinkDestination rfuel r4 Hg4) as [Hg5 Ha5]. pose proof (RB_parseLinkDestination e rfuel r4 HR4) as HR5.
    destruct (parseLinkDestination rfuel r4) as [[dspan dtext] r5]. cbn [snd] in Hg5, Ha5, HR5.
    destruct (negb (spanValid dspan)); [exact Hkeep|].
    assert (L5 : LB s r5).
    { rewrite Es. eapply LB_adv; [|exact Ha5]. eapply LB_adv; [|exact Ha4]. eapply LB_adv; [|exact Ha3]. eapply LB_adv; [|exact Ha2]. exact L1. }
    destruct (readEOL_spec rfuel r5 Hg5) as (Hg6 & Ha6 & Hd). pose proof (RB_readEOL e HB1 rfuel r5 HR5) as [HR6 Hde].
    destruct (readEOL rfuel r5) as [destEOL r6]. cbn [fst snd] in Hg6, Ha6, Hd, HR6, Hde.
    assert (L6 : LB s r6) by (eapply LB_adv; eassumption).
    assert (Hd' : destEOL < 0 \/ s <= destEOL <= r_pos r6) by (destruct Hd as [Hd|[Hd1 Hd2]]; [left; exact Hd|right; split; [apply Hd2, L5|exact Hd1]]).
    destruct (good_current' r6 Hg6) as [Hg7 Ha7]. pose proof (RB_current e r6 HR6) as HR7.
    destruct (current r6) as [c6 r7]. cbn [snd] in Hg7, Ha7, HR7.
    destruct (_ && _ && _); [exact Hkeep|].
    set (labelInline := Inl LinkLabelKind _ _ 0 _ _). set (destInline := Inl LinkDestinationKind _ _ 0 [] _).
    assert (Hrs : run lo result <= s) by lia.
    destruct (res_snoc e lo pe result (refDefBlock s destEOL [labelInline; destInline]) Hres Hch Hrs) as (H2a & H2b & H2c).
    { apply sp_refDef; [exact Hs0|lia]. }
    { unfold refDefBlock. cbn [bend]. lia. }
    unfold refDefBlock in H2c at 2 3. cbn [bstart bend] in H2c.
    assert (H2 : allP (sp e) (result ++ [refDefBlock s destEOL [labelInline; destInline]]) /\
                 chain lo pe (result ++ [refDefBlock s destEOL [labelInline; destInline]])) by tauto.
    assert (P6 : s <= r_pos r6) by apply L6.
    destruct (good_skipLinkSpace rfuel r7 Hg7) as [Hg8 Ha8]. pose proof (RB_skipLinkSpace e rfuel r7 HR7) as HR8.
    destruct (skipLinkSpace rfuel r7) as [ok2 r8]. cbn [snd] in Hg8, Ha8, HR8.
    destruct (negb ok2); [exact H2|].
    destruct (good_parseLinkTitle rfuel r8 Hg8) as [Hg9 Ha9]. pose proof (RB_parseLinkTitle e rfuel r8 HR8) as HR9.
    destruct (parseLinkTitle rfuel r8) as [[tspan ttext] r9]. cbn [snd] in Hg9, Ha9, HR9.
    assert (Hcut6 : forall ik', let o := set_bik (set_bstart orig (r_pos r6)) ik' in
              bkids o = [] /\ bend o = e /\ 0 <= bstart o /\ bstart o <= r_pos r6 /\ bstart o = r_pos r6).
    { intros ik' o. destruct (cut_fields orig (r_pos r6) ik') as (A & B & C). fold o in A, B, C. rewrite A, B, C. repeat split; try assumption; lia. }
    destruct (negb (spanValid tspan)).
    { destruct (destEOL <? 0) eqn:Ed; [exact Hkeep|]. apply Z.ltb_ge in Ed. destruct (nodeIndexForPosition (bik orig) (r_pos r6) <? 0); [exact H2|].
      destruct (Hcut6 (from_ (bik orig) (nodeIndexForPosition (bik orig) (r_pos r6)))) as (C1 & C2 & C3 & C4 & C5).
      apply IH; try assumption; try tauto. rewrite H2c, C5. lia. }
    assert (L9 : LB s r9).
    { eapply LB_adv; [|exact Ha9]. eapply LB_adv; [|exact Ha8]. eapply LB_adv; [|exact Ha7]. exact L6. }
    destruct (readEOL_spec rfuel r9 Hg9) as (Hg10 & Ha10 & Ht). pose proof (RB_readEOL e HB1 rfuel r9 HR9) as [HR10 Hte].
    destruct (readEOL rfuel r9) as [titleEOL r10]. cbn [fst snd] in Hg10, Ha10, Ht, HR10, Hte.
    assert (L10 : LB s r10) by (eapply LB_adv; eassumption).
    destruct (titleEOL <? 0) eqn:Et.
    { destruct (destEOL <? 0) eqn:Ed; [exact Hkeep|]. apply Z.ltb_ge in Ed. destruct (nodeIndexForPosition (bik orig) (r_pos r6) <? 0); [exact H2|].
      destruct (Hcut6 (from_ (bik orig) (nodeIndexForPosition (bik orig) (r_pos r6)))) as (C1 & C2 & C3 & C4 & C5).
      rewrite app_assoc.
      match goal with |- allP _ (_ ++ [?o]) /\ _ => destruct (res_snoc e lo pe _ o H2a H2b) as (A & B & _) end; try tauto.
      - rewrite H2c, C5. lia.
      - apply sp_leaf_closed; [exact C1|exact C3|rewrite C2, C5; destruct HR6 as (_ & B & _); lia|lia].
      - rewrite C2. exact Hpe. }
    apply Z.ltb_ge in Et.
    assert (Ht' : s <= titleEOL <= r_pos r10) by (destruct Ht as [Ht|[Ht1 Ht2]]; [lia|split; [apply Ht2, L9|exact Ht1]]).
    set (titleInline := Inl LinkTitleKind _ _ 0 [] _).
    destruct (res_snoc e lo pe result (refDefBlock s titleEOL [labelInline; destInline; titleInline]) Hres Hch Hrs) as (H3a & H3b & H3c).
    { apply sp_refDef; [exact Hs0|lia]. }
    { unfold refDefBlock. cbn [bend]. lia. }
    unfold refDefBlock in H3c at 2 3. cbn [bstart bend] in H3c.
    destruct (nodeIndexForPosition (bik orig) (r_pos r10) <? 0); [tauto|].
    destruct (cut_fields orig (r_pos r10) (from_ (bik orig) (nodeIndexForPosition (bik orig) (r_pos r10)))) as (C1 & C2 & C3).
    apply IH; try assumption.
    - rewrite C1. exact Hk.
    - rewrite C2. exact He.
    - rewrite C3. destruct L10. lia.
    - rewrite C3. lia.
    - rewrite H3c, C3. lia.
  Qed.
End Ocp.
