From Coq Require Import List ZArith Lia Bool.
Import ListNotations.
Require Import Base Tree Rdr Link Collect Html ShapesBase ShapesR IFBase IFLink IFHtml EolCRLFDefs EolCRLFSimBytes EolCRLFSimStream
  EolGenCrlfRdrDefs EolGenCrlfRdrStep EolGenCrlfRdrNext EolGenCrlfRdrLink EolGenCrlfRdrLink2 EolGenCrlfRdrColl EolCRLFFullHtml1.
Open Scope Z_scope.

(* C14 (ii), CRLF clause: parseHTMLAttribute, parseHTMLOpenTag, parseHTMLClosingTag on the two readers. *)

Section HtmlSim2.
  Variable R : bytes.
  Variable Eb : Z.
  Hypothesis R13 : ~ In 13 R.
  Notation P := (phiP R).
  Notation R' := (crlf R).
  Notation F := (phiI R).
  Notation RR := (RR R Eb).
  Notation RM := (RM R Eb).
  Notation PVc := (PVc R).
  Notation SPI := (SPI R Eb).
  Notation W := (W R Eb).

  Ltac f0 HW := exfalso; destruct (W_PL R Eb _ _ HW) as [?P1 ?P2]; first [eapply (fuel0 R); eassumption|eapply (fuel0 R'); eassumption].
  Ltac done2 H := cbn [fst snd]; split; [reflexivity|exact H].

  Lemma parseHTMLAttribute_sim f f' r r' : RR r r' -> nu R r < Z.of_nat f -> nu R' r' < Z.of_nat f' ->
    fst (parseHTMLAttribute f' r') = fst (parseHTMLAttribute f r) /\ RR (snd (parseHTMLAttribute f r)) (snd (parseHTMLAttribute f' r')).
  Proof.
    intros H Hn Hn'. unfold parseHTMLAttribute. destruct (current r) as [c r1] eqn:Ec. destruct (current r') as [c' r1'] eqn:Ec'.
    destruct (currentE_RR R Eb R13 _ _ _ _ _ _ H Ec Ec') as (-> & H1 & Hc & N1 & N1' & _).
    rewrite m13_letter, !m13_eqb by discriminate.
    destruct (negb (isASCIILetter c) && negb (c =? 95) && negb (c =? 58)) eqn:Et; [done2 H1|].
    assert (N10 : c <> 10) by (intros ->; discriminate Et).
    destruct (next r1) as [ok r2] eqn:En. destruct (next r1') as [ok' r2'] eqn:En'.
    destruct (nextE_RR R Eb _ _ _ _ _ _ H1 ltac:(rewrite Hc; exact N10) En En') as (-> & H2 & _ & [U1 U2] & [U1' U2']).
    destruct ok; cbn [negb]; [|done2 H2]. clear U2 U2'.
    (* the attribute name *)
    destruct (RR_PL R Eb _ _ H2) as [Q2 Q2'].
    destruct (attrName_loop_sim R Eb R13 f' f r2 r2' H2 ltac:(lia) ltac:(lia)) as [Ea H3].
    pose proof (prog_nu R _ _ (attrName_loop_prog R f r2 Q2)) as G3. pose proof (prog_nu R' _ _ (attrName_loop_prog R' f' r2' Q2')) as G3'.
    destruct (attrName_loop f r2) as [cont r3]. destruct (attrName_loop f' r2') as [cont' r3']. cbn [fst snd] in Ea, H3, G3, G3'. subst cont'.
    destruct cont; cbn [negb]; [|done2 H3].
    (* optional value *)
    destruct (RR_PL R Eb _ _ H3) as [Q3 Q3'].
    destruct (skipLinkSpace_sim R Eb R13 f f' r3 r3' H3 ltac:(lia) ltac:(lia)) as [Es H4].
    pose proof (prog_nu R _ _ (skipLinkSpace_prog R f r3 Q3)) as G4. pose proof (prog_nu R' _ _ (skipLinkSpace_prog R' f' r3' Q3')) as G4'.
    destruct (skipLinkSpace f r3) as [ok2 r4]. destruct (skipLinkSpace f' r3') as [ok2' r4']. cbn [fst snd] in Es, H4, G4, G4'. subst ok2'.
    destruct ok2; cbn [negb]; [|done2 H3].
    destruct (current r4) as [c2 r5] eqn:Ec2. destruct (current r4') as [c2' r5'] eqn:Ec2'.
    destruct (currentE_RR R Eb R13 _ _ _ _ _ _ H4 Ec2 Ec2') as (-> & H5 & Hc5 & N5 & N5' & _).
    rewrite m13_eqb by discriminate. destruct (Z.eqb_spec c2 61) as [->|N61]; cbn [negb]; [|done2 H3].
    destruct (next r5) as [ok3 r6] eqn:En5. destruct (next r5') as [ok3' r6'] eqn:En5'.
    destruct (nextE_RR R Eb _ _ _ _ _ _ H5 ltac:(rewrite Hc5; discriminate) En5 En5') as (-> & H6 & _ & [V1 V2] & [V1' V2']).
    destruct ok3; cbn [negb]; [|done2 H6]. clear V2 V2'.
    destruct (RR_PL R Eb _ _ H6) as [Q6 Q6'].
    destruct (skipLinkSpace_sim R Eb R13 f f' r6 r6' H6 ltac:(lia) ltac:(lia)) as [Es2 H7].
    pose proof (prog_nu R _ _ (skipLinkSpace_prog R f r6 Q6)) as G7. pose proof (prog_nu R' _ _ (skipLinkSpace_prog R' f' r6' Q6')) as G7'.
    destruct (skipLinkSpace f r6) as [ok4 r7]. destruct (skipLinkSpace f' r6') as [ok4' r7']. cbn [fst snd] in Es2, H7, G7, G7'. subst ok4'.
    destruct ok4; cbn [negb]; [|done2 H7].
    destruct (current r7) as [c3 r8] eqn:Ec3. destruct (current r7') as [c3' r8'] eqn:Ec3'.
    destruct (currentE_RR R Eb R13 _ _ _ _ _ _ H7 Ec3 Ec3') as (-> & H8 & Hc8 & N8 & N8' & _).
    rewrite !(m13_eqb c3) by discriminate. rewrite m13_unq.
    destruct ((c3 =? 39) || (c3 =? 34)) eqn:Eq.
    - assert (Nq : c3 <> 10 /\ c3 <> 13) by (split; intros ->; discriminate Eq). destruct Nq as [Nq1 Nq2].
      rewrite (m13_n c3 Nq1).
      destruct (next r8) as [ok5 r9] eqn:En8. destruct (next r8') as [ok5' r9'] eqn:En8'.
      destruct (nextE_RR R Eb _ _ _ _ _ _ H8 ltac:(rewrite Hc8; exact Nq1) En8 En8') as (-> & H9 & _ & [X1 X2] & [X1' X2']).
      destruct ok5; cbn [negb]; [|done2 H9].
      apply (untilQuote_sim R Eb R13); [left; exact H9|exact Nq1|exact Nq2|lia|lia].
    - destruct (isUnquotedAttributeValueChar c3) eqn:Eu; [|done2 H8]. cbn [fst snd]. split; [reflexivity|].
      apply (unquoted_loop_sim R Eb R13); [exact H8|rewrite Hc8; apply unq_ne10, Eu|lia|lia].
  Qed.

  (* ---------------------------------------------------------------- open tag *)
  Ltac doneP H := cbn [fst snd]; split; [reflexivity|exact H].

  Lemma openTag_loop_sim : forall f' f r r', RR r r' -> nu R r < Z.of_nat f -> nu R' r' < Z.of_nat f' ->
    fst (openTag_loop f' r') = P (fst (openTag_loop f r)) /\ RR (snd (openTag_loop f r)) (snd (openTag_loop f' r')).
  Proof.
    induction f' as [|f' IH]; intros f r r' H Hn Hn'; [f0 (or_introl H : W r r')|]. destruct f as [|f]; [f0 (or_introl H : W r r')|].
    cbn [openTag_loop].
    destruct (RR_PL R Eb _ _ H) as [Q0 Q0'].
    destruct (skipLinkSpace_sim R Eb R13 (S f) (S f') r r' H Hn Hn') as [Es H1].
    pose proof (skipLinkSpace_prog R (S f) r Q0) as (_ & Gp & Gn & Gs). pose proof (skipLinkSpace_prog R' (S f') r' Q0') as (_ & Gp' & Gn' & Gs').
    destruct (skipLinkSpace (S f) r) as [ok r1]. destruct (skipLinkSpace (S f') r') as [ok' r1']. cbn [fst snd] in Es, H1, Gp, Gn, Gs, Gp', Gn', Gs'. subst ok'.
    destruct ok; cbn [negb]; [|doneP H1].
    destruct (current r1) as [c r2] eqn:Ec. destruct (current r1') as [c' r2'] eqn:Ec'.
    destruct (currentE_RR R Eb R13 _ _ _ _ _ _ H1 Ec Ec') as (-> & H2 & Hc & N2 & N2' & Hp2 & Hp2' & _).
    rewrite !m13_eqb by discriminate.
    destruct (Z.eqb_spec c 47) as [->|N47].
    { destruct (next r2) as [ok2 r3] eqn:En. destruct (next r2') as [ok2' r3'] eqn:En'.
      destruct (nextE_RR R Eb _ _ _ _ _ _ H2 ltac:(rewrite Hc; discriminate) En En') as (-> & H3 & _ & _ & _).
      rewrite (jumped_sim R Eb r3 r3' H3). destruct (negb ok2 || jumped r3); [doneP H3|].
      destruct (current r3) as [c2 r4] eqn:Ec2. destruct (current r3') as [c2' r4'] eqn:Ec2'.
      destruct (currentE_RR R Eb R13 _ _ _ _ _ _ H3 Ec2 Ec2') as (-> & H4 & Hc4 & _).
      rewrite m13_eqb by discriminate. destruct (Z.eqb_spec c2 62) as [->|N62]; cbn [negb]; [|doneP H4].
      destruct (next r4) as [ok3 r5] eqn:En4. destruct (next r4') as [ok3' r5'] eqn:En4'.
      destruct (nextE_RR R Eb _ _ _ _ _ _ H4 ltac:(rewrite Hc4; discriminate) En4 En4') as (_ & H5 & _).
      cbn [fst snd]. split; [|exact H5]. apply (pos_succ R Eb); [exact H4|rewrite Hc4; discriminate|rewrite Hc4; discriminate]. }
    destruct (Z.eqb_spec c 62) as [->|N62].
    { destruct (next r2) as [ok2 r3] eqn:En. destruct (next r2') as [ok2' r3'] eqn:En'.
      destruct (nextE_RR R Eb _ _ _ _ _ _ H2 ltac:(rewrite Hc; discriminate) En En') as (_ & H3 & _).
      cbn [fst snd]. split; [|exact H3]. apply (pos_succ R Eb); [exact H2|rewrite Hc; discriminate|rewrite Hc; discriminate]. }
    rewrite (RR_pos R Eb _ _ H2), (RR_pos R Eb _ _ H), (P_eqb R).
    destruct (Z.eqb_spec (r_pos r2) (r_pos r)) as [Eq|Ne]; [doneP H2|].
    assert (Ne' : r_pos r2' <> r_pos r').
    { rewrite (RR_pos R Eb _ _ H2), (RR_pos R Eb _ _ H). intros E. apply Ne. eapply phiP_inj; exact E. }
    destruct (RR_PL R Eb _ _ H2) as [Q2 Q2'].
    destruct (parseHTMLAttribute_sim (S f) (S f') r2 r2' H2 ltac:(lia) ltac:(lia)) as [Ea H3].
    pose proof (prog_nu R _ _ (parseHTMLAttribute_prog R (S f) r2 Q2)) as G3.
    pose proof (prog_nu R' _ _ (parseHTMLAttribute_prog R' (S f') r2' Q2')) as G3'.
    destruct (parseHTMLAttribute (S f) r2) as [ok3 r3]. destruct (parseHTMLAttribute (S f') r2') as [ok3' r3']. cbn [fst snd] in Ea, H3, G3, G3'. subst ok3'.
    destruct ok3; cbn [negb]; [|doneP H3].
    apply IH; [exact H3| |].
    - specialize (Gs ltac:(lia)). lia.
    - specialize (Gs' ltac:(lia)). lia.
  Qed.

  Lemma parseHTMLOpenTag_sim f f' r r' : RR r r' -> nu R r < Z.of_nat f -> nu R' r' < Z.of_nat f' ->
    fst (parseHTMLOpenTag f' r') = P (fst (parseHTMLOpenTag f r)) /\ RR (snd (parseHTMLOpenTag f r)) (snd (parseHTMLOpenTag f' r')).
  Proof.
    intros H Hn Hn'. unfold parseHTMLOpenTag. destruct (RR_PL R Eb _ _ H) as [Q0 Q0'].
    destruct (parseHTMLTagName_sim R Eb R13 f f' r r' H Hn Hn') as [Et H1].
    pose proof (prog_nu R _ _ (parseHTMLTagName_prog R f r Q0)) as G1. pose proof (prog_nu R' _ _ (parseHTMLTagName_prog R' f' r' Q0')) as G1'.
    destruct (parseHTMLTagName f r) as [ok r1]. destruct (parseHTMLTagName f' r') as [ok' r1']. cbn [fst snd] in Et, H1, G1, G1'. subst ok'.
    destruct ok; cbn [negb]; [|doneP H1]. apply openTag_loop_sim; [exact H1|lia|lia].
  Qed.

  (* ---------------------------------------------------------------- closing tag *)
  Lemma parseHTMLClosingTag_sim f f' r r' : RR r r' -> nu R r < Z.of_nat f -> nu R' r' < Z.of_nat f' ->
    fst (parseHTMLClosingTag f' r') = P (fst (parseHTMLClosingTag f r)) /\ RR (snd (parseHTMLClosingTag f r)) (snd (parseHTMLClosingTag f' r')).
  Proof.
    intros H Hn Hn'. unfold parseHTMLClosingTag. destruct (current r) as [c r1] eqn:Ec. destruct (current r') as [c' r1'] eqn:Ec'.
    destruct (currentE_RR R Eb R13 _ _ _ _ _ _ H Ec Ec') as (-> & H1 & Hc & N1 & N1' & _).
    rewrite m13_eqb by discriminate. destruct (Z.eqb_spec c 47) as [->|N47]; cbn [negb]; [|doneP H1].
    destruct (next r1) as [ok r2] eqn:En. destruct (next r1') as [ok' r2'] eqn:En'.
    destruct (nextE_RR R Eb _ _ _ _ _ _ H1 ltac:(rewrite Hc; discriminate) En En') as (-> & H2 & _ & [U1 _] & [U1' _]).
    rewrite (jumped_sim R Eb r2 r2' H2). destruct (negb ok || jumped r2); [doneP H2|].
    destruct (RR_PL R Eb _ _ H2) as [Q2 Q2'].
    destruct (parseHTMLTagName_sim R Eb R13 f f' r2 r2' H2 ltac:(lia) ltac:(lia)) as [Et H3].
    pose proof (prog_nu R _ _ (parseHTMLTagName_prog R f r2 Q2)) as G3. pose proof (prog_nu R' _ _ (parseHTMLTagName_prog R' f' r2' Q2')) as G3'.
    destruct (parseHTMLTagName f r2) as [ok2 r3]. destruct (parseHTMLTagName f' r2') as [ok2' r3']. cbn [fst snd] in Et, H3, G3, G3'. subst ok2'.
    destruct ok2; cbn [negb]; [|doneP H3].
    destruct (skipLinkSpace_sim R Eb R13 f f' r3 r3' H3 ltac:(lia) ltac:(lia)) as [Es H4].
    destruct (skipLinkSpace f r3) as [ok3 r4]. destruct (skipLinkSpace f' r3') as [ok3' r4']. cbn [fst snd] in Es, H4. subst ok3'.
    destruct ok3; cbn [negb]; [|doneP H4].
    destruct (current r4) as [c2 r5] eqn:Ec2. destruct (current r4') as [c2' r5'] eqn:Ec2'.
    destruct (currentE_RR R Eb R13 _ _ _ _ _ _ H4 Ec2 Ec2') as (-> & H5 & Hc5 & _).
    rewrite m13_eqb by discriminate. destruct (Z.eqb_spec c2 62) as [->|N62]; cbn [negb]; [|doneP H5].
    destruct (next r5) as [ok4 r6] eqn:En5. destruct (next r5') as [ok4' r6'] eqn:En5'.
    destruct (nextE_RR R Eb _ _ _ _ _ _ H5 ltac:(rewrite Hc5; discriminate) En5 En5') as (_ & H6 & _).
    cbn [fst snd]. split; [|exact H6]. apply (pos_succ R Eb); [exact H5|rewrite Hc5; discriminate|rewrite Hc5; discriminate].
  Qed.
End HtmlSim2.

Print Assumptions parseHTMLAttribute_sim.
Print Assumptions openTag_loop_sim.
Check parseHTMLOpenTag_sim.
Print Assumptions parseHTMLOpenTag_sim.
Check parseHTMLClosingTag_sim.
Print Assumptions parseHTMLClosingTag_sim.
