From Coq Require Import List ZArith Lia Bool.
Import ListNotations.
Require Import Base Tables Utf8 Tree Rdr Link Collect Html Recog Inl3a Inl3b Inl3c Inl3d Inl3e LP Rules Starts Driver Props.
Require L2Kind2 En2OK.
Require Import L2CC BSDef BSTree BlockSpans BShDef BlockShapes BlockShapesNul.
Require Import LADef LA1 LA2 LA12 LA13 LA14 LAOcp LAInfo LinesAccounted LAFull.
Require Import SpanHypDef SpanHyp ComposeSpans ComposeSpans2.
Require Import ExInv1 ExOcp ExInv2 ExDrv C13All.
Open Scope Z_scope.

(* ================================================================================================
   T55: the span-structure part of Props.C02_statement (chk_C02_root false) and the reduction of C02_statement to its
   character-boundary clause.

   chk_C02_root v r  =  (bend b =? len src) && forallb isSpTab (upto src (bstart b)) && spansB v src 0 (len src) b.
   spansB v checks of every block and inline node: a valid span, inside the parent's span, at or after the end of the elder
   sibling, and (v = true only) that both ends are character boundaries.
   Part A: spansB true = spansB false && bndB (the boundary conjuncts alone), hence C02_of_boundaries.
   Part B: the structure (v = false), composed from
     - C13All.C13_full: span_valid of every block and inline node of the rewritten tree;
     - BlockSpans.parseBlocks_block_spans: block children inside the parent, in order;
     - ComposeSpans2.parseBlocks_entriesOKroots + SpanHyp.rewriteB_inline_spans: the inlines of the rewritten leaves;
     - LADef.la (LA13.parseBlocks_rootLA): the entries of the leaf blocks Rewrite leaves alone tile the block, and the leaves
       of an entry lie in order inside it; ExInv1.inv (ExDrv.parseBlocks_okRX): the children of entries have no children.
   ================================================================================================ *)

(* ================= Part A: the boundary conjuncts ================= *)
Fixpoint bndI (src : bytes) (i : inline) : bool :=
  match i with Inl _ s e _ _ ks => boundary_ok src s && boundary_ok src e && forallb (bndI src) ks end.
Fixpoint bndB (src : bytes) (b : block) : bool :=
  match b with Blk _ s e bk ik _ _ _ _ _ =>
    boundary_ok src s && boundary_ok src e &&
    match bk with [] => forallb (bndI src) ik | _ => forallb (bndB src) bk end
  end.
Definition chk_bnd_root (r : rootB) : bool := bndB (rb_src r) (rb_blk r).

(* the sibling loops of spansI / spansB, named *)
Definition goI (v : bool) (src : bytes) (s e : Z) : Z -> list inline -> bool :=
  fix go (prev : Z) (l : list inline) : bool :=
    match l with [] => true | k :: r => (prev <=? istart k) && spansI v src s e k && go (iend k) r end.
Definition goB (v : bool) (src : bytes) (s e : Z) : Z -> list block -> bool :=
  fix go (prev : Z) (l : list block) : bool :=
    match l with [] => true | k :: r => (prev <=? bstart k) && spansB v src s e k && go (bend k) r end.
Lemma spansI_eq v src ps pe k s e i r ks : spansI v src ps pe (Inl k s e i r ks) =
  span_valid (len src) s e && (ps <=? s) && (e <=? pe) && (if v then boundary_ok src s && boundary_ok src e else true) && goI v src s e s ks.
Proof. reflexivity. Qed.
Lemma spansB_eq v src ps pe K s e bk ik a n c l lb : spansB v src ps pe (Blk K s e bk ik a n c l lb) =
  span_valid (len src) s e && (ps <=? s) && (e <=? pe) && (if v then boundary_ok src s && boundary_ok src e else true) &&
  match bk with [] => goI v src s e s ik | _ => goB v src s e s bk end.
Proof. destruct bk; reflexivity. Qed.
Lemma goI_cons v src s e prev k r : goI v src s e prev (k :: r) = (prev <=? istart k) && spansI v src s e k && goI v src s e (iend k) r.
Proof. reflexivity. Qed.
Lemma goB_cons v src s e prev k r : goB v src s e prev (k :: r) = (prev <=? bstart k) && spansB v src s e k && goB v src s e (bend k) r.
Proof. reflexivity. Qed.

Lemma spansI_split src : forall i ps pe, spansI true src ps pe i = spansI false src ps pe i && bndI src i.
Proof.
  fix IH 1. intros [k s e ind rf ks] ps pe. rewrite !spansI_eq. cbn [bndI].
  assert (Hg : forall l prev, goI true src s e prev l = goI false src s e prev l && forallb (bndI src) l).
  { induction l as [|x r IHr]; intros prev; [reflexivity|]. rewrite !goI_cons. cbn [forallb]. rewrite (IH x s e), IHr.
    destruct (prev <=? istart x), (spansI false src s e x), (bndI src x), (goI false src s e (iend x) r), (forallb (bndI src) r); reflexivity. }
  rewrite Hg. destruct (span_valid (len src) s e), (ps <=? s), (e <=? pe), (boundary_ok src s), (boundary_ok src e), (goI false src s e s ks), (forallb (bndI src) ks); reflexivity.
Qed.
Lemma goI_split src s e : forall l prev, goI true src s e prev l = goI false src s e prev l && forallb (bndI src) l.
Proof.
  induction l as [|x r IHr]; intros prev; [reflexivity|]. rewrite !goI_cons. cbn [forallb]. rewrite (spansI_split src x s e), IHr.
  destruct (prev <=? istart x), (spansI false src s e x), (bndI src x), (goI false src s e (iend x) r), (forallb (bndI src) r); reflexivity.
Qed.
Lemma spansB_split src : forall b ps pe, spansB true src ps pe b = spansB false src ps pe b && bndB src b.
Proof.
  fix IH 1. intros [K s e bk ik a n c l lb] ps pe. rewrite !spansB_eq. cbn [bndB].
  assert (Hg : forall l0 prev, goB true src s e prev l0 = goB false src s e prev l0 && forallb (bndB src) l0).
  { induction l0 as [|x r IHr]; intros prev; [reflexivity|]. rewrite !goB_cons. cbn [forallb]. rewrite (IH x s e), IHr.
    destruct (prev <=? bstart x), (spansB false src s e x), (bndB src x), (goB false src s e (bend x) r), (forallb (bndB src) r); reflexivity. }
  destruct bk as [|b0 br].
  - rewrite goI_split. destruct (span_valid (len src) s e), (ps <=? s), (e <=? pe), (boundary_ok src s), (boundary_ok src e), (goI false src s e s ik), (forallb (bndI src) ik); reflexivity.
  - rewrite Hg. destruct (span_valid (len src) s e), (ps <=? s), (e <=? pe), (boundary_ok src s), (boundary_ok src e), (goB false src s e s (b0 :: br)), (forallb (bndB src) (b0 :: br)); reflexivity.
Qed.
Lemma chk_C02_root_split r : chk_C02_root true r = chk_C02_root false r && chk_bnd_root r.
Proof.
  unfold chk_C02_root, chk_bnd_root. rewrite spansB_split.
  destruct (bend (rb_blk r) =? len (rb_src r)), (forallb isSpTab (upto (rb_src r) (bstart (rb_blk r)))), (spansB false (rb_src r) 0 (len (rb_src r)) (rb_blk r)), (bndB (rb_src r) (rb_blk r)); reflexivity.
Qed.

(* C02 follows from its structure part and the boundary clause on valid UTF-8 input *)
Definition C02_structure_statement : Prop := forall input, forallb (chk_C02_root false) (fst (parseFull input)) = true.
Definition C02_boundaries_statement : Prop :=
  forall input, validUtf8 input = true -> forallb chk_bnd_root (fst (parseFull input)) = true.
Theorem C02_of_structure_and_boundaries : C02_structure_statement -> C02_boundaries_statement -> C02_statement.
Proof.
  intros HS HB input. destruct (validUtf8 input) eqn:Ev; [|apply HS].
  specialize (HS input). specialize (HB input Ev). rewrite forallb_forall in *. intros r Hr.
  rewrite chk_C02_root_split, (HS r Hr), (HB r Hr). reflexivity.
Qed.
Print Assumptions C02_of_structure_and_boundaries.

(* ================= Part B: the structure ================= *)
(* valid spans everywhere (from C13) *)
Fixpoint svI (src : bytes) (i : inline) : bool :=
  match i with Inl _ s e _ _ ks => span_valid (len src) s e && forallb (svI src) ks end.
Fixpoint svB (src : bytes) (b : block) : bool :=
  match b with Blk _ s e bk ik _ _ _ _ _ => span_valid (len src) s e && forallb (svB src) bk && forallb (svI src) ik end.
Lemma shapesI_sv src : forall i, shapesI src i = true -> svI src i = true.
Proof.
  fix IH 1. intros [k s e ind rf ks] H. cbn [shapesI] in H. apply andb_true_iff in H. destruct H as [H Hk]. apply andb_true_iff in H. destruct H as [Hv _].
  cbn [svI]. rewrite Hv. cbn [andb]. clear Hv. induction ks as [|x r IHr]; [reflexivity|]. cbn [forallb] in *. apply andb_true_iff in Hk. destruct Hk as [A B'].
  rewrite (IH x A), (IHr B'). reflexivity.
Qed.
Lemma shapesB_sv src : forall b, shapesB src b = true -> svB src b = true.
Proof.
  fix IH 1. intros [K s e bk ik a n c l lb] H. cbn [shapesB] in H. apply andb_true_iff in H. destruct H as [H Hi]. apply andb_true_iff in H. destruct H as [H Hk].
  apply andb_true_iff in H. destruct H as [Hv _]. cbn [svB]. rewrite Hv. cbn [andb]. apply andb_true_iff. split.
  - clear Hi Hv. induction bk as [|x r IHr]; [reflexivity|]. cbn [forallb] in *. apply andb_true_iff in Hk. destruct Hk as [A B']. rewrite (IH x A), (IHr B'). reflexivity.
  - rewrite forallb_forall in *. intros u Hu. apply shapesI_sv, Hi, Hu.
Qed.
Lemma svB_eq src b : svB src b = span_valid (len src) (bstart b) (bend b) && forallb (svB src) (bkids b) && forallb (svI src) (bik b).
Proof. destruct b; reflexivity. Qed.
Lemma svI_eq src u : svI src u = span_valid (len src) (istart u) (iend u) && forallb (svI src) (ikids u).
Proof. destruct u; reflexivity. Qed.

(* ---- the residual checks (on the roots of parseBlocks) ---- *)
(* the entries of a link reference definition block: ordered inside the block, with their children ordered inside them *)
Fixpoint defSpansB (fuel : nat) (src : bytes) (b : block) : bool :=
  match fuel with
  | O => true
  | S f => (if bkind b =? LinkReferenceDefinitionKind then entriesBasicX src b else true) && forallb (defSpansB f src) (bkids b)
  end.
Definition defSpansRoots (roots : list rootB) : bool :=
  forallb (fun r => defSpansB (bheight (rb_blk r)) (rb_src r) (rb_blk r)) roots.
(* the bytes of a root's source before the start of its block are spaces and tabs *)
Definition rootIndentRoots (roots : list rootB) : bool :=
  forallb (fun r => forallb isSpTab (upto (rb_src r) (bstart (rb_blk r)))) roots.

(* ---- sibling loops from order facts ---- *)
Lemma goI_ord v src s e hi : forall l prev, ordIn prev hi (map ispan l) -> (forall u, In u l -> spansI v src s e u = true) ->
  goI v src s e prev l = true.
Proof.
  induction l as [|k r IH]; intros prev Ho Hs; [reflexivity|]. rewrite goI_cons. cbn [map ordIn ispan fst snd] in Ho. destruct Ho as (A & B & C).
  rewrite (Hs k (or_introl eq_refl)), (IH (iend k) C (fun u Hu => Hs u (or_intror Hu))).
  destruct (Z.leb_spec prev (istart k)); [reflexivity|lia].
Qed.
Lemma goI_orderedX src s e hi : forall l lo, ordered_inX lo hi l = true -> forallb (spansI false src s e) l = true -> goI false src s e lo l = true.
Proof.
  induction l as [|k r IH]; intros lo Ho Hs; [reflexivity|]. rewrite goI_cons. cbn [ordered_inX forallb] in *.
  apply andb_true_iff in Ho. destruct Ho as [Ho Hr]. apply andb_true_iff in Ho. destruct Ho as [A _]. apply andb_true_iff in Hs. destruct Hs as [Hk Hs].
  rewrite A, Hk, (IH _ Hr Hs). reflexivity.
Qed.

Lemma eE_kidless B u : eE B u = true -> forall k, In k (ikids u) -> ikids k = [].
Proof.
  unfold eE. intros H k Hk. destruct (isExK (ikind u)).
  - rewrite forallb_forall in H. specialize (H k Hk). unfold kidOK in H. apply andb_true_iff in H. destruct H as [H _]. apply andb_true_iff in H. destruct H as [H _].
    destruct (ikids k); [reflexivity|discriminate].
  - destruct (ikids u); [destruct Hk|discriminate].
Qed.

(* an entry whose children are leaves lying in order inside it *)
Lemma entry_spansI src B ps pe u : svI src u = true -> ps <= istart u -> iend u <= pe -> lvOK u -> eE B u = true -> spansI false src ps pe u = true.
Proof.
  intros Hv Hps Hpe Hl He. pose proof (eE_kidless B u He) as Hk. rewrite svI_eq in Hv. apply andb_true_iff in Hv. destruct Hv as [Hv Hvk].
  destruct u as [k s e ind rf ks]. cbn [istart iend ikids] in *. rewrite spansI_eq, Hv. cbn [andb].
  destruct (Z.leb_spec ps s); [|lia]. destruct (Z.leb_spec e pe); [|lia]. cbn [andb].
  destruct ks as [|k0 kr]; [reflexivity|].
  unfold lvOK in Hl. cbn [istart iend leavesI] in Hl.
  assert (Hkl : Forall kidlessI (k0 :: kr)) by (apply Forall_forall; intros x Hx; apply Hk, Hx).
  change (flat_map leavesI (k0 :: kr)) with (flat_map leavesI (k0 :: kr)) in Hl. rewrite (leaves_kidless _ Hkl) in Hl.
  apply (goI_ord false src s e e _ s Hl). intros x Hx. rewrite forallb_forall in Hvk. specialize (Hvk x Hx).
  rewrite svI_eq in Hvk. apply andb_true_iff in Hvk. destruct Hvk as [Hvx _].
  destruct (LA12.ordIn_In _ _ _ (ispan x) Hl (in_map ispan _ x Hx)) as (O1 & O2 & O3). cbn [ispan fst snd] in *.
  pose proof (Hk x Hx) as Ekx. destruct x as [kx sx ex ix rx kxs]. cbn [ikids istart iend] in *. subst kxs. rewrite spansI_eq, Hvx. cbn [andb].
  destruct (Z.leb_spec s sx); [|lia]. destruct (Z.leb_spec ex e); [|lia]. reflexivity.
Qed.

Section Root.
  Variables (B src raw : bytes) (Ml : Z) (refs : list bytes).

  Lemma spans_post : forall fuel b ps pe, (bheight b <= fuel)%nat -> cc b = true -> 0 <= bend b -> la raw Ml b -> bspans b = true ->
    ExInv1.inv B b = true -> svB src (rewriteB fuel src refs b) = true -> entriesOKB fuel src b = true -> defSpansB fuel src b = true ->
    ps <= bstart b -> bend b <= pe -> spansB false src ps pe (rewriteB fuel src refs b) = true.
  Proof.
    induction fuel as [|f IH]; intros b ps pe Hh Hcc He Hla Hbs Hinv Hsv Hok Hdef Hps Hpe; [pose proof (bheight_pos b); lia|].
    destruct (la_shapeB raw Ml b Hcc He Hla) as (S1 & S2 & S3 & S4).
    pose proof (rewriteB_inline_spans (S f) src refs b Hok) as Hsp.
    cbn [entriesOKB defSpansB spansAfter rewriteB] in *. apply andb_true_iff in Hdef. destruct Hdef as [Hd1 Hd2].
    change ((0 <? len (bik b)) && hasUnparsed b) with (isLeafU b) in *.
    destruct (isLeafU b) eqn:El.
    - (* rewritten leaf *)
      assert (Hne : bik b <> []).
      { unfold isLeafU in El. apply andb_true_iff in El. destruct El as [El _]. apply Z.ltb_lt in El. intros N. rewrite N in El. cbn in El. lia. }
      specialize (S4 Hne). rewrite SpanHyp.bik_set_bik in Hsp. apply andb_true_iff in Hsp. destruct Hsp as [Ho Hs].
      rewrite svB_eq in Hsv. apply andb_true_iff in Hsv. destruct Hsv as [Hsv _]. apply andb_true_iff in Hsv. destruct Hsv as [Hv _].
      destruct b as [K s e bk ik a n c l lb]. cbn [set_bik bkids bik bkind bstart bend] in *. subst bk. rewrite spansB_eq, Hv. cbn [andb].
      destruct (Z.leb_spec ps s); [|lia]. destruct (Z.leb_spec e pe); [|lia]. cbn [andb].
      apply (goI_orderedX src s e e); assumption.
    - destruct (bkids b) as [|c0 cr] eqn:Ek.
      + (* untouched block without block children *)
        cbn [map] in *. replace (set_bkids b []) with b in * by (destruct b; cbn [bkids set_bkids] in *; subst; reflexivity).
        rewrite svB_eq in Hsv. apply andb_true_iff in Hsv. destruct Hsv as [Hsv Hvi]. apply andb_true_iff in Hsv. destruct Hsv as [Hv _].
        rewrite la_eq in Hla. destruct Hla as (_ & _ & _ & Hb & _). unfold body in Hb. rewrite (hiOf_closed Ml b He) in Hb.
        assert (Hgo : goI false src (bstart b) (bend b) (bstart b) (bik b) = true).
        { destruct (isLeafK (bkind b)) eqn:HLK.
          - destruct Hb as (T1 & T2 & _). apply (goI_ord false src _ _ (bend b) _ _ (tileS_ordIn raw _ _ _ T1)). intros u Hu.
            rewrite Forall_forall in T2. destruct (T2 u Hu) as (_ & _ & Hlv).
            destruct (tileS_In raw _ _ _ (ispan u) T1 (in_map ispan _ u Hu)) as (O1 & O2 & O3). cbn [ispan fst snd] in *.
            destruct b as [K s e bk ik a n c l lb]. cbn [bik bstart bend] in *. cbn [ExInv1.inv] in Hinv. apply andb_true_iff in Hinv. destruct Hinv as [Hie _].
            rewrite forallb_forall in Hie, Hvi. apply (entry_spansI src B); [apply Hvi, Hu|exact O1|exact O3|exact Hlv|apply Hie, Hu].
          - destruct (bkind b =? ListMarkerKind) eqn:ELM; [destruct Hb as [_ Hb]; rewrite Hb; reflexivity|].
            destruct (bkind b =? LinkReferenceDefinitionKind) eqn:ELR; [|destruct Hb as [_ Hb]; rewrite Hb; reflexivity].
            unfold entriesBasicX in Hd1. apply andb_true_iff in Hd1. destruct Hd1 as [D1 D2]. apply (goI_orderedX src _ _ (bend b)); assumption. }
        destruct b as [K s e bk ik a n c l lb]. cbn [bkids bik bstart bend] in *. subst bk. rewrite spansB_eq, Hv. cbn [andb].
        destruct (Z.leb_spec ps s); [|lia]. destruct (Z.leb_spec e pe); [|lia]. cbn [andb]. exact Hgo.
      + (* block children *)
        rewrite svB_eq in Hsv. apply andb_true_iff in Hsv. destruct Hsv as [Hsv _]. apply andb_true_iff in Hsv. destruct Hsv as [Hv Hvk].
        assert (Eb : bstart (set_bkids b (map (rewriteB f src refs) (c0 :: cr))) = bstart b /\ bend (set_bkids b (map (rewriteB f src refs) (c0 :: cr))) = bend b /\
                     bkids (set_bkids b (map (rewriteB f src refs) (c0 :: cr))) = map (rewriteB f src refs) (c0 :: cr)) by (destruct b; repeat split).
        destruct Eb as (E1 & E2 & E3). rewrite E1, E2, E3 in *.
        assert (Hkids : forall c, In c (c0 :: cr) -> cc c = true /\ 0 <= bend c /\ la raw Ml c).
        { intros c Hc. apply (la_kids_ok raw Ml b Hcc He Hla ltac:(rewrite Ek; discriminate) c). rewrite Ek. exact Hc. }
        assert (Hbs' : forallb (inside (bstart b) (bend b)) (c0 :: cr) = true /\ ordered (c0 :: cr) = true /\ forallb bspans (c0 :: cr) = true).
        { destruct b as [K s e bk ik a n c l lb]. cbn [bkids bstart bend] in *. subst bk. cbn [bspans] in Hbs. rewrite !andb_true_iff in Hbs. tauto. }
        destruct Hbs' as (Hin & Hord & Hbk).
        assert (Hinvk : forallb (ExInv1.inv B) (c0 :: cr) = true).
        { destruct b as [K s e bk ik a n c l lb]. cbn [bkids] in *. subst bk. cbn [ExInv1.inv] in Hinv. apply andb_true_iff in Hinv. tauto. }
        assert (Hgo : forall l prev, (forall c, In c l -> In c (c0 :: cr)) -> ordered l = true ->
                      (match l with c :: _ => prev <= bstart c | [] => True end) ->
                      goB false src (bstart b) (bend b) prev (map (rewriteB f src refs) l) = true).
        { induction l as [|c r IHr]; intros prev Hsub Ho Hp; [reflexivity|]. cbn [map]. rewrite goB_cons.
          destruct (span_rewriteB src refs f c) as [R1 R2]. rewrite R1, R2.
          assert (Hc : In c (c0 :: cr)) by (apply Hsub; left; reflexivity).
          destruct (Hkids c Hc) as (K1 & K2 & K3).
          rewrite forallb_forall in Hin, Hbk, Hinvk, Hvk, Hok, Hd2.
          pose proof (Hin c Hc) as Hic. unfold inside in Hic. apply andb_true_iff in Hic. destruct Hic as [I1 I2]. apply Z.leb_le in I1.
          assert (I3 : bend c <= bend b) by (apply orb_true_iff in I2; destruct I2 as [X|X]; [apply Z.ltb_lt in X; lia|apply Z.leb_le in X; exact X]).
          rewrite (IH c (bstart b) (bend b) ltac:(pose proof (bheight_kid' b c ltac:(rewrite Ek; exact Hc)); lia) K1 K2 K3 (Hbk c Hc) (Hinvk c Hc)
                     (Hvk _ (in_map _ _ c Hc)) (Hok c Hc) (Hd2 c Hc) I1 I3).
          destruct (Z.leb_spec prev (bstart c)); [|lia]. cbn [andb].
          apply IHr; [intros x Hx; apply Hsub; right; exact Hx| |].
          - destruct r as [|c2 r']; [reflexivity|]. change (ordered (c :: c2 :: r')) with (((bend c <? 0) || (bend c <=? bstart c2)) && ordered (c2 :: r')) in Ho.
            apply andb_true_iff in Ho. tauto.
          - destruct r as [|c2 r']; [exact I|]. change (ordered (c :: c2 :: r')) with (((bend c <? 0) || (bend c <=? bstart c2)) && ordered (c2 :: r')) in Ho.
            apply andb_true_iff in Ho. destruct Ho as [Ho _]. apply orb_true_iff in Ho. destruct Ho as [X|X]; [apply Z.ltb_lt in X; lia|apply Z.leb_le in X; exact X]. }
        destruct b as [K s e bk ik a n c l lb]. cbn [set_bkids bkids bstart bend] in *. subst bk. rewrite spansB_eq, Hv. cbn [andb].
        destruct (Z.leb_spec ps s); [|lia]. destruct (Z.leb_spec e pe); [|lia]. cbn [andb map].
        change (rewriteB f src refs c0 :: map (rewriteB f src refs) cr) with (map (rewriteB f src refs) (c0 :: cr)).
        apply Hgo; [auto|exact Hord|].
        cbn [forallb] in Hin. apply andb_true_iff in Hin. destruct Hin as [Hin _]. unfold inside in Hin. apply andb_true_iff in Hin. destruct Hin as [Hin _]. apply Z.leb_le in Hin. exact Hin.
  Qed.
End Root.

(* ---- the structure part of C02, for every input that passes the two residual checks ---- *)
Theorem C02_structure_partial : forall input,
  defSpansRoots (fst (parseBlocks input)) = true -> rootIndentRoots (fst (parseBlocks input)) = true ->
  forallb (chk_C02_root false) (fst (parseFull input)) = true.
Proof.
  intros input HD HR.
  pose proof (C13_full input) as H13.
  pose proof (parseBlocks_block_spans input) as Hbs.
  pose proof (parseBlocks_rootLA (fun _ => True) (fun src _ => OcpLoopSpec_all src) (fun _ _ _ => I) (fun _ _ _ => I) input I) as HLA.
  pose proof (parseBlocks_entriesOKroots input) as Hok. pose proof (parseBlocks_okRX input) as HX.
  unfold parseFull in *. destruct (parseBlocks input) as [roots code]. cbn [fst] in *.
  set (refs := fold_left (fun a r => extractB (bheight (rb_blk r)) (rb_blk r) a) roots []) in *.
  apply forallb_forall. intros r Hr. pose proof Hr as Hr'. apply in_map_iff in Hr'. destruct Hr' as (r0 & Er & Hr0).
  rewrite forallb_forall in H13. specialize (H13 r Hr). subst r. unfold chk_C02_root, chk_C13_root in *. cbn [rb_blk rb_src] in *.
  rewrite Forall_forall in Hbs, HLA, HX. unfold defSpansRoots, rootIndentRoots, entriesOKroots in *. rewrite forallb_forall in HD, HR, Hok.
  destruct (Hbs r0 Hr0) as [Hb0 Hs0]. destruct (HLA r0 Hr0) as (raw & _ & _ & E1 & E2 & Hcc & Hla & _).
  destruct (HX r0 Hr0) as (B & M & Hn & Es & _ & _ & Hi & _).
  destruct (span_rewriteB (rb_src r0) refs (bheight (rb_blk r0)) (rb_blk r0)) as [R1 R2]. rewrite R1, R2.
  assert (Hl : len (rb_src r0) = bend (rb_blk r0)) by (rewrite Es, En2OK.len_fillNulls, ShapesBase.len_upto; lia).
  rewrite (HR r0 Hr0), andb_true_r. rewrite Hl, Z.eqb_refl. cbn [andb].
  apply (spans_post B (rb_src r0) raw (len raw) refs (bheight (rb_blk r0)) (rb_blk r0) 0 (bend (rb_blk r0)) (le_n _) Hcc ltac:(lia) Hla Hb0 Hi);
    [apply shapesB_sv, H13|apply Hok, Hr0|apply HD, Hr0|exact Hs0|lia].
Qed.
Print Assumptions C02_structure_partial.

(* ================= the composition ================= *)
(* What is known of the two residual checks (both hold on every document tried: the EntTest documents, a document with an
   escaped info string and a titled definition, 4500 random documents over block-start / definition / escape fragments):
   - defSpansRoots: of a link reference definition block it is already proved that every node has a valid span
     (C13All.C13_full), that the label / destination / title entries lie inside the block (ExInv2.invX), that their
     children have no children (ExInv1.inv) and lie in order (LADef.la: ordIn of the leaves).  MISSING: the entries are in
     order (end of label <= start of destination <= ...) and the children of an entry lie INSIDE that entry's span
     (label: collectTextNodes runs over exactly the entry's span; destination / title: over the inner text span).  Both are
     facts about ocp_loop's scanners that LAR2 establishes on the way to OcpLoopSpec but LADef.la does not keep.
   - rootIndentRoots: MISSING altogether: no invariant of the development relates the bytes between the end of one
     root-level block (or the start of the buffer) and the start of the next to spaces and tabs; LADef.tchain only says
     that these bytes are not textual.  (A root-level block starts at lineStart + li after consumeIndent over spaces and
     tabs, or, for the blocks cut out of a closed paragraph, at the start of one of its entries.) *)
Theorem C02_structure_of_residuals :
  (forall input, defSpansRoots (fst (parseBlocks input)) = true) -> (forall input, rootIndentRoots (fst (parseBlocks input)) = true) ->
  C02_structure_statement.
Proof. intros HD HR input. apply C02_structure_partial; [apply HD|apply HR]. Qed.

Theorem C02_of_boundaries_partial :
  (forall input, defSpansRoots (fst (parseBlocks input)) = true) -> (forall input, rootIndentRoots (fst (parseBlocks input)) = true) ->
  C02_boundaries_statement -> C02_statement.
Proof. intros HD HR HB. apply C02_of_structure_and_boundaries; [apply C02_structure_of_residuals; assumption|exact HB]. Qed.
Print Assumptions C02_of_boundaries_partial.

(* the checks, evaluated on the sample documents of ComposeSpans (EntTest) *)
Example C02_structure_samples :
  forallb (fun d => forallb (chk_C02_root false) (fst (parseFull d)) && defSpansRoots (fst (parseBlocks d)) && rootIndentRoots (fst (parseBlocks d))) sample_docs = true.
Proof. vm_compute. reflexivity. Qed.
