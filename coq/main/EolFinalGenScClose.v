From Coq Require Import List ZArith Lia Bool.
Import ListNotations.
Require Import Base Tree Rdr Link Collect Html Recog LP Rules Starts Driver L2Kind L2CC StreamFuel
  Props LADef EolFinalDefs EolFinalSimBytes EolFinalSimTree EolFinalGenOcp EolFinalGenTree EolFinalGenClose.
Require EolGenRdrMain.
Open Scope Z_scope.

(* C14 (i), final newline: closing blocks keeps the shape scB of indented code blocks (one run). *)
Section ScClose.
  Variable L : Z.
  Lemma scPk b ks : scP L (set_bkids b ks) = scP L b. Proof. destruct b; reflexivity. Qed.
  Lemma scPe b e : True -> scP L b = true -> scP L (set_bend b e) = true. Proof. intros _ H. destruct b; exact H. Qed.
  Lemma scPl b v : scP L (set_bloose b v) = scP L b. Proof. destruct b; reflexivity. Qed.
  Lemma scP_oci s b : bkind b = IndentedCodeBlockKind -> scP L b = true -> scP L (onCloseIndented s b) = true.
  Proof.
    intros Ek H. unfold scP in *. rewrite bkind_onCloseIndented, Ek in *. cbn [Z.eqb Pos.eqb negb orb IndentedCodeBlockKind] in *.
    rewrite oci_eq. replace (bik (set_bik b (ociIk s (bik b)))) with (ociIk s (bik b)) by (destruct b; reflexivity).
    apply orb_true_iff in H. destruct H as [H|H].
    - apply orb_true_iff. left. revert H. apply nslbL_sub. apply ociIk_sub.
    - destruct (tailShape_spec L (bik b) H) as (pre & s1 & i1 & r1 & ks1 & i2 & r2 & ks2 & E & Hp). rewrite E.
      set (T := Inl TextKind s1 L i1 r1 ks1). set (S := Inl SoftLineBreakKind L L i2 r2 ks2).
      assert (E1 : rev (pre ++ [T; S]) = S :: T :: rev pre) by (rewrite rev_app_distr; reflexivity).
      unfold ociIk. cbv zeta. rewrite E1. change (ikind S =? SoftLineBreakKind) with true. change (ikind T =? TextKind) with true.
      change (iend S - istart S) with (L - L). replace (L - L =? 0) with true by (symmetry; apply Z.eqb_eq; lia). cbn [andb].
      change (istart T) with s1. change (iend T) with L.
      destruct (isBlankLine (sub s s1 L)) eqn:Eb.
      + apply orb_true_iff. left. apply (nslbL_sub (pre ++ [T])).
        * intros x Hx. apply in_rev in Hx. apply trimBlankTail_sub in Hx. rewrite rev_involutive in Hx. apply in_or_app. destruct Hx as [<-|Hx]; [right; left; reflexivity|left; apply in_rev; exact Hx].
        * rewrite nslbL_app, Hp. reflexivity.
      + apply orb_true_iff. right. rewrite E1. cbn [trimBlankTail]. change (ikind S =? TextKind) with false. cbn [andb]. rewrite <- E1, rev_involutive. rewrite E in H. exact H.
  Qed.
  Lemma scB_onCloseIndented s b : bkind b = IndentedCodeBlockKind -> scB L b = true -> scB L (onCloseIndented s b) = true.
  Proof.
    intros Ek H. apply (allB_parts (scP L)) in H. destruct H as [H1 H2]. unfold scB. rewrite allB_eq, (scP_oci s b Ek H1).
    replace (bkids (onCloseIndented s b)) with (bkids b) by (unfold onCloseIndented; destruct b; reflexivity). exact H2.
  Qed.
  Lemma ocp_leaf_kinds s o x : cc o = true -> isParaK (bkind o) = true -> In x (onCloseParagraph s o) -> bkids x = [] /\ bkind x <> IndentedCodeBlockKind.
  Proof.
    intros Hc Hk Hx. assert (Ni : bkind o <> ListItemKind) by (destruct (paraK_cases _ Hk) as [E|E]; rewrite E; discriminate).
    pose proof (nli_onCloseParagraph s o Hc Ni) as Hn. unfold nli in Hn. rewrite Forall_forall in Hn. destruct (Hn x Hx) as [Cx _].
    destruct (EolGenRdrMain.onCloseParagraph_kinds_para s o x Hk Hx) as [E|[E|E]].
    - split; [apply (paraK_leaf x Cx); rewrite E; reflexivity|rewrite E; discriminate].
    - split; [apply (paraK_leaf x Cx); rewrite E; reflexivity|rewrite E; discriminate].
    - split; [|rewrite E; discriminate]. apply cc_parts in Cx. destruct Cx as [Cx _]. rewrite E in Cx. apply forallb_false_nil.
      rewrite forallb_forall in *. intros c Hcx. specialize (Cx c Hcx). discriminate Cx.
  Qed.
  Lemma scB_closeBlock src e : forall fuel b, cc b = true -> scB L b = true -> forallb (scB L) (closeBlock fuel src b e) = true.
  Proof.
    induction fuel as [|f IH]; intros b Hc H; [cbn; rewrite H; reflexivity|]. cbn [closeBlock].
    destruct (negb (isOpen b)); [cbn; rewrite H; reflexivity|]. cbv zeta.
    assert (Hcl : forall x, cc x = true -> scB L x = true -> scB L (match lastBlock x with Some c => set_lastBlocks x (closeBlock f src c e) | None => x end) = true).
    { intros x Cx Hx. destruct (lastBlock x) as [c|] eqn:El; [|exact Hx]. apply (allB_set_lastBlocks (scP L) scPk); [exact Hx|].
      apply IH; [eapply cc_lastBlock; eassumption|eapply allB_lastBlock; eassumption]. }
    assert (H1 : scB L (set_bend b e) = true) by (apply (allB_set_bend (scP L) (fun _ => True) scPe); [exact I|exact H]).
    assert (C1 : cc (set_bend b e) = true) by (rewrite cc_set_bend; exact Hc).
    assert (K1 : bkind (set_bend b e) = bkind b) by (destruct b; reflexivity). rewrite K1.
    destruct (bkind b =? ListKind).
    { cbn [forallb]. rewrite Hcl; [reflexivity|apply cc_onCloseList, C1|apply (allB_onCloseList (scP L) scPk scPl), H1]. }
    destruct (bkind b =? IndentedCodeBlockKind) eqn:EI.
    { apply Z.eqb_eq in EI. cbn [forallb]. rewrite Hcl; [reflexivity|rewrite (proj1 (cc_onCloseIndented src (set_bend b e))); exact C1|apply scB_onCloseIndented; [rewrite K1; exact EI|exact H1]]. }
    destruct ((bkind b =? ParagraphKind) || (bkind b =? SetextHeadingKind)) eqn:EP.
    { rewrite forallb_forall. intros x Hx. destruct (ocp_leaf_kinds src (set_bend b e) x C1 ltac:(rewrite K1; exact EP) Hx) as [Ek Ni].
      unfold scB. rewrite (allB_leaf (scP L) x Ek). unfold scP. replace (bkind x =? IndentedCodeBlockKind) with false by (symmetry; apply Z.eqb_neq; exact Ni). reflexivity. }
    cbn [forallb]. rewrite Hcl; [reflexivity|exact C1|exact H1].
  Qed.
  Lemma scB_eofK st K ls src : ccF K = true -> forallb (scB L) K = true -> forallb (scB L) (eofK st K ls src) = true.
  Proof.
    intros Hc H. unfold eofK. destruct (_ =? stDescendTerminated); [exact H|].
    assert (Hr : scB L (root0 K) = true) by (unfold scB, root0; cbn [allB]; fold (scB L); rewrite H; reflexivity).
    assert (Cr : cc (root0 K) = true) by (unfold ccF in Hc; unfold root0; cbn [cc]; exact Hc).
    pose proof (scB_closeBlock src ls (bheight (root0 K)) (root0 K) Cr Hr) as Ho.
    destruct (closeBlock _ _ _ _) as [|b r]; [apply (allB_parts (scP L)) in Hr; tauto|]. cbn [forallb] in Ho. apply andb_true_iff in Ho. destruct Ho as [Hb _].
    apply (allB_parts (scP L)) in Hb. tauto.
  Qed.
End ScClose.
