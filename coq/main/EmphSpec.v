(* EmphSpec.v -- property C11 (vertical slice): the SPECIFICATION side.
   Everything in this file is written from the text of CommonMark 0.30 section 6.2 (''Emphasis and strong emphasis'') and of the
   appendix ''An algorithm for parsing nested emphasis and links'' (procedure process emphasis), WITHOUT looking at the model
   (no function of Inl3*.v is used).  The only imported definitions are the byte-list type and the abstract delimiter-stack
   machine of Emph.v (process emphasis without / with openers_bottom; [Emph.run false] is the procedure of the spec text
   without the openers_bottom optimisation).

     segment t        : the maximal delimiter runs of t (runs of one delimiter byte '*' or '_') and the text between them
     canOpen/canClose : left-/right-flanking and the can-open / can-close rules (rules 1-8 of section 6.2)
     delimsOf         : the delimiter stack: one entry per run, with its length and the two flags
     specEvents t     : the matches (opener token, closer token, strong?) performed by process emphasis, in order
     applyEv          : what one match does to the node list (''insert an emph / strong node after the text node of the opener,
                        containing the nodes between opener and closer; remove 1 / 2 delimiters from the two text nodes; remove them when empty'')
     specForest t     : the resulting inline forest                                                                            *)
From Coq Require Import List ZArith Lia Bool.
Import ListNotations.
Require Import Base Tree.
Require Emph.
Open Scope Z_scope.

(* ---------------------------------------------------------------------------------------------- *)
(* 1. the alphabet                                                                                 *)
(* ---------------------------------------------------------------------------------------------- *)
Definition isDelimB (c : Z) : bool := (c =? 42) || (c =? 95).                 (* '*'  '_' *)
(* the punctuation of the slice:  . , ; : ( ) double-quote single-quote *)
Definition slicePunct (c : Z) : bool := existsb (Z.eqb c) [46; 44; 59; 58; 40; 41; 34; 39].
Definition isLetterB (c : Z) : bool := ((65 <=? c) && (c <=? 90)) || ((97 <=? c) && (c <=? 122)).
(* a byte of a text segment: a letter, a space, or one of the eight punctuation bytes *)
Definition textA (c : Z) : bool := isLetterB c || (c =? 32) || slicePunct c.
Definition inA (c : Z) : bool := isDelimB c || textA c.

(* no two spaces in a row *)
Fixpoint noDbl (l : bytes) : bool :=
  match l with
  | [] => true
  | c :: r => negb ((c =? 32) && (hd 0 r =? 32)) && noDbl r
  end.
(* a paragraph line of the slice: starts with a letter, bytes from A, no doubled space *)
Definition okEmph (t : bytes) : bool :=
  match t with
  | [] => false
  | c :: _ => isLetterB c && forallb inA t && noDbl t
  end.

(* ---------------------------------------------------------------------------------------------- *)
(* 2. flanking, can open, can close (CommonMark 0.30, section 6.2)                                 *)
(*    prev / next = the character before / after the run; None = beginning / end of the line       *)
(* ---------------------------------------------------------------------------------------------- *)
(* ''A Unicode whitespace character is any code point in the Unicode Zs general category, or a tab (U+0009), line feed (U+000A),
    form feed (U+000C), or carriage return (U+000D)'';  for ASCII input Zs is the space.  ''The beginning and the end of the line
    count as Unicode whitespace.'' *)
Definition specWs (c : Z) : bool := (c =? 32) || (c =? 9) || (c =? 10) || (c =? 12) || (c =? 13).
(* An ASCII punctuation character is one of the 32 bytes 33-47, 58-64, 91-96, 123-126, listed one by one: *)
Definition specPunct (c : Z) : bool :=
  existsb (Z.eqb c) [33;34;35;36;37;38;39;40;41;42;43;44;45;46;47; 58;59;60;61;62;63;64; 91;92;93;94;95;96; 123;124;125;126].
Definition wsO (o : option Z) : bool := match o with None => true | Some c => specWs c end.
Definition puO (o : option Z) : bool := match o with None => false | Some c => specPunct c end.

(* ''A left-flanking delimiter run is a delimiter run that is (1) not followed by Unicode whitespace, and either (2a) not followed
    by a Unicode punctuation character, or (2b) followed by a Unicode punctuation character and preceded by Unicode whitespace or a
    Unicode punctuation character.'' *)
Definition leftFlanking (prev next : option Z) : bool :=
  negb (wsO next) && (negb (puO next) || (puO next && (wsO prev || puO prev))).
(* ''A right-flanking delimiter run is a delimiter run that is (1) not preceded by Unicode whitespace, and either (2a) not preceded
    by a Unicode punctuation character, or (2b) preceded by a Unicode punctuation character and followed by Unicode whitespace or a
    Unicode punctuation character.'' *)
Definition rightFlanking (prev next : option Z) : bool :=
  negb (wsO prev) && (negb (puO prev) || (puO prev && (wsO next || puO next))).
(* rules 1, 2, 5, 6 *)
Definition canOpen (ch : Z) (prev next : option Z) : bool :=
  if ch =? 42 then leftFlanking prev next
  else leftFlanking prev next && (negb (rightFlanking prev next) || puO prev).
(* rules 3, 4, 7, 8 *)
Definition canClose (ch : Z) (prev next : option Z) : bool :=
  if ch =? 42 then rightFlanking prev next
  else rightFlanking prev next && (negb (leftFlanking prev next) || puO next).

(* ---------------------------------------------------------------------------------------------- *)
(* 3. delimiter runs                                                                               *)
(* ---------------------------------------------------------------------------------------------- *)
(* a token: a maximal run of one delimiter byte, or a maximal stretch of other bytes *)
Inductive seg := SD (ch : Z) (n : nat) | ST (txt : bytes).
Definition segBytes (g : seg) : bytes := match g with SD ch n => repeat ch n | ST txt => txt end.
Definition segLen (g : seg) : Z := len (segBytes g).
Fixpoint segment (t : bytes) : list seg :=
  match t with
  | [] => []
  | c :: r =>
    if isDelimB c then
      match segment r with
      | SD ch n :: g => if ch =? c then SD c (S n) :: g else SD c 1 :: SD ch n :: g
      | g => SD c 1 :: g
      end
    else
      match segment r with
      | ST txt :: g => ST (c :: txt) :: g
      | g => ST [c] :: g
      end
  end.
Definition firstByte (g : list seg) : option Z := match g with [] => None | x :: _ => Some (hd 0 (segBytes x)) end.

(* the delimiter stack after tokenising: one entry per run (did = index of the token), original length, flags *)
Fixpoint delimsOf (g : list seg) (idx : nat) (prev : option Z) : list Emph.delim :=
  match g with
  | [] => []
  | ST txt :: r => delimsOf r (S idx) (Some (last txt 0))
  | SD ch n :: r =>
    {| Emph.did := idx; Emph.dstar := ch =? 42; Emph.dn := n; Emph.dcur := n;
       Emph.dopen := canOpen ch prev (firstByte r); Emph.dclos := canClose ch prev (firstByte r) |}
    :: delimsOf r (S idx) (Some ch)
  end.

(* ---------------------------------------------------------------------------------------------- *)
(* 4. the node list and what a match does to it                                                    *)
(* ---------------------------------------------------------------------------------------------- *)
Inductive enode := Leaf (tag : nat) (s e : Z) | Emp (strong : bool) (s e : Z) (kids : list enode).
(* one text node per token, in order; spans are byte offsets into the line *)
Fixpoint leavesOf (g : list seg) (idx : nat) (pos : Z) : list enode :=
  match g with
  | [] => []
  | x :: r => Leaf idx pos (pos + segLen x) :: leavesOf r (S idx) (pos + segLen x)
  end.
Fixpoint toI (n : enode) : inline :=
  match n with
  | Leaf _ s e => Inl TextKind s e 0 [] []
  | Emp b s e ks => Inl (if b then StrongKind else EmphasisKind) s e 0 [] (map toI ks)
  end.

(* split the (top-level) node list at the text node of token tg *)
Fixpoint splitTag (tg : nat) (F : list enode) : option (list enode * (Z * Z) * list enode) :=
  match F with
  | [] => None
  | x :: r =>
    match x with
    | Leaf t s e => if (t =? tg)%nat then Some ([], (s, e), r) else
                    match splitTag tg r with Some (a, se, b) => Some (x :: a, se, b) | None => None end
    | Emp _ _ _ _ => match splitTag tg r with Some (a, se, b) => Some (x :: a, se, b) | None => None end
    end
  end.
(* one match (opener token o, closer token c, strong?) *)
Definition applyEv (F : list enode) (ev : nat * nat * bool) : list enode :=
  let '(o, c, strong) := ev in
  match splitTag o F with
  | Some (A, (so, eo), R) =>
    match splitTag c R with
    | Some (M, (sc, ec), D) =>
      let k := if strong then 2 else 1 in
      A ++ (if eo - k =? so then [] else [Leaf o so (eo - k)])
        ++ [Emp strong (eo - k) (sc + k) M]
        ++ (if sc + k =? ec then [] else [Leaf c (sc + k) ec])
        ++ D
    | None => F
    end
  | None => F
  end.

(* ---------------------------------------------------------------------------------------------- *)
(* 5. the specification                                                                            *)
(* ---------------------------------------------------------------------------------------------- *)
Definition specInit (t : bytes) : Emph.state :=
  {| Emph.st := delimsOf (segment t) 0 None; Emph.bt := fun _ => 0%nat; Emph.cp := 0%nat; Emph.evs := [] |}.
Definition specFuel (t : bytes) : nat := S (2 * length t).
(* process emphasis WITHOUT openers_bottom (Emph.run false), stack_bottom = 0 *)
Definition specRun (t : bytes) : option (list Emph.delim * list (nat * nat * bool)) := Emph.run false 0 (specFuel t) (specInit t).
Definition specEvents (t : bytes) : list (nat * nat * bool) := match specRun t with Some (_, e) => e | None => [] end.
Definition specNodes (t : bytes) : list enode := fold_left applyEv (specEvents t) (leavesOf (segment t) 0 0).
Definition specForest (t : bytes) : list inline := map toI (specNodes t).
