From Coq Require Import List ZArith Lia Bool.
Import ListNotations.
Require Import Base Tree Rdr ShapesR IFBase.
Open Scope Z_scope.

(* C14 (ii), CRLF clause, onCloseParagraph: the precondition on the entry list of the paragraph.
   PEn R ik: the entries are sorted NON-EMPTY spans inside R (IFBase.spW), every entry is an Unparsed or an Indent entry,
   an Indent entry is one byte wide and does not sit on an LF byte (the block layer creates them on TAB bytes), and the
   indentation budget fits the reader fuel of the model (IFTitle.entOK = spW && ibudget <= len + 9).
   PEc R ik: PEn, or the degenerate list of one EMPTY Unparsed entry (the setext "orphan" paragraph that onCloseParagraph
   itself creates may have this shape; nothing is ever read from it).
   The exclusion of Indent entries on an LF byte is necessary: with one, the CRLF commutation of onCloseParagraph is false
   (EolGenCrlfRdrRefute.ocp_crlf_indent_on_LF_refuted: the reader keeps a shifted r_prev).  Empty spans in the middle of the
   list are excluded because the proof's reader invariant needs every successful step to land inside a node; no
   counterexample with empty spans is known. *)
Definition readableK (u : inline) : bool := (ikind u =? UnparsedKind) || (ikind u =? IndentKind).
Definition neSp (u : inline) : bool := istart u <? iend u.
Definition indOK1 (R : bytes) (u : inline) : bool :=
  negb (ikind u =? IndentKind) || ((iend u =? istart u + 1) && negb (at_ R (istart u) =? 10)).
Definition PEn (R : bytes) (ik : list inline) : Prop :=
  spW R ik = true /\ forallb readableK ik = true /\ forallb neSp ik = true /\ forallb (indOK1 R) ik = true /\ ibudget ik <= len R + 9.
Definition PEc (R : bytes) (ik : list inline) : Prop :=
  PEn R ik \/ exists a, ik = [mkI UnparsedKind a a] /\ 0 <= a <= len R.

Lemma PEc_nil R : PEc R [].
Proof. left. split; [reflexivity|]. split; [reflexivity|]. split; [reflexivity|]. split; [reflexivity|]. cbn [ibudget]. unfold len. lia. Qed.
Lemma spW_single R k a e : 0 <= a <= e -> e <= len R -> spW R [mkI k a e] = true.
Proof.
  intros Ha He. cbn [spW mkI istart iend forallb]. rewrite !andb_true_r.
  replace (0 <=? a) with true by (symmetry; apply Z.leb_le; lia).
  replace (a <=? e) with true by (symmetry; apply Z.leb_le; lia).
  replace (e <=? len R) with true by (symmetry; apply Z.leb_le; lia). reflexivity.
Qed.
Lemma PEc_orphan R a e : 0 <= a <= e -> e <= len R -> PEc R [mkI UnparsedKind a e].
Proof.
  intros Ha He. destruct (Z.eq_dec a e) as [<-|N].
  - right. exists a. split; [reflexivity|lia].
  - left. split; [apply spW_single; assumption|]. split; [reflexivity|]. split.
    + cbn [forallb]. unfold neSp, mkI. cbn [istart iend]. replace (a <? e) with true by (symmetry; apply Z.ltb_lt; lia). reflexivity.
    + split; [reflexivity|]. cbn. unfold len. lia.
Qed.
Lemma PEc_entOK R ik : PEc R ik -> spW R ik = true /\ ibudget ik <= len R + 9.
Proof.
  intros [(A & _ & _ & _ & B)|(a & -> & Ha)]; [split; assumption|]. split; [apply spW_single; lia|]. cbn. unfold len. lia.
Qed.
Lemma PEc_from R ik k : PEc R ik -> PEc R (from_ ik k).
Proof.
  intros [(A & B & C & D & G)|(a & -> & Ha)].
  - left. assert (Es : ik = firstn (Z.to_nat k) ik ++ from_ ik k) by (unfold from_; symmetry; apply firstn_skipn).
    assert (Hs : forall f : inline -> bool, forallb f ik = true -> forallb f (from_ ik k) = true).
    { intros f Hf. rewrite Es, forallb_app in Hf. apply andb_true_iff in Hf. apply Hf. }
    split; [apply spW_from, A|]. split; [apply Hs, B|]. split; [apply Hs, C|]. split; [apply Hs, D|].
    pose proof (ibudget_skipn (Z.to_nat k) ik) as Hb. unfold from_. lia.
  - unfold from_. destruct (Z.to_nat k) as [|n]; cbn [skipn]; [right; exists a; split; [reflexivity|exact Ha]|].
    destruct n; cbn [skipn]; apply PEc_nil.
Qed.
