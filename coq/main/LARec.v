From Coq Require Import List ZArith Lia Bool.
Import ListNotations.
Require Import Base Recog Rec16 Rec17 Rec18 RecBounds LADef.
Open Scope Z_scope.

(* ===== what the line recognizers skip holds no byte that must be covered ===== *)
Definition NTa (l : bytes) (a b : Z) : Prop := forall j, a <= j < b -> tx (at_ l j) = false.
(* line shape: after the first line-ending byte there are only line-ending bytes *)
Definition eolTail (l : bytes) : Prop :=
  forall j, 0 <= j < len l -> isEOLz (at_ l j) = true -> forall k, j <= k < len l -> isEOLz (at_ l k) = true.

(* a line holds one line ending, at its very end: LF, CR, or CR LF *)
Definition eolEnd (l : bytes) : Prop :=
  forall j, 0 <= j < len l -> isEOLz (at_ l j) = true -> j = len l - 1 \/ (j = len l - 2 /\ at_ l j = 13 /\ at_ l (len l - 1) = 10).
Lemma eolEnd_tail l : eolEnd l -> eolTail l.
Proof.
  intros H j Hj Ej k Hk. destruct (H j Hj Ej) as [E|(E1 & E2 & E3)].
  - replace k with j by lia. exact Ej.
  - destruct (Z.eq_dec k j) as [->|N]; [exact Ej|]. replace k with (len l - 1) by lia. unfold isEOLz. rewrite E3. reflexivity.
Qed.
Lemma NTa_app l a b c : NTa l a b -> NTa l b c -> NTa l a c.
Proof. intros H1 H2 j Hj. destruct (Z.lt_ge_cases j b); [apply H1|apply H2]; lia. Qed.
Lemma ws_nt c : isSpaceTabOrLineEnding c = true -> tx c = false.
Proof. unfold isSpaceTabOrLineEnding. rewrite !orb_true_iff. intros [[[H|H]|H]|H]; apply Z.eqb_eq in H; subst c; reflexivity. Qed.
Lemma eol_nt c : isEOLz c = true -> tx c = false.
Proof. unfold isEOLz. rewrite orb_true_iff. intros [H|H]; apply Z.eqb_eq in H; subst c; reflexivity. Qed.
Lemma sptab_nt c : isSpTab c = true -> tx c = false.
Proof. unfold isSpTab. rewrite orb_true_iff. intros [H|H]; apply Z.eqb_eq in H; subst c; reflexivity. Qed.
Lemma eolTail_from l n : 0 <= n -> eolTail l -> eolTail (from_ l n).
Proof.
  intros Hn H j Hj Ej k Hk. destruct (Z.le_gt_cases n (len l)) as [L|L].
  - rewrite len_from in Hj, Hk by lia. rewrite at_from in * by lia. apply (H (n + j)); [lia|exact Ej|lia].
  - rewrite from_nil in Hj by lia. unfold len in Hj. cbn in Hj. lia.
Qed.
Lemma blank_all l : isBlankLine l = true -> NTa l 0 (len l).
Proof.
  intros H j Hj. unfold isBlankLine in H. apply ws_nt.
  revert j Hj. induction l as [|c r IH]; intros j Hj; [unfold len in Hj; cbn in Hj; lia|].
  cbn [forallb] in H. apply andb_true_iff in H. destruct H as [H1 H2]. rewrite len_cons in Hj.
  destruct (Z.eq_dec j 0) as [->|N]; [exact H1|]. replace j with ((j - 1) + 1) by lia. rewrite at_consS by lia. apply IH; [exact H2|lia].
Qed.

(* ---- thematic break ---- *)
Lemma tb_all : forall l i n want e, 0 <= tb_loop l i n want e -> NTa l 0 (len l).
Proof.
  induction l as [|b r IH]; intros i n want e H j Hj; [unfold len in Hj; cbn in Hj; lia|]. cbn [tb_loop] in H. rewrite len_cons in Hj.
  assert (Hb : tx b = false /\ exists i' n' w' e', 0 <= tb_loop r i' n' w' e').
  { destruct ((b =? 45) || (b =? 95) || (b =? 42)) eqn:Eb.
    - split; [rewrite !orb_true_iff in Eb; destruct Eb as [[Eb|Eb]|Eb]; apply Z.eqb_eq in Eb; subst b; reflexivity|].
      destruct (n =? 0); [eauto|]. destruct (b =? want); [eauto|lia].
    - destruct (isSpaceTabOrLineEnding b) eqn:Ew; [split; [apply ws_nt, Ew|eauto]|lia]. }
  destruct Hb as [Hb (i' & n' & w' & e' & Hr)].
  destruct (Z.eq_dec j 0) as [->|N]; [exact Hb|]. replace j with ((j - 1) + 1) by lia. rewrite at_consS by lia.
  apply (IH _ _ _ _ Hr). lia.
Qed.
Lemma thematic_all l : 0 <= parseThematicBreak l -> NTa l 0 (len l).
Proof. apply tb_all. Qed.

(* ---- setext underline ---- *)
Lemma setext_loop_all c0 level : tx c0 = false -> forall l, setext_loop l c0 level <> 0 -> NTa l 0 (len l).
Proof.
  intros Hc. induction l as [|c r IH]; intros H j Hj; [unfold len in Hj; cbn in Hj; lia|]. cbn [setext_loop] in H.
  destruct (Z.eqb_spec c c0) as [->|N].
  - rewrite len_cons in Hj. destruct (Z.eq_dec j 0) as [->|Nj]; [exact Hc|]. replace j with ((j - 1) + 1) by lia. rewrite at_consS by lia.
    apply (IH H). lia.
  - destruct (isBlankLine (c :: r)) eqn:Eb; [apply (blank_all _ Eb); exact Hj|contradiction].
Qed.
Lemma setext_all l : parseSetextHeadingUnderline l <> 0 -> NTa l 0 (len l).
Proof.
  destruct l as [|c r]; [intros H; contradiction|]. cbn [parseSetextHeadingUnderline]. intros H j Hj. rewrite len_cons in Hj.
  assert (G : tx c = false /\ NTa r 0 (len r)).
  { destruct (Z.eqb_spec c 61) as [->|N1]; [split; [reflexivity|apply (setext_loop_all 61 1 eq_refl _ H)]|].
    destruct (Z.eqb_spec c 45) as [->|N2]; [split; [reflexivity|apply (setext_loop_all 45 2 eq_refl _ H)]|contradiction]. }
  destruct G as [G1 G2]. destruct (Z.eq_dec j 0) as [->|Nj]; [exact G1|]. replace j with ((j - 1) + 1) by lia. rewrite at_consS by lia. apply G2. lia.
Qed.

(* ---- code fence ---- *)
Lemma fence_nt line c n is_ ie : parseCodeFence line = (c, n, is_, ie) -> 0 < n ->
  (is_ < 0 -> NTa line 0 (len line)) /\
  (0 <= is_ -> 0 <= is_ /\ is_ <= ie /\ ie <= len line /\ NTa line 0 is_ /\ NTa line ie (len line)).
Proof.
  intros H Hn. destruct (parseCodeFence_sound line c n is_ ie H Hn) as (Hc & Hn3 & Hf & _ & Hi).
  assert (Hcn : tx c = false) by (destruct Hc as [-> | ->]; reflexivity).
  assert (Hpre : NTa line 0 n) by (intros j Hj; rewrite Hf by lia; exact Hcn).
  destruct Hi as [(E1 & E2 & Hw)|(A & B & C & D & _ & _ & F & _)].
  - split; [|intros; lia]. intros _. eapply NTa_app; [exact Hpre|]. intros j Hj. apply ws_nt, Hw. exact Hj.
  - split; [intros; lia|]. intros _. split; [lia|]. split; [lia|]. split; [exact C|]. split.
    + eapply NTa_app; [exact Hpre|]. intros j Hj. apply ws_nt, D. exact Hj.
    + intros j Hj. apply ws_nt, F. exact Hj.
Qed.

(* ---- ATX heading ---- *)
Lemma scanBack_ws line start E0 : forall fuel e, e <= E0 -> (forall j, e <= j < E0 -> isSpaceTabOrLineEnding (at_ line j) = true) ->
  let r := atx_scanBack fuel line start e in
  fst r <= e /\ (forall j, fst r <= j < E0 -> isSpaceTabOrLineEnding (at_ line j) = true) /\ (snd r = true -> start < fst r /\ at_ line (fst r - 1) = 35).
Proof.
  induction fuel as [|f IH]; intros e He Hw; cbv zeta; cbn [atx_scanBack]; [cbn [fst snd]; split; [lia|split; [exact Hw|discriminate]]|].
  destruct (Z.leb_spec e start) as [L|L]; [cbn [fst snd]; split; [lia|split; [exact Hw|discriminate]]|].
  assert (Hstep : isSpaceTabOrLineEnding (at_ line (e - 1)) = true ->
            let r := atx_scanBack f line start (e - 1) in
            fst r <= e /\ (forall j, fst r <= j < E0 -> isSpaceTabOrLineEnding (at_ line j) = true) /\ (snd r = true -> start < fst r /\ at_ line (fst r - 1) = 35)).
  { intros Hc. destruct (IH (e - 1) ltac:(lia)) as (A & B & C).
    - intros j Hj. destruct (Z.eq_dec j (e - 1)) as [->|N]; [exact Hc|apply Hw; lia].
    - cbv zeta in *. split; [lia|split; assumption]. }
  destruct ((at_ line (e - 1) =? 13) || (at_ line (e - 1) =? 10)) eqn:Eeol.
  { apply Hstep. unfold isSpaceTabOrLineEnding. rewrite orb_true_iff in Eeol. destruct Eeol as [E|E]; rewrite E; rewrite ?orb_true_r; reflexivity. }
  destruct (isSpTab (at_ line (e - 1))) eqn:Esp.
  { destruct (isEndEscaped _); [cbn [fst snd]; split; [lia|split; [exact Hw|discriminate]]|].
    apply Hstep. unfold isSpaceTabOrLineEnding. unfold isSpTab in Esp. rewrite orb_true_iff in Esp. destruct Esp as [E|E]; rewrite E; rewrite ?orb_true_r; reflexivity. }
  destruct (Z.eqb_spec (at_ line (e - 1)) 35) as [E35|N35]; cbn [fst snd]; (split; [lia|split; [exact Hw|]]); [intros _; split; [lia|exact E35]|discriminate].
Qed.
Lemma trailing_spec line start e1 : forall fuel i, i < e1 -> start - 1 <= i -> i - start + 1 < Z.of_nat fuel -> (forall j, i < j < e1 -> at_ line j = 35) ->
  let r := atx_trailing fuel line start i in
  (snd r = 0) \/ (snd r = 1 /\ fst r = start /\ forall j, start <= j < e1 -> at_ line j = 35) \/
  (snd r = 2 /\ start <= fst r - 1 /\ fst r <= e1 /\ isSpTab (at_ line (fst r - 1)) = true /\ forall j, fst r <= j < e1 -> at_ line j = 35).
Proof.
  induction fuel as [|f IH]; intros i Hi Hlo Hf Hh; [lia|]. cbv zeta. cbn [atx_trailing].
  destruct (Z.ltb_spec i start) as [L|L]; [right; left; cbn [fst snd]; repeat split; intros j Hj; apply Hh; lia|].
  destruct (Z.eqb_spec (at_ line i) 35) as [E|N].
  - apply IH; [lia|lia|lia|]. intros j Hj. destruct (Z.eq_dec j i) as [->|Nj]; [exact E|apply Hh; lia].
  - destruct (isSpTab (at_ line i)) eqn:Esp; [|left; reflexivity].
    right; right. cbn [fst snd]. replace (i + 1 - 1) with i by lia. repeat split; try lia; try assumption. intros j Hj. apply Hh. lia.
Qed.
Lemma trim_spec' line start : forall fuel e, let r := atx_trim fuel line start e in
  r <= e /\ forall j, r <= j < e -> isSpTab (at_ line j) = true.
Proof.
  induction fuel as [|f IH]; intros e; cbn [atx_trim]; [split; [lia|intros; lia]|].
  destruct (e <=? start); [split; [lia|intros; lia]|].
  destruct (negb (isSpTab (at_ line (e - 1))) || isEndEscaped (upto line (e - 1))) eqn:Ec; [split; [lia|intros; lia]|].
  apply orb_false_iff in Ec. destruct Ec as [Ec _]. apply negb_false_iff in Ec.
  destruct (IH (e - 1)) as [A B]. cbv zeta. split; [lia|]. intros j Hj. destruct (Z.eq_dec j (e - 1)) as [->|N]; [exact Ec|apply B; lia].
Qed.

Lemma atx_nt l lv cs ce : parseATXHeading l = (lv, cs, ce) -> 1 <= lv -> eolTail l ->
  0 <= cs <= ce /\ ce <= len l /\ NTa l 0 cs /\ NTa l ce (len l).
Proof.
  intros H Hlv Het. destruct (atx_bounds l lv cs ce H Hlv) as (B1 & B2 & _). split; [exact B1|]. split; [exact B2|].
  revert H. unfold parseATXHeading. cbv zeta.
  destruct (countWhile_spec (fun c => c =? 35) l) as (C1 & C2 & C3). remember (countWhile (fun c => c =? 35) l) as level eqn:Elv.
  assert (Hh : NTa l 0 level) by (intros j Hj; specialize (C2 j Hj); apply Z.eqb_eq in C2; rewrite C2; reflexivity).
  destruct ((level =? 0) || (6 <? level)); [intros H; injection H as <- <- <-; lia|].
  destruct ((len l <=? level) || (at_ l level =? 10) || (at_ l level =? 13)) eqn:EA.
  { intros H. injection H as <- <- <-. split; [exact Hh|]. rewrite !orb_true_iff in EA.
    destruct EA as [[EA|EA]|EA].
    - apply Z.leb_le in EA. intros j Hj. lia.
    - apply Z.eqb_eq in EA. intros j Hj. apply eol_nt. apply (Het level); [lia|unfold isEOLz; rewrite EA; reflexivity|lia].
    - apply Z.eqb_eq in EA. intros j Hj. apply eol_nt. apply (Het level); [lia|unfold isEOLz; rewrite EA; reflexivity|lia]. }
  destruct (negb (isSpTab (at_ l level))) eqn:Esp; [intros H; injection H as <- <- <-; lia|]. apply negb_false_iff in Esp.
  assert (Hlt : level < len l).
  { apply orb_false_iff in EA. destruct EA as [EA _]. apply orb_false_iff in EA. destruct EA as [EA _]. apply Z.leb_gt in EA. exact EA. }
  destruct (countWhile_spec isSpTab (from_ l (level + 1))) as (D1 & D2 & _). rewrite len_from in D1 by lia.
  remember (countWhile isSpTab (from_ l (level + 1))) as k eqn:Ek. remember (level + 1 + k) as start eqn:Est.
  assert (Hpre : NTa l 0 start).
  { eapply NTa_app; [exact Hh|]. intros j Hj. apply sptab_nt. destruct (Z.eq_dec j level) as [->|N]; [exact Esp|].
    specialize (D2 (j - (level + 1)) ltac:(lia)). rewrite at_from in D2 by lia. replace (level + 1 + (j - (level + 1))) with j in D2 by lia. exact D2. }
  destruct (scanBack_ws l start (len l) (S (length l)) (len l) ltac:(lia) ltac:(intros; lia)) as (S1 & S2 & S3).
  destruct (atx_scanBack (S (length l)) l start (len l)) as [e1 hit]. cbn [fst snd] in S1, S2, S3.
  assert (Hws : NTa l e1 (len l)) by (intros j Hj; apply ws_nt, S2; exact Hj).
  destruct hit; cbn [negb]; [|intros H; injection H as <- <- <-; split; assumption].
  destruct (S3 eq_refl) as [S4 S5].
  pose proof (trailing_spec l start e1 (S (length l)) (e1 - 1) ltac:(lia) ltac:(lia) ltac:(unfold len in *; lia) ltac:(intros; lia)) as T.
  destruct (atx_trailing (S (length l)) l start (e1 - 1)) as [e2 mode]. cbn [fst snd] in T.
  destruct (Z.eqb_spec mode 0) as [E0|N0]; [intros H; injection H as <- <- <-; split; assumption|].
  destruct (trim_spec' l start (S (length l)) e2) as [R1 R2].
  remember (atx_trim (S (length l)) l start e2) as tr eqn:Etr. clear Etr.
  intros H. injection H as <- <- <-. split; [exact Hpre|].
  destruct T as [T|[(T1 & T2 & T3)|(T1 & T2 & T3 & T4 & T5)]]; [contradiction| |].
  - subst e2. intros j Hj. destruct (Z.lt_ge_cases j start) as [L|L]; [apply sptab_nt, R2; lia|].
    destruct (Z.lt_ge_cases j e1) as [L2|L2]; [rewrite T3 by lia; reflexivity|apply Hws; lia].
  - intros j Hj. destruct (Z.lt_ge_cases j e2) as [L|L]; [apply sptab_nt, R2; lia|].
    destruct (Z.lt_ge_cases j e1) as [L2|L2]; [rewrite T5 by lia; reflexivity|apply Hws; lia].
Qed.

(* ---- block quote marker ---- *)
Lemma prefix62 t : hasBytePrefix t [62] = true -> at_ t 0 = 62 /\ 1 <= len t.
Proof.
  destruct t as [|x r]; [discriminate|]. cbn [hasBytePrefix]. intros H. apply andb_true_iff in H. destruct H as [H _]. apply Z.eqb_eq in H.
  split; [rewrite at_cons0; lia|rewrite len_cons; pose proof (len_nonneg r); lia].
Qed.

(* ---- list marker: its last byte is the delimiter ---- *)
Lemma marker_last l d n e : parseListMarker l = (d, n, e) -> 0 <= e -> 1 <= e <= len l /\ at_ l (e - 1) <> 0.
Proof.
  intros H He. pose proof (parseListMarker_sound l d n e H He) as Hs. inversion Hs as [c rest Hc _|ds d' rest Hl Hd Hdd _]; subst.
  - rewrite len_cons. pose proof (len_nonneg rest). split; [lia|]. replace (1 - 1) with 0 by lia. rewrite at_cons0. destruct Hc as [->|[->| ->]]; discriminate.
  - rewrite len_app, len_cons. pose proof (len_nonneg rest). pose proof (len_nonneg ds). split; [lia|].
    replace (len ds + 1 - 1) with (len ds) by lia. rewrite at_app_r by lia. replace (len ds - len ds) with 0 by lia. rewrite at_cons0.
    destruct Hdd as [-> | ->]; discriminate.
Qed.
