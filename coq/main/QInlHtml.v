(* QInlHtml.v -- T64 (html): the raw-HTML tag scanner of the inline pass on the two related readers of D and quote D.

   q_parseHTMLTag_eqfuel : parseHTMLTag f r' = mapSpan sg (parseHTMLTag f r) for readers related by QIRdrBase.RR .. true, the position
                        inside a span of IK, and ONE common fuel f (any f: the two runs stay in lockstep); with the facts about a valid result.
   q_parseHTMLTag     : parseHTMLTag f' r' = mapSpan sg (parseHTMLTag f r)  for two independent adequate fuels (IFHtml.parseHTMLTag_fuel).
   q_parseHTMLTag_new : the same for the readers and fuels that the tokeniser (Inl3e.istep) uses:
                        newReader src (unpFrom st) pos, fuel 2 * length src + 10 on each side.

   One hypothesis more than the task asked for: NoGtBehindLast -- when the last span of IK ends inside a line of sD (not behind a
   line feed, not at the end of sD: the content of an ATX heading), the byte behind it is not '>'.  (It is a space, a tab or a line feed in every leaf produced by the block layer.)  It is
   used ONLY for the fact `InIK (e - 1)`; without it that fact is false in the abstract setting (QInlHtmlRefute.v: sD = "<a>",
   IK = [[0,2)]: the scanner, exhausted inside the line, still reads the '>' behind the span and returns (0, 3)). *)
From Coq Require Import List ZArith Lia Bool.
Import ListNotations.
Require Import Base Tables Utf8 Tree Rdr Link Collect Html Recog Inl3a Inl3b Inl3c Inl3d ShapesBase ShapesR IFBase IFLink IFHtml QuoteSimMap QIRdrBase QInlHtml1 QInlHtml2.
Open Scope Z_scope.

(* the image of a span: nullSpan |-> nullSpan, (s, e) |-> (sg s, sg (e - 1) + 1) when 0 <= s < e *)
Definition mapSpan (sg : Z -> Z) (sp : Z * Z) : Z * Z :=
  if (0 <=? fst sp) && (fst sp <? snd sp) then (sg (fst sp), sg (snd sp - 1) + 1) else nullSpan.
Lemma mapSpan_null sg : mapSpan sg nullSpan = nullSpan. Proof. reflexivity. Qed.
Lemma mapSpan_valid sg s e : 0 <= s < e -> mapSpan sg (s, e) = (sg s, sg (e - 1) + 1).
Proof. intros H. unfold mapSpan. cbn [fst snd]. destruct (Z.leb_spec 0 s); [|lia]. destruct (Z.ltb_spec s e); [reflexivity|lia]. Qed.

(* behind the last span of IK, when it ends inside a line, there is no '>' *)
Definition NoGtBehindLast (sD : bytes) (IK : list inline) : Prop :=
  forall pre u, IK = pre ++ [u] -> iend u < len sD -> at_ sD (iend u - 1) <> 10 -> at_ sD (iend u) <> 62.

Lemma spW_before' sD : forall pre n u, spW sD (pre ++ [n]) = true -> In u pre -> iend u <= istart n.
Proof.
  induction pre as [|x pre IH]; intros n u W Hu; [destruct Hu|]. cbn [app] in W. pose proof (spW_cons _ _ _ W) as (_ & _ & _ & D & Wr).
  destruct Hu as [->|Hu]; [apply D, in_or_app; right; left; reflexivity|apply (IH n u Wr Hu)].
Qed.
Lemma NoGt_of_last sD sg IK : spW sD IK = true -> Forall (gsp sD sg IK) IK -> NoGtBehindLast sD IK -> NoGtBehind sD IK.
Proof.
  intros W G HL u Hu Hmax Hlt H10.
  destruct (@exists_last _ IK ltac:(intros E; rewrite E in Hu; destruct Hu)) as (pre & l & E).
  rewrite E in Hu. apply in_app_or in Hu. destruct Hu as [Hu|[<-|[]]]; [|apply (HL pre l E Hlt H10)].
  exfalso. rewrite E in W. pose proof (spW_before' sD pre l u W Hu) as Hb.
  assert (Hl : In l IK) by (rewrite E; apply in_or_app; right; left; reflexivity).
  rewrite Forall_forall in G. destruct (G l Hl) as (_ & Gl & _). specialize (Hmax l Hl). lia.
Qed.

(* the facts about the result on the plain side *)
Definition TagFacts (sD : bytes) (IK : list inline) (p : Z) (res : Z * Z) : Prop :=
  res = nullSpan \/
  exists e, res = (p, e) /\ 0 <= p /\ p < e <= len sD /\ InIK IK (e - 1) /\ at_ sD (e - 1) = 62 /\ at_ sD (e - 1) <> 10.

(* one common fuel on both sides: no adequacy is needed (the two sides consume fuel in lockstep in every loop) *)
Theorem q_parseHTMLTag_eqfuel sD sQ sg IK f r r' :
  SGood sD sQ sg -> spW sD IK = true -> Forall (gsp sD sg IK) IK -> NoGtBehindLast sD IK ->
  QIRdrBase.RR sD sQ sg IK true r r' -> InIK IK (r_pos r) ->
  parseHTMLTag f r' = mapSpan sg (parseHTMLTag f r) /\ TagFacts sD IK (r_pos r) (parseHTMLTag f r).
Proof.
  intros S W G HL H Hin. pose proof (NoGt_of_last sD sg IK W G HL) as H62.
  destruct (RR_pos_rng sD sQ sg IK r r' H) as [P P'].
  assert (HB : RB sD sQ sg IK (r_pos r) r r').
  { split; [exact H|]. split; [|lia]. destruct Hin as (u & Hu & Hr). exists u. split; [exact Hu|lia]. }
  destruct (q_parseHTMLTag_same sD sQ sg IK S W (r_pos r) H62 f r r' HB ltac:(lia)) as [[-> ->]|(e & e' & -> & -> & (q & Hq & Hat & Hi & -> & ->))].
  - split; [reflexivity|left; reflexivity].
  - rewrite (RR_pos_in sD sQ sg IK S r r' H ltac:(lia)). rewrite mapSpan_valid by lia. replace (q + 1 - 1) with q by lia.
    split; [reflexivity|]. right. exists (q + 1). replace (q + 1 - 1) with q by lia. split; [reflexivity|]. split; [lia|]. split; [lia|]. split; [exact Hi|]. split; [exact Hat|lia].
Qed.
Print Assumptions q_parseHTMLTag_eqfuel.

(* two independent adequate fuels *)
Theorem q_parseHTMLTag sD sQ sg IK f f' r r' :
  SGood sD sQ sg -> spW sD IK = true -> Forall (gsp sD sg IK) IK -> NoGtBehindLast sD IK ->
  QIRdrBase.RR sD sQ sg IK true r r' -> InIK IK (r_pos r) ->
  nu sD r < Z.of_nat f -> nu sQ r' < Z.of_nat f' ->
  parseHTMLTag f' r' = mapSpan sg (parseHTMLTag f r) /\ TagFacts sD IK (r_pos r) (parseHTMLTag f r).
Proof.
  intros S W G HL H Hin Hf Hf'.
  pose proof (RR_PL _ _ _ _ _ _ _ H) as HP. pose proof (RR_PL' sD sQ sg IK S true r r' H) as HP'.
  rewrite (parseHTMLTag_fuel sD f (Nat.max f f') r HP Hf ltac:(lia)).
  rewrite (parseHTMLTag_fuel sQ f' (Nat.max f f') r' HP' Hf' ltac:(lia)).
  apply (q_parseHTMLTag_eqfuel sD sQ sg IK); assumption.
Qed.
Print Assumptions q_parseHTMLTag.

(* ---------------------------------------------------------------- the call of the tokeniser *)
Lemma ibudget_unp sp : Forall (fun u => ikind u = UnparsedKind) sp -> ibudget sp = 0.
Proof. induction 1 as [|u l Hu _ IH]; [reflexivity|]. cbn [ibudget]. rewrite Hu, IH. reflexivity. Qed.

Theorem q_parseHTMLTag_new sD sQ sg IK sp p :
  SGood sD sQ sg -> spW sD IK = true -> Forall (gsp sD sg IK) IK -> NoGtBehindLast sD IK ->
  (exists pre, IK = pre ++ sp) -> (exists u, In u sp /\ istart u <= p < iend u) ->
  parseHTMLTag (2 * length sQ + 10) (newReader sQ (map (mvS sg) sp) (sg p))
    = mapSpan sg (parseHTMLTag (2 * length sD + 10) (newReader sD sp p)) /\
  TagFacts sD IK p (parseHTMLTag (2 * length sD + 10) (newReader sD sp p)).
Proof.
  intros S W G HL (pre & EIK) (u & Hu & Hr).
  assert (Gsp : Forall (gsp sD sg IK) sp) by (rewrite EIK in G at 2; apply Forall_app in G; apply G).
  assert (Wsp : spW sD sp = true) by (rewrite EIK in W; apply (spW_app_r sD pre), W).
  assert (Gu : gsp sD sg IK u) by (rewrite Forall_forall in Gsp; apply Gsp, Hu). pose proof Gu as (Ua & Ub & Uc & _).
  assert (HR : QIRdrBase.RR sD sQ sg IK true (newReader sD sp p) (newReader sQ (map (mvS sg) sp) (QIRdrBase.sgE sD sg p))).
  { apply (bRR_new sD sQ sg IK true S); [exact Gsp|exact Wsp|lia|intros; lia| |exists pre; exact EIK].
    intros _. right. left. exists u. split; [exact Hu|exact Hr]. }
  rewrite (bsgE_in sD sQ sg S) in HR by lia.
  assert (Hk : Forall (fun v => ikind v = UnparsedKind) sp).
  { rewrite Forall_forall in *. intros v Hv. destruct (Gsp v Hv) as (_ & _ & _ & _ & K & _). exact K. }
  assert (Hk' : Forall (fun v => ikind v = UnparsedKind) (map (mvS sg) sp)).
  { rewrite Forall_forall in *. intros v' Hv'. apply in_map_iff in Hv'. destruct Hv' as (v & <- & Hv). rewrite ikind_mvS. apply Hk, Hv. }
  pose proof (nu_new_pos sD sp p Wsp ltac:(lia)) as N1. rewrite (ibudget_unp sp Hk) in N1.
  pose proof (SG_nn _ _ _ S p ltac:(lia)) as Hsg.
  pose proof (nu_new_pos sQ (map (mvS sg) sp) (sg p) (spW_mvS sD sQ sg IK S sp Gsp Wsp) Hsg) as N2. rewrite (ibudget_unp _ Hk') in N2.
  apply (q_parseHTMLTag sD sQ sg IK _ _ _ _ S W G HL HR).
  - exists u. split; [rewrite EIK; apply in_or_app; right; exact Hu|exact Hr].
  - unfold len in *. cbn [newReader r_pos] in *. lia.
  - unfold len in *. cbn [newReader r_pos] in *. lia.
Qed.
Print Assumptions q_parseHTMLTag_new.
