From Coq Require Import List ZArith Lia Bool.
Import ListNotations.
Require Import Base Tables Utf8 Tree Rdr Link Collect Html Recog Inl3a Inl3b Inl3c Inl3d Inl3e ShapesBase ShapesR IFBase IFLink IFCollect
  EolCRLFDefs EolCRLFSimBytes EolCRLFSimStream
  EolGenCrlfRdrDefs EolGenCrlfRdrStep EolGenCrlfRdrNext EolGenCrlfRdrLink EolGenCrlfRdrColl EolGenCrlfRdrColl2 EolGenCrlfRdrTlr
  EolCRLFFullScanKind.
Open Scope Z_scope.

(* (S3), second part: transformLinkReference over COLLECTED nodes (Text / Unparsed / Indent) on R and on crlf R. *)

Lemma phiI_rekind R u : phiI R (rekindI u) = rekindI (phiI R u).
Proof. destruct u as [k s e i r ks]. unfold rekindI. cbn [ikind phiI]. destruct (k =? TextKind); reflexivity. Qed.
Lemma map_phiI_rekind R sp : map rekindI (map (phiI R) sp) = map (phiI R) (map rekindI sp).
Proof. rewrite !map_map. apply map_ext. intros u. symmetry. apply phiI_rekind. Qed.
Lemma forallb_rekind_start a : forall sp, forallb (fun j => a <=? istart j) (map rekindI sp) = forallb (fun j => a <=? istart j) sp.
Proof. induction sp as [|v sp IH]; [reflexivity|]. cbn [map forallb]. rewrite istart_rk, IH. reflexivity. Qed.
Lemma spW_rekind src : forall sp, spW src (map rekindI sp) = spW src sp.
Proof.
  induction sp as [|u sp IH]; [reflexivity|]. cbn [map spW]. rewrite istart_rk, iend_rk, IH, forallb_rekind_start. reflexivity.
Qed.
Lemma rev_hd_last {A} (l : list A) x t d : rev l = x :: t -> last l d = x.
Proof. intros E. rewrite <- (rev_involutive l), E. cbn [rev]. apply last_last. Qed.
Lemma last_map {A B} (g : A -> B) d : forall l, l <> [] -> last (map g l) (g d) = g (last l d).
Proof. induction l as [|x l IH]; intros H; [contradiction|]. destruct l as [|y l]; [reflexivity|]. cbn [map last] in *. apply IH. discriminate. Qed.

Section LabelSim.
  Variable R : bytes.
  Hypothesis R13 : ~ In 13 R.
  Notation P := (phiP R).
  Notation R' := (crlf R).
  Notation F := (phiI R).
  Notation SPI := (SPI R (len R)).

  Definition nodeOK (u : inline) : Prop :=
    (ikind u = TextKind \/ ikind u = UnparsedKind \/ ikind u = IndentKind) /\ istart u < iend u /\
    (ikind u = IndentKind -> iend u = istart u + 1 /\ at_ R (istart u) <> 10).

  Lemma SPI_rekind nodes : spW R nodes = true -> Forall nodeOK nodes -> SPI (map rekindI nodes).
  Proof.
    intros Hw Hf. split; [rewrite spW_rekind; exact Hw|].
    assert (A : forall u, In u nodes -> readableK (rekindI u) = true /\ neSp (rekindI u) = true /\ indOK1 R (rekindI u) = true /\ (iend (rekindI u) <=? len R) = true).
    { intros u Hu. rewrite Forall_forall in Hf. destruct (Hf u Hu) as (K & L & I). destruct (spW_in R nodes u Hw Hu) as (_ & _ & E).
      unfold readableK, neSp, indOK1. rewrite isIndent_rk, istart_rk, iend_rk, ikind_rk. split; [|split; [|split]].
      - destruct K as [K|[K|K]]; rewrite K; reflexivity.
      - apply Z.ltb_lt. exact L.
      - destruct (Z.eqb_spec (ikind u) IndentKind) as [Ek|Ek]; cbn [negb orb]; [|reflexivity]. destruct (I Ek) as [I1 I2].
        apply andb_true_iff. split; [apply Z.eqb_eq; exact I1|]. apply negb_true_iff, Z.eqb_neq. exact I2.
      - apply Z.leb_le. exact E. }
    split; [|split; [|split]]; apply forallb_forall; intros v Hv; apply in_map_iff in Hv; destruct Hv as (u & <- & Hu); apply (A u Hu).
  Qed.

  Theorem transformLinkReference_sim f f' nodes : spW R nodes = true ->
    Forall (fun u => (ikind u = TextKind \/ ikind u = UnparsedKind \/ ikind u = IndentKind) /\ istart u < iend u /\
                     (ikind u = IndentKind -> iend u = istart u + 1 /\ at_ R (istart u) <> 10)) nodes ->
    len R + ibudget nodes < Z.of_nat f -> len R' + ibudget nodes < Z.of_nat f' ->
    transformLinkReference f' R' (map F nodes) = transformLinkReference f R nodes.
  Proof.
    intros Hw Hn Hf Hf'. unfold transformLinkReference.
    destruct nodes as [|u0 rest] eqn:En; [reflexivity|]. rewrite <- En in Hw, Hn, Hf, Hf'.
    change (map F (u0 :: rest)) with (F u0 :: map F rest). cbv iota.
    change (F u0 :: map F rest) with (map F (u0 :: rest)). rewrite <- map_rev. rewrite <- En.
    destruct (rev nodes) as [|l t] eqn:Er.
    { exfalso. apply (f_equal (@length inline)) in Er. rewrite rev_length, En in Er. discriminate Er. }
    cbn [map]. rewrite istart_phiI, iend_phiI.
    rewrite <- (tlrs_rekind f' R' (map F nodes)), <- (tlrs_rekind f R nodes), map_phiI_rekind.
    apply (tlrs_sim R (len R) R13); [apply SPI_rekind; assumption| |rewrite ibudget_rk; exact Hf|rewrite ibudget_rk; exact Hf'].
    right. unfold endOf. assert (Hne : nodes <> []) by (rewrite En; discriminate).
    pose proof (last_map rekindI (mkI 0 0 0) nodes Hne) as Hl. change (rekindI (mkI 0 0 0)) with (mkI 0 0 0) in Hl.
    rewrite Hl, iend_rk, (rev_hd_last nodes l t (mkI 0 0 0) Er). lia.
  Qed.
End LabelSim.
Print Assumptions transformLinkReference_sim.
