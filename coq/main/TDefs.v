From Coq Require Import List ZArith Lia Bool.
Import ListNotations.
Require Import Base Tree Rdr Link Collect Html Recog LP Rules Starts Driver TRdr.
Open Scope Z_scope.

(* T1 / C04 (parsing is total), file 2 of 11.  Proof files, in dependency order:
     TRdr        the multi-line reader never moves backwards over sorted spans; ends reported by readEOL increase
     TPanicRange the panic code of processLine is in 0..8
     TDefs       GoodL / UB: the shallow invariant on the list of root children (this file)
     TOcp        onCloseParagraph / closeBlock produce a strictly increasing chain of closed blocks (OUT)
     TInv        the invariant R on the line parser, one lemma per primitive (openBlock, endBlock, collectInline, ...)
     TDesc       descendOpenBlocks: what happens to the root children, when the state becomes stDescendTerminated
     TStarts     the eight block starts (StartSpec), the phase predicate PH
     TLine       tryStarts, the opening loop, deferredClose, end of input, addLineText
     TLine2      processLine_good: the per-line theorem
     TShift      offsetTree preserves the invariant; upper bounds from the existing invariant bnd
     Total       lineLoop / skipLoop / nextBlock / allBlocks never run out of fuel; parseBlocks_total *)

(* ---- the shallow invariant on the list of root children ----
   GoodL lo ks : only the last child may be open; the ends of the closed children increase strictly, starting above lo;
   an open last child is not a setext heading, and when it is a paragraph its inline entries are sorted and start at or
   after the end of the previous sibling (lo). *)
Definition paraOK (lo : Z) (c : block) : Prop :=
  bkind c <> SetextHeadingKind /\
  (bkind c = ParagraphKind -> srt (bik c) /\ Forall (fun u => lo <= istart u) (bik c)).

Fixpoint GoodL (lo : Z) (ks : list block) : Prop :=
  match ks with
  | [] => True
  | c :: rest => if isOpen c then rest = [] /\ paraOK lo c else lo < bend c /\ GoodL (bend c) rest
  end.

Definition closedB (c : block) : Prop := isOpen c = false.
Definition endOf (lo : Z) (pre : list block) : Z := match rev pre with x :: _ => bend x | [] => lo end.

Lemma endOf_nil lo : endOf lo [] = lo. Proof. reflexivity. Qed.
Lemma endOf_snoc lo pre x : endOf lo (pre ++ [x]) = bend x.
Proof. unfold endOf. rewrite rev_app_distr. reflexivity. Qed.
Lemma endOf_cons lo x pre : endOf lo (x :: pre) = endOf (bend x) pre.
Proof.
  unfold endOf. cbn [rev]. destruct (rev pre) as [|y r] eqn:E; [reflexivity|]. reflexivity.
Qed.

Lemma isOpen_closed c : closedB c <-> 0 <= bend c.
Proof. unfold closedB, isOpen. split; intros H; [apply Z.ltb_ge in H; exact H|apply Z.ltb_ge; exact H]. Qed.

Lemma GoodL_app lo pre l : Forall closedB pre -> GoodL lo pre -> GoodL (endOf lo pre) l -> GoodL lo (pre ++ l).
Proof.
  revert lo. induction pre as [|x pre IH]; intros lo Hc Hp Hl; [exact Hl|].
  inversion Hc as [|? ? Hx Hr]; subst. cbn [app GoodL] in *. rewrite Hx in *.
  destruct Hp as [A B]. split; [exact A|]. apply IH; [exact Hr|exact B|]. rewrite endOf_cons in Hl. exact Hl.
Qed.
Lemma GoodL_app_inv lo pre l : l <> [] -> GoodL lo (pre ++ l) -> Forall closedB pre /\ GoodL lo pre /\ GoodL (endOf lo pre) l.
Proof.
  intros Hn. revert lo. induction pre as [|x pre IH]; intros lo H; [repeat split; [constructor|exact H]|].
  cbn [app GoodL] in H. destruct (isOpen x) eqn:Ex.
  - destruct H as [E _]. destruct pre; destruct l; try discriminate; congruence.
  - destruct H as [A B]. destruct (IH _ B) as (C & D & F). repeat split.
    + constructor; assumption.
    + cbn [GoodL]. rewrite Ex. split; assumption.
    + rewrite endOf_cons. exact F.
Qed.
Lemma GoodL_weaken lo lo' ks : lo' <= lo -> GoodL lo ks -> GoodL lo' ks.
Proof.
  intros Hle. destruct ks as [|c rest]; [tauto|]. cbn [GoodL]. destruct (isOpen c).
  - intros (A & B & C). split; [exact A|]. split; [exact B|]. intros Hk. destruct (C Hk) as [D F]. split; [exact D|].
    revert F. apply Forall_impl. intros u Hu. lia.
  - intros [A B]. split; [lia|exact B].
Qed.
Lemma GoodL_closed_prefix lo ks c : GoodL lo (ks ++ [c]) -> Forall closedB ks.
Proof. intros H. apply (GoodL_app_inv lo ks [c]) in H; [tauto|discriminate]. Qed.
Lemma GoodL_endOf_le lo ks : Forall closedB ks -> GoodL lo ks -> lo <= endOf lo ks.
Proof.
  revert lo. induction ks as [|x ks IH]; intros lo Hc H; [rewrite endOf_nil; lia|].
  inversion Hc as [|? ? Hx Hr]; subst. cbn [GoodL] in H. rewrite Hx in H. destruct H as [A B].
  rewrite endOf_cons. specialize (IH _ Hr B). lia.
Qed.

(* ---- upper bounds relative to the start LS of the current line ----
   every child but the last ends at or before LS; the last one, when closed, ends at or before LS unless the line is done (ld);
   when it is an open paragraph its entries lie at or before LS. *)
Definition lastUB (LS : Z) (ld : bool) (c : block) : Prop :=
  (isOpen c = false -> bend c <= LS \/ ld = true) /\
  (isOpen c = true -> bkind c = ParagraphKind -> Forall (fun u => istart u <= LS /\ iend u <= LS) (bik c)).
Definition UB (LS : Z) (ld : bool) (ks : list block) : Prop :=
  match rev ks with [] => True | c :: rpre => Forall (fun x => bend x <= LS) rpre /\ lastUB LS ld c end.

Lemma UB_nil LS ld : UB LS ld []. Proof. exact I. Qed.
Lemma UB_snoc LS ld pre c : UB LS ld (pre ++ [c]) <-> Forall (fun x => bend x <= LS) pre /\ lastUB LS ld c.
Proof.
  unfold UB. rewrite rev_app_distr. cbn [rev app]. split; intros [A B]; (split; [|exact B]).
  - apply Forall_rev in A. rewrite rev_involutive in A. exact A.
  - apply Forall_rev. exact A.
Qed.
Lemma lastUB_ld LS c : lastUB LS false c -> forall ld, lastUB LS ld c.
Proof. intros [A B] ld. split; [|exact B]. intros Hc. destruct (A Hc) as [D|D]; [left; exact D|discriminate]. Qed.
Lemma UB_ld LS ks : UB LS false ks -> forall ld, UB LS ld ks.
Proof. unfold UB. destruct (rev ks); [tauto|]. intros [A B] ld. split; [exact A|apply lastUB_ld; exact B]. Qed.

Lemma list_snoc_cases {A} (l : list A) : l = [] \/ exists pre x, l = pre ++ [x].
Proof.
  destruct (rev l) as [|x r] eqn:E.
  - left. rewrite <- (rev_involutive l), E. reflexivity.
  - right. exists (rev r), x. rewrite <- (rev_involutive l), E. reflexivity.
Qed.

(* ---- shape facts on blocks ---- *)
Lemma lastBlock_snoc b pre c : bkids b = pre ++ [c] -> lastBlock b = Some c.
Proof. intros E. unfold lastBlock. rewrite E, rev_app_distr. reflexivity. Qed.
Lemma lastBlock_some b c : lastBlock b = Some c -> exists pre, bkids b = pre ++ [c].
Proof.
  unfold lastBlock. destruct (rev (bkids b)) as [|x r] eqn:E; [discriminate|]. intros H. inversion H; subst.
  exists (rev r). rewrite <- (rev_involutive (bkids b)), E. reflexivity.
Qed.
Lemma lastBlock_none b : lastBlock b = None -> bkids b = [].
Proof.
  unfold lastBlock. destruct (rev (bkids b)) as [|x r] eqn:E; [|discriminate]. intros _.
  rewrite <- (rev_involutive (bkids b)), E. reflexivity.
Qed.
Lemma removelast_snoc {A} (pre : list A) x : removelast (pre ++ [x]) = pre.
Proof. apply removelast_last. Qed.
Lemma bkids_set_lastBlocks b pre c repl : bkids b = pre ++ [c] -> bkids (set_lastBlocks b repl) = pre ++ repl.
Proof. intros E. unfold set_lastBlocks. destruct b. cbn [bkids set_bkids] in *. rewrite E, removelast_snoc. reflexivity. Qed.
Lemma bend_set_lastBlocks b repl : bend (set_lastBlocks b repl) = bend b. Proof. destruct b; reflexivity. Qed.
Lemma bik_set_lastBlocks b repl : bik (set_lastBlocks b repl) = bik b. Proof. destruct b; reflexivity. Qed.
Lemma bkind_set_lastBlocks' b repl : bkind (set_lastBlocks b repl) = bkind b. Proof. destruct b; reflexivity. Qed.

(* shallow equality of blocks: what the root-level invariants look at *)
Definition shEq (c c' : block) : Prop :=
  bend c' = bend c /\ bkind c' = bkind c /\ (isOpen c = true -> bkind c = ParagraphKind -> bik c' = bik c).
Lemma shEq_refl c : shEq c c. Proof. repeat split. Qed.
Lemma shEq_isOpen c c' : shEq c c' -> isOpen c' = isOpen c.
Proof. intros (A & _). unfold isOpen. rewrite A. reflexivity. Qed.
Lemma shEq_trans a b c : shEq a b -> shEq b c -> shEq a c.
Proof.
  intros H1 H2. pose proof (shEq_isOpen _ _ H1) as Ho. destruct H1 as (A1 & A2 & A3). destruct H2 as (B1 & B2 & B3).
  unfold shEq. rewrite B1, B2. split; [exact A1|]. split; [exact A2|]. intros Hop Hk.
  rewrite B3; [apply A3; assumption|rewrite Ho; exact Hop|rewrite A2; exact Hk].
Qed.
Lemma shEq_set_lastBlocks c repl : shEq c (set_lastBlocks c repl).
Proof. destruct c; repeat split. Qed.
Lemma shEq_full c c' : bend c' = bend c -> bkind c' = bkind c -> bik c' = bik c -> shEq c c'.
Proof. intros A B C. split; [exact A|]. split; [exact B|]. intros _ _. exact C. Qed.

Lemma GoodL_one_shEq lo c c' : shEq c c' -> GoodL lo [c] -> GoodL lo [c'].
Proof.
  intros Hs. pose proof (shEq_isOpen _ _ Hs) as Ho. destruct Hs as (A & B & C). cbn [GoodL]. rewrite Ho.
  destruct (isOpen c) eqn:Eo; [|rewrite A; tauto]. unfold paraOK. rewrite B.
  intros (E & N & P). split; [exact E|]. split; [exact N|]. intros Hk. rewrite (C eq_refl Hk). apply P, Hk.
Qed.
Lemma lastUB_shEq LS ld c c' : shEq c c' -> lastUB LS ld c -> lastUB LS ld c'.
Proof.
  intros Hs. pose proof (shEq_isOpen _ _ Hs) as Ho. destruct Hs as (A & B & C). unfold lastUB. rewrite Ho, A, B.
  intros [P Q]. split; [exact P|]. intros Hop Hk. rewrite (C Hop Hk). apply Q; assumption.
Qed.
Lemma GoodL_last_shEq lo pre c c' : shEq c c' -> GoodL lo (pre ++ [c]) -> GoodL lo (pre ++ [c']).
Proof.
  intros Hs H. apply GoodL_app_inv in H; [|discriminate]. destruct H as (A & B & C).
  apply GoodL_app; [exact A|exact B|]. eapply GoodL_one_shEq; eassumption.
Qed.
Lemma UB_last_shEq LS ld pre c c' : shEq c c' -> UB LS ld (pre ++ [c]) -> UB LS ld (pre ++ [c']).
Proof. intros Hs. rewrite !UB_snoc. intros [A B]. split; [exact A|eapply lastUB_shEq; eassumption]. Qed.
