From Coq Require Import List ZArith Lia Bool.
Import ListNotations.
Require Import Base Tree Rdr Link Collect Html Recog LP Rules Starts Driver Leaf3e RdrBound L2Kind L2CC L2Bnd BSDef BSRdr BSTree BSOcp BSOrph BSClose
  BSLine1 BSLine2 BSLine3 BSLine4 BSLine5 BSLine6 BSLine7 BSLine8 BSErase BSLine9.
Open Scope Z_scope.

Lemma BPb_cstep M M' p p' : cstep p p' -> BPb M p -> M <= M' -> BPb M' p'.
Proof.
  intros Hc (A & B & C & D) Hle. destruct (cstep_Mc p p' Hc A) as (A' & _). pose proof Hc as ((E1 & E2) & _ & _).
  split; [exact A'|]. split; [rewrite E1; eapply sp_mono; eassumption|]. split; [|eapply ccP_same; [split; eassumption|exact D]].
  intros d x Hd. unfold cdepth in *. rewrite E1. rewrite E2 in Hd. apply C, Hd.
Qed.

Definition fblast (b : block) : block := match lastBlock b with Some c => set_lastBlocks b [set_blast c true] | None => b end.
Lemma erase_fblast x : eraseB (fblast x) = eraseB x.
Proof. unfold fblast. destruct (lastBlock x) as [c|] eqn:El; [|reflexivity]. eapply erase_set_lastBlocks; [exact El|apply erase_set_blast]. Qed.

Lemma Apre_transfer p p' : eraseB (root p') = eraseB (root p) -> cdepth p' = cdepth p -> li p' = li p -> lineStart p' = lineStart p -> line p' = line p ->
  ccP p' -> Apre p -> Apre p' /\ containerKind p' = containerKind p.
Proof.
  intros E E2 E3 E4 E5 Hcc (A & B & C).
  assert (K : containerKind p' = containerKind p) by (apply containerKind_transfer; [exact E|exact E2|apply A|exact Hcc]).
  split; [|exact K]. split; [|split].
  - unfold BP, Mc. rewrite E3, E4. apply (BPb_transfer _ p p'); assumption.
  - eapply C1_transfer; eassumption.
  - rewrite K. intros Ea. eapply LI_transfer; try eassumption. apply C, Ea.
Qed.

Lemma addLineText_ok p : Apre p -> W (addLineText p).
Proof.
  intros HA. unfold addLineText. cbv zeta.
  set (p1 := if isRestBlank p then _ else p).
  assert (H1 : Apre p1 /\ containerKind p1 = containerKind p).
  { unfold p1. destruct (isRestBlank p); [|tauto]. change (updCont p _) with (updCont p fblast).
    apply Apre_transfer; try reflexivity.
    - cbn [root updCont withRoot setLP]. apply erase_updAt, erase_fblast.
    - apply ccP_updCont; [apply HA|]. intros b _ Hb. unfold fblast. destruct (lastBlock b) as [c|] eqn:El; [|tauto]. split; [|apply bkind_set_lastBlocks].
      eapply cc_set_lastBlocks; [exact Hb|exact El|]. constructor; [|constructor].
      rewrite cc_set_blast, bkind_set_blast. split; [eapply cc_lastBlock; eassumption|apply compat_refl].
    - exact HA. }
  destruct H1 as [H1 K1].
  set (llb := isRestBlank p && _).
  set (p2 := withRoot p1 (setLastBlankUpTo (cdepth p1) llb (root p1))).
  assert (H2 : Apre p2 /\ containerKind p2 = containerKind p1).
  { apply Apre_transfer; try reflexivity.
    - cbn [root withRoot setLP]. apply erase_setLastBlankUpTo.
    - destruct H1 as ((_ & _ & _ & (A & B & C)) & _). unfold p2, ccP, wf, cdepth. cbn [root container withRoot setLP]. fold (cdepth p1).
      destruct (cc_setLastBlankUpTo llb (cdepth p1) (root p1) (cdepth p1) B C) as (A' & B' & C').
      split; [rewrite B'; exact A|split; [exact A'|exact C']].
    - exact H1. }
  destruct H2 as [(HB2 & C12 & L2) K2].
  change (bkind (contBlock p1)) with (containerKind p1).
  destruct (acceptsLines (containerKind p1)) eqn:Ea.
  - apply W_go.
    destruct ((li p2 <? len (line p2)) && (at_ (line p2) (li p2) =? 9) && (0 <? tabRem p2) && (tabRem p2 <? 4)) eqn:Et; [|exact HB2].
    apply andb_true_iff in Et. destruct Et as [Et _]. apply andb_true_iff in Et. destruct Et as [Et T3]. apply andb_true_iff in Et. destruct Et as [T1 T2].
    apply Z.ltb_lt in T1. apply Z.eqb_eq in T2. apply Z.ltb_lt in T3.
    set (q1 := updCont p2 _).
    assert (Hq1 : BPb (Mc p2 + 1) q1).
    { apply (BPb_add_entry (Mc p2) (Mc p2 + 1)); [exact HB2| | |]; unfold Mc; cbn [istart iend]; lia. }
    pose proof (consumeIndent_tab q1 ltac:(apply Hq1) T1 T2 T3) as Hli.
    change (BPb (Mc (consumeIndent q1 (tabRem p2))) (consumeIndent q1 (tabRem p2))).
    eapply BPb_cstep; [apply cstep_consumeIndent|exact Hq1|].
    destruct (cstep_Mc q1 _ (cstep_consumeIndent q1 (tabRem p2)) ltac:(apply Hq1)) as (_ & _ & E4 & _).
    unfold Mc. rewrite E4. change (tabRem q1) with (tabRem p2) in Hli. change (lineStart q1) with (lineStart p2). change (li q1) with (li p2) in Hli. lia.
  - destruct (negb (isRestBlank p)); [|apply BP_W; exact HB2].
    apply W_go. eapply BP_cstep; [apply cstep_consumeIndent|].
    apply OPx_openBlock_ns; [split; assumption|discriminate|].
    apply LI_pre; [apply HB2|apply L2; rewrite K2; exact Ea|discriminate].
Qed.

(* ---- one line ---- *)
Definition kidsOK (M : Z) (l : list block) : Prop := allP (sp M) l /\ chain 0 (-1) l.

Lemma root_kids M r : sp M r -> kidsOK M (bkids r).
Proof.
  rewrite sp_eq. intros (A & _ & _ & D & E). split; [exact E|]. eapply chain_lo; [|eapply chain_end; [left; lia|exact D]]. lia.
Qed.

Theorem sp_processLine H ns st children ls src : 0 <= H -> 0 <= ls -> ls + len (from_ src ls) = H -> len src <= H ->
  (ns = true -> hasByteSuffixEOL (from_ src ls) = true) -> bndL H ns children = true ->
  ccF children = true -> kidsOK ls children ->
  kidsOK H (fst (fst (processLine st children ls src))).
Proof.
  intros H0 Hls Hhi Hsrc Hns Hbnd Hcc [Ha Hch]. unfold processLine. cbv zeta.
  set (p0 := resetLP st children ls src).
  assert (Hlen : 0 <= len (from_ src ls)) by (unfold len; lia).
  assert (Hp0 : bndP H ns p0).
  { unfold bndP, p0, resetLP. cbn [root lineStart li line source].
    refine (conj _ (conj Hls (conj (conj (Z.le_refl 0) Hlen) (conj Hhi (conj Hsrc Hns))))).
    cbn [bnd forallb]. change (-1 <? 0) with true. change (documentKind =? LinkReferenceDefinitionKind) with false. cbn [orb andb]. exact Hbnd. }
  assert (Hroot : sp ls (root p0)).
  { cbn [p0 resetLP root sp]. repeat split; try lia; try discriminate; assumption. }
  assert (HB0 : BP p0).
  { split; [split; [exact Hls|cbn [p0 resetLP li line]; lia]|]. split; [unfold Mc; cbn [p0 resetLP li lineStart]; replace (ls + 0) with ls by lia; exact Hroot|]. split.
    - intros j x Hj Ex. change (cdepth p0) with O in Hj. replace j with O in Ex by lia. cbn in Ex. inversion Ex; subst x. cbn. lia.
    - unfold ccP, wf, cdepth. cbn [p0 resetLP root container]. split; [reflexivity|split; [exact Hcc|eexists; reflexivity]]. }
  pose proof (bndP_descend_loop H H0 ns (bheight (root p0)) _ O Hp0) as B1.
  pose proof (descend_ok (bheight (root p0)) p0 O HB0 Hroot eq_refl) as D1.
  fold (descendOpenBlocks p0) in B1, D1. destruct (descendOpenBlocks p0) as [am p1]. cbn [snd] in B1, D1.
  assert (B2 : bndP H ns (snd (if negb (state p1 =? stDescendTerminated) then openNewBlocks p1 am else (false, p1)))).
  { destruct (negb _); [apply bndP_openNewBlocks; assumption|assumption]. }
  assert (Hfin : W (let '(hasText, q) := if negb (state p1 =? stDescendTerminated) then openNewBlocks p1 am else (false, p1) in
                    if hasText then addLineText q else q)).
  { destruct D1 as [[Et Hw]|[HB1 Hc1]].
    - rewrite Et. cbn [negb Z.eqb Pos.eqb]. exact Hw.
    - destruct (negb (state p1 =? stDescendTerminated)); [|apply BP_W; exact HB1].
      destruct (openNewBlocks_ok p1 am HB1 Hc1) as [Hw Hx]. destruct (openNewBlocks p1 am) as [ht p2]. cbn [fst snd] in *.
      destruct ht; [apply addLineText_ok, Hx; reflexivity|exact Hw]. }
  destruct (if negb (state p1 =? stDescendTerminated) then openNewBlocks p1 am else (false, p1)) as [ht p2]. cbn [snd] in B2. cbn [fst].
  assert (B3 : bndP H ns (if ht then addLineText p2 else p2)) by (destruct ht; [apply bndP_addLineText|]; assumption).
  destruct B3 as (_ & _ & _ & E & _). destruct Hfin as [_ Hw]. rewrite E in Hw. apply root_kids, Hw.
Qed.
