(* T63-F1: one leaf block of the last root, source src against src ++ [10], through the inline parser. *)
From Coq Require Import List ZArith Lia Bool.
Import ListNotations.
Require Import Base Tables Utf8 Tree Rdr Link Collect Html Recog Inl3a Inl3b Inl3c Inl3d Driver Inl3e.
Require Import ShapesBase ShapesR ShapesComp3 IFBase IFPe IFTokDef IFTk5 IFTokTf GI6 EntBase EntDefs En2Tree ComposeBase GramInline InlineFuelAll InlineFuel IFEmpty.
Require Import LADef EolFinalDefs EolGenRdrBase EolFinalFullRdrE EolFinalFullTokB.
Open Scope Z_scope.

(* ---------- what `lines` gives ---------- *)
Section Lines.
  Variables (B src : bytes) (n : Z).
  Hypothesis Hlen : len src = n.
  Hypothesis Heol : forall i, 0 <= i < n -> ((at_ src i =? 10) || (at_ src i =? 13)) = ((at_ B i =? 10) || (at_ B i =? 13)).
  Local Notation L := (len src).

  Lemma lines_entry_facts M : M <= n -> forall ik, lines B M ik -> forall u, In u ik ->
    0 <= istart u /\ istart u < iend u /\ iend u <= L /\ (ikind u = IndentKind -> iend u < L) /\
    (ikind u = UnparsedKind \/ ikind u = IndentKind) /\ ikids u = [] /\ (ikind u = IndentKind -> iend u = istart u + 1).
  Proof.
    intros HM. induction ik as [|x r IH]; intros H u Hu; [destruct Hu|]. destruct H as (A & A1 & A2). destruct Hu as [->|Hu]; [|apply IH; assumption].
    destruct A as [(K & Kk & U1 & U2 & U3 & _)|[(K & Kk & I1 & I2 & _) Hn]].
    - split; [lia|]. split; [lia|]. split; [lia|]. split; [intros E; rewrite K in E; discriminate|]. split; [left; exact K|]. split; [exact Kk|intros E; rewrite K in E; discriminate].
    - destruct r as [|v r']; [destruct Hn|]. destruct Hn as [Kv Ev]. destruct A2 as (Av & _).
      assert (Hv : istart v < iend v /\ iend v <= M).
      { destruct Av as [(_ & _ & _ & V2 & V3 & _)|[(Kv' & _) _]]; [lia|rewrite Kv in Kv'; discriminate]. }
      split; [lia|]. split; [lia|]. split; [lia|]. split; [intros _; lia|]. split; [right; exact K|]. split; [exact Kk|intros _; lia].
  Qed.
  Lemma lines_sorted M : forall ik, lines B M ik -> forall u r, ik = u :: r -> forall j, In j r -> iend u <= istart j.
  Proof. intros ik H u r -> j Hj. destruct H as (_ & A1 & _). apply A1, Hj. Qed.
  Lemma lines_GS M : M <= n -> 0 < L -> forall ik, lines B M ik -> GS src ik.
  Proof.
    intros HM HL. induction ik as [|x r IH]; intros H; [exact I|]. cbn [GS]. pose proof H as (_ & A1 & A2).
    destruct (lines_entry_facts M HM (x :: r) H x (or_introl eq_refl)) as (F1 & F2 & F3 & F4 & _). split; [|split; [|apply IH, A2]].
    - unfold gE. repeat split; try lia; exact F4.
    - intros j Hj. apply A1, Hj.
  Qed.
  Lemma lines_sE M : M <= n -> forall ik, lines B M ik -> Forall (sE src) ik.
  Proof.
    intros HM ik H. apply Forall_forall. intros u Hu. destruct (lines_entry_facts M HM ik H u Hu) as (F1 & F2 & F3 & _). unfold sE. lia.
  Qed.
  Lemma lines_eok M : M <= n -> forall ik, lines B M ik -> forallb GI6.eok ik = true.
  Proof.
    intros HM ik H. apply forallb_forall. intros u Hu. destruct (lines_entry_facts M HM ik H u Hu) as (_ & _ & _ & _ & Hk & Hkk & _).
    unfold GI6.eok. rewrite Hkk. cbn [GI0.nilb]. rewrite andb_true_r. destruct Hk as [-> | ->]; reflexivity.
  Qed.
  (* the last line holds no line ending when the source does not end with one *)
  Lemma lines_noEol M : M <= n -> LADef.isEOLz (at_ src (L - 1)) = false -> forall ik, lines B M ik ->
    forall u, In u ik -> iend u = L -> forall i, istart u <= i < L -> LADef.isEOLz (at_ src i) = false.
  Proof.
    intros HM Hlast. induction ik as [|x r IH]; intros H u Hu He i Hi; [destruct Hu|]. destruct H as (A & A1 & A2). destruct Hu as [->|Hu]; [|apply (IH A2 u Hu He i Hi)].
    assert (HB : forall j, 0 <= j < n -> LADef.isEOLz (at_ src j) = true -> EntBase.isEOLz (at_ B j)).
    { intros j Hj Hz. unfold LADef.isEOLz in Hz. rewrite (Heol j Hj) in Hz. apply orb_true_iff in Hz. unfold EntBase.isEOLz. destruct Hz as [Hz|Hz]; apply Z.eqb_eq in Hz; tauto. }
    assert (HB' : forall j, 0 <= j < n -> EntBase.isEOLz (at_ B j) -> LADef.isEOLz (at_ src j) = true).
    { intros j Hj Hz. unfold LADef.isEOLz. rewrite (Heol j Hj). unfold EntBase.isEOLz in Hz. apply orb_true_iff. destruct Hz as [Hz|Hz]; rewrite Hz; [left|right]; reflexivity. }
    destruct A as [(K & _ & U1 & U2 & U3 & (_ & _ & _ & Kl & _) & _)|[(K & _ & I1 & I2 & _) Hn]].
    - destruct (LADef.isEOLz (at_ src i)) eqn:Ez; [|reflexivity]. exfalso. pose proof (HB i ltac:(lia) Ez) as Hz.
      destruct (Kl i ltac:(lia) Hz) as [Ei|(Ei & _ & E10)].
      + rewrite Ei, He in Ez. rewrite Ez in Hlast. discriminate.
      + assert (Hz2 : EntBase.isEOLz (at_ B (L - 1))) by (left; rewrite <- He; exact E10).
        rewrite (HB' (L - 1) ltac:(lia) Hz2) in Hlast. discriminate.
    - exfalso. destruct r as [|v r']; [destruct Hn|]. destruct Hn as [Kv Ev]. destruct A2 as (Av & _).
      destruct Av as [(_ & _ & _ & V2 & V3 & _)|[(Kv' & _) _]]; [lia|rewrite Kv in Kv'; discriminate].
  Qed.
End Lines.

(* ---------- an empty ATX heading: nothing is scanned ---------- *)
Lemma addText_nil st a : addText st a a = st.
Proof. unfold addText, addNode. replace (spanLen a a =? 0) with true; [reflexivity|]. symmetry. apply Z.eqb_eq. unfold spanLen. destruct (_ && _); lia. Qed.
Lemma parseInlinesG_empty src matcher b s rf tf pf lf ofu : bik b = [mkI UnparsedKind s s] -> (1 <= ofu)%nat ->
  parseInlinesG rf tf pf lf ofu src matcher b = [].
Proof.
  intros E Ho. unfold parseInlinesG, st0. rewrite E.
  set (S0 := {| rk := []; isrc := src; unp := [mkI UnparsedKind s s]; upos := 0; stk := []; ign := false; nid := 1; rootEnd := bend b; matcher := matcher |}).
  assert (Hil : forall f, iloopG rf tf pf f (setIgn S0 false) s s = (setIgn S0 false, s)).
  { destruct f as [|f]; [reflexivity|]. cbn [iloopG]. unfold spanEnd. cbn [S0 unp upos setIgn len length nth Z.to_nat mkI iend].
    change (Z.of_nat 1 <=? 0) with false. cbv iota. rewrite Z.ltb_irrefl, andb_false_r. reflexivity. }
  destruct ofu as [|ofu]; [lia|]. cbn [outerG]. cbn [S0 unp upos len length]. change (Z.of_nat 1 <=? 0) with false. cbv iota.
  cbn [nth Z.to_nat mkI ikind istart ign]. change (UnparsedKind =? 0) with false. change (UnparsedKind =? IndentKind) with false.
  change (UnparsedKind =? UnparsedKind) with true. cbv iota. fold S0. rewrite Hil.
  assert (Ese : spanEnd (setIgn S0 false) = s) by reflexivity. rewrite Ese, addText_nil.
  set (stX := setUpos (setIgn S0 false) (upos (setIgn S0 false) + 1)).
  assert (EG : forall f, outerG rf tf pf lf f stX = stX) by (destruct f; reflexivity).
  rewrite EG. unfold processEmphasisF. rewrite IFEmpty.pe_loop_empty by reflexivity. reflexivity.
Qed.

(* ---------- the leaf theorem ---------- *)
Definition leafHb (src : bytes) (refs : list bytes) (d : block) (ps : Z) : Prop :=
  hbFacts src ps \/ exists rf tf pf lf ofu, advFail src rf (bik d) tf pf lf refs d ofu.

Theorem leaf_final s r d refs :
  In r (fst (parseBlocks s)) -> subB d (rb_blk r) -> hasUnparsed d = true ->
  (0 < len (rb_src r) -> LADef.isEOLz (at_ (rb_src r) (len (rb_src r) - 1)) = false /\ at_ (rb_src r) (len (rb_src r) - 1) <> 62) ->
  (forall rf tf pf lf ofu,
     (2 * length (rb_src r ++ [10%Z]) + 10 <= rf)%nat -> (2 * length (rb_src r ++ [10%Z]) + 10 <= tf)%nat -> (8 * length (rb_src r ++ [10%Z]) + 8 <= pf)%nat ->
     (S (length (rb_src r ++ [10%Z])) <= lf)%nat -> (S (length (bik (finB (len (rb_src r)) d))) <= ofu)%nat ->
     parseInlinesG rf tf pf lf ofu (rb_src r ++ [10]) refs (finB (len (rb_src r)) d) = parseInlines (rb_src r ++ [10]) refs (finB (len (rb_src r)) d)) ->
  parseInlines (rb_src r ++ [10]) refs (finB (len (rb_src r)) d) = parseInlines (rb_src r) refs d \/
  (bkind d = ParagraphKind /\ exists X ps, 0 <= ps < len (rb_src r) /\ parseInlines (rb_src r) refs d = X ++ [txt ps (len (rb_src r))] /\
     parseInlines (rb_src r ++ [10]) refs (finB (len (rb_src r)) d) = X ++ [txt ps (len (rb_src r) + 1)] /\ leafHb (rb_src r) refs d ps /\
     (exists u, In u (bik d) /\ iend u = len (rb_src r))).
Proof.
  intros Hr Hd Hu Hend Hq. set (src := rb_src r) in *. set (L := len src) in *.
  destruct (root_facts s r Hr) as (B & pre' & M & Hn & Es & Ht & Lp & Hf). fold src in Es.
  pose proof (facts_sub B pre' M d _ Hd Hf) as Hfd.
  pose proof (leaf_bikOKw B (upto B (bend (rb_blk r))) src pre' M (bend (rb_blk r)) Hn eq_refl Es Ht Lp d Hfd Hu) as Hw.
  pose proof (src_len B (upto B (bend (rb_blk r))) src (bend (rb_blk r)) Hn eq_refl Es) as Hlen. fold L in Hlen.
  pose proof (src_eol B (upto B (bend (rb_blk r))) src (bend (rb_blk r)) eq_refl Es Ht) as Heol.
  set (rf := (2 * length (src ++ [10%Z]) + 10)%nat). set (pf := (8 * length (src ++ [10%Z]) + 8)%nat). set (lf := S (length (src ++ [10%Z]))).
  assert (Hlen2 : length (src ++ [10%Z]) = S (length src)) by (rewrite app_length; cbn; lia).
  assert (Hp : forall ofu, (S (length (bik d)) <= ofu)%nat -> parseInlinesG rf rf pf lf ofu src refs d = parseInlines src refs d).
  { intros ofu Ho. apply (parseFull_fuel_adequate s r d Hr Hd Hu refs); unfold rf, pf, lf; fold src; rewrite ?Hlen2; lia. }
  destruct (leaf_cases B pre' M (bend (rb_blk r)) Lp d Hfd Hu) as (Hb0 & Hb1 & Hb2 & [(HPS & HL & _)|(HA & a & t & Eb & Ha0 & _ & Hat & Htb & _)]).
  - (* paragraph / setext heading *)
    assert (Hok : bikOK src d = true).
    { unfold bikOKw in Hw. apply orb_true_iff in Hw. destruct Hw as [Hw|Hw]; [exact Hw|].
      unfold emptyATX in Hw. apply andb_true_iff in Hw. destruct Hw as [Hk _]. apply Z.eqb_eq in Hk. destruct HPS as [E|E]; rewrite E in Hk; discriminate. }
    unfold bikOK in Hok. apply andb_true_iff in Hok. destruct Hok as [Hok _]. apply andb_true_iff in Hok. destruct Hok as [H1 H2]. apply Z.leb_le in H2. fold L in H2.
    assert (Hne : bik d <> []) by (intros E; unfold hasUnparsed in Hu; rewrite E in Hu; discriminate).
    assert (HL0 : 0 < L).
    { destruct (bik d) as [|u0 r0] eqn:Eik; [congruence|]. destruct (IFTokAux.spOK_In src _ u0 H1 (or_introl eq_refl)) as (A & B' & C). fold L in C. lia. }
    destruct (Hend HL0) as [Hlast H62]. fold src L in Hlast, H62.
    assert (HM : bend d <= bend (rb_blk r)) by exact Hb2.
    set (m := bkind d =? ParagraphKind).
    destruct d as [K s0 e0 bk ik a0 n0 c0 l0 lb0]. cbn [bkind bik bend bstart] in *.
    assert (HK : K <> ListMarkerKind) by (destruct HPS as [E|E]; rewrite E; discriminate).
    assert (Efin : finB L (Blk K s0 e0 bk ik a0 n0 c0 l0 lb0) = Blk K s0 (bump L e0) (map (finB L) bk) (finI K L ik) a0 n0 c0 l0 lb0).
    { cbn [finB]. destruct (Z.eqb_spec K ListMarkerKind); [contradiction|reflexivity]. }
    assert (Eik2 : finI K L ik = mS src m ik).
    { unfold finI, mS, m, bsp. destruct HPS as [E|E]; rewrite E; reflexivity. }
    assert (HU : okS src m ik).
    { unfold okS. destruct m; [apply (lines_GS B src (bend (rb_blk r)) Hlen e0 HM HL0 ik HL)|apply (lines_sE B src (bend (rb_blk r)) Hlen e0 HM ik HL)]. }
    assert (Hfacts := lines_entry_facts B src (bend (rb_blk r)) Hlen e0 HM ik HL).
    pose proof (leaf_rel src HL0 Hlast m rf ltac:(unfold rf; lia) ik HU ltac:(unfold bigS, rf; rewrite Hlen2; unfold len in *; lia) (bump L e0) rf pf H1
                  ltac:(intros i Hi Hk; apply (Hfacts i Hi), Hk) H62
                  ltac:(intros _; apply (lines_noEol B src (bend (rb_blk r)) Hlen Heol e0 HM Hlast ik HL))
                  ltac:(unfold pf; rewrite Hlen2; lia) Hne lf ltac:(unfold lf; rewrite Hlen2; unfold L, len; lia)
                  ltac:(intros u Hu'; apply (Hfacts u Hu')) refs (Blk K s0 e0 bk ik a0 n0 c0 l0 lb0) (finB L (Blk K s0 e0 bk ik a0 n0 c0 l0 lb0)) (S (length ik)) eq_refl
                  ltac:(rewrite Efin; exact Eik2) ltac:(rewrite Efin; reflexivity)
                  (lines_eok B src (bend (rb_blk r)) Hlen e0 HM ik HL) H2 (lines_ind1 B e0 ik HL)
                  ltac:(unfold rf; rewrite Hlen2; lia) ltac:(unfold rf; rewrite Hlen2; lia) ltac:(unfold len; lia)) as HR.
    rewrite (Hp (S (length ik)) (le_n _)) in HR.
    rewrite (Hq rf rf pf lf (S (length ik)) (le_n _) (le_n _) (le_n _) (le_n _)) in HR.
    2:{ rewrite Efin. cbn [bik]. rewrite Eik2, mS_map, map_length. lia. }
    destruct HR as [HR|(Em & X & ps & P1 & P2 & P3 & P4 & P5)]; [left; exact HR|right].
    split; [unfold m in Em; apply Z.eqb_eq in Em; exact Em|]. exists X, ps. split; [exact P1|]. split; [exact P2|]. split; [exact P3|]. split; [|exact P5].
    destruct P4 as [P4|P4]; [left; exact P4|right]. exists rf, rf, pf, lf, (S (length ik)). exact P4.
  - (* ATX heading *)
    left. destruct d as [K s0 e0 bk ik a0 n0 c0 l0 lb0]. cbn [bkind bik bend bstart] in *. subst K ik.
    assert (Efin : finB L (Blk ATXHeadingKind s0 e0 bk [mkI UnparsedKind a t] a0 n0 c0 l0 lb0) = Blk ATXHeadingKind s0 (bump L e0) (map (finB L) bk) [mkI UnparsedKind a t] a0 n0 c0 l0 lb0) by reflexivity.
    destruct (Z.eq_dec a t) as [->|Hne].
    + rewrite <- (Hp 2%nat ltac:(cbn; lia)). rewrite <- (Hq rf rf pf lf 2%nat (le_n _) (le_n _) (le_n _) (le_n _)) by (rewrite Efin; cbn; lia).
      rewrite !(parseInlinesG_empty _ _ _ t) by (first [reflexivity|rewrite Efin; reflexivity|lia]). reflexivity.
    + assert (Hok : bikOK src (Blk ATXHeadingKind s0 e0 bk [mkI UnparsedKind a t] a0 n0 c0 l0 lb0) = true).
      { unfold bikOKw in Hw. apply orb_true_iff in Hw. destruct Hw as [Hw|Hw]; [exact Hw|].
        unfold emptyATX, emptyOne in Hw. cbn [bik mkI ikind istart iend ikids] in Hw.
        destruct (Z.eqb_spec a t); [contradiction|]. rewrite !andb_false_r in Hw. discriminate. }
      unfold bikOK in Hok. apply andb_true_iff in Hok. destruct Hok as [Hok _]. apply andb_true_iff in Hok. destruct Hok as [H1 H2]. apply Z.leb_le in H2. cbn [bik] in H1, H2. fold L in H2.
      assert (HL0 : 0 < L) by lia.
      destruct (Hend HL0) as [Hlast H62]. fold src L in Hlast, H62.
      assert (HU : okS src false [mkI UnparsedKind a t]).
      { unfold okS. constructor; [|constructor]. unfold sE. cbn [mkI istart iend]. fold L. lia. }
      pose proof (leaf_rel src HL0 Hlast false rf ltac:(unfold rf; lia) [mkI UnparsedKind a t] HU ltac:(unfold bigS, rf; rewrite Hlen2; unfold len in *; lia) (bump L e0) rf pf H1
                  ltac:(intros i [<-|[]] Hk; cbn in Hk; discriminate) H62 ltac:(intros Em; discriminate)
                  ltac:(unfold pf; rewrite Hlen2; lia) ltac:(discriminate) lf ltac:(unfold lf; rewrite Hlen2; unfold L, len; lia)
                  ltac:(intros u [<-|[]]; left; reflexivity) refs (Blk ATXHeadingKind s0 e0 bk [mkI UnparsedKind a t] a0 n0 c0 l0 lb0) (finB L (Blk ATXHeadingKind s0 e0 bk [mkI UnparsedKind a t] a0 n0 c0 l0 lb0)) 2%nat eq_refl
                  ltac:(rewrite Efin; reflexivity) ltac:(rewrite Efin; reflexivity)
                  eq_refl H2 eq_refl
                  ltac:(unfold rf; rewrite Hlen2; lia) ltac:(unfold rf; rewrite Hlen2; lia) ltac:(cbn; lia)) as HR.
      rewrite (Hp 2%nat ltac:(cbn; lia)) in HR.
      rewrite (Hq rf rf pf lf 2%nat (le_n _) (le_n _) (le_n _) (le_n _)) in HR by (rewrite Efin; cbn; lia).
      destruct HR as [HR|(Em & _)]; [exact HR|discriminate].
Qed.
Print Assumptions leaf_final.
