From Coq Require Import List ZArith Lia Bool.
Import ListNotations.
Require Import Base Tree Driver.
Open Scope Z_scope.

(* C14 (ii), CRLF clause: the explicit image of parseBlocks s under LF -> CRLF. *)
Definition crlf (s : bytes) : bytes := flat_map (fun c => if c =? 10 then [13; 10] else [c]) s.
Fixpoint count10 (l : bytes) : Z := match l with [] => 0 | c :: r => (if c =? 10 then 1 else 0) + count10 r end.
(* position map relative to a byte string R: a position gains one for every LF strictly before it *)
Definition phiP (R : bytes) (p : Z) : Z := if p <? 0 then p else p + count10 (upto R p).
Fixpoint phiI (R : bytes) (u : inline) : inline :=
  match u with Inl k s e i r ks => Inl k (phiP R s) (phiP R e) i r (map (phiI R) ks) end.
Fixpoint phiB (R : bytes) (b : block) : block :=
  match b with Blk K s e bk ik a n c l lb => Blk K (phiP R s) (phiP R e) (map (phiB R) bk) (map (phiI R) ik) a n c l lb end.
Definition phiRoot (s : bytes) (r : rootB) : rootB :=
  {| rb_line := rb_line r; rb_start := phiP s (rb_start r); rb_end := phiP s (rb_end r); rb_src := crlf (rb_src r);
     rb_blk := phiB (rb_src r) (rb_blk r) |}.
(* the statement one would like (FALSE on the model, see EolCRLF.crlf_unrestricted_refuted): *)
Definition parseBlocks_crlf_unrestricted : Prop :=
  forall s, ~ In 13 s -> parseBlocks (crlf s) = (map (phiRoot s) (fst (parseBlocks s)), snd (parseBlocks s)).
(* surviving statements: the 999-character limit of link labels counts the CR bytes, so the label scanner must not
   come near the limit; two simple sufficient conditions *)
Definition parseBlocks_crlf_statement : Prop :=
  forall s, ~ In 13 s -> len (crlf s) < 999 ->
    parseBlocks (crlf s) = (map (phiRoot s) (fst (parseBlocks s)), snd (parseBlocks s)).
Definition parseBlocks_crlf_nobracket_statement : Prop :=
  forall s, ~ In 13 s -> ~ In 91 s ->
    parseBlocks (crlf s) = (map (phiRoot s) (fst (parseBlocks s)), snd (parseBlocks s)).
