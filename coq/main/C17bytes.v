(* C17bytes.v — byte-level part of C17 (second clause): the output predicate ltokb, and the pieces the renderer emits. *)
From Coq Require Import List ZArith Lia Bool.
Import ListNotations.
Require Import Base Tables Utf8 Tree Recog Inl3b Driver Inl3e Render Safe MainTok.
Open Scope Z_scope.

Definition nameCh (c : Z) : bool := isASCIILetter c || isASCIIDigit c || (c =? 45).
Definition startsLetter (l : bytes) : bool := match l with a :: _ => isASCIILetter a | [] => false end.
Definition startsNameCh (l : bytes) : bool := match l with a :: _ => nameCh a | [] => false end.

(* "every '<' of l that is followed by an ASCII letter is followed by a CommonMark tag name whose lower-cased form p does not reject" *)
Fixpoint ltokb (p : bytes -> bool) (l : bytes) : bool :=
  match l with
  | [] => true
  | x :: r => (negb ((x =? 60) && startsLetter r) || negb (p (map toLowerASCII (cmName r)))) && ltokb p r
  end.

Lemma ltokb_spec p l : ltokb p l = true ->
  forall pre a post, l = pre ++ 60 :: a :: post -> isASCIILetter a = true -> p (map toLowerASCII (cmName (a :: post))) = false.
Proof.
  intros H pre. revert l H. induction pre as [|x pre IH]; intros l H a post -> Ha.
  - cbn [app ltokb] in H. apply andb_true_iff in H. destruct H as [H _].
    cbn [startsLetter] in H. rewrite Ha, Z.eqb_refl in H. cbn [andb negb orb] in H.
    apply negb_true_iff in H. exact H.
  - cbn [app ltokb] in H. apply andb_true_iff in H. destruct H as [_ H]. eapply IH; [exact H|reflexivity|exact Ha].
Qed.

(* the observer-side conclusion *)
Theorem ltokb_no_rejected_start p out : prefix_closed p -> ltokb p out = true ->
  forall n, In n (start_tags out) -> p n = false.
Proof.
  intros Hpc Hok n Hn. destruct (p n) eqn:Ep; [|reflexivity]. exfalso.
  destruct (rejected_start_tag_origin p out n Hpc Hn Ep) as (pre & a & post & Hl & Ha & Hr).
  rewrite (ltokb_spec p out Hok pre a post Hl Ha) in Hr. discriminate.
Qed.

Print Assumptions ltokb_no_rejected_start.

(* ---- pieces without '<' ---- *)
Definition nolt (s : bytes) : bool := forallb (fun c => negb (c =? 60)) s.
Lemma nolt_app a b : nolt (a ++ b) = nolt a && nolt b. Proof. apply forallb_app. Qed.
Lemma inertb_nolt s : inertb s = true -> nolt s = true.
Proof.
  unfold inertb, nolt. induction s as [|x r IH]; [reflexivity|]. cbn [forallb]. intros H.
  apply andb_true_iff in H. destruct H as [H1 H2]. rewrite (IH H2). destruct (x =? 60); [discriminate|reflexivity].
Qed.
Lemma nameCh_not_lt x : nameCh x = true -> (x =? 60) = false.
Proof. intros H. destruct (Z.eqb_spec x 60) as [->|]; [discriminate|reflexivity]. Qed.
Lemma nameCh_nolt n : forallb nameCh n = true -> nolt n = true.
Proof.
  induction n as [|x r IH]; [reflexivity|]. cbn [forallb nolt]. intros H. apply andb_true_iff in H. destruct H as [H1 H2].
  rewrite (nameCh_not_lt x H1). cbn [negb andb]. apply IH. exact H2.
Qed.

Lemma ltokb_cons p x r : ltokb p (x :: r) = (negb ((x =? 60) && startsLetter r) || negb (p (map toLowerASCII (cmName r)))) && ltokb p r.
Proof. reflexivity. Qed.
Lemma ltokb_cons_other p x r : (x =? 60) = false -> ltokb p (x :: r) = ltokb p r.
Proof. intros H. cbn [ltokb]. rewrite H. reflexivity. Qed.

Lemma ok_nolt p s t : nolt s = true -> ltokb p t = true -> ltokb p (s ++ t) = true.
Proof.
  induction s as [|x r IH]; intros Hs Ht; [exact Ht|]. cbn [nolt forallb] in Hs. apply andb_true_iff in Hs. destruct Hs as [H1 H2].
  cbn [app]. rewrite ltokb_cons_other by (apply negb_true_iff; exact H1). apply IH; assumption.
Qed.

(* ---- names ---- *)
Lemma takeName_app r t : takeName (r ++ t) = if forallb nameCh r then r ++ takeName t else takeName r.
Proof.
  induction r as [|x r IH]; [reflexivity|]. cbn [app takeName forallb]. fold (nameCh x).
  destruct (nameCh x); cbn [andb]; [|reflexivity]. rewrite IH. destruct (forallb nameCh r); reflexivity.
Qed.
Lemma takeName_all r : forallb nameCh r = true -> takeName r = r.
Proof. intros H. rewrite <- (app_nil_r r) at 1. rewrite takeName_app, H. cbn [takeName]. apply app_nil_r. Qed.
Lemma takeName_nonname t : startsNameCh t = false -> takeName t = [].
Proof. destruct t as [|x r]; [reflexivity|]. cbn [startsNameCh takeName]. fold (nameCh x). intros ->. reflexivity. Qed.

(* a renderer tag name: letter first, name bytes only, already lower case *)
Definition lowname (n : bytes) : Prop := startsLetter n = true /\ forallb nameCh n = true /\ map toLowerASCII n = n.

Lemma cmName_lowname_app n t : lowname n -> startsNameCh t = false -> cmName (n ++ t) = n.
Proof.
  intros (H1 & H2 & _) Ht. destruct n as [|x r]; [discriminate|]. cbn [startsLetter] in H1.
  change ((x :: r) ++ t) with (x :: (r ++ t)). unfold cmName. rewrite H1.
  change (x :: (r ++ t)) with ((x :: r) ++ t). rewrite takeName_app, H2, (takeName_nonname t Ht). apply app_nil_r.
Qed.

(* ---- the renderer's own tags ---- *)
Section Tags.
  Variable c : cfg.
  Hypothesis Hon : filterOn c = true.
  Let p := filterP c.

  Lemma ok_openTagAttr n t : lowname n -> startsNameCh t = false -> ltokb p t = true -> ltokb p (openTagAttr c n ++ t) = true.
  Proof.
    intros Hn Hh Ht. pose proof Hn as (H1 & H2 & H3).
    assert (Hnt : ltokb p (n ++ t) = true) by (apply ok_nolt; [apply nameCh_nolt; exact H2|exact Ht]).
    unfold openTagAttr, reject. rewrite Hon. cbn [andb]. destruct (filterP c n) eqn:E; rewrite <- app_assoc.
    - apply ok_nolt; [reflexivity|exact Hnt].
    - cbn [app ltokb]. rewrite Hnt, (cmName_lowname_app n t Hn Hh), H3. unfold p. rewrite E. cbn [negb]. rewrite orb_true_r. reflexivity.
  Qed.

  Lemma ok_openTag n t : lowname n -> ltokb p t = true -> ltokb p (openTag c n ++ t) = true.
  Proof.
    intros Hn Ht. unfold openTag. rewrite <- app_assoc. apply ok_openTagAttr; [exact Hn|reflexivity|].
    cbn [app]. rewrite ltokb_cons_other by reflexivity. exact Ht.
  Qed.

  Lemma ok_closeTag n t : nolt n = true -> ltokb p t = true -> ltokb p (closeTag c n ++ t) = true.
  Proof.
    intros Hn Ht. unfold closeTag.
    assert (Hr : ltokb p ((n ++ [62]) ++ t) = true).
    { apply ok_nolt; [|exact Ht]. rewrite nolt_app, Hn. reflexivity. }
    destruct (reject c (47 :: n)); rewrite <- app_assoc.
    - apply ok_nolt; [reflexivity|]. exact Hr.
    - cbn [app]. rewrite ltokb_cons. cbn [startsLetter]. change (isASCIILetter 47) with false.
      rewrite andb_false_r. cbn [negb orb andb]. rewrite ltokb_cons_other by reflexivity. exact Hr.
  Qed.

  (* ---- raw HTML through filterRaw ---- *)
  Lemma takeName_filterRaw_app r t : takeName (filterRaw c r ++ t) = takeName (r ++ t).
  Proof.
    induction r as [|x r IH]; [reflexivity|]. cbn [filterRaw]. destruct (Z.eqb_spec x 60) as [->|N].
    - destruct (filterP c _); reflexivity.
    - cbn [app takeName]. rewrite IH. reflexivity.
  Qed.
  Lemma cmName_filterRaw_app r t : cmName (filterRaw c r ++ t) = cmName (r ++ t).
  Proof.
    destruct r as [|x r]; [reflexivity|].
    destruct (Z.eqb_spec x 60) as [->|N].
    - cbn [filterRaw]. rewrite Z.eqb_refl. destruct (filterP c _); reflexivity.
    - pose proof (takeName_filterRaw_app (x :: r) t) as HT. cbn [filterRaw] in *.
      destruct (Z.eqb_spec x 60); [contradiction|]. cbn [app] in *. unfold cmName. rewrite HT. reflexivity.
  Qed.

  (* what the filter judged at a '<' (the name in the rest r of the fragment) is what an observer of the whole output
     reads there (the name in r followed by the rest t of the output) *)
  Definition nameStable (r t : bytes) : bool :=
    negb (match r with [] => startsLetter t | a :: _ => isASCIILetter a && forallb nameCh r && startsNameCh t end).
  Lemma nameStable_spec r t : nameStable r t = true -> cmName (r ++ t) = cmName r.
  Proof.
    unfold nameStable. intros H. apply negb_true_iff in H. destruct r as [|a r].
    - cbn [app]. destruct t as [|x t]; [reflexivity|]. cbn [startsLetter] in H. unfold cmName. rewrite H. reflexivity.
    - change ((a :: r) ++ t) with (a :: (r ++ t)). unfold cmName. destruct (isASCIILetter a); [|reflexivity].
      change (a :: (r ++ t)) with ((a :: r) ++ t). rewrite takeName_app. cbn [andb] in H.
      destruct (forallb nameCh (a :: r)) eqn:E; [|reflexivity]. cbn [andb] in H.
      rewrite (takeName_nonname t H), app_nil_r. symmetry. apply takeName_all. exact E.
  Qed.

  Fixpoint joinOK (s t : bytes) : bool :=
    match s with
    | [] => true
    | x :: r => (if x =? 60 then nameStable r t else true) && joinOK r t
    end.

  Lemma ok_filterRaw s t : joinOK s t = true -> ltokb p t = true -> ltokb p (filterRaw c s ++ t) = true.
  Proof.
    induction s as [|x r IH]; intros Hj Ht; [exact Ht|]. cbn [joinOK] in Hj. apply andb_true_iff in Hj. destruct Hj as [H1 H2].
    specialize (IH H2 Ht). cbn [filterRaw]. destruct (Z.eqb_spec x 60) as [->|N].
    - destruct (filterP c (map toLowerASCII (cmName r))) eqn:E; rewrite <- app_assoc.
      + apply ok_nolt; [reflexivity|exact IH].
      + cbn [app ltokb]. rewrite IH, cmName_filterRaw_app, (nameStable_spec r t H1). unfold p. rewrite E.
        cbn [negb]. rewrite orb_true_r. reflexivity.
    - cbn [app]. rewrite ltokb_cons_other by (apply Z.eqb_neq; exact N). exact IH.
  Qed.
End Tags.

(* ---- source bytes copied verbatim (character references, soft line breaks) ---- *)
Fixpoint vsafe (s t : bytes) : bool :=
  match s with
  | [] => true
  | x :: r => negb ((x =? 60) && startsLetter (r ++ t)) && vsafe r t
  end.
Lemma ok_verb p s t : vsafe s t = true -> ltokb p t = true -> ltokb p (s ++ t) = true.
Proof.
  induction s as [|x r IH]; intros Hv Ht; [exact Ht|]. cbn [vsafe] in Hv. apply andb_true_iff in Hv. destruct Hv as [H1 H2].
  cbn [app ltokb]. rewrite H1, (IH H2 Ht). reflexivity.
Qed.
Lemma nolt_vsafe s t : nolt s = true -> vsafe s t = true.
Proof.
  induction s as [|x r IH]; [reflexivity|]. cbn [nolt forallb vsafe]. intros H. apply andb_true_iff in H. destruct H as [H1 H2].
  apply negb_true_iff in H1. rewrite H1. cbn [andb negb]. apply IH. exact H2.
Qed.

(* ---- lists of children, each checked against the output that follows it ---- *)
Fixpoint chkL {A} (g : A -> bytes) (chk : A -> bytes -> bool) (l : list A) (t : bytes) : bool :=
  match l with
  | [] => true
  | x :: r => chk x (flat_map g r ++ t) && chkL g chk r t
  end.
Lemma ok_chkL {A} p (g : A -> bytes) (chk : A -> bytes -> bool) l :
  (forall x, In x l -> forall t, chk x t = true -> ltokb p t = true -> ltokb p (g x ++ t) = true) ->
  forall t, chkL g chk l t = true -> ltokb p t = true -> ltokb p (flat_map g l ++ t) = true.
Proof.
  induction l as [|x r IH]; intros H t Hc Ht; [exact Ht|]. cbn [chkL] in Hc. apply andb_true_iff in Hc. destruct Hc as [H1 H2].
  cbn [flat_map]. rewrite <- app_assoc. apply H; [left; reflexivity|exact H1|].
  apply IH; [intros y Hy; apply H; right; exact Hy|exact H2|exact Ht].
Qed.
