From Coq Require Import List ZArith Bool String Ascii.
Import ListNotations.
Require Import Base Tree Rdr LP Driver SliceReparse ReparseEof ReparseEqb.
Open Scope Z_scope.
(* The statement ReparseOcpPrefix.first_def_statement (and its consequence for the re-parse: closing the truncated paragraph on
   the truncated source gives the same definition), checked by computation on paragraphs that hold definitions and are closed
   by a following line.  For each document: (kind of the first block d of the closing, its end E, the closing line start T,
   number of entries before / after E, onCloseParagraph Qb x1 = [d], onCloseParagraph (upto B E) x1 = [d]). *)
Fixpoint bs (s : string) : list Z := match s with EmptyString => [] | String a r => Z.of_nat (nat_of_ascii a) :: bs r end.
Definition nl := String (ascii_of_nat 10) EmptyString.
Definition cat (l : list string) : list Z := bs (String.concat nl l).
Definition probe (B : bytes) :=
  match lastLine (3 + List.length B) 0 [] 0 B with
  | Some (T, stp, [c]) =>
      let bij := lineEnd B T in let Qb := upto B bij in
      match onCloseParagraph Qb (set_bend c T) with
      | d :: rest =>
        let E := bend d in
        let ik1 := filter (fun u => iend u <=? E) (bik c) in
        let X := filter (fun u => negb (iend u <=? E)) (bik c) in
        let x1 := set_bik (set_bend c E) ik1 in
        Some (bkind d, E, T, List.length ik1, List.length X, blocksEqb (onCloseParagraph Qb x1) [d], blocksEqb (onCloseParagraph (upto B E) x1) [d])
      | [] => None end
  | _ => None end.
Open Scope string_scope.
Example first_def_samples :
  map probe [cat ["[foo]: /url"; "rest of paragraph"; "# h"; ""];
             cat ["[foo]: /url"; "'title'"; "[bar]: <x>  "; "   'multi"; "line title'"; "text"; "# h"; ""];
             cat ["[foo]:"; "  /url"; "'not title' x"; "# h"; ""];
             cat ["[fo"; "o]: /url 'tt'"; "[b]: /u"; "***"; ""];
             cat ["[foo]: /url"; "# h"; ""];
             cat ["[a]: /u&amp;v"; "[b]: /w"; "> q"; ""]] =
  [Some (8, 12, 30, 1%nat, 1%nat, true, true); Some (8, 20, 60, 2%nat, 4%nat, true, true); Some (8, 14, 28, 2%nat, 1%nat, true, true);
   Some (8, 18, 26, 2%nat, 1%nat, true, true); Some (8, 12, 12, 1%nat, 0%nat, true, true); Some (8, 14, 22, 1%nat, 1%nat, true, true)].
Proof. vm_compute. reflexivity. Qed.
