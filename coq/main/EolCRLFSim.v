From Coq Require Import List ZArith Lia Bool.
Import ListNotations.
Require Import Base Tree Driver EolCRLFDefs EolCRLFSimRun EolCRLFSimAll EolCRLFSimCtStream EolCRLFSimCt.
Open Scope Z_scope.

(* C14 (ii), the CRLF clause at the block layer for inputs without '[' (EolCRLFDefs.parseBlocks_crlf_nobracket_statement):
   replacing every LF of an input without CR and without '[' by CR LF maps the result of the block layer by phiRoot
   (positions gain one for every LF before them; sources get CR LF; everything else, including the result code, is equal). *)
Theorem parseBlocks_crlf_nobracket : parseBlocks_crlf_nobracket_statement.
Proof.
  intros s S13 S91.
  exact (crlf_nobracket_main SJx LEy LEy_basic X_step X_make X_nil X_next X_init s S13 S91).
Qed.
Print Assumptions parseBlocks_crlf_nobracket.
