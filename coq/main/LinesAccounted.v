From Coq Require Import List ZArith Lia Bool.
Import ListNotations.
Require Import Base Tree Driver Props Rec17 Rec18 L2Kind L2CC LADef LA1 LA2 LA12 LA13 LA14 LAOcp0 LAOcp LAPad.
Open Scope Z_scope.

(* ================= C03, block-layer half: no text is lost or duplicated by parseBlocks =================

   entryLeaves (LADef.v): the spans that carry text after the block layer -
     every inline entry of a leaf block (paragraph, ATX / setext heading, indented / fenced code, HTML block), the info
     string counting as one entry; for link reference definition blocks the children of label / destination / title;
     every list marker block; containers contribute the leaves of their children in order.
   Props.cover / Props.textual: as in the statement of C03.

   STATEMENTS (for every input, every root r of parseBlocks input, src := rb_src r, b := rb_blk r):
     no duplication:  disjFrom 0 (entryLeaves b)    (sorted by start, every span well formed, each end <= next start)
     no loss:         every p < len src with textual (at_ src p) = true has cover (entryLeaves b) p = 1
   There are NO exceptions: the bytes the block layer drops (container prefixes, fence / heading / list / quote markers,
   closing sequences, setext underlines, thematic breaks, blank lines, the "[", "]:", "<>", quotes and escapes'
   backslashes of a definition) are never letters, digits or non-ASCII bytes.  Checked on 1.3 million random
   documents with the extracted checker before proving (scratch/fz).

   The proof carries the "lines accounted" invariant la (LADef.v) through the line machine, one lemma per model function
   (LA3-LA11, mirroring BSLine1-10), through the stream layer (LA12-LA13), and converts it into the statements (LA14).
   The extraction of link reference definitions from a closed paragraph (onCloseParagraph / ocp_loop) is handled in
   LAR1 (steps of the multi-line reader), LAR2 (the scanners, collectTextNodes, the loop), LAR4 (the reader's fuel
   2 * len + 10 suffices: a potential that every step decreases) and LAOcp (OcpLoopSpec for every source).
   The invariant also records, for the step to the tree after the inline pass (LAFull.v, C03_no_dup_partial): containers and list
   markers have no inline entries, the leaves of an entry lie in order inside it (LAInfo.v for the InfoString entry), and the
   entries of a definition block lie in order inside it.
   MAIN RESULTS: no_duplication and no_loss at the end of this file, for every input, without exception. *)

Definition no_duplication_statement : Prop :=
  forall input, Forall (fun r => disjFrom 0 (entryLeaves (rb_blk r))) (fst (parseBlocks input)).
Definition no_loss_statement : Prop :=
  forall input, Forall (fun r => forall p, 0 <= p < len (rb_src r) -> textual (at_ (rb_src r) p) = true ->
                                           cover (entryLeaves (rb_blk r)) p = 1) (fst (parseBlocks input)).
(* the same on the bytes of the padded buffer the root was cut from (NUL counts as text: it becomes U+FFFD in rb_src) *)
Definition no_loss_raw (r : rootB) : Prop :=
  exists raw, rb_src r = fillNulls raw /\ len raw = bend (rb_blk r) /\
    forall p, 0 <= p < len raw -> tx (at_ raw p) = true -> cover (entryLeaves (rb_blk r)) p = 1.

(* ---- from the invariant of a root ---- *)
Lemma rootLA_tiles Gd r : rootLA Gd r -> exists raw, Gd raw /\ PadF raw /\ rb_src r = fillNulls raw /\ len raw = bend (rb_blk r) /\
  tileS raw 0 (len raw) (entryLeaves (rb_blk r)).
Proof.
  intros (raw & Hg & Hpf & E1 & E2 & Hcc & Hla & Hnt). exists raw. split; [exact Hg|]. split; [exact Hpf|]. split; [exact E1|]. split; [symmetry; exact E2|].
  pose proof (len_nonneg raw) as Hl. pose proof (la_leaves raw (len raw) (rb_blk r) Hcc ltac:(lia) Hla) as Ht. rewrite E2 in Ht.
  pose proof (la_bounds _ _ _ Hla) as Hb. eapply tileS_lo; [exact Ht|lia|exact Hnt].
Qed.

Section Generic.
  Variable Gd : bytes -> Prop.
  Hypothesis Gd_ocp : forall src, Gd src -> OcpLoopSpec src.
  Hypothesis Gd_upto : forall src n, Gd src -> Gd (upto src n).
  Hypothesis Gd_from : forall src n, Gd src -> Gd (from_ src n).

  Theorem no_duplication_gen input : Gd (pad input) -> Forall (fun r => disjFrom 0 (entryLeaves (rb_blk r))) (fst (parseBlocks input)).
  Proof.
    intros Hg. eapply Forall_impl; [|apply (parseBlocks_rootLA Gd Gd_ocp Gd_upto Gd_from input Hg)].
    intros r Hr. destruct (rootLA_tiles Gd r Hr) as (raw & _ & _ & _ & _ & Ht). eapply tileS_disj; exact Ht.
  Qed.
  Theorem no_loss_raw_gen input : Gd (pad input) -> Forall no_loss_raw (fst (parseBlocks input)).
  Proof.
    intros Hg. eapply Forall_impl; [|apply (parseBlocks_rootLA Gd Gd_ocp Gd_upto Gd_from input Hg)].
    intros r Hr. destruct (rootLA_tiles Gd r Hr) as (raw & _ & _ & E1 & E2 & Ht). exists raw. split; [exact E1|]. split; [exact E2|].
    intros p Hp Hx. apply (tileS_cover raw _ _ _ Ht p); assumption.
  Qed.
  (* every byte is covered at most once *)
  Theorem cover_le_one_gen input : Gd (pad input) -> Forall (fun r => forall p, 0 <= cover (entryLeaves (rb_blk r)) p <= 1) (fst (parseBlocks input)).
  Proof.
    intros Hg. eapply Forall_impl; [|apply (parseBlocks_rootLA Gd Gd_ocp Gd_upto Gd_from input Hg)].
    intros r Hr. destruct (rootLA_tiles Gd r Hr) as (raw & _ & _ & _ & _ & Ht). intros p. apply (tileS_cover raw _ _ _ Ht p).
  Qed.
  (* the statement itself: letters, digits and non-ASCII bytes of the root's source are covered exactly once *)
  Theorem no_loss_gen input : Gd (pad input) ->
    Forall (fun r => forall p, 0 <= p < len (rb_src r) -> textual (at_ (rb_src r) p) = true -> cover (entryLeaves (rb_blk r)) p = 1)
           (fst (parseBlocks input)).
  Proof.
    intros Hg. eapply Forall_impl; [|apply (parseBlocks_rootLA Gd Gd_ocp Gd_upto Gd_from input Hg)].
    intros r Hr. destruct (rootLA_tiles Gd r Hr) as (raw & _ & (t & Et) & E1 & E2 & Ht). subst raw. rewrite E1.
    intros p Hp Hx. rewrite len_fill_pad in Hp. apply (tileS_cover (pad t) _ _ _ Ht p); [exact Hp|]. apply fill_textual; assumption.
  Qed.
End Generic.

(* ---- sources without NUL: the root's source is the buffer itself ---- *)
Lemma fill_aux_nonul : forall l, ~ In 0 l -> fill_aux 0 l = l.
Proof.
  induction l as [|b r IH]; intros H; [reflexivity|]. cbn [fill_aux]. destruct (Z.eqb_spec b 0) as [->|N]; [exfalso; apply H; left; reflexivity|].
  rewrite IH; [reflexivity|intros Hi; apply H; right; exact Hi].
Qed.
Lemma In_upto {A} (x : A) l n : In x (upto l n) -> In x l.
Proof. unfold upto. generalize (Z.to_nat n). intros k. revert l. induction k as [|k IH]; intros l H; [destruct H|]. destruct l as [|y l]; [destruct H|]. cbn [firstn] in H. destruct H as [->|H]; [left; reflexivity|right; apply IH, H]. Qed.
Lemma In_from {A} (x : A) l n : In x (from_ l n) -> In x l.
Proof. unfold from_. generalize (Z.to_nat n). intros k. revert l. induction k as [|k IH]; intros l H; [exact H|]. destruct l as [|y l]; [destruct H|]. cbn [skipn] in H. right. apply IH, H. Qed.
Lemma In_pad x input : x <> 0 -> In x (pad input) -> In x input.
Proof.
  intros Hx. unfold pad. rewrite in_flat_map. intros (b & Hb & Hi). destruct (b =? 0); [|destruct Hi as [<-|[]]; exact Hb].
  destruct Hi as [E|[E|[E|[]]]]; congruence.
Qed.
Lemma In0_pad input : In 0 (pad input) -> In 0 input.
Proof.
  unfold pad. rewrite in_flat_map. intros (b & Hb & Hi). destruct (Z.eqb_spec b 0) as [->|N]; [exact Hb|]. destruct Hi as [<-|[]]. exact Hb.
Qed.

(* ============ the results, for every input ============ *)
Theorem no_duplication : no_duplication_statement.
Proof. intros input. apply (no_duplication_gen (fun _ => True)); auto using OcpLoopSpec_all. Qed.
Theorem no_loss : no_loss_statement.
Proof. intros input. apply (no_loss_gen (fun _ => True)); auto using OcpLoopSpec_all. Qed.
(* on the padded buffer itself, NUL bytes included *)
Theorem no_loss_raw_all input : Forall no_loss_raw (fst (parseBlocks input)).
Proof. apply (no_loss_raw_gen (fun _ => True)); auto using OcpLoopSpec_all. Qed.
(* no byte at all is covered twice *)
Theorem cover_le_one input : Forall (fun r => forall p, 0 <= cover (entryLeaves (rb_blk r)) p <= 1) (fst (parseBlocks input)).
Proof. apply (cover_le_one_gen (fun _ => True)); auto using OcpLoopSpec_all. Qed.

Print Assumptions no_duplication.
Print Assumptions no_loss.
Print Assumptions no_loss_raw_all.
Print Assumptions cover_le_one.
