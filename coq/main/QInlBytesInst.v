(* QInlBytesInst.v -- T64 (t64-bytes): the hypothesis GapSp of QInlBytesEmph.v holds for the position maps of quote D.
   quote D puts "> " in front of every line: the byte before the image sigma D p of a line start p of D is the space.
   GapSp_sigma : for a source sD that is a region [o, o + len sD) of D starting at a line start and any sQ that agrees with quote D
   below the image of the end of the region (quote D itself, or a prefix of it as in QS2Drv1.SGood_line).
   GapSp_region / SGood_region: both hypotheses of QInlBytesEmph hold together for the region of QS2Drv1 (no vacuity).
   At the end: vm_compute checks of the statements on examples. *)
From Coq Require Import List ZArith Lia Bool.
Import ListNotations.
Require Import Base Tables Utf8 Tree Rdr Inl3a Inl3b Inl3e ShapesBase SliceBase QuoteSimDefs QuoteSimLines QuoteSimDrv1 QS2Drv1 QIRdrBase QInlBytes QInlBytesRune QInlBytesEmph.
Open Scope Z_scope.

Lemma quoteAux_gap : forall l b p, 0 <= p < len l -> ((p = 0 /\ b = true) \/ (0 < p /\ at_ l (p - 1) = 10)) ->
  at_ (quoteAux b l) (p + 2 * (nlc (upto l p) + (if b then 1 else 0)) - 1) = 32.
Proof.
  induction l as [|c r IH]; intros b p Hp Hs; [change (len (@nil Z)) with 0 in Hp; lia|]. rewrite len_cons in Hp. cbn [quoteAux].
  destruct (Z.eq_dec p 0) as [->|N].
  - destruct Hs as [[_ ->]|[Hs _]]; [|lia]. change (upto (c :: r) 0) with (@nil Z). cbn [nlc app]. reflexivity.
  - destruct Hs as [[Hs _]|[_ Hs]]; [lia|]. rewrite upto_cons' by lia. cbn [nlc].
    pose proof (nlc_nonneg (upto r (p - 1))) as Hn.
    assert (Hs' : (p - 1 = 0 /\ (c =? 10) = true) \/ (0 < p - 1 /\ at_ r (p - 1 - 1) = 10)).
    { destruct (Z.eq_dec p 1) as [->|N1].
      - left. split; [reflexivity|]. change (1 - 1) with 0 in Hs. rewrite at_0 in Hs. subst c. reflexivity.
      - right. split; [lia|]. rewrite (at_S' c r (p - 1)) in Hs by lia. exact Hs. }
    specialize (IH (c =? 10) (p - 1) ltac:(lia) Hs'). rewrite <- IH.
    assert (Hpos : 0 <= p - 1 + 2 * (nlc (upto r (p - 1)) + (if c =? 10 then 1 else 0)) - 1).
    { destruct Hs' as [[E1 E2]|[E1 _]]; [rewrite E2; lia|destruct (c =? 10); lia]. }
    destruct b; cbn [app].
    + replace (p + 2 * ((if c =? 10 then 1 else 0) + nlc (upto r (p - 1)) + 1) - 1)
        with ((p - 1 + 2 * (nlc (upto r (p - 1)) + (if c =? 10 then 1 else 0)) - 1) + 1 + 2) by (destruct (c =? 10); lia).
      rewrite QuoteSimReloc.at_cons2 by lia. rewrite at_S by lia. reflexivity.
    + replace (p + 2 * ((if c =? 10 then 1 else 0) + nlc (upto r (p - 1)) + 0) - 1)
        with ((p - 1 + 2 * (nlc (upto r (p - 1)) + (if c =? 10 then 1 else 0)) - 1) + 1) by (destruct (c =? 10); lia).
      rewrite at_S by lia. reflexivity.
Qed.

(* the byte of quote D before the image of a line start of D is the space of "> " *)
Theorem sigma_gap D p : 0 <= p < len D -> (p = 0 \/ at_ D (p - 1) = 10) -> 2 <= sigma D p /\ at_ (quote D) (sigma D p - 1) = 32.
Proof.
  intros Hp Hs. split.
  - unfold sigma, nl. pose proof (nlc_nonneg (upto D p)). lia.
  - unfold quote, sigma, nl. apply (quoteAux_gap D true p Hp).
    destruct Hs as [->|Hs]; [left; split; reflexivity|right; split; [|exact Hs]].
    destruct (Z.eq_dec p 0) as [->|N]; [rewrite at_neg in Hs by lia; discriminate Hs|lia].
Qed.

(* a source that is a region of D starting at a line start; sQ agrees with quote D on the image of the region and the gap before it *)
Theorem GapSp_sigma D o sD sQ : 0 <= o -> (o = 0 \/ at_ D (o - 1) = 10) -> o + len sD <= len D ->
  (forall x, 0 <= x < len sD -> at_ sD x = at_ D (o + x)) ->
  (forall y, 0 <= y < sigma D (o + len sD - 1) -> at_ sQ y = at_ (quote D) y) ->
  GapSp sD sQ (sgO D o).
Proof.
  intros Ho Hos Hend HD HQ x Hx Hls.
  assert (Es : sgO D o x = sigma D (o + x)) by (unfold sgO; cbv zeta; destruct (Z.ltb_spec (o + x) 0); [lia|reflexivity]).
  assert (Hl : o + x = 0 \/ at_ D (o + x - 1) = 10).
  { destruct Hls as [->|Hls]; [replace (o + 0) with o by lia; replace (o + 0 - 1) with (o - 1) by lia; exact Hos|].
    right. destruct (Z.eq_dec x 0) as [->|N]; [rewrite at_neg in Hls by lia; discriminate Hls|].
    rewrite HD in Hls by lia. replace (o + x - 1) with (o + (x - 1)) by lia. exact Hls. }
  destruct (sigma_gap D (o + x) ltac:(lia) Hl) as [G1 G2]. rewrite Es. split; [lia|].
  rewrite HQ; [exact G2|]. split; [lia|].
  destruct (Z.eq_dec x (len sD - 1)) as [->|N]; [replace (o + (len sD - 1)) with (o + len sD - 1) by lia; lia|].
  pose proof (sigma_mono D (o + x) (o + len sD - 1) ltac:(lia) ltac:(lia)). lia.
Qed.
Corollary GapSp_quote D o sD : 0 <= o -> (o = 0 \/ at_ D (o - 1) = 10) -> o + len sD <= len D ->
  (forall x, 0 <= x < len sD -> at_ sD x = at_ D (o + x)) -> GapSp sD (quote D) (sgO D o).
Proof. intros Ho Hos Hend HD. apply (GapSp_sigma D o sD (quote D) Ho Hos Hend HD). intros; reflexivity. Qed.

(* the region of QS2Drv1 (the lines of one root block): SGood and GapSp hold together *)
Section Region.
  Variable D : bytes.
  Hypothesis D_nul : Forall (fun c => c <> 0) D.
  Variables (o bi : Z).
  Hypothesis Ho : 0 <= o.
  Hypothesis Hbi : 0 < bi.
  Hypothesis Hend : o + bi <= len D.
  Hypothesis Hls : o = 0 \/ at_ D (o - 1) = 10.
  Let sD := upto (from_ D o) bi.
  Let sQ := upto (Qd D) (epsB D (o + bi)).
  Hypothesis Hlast : at_ D (o + bi - 1) = 10 \/ o + bi = len D.   (* the region ends with a line or with D *)
  (* the block-layer instance (prefix of quote D as the quoted source) *)
  Lemma SGood_region_blk : QRdrBase.SGood sD sQ (sgO D o).
  Proof. apply SGood_line; assumption. Qed.
  (* the instance of the inline pass: the whole of quote D as the quoted source *)
  Lemma sigma_lt_len p : 0 <= p < len D -> sigma D p < len (quote D).
  Proof.
    intros Hp. assert (Dne : D <> []) by (intros E; rewrite E in Hp; change (len (@nil Z)) with 0 in Hp; lia).
    rewrite (len_quote_epsB D Dne). unfold epsB. destruct (Z.leb_spec (len D) 0); [lia|].
    destruct (Z.eq_dec p (len D - 1)) as [->|N]; [lia|]. pose proof (sigma_mono D p (len D - 1) ltac:(lia) ltac:(lia)). lia.
  Qed.
  Lemma SGood_region : SGood sD (quote D) (sgO D o).
  Proof.
    destruct (reg_lens D o bi Ho Hbi Hend) as (LsD & _ & Hbf & _). fold sD in LsD.
    assert (Eabs : forall x, 0 <= x -> sgO D o x = sigma D (o + x)) by (intros x Hx; apply (sgO_abs D o Ho x Hx)).
    assert (Hat : forall x, 0 <= x < bi -> at_ sD x = at_ D (o + x)) by (intros x Hx; apply (sD_at D o bi Ho Hbi Hend x Hx)).
    assert (Hlt : forall x, 0 <= x < len sD -> sgO D o x < len (quote D)) by (intros x Hx; rewrite Eabs by lia; apply sigma_lt_len; lia).
    constructor.
    - intros x y Hx Hxy. rewrite !Eabs by lia. apply sigma_mono; lia.
    - intros x Hx. rewrite Eabs by lia. apply sigma_nn. lia.
    - intros x Hx. rewrite Hat by lia. rewrite Eabs by lia. apply sigma_at. lia.
    - exact Hlt.
    - intros x Hx N. rewrite Hat in N by lia. rewrite !Eabs by lia. replace (o + (x + 1)) with (o + x + 1) by lia.
      rewrite sigma_succ by lia. destruct (Z.eqb_spec (at_ D (o + x)) 10); [contradiction|lia].
    - intros x Hx N. rewrite Hat in N by lia. rewrite !Eabs by lia. replace (o + (x + 1)) with (o + x + 1) by lia.
      rewrite sigma_succ by lia. rewrite N. change (10 =? 10) with true. cbv iota. lia.
    - intros _ N. rewrite LsD in *. rewrite Hat in N by lia. replace (o + (bi - 1)) with (o + bi - 1) in N by lia.
      destruct Hlast as [E|E]; [contradiction|]. rewrite Eabs by lia.
      assert (Dne : D <> []) by (intros E0; rewrite E0 in Hend; change (len (@nil Z)) with 0 in Hend; lia).
      rewrite (len_quote_epsB D Dne). unfold epsB. destruct (Z.leb_spec (len D) 0); [lia|]. f_equal. f_equal. lia.
    - pose proof (Hlt (len sD - 1) ltac:(lia)). lia.
    - intros x Hx. rewrite LsD in Hx. rewrite Hat by lia. apply (QuoteSimSpec.Forall_at (fun c => c <> 0)); [exact D_nul|lia].
    - rewrite LsD. lia.
  Qed.
  Lemma GapSp_region : GapSp sD sQ (sgO D o).
  Proof.
    destruct (reg_lens D o bi Ho Hbi Hend) as (LsD & LsQ & Hbf & EQ). fold sD in LsD. fold sQ in LsQ.
    apply (GapSp_sigma D o sD sQ Ho Hls).
    - rewrite LsD. exact Hend.
    - intros x Hx. rewrite LsD in Hx. apply (sD_at D o bi Ho Hbi Hend x Hx).
    - intros y Hy. rewrite LsD in Hy. unfold sQ. apply at_upto. rewrite EQ. lia.
  Qed.
  (* with quote D as the whole quoted source: the gap fact needs nothing else *)
  Lemma GapSp_region_whole : GapSp sD (quote D) (sgO D o).
  Proof.
    destruct (reg_lens D o bi Ho Hbi Hend) as (LsD & _). fold sD in LsD.
    apply (GapSp_quote D o sD Ho Hls); [rewrite LsD; exact Hend|]. intros x Hx. rewrite LsD in Hx. apply (sD_at D o bi Ho Hbi Hend x Hx).
  Qed.
End Region.

Print Assumptions GapSp_sigma.
Print Assumptions GapSp_region.
Print Assumptions SGood_region.

(* ---- vm_compute checks of the statements (sD = D, o = 0, sQ = quote D, sg = sigma D) ---- *)
Definition sameLine (D : bytes) (s e : Z) : bool := forallb (fun c => negb (c =? 10)) (sub D s e).
Definition pairs (n : Z) : list (Z * Z) :=
  flat_map (fun s => map (fun e => (Z.of_nat s, Z.of_nat e)) (seq (S s) (Z.to_nat n - s))) (seq 0 (Z.to_nat n)).
Definition chkFlags (D : bytes) : bool :=
  forallb (fun se => let '(s, e) := se in
     if sameLine D s e then (emphasisFlags (quote D) (sigma D s) (sigma D (e - 1) + 1) =? emphasisFlags D s e) else true) (pairs (len D)).
Definition chkRun (D : bytes) (c : Z) : bool :=
  forallb (fun se => let '(s, e) := se in
     if sameLine D s e then (runEnd (length (quote D)) (quote D) (sigma D s) (sigma D (e - 1) + 1) c =? sigma D s + (runEnd (length D) D s e c - s)) else true) (pairs (len D)).
Definition chkGap (D : bytes) : bool :=
  forallb (fun p => let p := Z.of_nat p in if (p =? 0) || (at_ D (p - 1) =? 10) then at_ (quote D) (sigma D p - 1) =? 32 else true) (seq 0 (length D)).
Definition D1 : bytes := [42;97;42;10;195;169;42;42;226;128;148;10;169;42;10;10;42;33;95;226;128;10;128;128;128;128;42;240;159;152;128;42;42].
Definition D2 : bytes := [195;42;10;42;42;194;160;42;10;128;42;10;128;128;42;10;128;128;128;42;10;226;128;42;10;42;226;10;226;128;131;42;42;226;128;131].
Definition D4 : bytes := [128;128;128;128;42;10;128;128;128;128;128;42;10;128;128;128;42;97].
Goal chkFlags D1 && chkFlags D2 && chkFlags D4 && chkRun D1 42 && chkRun D2 42 && chkRun D4 128 && chkGap D1 && chkGap D2 && chkGap D4 = true.
Proof. vm_compute. reflexivity. Qed.
