From Coq Require Import List ZArith Lia Bool.
Import ListNotations.
Require Import Base Tables Utf8 Tree Rdr Link Collect ShapesBase ShapesR IFBase IFLink IFCollect.
Open Scope Z_scope.

(* (S3), first part: the multi-span reader treats Text spans and Unparsed spans alike, so the label normaliser
   gives the same result on a span list and on the list with every Text span re-kinded to Unparsed. No hypotheses. *)

Definition rekindI (u : inline) : inline :=
  if ikind u =? TextKind then (match u with Inl _ s e i r ks => Inl UnparsedKind s e i r ks end) else u.

Lemma istart_rk u : istart (rekindI u) = istart u. Proof. unfold rekindI. destruct u as [k s e i r ks]. cbn [ikind]. destruct (k =? TextKind); reflexivity. Qed.
Lemma iend_rk u : iend (rekindI u) = iend u. Proof. unfold rekindI. destruct u as [k s e i r ks]. cbn [ikind]. destruct (k =? TextKind); reflexivity. Qed.
Lemma iindent_rk u : iindent (rekindI u) = iindent u. Proof. unfold rekindI. destruct u as [k s e i r ks]. cbn [ikind]. destruct (k =? TextKind); reflexivity. Qed.
Lemma ikind_rk u : ikind (rekindI u) = if ikind u =? TextKind then UnparsedKind else ikind u.
Proof. unfold rekindI. destruct u as [k s e i r ks]. cbn [ikind]. destruct (k =? TextKind) eqn:E; [reflexivity|]. cbn [ikind]. reflexivity. Qed.
Lemma isIndent_rk u : (ikind (rekindI u) =? IndentKind) = (ikind u =? IndentKind).
Proof. rewrite ikind_rk. destruct (Z.eqb_spec (ikind u) TextKind) as [E|E]; [rewrite E; reflexivity|reflexivity]. Qed.
Lemma readable_rk u : ((ikind (rekindI u) =? UnparsedKind) || (ikind (rekindI u) =? TextKind) || (ikind (rekindI u) =? IndentKind)) =
  ((ikind u =? UnparsedKind) || (ikind u =? TextKind) || (ikind u =? IndentKind)).
Proof.
  unfold rekindI. destruct u as [k s e i r ks]. cbn [ikind]. destruct (k =? TextKind) eqn:E; cbn [ikind]; [|rewrite E; reflexivity].
  apply Z.eqb_eq in E. subst k. reflexivity.
Qed.
Lemma okind_rk o : (okind (option_map rekindI o) =? IndentKind) = (okind o =? IndentKind).
Proof. destruct o as [u|]; [apply isIndent_rk|reflexivity]. Qed.
Lemma ibudget_rk : forall sp, ibudget (map rekindI sp) = ibudget sp.
Proof. induction sp as [|u sp IH]; [reflexivity|]. cbn [map ibudget]. rewrite isIndent_rk, iindent_rk, IH. reflexivity. Qed.

Lemma spanHas_rk u p : spanHas (rekindI u) p = spanHas u p.
Proof. unfold spanHas. rewrite istart_rk, iend_rk. reflexivity. Qed.
Lemma nodeIdx_rk p : forall sp k, nodeIdx (map rekindI sp) p k = nodeIdx sp p k.
Proof. induction sp as [|u sp IH]; intros k; [reflexivity|]. cbn [map nodeIdx]. rewrite istart_rk, spanHas_rk, IH. reflexivity. Qed.
Lemma nextSpan_rk : forall sp, nextSpan (map rekindI sp) = option_map (fun x => (rekindI (fst x), map rekindI (snd x))) (nextSpan sp).
Proof.
  induction sp as [|u sp IH]; [reflexivity|]. cbn [map nextSpan]. rewrite readable_rk.
  destruct (_ || _ || _); [reflexivity|exact IH].
Qed.
Lemma skipn_map_rk {A B} (g : A -> B) n : forall l, skipn n (map g l) = map g (skipn n l).
Proof. induction n as [|n IH]; intros [|x l]; cbn [skipn map]; try reflexivity. apply IH. Qed.
Lemma tl_map_rk {A B} (g : A -> B) l : tl (map g l) = map g (tl l).
Proof. destruct l; reflexivity. Qed.

(* the re-kinded reader *)
Definition rkR (r : reader) : reader :=
  {| r_src := r_src r; r_spans := map rekindI (r_spans r); r_pos := r_pos r; r_vpos := r_vpos r; r_prev := r_prev r |}.

Lemma curNode_rk r : curNode (rkR r) = (option_map rekindI (fst (curNode r)), rkR (snd (curNode r))).
Proof.
  unfold curNode. cbv zeta. unfold nodeIndexForPosition. cbn [rkR r_src r_spans r_pos r_vpos r_prev]. rewrite nodeIdx_rk.
  destruct (_ <? 0); cbn [fst snd]; [reflexivity|]. unfold from_. rewrite skipn_map_rk. unfold rkR. cbn [r_src r_spans r_pos r_vpos r_prev].
  f_equal. destruct (skipn _ _); reflexivity.
Qed.
Lemma current_rk r : current (rkR r) = (fst (current r), rkR (snd (current r))).
Proof.
  unfold current. rewrite curNode_rk. cbn [rkR r_src r_pos r_vpos]. destruct (len (r_src r) <=? r_pos r); [reflexivity|].
  destruct (curNode r) as [n r1]. cbn [fst snd]. rewrite okind_rk. destruct (okind n =? IndentKind); [reflexivity|].
  destruct (_ =? 0); reflexivity.
Qed.
Lemma cur_rk r : cur (rkR r) = cur r. Proof. unfold cur. rewrite current_rk. reflexivity. Qed.
Lemma next_rk r : next (rkR r) = (fst (next r), rkR (snd (next r))).
Proof.
  unfold next. rewrite curNode_rk. destruct (curNode r) as [n r1]. cbn [fst snd]. destruct n as [node|]; cbn [option_map]; [|reflexivity].
  cbn [rkR r_src r_spans r_pos r_vpos r_prev]. rewrite isIndent_rk, iindent_rk, iend_rk, tl_map_rk, nextSpan_rk.
  destruct ((ikind node =? IndentKind) && (r_vpos r1 <? iindent node)); [reflexivity|].
  destruct (negb (ikind node =? IndentKind) && (r_pos r1 + 1 <? iend node)); [reflexivity|].
  destruct (nextSpan (tl (r_spans r1))) as [[i sp]|]; cbn [option_map fst snd]; [rewrite istart_rk|]; reflexivity.
Qed.

Lemma tlr_loop_rk : forall f r e acc, tlr_loop f (rkR r) e acc = tlr_loop f r e acc.
Proof.
  induction f as [|f IH]; intros r e acc; [reflexivity|].
  assert (SK : forall a k x, tlr_skip (fun y => tlr_loop f y e a) a e k (rkR x) = tlr_skip (fun y => tlr_loop f y e a) a e k x).
  { intros a. induction k as [|k IHk]; intros x; [reflexivity|]. cbn [tlr_skip]. rewrite cur_rk, current_rk. cbn [snd rkR r_pos].
    destruct (_ && _); [|apply IH]. rewrite next_rk. destruct (next (snd (current x))) as [ok y]. cbn [fst snd].
    destruct ok; [apply IHk|apply IH]. }
  rewrite !tlr_loop_S. cbn [rkR r_pos]. destruct (e <=? r_pos r); [reflexivity|]. rewrite current_rk.
  destruct (current r) as [c r1]. cbn [fst snd]. destruct (isSpaceTabOrLineEnding c); cbv zeta; rewrite next_rk; destruct (next r1) as [ok r2]; cbn [fst snd];
    (destruct ok; cbn [negb]; [|reflexivity]); [apply SK|apply IH].
Qed.

Lemma tlrs_rekind f src sp s e : transformLinkReferenceSpan f src (map rekindI sp) s e = transformLinkReferenceSpan f src sp s e.
Proof.
  unfold transformLinkReferenceSpan. f_equal. f_equal. change (newReader src (map rekindI sp) s) with (rkR (newReader src sp s)). apply tlr_loop_rk.
Qed.
Print Assumptions tlrs_rekind.
