(* LabelNormAdj.v — extension of LabelNorm.v (property C12) from ONE unparsed span to a CHAIN OF ADJACENT spans
   (the inline children of a top-level paragraph whose lines carry no stripped prefix: span k ends where span k+1 starts).
   The label [s,e) may cross any number of span boundaries.

     label_norm_adjacent : chain b a nodes -> 0 <= a <= s -> s <= e -> e <= b -> e <= len src -> e - s <= fuel ->
                           (forall i, s <= i < e -> at_ src i <> 0) ->
                           transformLinkReferenceSpan fuel src nodes s e = norm_label (sub src s e)                *)
From Coq Require Import List ZArith Lia Bool.
Import ListNotations.
Require Import Base Tables Utf8 Tree Rdr Link Collect LabelNorm.
Open Scope Z_scope.

(* the kinds the reader walks through byte by byte *)
Definition okK (i : inline) : Prop := ikind i = UnparsedKind \/ ikind i = TextKind.

(* chain b x l : the spans of l are non-empty, of kind Unparsed/Text, the first starts at x, each ends where the next
   starts, the last ends at b *)
Fixpoint chain (b x : Z) (l : list inline) : Prop :=
  match l with
  | [] => x = b
  | i :: r => okK i /\ istart i = x /\ x < iend i /\ chain b (iend i) r
  end.

Lemma chain_le b : forall l x, chain b x l -> x <= b.
Proof.
  induction l as [|i r IH]; intros x H; cbn [chain] in H; [lia|].
  destruct H as (_ & _ & Hlt & Hc). apply IH in Hc. lia.
Qed.

Lemma okK_notIndent i : okK i -> (ikind i =? IndentKind) = false.
Proof. intros [E|E]; rewrite E; reflexivity. Qed.

Lemma okK_nextSpan i : okK i -> ((ikind i =? UnparsedKind) || (ikind i =? TextKind) || (ikind i =? IndentKind)) = true.
Proof. intros [E|E]; rewrite E; reflexivity. Qed.

Section Adj.
  Variables (src : bytes) (b : Z).

  Definition mkR (l : list inline) (pos v p : Z) : reader :=
    {| r_src := src; r_spans := l; r_pos := pos; r_vpos := v; r_prev := p |}.

  (* Q: the position is covered by the chain;  N: the position is covered by the FIRST span of the chain *)
  Definition Q (l : list inline) (pos : Z) : Prop := exists x, chain b x l /\ 0 <= x /\ x <= pos /\ pos < b.
  Definition N (i : inline) (rest : list inline) (pos : Z) : Prop :=
    okK i /\ 0 <= istart i /\ istart i <= pos /\ pos < iend i /\ chain b (iend i) rest.

  Lemma N_Q i rest pos : N i rest pos -> Q (i :: rest) pos.
  Proof.
    intros (K & H0 & H1 & H2 & Hc). exists (istart i). cbn [chain].
    pose proof (chain_le b rest (iend i) Hc). repeat split; try assumption; lia.
  Qed.

  Lemma spanHas_true i pos : 0 <= istart i -> istart i <= pos -> pos < iend i -> spanHas i pos = true.
  Proof.
    intros H0 H1 H2. unfold spanHas. rewrite !andb_true_iff.
    repeat split; try apply Z.leb_le; try apply Z.ltb_lt; lia.
  Qed.
  Lemma spanHas_false i pos : iend i <= pos -> spanHas i pos = false.
  Proof. intros H. unfold spanHas. replace (pos <? iend i) with false by (symmetry; apply Z.ltb_ge; lia). apply andb_false_r. Qed.

  Lemma nodeIdx_chain : forall l x k pos, chain b x l -> 0 <= x -> x <= pos -> pos < b ->
    exists (m : nat) i rest, nodeIdx l pos k = k + Z.of_nat m /\ skipn m l = i :: rest /\ N i rest pos.
  Proof.
    induction l as [|i r IH]; intros x k pos Hc H0 H1 H2; cbn [chain] in Hc; [lia|].
    destruct Hc as (K & Es & Hlt & Hc). cbn [nodeIdx].
    replace (pos <? istart i) with false by (symmetry; apply Z.ltb_ge; lia).
    destruct (Z.lt_ge_cases pos (iend i)) as [L|L].
    - rewrite (spanHas_true i pos) by lia. exists O, i, r. split; [cbn; lia|]. split; [reflexivity|].
      unfold N. repeat split; try assumption; lia.
    - rewrite (spanHas_false i pos L).
      destruct (IH (iend i) (k + 1) pos Hc ltac:(lia) L H2) as (m & j & rest & E1 & E2 & HN).
      exists (S m), j, rest. split; [lia|]. split; [exact E2|exact HN].
  Qed.

  Lemma curNode_Q l pos v p : Q l pos ->
    exists i rest, curNode (mkR l pos v p) = (Some i, mkR (i :: rest) pos v p) /\ N i rest pos.
  Proof.
    intros (x & Hc & H0 & H1 & H2).
    destruct (nodeIdx_chain l x 0 pos Hc H0 H1 H2) as (m & i & rest & E1 & E2 & HN).
    exists i, rest. split; [|exact HN].
    unfold curNode, nodeIndexForPosition, mkR. cbn [r_spans r_pos r_src r_vpos r_prev]. rewrite E1.
    destruct (Z.ltb_spec (0 + Z.of_nat m) 0) as [L|_]; [lia|].
    unfold from_. replace (Z.to_nat (0 + Z.of_nat m)) with m by lia. rewrite E2. reflexivity.
  Qed.

  Lemma curNode_N i rest pos v p : N i rest pos -> curNode (mkR (i :: rest) pos v p) = (Some i, mkR (i :: rest) pos v p).
  Proof.
    intros (K & H0 & H1 & H2 & Hc).
    unfold curNode, nodeIndexForPosition, mkR. cbn [r_spans r_pos r_src r_vpos r_prev nodeIdx].
    replace (pos <? istart i) with false by (symmetry; apply Z.ltb_ge; lia).
    rewrite (spanHas_true i pos H0 H1 H2). reflexivity.
  Qed.

  Lemma current_Q l pos v p : Q l pos -> pos < len src -> at_ src pos <> 0 ->
    exists i rest, current (mkR l pos v p) = (at_ src pos, mkR (i :: rest) pos v p) /\ N i rest pos.
  Proof.
    intros HQ H3 H4. destruct (curNode_Q l pos v p HQ) as (i & rest & E & HN).
    exists i, rest. split; [|exact HN]. unfold current. rewrite E.
    cbn [r_src r_pos mkR okind]. destruct (Z.leb_spec (len src) pos) as [L|_]; [lia|].
    destruct HN as (K & _). rewrite (okK_notIndent i K).
    destruct (Z.eqb_spec (at_ src pos) 0) as [E0|_]; [contradiction|reflexivity].
  Qed.

  Lemma next_N i rest pos v p : N i rest pos -> at_ src pos <> 0 ->
    exists l' v',
      (pos + 1 < b -> next (mkR (i :: rest) pos v p) = (true, mkR l' (pos + 1) v' pos) /\ Q l' (pos + 1)) /\
      (b <= pos + 1 -> next (mkR (i :: rest) pos v p) = (false, mkR l' (pos + 1) v' pos)).
  Proof.
    intros HN Hz. unfold next. rewrite (curNode_N i rest pos v p HN).
    pose proof (N_Q i rest pos HN) as HQ.
    destruct HN as (K & H0 & H1 & H2 & Hc). pose proof (chain_le b rest (iend i) Hc) as Hle.
    cbn [r_src r_pos r_vpos r_spans mkR tl]. rewrite (okK_notIndent i K). cbn [andb negb].
    destruct (Z.eqb_spec (at_ src pos) 0) as [E0|_]; [contradiction|]. cbn [andb].
    destruct (Z.ltb_spec (pos + 1) (iend i)) as [L|L].
    - exists (i :: rest), (if at_ src (pos + 1) =? 0 then 0 else v). split; [|intros; lia]. intros _. split; [reflexivity|].
      exists (istart i). cbn [chain]. repeat split; try assumption; lia.
    - destruct rest as [|j rest'].
      + cbn [chain] in Hc. cbn [nextSpan]. exists [], v. split; [intros; lia|]. intros _. reflexivity.
      + cbn [chain] in Hc. destruct Hc as (Kj & Ej & Hj & Hc'). pose proof (chain_le b rest' (iend j) Hc') as Hle'.
        cbn [nextSpan]. rewrite (okK_nextSpan j Kj).
        exists (j :: rest'), (computeNullVirtualPosition src (istart j)). split; [|intros; lia]. intros _.
        replace (istart j) with (pos + 1) by lia. split; [reflexivity|].
        exists (pos + 1). cbn [chain]. repeat split; try assumption; lia.
  Qed.

  Variable e : Z.
  Hypothesis Heb : e <= b.
  Hypothesis Hel : e <= len src.

  Lemma tskip_adj (f : nat) :
    (forall l pos v p acc, Q l pos -> pos <= e -> (forall i, pos <= i < e -> at_ src i <> 0) -> e - pos <= Z.of_nat f ->
        tlr_loop f (mkR l pos v p) e acc = acc ++ collapse (sub src pos e)) ->
    forall k l pos v p acc, Q l pos -> pos <= e -> (forall i, pos <= i < e -> at_ src i <> 0) ->
      e - pos <= Z.of_nat f -> e - pos < Z.of_nat k ->
      tskip f e acc k (mkR l pos v p) = acc ++ collapse (dropWhileB ws (sub src pos e)).
  Proof.
    intros IHf. induction k as [|k IHk]; intros l pos v p acc HQ H2 Hnz Hf Hk; [lia|].
    assert (H0 : 0 <= pos) by (destruct HQ as (x & _ & ? & ? & _); lia).
    rewrite tskip_S. change (r_pos (mkR l pos v p)) with pos.
    destruct (Z.ltb_spec pos e) as [L|L].
    - assert (Hz : at_ src pos <> 0) by (apply Hnz; lia).
      destruct (current_Q l pos v p HQ ltac:(lia) Hz) as (i & rest & Ec & HN).
      unfold cur. rewrite Ec. cbn [fst snd andb].
      rewrite (sub_cons src pos e H0 L Hel). cbn [dropWhileB].
      destruct (ws (at_ src pos)) eqn:Ew.
      + destruct (next_N i rest pos v p HN Hz) as (l' & v' & Ht & Hf').
        destruct (Z.lt_ge_cases (pos + 1) b) as [Lb|Lb].
        * destruct (Ht Lb) as [En HQ']. rewrite En. apply IHk; try assumption; try lia. intros j Hj. apply Hnz. lia.
        * rewrite (Hf' Lb). rewrite tlr_loop_done by (cbn [r_pos mkR]; lia).
          rewrite (sub_empty src (pos + 1) e) by lia. cbn [dropWhileB]. rewrite collapse_nil, app_nil_r. reflexivity.
      + rewrite (IHf l pos v p acc HQ H2 Hnz Hf). rewrite (sub_cons src pos e H0 L Hel). reflexivity.
    - cbn [andb]. rewrite tlr_loop_done by (cbn [r_pos mkR]; lia).
      rewrite (sub_empty src pos e) by lia. cbn [dropWhileB]. rewrite collapse_nil, app_nil_r. reflexivity.
  Qed.

  Lemma tlr_loop_adj : forall (f : nat) l pos v p acc,
    Q l pos -> pos <= e -> (forall i, pos <= i < e -> at_ src i <> 0) -> e - pos <= Z.of_nat f ->
    tlr_loop f (mkR l pos v p) e acc = acc ++ collapse (sub src pos e).
  Proof.
    induction f as [|f IHf]; intros l pos v p acc HQ H2 Hnz Hf.
    - rewrite tlr_loop_done by (cbn [r_pos mkR]; lia).
      rewrite (sub_empty src pos e) by lia. rewrite collapse_nil, app_nil_r. reflexivity.
    - assert (H0 : 0 <= pos) by (destruct HQ as (x & _ & ? & ? & _); lia).
      rewrite tlr_loop_S. change (r_pos (mkR l pos v p)) with pos.
      destruct (Z.leb_spec e pos) as [L|L].
      { rewrite (sub_empty src pos e) by lia. rewrite collapse_nil, app_nil_r. reflexivity. }
      assert (Hz : at_ src pos <> 0) by (apply Hnz; lia).
      destruct (current_Q l pos v p HQ ltac:(lia) Hz) as (i & rest & Ec & HN). rewrite Ec.
      destruct (next_N i rest pos v p HN Hz) as (l' & v' & Ht & Hf').
      rewrite (sub_cons src pos e H0 L Hel).
      assert (Hnz' : forall j, pos + 1 <= j < e -> at_ src j <> 0) by (intros j Hj; apply Hnz; lia).
      destruct (ws (at_ src pos)) eqn:Ew.
      + rewrite (collapse_ws_cons _ _ Ew).
        destruct (Z.lt_ge_cases (pos + 1) b) as [Lb|Lb].
        * destruct (Ht Lb) as [En HQ']. rewrite En. cbn [negb].
          rewrite (tskip_adj f IHf (S f) l' (pos + 1) v' pos (acc ++ [32])) by (try assumption; lia).
          rewrite <- app_assoc. reflexivity.
        * rewrite (Hf' Lb). cbn [negb].
          rewrite (sub_empty src (pos + 1) e) by lia. cbn [dropWhileB]. rewrite collapse_nil. reflexivity.
      + rewrite (collapse_nws_cons _ _ Ew).
        destruct (Z.lt_ge_cases (pos + 1) b) as [Lb|Lb].
        * destruct (Ht Lb) as [En HQ']. rewrite En. cbn [negb].
          rewrite (IHf l' (pos + 1) v' pos (acc ++ [at_ src pos])) by (try assumption; lia).
          rewrite <- app_assoc. reflexivity.
        * rewrite (Hf' Lb). cbn [negb].
          rewrite (sub_empty src (pos + 1) e) by lia. rewrite collapse_nil. reflexivity.
  Qed.
End Adj.

Theorem label_norm_adjacent : forall src nodes a b s e (fuel : nat),
  chain b a nodes ->
  0 <= a <= s -> s <= e -> e <= b -> e <= len src -> e - s <= Z.of_nat fuel ->
  (forall i, s <= i < e -> at_ src i <> 0) ->
  transformLinkReferenceSpan fuel src nodes s e = norm_label (sub src s e).
Proof.
  intros src nodes a b s e fuel Hc [Ha Has] Hse Heb Hel Hf Hnz.
  unfold transformLinkReferenceSpan, norm_label.
  change (newReader src nodes s) with (mkR src nodes s 0 (-1)).
  destruct (Z.eq_dec s e) as [->|Hne].
  - rewrite tlr_loop_done by (cbn [r_pos mkR]; lia). rewrite (sub_empty src e e) by lia. reflexivity.
  - rewrite (tlr_loop_adj src b e Heb Hel fuel nodes s 0 (-1) []); try assumption; [reflexivity|].
    exists a. repeat split; try assumption; lia.
Qed.
Print Assumptions label_norm_adjacent.

(* "[Foo\nBar  baz]" as two adjacent line spans [0,5) [5,15): the label [1,14) crosses the boundary *)
Definition ex2_src : bytes := [91;70;111;111;10;66;97;114;32;32;98;97;122;93;10].
Example ex2_chain : chain 15 0 [mkI UnparsedKind 0 5; mkI UnparsedKind 5 15].
Proof. cbn. unfold okK. cbn. repeat split; try lia; left; reflexivity. Qed.
Example label_norm_adjacent_example :
  transformLinkReferenceSpan 16 ex2_src [mkI UnparsedKind 0 5; mkI UnparsedKind 5 15] 1 13 = [102;111;111;32;98;97;114;32;98;97;122]
  /\ norm_label (sub ex2_src 1 13) = [102;111;111;32;98;97;114;32;98;97;122].
Proof. split; vm_compute; reflexivity. Qed.

(* adjacency matters: with a gap between the spans (a stripped line prefix) the reader skips the gap bytes, the
   specification over sub src s e does not *)
Example label_norm_gap_differs :
  transformLinkReferenceSpan 16 ex2_src [mkI UnparsedKind 0 5; mkI UnparsedKind 6 15] 1 13 <> norm_label (sub ex2_src 1 13).
Proof. intros H. vm_compute in H. discriminate H. Qed.
