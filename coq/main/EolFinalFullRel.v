(* T63-F1: the relation between parseFull s and parseFull (s ++ [10]) that is proved for EVERY admissible input
   (EolFinalFullMain.parseFull_final_newline_rel), and its link with the function finFullRoots of EolFinalFullDefs.

   Everything is as in finFullB, except that for the inline forest of a Paragraph the relation does not say WHEN the last Text node
   is extended: either the forest is unchanged, or its last top-level node is a Text node [ps, L) that becomes [ps, L+1). *)
From Coq Require Import List ZArith Lia Bool.
Import ListNotations.
Require Import Base Tree Driver Inl3e EolFinalDefs EolFinalFullDefs.
Open Scope Z_scope.

Definition txtI (s e : Z) : inline := Inl TextKind s e 0 [] [].
Definition hbLikeI (L : Z) (ik ik' : list inline) : Prop :=
  exists X ps, 0 <= ps < L /\ ik = X ++ [txtI ps L] /\ ik' = X ++ [txtI ps (L + 1)].
Definition inlRelK (K L : Z) (ik ik' : list inline) : Prop :=
  if isCode K then ik' = finCode L ik
  else if K =? HTMLBlockKind then ik' = map (bumpI L) ik
  else if K =? ParagraphKind then ik' = ik \/ hbLikeI L ik ik'
  else ik' = ik.
Inductive finRelB (L : Z) : block -> block -> Prop :=
| FR_lm b : bkind b = ListMarkerKind -> finRelB L b b
| FR_blk K s e bk bk' ik ik' a n c l lb : K <> ListMarkerKind -> Forall2 (finRelB L) bk bk' -> inlRelK K L ik ik' ->
    finRelB L (Blk K s e bk ik a n c l lb) (Blk K s (bump L e) bk' ik' a n c l lb).
Definition finRelRoot (r r' : rootB) : Prop :=
  rb_line r' = rb_line r /\ rb_start r' = rb_start r /\ rb_end r' = rb_end r + 1 /\ rb_src r' = rb_src r ++ [10] /\
  finRelB (len (rb_src r)) (rb_blk r) (rb_blk r').
Definition finRelRoots (n : Z) (l l' : list rootB) : Prop :=
  match rev l with
  | [] => l' = []
  | r :: pre => if rb_end r =? n then exists r', l' = rev pre ++ [r'] /\ finRelRoot r r' else l' = l
  end.
Definition parseFull_final_newline_rel_statement : Prop :=
  forall s, s <> [] -> endsEol s = false -> lastByte s <> 62 ->
    exists roots', parseFull (s ++ [10]) = (roots', snd (parseFull s)) /\ finRelRoots (len s) (fst (parseFull s)) roots'.

(* the function of EolFinalFullDefs is one instance of the relation *)
Lemma bumpLastText_rel L ik : bumpLastText L ik = ik \/ (exists X k s i r ks, ik = X ++ [Inl k s L i r ks] /\ k = TextKind /\ bumpLastText L ik = X ++ [Inl k s (L + 1) i r ks]).
Proof.
  unfold bumpLastText. destruct (rev ik) as [|[k s e i r ks] pre] eqn:Er; [left; reflexivity|].
  destruct ((k =? TextKind) && (e =? L)) eqn:Ec; [|left; reflexivity]. right. apply andb_true_iff in Ec. destruct Ec as [Ek Ee].
  apply Z.eqb_eq in Ek, Ee. subst e. exists (rev pre), k, s, i, r, ks. split; [|split; [exact Ek|reflexivity]].
  rewrite <- (rev_involutive ik), Er. reflexivity.
Qed.
