From Coq Require Import List ZArith Lia Bool.
Import ListNotations.
Require Import Base Tree Rdr Link Collect Html Recog LP Rules Starts Driver Rec16 Rec17 Rec18 L2Kind L2CC L2Bnd L2BndS
  BSDef BSTree BSLine10 BSShift BlockSpans ShDef ShSetext ShLine4 BlockShapes StreamFuel
  TPanicRange TDefs TInv TDesc TLine TLine2 TShift Total
  EolInv EolCRBytes EolCRLFSimStream EolFinalDefs EolFinalSimBytes EolFinalSimTree EolFinalGenOcp EolFinalGenTree EolFinalSimStreamBase.
Require EolCRLFSimCtDef EolGenCtDef EolGenCtStream EolGenCt.
Open Scope Z_scope.

(* C14 (i), final newline, stream level: the single-run invariant of one lineLoop iteration (the union of what the
   totality proof (Total.v) and the block-shape proof (BlockShapes.v) carry) and the stream invariant of EolGenCt (containment, account la), for every buffer. *)
(* the buffer predicate of BlockShapes.SJS: none needed *)
Definition anyBuf (l : bytes) : Prop := True.
Lemma anyBuf_from l n : anyBuf l -> anyBuf (from_ l n). Proof. exact (fun _ => I). Qed.
Lemma anyBuf_upto l n : anyBuf l -> anyBuf (upto l n). Proof. exact (fun _ => I). Qed.

Definition LI (st : Z) (children : list block) (ls : Z) (s : bpst) (ns : bool) : Prop :=
  0 <= ls <= len (buf s) /\ bi s = lineEnd (buf s) ls /\ bndL ls ns children = true /\ (ns = false -> ls = len (buf s)) /\
  ccF children = true /\ GoodL 0 children /\ (children = [] \/ (0 < ls /\ exists c, children = [c])) /\
  (st = stDescendTerminated -> HM children) /\
  (children = [] -> isBlankLine (from_ (upto (buf s) (bi s)) ls) = false /\ (st = stOpening \/ st = stOpenMatched)) /\
  kidsOK ls children /\ shKids (buf s) ls children /\ anyBuf (buf s) /\ topNoLM children = true /\ (exists nsx, EolGenCt.LEy st children ls s nsx).

Section Step.
  (* root-level children are never list markers (EolFinalGenHypTn.tn_processLine) *)
  Hypothesis H_tn : forall st K ls src, ccF K = true -> topNoLM K = true -> topNoLM (fst (fst (processLine st K ls src))) = true.

  Definition nextS (s : bpst) : bpst := {| buf := buf s; bi := lineEnd (buf s) (bi s); boff := boff s; bline := bline s; pending := pending s |}.

  Lemma LI_line st children ls s ns : LI st children ls s ns ->
    let r := processLine st children ls (upto (buf s) (bi s)) in
    let ns' := if ns then hasByteSuffixEOL (from_ (upto (buf s) (bi s)) ls) else false in
    ls <= bi s <= len (buf s) /\ len (from_ (upto (buf s) (bi s)) ls) = bi s - ls /\
    (snd r = 0 ->
     bndL (bi s) ns' (fst (fst r)) = true /\ (ns' = false -> bi s = len (buf s)) /\ ccF (fst (fst r)) = true /\
     GoodL 0 (fst (fst r)) /\ nonlastLe ls (fst (fst r)) /\ fst (fst r) <> [] /\
     kidsOK (bi s) (fst (fst r)) /\ shKids (buf s) (bi s) (fst (fst r)) /\ (topNoLM (fst (fst r)) = true /\ exists nsx, EolGenCtStream.SJx s (fst (fst r)) nsx) /\
     (ls = len (buf s) -> lastClosed (fst (fst r))) /\
     (makeRoot (fst (fst r)) s = None -> ls < bi s /\ LI (snd (fst r)) (fst (fst r)) (bi s) (nextS s) ns')).
  Proof.
    intros (Hls & Hbi & Hc & Hn & Hcc & HG & HK & Hst & Hemp & Hk & Hsk & HP & Htn & (nsx & Hct)). cbv zeta.
    destruct (lineEnd_spec (buf s) ls Hls) as [A B]. rewrite <- Hbi in A, B.
    set (ln := from_ (upto (buf s) (bi s)) ls).
    destruct (line_of (buf s) ls (bi s) ltac:(lia) ltac:(lia)) as [Ll _]. fold ln in Ll.
    split; [lia|]. split; [exact Ll|]. intros Epn.
    set (ns' := if ns then hasByteSuffixEOL ln else false).
    assert (Hc' : bndL (bi s) ns' children = true).
    { unfold ns'. destruct ns.
      - pose proof (bndL_mono ls (bi s) children ltac:(lia) Hc) as Hm. destruct (hasByteSuffixEOL ln); [exact Hm|apply bndL_weaken, Hm].
      - rewrite (Hn eq_refl) in *. replace (bi s) with (len (buf s)) by lia. exact Hc. }
    assert (Hn' : ns' = false -> bi s = len (buf s)).
    { unfold ns'. destruct ns; [|intros _; rewrite (Hn eq_refl) in *; lia].
      intros Ee. destruct (Z.lt_ge_cases (bi s) (len (buf s))) as [Lt|Ge]; [|lia].
      exfalso. rewrite Hbi in Lt. pose proof (line_hasEOL (buf s) ls Hls Lt) as Hh. rewrite <- Hbi in Hh. fold ln in Hh. congruence. }
    assert (Hlu : len (upto (buf s) (bi s)) = bi s) by (apply len_upto; lia).
    pose proof (bnd_processLine (bi s) ns' st children ls (upto (buf s) (bi s)) ltac:(lia) ltac:(lia) ltac:(fold ln; lia)
                  ltac:(rewrite Hlu; lia) ltac:(unfold ns'; fold ln; destruct ns; [tauto|discriminate]) Hc') as H1.
    pose proof (sp_processLine (bi s) ns' st children ls (upto (buf s) (bi s)) ltac:(lia) ltac:(lia) ltac:(fold ln; lia)
                  ltac:(rewrite Hlu; lia) ltac:(unfold ns'; fold ln; destruct ns; [tauto|discriminate]) Hc' Hcc Hk) as H2.
    pose proof (cc_processLine st children ls (upto (buf s) (bi s)) Hcc) as H3.
    assert (Hag : agree (buf s) (upto (buf s) (bi s)) (bi s)) by (unfold agree; rewrite upto_upto by lia; reflexivity).
    assert (Hsk' : shKids (upto (buf s) (bi s)) ls children).
    { eapply shKids_agree; [exact Hag|lia| |exact Hsk]. eapply allP_sp_mono; [|apply Hk]. lia. }
    pose proof (sh_processLine (bi s) ns' st children ls (upto (buf s) (bi s)) ltac:(lia) ltac:(rewrite Hlu; lia) ltac:(fold ln; lia)
                  ltac:(rewrite Hlu; lia) ltac:(unfold ns'; fold ln; destruct ns; [tauto|discriminate]) Hc' Hcc Hk
                  ltac:(rewrite Hbi; apply line_shape; exact Hls) Hsk') as H4.
    rewrite Hlu in H4.
    pose proof (processLine_good st children ls (upto (buf s) (bi s)) ltac:(lia) HG (UB_of_bnd ls ns children ltac:(lia) Hc) Hcc HK Hst Hemp) as H5.
    cbv zeta in H5.
    pose proof (H_tn st children ls (upto (buf s) (bi s)) Hcc Htn) as H6.
    destruct (EolGenCt.X_step st children ls s nsx Hct) as (nsx' & H7 & H7n).
    destruct (processLine st children ls (upto (buf s) (bi s))) as [[children' st'] pn]. cbn [fst snd] in *. subst pn.
    destruct H5 as ((G1 & G1') & G2 & G3 & G4).
    assert (H4' : shKids (buf s) (bi s) children').
    { eapply shKids_agree; [unfold agree; symmetry; exact Hag|lia|apply H2|exact H4]. }
    assert (Hlc : ls = len (buf s) -> lastClosed children').
    { intros E. apply G3. fold ln. apply len0_nil. rewrite Ll. lia. }
    split; [exact H1|]. split; [exact Hn'|]. split; [exact H3|]. split; [exact G1|]. split; [exact G1'|]. split; [exact G2|].
    split; [exact H2|]. split; [exact H4'|]. split; [split; [exact H6|exists nsx'; exact H7]|]. split; [exact Hlc|].
    intros Em. unfold makeRoot in Em. destruct children' as [|c rest]; [congruence|]. destruct (isOpen c) eqn:Eo; [|discriminate].
    pose proof (GoodL_first_open c rest G1 Eo) as Er. subst rest.
    assert (El : ls <> len (buf s)) by (intros E; exact (lastClosed_single_open c (Hlc E) Eo)).
    assert (Lt : ls < bi s) by (rewrite Hbi; apply lineEnd_progress; lia).
    split; [exact Lt|]. unfold LI, nextS. cbn [buf bi].
    split; [lia|]. split; [reflexivity|]. split; [exact H1|]. split; [exact Hn'|]. split; [exact H3|]. split; [exact G1|].
    split; [right; split; [lia|exists c; reflexivity]|].
    split; [intros E; destruct (G4 E) as [Hl|Hh]; [exfalso; exact (lastClosed_single_open c Hl Eo)|exact Hh]|].
    split; [discriminate|]. split; [exact H2|]. split; [exact H4'|]. split; [exact HP|split; [exact H6|exists nsx'; apply H7n; unfold makeRoot; rewrite Eo; reflexivity]].
  Qed.
End Step.
