From Coq Require Import List ZArith Lia Bool.
Import ListNotations.
Require Import Base Tree Rdr LP Rules Starts Driver L2CC L2BndS TDefs TInv TLine2 Total GramDefs StreamFuel SliceBase SliceReparse BlankPrefix LADef LA1 LA11
  ReparseDefs ReparseLocal ReparseFirst ReparseEof ReparseRun ReparseSI ReparseInv ReparseE2L ReparsePlain Reparse2 ReparseSuffix ReparseAfter ReparseEqb ReparseAll ReparseOcpLocal.
Open Scope Z_scope.

(* ====================================================================================================================
   T66: C16 at the block layer without the exclusion "a paragraph beginning with '[' is open on the spine".
   ReparseOcpLocal.la_spineEq: under the invariant la every open paragraph on the spine is closed the same way with and without
   the bytes after T (onCloseParagraph reads only the bytes inside the entries).  Hence the per-cut theorem without plainSpine,
   and the assembly of ReparseAll with a `covered2` that no longer contains plainSpineb.
   ==================================================================================================================== *)

Theorem E2_core_free B f T stp c bij rest st' rb : noNul B ->
  lastLine f 0 [] 0 B = Some (T, stp, [c]) -> 0 < lineEnd B 0 -> isBlankLine (upto B (lineEnd B 0)) = false ->
  bij = lineEnd B T -> processLine stp [c] T (upto B bij) = (rb :: rest, st', 0) -> isOpen rb = false -> bend rb = T -> 0 < T -> T < bij ->
  (bkind c = ParagraphKind -> bkind rb <> LinkReferenceDefinitionKind) ->
  exists y, parseBlocks (upto B T) = ([{| rb_line := 1; rb_start := 0; rb_end := T; rb_src := upto B T; rb_blk := y |}], 0) /\
            set_blast y false = set_blast rb false.
Proof.
  intros HN HL Hpos Hnb Ebij Hpl Hcl Hbe HT0 HTb Hnr.
  apply (E2_core_all B f T stp c bij rest st' rb HN HL Hpos Hnb Ebij Hpl Hcl Hbe HT0 HTb Hnr).
  pose proof (lastLine_inv f 0 [] 0 B T stp [c] (LInv_init B Hpos Hnb) HL) as HI.
  pose proof (lastLine_la f 0 [] 0 B T stp [c] HN (LInv_init B Hpos Hnb) (LaInv_init B) HL) as HLa.
  destruct HI as (Hls & _).
  assert (Hbb : T <= bij <= len B) by (rewrite Ebij; apply (lineEnd_spec B T Hls)).
  apply la_spineEq; [apply noNul_upto, HN|rewrite L2BndS.len_upto by lia; lia|].
  unfold LaInv in HLa. rewrite <- Ebij in HLa. apply la_eq in HLa. destruct HLa as (_ & _ & _ & _ & Hk). cbn [bkids docRoot allQ] in Hk. apply Hk.
Qed.
Print Assumptions E2_core_free.

(* the line-cut check without plainSpineb *)
Definition lcCheck2 (s : bpst) (r : rootB) : bool :=
  match lineData s with
  | Some (B, T, stp, c, bij, h, rest, st') => blockEqb h (rb_blk r) && zsEqb (rb_src r) (upto B T)
  | None => false
  end.
Lemma lcCheck_lcCheck2 s r : lcCheck s r = true -> lcCheck2 s r = true.
Proof.
  unfold lcCheck, lcCheck2. destruct (lineData s) as [[[[[[[[B T] stp] c] bij] h] rest] st']|]; [|discriminate].
  intros H. apply andb_true_iff in H. apply H.
Qed.
Lemma lc2_sound s r : noNul (buf s) -> lcCheck2 s r = true -> C16P r.
Proof.
  intros HN H. unfold lcCheck2 in H. destruct (lineData s) as [[[[[[[[B T] stp] c] bij] h] rest] st']|] eqn:ED; [|discriminate].
  destruct (lineData_ok s B T stp c bij h rest st' HN ED) as (HNB & (f & HL) & H1 & H2 & Ebij & Hpl & Hcl & Hbe & HT0 & HTb & Hnr).
  apply andb_true_iff in H. destruct H as [Hb Hsrc]. apply blockEqb_eq in Hb. apply zsEqb_eq in Hsrc.
  destruct (E2_core_free B f T stp c bij rest st' h HNB HL H1 H2 Ebij Hpl Hcl Hbe HT0 HTb Hnr) as (y & Hy1 & Hy2).
  unfold C16P. rewrite Hsrc. eexists. split; [exact Hy1|]. unfold aloneOf. cbn [rb_src rb_blk]. rewrite Hy2, Hsrc, Hb. reflexivity.
Qed.

Fixpoint walk2 (rs : bool) (f : nat) (s : bpst) : list (rootB * bool) :=
  match f with
  | O => []
  | S f' =>
    match nextBlock (3 + length (buf s)) s with
    | NBBlock r s' => (r, cleanCheck s s' || lcCheck2 s r) :: walk2 rs f' (if sw rs s s' then fresh s' else s')
    | _ => []
    end
  end.
Definition coveredG2 (rs : bool) (input : bytes) (r : rootB) : bool :=
  existsb (fun x => snd x && zsEqb (rb_src (fst x)) (rb_src r) && blockEqb (rb_blk (fst x)) (rb_blk r))
          (walk2 rs (S (length (pad input))) (st0 (pad input))).
Definition covered2 : bytes -> rootB -> bool := coveredG2 false.
Definition coveredR2 : bytes -> rootB -> bool := coveredG2 true.

Lemma walk2_roots rs : forall f s acc, WInv s -> fst (allBlocks f s acc) = acc ++ map fst (walk2 rs f s).
Proof.
  induction f as [|f IH]; intros s acc HW; [cbn; rewrite app_nil_r; reflexivity|]. cbn [allBlocks walk2].
  destruct (nextBlock (3 + length (buf s)) s) as [r s'|s'| |k] eqn:En; cbn [fst map]; try (rewrite app_nil_r; reflexivity).
  pose proof (WInv_next rs s r s' HW En) as HW'.
  assert (E : allBlocks f s' (acc ++ [r]) = allBlocks f (if sw rs s s' then fresh s' else s') (acc ++ [r])).
  { destruct (sw rs s s') eqn:Es; [apply (sw_sound_g rs s s' (proj2 HW) Es)|reflexivity]. }
  rewrite E, (IH _ _ HW'), <- app_assoc. reflexivity.
Qed.
Lemma walk2_C16 rs : forall f s, WInv s -> forall r, In (r, true) (walk2 rs f s) -> C16P r.
Proof.
  induction f as [|f IH]; intros s HW r Hin; [destruct Hin|]. cbn [walk2] in Hin.
  destruct (nextBlock (3 + length (buf s)) s) as [r0 s'|s'| |k] eqn:En; try (exfalso; exact Hin).
  destruct Hin as [E|Hin].
  - inversion E as [[E1 E2]]. subst r0. apply orb_true_iff in E2. destruct E2 as [E2|E2].
    + apply (clean_sound s r s' (proj1 HW) (proj2 HW) En E2).
    + apply (lc2_sound s r (proj2 HW) E2).
  - apply (IH _ (WInv_next rs s r0 s' HW En) r Hin).
Qed.
Theorem walk2_parseBlocks rs input : noNul input -> map fst (walk2 rs (S (length (pad input))) (st0 (pad input))) = fst (parseBlocks input).
Proof. intros HN. rewrite parseBlocks_st0, (walk2_roots rs _ _ [] (WInv_init input HN)). reflexivity. Qed.

Theorem C16_blocks2_gen rs : forall input, noNul input -> forall r, In r (fst (parseBlocks input)) -> coveredG2 rs input r = true ->
  exists r', parseBlocks (rb_src r) = ([r'], 0) /\ aloneOf r' = aloneOf r.
Proof.
  intros input HN r _ Hc. unfold coveredG2 in Hc. apply existsb_exists in Hc. destruct Hc as ([r0 b] & Hin & Hx). cbn [fst snd] in Hx.
  apply andb_true_iff in Hx. destruct Hx as [Hx Hb]. apply andb_true_iff in Hx. destruct Hx as [Hflag Hs]. subst b.
  apply zsEqb_eq in Hs. apply blockEqb_eq in Hb.
  destruct (walk2_C16 rs _ _ (WInv_init input HN) r0 Hin) as (r' & H1 & H2).
  exists r'. split; [rewrite <- Hs; exact H1|]. rewrite H2. unfold aloneOf. rewrite Hs, Hb. reflexivity.
Qed.
Theorem C16_blocks2_partial : forall input, noNul input -> forall r, In r (fst (parseBlocks input)) -> covered2 input r = true ->
  exists r', parseBlocks (rb_src r) = ([r'], 0) /\ aloneOf r' = aloneOf r.
Proof. exact (C16_blocks2_gen false). Qed.
Print Assumptions C16_blocks2_partial.
Theorem C16_blocks2_resync_partial : forall input, noNul input -> forall r, In r (fst (parseBlocks input)) -> coveredR2 input r = true ->
  exists r', parseBlocks (rb_src r) = ([r'], 0) /\ aloneOf r' = aloneOf r.
Proof. exact (C16_blocks2_gen true). Qed.
Print Assumptions C16_blocks2_resync_partial.

(* covered2 is weaker than covered: every root covered before is still covered *)
Lemma walk_walk2 rs : forall f s, Forall2 (fun a b => fst a = fst b /\ (snd a = true -> snd b = true)) (walk rs f s) (walk2 rs f s).
Proof.
  induction f as [|f IH]; intros s; [constructor|]. cbn [walk walk2]. destruct (nextBlock (3 + length (buf s)) s) as [r s'|s'| |k]; try constructor.
  - cbn [fst snd]. split; [reflexivity|]. intros H. apply orb_true_iff in H. apply orb_true_iff. destruct H as [H|H]; [left; exact H|right; apply lcCheck_lcCheck2, H].
  - apply IH.
Qed.
Theorem covered_covered2 rs input r : coveredG rs input r = true -> coveredG2 rs input r = true.
Proof.
  unfold coveredG, coveredG2. intros H. apply existsb_exists in H. destruct H as (x & Hin & Hx). apply existsb_exists.
  pose proof (walk_walk2 rs (S (length (pad input))) (st0 (pad input))) as HF.
  revert Hin. induction HF as [|a b la lb (E1 & E2) _ IHF]; intros Hin; [destruct Hin|].
  destruct Hin as [->|Hin].
  - exists b. split; [left; reflexivity|]. rewrite <- E1. apply andb_true_iff in Hx. destruct Hx as [Hx Hb]. apply andb_true_iff in Hx. destruct Hx as [Hf Hs].
    rewrite (E2 Hf), Hs, Hb. reflexivity.
  - destruct (IHF Hin) as (y & Hy & Hy2). exists y. split; [right; exact Hy|exact Hy2].
Qed.
