From Coq Require Import List ZArith Lia Bool.
Import ListNotations.
Require Import Base Tree Rdr Link Collect Html Recog LP Rules Starts Driver Leaf3e RdrBound L2Kind L2CC L2Bnd BSDef BSRdr BSTree BSOcp BSOrph BSClose
  BSLine1 BSLine2 BSLine3 BSLine4 BSLine5 BSLine6 BSLine7 BSLine8 BSErase BSLine9 BSLine10.
Require Import EolCRLFSimTree EolCRLFSimLeDefs EolCRLFSimLe EolCRLFSimStream EolCRLFSimCtDef EolCRLFSimCtClose EolCRLFSimCtLine3 EolCRLFSimCtStarts
  EolCRLFSimCtSetext.
Open Scope Z_scope.

Lemma blockStarts_okX : Forall startOKX blockStarts.
Proof.
  unfold blockStarts.
  apply Forall_cons; [apply sOKX_startBlockQuote|]. apply Forall_cons; [apply sOKX_startATX|].
  apply Forall_cons; [apply sOKX_startFenced|]. apply Forall_cons; [apply sOKX_startHTML|].
  apply Forall_cons; [apply sOKX_startSetext|]. apply Forall_cons; [apply sOKX_startThematic|].
  apply Forall_cons; [apply sOKX_startListItem|]. apply Forall_cons; [apply sOKX_startIndented|]. apply Forall_nil.
Qed.

Lemma tryStarts_okX : forall fs p, Forall startOKX fs -> OPX p -> LIX p -> OPX (snd (tryStarts fs p)) /\ LI2X (snd (tryStarts fs p)).
Proof.
  induction fs as [|f r IH]; intros p Hfs H HL; [split; [exact H|left; exact HL]|].
  cbn [tryStarts]. cbv zeta. inversion Hfs as [|? ? Hf Hr]; subst.
  destruct (Hf (withState p stOpening)) as (A & B & C).
  { left. reflexivity. }
  { eapply OPX_cstep; [apply cstep_withState|exact H]. }
  { eapply LIX_cstep; [apply cstep_withState|exact HL]. }
  destruct ((state (f (withState p stOpening)) =? stOpenMatched) || (state (f (withState p stOpening)) =? stLineConsumed)) eqn:Em.
  - cbn [snd]. tauto.
  - apply IH; [exact Hr|exact A|]. destruct C as [C|C]; [exact C|]. exfalso.
    apply orb_false_iff in Em. destruct Em as [E1 E2]. apply Z.eqb_neq in E1. apply Z.eqb_neq in E2. destruct C; contradiction.
Qed.

Lemma opening_loop_okX : forall fuel p, OPX p -> LI2X p -> OPX (snd (opening_loop fuel p)) /\ LI2X (snd (opening_loop fuel p)).
Proof.
  induction fuel as [|f IH]; intros p H HL; [split; assumption|]. cbn [opening_loop].
  destruct ((containerKind p =? ParagraphKind) || negb (acceptsLines (containerKind p))) eqn:Ec; [|split; assumption].
  assert (L : LIX p).
  { destruct HL as [L|[L1 L2]]; [exact L|]. exfalso. apply orb_true_iff in Ec. destruct Ec as [Ec|Ec].
    - apply Z.eqb_eq in Ec. contradiction.
    - rewrite L1 in Ec. discriminate. }
  pose proof (tryStarts_okX blockStarts p blockStarts_okX H L) as H1. destruct (tryStarts blockStarts p) as [[|] p1]; cbn [snd] in H1.
  - destruct (_ =? stLineConsumed); [exact H1|apply IH; tauto].
  - exact H1.
Qed.

(* what addLineText needs *)
Definition ApreE (p : lp) : Prop := BPe (Mc p) p /\ C1e p /\ (acceptsLines (containerKind p) = false -> LIe p).
Definition ApreX (p : lp) : Prop := Apre p /\ ApreE p.

Lemma LI2X_LI2 p : LI2X p -> LI2 p. Proof. intros [[A _]|B]; [left; exact A|right; exact B]. Qed.

Lemma ApreX_of p : OPX p -> LI2X p -> ApreX p.
Proof.
  intros H HL. split; [apply Apre_of; [apply OPX_OPx, H|apply LI2X_LI2, HL]|].
  destruct H as [[_ A] [_ B]]. split; [exact A|split; [exact B|]]. intros E. destruct HL as [L|[L _]]; [apply L|rewrite L in E; discriminate].
Qed.

Lemma deferredClose_okX p : OPX p -> LI2X p -> ApreX (deferredClose p).
Proof.
  intros H HL. split; [apply deferredClose_ok; [apply OPX_OPx, H|apply LI2X_LI2, HL]|].
  destruct H as [[HB HE] [H1 H1e]]. pose proof HB as (A & B & C & D). pose proof HE as [N0 R0]. unfold deferredClose. cbv zeta.
  set (tipD := tipDepth (bheight (root p)) (root p)).
  destruct (negb (isRestBlank p) && match getAt tipD (root p) with Some t => bkind t =? ParagraphKind | None => false end) eqn:Ec.
  - apply andb_true_iff in Ec. destruct Ec as [_ Ec]. destruct (getAt tipD (root p)) as [t|] eqn:Et; [|discriminate]. apply Z.eqb_eq in Ec.
    split; [exact HE|split].
    + intros c Ecx _. exfalso. change (cdepth (withCont p (Some tipD))) with tipD in Ecx. change (root (withCont p (Some tipD))) with (root p) in Ecx.
      rewrite getAt_S_last, Et in Ecx. pose proof (para_no_kids t ltac:(eapply cc_getAt; [apply D|exact Et]) Ec) as Hk.
      unfold lastBlock in Ecx. rewrite Hk in Ecx. discriminate.
    + intros Ea. exfalso. assert (Ek : containerKind (withCont p (Some tipD)) = ParagraphKind).
      { unfold containerKind, contBlock. change (cdepth (withCont p (Some tipD))) with tipD. change (root (withCont p (Some tipD))) with (root p). rewrite Et. exact Ec. }
      rewrite Ek in Ea. discriminate.
  - assert (Hcl : forall x c, getAt (cdepth p) (root p) = Some x -> lastBlock x = Some c -> bend c < 0 -> ct (lineStart p) c).
    { intros x c Ex El Oc. apply H1e; [|exact Oc]. rewrite getAt_S_last, Ex. exact El. }
    set (q := closeLastChildAt p (cdepth p) (lineStart p)).
    split; [|split].
    + change (BPe (Mc p) q). apply (BPe_ext (Mc p) (withCont q (Some (cdepth p)))); try reflexivity.
      apply BPe_closeAt; [exact HB|exact HE|unfold Mc; destruct A; lia|lia|exact Hcl].
    + apply (C1e_ext (withCont q (Some (cdepth p)))); try reflexivity. apply C1e_closeAt_ls; [exact N0|exact Hcl].
    + intros Ea. unfold q in Ea. rewrite containerKind_closeHere in Ea. apply LIe_closeHere; [exact HB|exact HE|].
      destruct HL as [L|[L _]]; [apply L|rewrite L in Ea; discriminate].
Qed.

Lemma openNewBlocks_okX p am : BX p -> cleanRX p ->
  WX (snd (openNewBlocks p am)) /\ (fst (openNewBlocks p am) = true -> ApreX (snd (openNewBlocks p am))).
Proof.
  intros HB Hcl. pose proof HB as [HBb [N0 R0]]. pose proof HBb as (A & B & C & D).
  destruct (openNewBlocks_ok p am HBb (proj1 Hcl)) as [T1 T2]. revert T1 T2.
  unfold openNewBlocks. destruct (len (line p) =? 0) eqn:E0.
  - cbn [fst snd]. intros T1 _. split; [|discriminate]. split; [exact T1|]. split; [exact N0|].
    cbn [lineStart line root withCont withRoot setLP].
    apply Z.eqb_eq in E0. rewrite E0. replace (lineStart p + 0) with (lineStart p) by lia.
    pose proof (ct_closeBlock (source p) (lineStart p) N0 (bheight (root p)) (root p) (proj2 Hcl)) as P.
    destruct (closeBlock _ _ _ _) as [|b r]; [apply Hcl|apply P].
  - assert (H0 : OPX p) by (split; [exact HB|apply clean_C1X; exact Hcl]).
    pose proof (opening_loop_okX (S (length (line p))) p H0 ltac:(left; apply clean_LIX; exact Hcl)) as [H1 L1].
    destruct (opening_loop _ p) as [ht p1]. cbn [snd] in H1, L1.
    destruct am; cbn [fst snd]; intros T1 T2.
    + split; [apply BX_WX; apply H1|intros _; apply ApreX_of; assumption].
    + pose proof (deferredClose_okX p1 H1 L1) as Hd. split; [|intros _; exact Hd].
      split; [exact T1|]. destruct Hd as [[Hd1 _] [Hd2 _]]. eapply BPe_mono; [|exact Hd2].
      destruct Hd1 as ((_ & X) & _). unfold Mc. lia.
Qed.

(* ---- addLineText ---- *)
Lemma BPX_add_entry M M' p u : BPX M p -> M <= istart u -> istart u <= iend u -> iend u <= M' ->
  leI M' u = true -> geI M u = true ->
  BPX M' (updCont p (fun b => set_bik b (bik b ++ [u]))).
Proof.
  intros [HB [N0 R0]] H1 H2 H3 U1 U2. split; [apply (BPb_add_entry M M'); assumption|].
  pose proof HB as (A & B & C & D).
  apply BPe_updCont; [exact C|split; [exact N0|eapply ct_mono; [|exact R0]; lia]|].
  intros x Ex Hx. assert (Ox : bend x < 0) by (apply (C (cdepth p) x); [lia|exact Ex]).
  apply ct_add_ik; [exact Hx|rewrite (bnd_open _ _ Ox); exact U1|].
  eapply geI_down; [|exact U2].
  pose proof (ct_getAt M _ _ _ R0 Ex) as Hxq. rewrite ct_eq in Hxq. rewrite (bnd_open _ _ Ox) in Hxq. tauto.
Qed.

Lemma WX_go q : BX q ->
  WX (let k := containerKind q in
     let inlineKind := if isCode k then TextKind else if k =? HTMLBlockKind then RawHTMLKind else UnparsedKind in
     let q' := updCont q (fun b => set_bik b (bik b ++ [mkI inlineKind (lineStart q + li q) (lineStart q + len (line q))])) in
     if isCode k && negb (hasByteSuffixEOL (line q')) then
       updCont q' (fun b => set_bik b (bik b ++ [mkI SoftLineBreakKind (lineStart q' + len (line q')) (lineStart q' + len (line q'))]))
     else q').
Proof.
  intros HB. cbv zeta. pose proof HB as (((A1 & A2) & _) & _).
  set (H := lineStart q + len (line q)).
  set (q' := updCont q _).
  assert (Hq' : BPX H q').
  { apply (BPX_add_entry (Mc q) H); [exact HB| | | | |]; unfold mkI, Mc, H; cbn [istart iend]; try lia;
      [apply leI_plain; lia|apply geI_plain; lia]. }
  destruct (_ && _); [|apply (BPX_WX H); [exact Hq'|unfold H; cbn; lia]].
  apply (BPX_WX H); [|unfold H; cbn; lia].
  apply (BPX_add_entry H H); [exact Hq'| | | | |]; unfold mkI, H; cbn [istart iend lineStart line updCont withRoot setLP q']; try lia;
    [apply leI_plain; lia|apply geI_plain; lia].
Qed.

Lemma BPX_cstep M M' p p' : cstep p p' -> BPX M p -> M <= M' -> BPX M' p'.
Proof.
  intros Hc [A [N R]] Hle. split; [eapply BPb_cstep; eassumption|].
  destruct Hc as ((E1 & _) & (_ & _ & E5) & _). split; [rewrite E5; exact N|rewrite E1; eapply ct_mono; eassumption].
Qed.

(* the invariants see the tree only up to the lastLineBlank flags *)
Lemma ct_erase : forall b M, ct M (eraseB b) <-> ct M b.
Proof.
  fix IH 1. intros [k s e bk ik a n c l lb] M. cbn [eraseB ct].
  assert (Ha : allP (ct (bnd M e)) (map eraseB bk) <-> allP (ct (bnd M e)) bk).
  { induction bk as [|x r IHr]; [tauto|]. cbn [map allP]. rewrite (IH x), IHr. tauto. }
  rewrite Ha. tauto.
Qed.
Lemma ct_transfer M x x' : eraseB x = eraseB x' -> ct M x -> ct M x'.
Proof. intros E H. apply ct_erase. rewrite <- E. apply ct_erase. exact H. Qed.

Lemma ApreX_transfer p p' : eraseB (root p') = eraseB (root p) -> cdepth p' = cdepth p -> li p' = li p -> lineStart p' = lineStart p -> line p' = line p ->
  source p' = source p -> ccP p' -> ApreX p -> ApreX p' /\ containerKind p' = containerKind p.
Proof.
  intros E E2 E3 E4 E5 E6 Hcc [HA (A & B & C)].
  destruct (Apre_transfer p p' E E2 E3 E4 E5 Hcc HA) as [T K]. split; [|exact K]. split; [exact T|]. split; [|split].
  - unfold Mc. rewrite E3, E4. destruct A as [N R]. split; [rewrite E6; exact N|eapply ct_transfer; [symmetry; exact E|exact R]].
  - intros c' Ec' Oc'. rewrite E2 in Ec'. destruct (getAt_transfer _ _ _ _ E Ec') as (c & Ec & Ee).
    rewrite E4. eapply ct_transfer; [exact Ee|]. apply B; [exact Ec|]. rewrite <- (bend_transfer _ _ Ee). exact Oc'.
  - rewrite K. intros Ea c' Ec'. rewrite E2 in Ec'. destruct (getAt_transfer _ _ _ _ E Ec') as (c & Ec & Ee).
    rewrite E4, (bkind_transfer _ _ Ee). destruct (C Ea c Ec) as [S|Wd]; [left; eapply ct_transfer; eassumption|right; exact Wd].
Qed.

Lemma addLineText_okX p : ApreX p -> WX (addLineText p).
Proof.
  intros HA. unfold addLineText. cbv zeta.
  set (p1 := if isRestBlank p then _ else p).
  assert (H1 : ApreX p1 /\ containerKind p1 = containerKind p).
  { unfold p1. destruct (isRestBlank p); [|tauto]. change (updCont p _) with (updCont p fblast).
    apply ApreX_transfer; try reflexivity.
    - cbn [root updCont withRoot setLP]. apply erase_updAt, erase_fblast.
    - apply ccP_updCont; [apply HA|]. intros b _ Hb. unfold fblast. destruct (lastBlock b) as [c|] eqn:El; [|tauto]. split; [|apply bkind_set_lastBlocks].
      eapply cc_set_lastBlocks; [exact Hb|exact El|]. constructor; [|constructor].
      rewrite cc_set_blast, bkind_set_blast. split; [eapply cc_lastBlock; eassumption|apply compat_refl].
    - exact HA. }
  destruct H1 as [H1 K1].
  set (llb := isRestBlank p && _).
  set (p2 := withRoot p1 (setLastBlankUpTo (cdepth p1) llb (root p1))).
  assert (H2 : ApreX p2 /\ containerKind p2 = containerKind p1).
  { apply ApreX_transfer; try reflexivity.
    - cbn [root withRoot setLP]. apply erase_setLastBlankUpTo.
    - destruct H1 as [((_ & _ & _ & (A & B & C)) & _) _]. unfold p2, ccP, wf, cdepth. cbn [root container withRoot setLP]. fold (cdepth p1).
      destruct (cc_setLastBlankUpTo llb (cdepth p1) (root p1) (cdepth p1) B C) as (A' & B' & C').
      split; [rewrite B'; exact A|split; [exact A'|exact C']].
    - exact H1. }
  destruct H2 as [[(HB2 & C12 & L2) (HE2 & C12e & L2e)] K2].
  assert (HX2 : BX p2) by (split; assumption).
  change (bkind (contBlock p1)) with (containerKind p1).
  destruct (acceptsLines (containerKind p1)) eqn:Ea.
  - apply WX_go.
    destruct ((li p2 <? len (line p2)) && (at_ (line p2) (li p2) =? 9) && (0 <? tabRem p2) && (tabRem p2 <? 4)) eqn:Et; [|exact HX2].
    apply andb_true_iff in Et. destruct Et as [Et _]. apply andb_true_iff in Et. destruct Et as [Et T3]. apply andb_true_iff in Et. destruct Et as [T1 T2].
    apply Z.ltb_lt in T1. apply Z.eqb_eq in T2. apply Z.ltb_lt in T3.
    set (q1 := updCont p2 _).
    assert (Hq1 : BPX (Mc p2 + 1) q1).
    { apply (BPX_add_entry (Mc p2) (Mc p2 + 1)); [exact HX2| | | | |]; unfold Mc; cbn [istart iend]; try lia;
        [apply leI_ind; lia|apply geI_ind; lia]. }
    pose proof (consumeIndent_tab q1 ltac:(apply Hq1) T1 T2 T3) as Hli.
    change (BPX (Mc (consumeIndent q1 (tabRem p2))) (consumeIndent q1 (tabRem p2))).
    eapply BPX_cstep; [apply cstep_consumeIndent|exact Hq1|].
    destruct (cstep_Mc q1 _ (cstep_consumeIndent q1 (tabRem p2)) ltac:(apply Hq1)) as (_ & _ & E4 & _).
    unfold Mc. rewrite E4. change (tabRem q1) with (tabRem p2) in Hli. change (lineStart q1) with (lineStart p2). change (li q1) with (li p2) in Hli. lia.
  - destruct (negb (isRestBlank p)); [|apply BX_WX; exact HX2].
    apply WX_go. eapply BX_cstep; [apply cstep_consumeIndent|].
    apply OPX_openBlock_ns; [split; [exact HX2|split; assumption]|discriminate|].
    apply LIX_pre; [apply HB2| |discriminate]. rewrite K2 in L2, L2e. split; [apply L2|apply L2e]; exact Ea.
Qed.

(* ---- one line ---- *)
Lemma root_kidsX M r : ct M r -> allP (ct M) (bkids r).
Proof.
  intros H. pose proof (ct_bounds M r H) as [Hb _]. rewrite ct_eq in H. destruct H as (_ & _ & _ & _ & E).
  eapply allP_ct_mono; [|exact E]. apply bnd_le, Hb.
Qed.

Theorem ct_processLine H ns st children ls src : ~ In 91 src -> 0 <= H -> 0 <= ls -> ls + len (from_ src ls) = H -> len src <= H ->
  (ns = true -> hasByteSuffixEOL (from_ src ls) = true) -> bndL H ns children = true ->
  ccF children = true -> kidsOK ls children -> allP (ct ls) children ->
  allP (ct H) (fst (fst (processLine st children ls src))).
Proof.
  intros N91 H0 Hls Hhi Hsrc Hns Hbnd Hcc [Ha Hch] Hct. unfold processLine. cbv zeta.
  set (p0 := resetLP st children ls src).
  assert (Hlen : 0 <= len (from_ src ls)) by (unfold len; lia).
  assert (Hp0 : bndP H ns p0).
  { unfold bndP, p0, resetLP. cbn [root lineStart li line source].
    refine (conj _ (conj Hls (conj (conj (Z.le_refl 0) Hlen) (conj Hhi (conj Hsrc Hns))))).
    cbn [L2Bnd.bnd forallb]. change (-1 <? 0) with true. change (documentKind =? LinkReferenceDefinitionKind) with false. cbn [orb andb]. exact Hbnd. }
  assert (Hroot : sp ls (root p0)).
  { cbn [p0 resetLP root sp]. repeat split; try lia; try discriminate; assumption. }
  assert (HB0 : BP p0).
  { split; [split; [exact Hls|cbn [p0 resetLP li line]; lia]|]. split; [unfold Mc; cbn [p0 resetLP li lineStart]; replace (ls + 0) with ls by lia; exact Hroot|]. split.
    - intros j x Hj Ex. change (cdepth p0) with O in Hj. replace j with O in Ex by lia. cbn in Ex. inversion Ex; subst x. cbn. lia.
    - unfold ccP, wf, cdepth. cbn [p0 resetLP root container]. split; [reflexivity|split; [exact Hcc|eexists; reflexivity]]. }
  assert (Hroote : ct ls (root p0)).
  { cbn [p0 resetLP root ct]. change (EolCRLFSimCtDef.bnd ls (-1)) with ls. repeat split; try lia; try reflexivity. exact Hct. }
  assert (HX0 : BX p0).
  { split; [exact HB0|]. split; [exact N91|]. unfold Mc. cbn [p0 resetLP li lineStart]. replace (ls + 0) with ls by lia. exact Hroote. }
  pose proof (bndP_descend_loop H H0 ns (bheight (root p0)) _ O Hp0) as B1.
  pose proof (descend_okX (bheight (root p0)) p0 O HX0 (conj Hroot Hroote) eq_refl) as D1.
  fold (descendOpenBlocks p0) in B1, D1. destruct (descendOpenBlocks p0) as [am p1]. cbn [snd] in B1, D1.
  assert (B2 : bndP H ns (snd (if negb (state p1 =? stDescendTerminated) then openNewBlocks p1 am else (false, p1)))).
  { destruct (negb _); [apply bndP_openNewBlocks; assumption|assumption]. }
  assert (Hfin : WX (let '(hasText, q) := if negb (state p1 =? stDescendTerminated) then openNewBlocks p1 am else (false, p1) in
                    if hasText then addLineText q else q)).
  { destruct D1 as [[Et Hw]|[HB1 Hc1]].
    - rewrite Et. cbn [negb Z.eqb Pos.eqb]. exact Hw.
    - destruct (negb (state p1 =? stDescendTerminated)); [|apply BX_WX; exact HB1].
      destruct (openNewBlocks_okX p1 am HB1 Hc1) as [Hw Hx]. destruct (openNewBlocks p1 am) as [ht p2]. cbn [fst snd] in *.
      destruct ht; [apply addLineText_okX, Hx; reflexivity|exact Hw]. }
  destruct (if negb (state p1 =? stDescendTerminated) then openNewBlocks p1 am else (false, p1)) as [ht p2]. cbn [snd] in B2. cbn [fst].
  assert (B3 : bndP H ns (if ht then addLineText p2 else p2)) by (destruct ht; [apply bndP_addLineText|]; assumption).
  destruct B3 as (_ & _ & _ & E & _). destruct Hfin as [_ [_ Hw]]. rewrite E in Hw. apply root_kidsX, Hw.
Qed.
Print Assumptions ct_processLine.
