From Coq Require Import List ZArith Lia Bool.
Import ListNotations.
Require Import Base Tree Rdr Link Collect Html Recog LP Rules Starts Driver Rec16 Rec17 Rec18 L2Kind LADef EntBase
  EolInv EolCRDefs EolCRBytes EolCRLFDefs EolCRLFSimBytes EolCRLFSimTree EolCRLFSimLP.
Open Scope Z_scope.

(* C14 (ii), CRLF clause, inputs WITH '[': what is assumed about onCloseParagraph (the link-reference-definition parser),
   packaged as a record so that the line-level simulation can be developed independently of its proof. *)
Definition LIM (R : bytes) : Prop := 2 * len (crlf R) + 9 < 999.
Definition orphanShape (R : bytes) (b y : block) : Prop :=
  bkind b = SetextHeadingKind /\ bkind y = ParagraphKind /\ bend y < 0 /\ bkids y = [] /\
  exists a, bik y = [mkI UnparsedKind a (bend b)] /\ 0 <= a <= len R.
Record OcpHyp : Type := {
  PEc : bytes -> list inline -> Prop;
  PEc_nil : forall R, PEc R [];
  PEc_orphan : forall R a e, 0 <= a <= e -> e <= len R -> PEc R [mkI UnparsedKind a e];
  PEc_lines : forall R M ik, EntBase.lines R M ik -> M <= len R -> PEc R ik;
  H_ocp2 : forall R b, ~ In 13 R -> LIM R -> isParaK (bkind b) = true -> PEc R (bik b) -> nnB b = true ->
             onCloseParagraph (crlf R) (phiB R b) = map (phiB R) (onCloseParagraph R b);
  H_nn : forall R b, isParaK (bkind b) = true -> PEc R (bik b) -> nnB b = true -> forallb nnB (onCloseParagraph R b) = true;
  H_out : forall R b y, isParaK (bkind b) = true -> PEc R (bik b) -> 0 <= bend b -> In y (onCloseParagraph R b) ->
             (bkids y = bkids b \/ bkids y = []) /\ ((0 <= bend y /\ (isParaK (bkind y) = true -> PEc R (bik y))) \/ orphanShape R b y)
}.

Section Pe.
  Variable O : OcpHyp.
  Variable R : bytes.
  (* every open paragraph-kind block has entries acceptable to the definition parser; sp = true: no open setext heading *)
  Definition peL (sp : bool) (b : block) : Prop :=
    (bend b < 0 -> sp = true -> bkind b <> SetextHeadingKind) /\ (isParaK (bkind b) = true -> PEc O R (bik b)).
  Fixpoint peB (sp : bool) (b : block) : Prop :=
    match b with Blk K s e bk ik a n c l lb => peL sp (Blk K s e bk ik a n c l lb) /\ allQ (peB sp) bk end.
  Lemma peB_eq sp b : peB sp b = (peL sp b /\ allQ (peB sp) (bkids b)). Proof. destruct b; reflexivity. Qed.
  Lemma peB_weak b : peB true b -> peB false b.
  Proof.
    revert b. fix IH 1. intros [K s e bk ik a n c l lb] [H1 H2]. split.
    - destruct H1 as [_ B]. split; [intros _ X; discriminate X|exact B].
    - clear H1. induction bk as [|x r IHr]; [exact I|]. destruct H2 as [A B]. split; [apply IH, A|apply IHr, B].
  Qed.
  Lemma allQ_In {A} (P : A -> Prop) l x : allQ P l -> In x l -> P x.
  Proof. induction l as [|y l IH]; intros H []; [subst; apply H|apply IH; [apply H|assumption]]. Qed.
  Lemma allQ_intro {A} (P : A -> Prop) l : (forall x, In x l -> P x) -> allQ P l.
  Proof. induction l as [|y l IH]; intros H; [exact I|]. split; [apply H; left; reflexivity|apply IH; intros x Hx; apply H; right; exact Hx]. Qed.
  Lemma allQ_app {A} (P : A -> Prop) a b : allQ P (a ++ b) <-> allQ P a /\ allQ P b.
  Proof. induction a as [|x a IH]; cbn [app allQ]; [tauto|]. rewrite IH. tauto. Qed.
  Lemma peB_lastBlock sp b c : peB sp b -> lastBlock b = Some c -> peB sp c.
  Proof. intros H El. rewrite peB_eq in H. destruct H as [_ H]. eapply allQ_In; [exact H|]. eapply lastBlock_In; exact El. Qed.
  Lemma peB_closed sp b : 0 <= bend b -> (isParaK (bkind b) = true -> PEc O R (bik b)) -> allQ (peB sp) (bkids b) -> peB sp b.
  Proof. intros He Hp Hk. rewrite peB_eq. split; [split; [intros Hn; lia|exact Hp]|exact Hk]. Qed.
  Lemma peB_set_lastBlocks sp b l : peB sp b -> allQ (peB sp) l -> peB sp (set_lastBlocks b l).
  Proof.
    intros H Hl. rewrite peB_eq in *. destruct H as [H1 H2]. unfold set_lastBlocks. split.
    - destruct b; exact H1.
    - replace (bkids (set_bkids b (removelast (bkids b) ++ l))) with (removelast (bkids b) ++ l) by (destruct b; reflexivity).
      apply allQ_app. split; [|exact Hl]. apply allQ_intro. intros x Hx. eapply allQ_In; [exact H2|]. apply removelast_In, Hx.
  Qed.
  Lemma peB_updAt_at sp f : forall d r, peB sp r -> (forall x, getAt d r = Some x -> peB sp x -> peB sp (f x)) -> peB sp (updAt d f r).
  Proof.
    induction d as [|d IH]; intros r H Hf; [apply Hf; [reflexivity|exact H]|]. cbn [updAt].
    destruct (lastBlock r) as [c|] eqn:El; [|exact H]. apply peB_set_lastBlocks; [exact H|]. split; [|exact I].
    apply IH; [eapply peB_lastBlock; eassumption|]. intros x Hx. apply Hf. cbn [getAt]. rewrite El. exact Hx.
  Qed.
  Lemma peB_set_bend sp b e : 0 <= e -> peB sp b -> peB sp (set_bend b e).
  Proof. intros He H. destruct b as [K s e0 bk ik a n c l lb]. destruct H as [[_ H1] H2]. split; [split; [intros Hn; cbn [bend] in Hn; lia|exact H1]|exact H2]. Qed.
  Lemma peB_onCloseList sp b : 0 <= bend b -> peB sp b -> peB sp (onCloseList b).
  Proof.
    intros He H. unfold onCloseList. cbv zeta. destruct (_ || _); [|exact H]. rewrite peB_eq in H. destruct H as [[_ H1] H2].
    apply peB_closed; [destruct b; exact He|destruct b; exact H1|].
    match goal with |- context [bkids (set_bkids _ ?l)] => replace (bkids (set_bkids (set_bloose b true) l)) with l by (destruct b; reflexivity) end.
    apply allQ_intro. intros x Hx. apply in_map_iff in Hx. destruct Hx as (y & <- & Hy). pose proof (allQ_In _ _ _ H2 Hy) as Hpy. destruct y; exact Hpy.
  Qed.
  Lemma peB_onCloseIndented sp src b : 0 <= bend b -> isParaK (bkind b) = false -> peB sp b -> peB sp (onCloseIndented src b).
  Proof.
    intros He Hk H. rewrite peB_eq in H. destruct H as [_ H2]. apply peB_closed; [unfold onCloseIndented; destruct b; exact He| |].
    { replace (bkind (onCloseIndented src b)) with (bkind b) by (unfold onCloseIndented; destruct b; reflexivity). rewrite Hk. discriminate. }
    replace (bkids (onCloseIndented src b)) with (bkids b) by (unfold onCloseIndented; destruct b; reflexivity). exact H2.
  Qed.

  (* closing: single run (R is the source) *)
  Lemma peB_closeBlock e : 0 <= e -> forall fuel b, peB true b -> allQ (peB true) (closeBlock fuel R b e).
  Proof.
    intros He. induction fuel as [|f IH]; intros b H; [split; [exact H|exact I]|]. cbn [closeBlock].
    destruct (negb (isOpen b)) eqn:Eo; [split; [exact H|exact I]|]. cbv zeta.
    apply negb_false_iff in Eo. unfold isOpen in Eo. apply Z.ltb_lt in Eo.
    pose proof (peB_set_bend true b e He H) as H1.
    assert (Hb1 : 0 <= bend (set_bend b e)) by (destruct b; exact He).
    assert (Hcl : forall x, peB true x -> peB true (match lastBlock x with Some c => set_lastBlocks x (closeBlock f R c e) | None => x end)).
    { intros x Hx. destruct (lastBlock x) as [c|] eqn:El; [|exact Hx]. apply peB_set_lastBlocks; [exact Hx|]. apply IH. eapply peB_lastBlock; eassumption. }
    destruct (_ =? ListKind); [split; [apply Hcl, peB_onCloseList; assumption|exact I]|].
    destruct (Z.eqb_spec (bkind (set_bend b e)) IndentedCodeBlockKind) as [EI|NI];
      [split; [apply Hcl, peB_onCloseIndented; [assumption|rewrite EI; reflexivity|assumption]|exact I]|].
    destruct (_ || _) eqn:Ek; [|split; [apply Hcl, H1|exact I]].
    (* a paragraph: kind Paragraph (no open setext heading), every output is closed *)
    rewrite peB_eq in H. destruct H as [[HLo Hpe] HK]. pose proof (HLo Eo eq_refl) as Hns.
    assert (Kb : bkind (set_bend b e) = bkind b) by (destruct b; reflexivity). rewrite Kb in Ek.
    assert (Hpk : isParaK (bkind b) = true) by exact Ek.
    assert (Hik : bik (set_bend b e) = bik b) by (destruct b; reflexivity).
    assert (Hkk : bkids (set_bend b e) = bkids b) by (destruct b; reflexivity).
    apply allQ_intro. intros y Hy.
    destruct (H_out O R (set_bend b e) y ltac:(rewrite Kb; exact Hpk) ltac:(rewrite Hik; apply Hpe, Hpk) Hb1 Hy) as [Hky [Hcy|Ho]].
    - destruct Hcy as [Hcy Hpy]. apply peB_closed; [exact Hcy|exact Hpy|]. destruct Hky as [-> | ->]; [rewrite Hkk; exact HK|exact I].
    - exfalso. destruct Ho as (Ks & _). rewrite Kb in Ks. exact (Hns Ks).
  Qed.

  (* closing the setext heading itself (startSetext): the closing position is the end of the source *)
  Lemma peB_closeSetext f b : bend b < 0 -> bkind b = SetextHeadingKind -> PEc O R (bik b) -> allQ (peB true) (bkids b) -> 0 <= len R ->
    allQ (peB true) (closeBlock (S f) R b (len R)).
  Proof.
    intros Eo Ek Hpe HK He. cbn [closeBlock]. replace (negb (isOpen b)) with false by (symmetry; apply negb_false_iff; unfold isOpen; apply Z.ltb_lt; exact Eo). cbv zeta.
    assert (Kb : bkind (set_bend b (len R)) = bkind b) by (destruct b; reflexivity). rewrite Kb, Ek.
    change (SetextHeadingKind =? ListKind) with false. change (SetextHeadingKind =? IndentedCodeBlockKind) with false.
    change ((SetextHeadingKind =? ParagraphKind) || (SetextHeadingKind =? SetextHeadingKind)) with true. cbv iota.
    assert (Hik : bik (set_bend b (len R)) = bik b) by (destruct b; reflexivity).
    assert (Hkk : bkids (set_bend b (len R)) = bkids b) by (destruct b; reflexivity).
    assert (Hbe : bend (set_bend b (len R)) = len R) by (destruct b; reflexivity).
    apply allQ_intro. intros y Hy.
    destruct (H_out O R (set_bend b (len R)) y ltac:(rewrite Kb, Ek; reflexivity) ltac:(rewrite Hik; exact Hpe) ltac:(rewrite Hbe; exact He) Hy) as [Hky [Hcy|Ho]].
    - destruct Hcy as [Hcy Hpy]. apply peB_closed; [exact Hcy|exact Hpy|]. destruct Hky as [-> | ->]; [rewrite Hkk; exact HK|exact I].
    - destruct Ho as (_ & Ky & Ey & Kk & a & Ei & Ha). rewrite Hbe in Ei. rewrite peB_eq. split; [|rewrite Kk; exact I].
      split; [intros _ _; rewrite Ky; discriminate|]. intros _. rewrite Ei. apply PEc_orphan; lia.
  Qed.

  (* closing: the two runs *)
  Hypothesis R13 : ~ In 13 R.
  Hypothesis RL : LIM R.
  Lemma closeBlock_Mg e : forall fuel b, nnB b = true -> peB false b ->
    closeBlock fuel (crlf R) (phiB R b) (phiP R e) = map (phiB R) (closeBlock fuel R b e) /\ forallb nnB (closeBlock fuel R b e) = true.
  Proof.
    induction fuel as [|f IH]; intros b Hn Hp; [split; [reflexivity|cbn; rewrite Hn; reflexivity]|]. cbn [closeBlock]. rewrite isOpen_M.
    destruct (negb (isOpen b)) eqn:Eo; [split; [reflexivity|cbn; rewrite Hn; reflexivity]|]. cbv zeta.
    apply negb_false_iff in Eo. unfold isOpen in Eo. apply Z.ltb_lt in Eo.
    rewrite <- M_set_bend, !bkind_M.
    assert (H1 : nnB (set_bend b e) = true) by (destruct b; exact Hn).
    pose proof Hn as Hn0. rewrite nnB_eq in Hn. apply andb_true_iff in Hn. destruct Hn as [Hn1 Hn2].
    pose proof Hp as Hp0. rewrite peB_eq in Hp. destruct Hp as [HL HK].
    assert (Hcl : forall x, nnB x = true -> allQ (peB false) (bkids x) ->
              match lastBlock (phiB R x) with Some c => set_lastBlocks (phiB R x) (closeBlock f (crlf R) c (phiP R e)) | None => phiB R x end =
              phiB R (match lastBlock x with Some c => set_lastBlocks x (closeBlock f R c e) | None => x end) /\
              nnB (match lastBlock x with Some c => set_lastBlocks x (closeBlock f R c e) | None => x end) = true).
    { intros x Hx Hkx. rewrite lastBlock_M. destruct (lastBlock x) as [c|] eqn:El; cbn [option_map]; [|split; [reflexivity|exact Hx]].
      destruct (IH c (nnB_lastBlock x c Hx El) (allQ_In _ _ _ Hkx (lastBlock_In _ _ El))) as [A B].
      rewrite M_set_lastBlocks, A. split; [reflexivity|apply nnB_set_lastBlocks; assumption]. }
    assert (Hk : bkids (set_bend b e) = bkids b) by (destruct b; reflexivity).
    assert (Hi : bik (set_bend b e) = bik b) by (destruct b; reflexivity).
    assert (Kb : bkind (set_bend b e) = bkind b) by (destruct b; reflexivity).
    destruct (bkind (set_bend b e) =? ListKind).
    { cbn [map forallb]. rewrite onCloseList_M.
      assert (Hq : allQ (peB false) (bkids (onCloseList (set_bend b e)))).
      { unfold onCloseList. cbv zeta. destruct (_ || _); [|rewrite Hk; exact HK].
        match goal with |- context [bkids (set_bkids _ ?l)] => replace (bkids (set_bkids (set_bloose (set_bend b e) true) l)) with l by (destruct b; reflexivity) end.
        rewrite Hk. apply allQ_intro. intros x Hx. apply in_map_iff in Hx. destruct Hx as (y & <- & Hy). pose proof (allQ_In _ _ _ HK Hy) as Hpy. destruct y; exact Hpy. }
      destruct (Hcl _ (nnB_onCloseList _ H1) Hq) as [A B]. rewrite A, B. split; reflexivity. }
    destruct (bkind (set_bend b e) =? IndentedCodeBlockKind).
    { cbn [map forallb]. rewrite onCloseIndented_M by (rewrite Hi; exact Hn1).
      assert (Hq : allQ (peB false) (bkids (onCloseIndented R (set_bend b e)))).
      { replace (bkids (onCloseIndented R (set_bend b e))) with (bkids b) by (unfold onCloseIndented; destruct b; reflexivity). exact HK. }
      destruct (Hcl _ (nnB_onCloseIndented R _ H1) Hq) as [A B]. rewrite A, B. split; reflexivity. }
    destruct (_ || _) eqn:Ek.
    { rewrite Kb in Ek. destruct HL as [_ Hpe].
      split; [apply (H_ocp2 O R (set_bend b e) R13 RL); [rewrite Kb; exact Ek|rewrite Hi; apply Hpe, Ek|exact H1]|
              apply (H_nn O R (set_bend b e)); [rewrite Kb; exact Ek|rewrite Hi; apply Hpe, Ek|exact H1]]. }
    cbn [map forallb]. destruct (Hcl _ H1 ltac:(rewrite Hk; exact HK)) as [A B]. rewrite A, B. split; reflexivity.
  Qed.
End Pe.
