(* QInlStepRefute.v -- T64 (asm): the gap hypothesis QInlStep6.GapNoParen is NEEDED.  In the abstract setting (SGood, GapSp and all the
   other facts of QInlCoreDef.LeafHyps, listed here field by field so that this file does not depend on the record) the core
   equation is false when the first gap byte behind the last line feed is ')':
     sD = "[a](b 'c" + LF,   sQ = " " + sD + ")",   sg x = x + 1 (x <= 8), x + 2 (x > 8),   one entry [0, 9).
   The plain side finds no link (unterminated title, end of the source); the quoted reader, exhausted behind the line feed, reads
   the ')' of the gap and closes an inline link. *)
From Coq Require Import List ZArith Lia Bool.
Import ListNotations.
Require Import Base Tree Rdr Inl3a Inl3e ShapesR ShapesComp3 InlineShapes SpanHypDef QCutsDef QIRdrBase QInlDefs QInlBytesEmph QInlHtml.
Require Import QInlStep6.
Open Scope Z_scope.

Module W.
  Definition sD : bytes := [91; 97; 93; 40; 98; 32; 39; 99; 10].
  Definition sQ : bytes := 32 :: sD ++ [41].
  Definition sg (x : Z) : Z := if x <=? 8 then x + 1 else x + 2.
  Definition u : inline := mkI UnparsedKind 0 9.
  Definition b : block := Blk ParagraphKind 0 9 [] [u] 0 0 0 false false.
  Definition c : block := Blk ParagraphKind 1 10 [] [mvS sg u] 0 0 0 false false.
  Lemma nine x : 0 <= x < len sD -> x = 0 \/ x = 1 \/ x = 2 \/ x = 3 \/ x = 4 \/ x = 5 \/ x = 6 \/ x = 7 \/ x = 8.
  Proof. change (len sD) with 9. lia. Qed.
  Lemma good : SGood sD sQ sg.
  Proof.
    constructor.
    - intros x y Hx Hxy. unfold sg. destruct (Z.leb_spec x 8); destruct (Z.leb_spec y 8); lia.
    - intros x Hx. unfold sg. destruct (Z.leb_spec x 8); lia.
    - intros x Hx. destruct (nine x Hx) as [->|[->|[->|[->|[->|[->|[->|[->| ->]]]]]]]]; reflexivity.
    - intros x Hx. change (len sD) with 9 in Hx. change (len sQ) with 11. unfold sg. destruct (Z.leb_spec x 8); lia.
    - intros x Hx N. destruct (nine x Hx) as [->|[->|[->|[->|[->|[->|[->|[->| ->]]]]]]]]; try reflexivity. exfalso. apply N. reflexivity.
    - intros x Hx E. destruct (nine x Hx) as [->|[->|[->|[->|[->|[->|[->|[->| ->]]]]]]]]; try discriminate E. vm_compute. reflexivity.
    - intros _ N. exfalso. apply N. reflexivity.
    - vm_compute. discriminate.
    - intros x Hx. destruct (nine x Hx) as [->|[->|[->|[->|[->|[->|[->|[->| ->]]]]]]]]; discriminate.
    - reflexivity.
  Qed.
  Lemma gap : GapSp sD sQ sg.
  Proof.
    intros x Hx [->|E]; [split; [reflexivity|reflexivity]|].
    destruct (nine x Hx) as [->|[->|[->|[->|[->|[->|[->|[->| ->]]]]]]]]; discriminate E.
  Qed.
  Lemma entries : Forall (gsp sD sg (bik b)) (bik b).
  Proof.
    constructor; [|constructor]. unfold gsp. cbn [bik b u mkI istart iend ikind]. change (len sD) with 9.
    split; [lia|]. split; [lia|]. split; [lia|]. split; [|split; [reflexivity|left; reflexivity]].
    intros x Hx. unfold sg. destruct (Z.leb_spec x 8); destruct (Z.leb_spec 0 8); lia.
  Qed.
  Lemma nogt : NoGtBehindLast sD (bik b).
  Proof.
    intros pre v E Hlt _. exfalso. cbn [bik b] in E. destruct pre as [|x pre]; [|destruct pre; discriminate E]. inversion E; subst v.
    cbn in Hlt. change (len sD) with 9 in Hlt. lia.
  Qed.
  Lemma not_gap : ~ GapNoParen sD sQ sg.
  Proof. intros H. apply (H 8); [change (len sD) with 9; lia|reflexivity|reflexivity]. Qed.
End W.

(* every field of LeafHyps holds for the witness, and the core equation fails *)
Theorem core_needs_gap_refuted :
  exists sD sQ sg b c m,
    SGood sD sQ sg /\ GapSp sD sQ sg /\ bik b <> [] /\ Forall (gsp sD sg (bik b)) (bik b) /\ bikOK' sD b = true /\ entriesOKX sD b = true /\
    0 <= bstart b /\ 0 < bend b <= len sD /\ NoGtBehindLast sD (bik b) /\ Forall (fun u => ikids u = []) (bik b) /\
    bik c = map (mvS sg) (bik b) /\ bend c = sg (bend b - 1) + 1 /\
    parseInlines sQ m c <> flat_map (qI3 sD sg) (parseInlines sD m b).
Proof.
  exists W.sD, W.sQ, W.sg, W.b, W.c, [].
  split; [exact W.good|]. split; [exact W.gap|]. split; [discriminate|]. split; [exact W.entries|].
  split; [vm_compute; reflexivity|]. split; [vm_compute; reflexivity|]. split; [cbn; lia|]. split; [cbn; change (len W.sD) with 9; lia|].
  split; [exact W.nogt|]. split; [repeat constructor|]. split; [reflexivity|]. split; [reflexivity|].
  vm_compute. discriminate.
Qed.
Print Assumptions core_needs_gap_refuted.
