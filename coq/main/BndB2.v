From Coq Require Import List ZArith Lia Bool.
Import ListNotations.
Require Import Base Tree Rdr Link Collect Html Recog LP Rules Starts Driver L2Kind L2CC BSDef BSRdr BSTree BSOcp BSOrph BSClose BSLine1 BSLine2 BSLine3 BSLine4
  GramTree GramLP GramLP2 Cursor CursorX NoPanic12 ShDef ShRdr ShClose ShEnv ShLine1 ShLine2 ShFresh ShStarts2.
Require Import Props ShapesBase EntBase EntOcpDefs EntOcp EntTree EntCur EntLP1 EntLP2 BndDefs BndBDefs BndB1.
Open Scope Z_scope.

(* ================================================================== *)
(* BndB2: the line machine, primitives.  The invariant of T28 (EP) is  *)
(* carried along (it provides the `lines` facts that closing a         *)
(* paragraph needs); on top of it: every span end of the tree is good  *)
(* (gB (gdb B)), and the cursor has only moved over ASCII bytes other  *)
(* than NUL (cleanA), so that the cursor position is good.             *)
(* ================================================================== *)

Section Prim.
  Variable B : bytes.
  Hypothesis HVB : asciiOK B.
  Hypothesis HV0 : boundary_ok B 0 = true.
  Hypothesis Hocp : OcpG B.
  Notation g := (gdb B).

  Definition XP (p : lp) : Prop := EP B p /\ gB g (root p) = true.
  Definition cleanA (p : lp) : Prop := forall i, 0 <= i < li p -> at_ (line p) i <> 0 /\ at_ (line p) i < 128.
  Definition Cg (p : lp) : Prop := g (lineStart p + li p) = true.

  (* ---- good positions of the line ---- *)
  Lemma g_ls p : envB B p -> g (lineStart p) = true.
  Proof.
    intros (_ & _ & A & _ & [E|[E|E]] & _).
    - rewrite E. apply gdb_neg; [lia|exact HV0].
    - apply gdb_prev; [exact HVB| |]; destruct E as [E|E]; rewrite E; lia.
    - apply gdb_end. lia.
  Qed.
  Lemma g_H p : envB B p -> g (lineStart p + len (line p)) = true.
  Proof.
    intros He. pose proof He as (_ & _ & _ & _ & _ & (_ & _ & _ & _ & [E|[E1 E2]])); [apply gdb_end; lia|].
    apply gdb_prev; [exact HVB| |]; destruct E2 as [E|E]; rewrite E; lia.
  Qed.
  Lemma g_after p i : envB B p -> 0 <= i < len (line p) -> at_ (line p) i <> 0 -> at_ (line p) i < 128 -> g (lineStart p + i + 1) = true.
  Proof.
    intros He Hi H0 H1. rewrite (line_at B p i He Hi) in H0, H1. apply gdb_prev; [exact HVB| |]; replace (lineStart p + i + 1 - 1) with (lineStart p + i) by lia; assumption.
  Qed.
  Lemma g_at p i : envB B p -> 0 <= i < len (line p) -> at_ (line p) i <> 0 -> at_ (line p) i < 128 -> g (lineStart p + i) = true.
  Proof. intros He Hi H0 H1. rewrite (line_at B p i He Hi) in H0, H1. apply gdb_cur; assumption. Qed.
  Lemma g_cur p : envB B p -> curP p -> cleanA p -> Cg p.
  Proof.
    intros He (C0 & C1) Hc. unfold Cg. destruct (Z.eq_dec (li p) 0) as [E|N]; [rewrite E; replace (lineStart p + 0) with (lineStart p) by lia; apply g_ls, He|].
    destruct (Hc (li p - 1) ltac:(lia)) as [H0 H1]. replace (lineStart p + li p) with (lineStart p + (li p - 1) + 1) by lia.
    apply g_after; [exact He|lia|exact H0|exact H1].
  Qed.
  Lemma bdy_cur p : envB B p -> curP p -> cleanA p -> bdy B (lineStart p + li p).
  Proof.
    intros He (C0 & C1) Hc. destruct (Z.eq_dec (li p) 0) as [E|N]; [rewrite E; replace (lineStart p + 0) with (lineStart p) by lia; apply bdy_ls, He|].
    destruct (Hc (li p - 1) ltac:(lia)) as [H0 H1]. right. right. rewrite (line_at B p (li p - 1) He ltac:(lia)) in H0.
    replace (lineStart p + li p - 1) with (lineStart p + (li p - 1)) by lia. exact H0.
  Qed.
  Lemma g_neg1 : g (-1) = true. Proof. apply gdb_neg'. lia. Qed.

  (* ---- cleanA ---- *)
  Lemma gapB_ascii c : gapB c -> c <> 0 /\ c < 128. Proof. unfold gapB. lia. Qed.
  Lemma cleanA_gstep p p' : gstep p p' -> cleanA p -> cleanA p'.
  Proof.
    intros [A Bq] H i Hi. rewrite (cstep_line p p' A). destruct (Z.lt_ge_cases i (li p)) as [L|L]; [apply H; lia|apply gapB_ascii, Bq; lia].
  Qed.
  Lemma cleanA_clean p : clean p -> cleanA p.
  Proof. intros H i Hi. apply gapB_ascii, H, Hi. Qed.
  Lemma cleanA_curS p p' : curS p p' -> cleanA p -> cleanA p'.
  Proof. intros (E1 & E2 & _) H i Hi. rewrite E2. apply H. rewrite <- E1. exact Hi. Qed.
  Lemma cleanA_ext p p' : li p' = li p -> line p' = line p -> cleanA p -> cleanA p'.
  Proof. intros E1 E2 H i Hi. rewrite E2. apply H. rewrite <- E1. exact Hi. Qed.
  (* a move over bytes that are ASCII and not NUL *)
  Lemma cleanA_move p p' : line p' = line p -> cleanA p -> (forall i, li p <= i < li p' -> at_ (line p) i <> 0 /\ at_ (line p) i < 128) -> cleanA p'.
  Proof. intros E H Hm i Hi. rewrite E. destruct (Z.lt_ge_cases i (li p)) as [L|L]; [apply H; lia|apply Hm; lia]. Qed.

  (* ---- same tree ---- *)
  Lemma X_cstep p p' : cstep p p' -> Itab p' -> XP p -> XP p'.
  Proof. intros Hc Hi [HE Hg]. split; [eapply EP_cstep; eassumption|rewrite (root_cstep p p' Hc); exact Hg]. Qed.
  Lemma X_advance p n : XP p -> XP (advance p n).
  Proof. intros H. apply (X_cstep p); [apply cstep_advance|apply Itab_advance, H|exact H]. Qed.
  Lemma X_consumeLine p : XP p -> XP (consumeLine p).
  Proof. intros H. apply (X_cstep p); [apply cstep_consumeLine|apply Itab_consumeLine, H|exact H]. Qed.
  Lemma X_consumeIndent p n : XP p -> XP (consumeIndent p n).
  Proof. intros H. apply (X_cstep p); [apply cstep_consumeIndent|apply Itab_consumeIndent, H|exact H]. Qed.
  Lemma X_opened p : XP p -> XP (if state p =? stOpening then withState p stOpenMatched else p).
  Proof. intros [HE Hg]. split; [apply EP_opened, HE|destruct (_ =? _); exact Hg]. Qed.
  Lemma X_withState p s : XP p -> XP (withState p s).
  Proof. intros [HE Hg]. split; [apply EP_withState, HE|exact Hg]. Qed.
  Lemma X_withCont p d : XP p -> (exists x, getAt d (root p) = Some x) -> XP (withCont p (Some d)).
  Proof. intros [HE Hg] Hx. split; [apply EP_withCont; assumption|exact Hg]. Qed.
  Lemma X_panic p s : XP p -> XP (panic p s).
  Proof. intros [HE Hg]. split; [apply EP_panic, HE|exact Hg]. Qed.

  (* ---- closing the last child of the block at depth d ---- *)
  Lemma gB_closeAt p d e : envB B p -> en B (lineStart p) (root p) -> gB g (root p) = true ->
    lineStart p <= e <= lineStart p + len (line p) -> bdy B e -> g e = true ->
    gB g (updAt d (closeF p e) (root p)) = true.
  Proof.
    intros He Hen Hg Hb Hbd Hge. destruct (src_of B p He) as (S1 & S2 & S3).
    apply gB_updAt_at; [exact Hg|]. intros x Ex Hx. unfold closeF. destruct (lastBlock x) as [c|] eqn:El; [|exact Hx].
    apply gB_set_lastBlocks; [exact Hx|].
    apply (gB_closeBlock B Hocp (lineStart p) (lineStart p + len (line p)) (source p) e S1 S2 ltac:(lia) ltac:(lia) Hbd (bdy_H B p He) Hge (g_H p He)).
    - eapply en_lastBlock; [eapply en_getAt; eassumption|exact El].
    - eapply gB_lastBlock; eassumption.
  Qed.

  Lemma X_closeAt p d e d' : XP p -> (d' <= d)%nat -> (d <= cdepth p)%nat -> lineStart p <= e <= lineStart p + len (line p) -> bdy B e -> g e = true ->
    XP (withCont (closeLastChildAt p d e) (Some d')).
  Proof.
    intros [HE Hg] Hd' Hd He Hbd Hge. destruct (EP_closeAt B p d e d' HE Hd' Hd He Hbd) as [H1 _]. split; [exact H1|].
    change (root (withCont (closeLastChildAt p d e) (Some d'))) with (root (closeLastChildAt p d e)). rewrite root_closeAt.
    pose proof HE as (A & _ & _ & _ & A4). apply gB_closeAt; assumption.
  Qed.
  Lemma X_closeHere p e : XP p -> lineStart p <= e <= lineStart p + len (line p) -> bdy B e -> g e = true ->
    XP (closeLastChildAt p (cdepth p) e).
  Proof.
    intros [HE Hg] He Hbd Hge. destruct (EP_closeHere B p e HE He Hbd) as [H1 _]. split; [exact H1|].
    rewrite root_closeAt. pose proof HE as (A & _ & _ & _ & A4). apply gB_closeAt; assumption.
  Qed.

  (* ---- openBlock ---- *)
  Lemma X_openBlock_up : forall fuel p kind, XP p -> XP (openBlock_up fuel p kind).
  Proof.
    induction fuel as [|f IH]; intros p kind HX; [exact HX|]. cbn [openBlock_up].
    destruct (canContain _ _); [exact HX|].
    destruct (cdepth p) as [|d] eqn:Ed; [apply X_panic, HX|].
    pose proof HX as [(A & A1 & _) _].
    apply IH. apply X_closeAt; [exact HX|lia|lia|pose proof (len_nonneg (line p)); lia|apply bdy_ls, A|apply g_ls, A].
  Qed.
  Lemma X_obPre p K : XP p -> XP (obPre p K).
  Proof.
    intros HX. unfold obPre. cbv zeta. pose proof (X_opened p HX) as H0.
    set (p0 := if state p =? stOpening then withState p stOpenMatched else p) in *.
    pose proof (X_openBlock_up (S (cdepth p0)) p0 K H0) as H1. set (p2 := openBlock_up (S (cdepth p0)) p0 K) in *.
    pose proof H1 as [(A & _) _].
    apply X_closeHere; [exact H1|pose proof (len_nonneg (line p2)); lia|apply bdy_ls, A|apply g_ls, A].
  Qed.
  (* the tree after openBlock, for every kind *)
  Lemma gB_openBlock p K : XP p -> st_open p -> Cg p -> gB g (root (openBlock p K)) = true.
  Proof.
    intros HX Hs Hc. destruct (X_obPre p K HX) as [_ Hq]. destruct (frs_openBlock p K Hs) as (F1 & _ & _). rewrite F1.
    apply gB_updAt; [|exact Hq]. intros b Hb. apply gB_append; [exact Hb|]. apply gB_newBlock; [exact Hc|apply g_neg1].
  Qed.
  Lemma X_openBlock p K : XP p -> st_open p -> Cg p -> K <> SetextHeadingKind -> K <> ParagraphKind -> K <> ATXHeadingKind ->
    (K <> ListItemKind \/ canContain (containerKind p) K = true) -> XP (openBlock p K).
  Proof.
    intros HX Hs Hc N1 N2 N3 Hk. split; [apply EP_openBlock; try assumption; apply HX|apply gB_openBlock; assumption].
  Qed.

  (* ---- endBlock ---- *)
  Lemma X_endBlock p : XP p -> bdy B (lineStart p + li p) -> Cg p -> XP (endBlock p).
  Proof.
    intros HX Hbd Hc. pose proof HX as [HE Hg]. split; [apply EP_endBlock; assumption|].
    unfold endBlock. destruct (_ || _); [exact Hg|]. cbv zeta.
    pose proof (X_opened p HX) as H0. set (p0 := if state p =? stOpening then withState p stOpenMatched else p) in *.
    destruct (cdepth p0) as [|d] eqn:Ed; [apply H0|].
    pose proof H0 as [(_ & (C0 & C1) & _) _].
    assert (E0 : lineStart p0 = lineStart p /\ li p0 = li p) by (unfold p0; destruct (state p =? stOpening); split; reflexivity). destruct E0 as [E1 E2].
    apply (X_closeAt p0 d (lineStart p0 + li p0) d H0); [lia|lia|lia|rewrite E1, E2; exact Hbd|rewrite E1, E2; exact Hc].
  Qed.

  (* ---- updates of the container ---- *)
  Lemma gB_updCont p f : gB g (root p) = true -> (forall b, gB g b = true -> gB g (f b) = true) -> gB g (root (updCont p f)) = true.
  Proof. intros Hg Hf. rewrite root_updCont. apply gB_updAt; assumption. Qed.
  Lemma X_set_bn p v : XP p -> XP (updCont p (fun b => set_bn b v)).
  Proof. intros [HE Hg]. split; [apply EP_set_bn, HE|apply gB_updCont; [exact Hg|intros b Hb; rewrite gB_set_bn; exact Hb]]. Qed.
  Lemma X_set_bchar p v : XP p -> XP (updCont p (fun b => set_bchar b v)).
  Proof. intros [HE Hg]. split; [apply EP_set_bchar, HE|apply gB_updCont; [exact Hg|intros b Hb; rewrite gB_set_bchar; exact Hb]]. Qed.
  Lemma X_set_bindent p v : XP p -> XP (updCont p (fun b => set_bindent b v)).
  Proof. intros [HE Hg]. split; [apply EP_set_bindent, HE|apply gB_updCont; [exact Hg|intros b Hb; rewrite gB_set_bindent; exact Hb]]. Qed.
  Lemma X_set_fence p fc fnn : XP p -> XP (updCont p (fun b => set_bn (set_bchar b fc) fnn)).
  Proof. intros [HE Hg]. split; [apply EP_set_fence, HE|apply gB_updCont; [exact Hg|intros b Hb; rewrite gB_set_bn, gB_set_bchar; exact Hb]]. Qed.
End Prim.
