From Coq Require Import List ZArith Lia Bool.
Import ListNotations.
Require Import Base Tables Utf8 Tree Rdr Link Collect Html Recog Inl3a Inl3b Inl3c Inl3d Inl3e Render Safe Leaf3a Leaf3b Leaf3c Leaf3d Leaf3e.
Open Scope Z_scope.

Section L3.
  Variable src : bytes.
  Variable U : list inline.
  Hypothesis HU : Forall (fun u => gok 1 src (ofInline u) = true) U.

  Definition InvS (st : ist) : Prop :=
    isrc st = src /\ unp st = U /\ 1 <= nid st /\ gokF (nid st) src (rk st) = true.

  Lemma InvS_Inv3 st : InvS st -> Inv3 st.
  Proof. intros (E1 & _ & Hn & Hg). split; [assumption|]. rewrite E1. assumption. Qed.
  Lemma Inv3_InvS st st0 : InvS st0 -> isrc st = isrc st0 -> unp st = unp st0 -> Inv3 st -> InvS st.
  Proof. intros (E1 & E2 & _) H1 H2 (Hn & Hg). repeat split; congruence. Qed.

  Lemma S_addNode st k s e kids : InvS st -> localok src k s e = true ->
    (skipKind k = true \/ gokF (nid st + 1) src kids = true) -> InvS (fst (addNode st k s e kids)).
  Proof.
    intros H Hl Hk. apply (Inv3_InvS _ st H).
    - unfold addNode. destruct (spanLen s e =? 0); reflexivity.
    - unfold addNode. destruct (spanLen s e =? 0); reflexivity.
    - pose proof (InvS_Inv3 _ H) as H3. destruct H as (E1 & _). apply addNode_inv; [exact H3|rewrite E1; assumption|rewrite E1; assumption].
  Qed.
  Lemma S_addText st s e : InvS st -> InvS (addText st s e).
  Proof. intros H. unfold addText. apply S_addNode; [assumption|reflexivity|right; reflexivity]. Qed.
  Lemma S_set st : InvS st -> (forall v, InvS (setStk st v)) /\ (forall v, InvS (setUpos st v)) /\ (forall v, InvS (setIgn st v)).
  Proof. intros H. repeat split; intros; exact H || apply H. Qed.
  Lemma S_setStk st v : InvS st -> InvS (setStk st v). Proof. intros H; exact H. Qed.
  Lemma S_setUpos st v : InvS st -> InvS (setUpos st v). Proof. intros H; exact H. Qed.
  Lemma S_setIgn st v : InvS st -> InvS (setIgn st v). Proof. intros H; exact H. Qed.
  Lemma S_advanceTo st p : InvS st -> InvS (advanceTo st p).
  Proof. intros H. unfold advanceTo. destruct (0 <=? _); apply S_setUpos; assumption. Qed.
  Lemma S_wrap st kind a b : InvS st -> trivKind kind = true -> skipKind kind = false -> InvS (fst (wrap st kind a b)).
  Proof.
    intros H Ht Hs. apply (Inv3_InvS _ st H); [reflexivity|reflexivity|]. apply wrap_inv; [apply InvS_Inv3; assumption|assumption|assumption].
  Qed.
  Lemma S_wrapUpd st kind a b g : InvS st -> trivKind kind = true -> skipKind kind = false ->
    (forall n, pid (g n) = pid n /\ pkind (g n) = pkind n /\ pkids (g n) = pkids n) ->
    InvS (updN (fst (wrap st kind a b)) (snd (wrap st kind a b)) g).
  Proof.
    intros H Ht Hs Hg. apply (Inv3_InvS _ st H); [reflexivity|reflexivity|].
    apply wrap_then_upd_inv; [apply InvS_Inv3; assumption|assumption|assumption|assumption].
  Qed.
  Lemma S_remove st id : InvS st -> InvS (removeNode st id).
  Proof. intros H. apply (Inv3_InvS _ st H); [reflexivity|reflexivity|]. apply removeNode_inv, InvS_Inv3, H. Qed.
  Lemma S_updN st id g : InvS st -> (forall n, gok (nid st) src n = true -> gok (nid st) src (g n) = true) -> InvS (updN st id g).
  Proof.
    intros H Hg. apply (Inv3_InvS _ st H); [reflexivity|reflexivity|]. apply updN_inv; [apply InvS_Inv3, H|].
    destruct H as (E1 & _). rewrite E1. exact Hg.
  Qed.

  Lemma shrinkE_gok b k n : 0 <= k -> gok b src n = true -> gok b src (setSpan n (ps n) (pe n - k)) = true.
  Proof. intros Hk H. pose proof (shrink_gok b src 0 k n ltac:(lia) Hk H) as G. rewrite Z.add_0_r in G. exact G. Qed.
  Lemma shrinkS_gok b k n : 0 <= k -> gok b src n = true -> gok b src (setSpan n (ps n + k) (pe n)) = true.
  Proof. intros Hk H. pose proof (shrink_gok b src k 0 n Hk ltac:(lia) H) as G. rewrite Z.sub_0_r in G. exact G. Qed.
  Lemma appendKid_gok b n k : gok b src k = true -> gok b src n = true -> gok b src (setKids n (pkids n ++ [k])) = true.
  Proof.
    intros Hk H. destruct n as [i kd s e ind r ks]. cbn [setKids pkids gok] in *.
    apply andb_true_iff in H. destruct H as [H Hks]. rewrite H. cbn [andb].
    destruct (skipKind kd); [reflexivity|]. rewrite forallb_app, Hks. cbn. rewrite Hk. reflexivity.
  Qed.
  Lemma setRef_gok b n : forall r, gok b src n = true -> gok b src (setRef n r) = true.
  Proof. intros r. destruct n. cbn. tauto. Qed.

  (* ---- processEmphasis ---- *)
  Lemma S_pe_loop : forall fuel st ob cp, InvS st -> InvS (pe_loop fuel st ob cp).
  Proof.
    induction fuel as [|f IH]; intros st ob cp H; [assumption|]. cbn [pe_loop].
    destruct (_ <? 0); [assumption|].
    destruct (_ <=? _).
    - match goal with |- context [wrap ?A ?K ?X ?Y] =>
        assert (HA : InvS A);
        [| assert (HK : trivKind K = true /\ skipKind K = false);
           [| pose proof (S_wrap A K X Y HA (proj1 HK) (proj2 HK)) as HB; destruct (wrap A K X Y) as [stB wid]]] end.
      + apply S_updN; [apply S_updN; [assumption|] |]; intros n Hn;
          (apply shrinkE_gok || apply shrinkS_gok); try assumption; destruct (_ && _); lia.
      + destruct (_ && _); split; reflexivity.
      + cbn [fst] in HB.
        destruct (plen _ =? 0); destruct (plen _ =? 0); apply IH;
          repeat first [apply S_setStk | apply S_remove]; assumption.
    - destruct (negb _); apply IH; [apply S_setStk|]; assumption.
  Qed.
  Lemma S_processEmphasis st sb : InvS st -> InvS (processEmphasis st sb).
  Proof. intros H. unfold processEmphasis. apply S_setStk, S_pe_loop, H. Qed.

  Lemma S_finishLink st kind odi : InvS st -> InvS (finishLink st kind odi).
  Proof.
    intros H. unfold finishLink.
    destruct (kind =? LinkKind); repeat first [apply S_setStk | apply S_remove | apply S_processEmphasis]; assumption.
  Qed.
End L3.
