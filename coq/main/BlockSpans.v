From Coq Require Import List ZArith Lia Bool.
Import ListNotations.
Require Import Base Tables Utf8 Tree Rdr Link Collect Html Recog Inl3a Inl3b Inl3c Inl3d Inl3e LP Rules Starts Driver Leaf3e RdrBound
  L2Kind L2CC L2CCfull L2Bnd L2BndS Rec16 Rec17 Rec18
  BSDef BSRdr BSTree BSOcp BSOrph BSClose BSLine1 BSLine2 BSLine3 BSLine4 BSLine5 BSLine6 BSLine7 BSLine8 BSErase BSLine9 BSLine10 BSShift.
Open Scope Z_scope.

(* C02, block level: in every root block the block layer returns, every closed block has start <= end, every block child
   lies inside its parent, and consecutive block children are in order and do not overlap (checker BSDef.bspans). *)

Definition okRJ (r : rootB) : Prop := bspans (rb_blk r) = true /\ 0 <= bstart (rb_blk r).
Definition SJ (s : bpst) (ch : list block) (ns : bool) : Prop := SI s ch ns /\ ccF ch = true /\ kidsOK (bi s) ch.
Definition okJ (x : nb) : Prop :=
  match x with NBBlock r s' => okRJ r /\ exists ns, SJ s' (pending s') ns | _ => True end.

Lemma SJ_makeRoot s children ns r s' : SJ s children ns -> makeRoot children s = Some (r, s') ->
  okRJ r /\ SJ s' (pending s') ns.
Proof.
  intros (HS & Hcc & Ha & Hch) Hm.
  destruct (SI_makeRoot _ _ _ _ _ HS Hm) as [_ HS']. destruct (cc_makeRoot _ _ _ _ Hcc Hm) as [_ Hcc'].
  unfold makeRoot in Hm. destruct children as [|b rest]; [discriminate|].
  destruct (isOpen b) eqn:Eo; [discriminate|]. inversion Hm; subst. clear Hm.
  unfold isOpen in Eo. apply Z.ltb_ge in Eo. destruct Ha as [Sb Sr]. destruct Hch as (C1 & _ & C3).
  pose proof (sp_bounds _ _ Sb) as Hb.
  split; [split; [eapply sp_bspans; exact Sb|cbn [rb_blk]; lia]|]. split; [exact HS'|split; [exact Hcc'|]].
  cbn [pending bi]. assert (Hmax : bend b <= Z.max (bstart b) (bend b)) by lia.
  split.
  - apply allP_map. apply allP_intro. intros x Hx. apply sp_shift; [lia|eapply allP_In; eassumption|].
    pose proof (chain_starts _ _ _ x C3 Hx). lia.
  - pose proof (chain_shift (bend b) (-1) rest (Z.max (bstart b) (bend b)) ltac:(lia) ltac:(left; lia) C3) as Hc.
    eapply chain_lo; [|exact Hc]. lia.
Qed.

Lemma SJ_lineLoop : forall fuel st children ls s ns, 0 <= ls <= len (buf s) -> bi s = lineEnd (buf s) ls ->
  bndL ls ns children = true -> (ns = false -> ls = len (buf s)) -> ccF children = true -> kidsOK ls children ->
  okJ (lineLoop fuel st children ls s).
Proof.
  induction fuel as [|f IH]; intros st children ls s ns Hls Hbi Hc Hn Hcc Hk; [exact I|]. cbn [lineLoop].
  destruct (lineEnd_spec (buf s) ls Hls) as [A B]. rewrite <- Hbi in A, B.
  set (ln := from_ (upto (buf s) (bi s)) ls).
  destruct (line_of (buf s) ls (bi s) ltac:(lia) ltac:(lia)) as [Ll _]. fold ln in Ll.
  set (ns' := if ns then hasByteSuffixEOL ln else false).
  assert (Hc' : bndL (bi s) ns' children = true).
  { unfold ns'. destruct ns.
    - pose proof (bndL_mono ls (bi s) children ltac:(lia) Hc) as Hm. destruct (hasByteSuffixEOL ln); [exact Hm|apply bndL_weaken, Hm].
    - rewrite (Hn eq_refl) in *. replace (bi s) with (len (buf s)) by lia. exact Hc. }
  assert (Hn' : ns' = false -> bi s = len (buf s)).
  { unfold ns'. destruct ns; [|intros _; rewrite (Hn eq_refl) in *; lia].
    intros Ee. destruct (Z.lt_ge_cases (bi s) (len (buf s))) as [Lt|Ge]; [|lia].
    exfalso. rewrite Hbi in Lt. pose proof (line_hasEOL (buf s) ls Hls Lt) as Hh. rewrite <- Hbi in Hh. fold ln in Hh. congruence. }
  pose proof (bnd_processLine (bi s) ns' st children ls (upto (buf s) (bi s)) ltac:(lia) ltac:(lia) ltac:(fold ln; lia)
                ltac:(rewrite len_upto by lia; lia) ltac:(unfold ns'; fold ln; destruct ns; [tauto|discriminate]) Hc') as H1.
  pose proof (sp_processLine (bi s) ns' st children ls (upto (buf s) (bi s)) ltac:(lia) ltac:(lia) ltac:(fold ln; lia)
                ltac:(rewrite len_upto by lia; lia) ltac:(unfold ns'; fold ln; destruct ns; [tauto|discriminate]) Hc' Hcc Hk) as H2.
  pose proof (cc_processLine st children ls (upto (buf s) (bi s)) Hcc) as H3.
  destruct (processLine st children ls (upto (buf s) (bi s))) as [[children' st'] pn]. cbn [fst] in H1, H2, H3.
  destruct (negb (pn =? 0)); [exact I|].
  assert (HS : SJ s children' ns') by (split; [repeat split; try lia; assumption|split; assumption]).
  destruct (makeRoot children' s) as [[r s']|] eqn:Em.
  - cbn [okJ]. destruct (SJ_makeRoot _ _ _ _ _ HS Em) as [Hr Hs']. split; [exact Hr|eauto].
  - apply (IH st' children' (bi s) _ ns'); cbn [buf bi]; try assumption; try lia; reflexivity.
Qed.

Lemma SJ_skipLoop : forall fuel s, bi s = 0 -> okJ (skipLoop fuel s).
Proof.
  induction fuel as [|f IH]; intros s Hb; [exact I|]. cbn [skipLoop]. cbv zeta.
  destruct (negb _); [exact I|]. destruct (isBlankLine _); [apply IH; reflexivity|].
  apply (SJ_lineLoop f 0 [] 0 _ true); cbn [buf bi]; [pose proof (len_nonneg (buf s)); lia|rewrite Hb; reflexivity|reflexivity|discriminate|reflexivity|split; exact I].
Qed.

Lemma SJ_nextBlock fuel s ns : SJ s (pending s) ns -> okJ (nextBlock fuel s).
Proof.
  intros HS. unfold nextBlock. destruct (makeRoot (pending s) s) as [[r s']|] eqn:Em.
  - cbn [okJ]. destruct (SJ_makeRoot _ _ _ _ _ HS Em) as [Hr Hs']. split; [exact Hr|eauto].
  - destruct HS as ((Hb & Hc & Hn) & Hcc & Hk). destruct (pending s) as [|b0 rest] eqn:Ep; [apply SJ_skipLoop; reflexivity|].
    apply (SJ_lineLoop fuel 0 (b0 :: rest) (bi s) _ ns); cbn [buf bi]; try assumption; try lia; reflexivity.
Qed.

Lemma SJ_allBlocks : forall fuel s acc ns, SJ s (pending s) ns -> Forall okRJ acc -> Forall okRJ (fst (allBlocks fuel s acc)).
Proof.
  induction fuel as [|f IH]; intros s acc ns HS Ha; [exact Ha|]. cbn [allBlocks].
  pose proof (SJ_nextBlock (3 + length (buf s)) s ns HS) as Hn.
  destruct (nextBlock _ s) as [r s'| | |]; try exact Ha.
  destruct Hn as [Hr (ns' & Hs')]. apply (IH s' _ ns'); [exact Hs'|]. apply Forall_app. split; [exact Ha|]. constructor; [exact Hr|constructor].
Qed.

Theorem parseBlocks_block_spans : forall input,
  Forall (fun r => bspans (rb_blk r) = true /\ 0 <= bstart (rb_blk r)) (fst (parseBlocks input)).
Proof.
  intros input. unfold parseBlocks. apply (SJ_allBlocks _ _ _ true); [|constructor].
  split; [|split; [reflexivity|split; exact I]].
  unfold SI. cbn [buf bi pending]. pose proof (len_nonneg (pad input)). repeat split; try lia.
Qed.
Print Assumptions parseBlocks_block_spans.

(* ---- the inline pass only replaces inline children ---- *)
Lemma span_set_bik b v : bstart (set_bik b v) = bstart b /\ bend (set_bik b v) = bend b. Proof. destruct b; split; reflexivity. Qed.
Lemma span_rewriteB src m : forall fuel b, bstart (rewriteB fuel src m b) = bstart b /\ bend (rewriteB fuel src m b) = bend b.
Proof.
  destruct fuel as [|f]; intros b; [split; reflexivity|]. cbn [rewriteB].
  destruct (_ && _); [apply span_set_bik|destruct b; split; reflexivity].
Qed.
Lemma inside_ext s e c c' : bstart c' = bstart c -> bend c' = bend c -> inside s e c' = inside s e c.
Proof. intros A B. unfold inside. rewrite A, B. reflexivity. Qed.
Lemma ordered_map g : (forall x, bstart (g x) = bstart x /\ bend (g x) = bend x) -> forall l, ordered (map g l) = ordered l.
Proof.
  intros Hg. induction l as [|c1 r IH]; [reflexivity|]. destruct r as [|c2 r]; [reflexivity|].
  change (ordered (map g (c1 :: c2 :: r))) with (((bend (g c1) <? 0) || (bend (g c1) <=? bstart (g c2))) && ordered (map g (c2 :: r))).
  rewrite IH. destruct (Hg c1) as [_ B1]. destruct (Hg c2) as [A2 _]. rewrite B1, A2. reflexivity.
Qed.
Lemma bspans_rewriteB src m : forall fuel b, bspans (rewriteB fuel src m b) = bspans b.
Proof.
  induction fuel as [|f IH]; intros b; [reflexivity|]. cbn [rewriteB].
  destruct (_ && _); [destruct b; reflexivity|].
  destruct b as [K s e bk ik a n c l lb]. cbn [set_bkids bkids bspans]. f_equal; [f_equal; [f_equal|]|].
  - induction bk as [|x r IHr]; [reflexivity|]. cbn [map forallb]. destruct (span_rewriteB src m f x) as [A B].
    rewrite (inside_ext s e x _ A B), IHr. reflexivity.
  - apply ordered_map. intros x. apply span_rewriteB.
  - induction bk as [|x r IHr]; [reflexivity|]. cbn [map forallb]. rewrite IH, IHr. reflexivity.
Qed.

Theorem parseFull_block_spans : forall input,
  Forall (fun r => bspans (rb_blk r) = true /\ 0 <= bstart (rb_blk r)) (fst (parseFull input)).
Proof.
  intros input. unfold parseFull. pose proof (parseBlocks_block_spans input) as H. destruct (parseBlocks input) as [roots code]. cbn [fst] in *.
  apply Forall_forall. intros r Hr. apply in_map_iff in Hr. destruct Hr as (r0 & <- & Hr0).
  rewrite Forall_forall in H. destruct (H r0 Hr0) as [A B]. cbn [rb_blk].
  rewrite bspans_rewriteB. destruct (span_rewriteB (rb_src r0) (fold_left (fun a r => extractB (bheight (rb_blk r)) (rb_blk r) a) roots []) (bheight (rb_blk r0)) (rb_blk r0)) as [C _].
  rewrite C. tauto.
Qed.
Print Assumptions parseFull_block_spans.
