From Coq Require Import List ZArith Lia Bool.
Import ListNotations.
Require Import Base Tables Utf8 Tree Rdr Link Collect Html Recog Inl3a Inl3b Inl3c Inl3d Inl3e Props PEProof.
Require Import Leaf3a Leaf3e Leaf3f Leaf3i Leaf3j GI0 GI1 GI2 GI3 GI4 GI6 GI7.
Require Import ShapesBase ShapesR IS0 IS2 IS1 IS3 IS4 IS6a IS6b IS6.
Open Scope Z_scope.

(* ================================================================== *)
(* IS7: iloop, outer, parseInlines: every construct node has its shape *)
(* ================================================================== *)

Section Loop.
  Variable src : bytes.
  Variable U : list inline.
  Hypothesis HUe : forallb eok U = true.
  Hypothesis HOK : spOK src U = true.
  Hypothesis HBud : ibudget U <= len src + 9.
  Hypothesis HL : linesOK src U = true.

  Notation MI := (MI true U).
  Notation IS := (Leaf3f.InvS src U).
  Notation J := (J src U).
  Notation nthU := (nthU U).
  Notation LI := (LI src U).

  Lemma iloop_LI : forall fuel st pos pl, LI st pos -> exists pos', LI (fst (iloop fuel st pos pl)) pos'.
  Proof.
    induction fuel as [|f IH]; intros st pos pl H; [exists pos; exact H|]. cbn [iloop].
    pose proof (j_unp _ _ _ _ (li_j _ _ _ _ H)) as Eu. rewrite Eu.
    destruct (Z.ltb_spec (upos st) (len U)) as [Hu|Hu]; cbn [andb]; [|exists pos; exact H].
    destruct (Z.ltb_spec pos (spanEnd st)) as [Hp|Hp]; [|exists pos; exact H].
    destruct (istep st pos pl) as [[st2 pos2] pl2] eqn:E.
    apply IH. apply (istep_LI src U HUe HOK HBud HL st pos pl st2 pos2 pl2 H Hu Hp E).
  Qed.

  Lemma spanEnd_le st : isrc st = src -> unp st = U -> spanEnd st <= len src.
  Proof.
    intros Es Eu. unfold spanEnd. rewrite Es, Eu. destruct (len U <=? upos st).
    - destruct (rev U) as [|x r] eqn:Er; [lia|]. assert (Hin : In x U) by (apply in_rev; rewrite Er; left; reflexivity).
      destruct (spOK_all src U HOK x Hin) as (_ & _ & C & _). exact C.
    - destruct (nth_in_or_default (Z.to_nat (upos st)) U (mkI 0 0 0)) as [Hin|Hd].
      + destruct (spOK_all src U HOK _ Hin) as (_ & _ & C & _). exact C.
      + rewrite Hd. cbn. apply ShapesBase.len_nonneg.
  Qed.

  (* the invariant between two entries of the span list *)
  Definition OI (st : ist) : Prop :=
    MI st /\ IS st /\ 0 <= upos st /\ exists h, J h st /\ (upos st < len U -> h <= istart (nthU (upos st))).

  Lemma OI_next st st' h : MI st' -> IS st' -> J h st' -> 0 <= upos st -> upos st' = upos st + 1 ->
    (upos st < len U -> h <= iend (nthU (upos st))) -> OI st'.
  Proof.
    intros HM HS HJ H0 Eu Hh. split; [exact HM|]. split; [exact HS|]. split; [lia|]. exists h. split; [exact HJ|].
    rewrite Eu. intros Hlt. specialize (Hh ltac:(lia)).
    pose proof (nthU_sorted src U HOK (upos st) (upos st + 1) ltac:(lia) ltac:(lia) Hlt). lia.
  Qed.

  Lemma outer_OI : forall fuel st, OI st -> exists h, J h (outer fuel st).
  Proof.
    induction fuel as [|f IH]; intros st (HM & HS & H0 & h & HJ & Hh); [exists h; exact HJ|]. cbn [outer].
    pose proof (j_unp _ _ _ _ HJ) as Eu. pose proof (j_src _ _ _ _ HJ) as Esrc. rewrite Eu.
    destruct (Z.leb_spec (len U) (upos st)) as [Hge|Hlt]; [exists h; exact HJ|].
    specialize (Hh Hlt). fold (nthU (upos st)). set (u := nthU (upos st)) in *.
    destruct (nthU_range src U HOK (upos st) ltac:(lia)) as (R1 & R2 & R3). fold u in R1, R2, R3.
    assert (Hin : In u U) by (apply nthU_in; lia).
    pose proof HUe as HUe'. rewrite forallb_forall in HUe'. pose proof (HUe' u Hin) as He.
    unfold eok in He. apply andb_true_iff in He. destruct He as [Hk Hn]. apply nilb_true in Hn.
    assert (Hhe : h <= iend u) by lia.
    destruct (ikind u =? 0) eqn:E0.
    { apply IH. apply (OI_next st _ h); [| | |exact H0|reflexivity|intros _; exact Hhe].
      - apply MI_setUpos, MI_setIgn, HM.
      - apply Leaf3f.S_setUpos, Leaf3f.S_setIgn, HS.
      - apply J_setUpos, J_setIgn, HJ. }
    destruct (ikind u =? IndentKind) eqn:Ei.
    { destruct (negb (ign st)).
      - apply IH. apply (OI_next st _ h); [| | |exact H0|reflexivity|intros _; exact Hhe].
        + apply MI_setUpos, MI_pushU; [exact HM|right; apply Z.eqb_eq; exact Ei|exact Hn].
        + apply Leaf3f.S_setUpos. apply (S_pushU src U); [exact HS|]. pose proof (nthU_ok src U (HUg src U HUe) st HS) as Hg. rewrite Eu in Hg. exact Hg.
        + apply J_setUpos. apply (J_pushU src U HUe HOK); assumption.
      - apply IH. apply (OI_next st _ h); [| | |exact H0|reflexivity|intros _; exact Hhe].
        + apply MI_setUpos, HM.
        + apply Leaf3f.S_setUpos, HS.
        + apply J_setUpos, HJ. }
    destruct (ikind u =? UnparsedKind) eqn:Eun.
    { set (pos0 := if ign st then skipSpTab (length (isrc st)) (isrc st) (istart u) (spanEnd st) else istart u).
      assert (Hp0 : istart u <= pos0) by (unfold pos0; destruct (ign st); [apply skipSpTab_ge|lia]).
      assert (HLI0 : LI (setIgn st false) pos0).
      { constructor.
        - apply MI_setIgn, HM.
        - apply Leaf3f.S_setIgn, HS.
        - apply J_setIgn. apply (J_hi src U h); [|exact HJ]. change (spanEnd (setIgn st false)) with (spanEnd st).
          rewrite (spanEnd_in U st Eu) by lia. fold u. lia.
        - cbn [setIgn upos]. lia.
        - cbn [setIgn upos]. intros _. fold u. split; [exact Hp0|]. apply Z.eqb_eq in Eun. rewrite Eun. discriminate. }
      destruct (iloop_LI (S (length (isrc (setIgn st false)))) (setIgn st false) pos0 pos0 HLI0) as (pos2 & HLI2).
      destruct (iloop (S (length (isrc (setIgn st false)))) (setIgn st false) pos0 pos0) as [st2 pl2]. cbn [fst] in HLI2.
      destruct HLI2 as [A B C D E].
      pose proof (j_unp _ _ _ _ C) as Eu2.
      destruct (addText_sameF st2 pl2 (spanEnd st2)) as (AU & _ & _).
      apply IH. split; [apply MI_setUpos, MI_addText, A|]. split; [apply Leaf3f.S_setUpos, Leaf3f.S_addText, B|].
      split; [cbn [setUpos upos]; rewrite AU; lia|]. exists (spanEnd st2). split.
      - apply J_setUpos, J_addText; [apply (J_hi src U (Z.min pos2 (spanEnd st2))); [lia|exact C]|]. apply spanEnd_le; [apply (j_src _ _ _ _ C)|exact Eu2].
      - cbn [setUpos upos]. rewrite AU. intros Hlt2. rewrite (spanEnd_in U st2 Eu2) by lia.
        apply (nthU_sorted src U HOK (upos st2) (upos st2 + 1)); lia. }
    apply IH. apply (OI_next st _ h); [| | |exact H0|reflexivity|intros _; exact Hhe].
    - apply MI_setUpos. apply (MI_pushU true U (setIgn st false)); [apply MI_setIgn, HM| |exact Hn].
      cbn [orb] in Hk. rewrite orb_false_r in Hk. left. apply Z.eqb_eq. exact Hk.
    - apply Leaf3f.S_setUpos. change (rk st) with (rk (setIgn st false)). apply (S_pushU src U); [apply Leaf3f.S_setIgn, HS|].
      pose proof (nthU_ok src U (HUg src U HUe) st HS) as Hg. rewrite Eu in Hg. exact Hg.
    - apply J_setUpos. change (rk st) with (rk (setIgn st false)). apply (J_pushU src U HUe HOK); [apply J_setIgn, HJ|exact Hin].
  Qed.

  Theorem parseInlines_constructs m container : bik container = U ->
    forallb (shapesC src) (parseInlines src m container) = true /\ forallb (validI src) (parseInlines src m container) = true.
  Proof.
    intros EU. unfold parseInlines.
    set (st0 := {| rk := []; isrc := src; unp := bik container; upos := 0; stk := []; ign := false; nid := 1;
                   rootEnd := bend container; matcher := m |}).
    assert (H0 : MI st0).
    { constructor; cbn; try reflexivity; try exact EU; try lia; try (intros ? []); try constructor. }
    assert (HS0 : IS st0) by (split; [reflexivity|split; [exact EU|split; [cbn; lia|reflexivity]]]).
    assert (HJ0 : J 0 st0).
    { constructor; cbn; try reflexivity; try exact EU; try lia; constructor. }
    assert (HO : OI st0).
    { split; [exact H0|]. split; [exact HS0|]. split; [cbn; lia|]. exists 0. split; [exact HJ0|]. cbn [upos st0]. intros Hlt.
      destruct (nthU_range src U HOK 0 ltac:(lia)) as (R1 & _). exact R1. }
    destruct (outer_OI (S (length (bik container))) st0 HO) as (h & HJ1).
    pose proof (processEmphasis_J src U h _ 0 HJ1 ltac:(lia)) as HJ2.
    pose proof (j_cok _ _ _ _ HJ2) as Hc. pose proof (j_vok _ _ _ _ HJ2) as Hv. split.
    - rewrite forallb_forall. intros x Hx. apply in_map_iff in Hx. destruct Hx as (n & <- & Hn).
      unfold cokF in Hc. rewrite forallb_forall in Hc. eapply cok_shapesC. apply Hc, Hn.
    - rewrite forallb_forall. intros x Hx. apply in_map_iff in Hx. destruct Hx as (n & <- & Hn).
      unfold vokF in Hv. rewrite forallb_forall in Hv. apply vok_validI. apply Hv, Hn.
  Qed.
End Loop.
