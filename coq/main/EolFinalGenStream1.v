From Coq Require Import List ZArith Lia Bool.
Import ListNotations.
Require Import Base Tree Rdr Link Collect Html Recog LP Rules Starts Driver Rec16 Rec17 Rec18 L2Kind L2CC L2Bnd L2BndS
  BSDef BSTree BSLine10 BSShift BlockSpans ShDef ShSetext ShLine4 BlockShapes StreamFuel
  TPanicRange TDefs TInv TDesc TLine TLine2 TShift Total
  EolInv EolCRBytes EolCRLFSimTree EolCRLFSimStream EolFinalDefs EolFinalSimBytes EolFinalSimTree EolFinalGenOcp EolFinalGenTree EolFinalGenClose EolFinalSimStreamBase EolFinalGenStreamInv
  EolFinalGenLine EolFinalGenEof EolFinalSimSeal Props LADef LA1 LA11 EolFinalGenStreamLa EolFinalGenScClose.
Require EolCRLFSimCtDef EolGenCtDef EolGenCtStream EolGenCt.
Open Scope Z_scope.

(* C14 (i), final newline, stream level: the two runs inside one NextBlock call.
   p runs on a buffer, q on the same buffer followed by LF. *)

Definition sameBut (s s' : bpst) : Prop :=
  buf s' = buf s ++ [10] /\ boff s' = boff s /\ bline s' = bline s /\ lastOK (buf s) /\ anyBuf (buf s).
(* before the last line has been processed *)
Definition RA (s s' : bpst) : Prop := sameBut s s' /\ bi s' = bi s /\ pending s' = pending s /\ 0 <= bi s < len (buf s).
(* after it *)
Definition RB (s s' : bpst) : Prop :=
  sameBut s s' /\ bi s = len (buf s) /\ bi s' = len (buf s) + 1 /\ pending s' = map (finB (len (buf s))) (pending s) /\ RBinv (len (buf s)) (pending s).
(* after the last root block *)
Definition RC (s s' : bpst) : Prop := buf s = [] /\ buf s' = [] /\ pending s = [] /\ pending s' = [] /\ bi s = 0 /\ bi s' = 0.
Definition finRaw (r r' : rootB) : Prop :=
  rb_line r' = rb_line r /\ rb_start r' = rb_start r /\ rb_end r' = rb_end r + 1 /\ rb_blk r' = finB (len (rb_src r)) (rb_blk r).
Definition relNB (x y : nb) : Prop :=
  match x, y with
  | NBBlock r t, NBBlock r' t' => (r' = r /\ (RA t t' \/ RB t t') /\ topNoLM (pending t) = true) \/ (finRaw r r' /\ RC t t')
  | NBEof _, NBEof _ => True
  | NBStuck, NBStuck => True
  | NBPanic a, NBPanic b => a = b
  | _, _ => False
  end.

Lemma lastOK_from b n : lastOK b -> n < len b -> lastOK (from_ b n).
Proof.
  intros (w & c & -> & C) Hn. rewrite fs_len_app, fs_len1 in Hn. exists (from_ w n), c. split; [apply from_app_le; lia|exact C].
Qed.
Lemma lastOK_plain b : lastOK b -> endsPlain b.
Proof. intros (w & c & E & A & B & _). exists w, c. tauto. Qed.
Lemma lastOK_ne b : lastOK b -> b <> []. Proof. intros (w & c & -> & _) E. destruct w; discriminate. Qed.
Lemma len_fillNulls' l : len (fillNulls l) = len l. Proof. unfold fillNulls. apply len_fill_aux. Qed.

(* ---- cutting off a root block ---- *)
Lemma makeRoot_A s s' b rest : sameBut s s' -> isOpen b = false -> 0 <= bend b -> bend b < len (buf s) -> bi s' = bi s ->
  exists r t t', makeRoot (b :: rest) s = Some (r, t) /\ makeRoot (b :: rest) s' = Some (r, t') /\
    sameBut t t' /\ bi t' = bi t /\ pending t' = pending t /\ bi t = bi s - bend b /\ buf t = from_ (buf s) (bend b) /\ pending t = map (shiftB (- bend b)) rest.
Proof.
  intros (E1 & E2 & E3 & Lok & N91) Ho Hn Hlt Eb. unfold makeRoot. rewrite Ho, E1, E2, E3, Eb. rewrite upto_app10 by lia. rewrite from_app10 by lia.
  eexists; eexists; eexists. split; [reflexivity|]. split; [reflexivity|]. cbn [buf bi boff bline pending].
  split; [split; [reflexivity|split; [reflexivity|split; [reflexivity|split; [apply lastOK_from; assumption|apply anyBuf_from, N91]]]]|].
  repeat split.
Qed.

Lemma makeRoot_B_lt s s' b rest : sameBut s s' -> bi s = len (buf s) -> bi s' = len (buf s) + 1 ->
  isOpen b = false -> 0 <= bend b < len (buf s) -> RBinv (len (buf s)) (b :: rest) ->
  exists r t t', makeRoot (b :: rest) s = Some (r, t) /\ makeRoot (map (finB (len (buf s))) (b :: rest)) s' = Some (r, t') /\
    RB t t' /\ topNoLM (pending t) = true.
Proof.
  intros (E1 & E2 & E3 & Lok & N91) Eb Eb' Ho Hn (Hseal & Hsc & Htn). set (L := len (buf s)) in *.
  assert (L0 : 0 <= L) by (unfold L; apply len_nonneg).
  assert (Nlm : bkind b <> ListMarkerKind).
  { unfold topNoLM in Htn. cbn [forallb] in Htn. apply andb_true_iff in Htn. destruct Htn as [Htn _]. apply negb_true_iff, Z.eqb_neq in Htn. exact Htn. }
  assert (Eend : bend (finB L b) = bump L (bend b)) by (rewrite (F_nonLM L b Nlm); reflexivity).
  unfold makeRoot. cbn [map]. rewrite (isOpen_F L L0), Ho, Eend, E1, E2, E3, Eb, Eb'.
  rewrite (bump_ne L (bend b)) by lia. rewrite (Hseal b (or_introl eq_refl) ltac:(lia)).
  rewrite upto_app10 by (fold L; lia). rewrite from_app10 by (fold L; lia).
  eexists; eexists; eexists. split; [reflexivity|]. split; [reflexivity|]. cbn [pending].
  assert (Hlen : len (from_ (buf s) (bend b)) = L - bend b) by (apply len_from; fold L; lia).
  cbn [forallb] in Hsc. apply andb_true_iff in Hsc. unfold topNoLM in Htn. cbn [forallb] in Htn. apply andb_true_iff in Htn.
  split; [|unfold topNoLM; rewrite fb_map; erewrite fb_ext; [apply Htn|intros x; rewrite bkind_shiftB'; reflexivity]].
  unfold RB. cbn [buf bi boff bline pending]. rewrite Hlen.
  split; [split; [reflexivity|split; [reflexivity|split; [reflexivity|split; [apply lastOK_from; [exact Lok|fold L; lia]|apply anyBuf_from, N91]]]]|].
  split; [lia|]. split; [lia|]. split; [apply map_F_shift; lia|].
  apply RBinv_shift; [lia|]. split; [intros x Hx; apply Hseal; right; exact Hx|]. unfold topNoLM. tauto.
Qed.
Lemma makeRoot_B_last s s' b : sameBut s s' -> bi s = len (buf s) -> bi s' = len (buf s) + 1 ->
  isOpen b = false -> bend b = len (buf s) -> bkind b <> ListMarkerKind ->
  exists r t r' t', makeRoot [b] s = Some (r, t) /\ makeRoot [finB (len (buf s)) b] s' = Some (r', t') /\ finRaw r r' /\ RC t t'.
Proof.
  intros (E1 & E2 & E3 & Lok & N91) Eb Eb' Ho EL Nlm. set (L := len (buf s)) in *.
  assert (L0 : 0 <= L) by (unfold L; apply len_nonneg).
  assert (Eend : bend (finB L b) = bump L (bend b)) by (rewrite (F_nonLM L b Nlm); reflexivity).
  unfold makeRoot. rewrite (isOpen_F L L0), Ho, Eend, E1, E2, E3, Eb, Eb', EL, bump_L.
  eexists; eexists; eexists; eexists. split; [reflexivity|]. split; [reflexivity|].
  replace (upto (buf s) L) with (buf s) by (symmetry; apply upto_all).
  replace (upto (buf s ++ [10]) (L + 1)) with (buf s ++ [10]) by (symmetry; replace (L + 1) with (len (buf s ++ [10])) by (rewrite fs_len_app, fs_len1; reflexivity); apply upto_all).
  split.
  - unfold finRaw. cbn [rb_line rb_start rb_end rb_src rb_blk]. rewrite unpadded_app10, len_fillNulls'. fold L. repeat split; lia.
  - unfold RC. cbn [buf bi pending map]. replace (from_ (buf s) L) with (@nil Z) by (symmetry; unfold L; apply from_all).
    replace (from_ (buf s ++ [10]) (L + 1)) with (@nil Z) by (symmetry; apply from_app10_end). repeat split; lia.
Qed.

(* ---- facts about the list of root-level children ---- *)
Lemma lastOK_endsEol b : lastOK b -> endsEol b = false.
Proof. intros (w & c & -> & A & B & _). unfold endsEol. rewrite rev_app_distr. cbn [rev app]. apply orb_false_iff. split; apply Z.eqb_neq; assumption. Qed.
Lemma GoodL_lastClosed_first lo b rest : GoodL lo (b :: rest) -> lastClosed (b :: rest) -> isOpen b = false.
Proof.
  intros HG Hl. destruct (isOpen b) eqn:Eo; [|reflexivity]. exfalso. cbn [GoodL] in HG. rewrite Eo in HG. destruct HG as [-> _]. exact (lastClosed_single_open b Hl Eo).
Qed.
Lemma GoodL_nonlast_lt H : forall K lo, GoodL lo K -> lastClosed K -> (forall x, In x K -> bend x <= H) -> forall pre c, K = pre ++ [c] -> Forall (fun x => bend x < H) pre.
Proof.
  induction K as [|x K IH]; intros lo HG Hl Hb pre c E; [destruct pre; discriminate|].
  destruct pre as [|y pre]; [constructor|]. cbn [app] in E. injection E as <- EK.
  assert (Hne : K <> []) by (rewrite EK; destruct pre; discriminate).
  cbn [GoodL] in HG. destruct (isOpen x) eqn:Eo; [destruct HG as [-> _]; congruence|]. destruct HG as [Hlo HG].
  assert (Hl' : lastClosed K).
  { destruct Hl as (p & z & Ez & Hz). destruct p as [|u p]; [cbn in Ez; injection Ez as _ Ez; congruence|]. cbn [app] in Ez. injection Ez as _ Ez. exists p, z. split; assumption. }
  constructor.
  - destruct K as [|k K']; [congruence|]. cbn [GoodL] in HG. pose proof (GoodL_lastClosed_first _ _ _ (ltac:(cbn [GoodL]; exact HG) : GoodL (bend x) (k :: K')) Hl') as Ek. rewrite Ek in HG.
    destruct HG as [Hk _]. specialize (Hb k (or_intror (or_introl eq_refl))). lia.
  - apply (IH (bend x) HG Hl' (fun z Hz => Hb z (or_intror Hz)) pre c EK).
Qed.

Section Sim.
  Context {HO : OcpFinC}.
  Hypothesis H_tn : forall st K ls src, ccF K = true -> topNoLM K = true -> topNoLM (fst (fst (processLine st K ls src))) = true.
  Hypothesis H_sc : forall st K ls src L SS, EV src SS ls -> len src = L -> 0 <= ls -> ls + len (from_ src ls) = L -> lastOK (from_ src ls) ->
    ccF K = true -> forallb (qB2 L SS src) K = true -> forallb (scB L) (fst (fst (processLine st K ls src))) = true.
  Lemma sameBut_next s s' : sameBut s s' -> sameBut (nextS s) (nextS s').
  Proof. intros H. exact H. Qed.

  Lemma bndL_ends H ns K b : bndL H ns K = true -> In b K -> bend b < 0 \/ bend b <= H.
  Proof. intros Hb Hin. unfold bndL in Hb. rewrite forallb_forall in Hb. apply (bnd_end H ns b), Hb, Hin. Qed.
  Lemma closed_nonneg b : isOpen b = false -> 0 <= bend b. Proof. unfold isOpen. intros H. apply Z.ltb_ge in H. exact H. Qed.

  (* the list of root-level children after the last position has been read: its first block is closed *)
  Lemma sim_closed_first f st1 b rest s s' ns : sameBut s s' -> bi s = len (buf s) -> bi s' = len (buf s) + 1 -> isOpen b = false ->
    (forall pre c, b :: rest = pre ++ [c] -> Forall (fun x => bend x < len (buf s)) pre) ->
    bndL (len (buf s)) ns (b :: rest) = true -> RBinv (len (buf s)) (b :: rest) ->
    relNB (match makeRoot (b :: rest) s with Some (r, t) => NBBlock r t | None => lineLoop f st1 (b :: rest) (bi s) (nextS s) end)
          (match makeRoot (map (finB (len (buf s))) (b :: rest)) s' with Some (r, t) => NBBlock r t
           | None => lineLoop f st1 (map (finB (len (buf s))) (b :: rest)) (bi s') (nextS s') end).
  Proof.
    intros HS Eb Eb' Eo Hnl Hbnd Hinv.
    pose proof (closed_nonneg b Eo) as Hn0. destruct (bndL_ends _ _ _ b Hbnd (or_introl eq_refl)) as [Hneg|Hle]; [lia|].
    destruct (Z.eq_dec (bend b) (len (buf s))) as [EL|NL].
    + assert (Er : rest = []).
      { destruct rest as [|c rest']; [reflexivity|]. exfalso. destruct (@exists_last _ (c :: rest') ltac:(discriminate)) as (pre & z & Ez).
        specialize (Hnl (b :: pre) z ltac:(rewrite Ez; reflexivity)). apply Forall_inv in Hnl. lia. }
      subst rest. destruct Hinv as (_ & _ & Htn). unfold topNoLM in Htn. cbn [forallb] in Htn. apply andb_true_iff in Htn. destruct Htn as [Htn _]. apply negb_true_iff, Z.eqb_neq in Htn.
      destruct (makeRoot_B_last s s' b HS Eb Eb' Eo EL Htn) as (r & t & r' & t' & M1 & M2 & Hr & Ht). cbn [map]. rewrite M1, M2. right. split; assumption.
    + destruct (makeRoot_B_lt s s' b rest HS Eb Eb' Eo ltac:(lia) Hinv) as (r & t & t' & M1 & M2 & Hrb & Ht). rewrite M1, M2.
      left. split; [reflexivity|split; [right; exact Hrb|exact Ht]].
  Qed.

  (* the environment of a line from the account invariant *)
  Lemma EV_of_la s K M : lastOK (buf s) -> bi s = len (buf s) -> 0 <= M <= len (buf s) -> la (upto (buf s) (bi s)) M (docRoot K) -> EV (buf s) (flat_map paraIks K) M.
  Proof.
    intros Lok Eb HM Hla. split; [apply lastOK_ne, Lok|]. split; [apply lastOK_endsEol, Lok|]. split; [exact HM|].
    rewrite Eb, upto_all in Hla. apply laRoot_PE, Hla.
  Qed.
  Lemma LEy_la st K ls s ns : EolGenCt.LEy st K ls s ns -> la (upto (buf s) (bi s)) ls (docRoot K).
  Proof. unfold EolGenCt.LEy, EolGenCtStream.LEx. intros (_ & _ & _ & _ & _ & _ & H & _). exact H. Qed.

  (* the step on the empty line at the end of the input, one open root-level block: the document is closed *)
  Lemma sim_eofLoop f st z s s' ns : LI st [z] (len (buf s)) s ns -> sameBut s s' -> bi s = len (buf s) -> bi s' = len (buf s) + 1 ->
    scB (len (buf s)) z = true ->
    relNB (lineLoop f st [z] (len (buf s)) s) (lineLoop f st [finB (len (buf s)) z] (len (buf s) + 1) s').
  Proof.
    intros HLI HS Eb Eb' Hsc. destruct f as [|f]; [exact I|].
    pose proof HS as (E1 & E2 & E3 & Lok & N91). pose proof (len_nonneg (buf s)) as L0.
    pose proof (LI_line H_tn st [z] (len (buf s)) s ns HLI) as HL. cbv zeta in HL. destruct HL as (Hb1 & Hlen & Hpost).
    pose proof HLI as (Hls & Hbi & Hc & Hn & Hcc & HG & HK & _ & _ & Hk & Hsk & _ & Htn & (nsx & HLE)).
    assert (Eu : upto (buf s) (bi s) = buf s) by (rewrite Eb; apply upto_all).
    assert (Eu' : upto (buf s') (bi s') = buf s ++ [10]).
    { rewrite Eb', E1. replace (len (buf s) + 1) with (len (buf s ++ [10])) by (rewrite fs_len_app, fs_len1; reflexivity). apply upto_all. }
    pose proof (LEy_la _ _ _ _ _ HLE) as Hla.
    pose proof (EV_of_la s [z] (len (buf s)) Lok Eb ltac:(lia) Hla) as HEV.
    destruct Hsk as [Hsh _].
    pose proof (fin_eof (len (buf s)) (flat_map paraIks [z]) st [z] (buf s) HEV eq_refl Hcc ltac:(cbn [forallb]; rewrite Hsc; reflexivity)
                  (shKids_lmB _ _ _ Hsh) (peB_collectL _ [z] (fun x Hx => Hx)) (shKids_sxB _ _ _ Hsh)) as He.
    cbn [lineLoop]. rewrite Eu, Eu'. cbn [map] in He. rewrite He. rewrite Eu in Hpost.
    assert (Hsc1 : forallb (scB (len (buf s))) (fst (fst (processLine st [z] (len (buf s)) (buf s)))) = true).
    { rewrite (processLine_eof st [z] (len (buf s)) (buf s)) by (apply from_all). cbn [fst]. apply scB_eofK; [exact Hcc|cbn [forallb]; rewrite Hsc; reflexivity]. }
    destruct (processLine st [z] (len (buf s)) (buf s)) as [[K1 st1] pn]. cbn [fst snd] in *.
    destruct (Z.eqb_spec pn 0) as [Ep|Np]; cbn [negb]; [|reflexivity].
    destruct (Hpost Ep) as (P1 & P2 & P3 & P4 & P5 & P6 & P7 & P8 & (P9 & (nsx' & P9c)) & P10 & P11). rewrite Eb in P1.
    destruct K1 as [|b rest]; [congruence|]. specialize (P10 eq_refl).
    pose proof (GoodL_lastClosed_first 0 b rest P4 P10) as Eo.
    assert (Hseal1 : forall x, In x (b :: rest) -> 0 <= bend x < len (buf s) -> finB (len (buf s)) x = x).
    { intros x Hx Hb. destruct (EolGenCtStream.SJx_KX _ _ _ P9c) as [_ Hct]. apply (ct_seal (bi s) (len (buf s)) x); [exact (allP_In _ _ _ Hct Hx)|exact Hb]. }
    apply (sim_closed_first f st1 b rest s s' (if ns then hasByteSuffixEOL (from_ (buf s) (len (buf s))) else false)); try assumption.
    - apply (GoodL_nonlast_lt (len (buf s)) (b :: rest) 0 P4 P10). intros x Hx. destruct (bndL_ends _ _ _ x P1 Hx) as [Hneg|Hle]; lia.
    - split; [exact Hseal1|split; [exact Hsc1|exact P9]].
  Qed.

  (* after the last line has been processed *)
  Lemma sim_tail f st1 K1 s s' ns : sameBut s s' -> bi s = len (buf s) -> bi s' = len (buf s) + 1 -> K1 <> [] ->
    ccF K1 = true -> GoodL 0 K1 -> (forall pre c, K1 = pre ++ [c] -> Forall (fun x => bend x < len (buf s)) pre) ->
    bndL (len (buf s)) ns K1 = true -> RBinv (len (buf s)) K1 ->
    (makeRoot K1 s = None -> LI st1 K1 (bi s) (nextS s) ns) ->
    relNB (match makeRoot K1 s with Some (r, t) => NBBlock r t | None => lineLoop f st1 K1 (bi s) (nextS s) end)
          (match makeRoot (map (finB (len (buf s))) K1) s' with Some (r, t) => NBBlock r t
           | None => lineLoop f st1 (map (finB (len (buf s))) K1) (bi s') (nextS s') end).
  Proof.
    intros HS Eb Eb' Hne Hc HG Hnl Hbnd Hinv HLI. pose proof HS as (E1 & E2 & E3 & Lok & N91). pose proof (len_nonneg (buf s)) as L0.
    destruct K1 as [|b rest]; [congruence|]. destruct (isOpen b) eqn:Eo.
    - pose proof (GoodL_first_open b rest HG Eo) as ->. cbn [map].
      rewrite (makeRoot_open b [] s Eo) in *. rewrite (makeRoot_open (finB (len (buf s)) b) [] s' ltac:(rewrite (isOpen_F _ L0); exact Eo)).
      assert (En : lineEnd (buf s) (bi s) = bi s) by (rewrite Eb; apply lineEnd_all).
      assert (En' : lineEnd (buf s') (bi s') = bi s') by (rewrite Eb', E1; apply lineEnd_app10_end).
      specialize (HLI eq_refl). unfold nextS in *. rewrite En'. rewrite En in *.
      replace {| buf := buf s; bi := bi s; boff := boff s; bline := bline s; pending := pending s |} with s in * by (destruct s; reflexivity).
      replace {| buf := buf s'; bi := bi s'; boff := boff s'; bline := bline s'; pending := pending s' |} with s' by (destruct s'; reflexivity).
      destruct Hinv as (_ & Hsc & _). cbn [forallb] in Hsc. apply andb_true_iff in Hsc.
      rewrite Eb in HLI |- *. rewrite Eb'. apply (sim_eofLoop f st1 b s s' ns); try assumption; tauto.
    - apply (sim_closed_first f st1 b rest s s' ns); assumption.
  Qed.

  Lemma sim_lineLoop : forall fuel st children ls s s' ns, LI st children ls s ns -> sameBut s s' -> bi s' = lineEnd (buf s') ls -> ls < len (buf s) ->
    relNB (lineLoop fuel st children ls s) (lineLoop fuel st children ls s').
  Proof.
    induction fuel as [|f IH]; intros st children ls s s' ns HLI HS Eb' Hlt; [exact I|].
    pose proof HS as (E1 & E2 & E3 & Lok & N91). pose proof (LI_line H_tn st children ls s ns HLI) as HL. cbv zeta in HL. destruct HL as (Hb1 & Hlen & Hpost).
    pose proof HLI as (Hls & Hbi & Hc & Hn & Hcc & HG & HK & _ & _ & Hk & Hsk0 & _ & Htn & HLE).
    destruct (Z.lt_ge_cases (bi s) (len (buf s))) as [Lt|Ge].
    - (* not the last line: the two runs see the same line *)
      assert (Ebi : bi s' = bi s) by (rewrite Eb', E1, Hbi; apply lineEnd_app10_lt; [lia|rewrite <- Hbi; exact Lt]).
      cbn [lineLoop]. rewrite Ebi, E1, (upto_app10 (buf s) (bi s)) by lia.
      destruct (processLine st children ls (upto (buf s) (bi s))) as [[K1 st1] pn]. cbn [fst snd] in Hpost.
      destruct (Z.eqb_spec pn 0) as [Ep|Np]; cbn [negb]; [|reflexivity].
      destruct (Hpost Ep) as (P1 & P2 & P3 & P4 & P5 & P6 & P7 & P8 & (P9 & P9c) & P10 & P11).
      destruct K1 as [|b rest]; [congruence|]. destruct (isOpen b) eqn:Eo.
      + rewrite (makeRoot_open b rest s Eo) in *. rewrite (makeRoot_open b rest _ Eo). destruct (P11 eq_refl) as [Hlt2 HLI2].
        apply (IH st1 (b :: rest) (bi s) (nextS s) {| buf := buf s ++ [10]; bi := lineEnd (buf s ++ [10]) (bi s); boff := boff s'; bline := bline s'; pending := pending s' |} _ HLI2).
        * split; [reflexivity|split; [exact E2|split; [exact E3|split; assumption]]].
        * reflexivity.
        * exact Lt.
      + pose proof (closed_nonneg b Eo) as Hn0. destruct (bndL_ends _ _ _ b P1 (or_introl eq_refl)) as [Hneg|Hle]; [lia|].
        destruct (makeRoot_A s s' b rest HS Eo Hn0 ltac:(lia) Ebi) as (r & t & t' & M1 & M2 & St & Bt & Pt & Bt2 & But & Pdt).
        rewrite M1, M2. left. split; [reflexivity|]. split.
        * left. split; [exact St|split; [exact Bt|split; [exact Pt|]]]. rewrite Bt2, But, len_from by lia. lia.
        * rewrite Pdt. unfold topNoLM in *. cbn [forallb] in P9. apply andb_true_iff in P9. rewrite fb_map. erewrite fb_ext; [apply P9|intros x; rewrite bkind_shiftB'; reflexivity].
    - (* the last line *)
      assert (Ebs : bi s = len (buf s)) by lia.
      pose proof (lineEnd_last_noEol (buf s) ls ltac:(lia) (lastOK_plain _ Lok) ltac:(rewrite <- Hbi; exact Ebs)) as Hnoe.
      assert (Ebs' : bi s' = len (buf s) + 1) by (rewrite Eb', E1; apply lineEnd_app10_last; [lia|exact Hnoe]).
      assert (Ens : ns = true) by (destruct ns; [reflexivity|specialize (Hn eq_refl); lia]). subst ns.
      destruct (bndL_fix ls (len (buf s)) children ltac:(lia) Hlt Hc) as [Efix Hq].
      assert (Hend : ls + len (from_ (buf s) ls) = len (buf s)) by (rewrite len_from by lia; lia).
      pose proof (lastOK_from (buf s) ls Lok Hlt) as Lokl.
      destruct HLE as (nsx & HLE). pose proof (LEy_la _ _ _ _ _ HLE) as Hla.
      pose proof (EV_of_la s children ls Lok Ebs ltac:(lia) Hla) as HEV. destruct Hsk0 as [Hsh0 _].
      pose proof (qB2_build (len (buf s)) (flat_map paraIks children) (buf s) children Hq (shKids_sxB _ _ _ Hsh0) (peB_collectL _ children (fun x Hx => Hx))) as Hq2.
      pose proof (fin_processLine (len (buf s)) (flat_map paraIks children) st children ls (buf s) HEV eq_refl ltac:(lia) Hend Lokl Hcc Hq2) as Hfin. rewrite Efix in Hfin.
      pose proof (H_sc st children ls (buf s) (len (buf s)) (flat_map paraIks children) HEV eq_refl ltac:(lia) Hend Lokl Hcc Hq2) as Hsc1.
      assert (Eu : upto (buf s) (bi s) = buf s) by (rewrite Ebs; apply upto_all).
      assert (Eu' : upto (buf s') (bi s') = buf s ++ [10]).
      { rewrite Ebs', E1. replace (len (buf s) + 1) with (len (buf s ++ [10])) by (rewrite fs_len_app, fs_len1; reflexivity). apply upto_all. }
      cbn [lineLoop]. rewrite Eu' , Hfin. rewrite Eu in *.
      destruct (processLine st children ls (buf s)) as [[K1 st1] pn]. cbn [fst snd] in *.
      destruct (Z.eqb_spec pn 0) as [Ep|Np]; cbn [negb]; [|reflexivity].
      destruct (Hpost Ep) as (P1 & P2 & P3 & P4 & P5 & P6 & P7 & P8 & (P9 & (nsx' & P9c)) & P10 & P11). rewrite Ebs in P1.
      assert (Hseal1 : forall x, In x K1 -> 0 <= bend x < len (buf s) -> finB (len (buf s)) x = x).
      { intros x Hx Hb. destruct (EolGenCtStream.SJx_KX _ _ _ P9c) as [_ Hct]. apply (ct_seal (bi s) (len (buf s)) x); [exact (allP_In _ _ _ Hct Hx)|exact Hb]. }
      apply (sim_tail f st1 K1 s s' (if true then hasByteSuffixEOL (from_ (buf s) ls) else false)); try assumption.
      + intros pre c E. specialize (P5 pre c E). revert P5. apply Forall_impl. intros x Hx. lia.
      + split; [exact Hseal1|split; [exact Hsc1|exact P9]].
      + intros Em. apply P11, Em.
  Qed.
End Sim.
