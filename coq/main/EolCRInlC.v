From Coq Require Import List ZArith Lia Bool.
Import ListNotations.
Require Import Base Tables Utf8 Tree Rdr Link Collect Html Recog Inl3a Inl3b Inl3c Inl3d Driver Inl3e
  EolCRDefs EolCRBytes EolCRRdr EolCRInlA EolCRInlB.
Open Scope Z_scope.

(* C14 (ii), CR clause, inline layer, part C: Inl3e.v up to parseInlines. *)

Definition pairR {A} (x y : ist * A) : Prop := snd y = snd x /\ stR (fst x) (fst y).
Lemma pairR_mk {A} st st' (a : A) : stR st st' -> pairR (st, a) (st', a).
Proof. intros H. split; [reflexivity|exact H]. Qed.
Definition tripR (x y : ist * Z * Z) : Prop := stR (fst (fst x)) (fst (fst y)) /\ snd (fst y) = snd (fst x) /\ snd y = snd x.
Lemma tripR_mk st st' a b : stR st st' -> tripR (st, a, b) (st', a, b).
Proof. intros H. split; [exact H|split; reflexivity]. Qed.

(* name the two sides of a related pair of states *)
Ltac absR L s s' Hn :=
  pose proof L as Hn; match type of Hn with stR ?X ?X' => set (s := X) in *; set (s' := X') in *; clearbody s s' end.
(* destruct a related pair of (state, value) results *)
Ltac stepP L s s' o Hn :=
  let Ho := fresh "Ho" in let o' := fresh "o'" in
  pose proof L as [Ho Hn];
  match type of Ho with snd ?y = snd ?x => destruct x as [s o]; destruct y as [s' o']; cbn [fst snd] in Ho, Hn; subst o' end.

Lemma cr_rfuelOf st st' : stR st st' -> rfuelOf st' = rfuelOf st.
Proof. intros H. unfold rfuelOf. steq H. reflexivity. Qed.

Lemma cr_lfl : forall f st st' i, stR st st' -> pairR (lfl f st i) (lfl f st' i).
Proof.
  induction f as [|f IH]; intros st st' i H; [apply pairR_mk, H|]. cbn [lfl]. cbv zeta. steq H.
  destruct (i <? 0); [apply pairR_mk, H|]. destruct (_ || _); [|apply IH, H].
  destruct (negb _); apply pairR_mk; [apply stR_setStk, H|exact H].
Qed.
Lemma cr_lookForLinkOrImage st st' : stR st st' -> pairR (lookForLinkOrImage st) (lookForLinkOrImage st').
Proof. intros H. unfold lookForLinkOrImage. steq H. apply cr_lfl, H. Qed.

Lemma stR_finishLink st st' kind odi : stR st st' -> stR (finishLink st kind odi) (finishLink st' kind odi).
Proof.
  intros H. unfold finishLink. cbv zeta. steq H.
  absR (stR_processEmphasis _ _ (odi + 1) H) s1 s1' H1.
  absR (stR_removeNode _ _ (d_node (nthD (stk st) odi)) H1) s2 s2' H2. steq H2.
  absR (stR_setStk _ _ (delStack (stk s2) odi (odi + 1)) H2) s3 s3' H3. steq H3.
  destruct (kind =? LinkKind); [apply stR_setStk, H3|exact H3].
Qed.
Lemma stR_appendKid st st' id k : stR st st' -> stR (appendKid st id k) (appendKid st' id k).
Proof. intros H. unfold appendKid. apply stR_updN, H. Qed.
Lemma cr_transformLinkReference f src src' nodes : crRel src src' ->
  transformLinkReference f src' nodes = transformLinkReference f src nodes.
Proof.
  intros H. unfold transformLinkReference. destruct nodes as [|x l]; [reflexivity|]. destruct (rev (x :: l)); [reflexivity|].
  apply cr_transformLinkReferenceSpan, H.
Qed.
Lemma cr_ctn f src src' sp s e tk esc : crRel src src' ->
  collectTextNodes f (newReader src' sp s) e tk esc = collectTextNodes f (newReader src sp s) e tk esc.
Proof. intros H. apply cr_collectTextNodes, cr_newReader, H. Qed.

Lemma cr_parseEndBracket st st' start : stR st st' -> pairR (parseEndBracket st start) (parseEndBracket st' start).
Proof.
  intros H. unfold parseEndBracket. cbv zeta. rewrite (cr_rfuelOf _ _ H). pose proof (stR_src _ _ H) as Hs.
  set (fuel := rfuelOf st). set (src := isrc st) in *. set (src' := isrc st') in *.
  stepP (cr_lookForLinkOrImage st st' H) s1 s1' odi H1.
  destruct (odi <? 0); [apply pairR_mk, stR_addText, H1|]. steq H1. rewrite (cr_nodeOf _ _ _ H1), (cr_spanEnd _ _ H1).
  set (od := nthD (stk s1) odi). set (kind := if d_typ od =? tImage then ImageKind else LinkKind).
  set (bracket := nodeOf s1 (d_node od)).
  rewrite (bR_eqb _ _ 40 (crRel_at src src' (start + 1) Hs)) by discriminate.
  rewrite (bR_eqb _ _ 91 (crRel_at src src' (start + 1) Hs)) by discriminate.
  rewrite (bR_eqb _ _ 93 (crRel_at src src' (start + 2) Hs)) by discriminate.
  rewrite (cr_parseInlineLink fuel _ _ (start + 1) H1).
  match goal with |- pairR (match ?X with _ => _ end) _ => destruct X as [[[[[ispan dspan] dtext] tspan] ttext]|] end.
  - (* inline link *)
    stepP (cr_wrap s1 s1' kind (d_node od) None H1) s2 s2' lid H2.
    absR (stR_updN _ _ lid (fun n : pn => setSpan n (ps bracket) (snd ispan)) H2) s3 s3' H3.
    assert (H4 : stR
      (if spanValid dspan then appendKid s3 lid (PN 0 LinkDestinationKind (fst dspan) (snd dspan) 0 []
         (if spanValid dtext then kidsOf (collectTextNodes fuel (newReader src (unpFrom s3) (fst dtext)) (snd dtext) TextKind true) else [])) else s3)
      (if spanValid dspan then appendKid s3' lid (PN 0 LinkDestinationKind (fst dspan) (snd dspan) 0 []
         (if spanValid dtext then kidsOf (collectTextNodes fuel (newReader src' (unpFrom s3') (fst dtext)) (snd dtext) TextKind true) else [])) else s3')).
    { destruct (spanValid dspan); [|exact H3]. rewrite (cr_unpFrom _ _ H3), (cr_ctn fuel _ _ _ _ _ _ _ Hs). apply stR_appendKid, H3. }
    absR H4 s4 s4' H4'.
    assert (H5 : stR
      (if spanValid tspan then appendKid s4 lid (PN 0 LinkTitleKind (fst tspan) (snd tspan) 0 []
         (if spanValid ttext then kidsOf (collectTextNodes fuel (newReader src (unpFrom s4) (fst ttext)) (snd ttext) TextKind true) else [])) else s4)
      (if spanValid tspan then appendKid s4' lid (PN 0 LinkTitleKind (fst tspan) (snd tspan) 0 []
         (if spanValid ttext then kidsOf (collectTextNodes fuel (newReader src' (unpFrom s4') (fst ttext)) (snd ttext) TextKind true) else [])) else s4')).
    { destruct (spanValid tspan); [|exact H4']. rewrite (cr_unpFrom _ _ H4'), (cr_ctn fuel _ _ _ _ _ _ _ Hs). apply stR_appendKid, H4'. }
    absR H5 s5 s5' H5'.
    apply pairR_mk, stR_finishLink, stR_advanceTo, H5'.
  - (* reference forms *)
    assert (Hfail : pairR (setStk (addText s1 start (start + 1)) (delStack (stk s1) odi (odi + 1)), start + 1)
                          (setStk (addText s1' start (start + 1)) (delStack (stk s1) odi (odi + 1)), start + 1))
      by (apply pairR_mk, stR_setStk, stR_addText, H1).
    rewrite (cr_unpFrom _ _ H1).
    rewrite (cr_transformLinkReferenceSpan fuel _ _ (unp s1) (pe bracket) start Hs). rewrite !(cr_matchRef _ _ _ H1).
    set (isCollapsed := (start + 2 <? spanEnd s1) && (at_ src (start + 1) =? 91) && (at_ src (start + 2) =? 93)).
    set (label := transformLinkReferenceSpan fuel src (unp s1) (pe bracket) start).
    assert (HL : fst (parseLinkLabel fuel (newReader src' (unpFrom s1) (start + 1))) = fst (parseLinkLabel fuel (newReader src (unpFrom s1) (start + 1))))
      by (apply cr_parseLinkLabel, cr_newReader, Hs).
    destruct (parseLinkLabel fuel (newReader src (unpFrom s1) (start + 1))) as [[lsp lin] rx].
    destruct (parseLinkLabel fuel (newReader src' (unpFrom s1) (start + 1))) as [[lsp' lin'] rx']. cbn [fst] in HL.
    injection HL as -> ->.
    match goal with |- pairR (let '(lspan, linner) := ?X in _) _ => destruct X as [lspan linner] end.
    destruct isCollapsed.
    + destruct (negb (matchRef s1 label)); [exact Hfail|].
      stepP (cr_wrap s1 s1' kind (d_node od) None H1) s2 s2' lid H2.
      apply pairR_mk, stR_finishLink, stR_updN, H2.
    + destruct (spanValid lspan).
      * rewrite (cr_ctn fuel _ _ _ _ _ _ _ Hs).
        set (lkids := collectTextNodes fuel (newReader src (unpFrom s1) (fst linner)) (snd linner) TextKind false).
        rewrite (cr_transformLinkReference fuel _ _ lkids Hs). rewrite (cr_matchRef _ _ _ H1).
        destruct (negb (matchRef s1 (transformLinkReference fuel src lkids))); [exact Hfail|].
        stepP (cr_wrap s1 s1' kind (d_node od) None H1) s2 s2' lid H2.
        apply pairR_mk, stR_finishLink, stR_advanceTo, stR_updN, stR_appendKid, H2.
      * destruct (negb (matchRef s1 label)); [exact Hfail|].
        stepP (cr_wrap s1 s1' kind (d_node od) None H1) s2 s2' lid H2.
        apply pairR_mk, stR_finishLink, stR_updN, H2.
Qed.

(* ---- parseBackslash, parseDelimiterRun ---- *)
Lemma cr_eolRun src src' : crRel src src' -> forall f e lim, eolRun f src' e lim = eolRun f src e lim.
Proof.
  intros H. induction f as [|f IH]; intros e lim; [reflexivity|]. cbn [eolRun].
  rewrite (bR_iseol _ _ (crRel_at src src' e H)), IH. reflexivity.
Qed.
Lemma cr_parseBackslash st st' start : stR st st' -> pairR (parseBackslash st start) (parseBackslash st' start).
Proof.
  intros H. unfold parseBackslash. cbv zeta. pose proof (stR_src _ _ H) as Hs.
  rewrite (cr_spanEnd _ _ H), (cr_isLastSpan _ _ H). steq H.
  pose proof (crRel_at _ _ (start + 1) Hs) as Hc. rewrite (cr_isASCIIPunctuation _ _ Hc).
  rewrite <- !orb_assoc. rewrite (bR_iseol _ _ Hc).
  destruct (_ || _).
  - destruct (isLastSpan st); [apply pairR_mk, stR_addText, H|]. rewrite (cr_eolRun _ _ Hs).
    set (e := eolRun (length (isrc st)) (isrc st) (start + 1) (spanEnd st)).
    pose proof (cr_addNode _ _ HardLineBreakKind start e [] (stR_setIgn _ _ true H)) as [_ H1].
    split; [reflexivity|exact H1].
  - destruct (isASCIIPunctuation _); apply pairR_mk, stR_addText, H.
Qed.

Lemma bR_eqb2 a a' b b' : bR a a' -> bR b b' -> (a' =? b') = (a =? b).
Proof.
  intros Ha Hb. destruct (bR_cases _ _ Ha) as [[-> ->]|(-> & A1 & A2)]; destruct (bR_cases _ _ Hb) as [[-> ->]|(-> & B1 & B2)]; try reflexivity.
  - rewrite (proj2 (Z.eqb_neq 13 b)) by congruence. rewrite (proj2 (Z.eqb_neq 10 b)) by congruence. reflexivity.
  - rewrite (proj2 (Z.eqb_neq a 13)) by congruence. rewrite (proj2 (Z.eqb_neq a 10)) by congruence. reflexivity.
Qed.
Lemma cr_runEnd src src' c c' : crRel src src' -> bR c c' -> forall f e lim, runEnd f src' e lim c' = runEnd f src e lim c.
Proof.
  intros H Hc. induction f as [|f IH]; intros e lim; [reflexivity|]. cbn [runEnd].
  rewrite (bR_eqb2 _ _ _ _ (crRel_at src src' e H) Hc), IH. reflexivity.
Qed.
Lemma cr_parseDelimiterRun st st' start : stR st st' -> pairR (parseDelimiterRun st start) (parseDelimiterRun st' start).
Proof.
  intros H. unfold parseDelimiterRun. cbv zeta. pose proof (stR_src _ _ H) as Hs.
  rewrite (cr_spanEnd _ _ H). steq H. pose proof (crRel_at _ _ start Hs) as Hc.
  rewrite (cr_runEnd _ _ _ _ Hs Hc). set (e := runEnd _ _ _ _ _).
  rewrite (cr_emphasisFlags _ _ start e Hs). rewrite (bR_eqb _ _ 42 Hc) by discriminate.
  stepP (cr_addNode st st' TextKind start e [] H) s1 s1' nd H1. steq H1. apply pairR_mk, stR_setStk, H1.
Qed.

(* ---- one tokeniser step ---- *)
Lemma cr_istep st st' pos plainStart : stR st st' -> tripR (istep st pos plainStart) (istep st' pos plainStart).
Proof.
  intros H. unfold istep. cbv zeta. rewrite (cr_rfuelOf _ _ H). pose proof (stR_src _ _ H) as Hs.
  set (fuel := rfuelOf st). rewrite (cr_spanEnd _ _ H), (cr_isLastSpan _ _ H), (cr_unpFrom _ _ H).
  pose proof (crRel_at _ _ pos Hs) as Hc. pose proof (crRel_at _ _ (pos + 1) Hs) as Hc1.
  set (src := isrc st) in *. set (src' := isrc st') in *.
  set (c := at_ src pos) in *. set (c' := at_ src' pos) in *.
  repeat match goal with |- context [c' =? ?k] => rewrite (bR_eqb c c' k Hc) by discriminate end.
  rewrite (bR_eqb _ _ 91 Hc1) by discriminate.
  pose proof (stR_addText _ _ plainStart pos H) as Ht.
  destruct ((c =? 42) || (c =? 95)).
  { stepP (cr_parseDelimiterRun _ _ pos Ht) s1 s1' e H1. apply tripR_mk, H1. }
  destruct (c =? 91).
  { stepP (cr_addNode _ _ TextKind pos (pos + 1) [] Ht) s1 s1' nd H1. steq H1. apply tripR_mk, stR_setStk, H1. }
  destruct (c =? 93).
  { stepP (cr_parseEndBracket _ _ pos Ht) s1 s1' e H1. apply tripR_mk, H1. }
  destruct (c =? 33).
  { destruct (_ || _); [apply tripR_mk, H|].
    stepP (cr_addNode _ _ TextKind pos (pos + 2) [] Ht) s1 s1' nd H1. steq H1. apply tripR_mk, stR_setStk, H1. }
  destruct (c =? 32).
  { rewrite (cr_parseHardLineBreakSpace _ _ (crRel_sub src src' pos (spanEnd st) Hs)).
    destruct (parseHardLineBreakSpace (sub src pos (spanEnd st))) as [e ok].
    destruct (ok && negb (isLastSpan st)); [|apply tripR_mk, H].
    apply tripR_mk, stR_setIgn, cr_addNode, Ht. }
  destruct (c =? 96).
  { rewrite (cr_parseCodeSpan fuel _ _ pos H). destruct (parseCodeSpan fuel st pos) as [[cS cE] sE].
    destruct (0 <=? sE); [|apply tripR_mk, H]. apply tripR_mk, stR_collectCodeSpan, Ht. }
  destruct (c =? 60).
  { rewrite (cr_parseAutolink _ _ (crRel_sub src src' pos (spanEnd st) Hs)).
    destruct (0 <=? parseAutolink (sub src pos (spanEnd st))); [apply tripR_mk, cr_addNode, Ht|].
    rewrite (cr_parseHTMLTag fuel _ _ (cr_newReader src src' (unpFrom st) pos Hs)).
    destruct (parseHTMLTag fuel (newReader src (unpFrom st) pos)) as [ts te].
    destruct (negb (spanValid (ts, te))); [apply tripR_mk, H|].
    pose proof (stR_addText _ _ plainStart ts H) as Ht2.
    rewrite (cr_unpFrom _ _ Ht2), (cr_ctn fuel _ _ _ _ _ _ _ Hs).
    apply tripR_mk, stR_advanceTo, cr_addNode, Ht2. }
  destruct (c =? 92).
  { stepP (cr_parseBackslash _ _ pos Ht) s1 s1' e H1. apply tripR_mk, H1. }
  destruct (c =? 38).
  { rewrite (cr_parseCharacterEscape _ _ (crRel_sub src src' pos (spanEnd st) Hs)).
    destruct (parseCharacterEscape (sub src pos (spanEnd st)) <? 0); [apply tripR_mk, H|].
    apply tripR_mk, cr_addNode, Ht. }
  (* line endings: LF on the left is CR on the right *)
  rewrite (cr_isLastSpan _ _ Ht).
  destruct (bR_eol _ _ Hc1) as (_ & F2 & _). rewrite F2, andb_false_r.
  destruct (bR_eol _ _ Hc) as (E1 & E2 & E3). rewrite E1, E2, E3.
  destruct (c =? 10); [|apply tripR_mk, H].
  destruct (negb (isLastSpan (addText st plainStart pos))); apply tripR_mk; [apply cr_addNode, Ht|exact Ht].
Qed.

Lemma cr_iloop : forall f st st' pos plainStart, stR st st' -> pairR (iloop f st pos plainStart) (iloop f st' pos plainStart).
Proof.
  induction f as [|f IH]; intros st st' pos plainStart H; [apply pairR_mk, H|]. cbn [iloop].
  rewrite (cr_spanEnd _ _ H). steq H. destruct (_ && _); [|apply pairR_mk, H].
  pose proof (cr_istep st st' pos plainStart H) as (A & B & C).
  destruct (istep st pos plainStart) as [[s1 p1] q1]. destruct (istep st' pos plainStart) as [[s1' p1'] q1'].
  cbn [fst snd] in A, B, C. subst p1' q1'. apply IH, A.
Qed.
Lemma cr_skipSpTab src src' : crRel src src' -> forall f pos lim, skipSpTab f src' pos lim = skipSpTab f src pos lim.
Proof.
  intros H. induction f as [|f IH]; intros pos lim; [reflexivity|]. cbn [skipSpTab].
  rewrite (cr_isSpTab _ _ (crRel_at src src' pos H)), IH. reflexivity.
Qed.
Lemma stR_outer : forall f st st', stR st st' -> stR (outer f st) (outer f st').
Proof.
  induction f as [|f IH]; intros st st' H; [exact H|]. cbn [outer]. cbv zeta. pose proof (stR_src _ _ H) as Hs.
  rewrite (cr_spanEnd _ _ H). steq H. destruct (len (unp st) <=? upos st); [exact H|].
  set (u := nth (Z.to_nat (upos st)) (unp st) (mkI 0 0 0)).
  match goal with |- stR (outer f (setUpos ?X _)) (outer f (setUpos ?X' _)) => assert (HX : stR X X'); [|absR HX x x' HX'] end.
  { destruct (ikind u =? 0); [apply stR_setIgn, H|].
    destruct (ikind u =? IndentKind); [destruct (negb (ign st)); [apply stR_setRk, H|exact H]|].
    destruct (ikind u =? UnparsedKind); [|apply stR_setRk, stR_setIgn, H].
    rewrite (cr_skipSpTab _ _ Hs).
    set (pos := if ign st then skipSpTab (length (isrc st)) (isrc st) (istart u) (spanEnd st) else istart u).
    change (isrc (setIgn st false)) with (isrc st). change (isrc (setIgn st' false)) with (isrc st'). steq H.
    stepP (cr_iloop (S (length (isrc st))) _ _ pos pos (stR_setIgn _ _ false H)) s1 s1' ps1 H1.
    rewrite (cr_spanEnd _ _ H1). apply stR_addText, H1. }
  steq HX'. apply IH, stR_setUpos, HX'.
Qed.

Theorem parseInlines_cr : forall src src' matcher b, crRel src src' -> parseInlines src' matcher b = parseInlines src matcher b.
Proof.
  intros src src' m b H. unfold parseInlines. cbv zeta.
  match goal with |- map toInline (rk (processEmphasis (outer ?f ?s') 0)) = map toInline (rk (processEmphasis (outer ?f ?s) 0)) =>
    assert (H0 : stR s s') by (apply stR_mk, H);
    pose proof (stR_processEmphasis _ _ 0 (stR_outer f s s' H0)) as H1 end.
  rewrite (stR_rk _ _ H1). reflexivity.
Qed.
Print Assumptions parseInlines_cr.
