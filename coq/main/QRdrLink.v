(* QRdrLink.v -- T58: the scanners of Link.v (skipLinkSpace, readEOL, parseLinkLabel, parseLinkDestination, parseLinkTitle)
   on two related readers (QRdrBase.RR, with the inside-or-end clause): same decisions, positions related by sg, ends of the form
   q + 1 |-> sg q + 1. *)
From Coq Require Import List ZArith Lia Bool.
Import ListNotations.
Require Import Base Tree Rdr Link Collect ShapesBase ShapesR IFBase IFLink QuoteSimMap QRdrBase.
Open Scope Z_scope.

Section QL.
  Variables (sD sQ : bytes) (sg : Z -> Z) (IK : list inline).
  Hypothesis S : SGood sD sQ sg.
  Hypothesis IKw : spW sD IK = true.
  Hypothesis IKg : Forall (gsp sD sg) IK.
  Notation RR := (RR sD sQ sg IK true).
  Notation RX := (RX sD sQ sg IK).
  Notation InIK := (InIK IK).
  Notation sgE := (sgE sD sQ sg).

  (* an end: one past a byte of sD *)
  Definition EndR (e e' : Z) : Prop := exists q, 0 <= q < len sD /\ e = q + 1 /\ e' = sg q + 1.
  (* a position *)
  Definition PosR (p p' : Z) : Prop := 0 <= p <= len sD /\ p' = sgE p.

  Lemma RR_pos r r' : RR r r' -> PosR (r_pos r) (r_pos r').
  Proof. intros (_ & _ & _ & _ & _ & _ & P & P' & _). split; assumption. Qed.
  Lemma RR_srcs r r' : RR r r' -> r_src r = sD /\ r_src r' = sQ. Proof. intros (A & B & _). split; assumption. Qed.

  Ltac cpair H r r' c r1 r1' Hn E E' :=
    let Ec := fresh "Ec" in let c' := fresh "c'" in
    pose proof (bRR_current sD sQ sg IK true S r r' H) as [Ec Hn];
    destruct (current r) as [c r1] eqn:E; destruct (current r') as [c' r1'] eqn:E'; cbn [fst snd] in Ec, Hn; subst c'.
  Ltac npair H r r' ok r1 r1' Hn E E' :=
    let Ec := fresh "Eo" in let ok' := fresh "ok'" in
    pose proof (bRR_next sD sQ sg IK true S IKw r r' H) as (Ec & Hn);
    destruct (next r) as [ok r1] eqn:E; destruct (next r') as [ok' r1'] eqn:E'; cbn [fst snd] in Ec, Hn; subst ok'.

  (* the byte that `current` returned, when it is not 0 *)
  Lemma cur_byte r r' c r1 : RR r r' -> current r = (c, r1) -> c <> 0 -> r_pos r < len sD /\ at_ sD (r_pos r) = c.
  Proof. intros H E N. pose proof (bRR_current_nz sD sQ sg IK true S r r' H) as X. rewrite E in X. cbn [fst] in X. destruct (X N) as [A B]. split; [exact A|symmetry; exact B]. Qed.
  Lemma cur_pos r c r1 : current r = (c, r1) -> r_pos r1 = r_pos r /\ r_prev r1 = r_prev r.
  Proof. intros E. pose proof (current_fields r) as F. rewrite E in F. cbn [snd] in F. split; apply F. Qed.

  (* ---------------------------------------------------------------- skipLinkSpace *)
  Lemma q_sls_loop : forall f r r', RR r r' ->
    fst (skipLinkSpace_loop f r') = fst (skipLinkSpace_loop f r) /\
    (fst (skipLinkSpace_loop f r) = true -> RR (snd (skipLinkSpace_loop f r)) (snd (skipLinkSpace_loop f r'))).
  Proof.
    induction f as [|f IH]; intros r r' H; [split; [reflexivity|intros _; exact H]|]. cbn [skipLinkSpace_loop].
    cpair H r r' c r1 r1' H1 Ec1 Ec1'. destruct (isSpaceTabOrLineEnding c); [|split; [reflexivity|intros _; exact H1]].
    npair H1 r1 r1' ok r2 r2' H2 En2 En2'. destruct H2 as (H2 & _ & _). destruct ok; [|split; [reflexivity|discriminate]].
    destruct H2 as [X|[X _]]; [apply IH, X|discriminate X].
  Qed.
  Lemma q_skipLinkSpace f r r' : RR r r' ->
    fst (skipLinkSpace f r') = fst (skipLinkSpace f r) /\ (fst (skipLinkSpace f r) = true -> RR (snd (skipLinkSpace f r)) (snd (skipLinkSpace f r'))).
  Proof.
    intros H. unfold skipLinkSpace. cpair H r r' c r1 r1' H1 Ec1 Ec1'. destruct (c =? 0); [split; [reflexivity|discriminate]|]. apply q_sls_loop, H1.
  Qed.

  (* ---------------------------------------------------------------- skipSpacesAndTabs, readEOL (with adequate fuel) *)
  Lemma pos_at_end r r' c r1 : RR r r' -> current r = (c, r1) -> c = 0 -> r_pos r = len sD.
  Proof.
    intros H E E0. pose proof H as (_ & _ & _ & _ & _ & _ & P & _). destruct (Z.eq_dec (r_pos r) (len sD)) as [El|Nl]; [exact El|]. exfalso.
    pose proof (bRR_current_raw sD sQ sg IK true S r r' H ltac:(lia)) as X. rewrite E in X. cbn [fst] in X. apply (SG_nonul _ _ _ S (r_pos r)); [lia|]. rewrite <- X. exact E0.
  Qed.
  Lemma EndR_end : EndR (len sD) (len sQ).
  Proof. pose proof (SG_pos _ _ _ S). exists (len sD - 1). split; [lia|]. split; [lia|]. symmetry. apply (SG_last _ _ _ S). assumption. Qed.

  Lemma q_sst : forall f r r', RR r r' -> nu sD r < Z.of_nat f ->
    fst (skipSpacesAndTabs f r') = fst (skipSpacesAndTabs f r) /\
    (fst (skipSpacesAndTabs f r) = true -> RR (snd (skipSpacesAndTabs f r)) (snd (skipSpacesAndTabs f r'))) /\
    (fst (skipSpacesAndTabs f r) = false ->
       EndR (r_pos (snd (skipSpacesAndTabs f r))) (r_pos (snd (skipSpacesAndTabs f r'))) /\
       (RR (snd (skipSpacesAndTabs f r)) (snd (skipSpacesAndTabs f r')) \/ RX (snd (skipSpacesAndTabs f r)) (snd (skipSpacesAndTabs f r')))).
  Proof.
    induction f as [|f IH]; intros r r' H Hnu.
    { exfalso. pose proof (nu_nonneg sD r (RR_PL _ _ _ _ _ _ _ H)). lia. }
    cbn [skipSpacesAndTabs]. pose proof (RR_PL _ _ _ _ _ _ _ H) as HPL. pose proof (cur_facts sD r HPL) as (HP1 & Hn1 & Hq1).
    cpair H r r' c r1 r1' H1 Ec1 Ec1'. cbn [snd] in HP1, Hn1, Hq1.
    destruct (isSpTab c) eqn:Esp.
    - assert (Nc : c <> 0) by (intros ->; discriminate Esp).
      destruct (cur_byte r r' c r1 H Ec1 Nc) as [Hlt Hat].
      pose proof (next_W sD r1 HP1) as (_ & _ & _ & Hdec & _).
      pose proof (bRR_next_fail sD sQ sg IK true S r1 r1' eq_refl H1) as Hfail.
      npair H1 r1 r1' ok r2 r2' H2 En2 En2'. cbn [fst snd] in Hdec, Hfail. destruct H2 as (H2 & _ & _). destruct ok.
      + destruct H2 as [X|[X _]]; [|discriminate X]. apply IH; [exact X|]. specialize (Hdec eq_refl). lia.
      + cbn [fst snd]. split; [reflexivity|]. split; [discriminate|]. intros _. destruct (Hfail eq_refl ltac:(lia)) as (F1 & F2 & _).
        split; [exists (r_pos r1); rewrite F1, F2, Hq1; repeat split; try lia; pose proof H as (_ & _ & _ & _ & _ & _ & P & _); lia|].
        destruct H2 as [X|[_ X]]; [left; exact X|right; exact X].
    - cbn [fst snd]. split; [reflexivity|]. destruct (Z.eqb_spec c 0) as [E0|N0]; cbn [negb].
      + split; [discriminate|]. intros _. split; [|left; exact H1].
        pose proof (pos_at_end r r' c r1 H Ec1 E0) as El. pose proof (RR_pos _ _ H1) as [_ Pq]. rewrite Hq1, El in *. rewrite Pq.
        rewrite (bsgE_end sD sQ sg S). apply EndR_end.
      + split; [intros _; exact H1|discriminate].
  Qed.

  (* one step, and the end just behind the byte that was left *)
  Lemma q_next_end r r' : RR r r' -> r_pos r < len sD ->
    r_prev (snd (next r)) = r_pos r /\ r_prev (snd (next r')) = sg (r_pos r) /\
    EndR (r_prev (snd (next r)) + 1) (r_prev (snd (next r')) + 1) /\
    (RR (snd (next r)) (snd (next r')) \/ RX (snd (next r)) (snd (next r'))).
  Proof.
    intros H L. pose proof H as (_ & _ & _ & _ & _ & _ & P & _).
    pose proof (bRR_next sD sQ sg IK true S IKw r r' H) as (E & D & _ & N4). pose proof (bRR_next_fail sD sQ sg IK true S r r' eq_refl H) as NF.
    assert (X : r_prev (snd (next r)) = r_pos r /\ r_prev (snd (next r')) = sg (r_pos r)).
    { destruct (fst (next r)); [destruct (N4 eq_refl) as (A & _ & B); split; assumption|destruct (NF eq_refl L) as (_ & _ & A & B); split; assumption]. }
    destruct X as [X1 X2]. split; [exact X1|]. split; [exact X2|]. split; [exists (r_pos r); rewrite X1, X2; repeat split; lia|].
    destruct D as [D|[_ D]]; [left; exact D|right; exact D].
  Qed.

  Definition EolR (e e' : Z) (r r' : reader) : Prop :=
    (e = -1 /\ e' = -1 /\ RR r r') \/ (EndR e e' /\ (RR r r' \/ RX r r')).

  Lemma q_readEOL f r r' : RR r r' -> nu sD r < Z.of_nat f ->
    EolR (fst (readEOL f r)) (fst (readEOL f r')) (snd (readEOL f r)) (snd (readEOL f r')).
  Proof.
    intros H Hnu. unfold readEOL. destruct (q_sst f r r' H Hnu) as (E1 & T & Fl).
    destruct (skipSpacesAndTabs f r) as [ok r1]. destruct (skipSpacesAndTabs f r') as [ok' r1']. cbn [fst snd] in E1, T, Fl. subst ok'.
    destruct ok; cbn [negb]; [|right; cbn [fst snd]; apply Fl; reflexivity].
    specialize (T eq_refl). clear Fl. cpair T r1 r1' c r2 r2' H2 Ec2 Ec2'.
    assert (Hc : c <> 0 -> r_pos r2 < len sD).
    { intros N. destruct (cur_byte r1 r1' c r2 T Ec2 N) as [A _]. destruct (cur_pos r1 c r2 Ec2) as [B _]. lia. }
    assert (Hnext : forall x x' : reader, RR x x' -> r_pos x < len sD ->
               EolR (fst (let '(_, r3) := next x in (r_prev r3 + 1, r3))) (fst (let '(_, r3) := next x' in (r_prev r3 + 1, r3)))
                    (snd (let '(_, r3) := next x in (r_prev r3 + 1, r3))) (snd (let '(_, r3) := next x' in (r_prev r3 + 1, r3)))).
    { intros x x' Hx Lx. destruct (q_next_end x x' Hx Lx) as (_ & _ & A & B). destruct (next x) as [? x3]. destruct (next x') as [? x3']. cbn [fst snd] in *. right. split; assumption. }
    destruct (Z.eqb_spec c 13) as [E13|N13].
    - specialize (Hc ltac:(lia)). destruct (q_next_end r2 r2' H2 Hc) as (P1 & P2 & A & B).
      pose proof (bRR_next sD sQ sg IK true S IKw r2 r2' H2) as (Eo & Dj & _ & _).
      destruct (next r2) as [ok2 r3]. destruct (next r2') as [ok2' r3']. cbn [fst snd] in *. subst ok2'.
      destruct ok2; cbn [negb]; [|right; cbn [fst snd]; split; assumption].
      destruct Dj as [H3|[X _]]; [|discriminate X]. cpair H3 r3 r3' c2 r4 r4' H4 Ec4 Ec4'. destruct (cur_pos r3 c2 r4 Ec4) as [Q1 Q2]. destruct (cur_pos r3' c2 r4' Ec4') as [Q1' Q2'].
      destruct (Z.eqb_spec c2 10) as [E10|N10].
      + apply Hnext; [exact H4|]. destruct (cur_byte r3 r3' c2 r4 H3 Ec4 ltac:(lia)) as [A0 _]. lia.
      + right. cbn [fst snd]. rewrite Q2, Q2'. split; [exact A|left; exact H4].
    - destruct (Z.eqb_spec c 10) as [E10|N10].
      + apply Hnext; [exact H2|apply Hc; lia].
      + left. cbn [fst snd]. split; [reflexivity|]. split; [reflexivity|exact H2].
  Qed.

  (* ---------------------------------------------------------------- parseLinkLabel *)
  Lemma RR_pos_in r r' : RR r r' -> r_pos r < len sD -> r_pos r' = sg (r_pos r).
  Proof. intros H L. destruct (RR_pos _ _ H) as [_ E]. rewrite E. apply (bsgE_in sD sQ sg S), L. Qed.
  Lemma next_mono r r' : RR r r' -> r_pos r <= r_pos (snd (next r)).
  Proof. intros H. apply (next_W sD r (RR_PL _ _ _ _ _ _ _ H)). Qed.
  Lemma next_end_fails r r' : RR r r' -> r_pos r = len sD -> fst (next r) = false.
  Proof.
    intros H E. pose proof (bRR_next sD sQ sg IK true S IKw r r' H) as (_ & _ & _ & N4). destruct (fst (next r)); [|reflexivity].
    destruct (N4 eq_refl) as (_ & L & _). lia.
  Qed.

  Definition OptR {A} (x x' : option (reader * A)) (P : reader -> A -> reader -> A -> Prop) : Prop :=
    match x, x' with None, None => True | Some (a, u), Some (a', u') => P a u a' u' | _, _ => False end.

  Lemma q_ll_skip : forall f r r' ch, RR r r' ->
    OptR (ll_skip f r ch) (ll_skip f r' ch) (fun x c1 x' c1' => c1' = c1 /\ RR x x' /\ r_pos r <= r_pos x < len sD).
  Proof.
    induction f as [|f IH]; intros r r' ch H; [exact I|]. cbn [ll_skip].
    pose proof (next_mono r r' H) as Hm. pose proof (bRR_next_in sD sQ sg IK true S r r' H) as Hin.
    npair H r r' ok r1 r1' H1 En1 En1'. cbn [fst snd] in Hm, Hin. destruct H1 as (H1 & _ & _). destruct ok; cbn [negb]; [|exact I].
    destruct H1 as [H1|[X _]]; [|discriminate X]. specialize (Hin eq_refl).
    cpair H1 r1 r1' c r2 r2' H2 Ec2 Ec2'. destruct (cur_pos r1 c r2 Ec2) as [Q _].
    destruct (_ || _ || _); [exact I|]. destruct (negb (isSpaceTabOrLineEnding c)).
    - cbn. split; [reflexivity|]. split; [exact H2|lia].
    - specialize (IH r2 r2' (ch + 1) H2). unfold OptR in *. destruct (ll_skip f r2 (ch + 1)) as [[x c1]|]; destruct (ll_skip f r2' (ch + 1)) as [[x' c1']|]; try exact IH.
      destruct IH as (A & B & C). split; [exact A|]. split; [exact B|lia].
  Qed.

  (* the inner end of a label: -1, or one past a byte that is not a line feed, at or after lo *)
  Definition IER (lo ie ie' : Z) : Prop :=
    (ie = -1 /\ ie' = -1) \/ (exists q, lo <= q < len sD /\ at_ sD q <> 10 /\ ie = q + 1 /\ ie' = sg q + 1 /\ InIK q).
  Lemma IER_here lo r r' c r1 : RR r r' -> current r = (c, r1) -> c <> 0 -> negb (isSpaceTabOrLineEnding c) = true -> lo <= r_pos r ->
    IER lo (r_pos r + 1) (r_pos r' + 1).
  Proof.
    intros H E N Hs Hlo. destruct (cur_byte r r' c r1 H E N) as [L A]. right. exists (r_pos r). split; [destruct (RR_pos _ _ H); lia|].
    split; [rewrite A; intros ->; discriminate Hs|]. split; [reflexivity|]. split; [rewrite (RR_pos_in r r' H L); reflexivity|apply (bRR_InIK sD sQ sg IK true r r' eq_refl H L)].
  Qed.

  Lemma q_ll_body : forall f r r' ch lo ie ie', RR r r' -> lo <= r_pos r -> IER lo ie ie' ->
    OptR (ll_body f r ch ie) (ll_body f r' ch ie') (fun x e x' e' => RR x x' /\ IER lo e e' /\ r_pos r <= r_pos x).
  Proof.
    induction f as [|f IH]; intros r r' ch lo ie ie' H Hlo Hie; [exact I|]. cbn [ll_body].
    cpair H r r' c r1 r1' H1 Ec1 Ec1'. destruct (cur_pos r c r1 Ec1) as [Q1 _]. destruct (cur_pos r' c r1' Ec1') as [Q1' _].
    destruct (negb _); [cbn; split; [exact H1|split; [exact Hie|lia]]|].
    (* a step from r1; when the byte is 0 the reader is at the end and the step fails *)
    assert (Hstep : forall (x x' : reader) cx x1, RR x x' -> current x = (cx, x1) -> cx = 0 -> fst (next x1) = false /\ fst (next (snd (current x'))) = false).
    { intros x x' cx x1 Hx Ex E0. pose proof (pos_at_end x x' cx x1 Hx Ex E0) as El. pose proof (bRR_current sD sQ sg IK true S x x' Hx) as [_ Hx1].
      rewrite Ex in Hx1. cbn [snd] in Hx1. destruct (cur_pos x cx x1 Ex) as [Qx _].
      pose proof (next_end_fails x1 _ Hx1 ltac:(lia)) as F. split; [exact F|]. pose proof (bRR_next sD sQ sg IK true S IKw _ _ Hx1) as (Eo & _). rewrite Eo. exact F. }
    destruct (Z.eqb_spec c 92) as [E92|N92].
    - assert (Hie1 : IER lo (r_pos r1 + 1) (r_pos r1' + 1)).
      { rewrite Q1, Q1'. apply (IER_here lo r r' c r1 H Ec1); [lia|subst c; reflexivity|exact Hlo]. }
      pose proof (next_mono r1 r1' H1) as Hm1.
      npair H1 r1 r1' ok r2 r2' H2 En2 En2'. cbn [fst snd] in Hm1. destruct H2 as (H2 & _ & _). destruct ok; cbn [negb]; [|exact I].
      destruct H2 as [H2|[X _]]; [|discriminate X].
      cpair H2 r2 r2' c2 r3 r3' H3 Ec3 Ec3'. destruct (cur_pos r2 c2 r3 Ec3) as [Q3 _]. destruct (cur_pos r2' c2 r3' Ec3') as [Q3' _].
      destruct (Z.eq_dec c2 0) as [E0|N0].
      + destruct (Hstep r2 r2' c2 r3 H2 Ec3 E0) as [F1 F2]. rewrite Ec3' in F2. cbn [snd] in F2.
        destruct (next r3) as [ok3 r4]. destruct (next r3') as [ok3' r4']. cbn [fst] in F1, F2. subst ok3 ok3'. exact I.
      + assert (Hie3 : IER lo (if negb (isSpaceTabOrLineEnding c2) then r_pos r3 + 1 else r_pos r1 + 1)
                             (if negb (isSpaceTabOrLineEnding c2) then r_pos r3' + 1 else r_pos r1' + 1)).
        { destruct (negb (isSpaceTabOrLineEnding c2)) eqn:Es; [|exact Hie1]. rewrite Q3, Q3'. apply (IER_here lo r2 r2' c2 r3 H2 Ec3 N0 Es). lia. }
        pose proof (next_mono r3 r3' H3) as Hm3.
        npair H3 r3 r3' ok3 r4 r4' H4 En4 En4'. cbn [fst snd] in Hm3. destruct H4 as (H4 & _ & _). destruct ok3; cbn [negb]; [|exact I].
        destruct H4 as [H4|[X _]]; [|discriminate X].
        specialize (IH r4 r4' (ch + 1 + 1) lo _ _ H4 ltac:(lia) Hie3). unfold OptR in *.
        destruct (ll_body f r4 _ _) as [[x e]|]; destruct (ll_body f r4' _ _) as [[x' e']|]; try exact IH. destruct IH as (A & B & C). split; [exact A|]. split; [exact B|lia].
    - destruct (Z.eq_dec c 0) as [E0|N0].
      + destruct (Hstep r r' c r1 H Ec1 E0) as [F1 F2]. rewrite Ec1' in F2. cbn [snd] in F2.
        destruct (next r1) as [ok1 r2]. destruct (next r1') as [ok1' r2']. cbn [fst] in F1, F2. subst ok1 ok1'. exact I.
      + assert (Hie1 : IER lo (if negb (isSpaceTabOrLineEnding c) then r_pos r1 + 1 else ie) (if negb (isSpaceTabOrLineEnding c) then r_pos r1' + 1 else ie')).
        { destruct (negb (isSpaceTabOrLineEnding c)) eqn:Es; [|exact Hie]. rewrite Q1, Q1'. apply (IER_here lo r r' c r1 H Ec1 N0 Es Hlo). }
        pose proof (next_mono r1 r1' H1) as Hm1.
        npair H1 r1 r1' ok r2 r2' H2 En2 En2'. cbn [fst snd] in Hm1. destruct H2 as (H2 & _ & _). destruct ok; cbn [negb]; [|exact I].
        destruct H2 as [H2|[X _]]; [|discriminate X].
        specialize (IH r2 r2' (ch + 1) lo _ _ H2 ltac:(lia) Hie1). unfold OptR in *.
        destruct (ll_body f r2 _ _) as [[x e]|]; destruct (ll_body f r2' _ _) as [[x' e']|]; try exact IH. destruct IH as (A & B & C). split; [exact A|]. split; [exact B|lia].
  Qed.

  (* the result of parseLinkLabel *)
  Definition LabR (ls li : Z * Z) (x : reader) (ls' li' : Z * Z) (x' : reader) : Prop :=
    (ls = nullSpan /\ ls' = nullSpan) \/
    (RR x x' /\ 0 <= fst ls < len sD /\ fst ls' = sg (fst ls) /\ EndR (snd ls) (snd ls') /\
     fst ls <= fst li < len sD /\ fst li' = sg (fst li) /\ IER (fst li) (snd li) (snd li') /\ fst ls < snd ls /\ InIK (fst li)).

  Lemma q_parseLinkLabel f r r' : RR r r' ->
    LabR (fst (fst (parseLinkLabel f r))) (snd (fst (parseLinkLabel f r))) (snd (parseLinkLabel f r))
         (fst (fst (parseLinkLabel f r'))) (snd (fst (parseLinkLabel f r'))) (snd (parseLinkLabel f r')).
  Proof.
    intros H. unfold parseLinkLabel. cpair H r r' c r0 r0' H0 Ec0 Ec0'. destruct (cur_pos r c r0 Ec0) as [Q0 _].
    destruct (Z.eqb_spec c 91) as [E91|N91]; cbn [negb]; [|left; split; reflexivity].
    destruct (cur_byte r r' c r0 H Ec0 ltac:(lia)) as [L0 A0].
    pose proof (q_ll_skip f r0 r0' 0 H0) as HS. unfold OptR in HS.
    destruct (ll_skip f r0 0) as [[r1 chars]|]; destruct (ll_skip f r0' 0) as [[r1' chars']|]; try (exfalso; exact HS); [|left; split; reflexivity].
    destruct HS as (-> & H1 & P1).
    pose proof (q_ll_body f r1 r1' chars (r_pos r1) (-1) (-1) H1 ltac:(lia) ltac:(left; split; reflexivity)) as HB. unfold OptR in HB.
    destruct (ll_body f r1 chars (-1)) as [[r2 ie]|]; destruct (ll_body f r1' chars (-1)) as [[r2' ie']|]; try (exfalso; exact HB); [|left; split; reflexivity].
    destruct HB as (H2 & Hie & P2).
    cpair H2 r2 r2' c2 r3 r3' H3 Ec3 Ec3'. destruct (cur_pos r2 c2 r3 Ec3) as [Q3 _]. destruct (cur_pos r2' c2 r3' Ec3') as [Q3' _].
    destruct (Z.eqb_spec c2 93) as [E93|N93]; cbn [negb]; [|left; split; reflexivity].
    destruct (cur_byte r2 r2' c2 r3 H2 Ec3 ltac:(lia)) as [L2 A2].
    pose proof (bRR_next sD sQ sg IK true S IKw r3 r3' H3) as (_ & _ & N3 & _).
    destruct (next r3) as [ok4 r4]. destruct (next r3') as [ok4' r4']. cbn [fst snd] in *.
    right. split; [apply N3; rewrite Q3, A2; lia|]. pose proof (RR_pos _ _ H0) as [Pz _]. cbn [fst snd].
    split; [lia|]. split; [rewrite (RR_pos_in r0 r0' H0); [reflexivity|lia]|].
    split; [exists (r_pos r3); rewrite (RR_pos_in r3 r3' H3) by lia; repeat split; lia|].
    split; [lia|]. split; [apply (RR_pos_in r1 r1' H1); lia|]. split; [exact Hie|]. split; [lia|apply (bRR_InIK sD sQ sg IK true r1 r1' eq_refl H1); lia].
  Qed.

  (* ---------------------------------------------------------------- destination and title *)
  (* a step away from a byte that is not a line feed *)
  Lemma q_step r r' : RR r r' -> r_pos r < len sD -> at_ sD (r_pos r) <> 10 ->
    fst (next r') = fst (next r) /\ RR (snd (next r)) (snd (next r')) /\ r_pos (snd (next r)) = r_pos r + 1 /\
    r_prev (snd (next r)) = r_pos r /\ r_prev (snd (next r')) = sg (r_pos r).
  Proof.
    intros H L N. pose proof (bRR_next sD sQ sg IK true S IKw r r' H) as (E & _ & N3 & _). destruct (q_next_end r r' H L) as (P1 & P2 & _).
    split; [exact E|]. split; [apply N3, N|]. split; [|split; assumption].
    destruct (fst (next r)) eqn:Ef; [apply (bRR_next_pos sD sQ sg IK true S r r' H Ef N)|apply (bRR_next_fail sD sQ sg IK true S r r' eq_refl H Ef L)].
  Qed.

  (* spans delimited by an opening byte at st and a closing byte at q: (st, q + 1) and the text (st + 1, q) *)
  Definition DelimR (sp tx : Z * Z) (x : reader) (sp' tx' : Z * Z) (x' : reader) (st st' : Z) : Prop :=
    (sp = nullSpan /\ sp' = nullSpan) \/
    (RR x x' /\ exists q, st < q < len sD /\ sp = (st, q + 1) /\ tx = (st + 1, q) /\ sp' = (st', sg q + 1) /\ tx' = (st' + 1, sg q) /\ InIK q).

  Lemma q_ld_angle : forall f r r' st st', RR r r' -> st <= r_pos r ->
    DelimR (fst (fst (ld_angle f r st))) (snd (fst (ld_angle f r st))) (snd (ld_angle f r st))
           (fst (fst (ld_angle f r' st'))) (snd (fst (ld_angle f r' st'))) (snd (ld_angle f r' st')) st st'.
  Proof.
    induction f as [|f IH]; intros r r' st st' H Hst; [left; split; reflexivity|]. cbn [ld_angle].
    pose proof (next_mono r r' H) as Hm. pose proof (bRR_next_in sD sQ sg IK true S r r' H) as Hin. pose proof (bRR_next sD sQ sg IK true S IKw r r' H) as (_ & _ & _ & N4).
    npair H r r' ok r1 r1' H1 En1 En1'. cbn [fst snd] in Hm, Hin, N4. destruct H1 as (H1 & _ & _). destruct ok; cbn [negb]; [|left; split; reflexivity].
    destruct H1 as [H1|[X _]]; [|discriminate X]. specialize (Hin eq_refl). destruct (N4 eq_refl) as (_ & Lr & _).
    assert (Hlt : st < r_pos r1).
    { destruct (Z.eq_dec (r_pos r1) (r_pos r)) as [E|E]; [|lia]. exfalso.
      pose proof (next_W sD r (RR_PL _ _ _ _ _ _ _ H)) as (_ & _ & _ & Hd & _). rewrite En1 in Hd. cbn [fst snd] in Hd. specialize (Hd eq_refl).
      (* a successful step moves the position: spans are not Indent entries *)
      pose proof (bRR_next sD sQ sg IK true S IKw r r' H) as (_ & _ & _ & N4'). rewrite En1 in N4'. cbn [fst snd] in N4'. destruct (N4' eq_refl) as (Pv & _ & _).
      destruct (Z.eq_dec (at_ sD (r_pos r)) 10) as [E10|N10].
      - (* from a line feed the reader jumps forward *)
        pose proof (bRR_curNode_in sD sQ sg IK true S r r') as CI. destruct (bRR_inside sD sQ sg IK true S r r' eq_refl H Lr) as (n & En). destruct (CI n H En) as ((Ga & Gb & Gc & Gt & Gk & Gl) & Hn & _).
        unfold next in En1. destruct (curNode r) as [cn rr] eqn:Ecn. cbn [fst] in En. subst cn.
        assert (Epr : r_pos rr = r_pos r) by (pose proof (curNode_fields r) as F; rewrite Ecn in F; apply F).
        apply (unp_ne) in Gk. rewrite Gk in En1. cbn [andb negb] in En1. rewrite Epr in En1.
        destruct (Z.ltb_spec (r_pos r + 1) (iend n)); [inversion En1; subst; cbn in E; lia|].
        destruct (nextSpan (tl (r_spans rr))) as [[i sp]|] eqn:Ens; [|discriminate En1]. inversion En1; subst. cbn in E.
        pose proof H1 as (_ & _ & _ & G1 & W1 & _). cbn [r_spans] in G1, W1. destruct (nextSpan_split _ _ _ Ens) as (pre' & rest' & _ & Esp). subst sp.
        assert (Hrr : exists rest, r_spans rr = n :: rest).
        { destruct (curNode_cases r) as [E0|(pre & m & rest & _ & E0 & _)]; rewrite E0 in Ecn; inversion Ecn; subst. exists rest. reflexivity. }
        destruct Hrr as (rest & Err). pose proof (bRR_curNode sD sQ sg IK true S r r' H) as [_ Hrr]. rewrite Ecn in Hrr. cbn [snd] in Hrr. destruct Hrr as (_ & _ & _ & _ & Wrr & _).
        rewrite Err in Wrr, Ens. cbn [tl] in Ens. pose proof (spW_cons _ _ _ Wrr) as (_ & _ & _ & D & _).
        destruct (nextSpan_split _ _ _ Ens) as (pre2 & rest2 & Ea & _). specialize (D i ltac:(rewrite Ea; apply in_or_app; right; left; reflexivity)). lia.
      - pose proof (bRR_next_pos sD sQ sg IK true S r r' H) as NP. rewrite En1 in NP. cbn [fst snd] in NP. specialize (NP eq_refl N10). lia. }
    cpair H1 r1 r1' c r2 r2' H2 Ec2 Ec2'. destruct (cur_pos r1 c r2 Ec2) as [Q2 _]. destruct (cur_pos r1' c r2' Ec2') as [Q2' _].
    destruct (_ || _); [left; split; reflexivity|].
    destruct (Z.eqb_spec c 92) as [E92|N92].
    - pose proof (next_mono r2 r2' H2) as Hm2.
      npair H2 r2 r2' ok2 r3 r3' H3 En3 En3'. cbn [fst snd] in Hm2. destruct H3 as (H3 & _ & _). destruct ok2; cbn [negb]; [|left; split; reflexivity].
      destruct H3 as [H3|[X _]]; [|discriminate X]. cpair H3 r3 r3' c3 r4 r4' H4 Ec4 Ec4'. destruct (cur_pos r3 c3 r4 Ec4) as [Q4 _].
      destruct (_ || _); [left; split; reflexivity|]. apply IH; [exact H4|lia].
    - destruct (Z.eqb_spec c 62) as [E62|N62]; [|apply IH; [exact H2|lia]].
      destruct (cur_byte r1 r1' c r2 H1 Ec2 ltac:(lia)) as [L1 A1].
      destruct (q_step r2 r2' H2 ltac:(lia) ltac:(rewrite Q2, A1; lia)) as (_ & Hr3 & _ & Pv & Pv').
      destruct (next r2) as [ok3 r3]. destruct (next r2') as [ok3' r3']. cbn [fst snd] in *.
      right. split; [exact Hr3|]. exists (r_pos r1). rewrite Pv, Pv', Q2. split; [lia|]. split; [reflexivity|]. split; [reflexivity|]. split; [reflexivity|]. split; [reflexivity|]. apply (bRR_InIK sD sQ sg IK true r1 r1' eq_refl H1 L1).
  Qed.

  (* a successful step moves forward (the spans are not Indent entries) *)
  Lemma q_next_strict r r' : RR r r' -> fst (next r) = true -> r_pos r < r_pos (snd (next r)).
  Proof.
    intros H Hok. pose proof (bRR_next sD sQ sg IK true S IKw r r' H) as (_ & _ & _ & N4). destruct (N4 Hok) as (_ & Lr & _).
    destruct (Z.eq_dec (at_ sD (r_pos r)) 10) as [E10|N10]; [|rewrite (bRR_next_pos sD sQ sg IK true S r r' H Hok N10); lia].
    destruct (bRR_inside sD sQ sg IK true S r r' eq_refl H Lr) as (n & En). destruct (bRR_curNode_in sD sQ sg IK true S r r' n H En) as ((Ga & Gb & Gc & Gt & Gk & Gl) & Hn & _).
    pose proof (bRR_curNode sD sQ sg IK true S r r' H) as [_ Hrr].
    unfold next in *. destruct (curNode r) as [cn rr] eqn:Ecn. cbn [fst snd] in En, Hrr. subst cn.
    assert (Epr : r_pos rr = r_pos r) by (pose proof (curNode_fields r) as F; rewrite Ecn in F; apply F).
    apply (unp_ne) in Gk. rewrite Gk in *. cbn [andb negb] in *. rewrite Epr in *.
    destruct (Z.ltb_spec (r_pos r + 1) (iend n)); [cbn; lia|].
    assert (Hsp : exists rest, r_spans rr = n :: rest).
    { destruct (curNode_cases r) as [E0|(pre & m & rest & _ & E0 & _)]; rewrite E0 in Ecn; inversion Ecn; subst. exists rest. reflexivity. }
    destruct Hsp as (rest & Err). destruct Hrr as (_ & _ & _ & _ & Wrr & _). rewrite Err in *. cbn [tl] in *.
    destruct (nextSpan rest) as [[i sp]|] eqn:Ens; [|discriminate Hok]. cbn.
    pose proof (spW_cons _ _ _ Wrr) as (_ & _ & _ & D & _). destruct (nextSpan_split _ _ _ Ens) as (pre2 & rest2 & Ea & _).
    specialize (D i ltac:(rewrite Ea; apply in_or_app; right; left; reflexivity)). lia.
  Qed.

  Lemma q_lt_loop : forall f r r' st st' term, RR r r' -> st <= r_pos r -> term <> 10 ->
    DelimR (fst (fst (lt_loop f r st term))) (snd (fst (lt_loop f r st term))) (snd (lt_loop f r st term))
           (fst (fst (lt_loop f r' st' term))) (snd (fst (lt_loop f r' st' term))) (snd (lt_loop f r' st' term)) st st'.
  Proof.
    induction f as [|f IH]; intros r r' st st' term H Hst Ht; [left; split; reflexivity|]. cbn [lt_loop].
    pose proof (q_next_strict r r' H) as Hm.
    npair H r r' ok r1 r1' H1 En1 En1'. cbn [fst snd] in Hm. destruct H1 as (H1 & _ & _). destruct ok; cbn [negb]; [|left; split; reflexivity].
    destruct H1 as [H1|[X _]]; [|discriminate X]. specialize (Hm eq_refl).
    cpair H1 r1 r1' c r2 r2' H2 Ec2 Ec2'. destruct (cur_pos r1 c r2 Ec2) as [Q2 _].
    destruct (Z.eqb_spec c 92) as [E92|N92].
    - pose proof (next_mono r2 r2' H2) as Hm2.
      npair H2 r2 r2' ok2 r3 r3' H3 En3 En3'. cbn [fst snd] in Hm2. destruct H3 as (H3 & _ & _). destruct ok2; cbn [negb]; [|left; split; reflexivity].
      destruct H3 as [H3|[X _]]; [|discriminate X]. apply IH; [exact H3|lia|exact Ht].
    - destruct (Z.eqb_spec c term) as [Et|Nt]; [|apply IH; [exact H2|lia|exact Ht]].
      assert (Nc : c <> 0).
      { intros E0. pose proof (pos_at_end r1 r1' c r2 H1 Ec2 E0) as El. pose proof (bRR_next_in sD sQ sg IK true S r r' H) as Hin. rewrite En1 in Hin. cbn [fst snd] in Hin. specialize (Hin eq_refl). lia. }
      destruct (cur_byte r1 r1' c r2 H1 Ec2 Nc) as [L1 A1].
      destruct (q_step r2 r2' H2 ltac:(lia) ltac:(rewrite Q2, A1; lia)) as (_ & Hr3 & _ & Pv & Pv').
      destruct (next r2) as [ok3 r3]. destruct (next r2') as [ok3' r3']. cbn [fst snd] in *.
      right. split; [exact Hr3|]. exists (r_pos r1). rewrite Pv, Pv', Q2. split; [lia|]. split; [reflexivity|]. split; [reflexivity|]. split; [reflexivity|]. split; [reflexivity|]. apply (bRR_InIK sD sQ sg IK true r1 r1' eq_refl H1 L1).
  Qed.

  (* the bare destination *)
  Definition NL (x : Z) : Prop := at_ sD x <> 10 /\ InIK x.
  Lemma q_ld_bare : forall f r r' paren, RR r r' ->
    RR (ld_bare f r paren) (ld_bare f r' paren) /\
    ((r_pos (ld_bare f r paren) = r_pos r /\ (f = O \/ isASCIIControl (fst (current r)) || (fst (current r) =? 32) = true \/ (fst (current r) = 41 /\ paren - 1 < 0))) \/
     (r_pos r < r_pos (ld_bare f r paren) /\ NL (r_pos (ld_bare f r paren) - 1))).
  Proof.
    induction f as [|f IH]; intros r r' paren H; [split; [exact H|left; split; [reflexivity|left; reflexivity]]|]. cbn [ld_bare].
    cpair H r r' c r1 r1' H1 Ec1 Ec1'. destruct (cur_pos r c r1 Ec1) as [Q1 _].
    destruct (isASCIIControl c || (c =? 32)) eqn:Ectl; [split; [exact H1|left; split; [exact Q1|right; left; cbn [fst]; exact Ectl]]|].
    assert (Nc0 : c <> 0) by (intros ->; discriminate Ectl). assert (Nc10 : c <> 10) by (intros ->; discriminate Ectl).
    destruct (cur_byte r r' c r1 H Ec1 Nc0) as [L A].
    assert (HNL : NL (r_pos r)) by (split; [rewrite A; exact Nc10|apply (bRR_InIK sD sQ sg IK true r r' eq_refl H L)]).
    (* one consuming step from r1, then the rest *)
    assert (Hcons : forall k : reader -> reader, (forall x x', RR x x' -> RR (k x) (k x') /\ (r_pos (k x) = r_pos x \/ (r_pos x < r_pos (k x) /\ NL (r_pos (k x) - 1)))) ->
              RR (let '(ok, r2) := next r1 in if ok then k r2 else r2) (let '(ok, r2) := next r1' in if ok then k r2 else r2) /\
              (r_pos r < r_pos (let '(ok, r2) := next r1 in if ok then k r2 else r2) /\ NL (r_pos (let '(ok, r2) := next r1 in if ok then k r2 else r2) - 1))).
    { intros k Hk. destruct (q_step r1 r1' H1 ltac:(lia) ltac:(rewrite Q1, A; exact Nc10)) as (Eo & Hr2 & Ep & _).
      destruct (next r1) as [ok r2]. destruct (next r1') as [ok' r2']. cbn [fst snd] in *. subst ok'. destruct ok.
      - destruct (Hk r2 r2' Hr2) as [K1 K2]. split; [exact K1|]. destruct K2 as [K2|[K2 K3]]; [rewrite K2, Ep, Q1; replace (r_pos r + 1 - 1) with (r_pos r) by lia; split; [lia|exact HNL]|split; [lia|exact K3]].
      - split; [exact Hr2|]. rewrite Ep, Q1. replace (r_pos r + 1 - 1) with (r_pos r) by lia. split; [lia|exact HNL]. }
    assert (Hmk : forall (A0 B0 : reader), RR A0 B0 /\ (r_pos r < r_pos A0 /\ NL (r_pos A0 - 1)) ->
               RR A0 B0 /\ ((r_pos A0 = r_pos r /\ (Datatypes.S f = O \/ isASCIIControl (fst (c, r1)) || (fst (c, r1) =? 32) = true \/ (fst (c, r1) = 41 /\ paren - 1 < 0))) \/
                            (r_pos r < r_pos A0 /\ NL (r_pos A0 - 1)))) by (intros A0 B0 [X Y]; split; [exact X|right; exact Y]).
    assert (IH' : forall pr x x', RR x x' -> RR (ld_bare f x pr) (ld_bare f x' pr) /\ (r_pos (ld_bare f x pr) = r_pos x \/ (r_pos x < r_pos (ld_bare f x pr) /\ NL (r_pos (ld_bare f x pr) - 1)))).
    { intros pr x x' Hx. destruct (IH x x' pr Hx) as [K1 [[K2 _]|K2]]; (split; [exact K1|]); [left; exact K2|right; exact K2]. }
    destruct (Z.eqb_spec c 92) as [E92|N92].
    - (* an escape: two bytes *)
      destruct (q_step r1 r1' H1 ltac:(lia) ltac:(rewrite Q1, A; exact Nc10)) as (Eo & Hr2 & Ep & _).
      destruct (next r1) as [ok r2]. destruct (next r1') as [ok' r2']. cbn [fst snd] in *. subst ok'.
      assert (Hp2 : r_pos r < r_pos r2 /\ NL (r_pos r2 - 1)) by (rewrite Ep, Q1; replace (r_pos r + 1 - 1) with (r_pos r) by lia; split; [lia|exact HNL]).
      destruct ok; cbn [negb]; [|apply Hmk; split; [exact Hr2|exact Hp2]].
      cpair Hr2 r2 r2' c2 r3 r3' H3 Ec3 Ec3'. destruct (cur_pos r2 c2 r3 Ec3) as [Q3 _].
      destruct (isASCIIControl c2 || (c2 =? 32)) eqn:Ectl2; [apply Hmk; split; [exact H3|rewrite Q3; exact Hp2]|].
      assert (Nc20 : c2 <> 0) by (intros ->; discriminate Ectl2). assert (Nc210 : c2 <> 10) by (intros ->; discriminate Ectl2).
      destruct (cur_byte r2 r2' c2 r3 Hr2 Ec3 Nc20) as [L2 A2].
      assert (HNL2 : NL (r_pos r2)) by (split; [rewrite A2; exact Nc210|apply (bRR_InIK sD sQ sg IK true r2 r2' eq_refl Hr2 L2)]).
      destruct (q_step r3 r3' H3 ltac:(lia) ltac:(rewrite Q3, A2; exact Nc210)) as (Eo4 & Hr4 & Ep4 & _).
      destruct (next r3) as [ok4 r4]. destruct (next r3') as [ok4' r4']. cbn [fst snd] in *. subst ok4'.
      assert (Hp4 : r_pos r < r_pos r4 /\ NL (r_pos r4 - 1)) by (rewrite Ep4, Q3; replace (r_pos r2 + 1 - 1) with (r_pos r2) by lia; split; [lia|exact HNL2]).
      destruct ok4; [|apply Hmk; split; [exact Hr4|exact Hp4]].
      destruct (IH' paren r4 r4' Hr4) as [K1 K2]. split; [exact K1|]. right. destruct K2 as [K2|[K2 K3]]; [rewrite K2; exact Hp4|split; [lia|exact K3]].
    - destruct (Z.eqb_spec c 40) as [E40|N40]; [apply Hmk, (Hcons (fun x => ld_bare f x (paren + 1))); intros x x' Hx; apply IH', Hx|].
      destruct (Z.eqb_spec c 41) as [E41|N41].
      + destruct (Z.ltb_spec (paren - 1) 0); [split; [exact H1|left; split; [exact Q1|right; right; cbn [fst]; split; [exact E41|assumption]]]|]. apply Hmk, (Hcons (fun x => ld_bare f x (paren - 1))). intros x x' Hx; apply IH', Hx.
      + apply Hmk, (Hcons (fun x => ld_bare f x paren)). intros x x' Hx; apply IH', Hx.
  Qed.


  (* a span with its text range *)
  (* the end of a text range: inside a span, or just behind a byte of a span that is not a line feed *)
  Definition EOKe (e : Z) : Prop := InIK e \/ (InIK (e - 1) /\ at_ sD (e - 1) <> 10).
  Definition SpTxR (sp tx : Z * Z) (x : reader) (sp' tx' : Z * Z) (x' : reader) : Prop :=
    (sp = nullSpan /\ sp' = nullSpan) \/
    (RR x x' /\ 0 <= fst sp < len sD /\ fst sp' = sg (fst sp) /\ fst sp < snd sp /\ EndR (snd sp) (snd sp') /\
     fst sp <= fst tx /\ fst tx <= snd tx /\ snd tx <= len sD /\ fst tx' = sgE (fst tx) /\ snd tx' = sgE (snd tx) /\
     InIK (fst tx) /\ EOKe (snd tx)).

  Lemma InIK_succ p : InIK p -> at_ sD p <> 10 -> p + 1 < len sD -> InIK (p + 1).
  Proof.
    intros (u & Hu & Hin) N L. exists u. split; [exact Hu|]. rewrite Forall_forall in IKg. destruct (IKg u Hu) as (_ & _ & Gc & _ & _ & [Gl|Gl]).
    - destruct (Z.eq_dec (p + 1) (iend u)) as [E|E]; [exfalso; apply N; replace p with (iend u - 1) by lia; exact Gl|lia].
    - lia.
  Qed.

  Lemma DelimR_SpTxR sp tx x sp' tx' x' st st' : 0 <= st < len sD -> at_ sD st <> 10 -> st' = sg st -> InIK st ->
    DelimR sp tx x sp' tx' x' st st' -> SpTxR sp tx x sp' tx' x'.
  Proof.
    intros Hst N E Hi [D|(Hx & q & Hq & -> & -> & -> & -> & Hiq)]; [left; exact D|]. right. cbn [fst snd]. subst st'.
    split; [exact Hx|]. split; [lia|]. split; [reflexivity|]. split; [lia|]. split; [exists q; repeat split; lia|].
    split; [lia|]. split; [lia|]. split; [lia|]. split; [symmetry; apply (bsgE_succ sD sQ sg S); [lia|left; exact N]|].
    split; [symmetry; apply (bsgE_in sD sQ sg S); lia|]. split; [apply InIK_succ; [exact Hi|exact N|lia]|left; exact Hiq].
  Qed.

  Lemma q_parseLinkDestination f r r' : RR r r' -> f <> O ->
    SpTxR (fst (fst (parseLinkDestination f r))) (snd (fst (parseLinkDestination f r))) (snd (parseLinkDestination f r))
          (fst (fst (parseLinkDestination f r'))) (snd (fst (parseLinkDestination f r'))) (snd (parseLinkDestination f r')).
  Proof.
    intros H Hf. unfold parseLinkDestination. cpair H r r' c r0 r0' H0 Ec0 Ec0'. destruct (cur_pos r c r0 Ec0) as [Q0 _].
    pose proof (RR_pos _ _ H0) as [Pz _].
    destruct (Z.eqb_spec c 60) as [E60|N60].
    - destruct (cur_byte r r' c r0 H Ec0 ltac:(lia)) as [L A].
      apply (DelimR_SpTxR _ _ _ _ _ _ (r_pos r0) (r_pos r0')); [lia|rewrite Q0, A; lia|apply (RR_pos_in r0 r0' H0); lia|rewrite Q0; apply (bRR_InIK sD sQ sg IK true r r' eq_refl H L)|].
      apply q_ld_angle; [exact H0|lia].
    - destruct (negb (isASCIIControl c) && negb (c =? 32) && negb (c =? 41)) eqn:Ecnd; [|left; split; reflexivity].
      apply andb_true_iff in Ecnd. destruct Ecnd as [Ecnd E41]. apply andb_true_iff in Ecnd. destruct Ecnd as [E1 E2]. apply negb_true_iff in E1, E2, E41.
      assert (Nc0 : c <> 0) by (intros ->; discriminate E1).
      destruct (cur_byte r r' c r0 H Ec0 Nc0) as [L A].
      destruct (q_ld_bare f r0 r0' 0 H0) as [Hb Hp]. cbn [fst snd].
      pose proof (current_current r) as CC. rewrite Ec0 in CC. cbn [snd] in CC. rewrite CC in Hp. cbn [fst] in Hp.
      destruct Hp as [[_ [Hp|[Hp|[Hp _]]]]|[Hp1 [Hp2 Hp3]]]; [contradiction|rewrite E1, E2 in Hp; cbn in Hp; discriminate Hp|rewrite Hp in E41; vm_compute in E41; discriminate E41|].
      pose proof (RR_pos _ _ Hb) as [Pb Pb'].
      right. cbn [fst snd]. split; [exact Hb|]. split; [lia|]. split; [apply (RR_pos_in r0 r0' H0); lia|]. split; [lia|].
      split; [exists (r_pos (ld_bare f r0 0) - 1); split; [lia|]; split; [lia|]; rewrite Pb'; replace (r_pos (ld_bare f r0 0)) with (r_pos (ld_bare f r0 0) - 1 + 1) at 1 by lia; apply (bsgE_succ sD sQ sg S); [lia|left; exact Hp2]|].
      split; [lia|]. split; [lia|]. split; [lia|]. split; [rewrite (bsgE_in sD sQ sg S) by lia; apply (RR_pos_in r0 r0' H0); lia|]. split; [exact Pb'|].
      split; [rewrite Q0; apply (bRR_InIK sD sQ sg IK true r r' eq_refl H L)|right; split; [exact Hp3|exact Hp2]].
  Qed.

  Lemma q_parseLinkTitle f r r' : RR r r' ->
    SpTxR (fst (fst (parseLinkTitle f r))) (snd (fst (parseLinkTitle f r))) (snd (parseLinkTitle f r))
          (fst (fst (parseLinkTitle f r'))) (snd (fst (parseLinkTitle f r'))) (snd (parseLinkTitle f r')).
  Proof.
    intros H. unfold parseLinkTitle. cpair H r r' c r0 r0' H0 Ec0 Ec0'. destruct (cur_pos r c r0 Ec0) as [Q0 _].
    pose proof (RR_pos _ _ H0) as [Pz _].
    destruct ((c =? 39) || (c =? 34) || (c =? 40)) eqn:Ecnd; cbn [negb]; [|left; split; reflexivity].
    assert (Nc0 : c <> 0) by (intros ->; discriminate Ecnd). assert (Nc10 : c <> 10) by (intros ->; discriminate Ecnd).
    destruct (cur_byte r r' c r0 H Ec0 Nc0) as [L A].
    apply (DelimR_SpTxR _ _ _ _ _ _ (r_pos r0) (r_pos r0')); [lia|rewrite Q0, A; exact Nc10|apply (RR_pos_in r0 r0' H0); lia|rewrite Q0; apply (bRR_InIK sD sQ sg IK true r r' eq_refl H L)|].
    apply q_lt_loop; [exact H0|lia|]. destruct (c =? 40); [discriminate|exact Nc10].
  Qed.
End QL.
