(* ChkW7.v -- T30, stage 2: the invariant W under growth of the source, under the shift of pending blocks, and through the
   driver (lineLoop, skipLoop, nextBlock, allBlocks). *)
From Coq Require Import List ZArith Lia Bool.
Import ListNotations.
Require Import Base Tables Utf8 Tree Rdr Link Collect Html Recog LP Rules Starts Driver Leaf3e RdrBound
  L2Kind L2Kind2 L2CC L2CCfull L2Bnd L2BndS Rec16 Rec17 Rec18 ShapesBase
  BSDef BSRdr BSTree BSOcp BSOrph BSClose BSLine1 BSLine10 BSShift BlockSpans ShDef GramDefs GramTree GramLP GramLP4 GramBlocks
  ChkW1 ChkW2 ChkW3 ChkW4 ChkW5 ChkW6.
Open Scope Z_scope.

(* ---- growth of the source ---- *)
Lemma sub_app_same (a x : bytes) s e : 0 <= s -> e <= len a -> sub (a ++ x) s e = sub a s e.
Proof.
  intros Hs He. destruct (Z.le_gt_cases e s) as [L|L].
  - unfold sub, upto. replace (Z.to_nat (e - s)) with O by lia. reflexivity.
  - unfold sub, from_, upto, len in *. rewrite skipn_app, firstn_app.
    replace (Z.to_nat s - length a)%nat with O by lia. cbn [skipn].
    rewrite skipn_length. replace (Z.to_nat (e - s) - (length a - Z.to_nat s))%nat with O by lia. cbn [firstn]. apply app_nil_r.
Qed.
Lemma gd_ext src x u : gd src u = true -> gd (src ++ x) u = true.
Proof.
  unfold gd. intros H. apply orb_true_iff in H. destruct H as [H|H]; [rewrite H; reflexivity|].
  apply orb_true_iff. right. assert (Hn : at_ src (iend u - 1) <> 0) by (intros E; rewrite E in H; discriminate).
  pose proof (at_nonzero_lt src _ Hn). rewrite at_app_l by lia. exact H.
Qed.
Lemma ib_ext src x u : ib src u = true -> ib (src ++ x) u = true.
Proof.
  unfold ib. intros H. apply orb_true_iff in H. destruct H as [H|H]; [rewrite H; reflexivity|].
  apply andb_true_iff in H. destruct H as [H1 H2]. apply Z.leb_le in H1. apply orb_true_iff.
  destruct (Z.ltb_spec (istart u) 0); [left; reflexivity|right]. apply andb_true_iff. split.
  - apply Z.leb_le. rewrite len_app. pose proof (len_nonneg x). lia.
  - rewrite sub_app_same by lia. exact H2.
Qed.
Lemma eok_ext src x K er eu u : eok src K er eu u = true -> eok (src ++ x) K er eu u = true.
Proof.
  unfold eok. destruct (ikind u =? UnparsedKind).
  - intros H. apply andb_true_iff in H. destruct H as [A B]. rewrite A. cbn [andb]. apply orb_true_iff in B.
    destruct B as [B|B]; [rewrite (gd_ext _ _ _ B); reflexivity|rewrite B; apply orb_true_r].
  - destruct (ikind u =? RawHTMLKind).
    + intros H. apply andb_true_iff in H. destruct H as [A B]. rewrite A. cbn [andb]. apply orb_true_iff in B.
      destruct B as [B|B]; [rewrite (gd_ext _ _ _ B); reflexivity|rewrite B; apply orb_true_r].
    + destruct (ikind u =? IndentKind); [apply ib_ext|tauto].
Qed.
Lemma ents_ext src x K xr xu : forall ik, ents src K xr xu ik = true -> ents (src ++ x) K xr xu ik = true.
Proof.
  induction ik as [|u r IH]; intros H; [reflexivity|]. cbn [ents] in *. apply andb_true_iff in H. destruct H as [A B].
  rewrite (eok_ext _ _ _ _ _ _ A), (IH B). reflexivity.
Qed.
Lemma Wb_ext_src src x : forall b y, Wb src y b = true -> Wb (src ++ x) y b = true.
Proof.
  fix IH 1. intros b y H. apply Wb_parts in H. destruct H as [HL HK]. apply Wb_mk.
  - unfold loc in *. apply andb_true_iff in HL. destruct HL as [A B]. rewrite (ents_ext _ _ _ _ _ _ A), B. reflexivity.
  - destruct b as [K s e bk ik a n c l lb]. cbn [bkids] in *. clear HL. revert y HK. induction bk as [|k r IHr]; intros y HK; [reflexivity|].
    destruct r as [|k2 r]; [cbn [WL] in *; apply IH, HK|].
    rewrite WL_cons in * by discriminate. apply andb_true_iff in HK. destruct HK as [H1 H2]. rewrite (IH k false H1). apply IHr, H2.
Qed.
Lemma WL_ext_src src x : forall l y, WL src y l = true -> WL (src ++ x) y l = true.
Proof.
  induction l as [|k r IH]; intros y H; [reflexivity|]. destruct r as [|k2 r]; [cbn [WL] in *; apply Wb_ext_src, H|].
  rewrite WL_cons in * by discriminate. apply andb_true_iff in H. destruct H as [H1 H2]. rewrite (Wb_ext_src _ _ k false H1). apply IH, H2.
Qed.
Lemma upto_split (l : bytes) a b : 0 <= a <= b -> upto l b = upto l a ++ upto (from_ l a) (b - a).
Proof.
  intros H. unfold upto, from_. replace (Z.to_nat b) with (Z.to_nat a + Z.to_nat (b - a))%nat by lia.
  generalize (Z.to_nat a) (Z.to_nat (b - a)). clear. intros n m. revert l. induction n as [|n IH]; intros l; [reflexivity|].
  destruct l as [|c l]; [rewrite firstn_nil; cbn; rewrite firstn_nil; reflexivity|]. cbn [Nat.add firstn skipn app]. rewrite IH. reflexivity.
Qed.
Lemma WL_upto_mono buf a b y l : 0 <= a <= b -> WL (upto buf a) y l = true -> WL (upto buf b) y l = true.
Proof. intros H HW. rewrite (upto_split buf a b H). apply WL_ext_src, HW. Qed.

(* ---- the shift of pending blocks ---- *)
Fixpoint lbB (n : Z) (b : block) : Prop :=
  match b with Blk _ _ e bk _ _ _ _ _ _ => (e < 0 \/ n <= e) /\ allP (lbB n) bk end.
Lemma lbB_eq n b : lbB n b <-> ((bend b < 0 \/ n <= bend b) /\ allP (lbB n) (bkids b)).
Proof. destruct b; reflexivity. Qed.
Lemma sp_lbB M n : forall b, sp M b -> n <= bstart b -> lbB n b.
Proof.
  fix IH 1. intros b H Hn. rewrite lbB_eq. rewrite sp_eq in H. destruct H as (A & B & _ & D & E). split; [lia|].
  destruct b as [K s e bk ik a nn c l lb]. cbn [bkids bstart bend] in *. clear A B.
  assert (Hall : forall x, In x bk -> s <= bstart x) by (intros x Hx; apply (chain_starts _ _ _ x D Hx)).
  clear D. induction bk as [|x r IHr]; [exact I|]. destruct E as [E1 E2]. split.
  - apply IH; [exact E1|]. specialize (Hall x (or_introl eq_refl)). lia.
  - apply IHr; [exact E2|]. intros y Hy. apply Hall. right. exact Hy.
Qed.

Lemma shiftI_fields n u : istart (shiftI n u) = istart u + n /\ iend (shiftI n u) = (if 0 <=? iend u then iend u + n else iend u) /\
  ikind (shiftI n u) = ikind u.
Proof. destruct u; repeat split. Qed.

Lemma from_from' (l : bytes) a b : 0 <= a -> 0 <= b -> from_ (from_ l a) b = from_ l (a + b).
Proof. apply Rec18.from_from. Qed.

Lemma gd_shift src n u : 0 <= n -> gd src u = true -> gd (from_ src n) (shiftI (- n) u) = true.
Proof.
  intros Hn H. destruct (shiftI_fields (- n) u) as (Es & Ee & _). unfold gd in *. rewrite Es, Ee.
  destruct (Z.leb_spec 0 (iend u)) as [L|L].
  - destruct (Z.leb_spec (iend u + - n) 0) as [L2|L2]; [reflexivity|]. cbn [orb].
    apply orb_true_iff in H. destruct H as [H|H].
    + apply orb_true_iff in H. destruct H as [H|H]; apply Z.leb_le in H; [lia|].
      replace (iend u + - n <=? istart u + - n) with true by (symmetry; apply Z.leb_le; lia). reflexivity.
    + apply orb_true_iff. right. rewrite at_from by lia. replace (n + (iend u + - n - 1)) with (iend u - 1) by lia. exact H.
  - replace (iend u <=? 0) with true by (symmetry; apply Z.leb_le; lia). reflexivity.
Qed.
Lemma ib_shift src n u : 0 <= n -> ib src u = true -> ib (from_ src n) (shiftI (- n) u) = true.
Proof.
  intros Hn H. destruct (shiftI_fields (- n) u) as (Es & Ee & _). unfold ib in *. rewrite Es, Ee.
  destruct (Z.ltb_spec (istart u + - n) 0) as [L|L]; [reflexivity|]. cbn [orb].
  apply orb_true_iff in H. destruct H as [H|H]; [apply Z.ltb_lt in H; lia|].
  apply andb_true_iff in H. destruct H as [H1 H2]. apply Z.leb_le in H1.
  destruct (Z.leb_spec 0 (iend u)) as [L2|L2].
  - apply andb_true_iff. split.
    + apply Z.leb_le. rewrite len_from_gen by lia. lia.
    + unfold sub in *. rewrite from_from' by lia. replace (n + (istart u + - n)) with (istart u) by lia.
      replace (iend u + - n - (istart u + - n)) with (iend u - istart u) by lia. exact H2.
  - apply andb_true_iff. split; [apply Z.leb_le; pose proof (len_nonneg (from_ src n)); lia|].
    unfold sub, upto. replace (Z.to_nat (iend u - (istart u + - n))) with O by lia. reflexivity.
Qed.
Lemma eok_shift src n K er eu u : 0 <= n -> eok src K er eu u = true -> eok (from_ src n) K er eu (shiftI (- n) u) = true.
Proof.
  intros Hn. destruct (shiftI_fields (- n) u) as (_ & _ & Ek). unfold eok. rewrite Ek. destruct (ikind u =? UnparsedKind).
  - intros H. apply andb_true_iff in H. destruct H as [A B]. rewrite A. cbn [andb]. apply orb_true_iff in B.
    destruct B as [B|B]; [rewrite (gd_shift _ _ _ Hn B); reflexivity|rewrite B; apply orb_true_r].
  - destruct (ikind u =? RawHTMLKind).
    + intros H. apply andb_true_iff in H. destruct H as [A B]. rewrite A. cbn [andb]. apply orb_true_iff in B.
      destruct B as [B|B]; [rewrite (gd_shift _ _ _ Hn B); reflexivity|rewrite B; apply orb_true_r].
    + destruct (ikind u =? IndentKind); [apply ib_shift, Hn|tauto].
Qed.
Lemma ents_shift src n K xr xu : 0 <= n -> forall ik, ents src K xr xu ik = true ->
  ents (from_ src n) K xr xu (map (shiftI (- n)) ik) = true.
Proof.
  intros Hn. induction ik as [|u r IH]; intros H; [reflexivity|]. cbn [map ents] in *. apply andb_true_iff in H. destruct H as [A B].
  rewrite (IH B), andb_true_r. replace (nilb (map (shiftI (- n)) r)) with (nilb r) by (destruct r; reflexivity).
  apply eok_shift; assumption.
Qed.
Lemma Wb_shift src n : 0 <= n -> forall b y, lbB n b -> Wb src y b = true -> Wb (from_ src n) y (shiftB (- n) b) = true.
Proof.
  intros Hn. fix IH 1. intros b y Hl H. apply Wb_parts in H. destruct H as [HL HK]. rewrite lbB_eq in Hl. destruct Hl as [Hl1 Hl2].
  destruct b as [K s e bk ik a nn c l lb]. cbn [bkids bend] in *.
  assert (Eo : isOpen (shiftB (- n) (Blk K s e bk ik a nn c l lb)) = isOpen (Blk K s e bk ik a nn c l lb)).
  { unfold isOpen. cbn [shiftB bend]. destruct (Z.leb_spec 0 e); [|reflexivity].
    replace (e <? 0) with false by (symmetry; apply Z.ltb_ge; lia). apply Z.ltb_ge. lia. }
  apply Wb_mk.
  - unfold loc in *. rewrite Eo. cbn [shiftB bkind bik] in *. apply andb_true_iff in HL. destruct HL as [A B]. rewrite B, andb_true_r.
    apply ents_shift; assumption.
  - cbn [shiftB bkids]. clear HL Eo. revert y HK Hl2. induction bk as [|k r IHr]; intros y HK Hl2; [reflexivity|].
    destruct Hl2 as [L1 L2]. destruct r as [|k2 r]; [cbn [map WL] in *; apply IH; assumption|].
    change (map (shiftB (- n)) (k :: k2 :: r)) with (shiftB (- n) k :: map (shiftB (- n)) (k2 :: r)).
    rewrite WL_cons in HK by discriminate. rewrite WL_cons by discriminate. apply andb_true_iff in HK. destruct HK as [H1 H2].
    rewrite (IH k false L1 H1). apply IHr; assumption.
Qed.
Lemma WL_shift src n y : 0 <= n -> forall l, allP (lbB n) l -> WL src y l = true -> WL (from_ src n) y (map (shiftB (- n)) l) = true.
Proof.
  intros Hn. induction l as [|k r IH]; intros Hl H; [reflexivity|]. destruct Hl as [L1 L2].
  destruct r as [|k2 r]; [cbn [map WL] in *; apply Wb_shift; assumption|].
  change (map (shiftB (- n)) (k :: k2 :: r)) with (shiftB (- n) k :: map (shiftB (- n)) (k2 :: r)).
  rewrite WL_cons in H by discriminate. rewrite WL_cons by discriminate. apply andb_true_iff in H. destruct H as [H1 H2].
  rewrite (Wb_shift src n Hn k false L1 H1). apply IH; assumption.
Qed.

(* ---- the driver ---- *)
Definition okRW (r : rootB) : Prop :=
  exists src, Wb src true (rb_blk r) = true /\ 0 <= bend (rb_blk r) <= len src /\ rb_src r = fillNulls (upto src (bend (rb_blk r))).
Definition DW (s : bpst) (ch : list block) (y : bool) : Prop :=
  WL (upto (buf s) (bi s)) y ch = true /\ (y = true -> bi s = len (buf s)).
Definition SJW (s : bpst) (ch : list block) (ns y : bool) : Prop := SJ s ch ns /\ gF ch /\ DW s ch y.
Definition okJW (x : nb) : Prop :=
  match x with NBBlock r s' => okRW r /\ exists ns y, SJW s' (pending s') ns y | _ => True end.

Lemma SJW_makeRoot s children ns y r s' : SJW s children ns y -> makeRoot children s = Some (r, s') ->
  okRW r /\ SJW s' (pending s') ns y.
Proof.
  intros (HJ & HgF & [HW Hy]) Hm. destruct (SJ_makeRoot _ _ _ _ _ HJ Hm) as [_ HJ']. destruct (gF_makeRoot _ _ _ _ HgF Hm) as [_ HgF'].
  destruct HJ as (HS & Hcc & Ha & Hch). destruct HS as (Hb & _).
  unfold makeRoot in Hm. destruct children as [|b rest]; [discriminate|].
  destruct (isOpen b) eqn:Eo; [discriminate|]. inversion Hm; subst. clear Hm.
  unfold isOpen in Eo. apply Z.ltb_ge in Eo. destruct Ha as [Sb Sr]. destruct Hch as (C1 & _ & C3).
  pose proof (sp_bounds _ _ Sb) as Hbd.
  assert (Hlu : len (upto (buf s) (bi s)) = bi s) by (rewrite ShapesBase.len_upto; lia).
  assert (HWb : Wb (upto (buf s) (bi s)) true b = true /\ WL (upto (buf s) (bi s)) y rest = true).
  { destruct rest as [|k2 rest']; [cbn [WL] in HW; split; [destruct y; [exact HW|apply Wb_weaken, HW]|reflexivity]|].
    rewrite WL_cons in HW by discriminate. apply andb_true_iff in HW. destruct HW as [H1 H2]. split; [apply Wb_weaken, H1|exact H2]. }
  destruct HWb as [HWb HWr].
  split.
  - exists (upto (buf s) (bi s)). cbn [rb_blk rb_src]. split; [exact HWb|]. split; [lia|]. rewrite upto_upto by lia. reflexivity.
  - split; [exact HJ'|]. split; [exact HgF'|]. unfold DW. cbn [buf bi pending]. split.
    + rewrite <- from_upto by lia. apply WL_shift; [lia| |exact HWr].
      apply allP_intro. intros x Hx. apply (sp_lbB (bi s)); [eapply allP_In; eassumption|].
      pose proof (chain_starts _ _ _ x C3 Hx). lia.
    + intros E. rewrite (Hy E). rewrite len_from by lia. reflexivity.
Qed.

Lemma SJW_lineLoop : forall fuel st children ls s ns y, 0 <= ls <= len (buf s) -> bi s = lineEnd (buf s) ls ->
  bndL ls ns children = true -> (ns = false -> ls = len (buf s)) -> ccF children = true -> kidsOK ls children ->
  gbL children = true -> WL (upto (buf s) ls) y children = true -> (y = true -> ls = len (buf s)) ->
  okJW (lineLoop fuel st children ls s).
Proof.
  induction fuel as [|f IH]; intros st children ls s ns y Hls Hbi Hc Hn Hcc Hk Hgb HW Hy; [exact I|]. cbn [lineLoop].
  destruct (lineEnd_spec (buf s) ls Hls) as [A B]. rewrite <- Hbi in A, B.
  set (ln := from_ (upto (buf s) (bi s)) ls).
  destruct (line_of (buf s) ls (bi s) ltac:(lia) ltac:(lia)) as [Ll _]. fold ln in Ll.
  set (ns' := if ns then hasByteSuffixEOL ln else false).
  assert (Hc' : bndL (bi s) ns' children = true).
  { unfold ns'. destruct ns.
    - pose proof (bndL_mono ls (bi s) children ltac:(lia) Hc) as Hm. destruct (hasByteSuffixEOL ln); [exact Hm|apply bndL_weaken, Hm].
    - rewrite (Hn eq_refl) in *. replace (bi s) with (len (buf s)) by lia. exact Hc. }
  assert (Hn' : ns' = false -> bi s = len (buf s)).
  { unfold ns'. destruct ns; [|intros _; rewrite (Hn eq_refl) in *; lia].
    intros Ee. destruct (Z.lt_ge_cases (bi s) (len (buf s))) as [Lt|Ge]; [|lia].
    exfalso. rewrite Hbi in Lt. pose proof (line_hasEOL (buf s) ls Hls Lt) as Hh. rewrite <- Hbi in Hh. fold ln in Hh. congruence. }
  assert (Hlu : len (upto (buf s) (bi s)) = bi s) by (rewrite ShapesBase.len_upto; lia).
  pose proof (bnd_processLine (bi s) ns' st children ls (upto (buf s) (bi s)) ltac:(lia) ltac:(lia) ltac:(fold ln; lia)
                ltac:(rewrite Hlu; lia) ltac:(unfold ns'; fold ln; destruct ns; [tauto|discriminate]) Hc') as H1.
  pose proof (sp_processLine (bi s) ns' st children ls (upto (buf s) (bi s)) ltac:(lia) ltac:(lia) ltac:(fold ln; lia)
                ltac:(rewrite Hlu; lia) ltac:(unfold ns'; fold ln; destruct ns; [tauto|discriminate]) Hc' Hcc Hk) as H2.
  pose proof (cc_processLine st children ls (upto (buf s) (bi s)) Hcc) as H3.
  pose proof (gb_processLine st children ls (upto (buf s) (bi s)) Hcc Hgb) as H5.
  (* the invariant W *)
  assert (HWs : WL (upto (buf s) (bi s)) y children = true) by (apply (WL_upto_mono (buf s) ls (bi s)); [lia|exact HW]).
  set (y' := if y then true else negb (hasByteSuffixEOL ln)).
  assert (H4 : WL (upto (buf s) (bi s)) y' (fst (fst (processLine st children ls (upto (buf s) (bi s))))) = true).
  { unfold y'. destruct y.
    - apply W_processLine_eof; [lia| |exact HWs]. fold ln. rewrite (Hy eq_refl) in *. assert (E0 : len ln = 0) by lia.
      destruct ln; [reflexivity|rewrite len_cons in E0; pose proof (len_nonneg ln); lia].
    - apply W_processLine; [rewrite Hlu; lia|exact Hcc|exact Hgb|exact HWs]. }
  assert (Hy' : y' = true -> bi s = len (buf s)).
  { unfold y'. destruct y; [intros _; rewrite (Hy eq_refl) in *; lia|].
    intros Ee. apply negb_true_iff in Ee. destruct (Z.lt_ge_cases (bi s) (len (buf s))) as [Lt|Ge]; [|lia].
    exfalso. rewrite Hbi in Lt. pose proof (line_hasEOL (buf s) ls Hls Lt) as Hh. rewrite <- Hbi in Hh. fold ln in Hh. congruence. }
  destruct (processLine st children ls (upto (buf s) (bi s))) as [[children' st'] pn]. cbn [fst] in H1, H2, H3, H4, H5.
  destruct (negb (pn =? 0)); [exact I|].
  assert (HS : SJW s children' ns' y').
  { split; [split; [repeat split; try lia; assumption|split; assumption]|]. split; [split; assumption|]. split; assumption. }
  destruct (makeRoot children' s) as [[r s']|] eqn:Em.
  - cbn [okJW]. destruct (SJW_makeRoot _ _ _ _ _ _ HS Em) as [Hr Hs']. split; [exact Hr|eauto].
  - apply (IH st' children' (bi s) _ ns' y'); cbn [buf bi]; try assumption; try lia; reflexivity.
Qed.

Lemma SJW_skipLoop : forall fuel s, bi s = 0 -> okJW (skipLoop fuel s).
Proof.
  induction fuel as [|f IH]; intros s Hb; [exact I|]. cbn [skipLoop]. cbv zeta.
  destruct (negb _); [exact I|]. destruct (isBlankLine _); [apply IH; reflexivity|].
  apply (SJW_lineLoop f 0 [] 0 _ true false); cbn [buf bi];
    [pose proof (len_nonneg (buf s)); lia|rewrite Hb; reflexivity|reflexivity|discriminate|reflexivity|split; exact I|reflexivity|reflexivity|discriminate].
Qed.

Lemma SJW_nextBlock fuel s ns y : SJW s (pending s) ns y -> okJW (nextBlock fuel s).
Proof.
  intros HS. unfold nextBlock. destruct (makeRoot (pending s) s) as [[r s']|] eqn:Em.
  - cbn [okJW]. destruct (SJW_makeRoot _ _ _ _ _ _ HS Em) as [Hr Hs']. split; [exact Hr|eauto].
  - destruct HS as (((Hb & Hc & Hn) & Hcc & Hk) & [_ Hgb] & [HW Hy]). destruct (pending s) as [|b0 rest] eqn:Ep; [apply SJW_skipLoop; reflexivity|].
    apply (SJW_lineLoop fuel 0 (b0 :: rest) (bi s) _ ns y); cbn [buf bi]; try assumption; try lia; reflexivity.
Qed.

Lemma SJW_allBlocks : forall fuel s acc ns y, SJW s (pending s) ns y -> Forall okRW acc -> Forall okRW (fst (allBlocks fuel s acc)).
Proof.
  induction fuel as [|f IH]; intros s acc ns y HS Ha; [exact Ha|]. cbn [allBlocks].
  pose proof (SJW_nextBlock (3 + length (buf s)) s ns y HS) as Hn.
  destruct (nextBlock _ s) as [r s'| | |]; try exact Ha.
  destruct Hn as [Hr (ns' & y' & Hs')]. apply (IH s' _ ns' y'); [exact Hs'|]. apply Forall_app. split; [exact Ha|]. constructor; [exact Hr|constructor].
Qed.

Theorem parseBlocks_okRW input : Forall okRW (fst (parseBlocks input)).
Proof.
  unfold parseBlocks. apply (SJW_allBlocks _ _ _ true false); [|constructor].
  split; [|split; [split; reflexivity|split; [reflexivity|discriminate]]]. split; [|split; [reflexivity|split; exact I]].
  unfold SI. cbn [buf bi pending]. pose proof (len_nonneg (pad input)). repeat split; try lia.
Qed.
Print Assumptions parseBlocks_okRW.
