From Coq Require Import List ZArith Lia Bool.
Import ListNotations.
Require Import Base Tree Rdr Link Leaf3e RdrBound.
Open Scope Z_scope.

(* The multi-line reader over an ascending span list only moves forward. *)

Fixpoint sortedS (l : list inline) : Prop :=
  match l with [] => True | i :: r => (forall j, In j r -> iend i <= istart j) /\ sortedS r end.

Lemma sortedS_skipn : forall n l, sortedS l -> sortedS (skipn n l).
Proof.
  induction n as [|n IH]; intros l H; [exact H|]. destruct l as [|x l]; [exact I|]. cbn [skipn]. apply IH. apply H.
Qed.
Lemma sortedS_tl l : sortedS l -> sortedS (tl l).
Proof. destruct l; [tauto|]. intros H. apply H. Qed.
Lemma nextSpan_sorted : forall l i sp, nextSpan l = Some (i, sp) -> sortedS l -> sortedS sp /\ In i l.
Proof.
  induction l as [|x l IH]; intros i sp E Hs; [discriminate|]. cbn [nextSpan] in E.
  destruct (_ || _ || _).
  - inversion E; subst. split; [exact Hs|left; reflexivity].
  - destruct (IH i sp E (proj2 Hs)) as [A B]. split; [exact A|right; exact B].
Qed.

Lemma spanHas_ge n pos : spanHas n pos = true -> istart n <= pos.
Proof. unfold spanHas. rewrite !andb_true_iff. intros ((_ & H) & _). apply Z.leb_le in H. exact H. Qed.
Lemma nodeIdx_hd i r pos k : spanHas i pos = true -> nodeIdx (i :: r) pos k = k.
Proof.
  intros H. cbn [nodeIdx]. pose proof (spanHas_ge i pos H) as Hg.
  destruct (Z.ltb_spec pos (istart i)); [lia|]. rewrite H. reflexivity.
Qed.

(* the shape of curNode *)
Lemma curNode_cases r :
  (fst (curNode r) = None /\ r_spans (snd (curNode r)) = []) \/
  (exists n t, fst (curNode r) = Some n /\ r_spans (snd (curNode r)) = n :: t /\ spanHas n (r_pos r) = true).
Proof.
  unfold curNode. cbv zeta. destruct (Z.ltb_spec (nodeIndexForPosition (r_spans r) (r_pos r)) 0) as [L|L].
  - left. split; reflexivity.
  - right. unfold nodeIndexForPosition in *.
    destruct (nodeIdx_has (r_spans r) (r_pos r) 0 ltac:(lia) L) as (n & E & Hh).
    replace (nodeIdx (r_spans r) (r_pos r) 0 - 0) with (nodeIdx (r_spans r) (r_pos r) 0) in E by lia.
    cbn [fst snd r_spans]. destruct (from_ (r_spans r) (nodeIdx (r_spans r) (r_pos r) 0)) as [|x t] eqn:Ef; [discriminate|].
    cbn in E. inversion E; subst. exists n, t. repeat split; assumption.
Qed.
Lemma curNode_pos r : r_pos (snd (curNode r)) = r_pos r /\ r_prev (snd (curNode r)) = r_prev r.
Proof. unfold curNode. cbv zeta. destruct (_ <? 0); split; reflexivity. Qed.
(* the node found depends on the span list and the position only *)
Lemma curNode_fst_ext r r' : r_spans r' = r_spans r -> r_pos r' = r_pos r -> fst (curNode r') = fst (curNode r).
Proof. intros E1 E2. unfold curNode. cbv zeta. rewrite E1, E2. destruct (_ <? 0); reflexivity. Qed.
Lemma curNode_idem r : fst (curNode (snd (curNode r))) = fst (curNode r).
Proof.
  destruct (curNode_cases r) as [[E1 E2]|(n & t & E1 & E2 & Hh)]; destruct (curNode_pos r) as [Ep _].
  - rewrite E1. unfold curNode at 1. cbv zeta. rewrite E2. reflexivity.
  - rewrite E1. unfold curNode at 1. cbv zeta. rewrite E2, Ep. unfold nodeIndexForPosition. rewrite (nodeIdx_hd n t _ 0 Hh).
    reflexivity.
Qed.

Definition good (r : reader) : Prop := sortedS (r_spans r) /\ (r_prev r < r_pos r \/ fst (curNode r) <> None).
Definition adv (r r' : reader) : Prop := r_pos r <= r_pos r' /\ (r_prev r' = r_prev r \/ r_pos r <= r_prev r').
Definition LB (s : Z) (r : reader) : Prop := s <= r_pos r /\ s <= r_prev r + 1.

Lemma adv_refl r : adv r r. Proof. split; [lia|left; reflexivity]. Qed.
Lemma adv_trans a b c : adv a b -> adv b c -> adv a c.
Proof. intros [A1 A2] [B1 B2]. split; [lia|]. destruct B2 as [B2|B2]; [rewrite B2; destruct A2; [left; assumption|right; assumption]|right; lia]. Qed.
Lemma LB_adv s r r' : LB s r -> adv r r' -> LB s r'.
Proof. intros [A1 A2] [B1 B2]. split; [lia|]. destruct B2 as [B2|B2]; [rewrite B2; exact A2|lia]. Qed.

Lemma sorted_curNode r : sortedS (r_spans r) -> sortedS (r_spans (snd (curNode r))).
Proof. intros H. unfold curNode. cbv zeta. destruct (_ <? 0); cbn [snd r_spans]; [exact I|apply sortedS_skipn, H]. Qed.

Lemma good_curNode r : good r -> good (snd (curNode r)) /\ adv r (snd (curNode r)).
Proof.
  intros [Hs Hw]. destruct (curNode_pos r) as [Ep Ev]. split.
  - split; [apply sorted_curNode, Hs|]. rewrite Ep, Ev, curNode_idem. exact Hw.
  - split; [lia|left; exact Ev].
Qed.

Lemma current_shape r : snd (current r) = r \/ snd (current r) = snd (curNode r).
Proof.
  unfold current. destruct (_ <=? _); [left; reflexivity|]. right.
  destruct (curNode r) as [n r']. cbn [snd]. destruct (_ =? IndentKind); [reflexivity|]. destruct (_ =? 0); reflexivity.
Qed.
Lemma good_current r : good r -> good (snd (current r)) /\ adv r (snd (current r)).
Proof.
  intros H. destruct (current_shape r) as [E|E]; rewrite E; [split; [exact H|apply adv_refl]|apply good_curNode, H].
Qed.
Lemma current_pos r : r_pos (snd (current r)) = r_pos r /\ r_prev (snd (current r)) = r_prev r.
Proof. destruct (current_shape r) as [E|E]; rewrite E; [split; reflexivity|apply curNode_pos]. Qed.

(* a character other than the virtual space and the end marker comes from a non-Indent node (or from outside the spans) *)
Lemma current_nonindent r : fst (current r) <> 32 -> fst (current r) <> 0 ->
  forall n, fst (curNode (snd (current r))) = Some n -> ikind n <> IndentKind.
Proof.
  unfold current. destruct (_ <=? _); [cbn [fst]; intros _ N; contradiction|].
  pose proof (curNode_idem r) as Hi. destruct (curNode r) as [n0 r'] eqn:Ec. cbn [fst snd] in Hi.
  destruct (okind n0 =? IndentKind) eqn:Ek; [cbn [fst]; intros N; contradiction|].
  assert (Hn : forall n, fst (curNode r') = Some n -> ikind n <> IndentKind).
  { intros n En. rewrite Hi in En. rewrite En in Ek. cbn [okind] in Ek. apply Z.eqb_neq in Ek. exact Ek. }
  destruct (_ =? 0); cbn [fst snd]; intros _ _; exact Hn.
Qed.

Lemma good_next r : good r -> good (snd (next r)) /\ adv r (snd (next r)) /\ (fst (next r) = true -> r_prev (snd (next r)) = r_pos r).
Proof.
  intros Hg. pose proof Hg as [Hs Hw]. unfold next.
  destruct (good_curNode r Hg) as [[Hs1 Hw1] Ha1]. destruct (curNode_pos r) as [Ep Ev].
  destruct (curNode_cases r) as [[E1 E2]|(n & t & E1 & E2 & Hh)].
  - destruct (curNode r) as [n0 r1]. cbn [fst snd] in *. subst n0. cbn [fst snd].
    split; [split; assumption|split; [exact Ha1|discriminate]].
  - destruct (curNode r) as [n0 r1]. cbn [fst snd] in *. subst n0.
    pose proof (spanHas_lt n _ Hh) as Hlt. pose proof (spanHas_ge n _ Hh) as Hge.
    destruct ((ikind n =? IndentKind) && (r_vpos r1 <? iindent n)).
    { cbn [fst snd]. split; [|split; [|intros _; cbn [r_prev]; exact Ep]].
      - split; [cbn [r_spans]; exact Hs1|right]. cbn [r_prev r_pos].
        erewrite curNode_fst_ext with (r := r1); [|reflexivity|reflexivity]. destruct Hw1 as [Hw1|Hw1]; [|exact Hw1].
        unfold curNode. cbv zeta. rewrite E2. unfold nodeIndexForPosition. rewrite Ep, (nodeIdx_hd n t _ 0 Hh). cbn. discriminate.
      - split; cbn [r_pos r_prev]; [lia|right; lia]. }
    destruct (negb (ikind n =? IndentKind) && (r_pos r1 + 1 <? iend n)).
    { cbn [fst snd]. split; [|split; [|intros _; cbn [r_prev]; exact Ep]].
      - split; [cbn [r_spans]; exact Hs1|left; cbn [r_prev r_pos]; lia].
      - split; cbn [r_pos r_prev]; [lia|right; lia]. }
    destruct (nextSpan (tl (r_spans r1))) as [[i sp]|] eqn:En.
    + cbn [fst snd]. rewrite E2 in En. rewrite E2 in Hs1. cbn [tl] in En.
      destruct (nextSpan_sorted _ _ _ En (proj2 Hs1)) as [Hsp Hin]. pose proof (proj1 Hs1 i Hin) as Hi.
      split; [|split; [|intros _; cbn [r_prev]; exact Ep]].
      * split; [cbn [r_spans]; exact Hsp|left; cbn [r_prev r_pos]; lia].
      * split; cbn [r_pos r_prev]; [lia|right; lia].
    + cbn [fst snd]. split; [|split; [|discriminate]].
      * split; [cbn [r_spans]; exact I|left; cbn [r_prev r_pos]; lia].
      * split; cbn [r_pos r_prev]; [lia|right; lia].
Qed.

(* stepping from a non-Indent node (or from outside the spans): the previous position is strictly behind *)
Lemma next_nonindent r : good r -> (forall n, fst (curNode r) = Some n -> ikind n <> IndentKind) ->
  r_prev (snd (next r)) + 1 <= r_pos (snd (next r)) /\ (forall s, LB s r -> s <= r_prev (snd (next r)) + 1).
Proof.
  intros [Hs Hw] Hn. unfold next. destruct (curNode_pos r) as [Ep Ev].
  destruct (curNode_cases r) as [[E1 E2]|(n & t & E1 & E2 & Hh)].
  - destruct (curNode r) as [n0 r1]. cbn [fst snd] in *. subst n0. cbn [snd].
    destruct Hw as [Hw|Hw]; [|contradiction]. rewrite Ep, Ev. split; [lia|]. intros s [A B]. exact B.
  - specialize (Hn n E1). pose proof (sorted_curNode r Hs) as Hs1. destruct (curNode r) as [n0 r1]. cbn [fst snd] in *. subst n0.
    pose proof (spanHas_lt n _ Hh) as Hlt.
    replace (ikind n =? IndentKind) with false by (symmetry; apply Z.eqb_neq; exact Hn). cbn [andb negb].
    destruct (r_pos r1 + 1 <? iend n).
    { cbn [snd r_prev r_pos]. split; [lia|]. intros s [A B]. lia. }
    destruct (nextSpan (tl (r_spans r1))) as [[i sp]|] eqn:En.
    + cbn [snd r_prev r_pos]. rewrite E2 in En. cbn [tl] in En. rewrite E2 in Hs1.
      destruct (nextSpan_sorted _ _ _ En (proj2 Hs1)) as [_ Hin]. pose proof (proj1 Hs1 i Hin) as Hi.
      split; [lia|]. intros s [A B]. lia.
    + cbn [snd r_prev r_pos]. split; [lia|]. intros s [A B]. lia.
Qed.

Section Q.
  Variable r0 : reader.
  Definition Q (r : reader) : Prop := good r /\ adv r0 r.

  Lemma Q_current r : Q r -> Q (snd (current r)).
  Proof. intros [A B]. destruct (good_current r A) as [C D]. split; [exact C|eapply adv_trans; eassumption]. Qed.
  Lemma Q_next r : Q r -> Q (snd (next r)).
  Proof. intros [A B]. destruct (good_next r A) as (C & D & _). split; [exact C|eapply adv_trans; eassumption]. Qed.

  Ltac step :=
    repeat match goal with
    | |- context [current ?r] => let H := fresh "Hc" in let c := fresh "c" in let r' := fresh "r" in
        match goal with Hr : Q r |- _ => pose proof (Q_current r Hr) as H; destruct (current r) as [c r']; cbn [snd] in H end
    | |- context [next ?r] => let H := fresh "Hn" in let ok := fresh "ok" in let r' := fresh "r" in
        match goal with Hr : Q r |- _ => pose proof (Q_next r Hr) as H; destruct (next r) as [ok r']; cbn [snd] in H end
    end.

  Lemma Q_skipLinkSpace_loop : forall fuel r, Q r -> Q (snd (skipLinkSpace_loop fuel r)).
  Proof.
    induction fuel as [|f IH]; intros r H; [exact H|]. cbn [skipLinkSpace_loop]. step.
    destruct (isSpaceTabOrLineEnding c); [|exact Hc]. step. destruct ok; [apply IH; assumption|assumption].
  Qed.
  Lemma Q_skipLinkSpace fuel r : Q r -> Q (snd (skipLinkSpace fuel r)).
  Proof. intros H. unfold skipLinkSpace. step. destruct (c =? 0); [assumption|apply Q_skipLinkSpace_loop; assumption]. Qed.
  Lemma Q_skipSpacesAndTabs : forall fuel r, Q r -> Q (snd (skipSpacesAndTabs fuel r)).
  Proof.
    induction fuel as [|f IH]; intros r H; [exact H|]. cbn [skipSpacesAndTabs]. step.
    destruct (isSpTab c); [|exact Hc]. step. destruct ok; [apply IH; assumption|assumption].
  Qed.
  Lemma Q_ll_skip : forall fuel r chars r' c', Q r -> ll_skip fuel r chars = Some (r', c') -> Q r'.
  Proof.
    induction fuel as [|f IH]; intros r chars r' c' H E; [discriminate|]. cbn [ll_skip] in E. revert E. step.
    destruct (negb ok); [discriminate|]. step.
    destruct (_ || _ || _); [discriminate|]. destruct (negb _); [intros E; inversion E; subst; assumption|].
    intros E. eapply IH; [|exact E]. assumption.
  Qed.
  Lemma Q_ll_body : forall fuel r chars ie r' ie', Q r -> ll_body fuel r chars ie = Some (r', ie') -> Q r'.
  Proof.
    induction fuel as [|f IH]; intros r chars ie r' ie' H E; [discriminate|]. cbn [ll_body] in E. revert E. step.
    destruct (negb _); [intros E; inversion E; subst; assumption|].
    destruct (c =? 92).
    - step. destruct (negb ok); [discriminate|]. step. destruct (negb ok0); [discriminate|]. intros E. eapply IH; [|exact E]. assumption.
    - step. destruct (negb ok); [discriminate|]. intros E. eapply IH; [|exact E]. assumption.
  Qed.
  Lemma Q_parseLinkLabel fuel r : Q r -> Q (snd (parseLinkLabel fuel r)).
  Proof.
    intros H. unfold parseLinkLabel. step. destruct (negb (c =? 91)); [assumption|].
    destruct (ll_skip fuel r1 0) as [[r2 chars]|] eqn:E1; [|assumption].
    pose proof (Q_ll_skip _ _ _ _ _ Hc E1) as H1.
    destruct (ll_body fuel r2 chars (-1)) as [[r3 ie]|] eqn:E2; [|assumption].
    pose proof (Q_ll_body _ _ _ _ _ _ H1 E2) as H2. step.
    destruct (negb (c0 =? 93)); [assumption|]. step. assumption.
  Qed.
  Lemma Q_ld_angle : forall fuel r start, Q r -> Q (snd (ld_angle fuel r start)).
  Proof.
    induction fuel as [|f IH]; intros r start H; [exact H|]. cbn [ld_angle]. step.
    destruct (negb ok); [assumption|]. step. destruct (_ || _); [assumption|].
    destruct (c =? 92).
    - step. destruct (negb ok0); [assumption|]. step. destruct (_ || _); [assumption|apply IH; assumption].
    - destruct (c =? 62); [step; assumption|apply IH; assumption].
  Qed.
  Lemma Q_ld_bare : forall fuel r paren, Q r -> Q (ld_bare fuel r paren).
  Proof.
    induction fuel as [|f IH]; intros r paren H; [exact H|]. cbn [ld_bare]. step.
    destruct (_ || _); [assumption|].
    destruct (c =? 92).
    - step. destruct (negb ok); [assumption|]. step. destruct (_ || _); [assumption|]. step. destruct ok0; [apply IH|]; assumption.
    - destruct (c =? 40); [step; destruct ok; [apply IH|]; assumption|].
      destruct (c =? 41); [destruct (_ <? 0); [assumption|]; step; destruct ok; [apply IH|]; assumption|].
      step. destruct ok; [apply IH|]; assumption.
  Qed.
  Lemma Q_parseLinkDestination fuel r : Q r -> Q (snd (parseLinkDestination fuel r)).
  Proof.
    intros H. unfold parseLinkDestination. step. destruct (c =? 60); [apply Q_ld_angle; assumption|].
    destruct (_ && _ && _); [cbn [snd]; apply Q_ld_bare; assumption|assumption].
  Qed.
  Lemma Q_lt_loop : forall fuel r start term, Q r -> Q (snd (lt_loop fuel r start term)).
  Proof.
    induction fuel as [|f IH]; intros r start term H; [exact H|]. cbn [lt_loop]. step.
    destruct (negb ok); [assumption|]. step.
    destruct (c =? 92); [step; destruct (negb ok0); [assumption|apply IH; assumption]|].
    destruct (c =? term); [step; assumption|apply IH; assumption].
  Qed.
  Lemma Q_parseLinkTitle fuel r : Q r -> Q (snd (parseLinkTitle fuel r)).
  Proof. intros H. unfold parseLinkTitle. step. destruct (negb _); [assumption|apply Q_lt_loop; assumption]. Qed.
End Q.

Lemma Q_refl r : good r -> Q r r. Proof. intros H. split; [exact H|apply adv_refl]. Qed.
