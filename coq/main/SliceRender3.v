(* SliceRender3.v -- property C06 (rendering = denotation), class of SliceRender2.v extended by block quotes (T70, extension ii).

   A block quote of the class is written as one or several text lines (SliceText.wfText), each after the marker "> ", the
   text escaped by SliceText.esc; it holds one paragraph whose lines are separated by soft line breaks.  In a document the
   quote is separated from the next block by one blank line (the blank line closes the paragraph and the quote).

   Main theorem:

     Theorem C06_blocks_ext2 qs c : filterOn c = false -> Forall qClass qs ->
       renderDoc c (docInQ qs) = denoteQs (softBreak c) qs.

   qblk   = QD d (a block of the class of SliceRender2.C06_blocks_ext: text paragraph, ATX heading, thematic break, fenced code
                  block possibly with tabs, emphasis-slice paragraph, code block with an info word)
          | QQ ts (a block quote of the text lines ts).
   docInQ qs = the blocks written out and separated by one blank line (docInQ_spelled: joinBlank (map qSrc qs)).
   denoteQs m qs = the denotations joined by LF LF; the denotation of QQ ts is
        <blockquote><p> l1 SEP l2 SEP ... ln </p></blockquote>      li = the line HTML-escaped (SliceRender2.escT)
     where SEP = softD m is the text written for a soft line break under the renderer's SoftBreakBehavior m:
        m = 0 (preserve): LF;   m = 1 (space): one blank;   m = 2 (harden): <br> LF.
     denoteQs is written without reference to Render.v.  The theorem holds for every soft break behaviour
     (ex_quotes_0/1/2 are checked by vm_compute on a six-block document).

   Proof: block layer quote_stepOK (SliceDocs.stepOK for the quote source: the line loop of SliceMulti, here terminated by a
   blank line (processLine_blank_quoteN, lineLoop_quote_blank) or by the end of input (lineLoop_quote_eof)), inline layer by
   SliceMulti.parseInlines_lines, rendering by SliceMulti.renderB_quote / render_lines, sequence by
   SliceRender2.renderDoc_rdocs. *)
From Coq Require Import List ZArith Lia Bool.
Import ListNotations.
Require Import Base Tables Utf8 Tree Rdr Link Collect Html Recog LP Rules Starts Driver Inl3a Inl3b Inl3c Inl3d Inl3e Render Fmt Entry Cursor
  SliceBase SlicePara SliceText SliceCode SliceTok SliceLine SliceFormat SliceReparse SliceNest SliceSpans SliceMulti SliceDocs SliceParas SliceBlocks SliceFormat2.
Require Import EmphSpec EmphTok EmphSlice EmphRender SliceRender2.
Open Scope Z_scope.
Ltac lensimp ::= repeat (rewrite sl_len_app || rewrite sl_len_cons); rewrite ?(@sl_len_nil Z).
Notation EP := isASCIIPunctuation.
Notation QP := [62; 32].

(* ---------------------------------------------------------------------------------------------- *)
(* 1. a blank line after the lines of a quoted paragraph closes the quote                           *)
(* ---------------------------------------------------------------------------------------------- *)
Definition quoCB (e : Z) (spans : list inline) : block := set_blast (quoC e spans) true.

Lemma processLine_blank_quoteN st src ls e1 rest : from_ src ls = [10] ->
  2 < e1 -> 2 < len src -> at_ src 2 <> 0 -> at_ src 2 <> 91 ->
  processLine st (quoO (mkI UnparsedKind 2 e1 :: rest)) ls src = ([quoCB ls (mkI UnparsedKind 2 e1 :: rest)], stOpening, 0).
Proof.
  intros Hl Hse Hlen Hnz H91. unfold processLine, resetLP, quoO. rewrite Hl.
  change (computeTabRem [10] 0 0) with 0. set (spans := mkI UnparsedKind 2 e1 :: rest).
  set (p0 := {| source := src; root := Blk documentKind 0 (-1) [quoteOpen 0 [paraOpenN 2 spans]] [] 0 0 0 false false; container := Some 0%nat;
               lineStart := ls; line := [10]; li := 0; col := 0; tabRem := 0; state := st; panicked := 0 |}).
  assert (Hd : descendOpenBlocks p0 = (false, setLP p0 (root p0) (Some 0%nat) 0 0 0 stDescending 0)) by reflexivity.
  rewrite Hd. set (q := setLP p0 (root p0) (Some 0%nat) 0 0 0 stDescending 0).
  change (negb (state q =? stDescendTerminated)) with true. cbv iota.
  assert (Hop : opening_loop 2 q = (true, withState q stOpening)) by reflexivity.
  unfold openNewBlocks. change (len (line q) =? 0) with false. cbv iota. change (S (length (line q))) with 2%nat. rewrite Hop.
  unfold deferredClose. change (negb (isRestBlank (withState q stOpening))) with false. cbn [andb]. cbv iota.
  unfold closeLastChildAt. change (cdepth (withState q stOpening)) with O. cbn [updAt].
  change (root (withState q stOpening)) with (rootDoc [quoteOpen 0 [paraOpenN 2 spans]]).
  change (lastBlock (rootDoc [quoteOpen 0 [paraOpenN 2 spans]])) with (Some (quoteOpen 0 [paraOpenN 2 spans])). cbv iota.
  change (bheight (rootDoc [quoteOpen 0 [paraOpenN 2 spans]])) with 3%nat.
  change (source (withState q stOpening)) with src. change (lineStart (withState q stOpening)) with ls.
  rewrite (closeBlock_plain 2 src (quoteOpen 0 [paraOpenN 2 spans]) ls eq_refl eq_refl).
  change (lastBlock (set_bend (quoteOpen 0 [paraOpenN 2 spans]) ls)) with (Some (paraOpenN 2 spans)). cbv iota.
  rewrite (closeBlock_para 1 src (paraOpenN 2 spans) ls eq_refl eq_refl).
  change (set_bend (paraOpenN 2 spans) ls) with (paraClosedN 2 ls spans).
  unfold spans. rewrite (onClose_paraN src 2 ls e1 rest ltac:(lia) Hse Hlen Hnz H91). reflexivity.
Qed.

Definition nextEndB (post : list bytes) : Z := match post with [] => 1 | t :: _ => len QP + len (esc t) + 1 end.
Lemma QPnoEol : noEolB QP. Proof. repeat constructor; lia. Qed.

Lemma lineEnd_nextB pre' post' R : Forall (fun t => okText true t = true) post' ->
  lineEnd (pre' ++ srcOf EP (pl QP post') ++ 10 :: R) (len pre') = len pre' + nextEndB post'.
Proof.
  intros Hpost'. destruct post' as [|t2 post2].
  - cbn [pl map srcOf app nextEndB]. replace (pre' ++ 10 :: R) with (pre' ++ [] ++ 10 :: R) by reflexivity.
    rewrite (lineEnd_lf pre' [] R ltac:(constructor)). rewrite (@sl_len_nil Z). lia.
  - apply Forall_cons_iff in Hpost'. destruct Hpost' as [Ht2 _]. cbn [nextEndB]. rewrite (srcOf_pl_cons QP t2 post2).
    replace (pre' ++ (QP ++ esc t2 ++ [10] ++ srcOf EP (pl QP post2)) ++ 10 :: R) with (pre' ++ (QP ++ esc t2) ++ 10 :: (srcOf EP (pl QP post2) ++ 10 :: R))
      by (rewrite <- !app_assoc; reflexivity).
    rewrite lineEnd_lf; [lensimp; lia|]. apply Forall_app. split; [exact QPnoEol|apply (esc_noEol t2 true Ht2)].
Qed.

Lemma lineLoop_quote_blank : forall post t1 done st f bo bl B R,
  B = srcOf EP (pl QP ((t1 :: done) ++ post)) ++ 10 :: R -> Forall (fun t => okText true t = true) (t1 :: done ++ post) ->
  (length post < f)%nat ->
  let X := srcOf EP (pl QP ((t1 :: done) ++ post)) in
  lineLoop f st (quoO (spansAt EP 0 (pl QP (t1 :: done)))) (len (srcOf EP (pl QP (t1 :: done))))
           {| buf := B; bi := len (srcOf EP (pl QP (t1 :: done))) + nextEndB post; boff := bo; bline := bl; pending := [] |} =
  NBBlock {| rb_line := bl; rb_start := bo; rb_end := bo + unpadded X; rb_src := fillNulls X;
             rb_blk := quoCB (len X) (spansAt EP 0 (pl QP ((t1 :: done) ++ post))) |}
          {| buf := 10 :: R; bi := 1; boff := bo + unpadded X; bline := bl + lineCount X; pending := [] |}.
Proof.
  induction post as [|t post' IH]; intros t1 done st f bo bl B R HB Hok Hf X.
  - destruct f as [|f]; [cbn [length] in Hf; lia|]. unfold X. rewrite app_nil_r in *. cbn [nextEndB].
    set (X0 := srcOf EP (pl QP (t1 :: done))) in *.
    rewrite sl_lineLoop_S. cbn [buf bi boff bline pending].
    assert (Hup : upto B (len X0 + 1) = X0 ++ [10]).
    { rewrite HB. replace (X0 ++ 10 :: R) with ((X0 ++ [10]) ++ R) by (rewrite <- app_assoc; reflexivity).
      replace (len X0 + 1) with (len (X0 ++ [10])) by (rewrite sl_len_app; reflexivity). apply sl_upto_app_len. }
    rewrite Hup.
    apply Forall_cons_iff in Hok. destruct Hok as [Ht1 _].
    destruct (okText_contByte t1 Ht1) as (c & r & He & _ & H91 & H0).
    assert (HX1 : X0 = QP ++ c :: (r ++ [10] ++ srcOf EP (pl QP done))).
    { unfold X0. rewrite (srcOf_pl_cons QP t1 done). rewrite He. reflexivity. }
    assert (Hat : at_ (X0 ++ [10]) 2 = c) by (rewrite HX1; reflexivity).
    assert (HlenX : 2 < len X0). { rewrite HX1. lensimp. pose proof (sl_len_nonneg r). pose proof (sl_len_nonneg (srcOf EP (pl QP done))). lia. }
    change (pl QP (t1 :: done)) with ((QP, t1) :: pl QP done). cbn [spansAt]. rewrite Z.add_0_l. change (len QP) with 2.
    pose proof (sl_len_nonneg (esc t1)) as He0.
    rewrite (processLine_blank_quoteN st (X0 ++ [10]) (len X0) (2 + len (genEsc EP t1) + 1) _).
    2:{ apply sl_from_app_len. } 2:{ change (genEsc EP t1) with (esc t1). lia. } 2:{ rewrite sl_len_app. change (len [10]) with 1. lia. }
    2:{ rewrite Hat. exact H0. } 2:{ rewrite Hat. exact H91. }
    change (negb (0 =? 0)) with false. cbv iota. unfold makeRoot, quoCB, quoC, quoteClosed, set_blast, isOpen. cbn [bend buf bi boff bline pending].
    pose proof (sl_len_nonneg X0). destruct (Z.ltb_spec (len X0) 0); [lia|].
    rewrite HB. rewrite sl_upto_app_len, sl_from_app_len. replace (len X0 + 1 - len X0) with 1 by lia. reflexivity.
  - destruct f as [|f]; [cbn [length] in Hf; lia|]. cbn [length] in Hf.
    assert (Hok2 := Hok). apply Forall_cons_iff in Hok2. destruct Hok2 as [_ Hok2]. apply Forall_app in Hok2. destruct Hok2 as [_ Hok2].
    apply Forall_cons_iff in Hok2. destruct Hok2 as [Ht Hpost'].
    destruct (okText_contByte t Ht) as (c & r & He & Hcb & _ & _).
    set (dn := t1 :: done) in *. set (pre := srcOf EP (pl QP dn)).
    set (pre' := srcOf EP (pl QP (dn ++ [t]))).
    assert (Hpre' : pre' = pre ++ QP ++ esc t ++ [10]).
    { unfold pre', pre. rewrite pl_app, srcOf_app. cbn [pl map srcOf]. rewrite app_nil_r. reflexivity. }
    assert (HB' : B = pre' ++ srcOf EP (pl QP post') ++ 10 :: R).
    { rewrite HB. rewrite pl_app, srcOf_app. fold pre. rewrite Hpre'. cbn [pl map srcOf]. rewrite <- !app_assoc. reflexivity. }
    cbn [nextEndB].
    assert (Hlp : len pre + (len QP + len (esc t) + 1) = len pre') by (rewrite Hpre'; lensimp; lia).
    rewrite sl_lineLoop_S. cbn [buf bi boff bline pending]. rewrite Hlp.
    assert (Hup : upto B (len pre') = pre') by (rewrite HB'; apply sl_upto_app_len). rewrite Hup.
    assert (Hfr : from_ pre' (len pre) = 62 :: 32 :: c :: (r ++ [10])).
    { rewrite Hpre'. rewrite sl_from_app_len. rewrite He. reflexivity. }
    unfold quoO at 1. rewrite (processLine_cont_quote st pre' 0 2 _ (len pre) c (r ++ [10]) Hfr Hcb).
    change (negb (0 =? 0)) with false. cbv iota.
    set (sp' := spansAt EP 0 (pl QP dn) ++ [mkI UnparsedKind (len pre + 2) (len pre + len (62 :: 32 :: c :: r ++ [10]))]).
    change (makeRoot [quoteOpen 0 [paraOpenN 2 sp']] {| buf := B; bi := len pre'; boff := bo; bline := bl; pending := [] |}) with (@None (rootB * bpst)).
    cbv iota.
    assert (Hspans : sp' = spansAt EP 0 (pl QP (dn ++ [t]))).
    { unfold sp'. rewrite pl_app, spansAt_app. fold pre. cbn [pl map spansAt]. rewrite Z.add_0_l. f_equal. f_equal. f_equal.
      change (genEsc EP t) with (esc t). rewrite He. lensimp. lia. }
    fold (quoO sp'). rewrite Hspans.
    assert (Hle : lineEnd B (len pre') = len pre' + nextEndB post') by (rewrite HB'; apply lineEnd_nextB; exact Hpost').
    rewrite Hle.
    assert (HBd : B = srcOf EP (pl QP ((t1 :: done ++ [t]) ++ post')) ++ 10 :: R).
    { rewrite HB. unfold dn. cbn [app]. rewrite <- app_assoc. reflexivity. }
    assert (Hok3 : Forall (fun t => okText true t = true) (t1 :: (done ++ [t]) ++ post')).
    { rewrite <- app_assoc. exact Hok. }
    pose proof (IH t1 (done ++ [t]) stOpening f bo bl B R HBd Hok3 ltac:(lia)) as IHr. cbv zeta in IHr.
    change (t1 :: done ++ [t]) with (dn ++ [t]) in IHr. fold pre' in IHr. rewrite IHr.
    unfold X, dn. cbn [app]. rewrite <- !app_assoc. reflexivity.
Qed.

(* ---------------------------------------------------------------------------------------------- *)
(* 2. a block quote (one paragraph of text lines) as a member of a sequence of blocks                *)
(* ---------------------------------------------------------------------------------------------- *)
Lemma lineLoop_quote_eof post t1 done st f bo bl B :
  B = srcOf EP (pl QP ((t1 :: done) ++ post)) -> Forall (fun t => okText true t = true) (t1 :: done ++ post) -> (length post < f)%nat ->
  lineLoop f st (quoO (spansAt EP 0 (pl QP (t1 :: done)))) (len (srcOf EP (pl QP (t1 :: done))))
           {| buf := B; bi := len (srcOf EP (pl QP (t1 :: done))) + nextEnd QP post; boff := bo; bline := bl; pending := [] |} =
  NBBlock {| rb_line := bl; rb_start := bo; rb_end := bo + unpadded B; rb_src := fillNulls B;
             rb_blk := quoC (len B) (spansAt EP 0 (pl QP ((t1 :: done) ++ post))) |}
          {| buf := []; bi := 0; boff := bo + unpadded B; bline := bl + lineCount B; pending := [] |}.
Proof.
  apply (lineLoop_lines QP QPnoEol quoO quoC).
  - reflexivity.
  - reflexivity.
  - intros st0 src spans ls c r Hfr Hcb. unfold quoO. rewrite (processLine_cont_quote st0 src 0 2 spans ls c r Hfr Hcb). reflexivity.
  - intros st0 src e1 rest' H1 H2 H3 H4. unfold quoO, quoC. change (len QP) with 2 in *.
    apply (processLine_eof_quoteN st0 src 0 2 e1 rest'); [lia|exact H1|exact H2|exact H3|exact H4].
Qed.

Definition quoteSrc (ts : list bytes) : bytes := srcOf EP (pl QP ts).
Definition quoteBlk0 (ts : list bytes) (fl : bool) : block := set_blast (quoC (len (quoteSrc ts)) (spansAt EP 0 (pl QP ts))) fl.

Lemma noNul_quoteSrc ts : Forall (fun t => okText true t = true) ts -> noNul (quoteSrc ts).
Proof. apply (noNul_srcOf QP). repeat constructor; lia. Qed.

(* the common beginning: the first line opens the quote and its paragraph *)
Lemma quote_first t1 rest R f bo bl : Forall (fun t => okText true t = true) (t1 :: rest) ->
  let X := quoteSrc (t1 :: rest) in let l1 := quoteSrc [t1] in
  skipLoop (S (S f)) {| buf := X ++ R; bi := 0; boff := bo; bline := bl; pending := [] |} =
  lineLoop f stOpenMatched (quoO (spansAt EP 0 (pl QP [t1]))) (len l1)
           {| buf := X ++ R; bi := lineEnd (X ++ R) (len l1); boff := bo; bline := bl; pending := [] |}.
Proof.
  intros Hok X l1.
  assert (Ht1 : okText true t1 = true) by (apply Forall_cons_iff in Hok; apply Hok).
  destruct (okText_contByte t1 Ht1) as (c & r & He & Hcb & H91 & H0).
  assert (Hl1 : l1 = QP ++ c :: r ++ [10]) by (unfold l1, quoteSrc; cbn [pl map srcOf]; rewrite app_nil_r; change (genEsc EP t1) with (esc t1); rewrite He; reflexivity).
  assert (HX : X = l1 ++ srcOf EP (pl QP rest)).
  { unfold X, l1, quoteSrc. change (t1 :: rest) with ([t1] ++ rest). rewrite pl_app, srcOf_app. reflexivity. }
  pose proof (sl_len_nonneg r) as Hr0.
  assert (Hlen1 : len l1 = len r + 4) by (rewrite Hl1; lensimp; lia).
  rewrite sl_skipLoop_S. cbv zeta. cbn [buf bi boff bline pending].
  assert (Hle : lineEnd (X ++ R) 0 = len l1).
  { rewrite HX, Hl1. replace (((QP ++ c :: r ++ [10]) ++ srcOf EP (pl QP rest)) ++ R) with ([] ++ (QP ++ c :: r) ++ 10 :: (srcOf EP (pl QP rest) ++ R))
      by (repeat (first [rewrite <- app_assoc | progress cbn [app]]); reflexivity).
    change 0 with (len (@nil Z)) at 1. rewrite lineEnd_lf; [lensimp; lia|].
    apply Forall_app. split; [exact QPnoEol|]. rewrite <- He. apply (esc_noEol t1 true Ht1). }
  rewrite Hle. destruct (Z.ltb_spec 0 (len l1)); [|lia]. cbn [negb].
  assert (Hup : upto (X ++ R) (len l1) = l1) by (rewrite HX, <- app_assoc; apply sl_upto_app_len). rewrite Hup.
  assert (Hnb : isBlankLine l1 = false) by (rewrite Hl1; reflexivity). rewrite Hnb.
  rewrite sl_lineLoop_S. cbn [buf bi boff bline pending]. rewrite Hup.
  destruct Hcb as (Hc & H61 & Hm).
  rewrite (processLine_quote_first l1 0 c (r ++ [10])); [|rewrite Hl1; reflexivity|exact Hc|exact Hm].
  change (negb (0 =? 0)) with false. cbv iota.
  change (makeRoot [quotedParaOpen 0 (0 + len (62 :: 32 :: c :: r ++ [10]))] {| buf := X ++ R; bi := len l1; boff := bo; bline := bl; pending := [] |})
    with (@None (rootB * bpst)). cbv iota.
  assert (Hsp1 : [quotedParaOpen 0 (0 + len (62 :: 32 :: c :: r ++ [10]))] = quoO (spansAt EP 0 (pl QP [t1]))).
  { unfold quoO, quotedParaOpen, quoteOpen, paraOpenN. cbn [pl map spansAt]. change (genEsc EP t1) with (esc t1). rewrite He. change (len QP) with 2.
    replace (0 + 2 + len (c :: r) + 1) with (0 + len (62 :: 32 :: c :: r ++ [10])) by (lensimp; lia). reflexivity. }
  rewrite Hsp1. reflexivity.
Qed.

Definition quoteB (ts : list bytes) (k : nat) : bsrc := {| bx := quoteSrc ts; bb := quoteBlk0 ts; bp := true; bk := k |}.

Lemma len_quoteSrc_ge ts : Forall (fun t => okText true t = true) ts -> (2 * length ts <= length (quoteSrc ts))%nat.
Proof.
  intros Hok. unfold quoteSrc. induction Hok as [|t ts' Ht Hts IH]; [cbn; lia|]. rewrite (srcOf_pl_cons QP). rewrite !app_length.
  destruct (okText_contByte t Ht) as (c' & r' & He' & _). rewrite He'. cbn [length] in *. lia.
Qed.

Lemma quote_stepOK t1 rest k : Forall (fun t => okText true t = true) (t1 :: rest) -> stepOK (quoteB (t1 :: rest) k).
Proof.
  intros Hok. set (ts := t1 :: rest). pose proof (noNul_quoteSrc ts Hok) as Hnul. pose proof (len_quoteSrc_ge ts Hok) as Hlen. unfold ts in Hlen at 1.
  assert (Hrest : Forall (fun t => okText true t = true) rest) by (apply Forall_cons_iff in Hok; apply Hok).
  set (X := quoteSrc ts) in *. set (l1 := srcOf EP (pl QP [t1])).
  assert (HX : X = l1 ++ srcOf EP (pl QP rest)).
  { unfold X, l1, quoteSrc, ts. change (t1 :: rest) with ([t1] ++ rest). rewrite pl_app, srcOf_app. reflexivity. }
  constructor; unfold quoteB; cbn [bx bb bp]; fold X.
  - intros f bo bl Hf. destruct f as [|[|f]]; try (cbn [length] in Hlen; lia).
    pose proof (quote_first t1 rest [] f bo bl Hok) as H1. cbv zeta in H1. fold ts in H1. fold X in H1. rewrite app_nil_r in H1. unfold quoteSrc in H1. fold (quoteSrc ts) in H1. fold X in H1. fold l1 in H1. rewrite H1.
    rewrite HX at 2. rewrite (lineEnd_next QP QPnoEol l1 rest Hrest).
    pose proof (lineLoop_quote_eof rest t1 [] stOpenMatched f bo bl X eq_refl Hok ltac:(cbn [length] in Hlen; lia)) as HLL.
    fold l1 in HLL. rewrite HLL.
    rewrite (unpadded_noNul X Hnul), (fillNulls_noNul X Hnul). unfold quoteBlk0. fold X. cbn [app]. reflexivity.
  - intros R f bo bl Hf. destruct f as [|[|f]]; try (cbn [length] in Hlen; lia).
    pose proof (quote_first t1 rest (10 :: R) f bo bl Hok) as H1. cbv zeta in H1. fold ts in H1. fold X in H1. unfold quoteSrc in H1. fold (quoteSrc ts) in H1. fold X in H1. fold l1 in H1. rewrite H1.
    assert (HXR : X ++ 10 :: R = l1 ++ srcOf EP (pl QP rest) ++ 10 :: R) by (rewrite HX, <- app_assoc; reflexivity).
    rewrite HXR at 2. rewrite (lineEnd_nextB l1 rest R Hrest).
    pose proof (lineLoop_quote_blank rest t1 [] stOpenMatched f bo bl (X ++ 10 :: R) R eq_refl Hok ltac:(cbn [length] in Hlen; lia)) as HLL.
    cbv zeta in HLL. fold l1 in HLL. rewrite HLL. change (srcOf EP (pl QP ([t1] ++ rest))) with X. change (pl QP ([t1] ++ rest)) with (pl QP ts).
    rewrite (unpadded_noNul X Hnul), (fillNulls_noNul X Hnul). unfold quoteBlk0, quoCB. fold X. cbn [app]. reflexivity.
Qed.

Definition quoteFinal (ts : list bytes) (fl : bool) : block :=
  set_blast (quotedParaN (len (quoteSrc ts)) (nodesAt EP 0 (pl QP ts))) fl.
(* the separator written for a soft line break, by the SoftBreakBehavior m of the renderer:
   0 = preserve (LF), 1 = space, 2 = harden (<br> LF) *)
Definition softD (m : Z) : bytes := if m =? 2 then tagO [98;114] ++ [10] else if m =? 1 then [32] else [10].
Fixpoint joinSep (sep : bytes) (xs : list bytes) : bytes :=
  match xs with [] => [] | x :: r => match r with [] => x | _ => x ++ sep ++ joinSep sep r end end.
Lemma linesHtml_joinSep c ts : filterOn c = false -> linesHtml c ts = joinSep (softD (softBreak c)) (map escT ts).
Proof.
  intros Hc. induction ts as [|t r IH]; [reflexivity|]. cbn [linesHtml map joinSep]. rewrite IH, escT_escapeHTML. destruct r as [|t2 r']; [cbn [map joinSep]; rewrite !app_nil_r; reflexivity|].
  unfold softHtml, softD. rewrite (openTag_nf c _ Hc). reflexivity.
Qed.
Definition quoteHtml (m : Z) (ts : list bytes) : bytes :=
  tagO [98;108;111;99;107;113;117;111;116;101] ++ tagO [112] ++ joinSep (softD m) (map escT ts) ++ tagC [112] ++ tagC [98;108;111;99;107;113;117;111;116;101].
Definition quoteFull (m : Z) (ts : list bytes) (k : nat) : rfull := {| rf_b := quoteB ts k; rf_final := quoteFinal ts; rf_html := quoteHtml m ts |}.

Lemma quote_rfOK c t1 rest k : filterOn c = false -> Forall (fun t => okText true t = true) (t1 :: rest) ->
  rfOK c (quoteFull (softBreak c) (t1 :: rest) k).
Proof.
  intros Hc Hok. set (ts := t1 :: rest) in *. set (X := quoteSrc ts).
  pose proof (len_quoteSrc_ge ts Hok) as Hlen. unfold ts in Hlen at 1. cbn [length] in Hlen.
  constructor; unfold quoteFull; cbn [rf_b rf_final rf_html].
  - apply quote_stepOK. exact Hok.
  - unfold quoteB. cbn [bx]. fold X. fold X in Hlen. clearbody X. lia.
  - unfold quoteB. cbn [bx]. apply noNul_quoteSrc. exact Hok.
  - intros fl acc. reflexivity.
  - intros fl. unfold quoteB. cbn [bx bb]. fold X. unfold quoteBlk0. fold X. set (spans := spansAt EP 0 (pl QP ts)).
    set (pb := paraClosedN 2 (len X) spans).
    assert (Hrw : rewriteB (bheight (set_blast (quoC (len X) spans) fl)) X [] (set_blast (quoC (len X) spans) fl) =
                  set_blast (quoteOf (len X) [set_bik pb (parseInlines X [] pb)]) fl) by reflexivity.
    rewrite Hrw.
    pose proof (parseInlines_lines EP eq_refl (pl QP ts) [] pb ltac:(discriminate) (okTextE_pl _ _ Hok) eq_refl) as Hpi.
    fold (quoteSrc ts) in Hpi. fold X in Hpi. rewrite Hpi. reflexivity.
  - intros fl acc. reflexivity.
  - intros fl. unfold quoteB. cbn [bx]. fold X. unfold quoteFinal. fold X. set (nodes := nodesAt EP 0 (pl QP ts)).
    set (q := set_blast (quotedParaN (len X) nodes) fl). change (bheight q) with 2%nat.
    rewrite (renderB_quote 1 c [] X false q eq_refl ltac:(discriminate)).
    change (isTightList q) with false. change (bkids q) with [Blk ParagraphKind 2 (len X) [] nodes 0 0 0 false false]. cbn [flat_map]. rewrite app_nil_r.
    cbn [renderB]. cbn [bkind bkids bik]. change (ParagraphKind =? ParagraphKind) with true. cbv iota.
    unfold nodes. change 0 with (len (@nil Z)) at 1. rewrite (render_lines c QP ts [] X eq_refl).
    rewrite (linesHtml_joinSep c ts Hc).
    rewrite !(openTag_nf c _ Hc), !(closeTag_nf c _ Hc). unfold quoteHtml, tagO, tagC. cbn [app]. rewrite <- ?app_assoc. reflexivity.
Qed.

(* ---------------------------------------------------------------------------------------------- *)
(* the class of SliceRender2 extended by block quotes                                              *)
(* ---------------------------------------------------------------------------------------------- *)
Inductive qblk :=
| QD (d : dblk)                 (* a block of the class of C06_blocks_ext *)
| QQ (ts : list bytes).         (* a block quote holding one paragraph of the text lines ts, each line written after the marker "> " *)

Definition qClass (q : qblk) : Prop :=
  match q with
  | QD d => dClass d
  | QQ ts => ts <> [] /\ Forall wfText ts
  end.
Definition qFull (m : Z) (q : qblk) (k : nat) : rfull :=
  match q with
  | QD d => dFull d k
  | QQ ts => quoteFull m ts k
  end.
Definition qSrc (q : qblk) : bytes :=
  match q with
  | QD d => dSrc d
  | QQ ts => concat (map (fun t => [62;32] ++ esc t ++ [10]) ts)
  end.
Definition denoteQ (m : Z) (q : qblk) : bytes :=
  match q with
  | QD d => denoteD d
  | QQ ts => quoteHtml m ts
  end.
Fixpoint qL (m : Z) (qs : list qblk) : list rfull :=
  match qs with [] => [] | q :: r => qFull m q (match r with [] => 0 | _ => 1 end) :: qL m r end.
Definition docInQ (qs : list qblk) : bytes := docOf (map rf_b (qL 0 qs)).
Definition denoteQs (m : Z) (qs : list qblk) : bytes := joinNL (map (denoteQ m) qs).

Lemma quoteSrc_spelled ts : quoteSrc ts = concat (map (fun t => [62;32] ++ esc t ++ [10]) ts).
Proof.
  unfold quoteSrc. induction ts as [|t r IH]; [reflexivity|]. rewrite (srcOf_pl_cons QP). cbn [map concat]. rewrite <- IH. rewrite <- !app_assoc. reflexivity.
Qed.
Lemma qL_b m qs : map rf_b (qL m qs) = map rf_b (qL 0 qs).
Proof. induction qs as [|q r IH]; [reflexivity|]. cbn [qL map]. rewrite IH. destruct q; reflexivity. Qed.

Lemma docInQ_spelled qs : docInQ qs = joinBlank (map qSrc qs).
Proof.
  unfold docInQ. induction qs as [|q r IH]; [reflexivity|]. cbn [qL map docOf joinBlank]. rewrite IH.
  assert (Hs : forall k, bx (rf_b (qFull 0 q k)) = qSrc q /\ bk (rf_b (qFull 0 q k)) = k).
  { intros k. destruct q as [d|ts].
    - cbn [qFull qSrc]. split.
      + destruct d as [a|t|n w ls]; [destruct a; reflexivity|reflexivity|].
        cbn [dFull infoFull rf_b infoB bx dSrc]. unfold infoDoc, infoLine, fence, codeBody. rewrite <- !app_assoc. reflexivity.
      + destruct d as [a|t|n w ls]; [destruct a; reflexivity|reflexivity|reflexivity].
    - cbn [qFull quoteFull rf_b quoteB bx bk qSrc]. split; [apply quoteSrc_spelled|reflexivity]. }
  destruct (Hs (match r with [] => 0%nat | _ => 1%nat end)) as [H1 H2]. rewrite H1, H2.
  destruct r as [|q2 r']; [cbn [repeat app map joinBlank]; rewrite app_nil_r; reflexivity|]. reflexivity.
Qed.

Lemma wfText_okText t : wfText t -> okText true t = true.
Proof. intros (Hne & Hb & Hhd & Hl & Hnd). apply wf_okText; auto. Qed.

Lemma qFull_ok c q k : filterOn c = false -> qClass q -> rfOK c (qFull (softBreak c) q k).
Proof.
  intros Hc Hq. destruct q as [d|ts]; cbn [qClass qFull] in *.
  - apply (dFull_ok c d k Hc Hq).
  - destruct Hq as [Hne Hwf]. destruct ts as [|t1 rest]; [contradiction|]. apply (quote_rfOK c t1 rest k Hc).
    eapply Forall_impl; [|exact Hwf]. intros t Ht. apply wfText_okText. exact Ht.
Qed.
Lemma qHtml m q k : rf_html (qFull m q k) = denoteQ m q.
Proof. destruct q as [d|ts]; cbn [qFull denoteQ]; [apply dHtml|reflexivity]. Qed.
Lemma wellSep_qL m : forall qs, wellSep (map rf_b (qL m qs)).
Proof.
  induction qs as [|q r IH]; [exact I|]. cbn [qL map wellSep]. split; [|exact IH].
  destruct r; [intros H; contradiction|intros _]. destruct q as [d|ts]; [|cbn; lia].
  destruct d as [a|t|n w ls]; [destruct a; cbn; lia|cbn; lia|cbn; lia].
Qed.

Theorem C06_blocks_ext2 qs c : filterOn c = false -> Forall qClass qs -> renderDoc c (docInQ qs) = denoteQs (softBreak c) qs.
Proof.
  intros Hc H. unfold docInQ. rewrite <- (qL_b (softBreak c)). rewrite (renderDoc_rdocs c (qL (softBreak c) qs)).
  - unfold denoteQs. rewrite <- joinNL_joinBlocks. f_equal.
    clear. induction qs as [|q r IH]; [reflexivity|]. cbn [qL map]. rewrite qHtml. f_equal. exact IH.
  - induction qs as [|q r IH]; [constructor|]. apply Forall_cons_iff in H. destruct H as [Hq Hr]. cbn [qL].
    constructor; [apply (qFull_ok c q _ Hc Hq)|apply IH; exact Hr].
  - apply wellSep_qL.
Qed.
Print Assumptions C06_blocks_ext2.

(* ---------------------------------------------------------------------------------------------- *)
(* examples                                                                                        *)
(* ---------------------------------------------------------------------------------------------- *)
Definition cSB (m : Z) : cfg := {| softBreak := m; ignoreRaw := ignoreRaw c0; filterOn := false; filterP := filterP c0 |}.
Definition ex_qs : list qblk :=
  [QQ [[97;32;60;98]; [43;32;99]; [49;46]]; QD (DB (AP [120])); QQ [[35;32;104]]; QD (DE [97;32;42;98;42]); QQ [[62;32;113]; [45]]; QD (DB (ATB 42))].
Example ex_quotes_src : docInQ ex_qs =
  [62;32;97;32;92;60;98;10; 62;32;92;43;32;99;10; 62;32;49;92;46;10; 10; 120;10; 10; 62;32;92;35;32;104;10; 10; 97;32;42;98;42;10; 10;
   62;32;92;62;32;113;10; 62;32;92;45;10; 10; 42;42;42;10].
Proof. vm_compute. reflexivity. Qed.
Example ex_quotes_class : Forall qClass ex_qs.
Proof.
  unfold ex_qs. repeat (apply Forall_cons; [|]); try apply Forall_nil; cbn [qClass dClass renderClass].
  all: try (split; [discriminate|]); repeat (apply Forall_cons; [|]); try apply Forall_nil; try reflexivity;
    try (right; left; reflexivity);
    try (unfold wfText; repeat split; try discriminate; repeat constructor; cbn; try lia; try discriminate).
Qed.
Example ex_quotes_0 : renderDoc (cSB 0) (docInQ ex_qs) = denoteQs 0 ex_qs. Proof. vm_compute. reflexivity. Qed.
Example ex_quotes_1 : renderDoc (cSB 1) (docInQ ex_qs) = denoteQs 1 ex_qs. Proof. vm_compute. reflexivity. Qed.
Example ex_quotes_2 : renderDoc (cSB 2) (docInQ ex_qs) = denoteQs 2 ex_qs. Proof. vm_compute. reflexivity. Qed.
Example ex_quotes_html : denoteQs 2 [QQ [[97]; [98]]; QD (DB (AP [99]))] =
  (* <blockquote><p>a<br> LF b</p></blockquote> LF LF <p>c</p> *)
  [60;98;108;111;99;107;113;117;111;116;101;62; 60;112;62; 97; 60;98;114;62;10; 98; 60;47;112;62; 60;47;98;108;111;99;107;113;117;111;116;101;62;
   10;10; 60;112;62;99;60;47;112;62].
Proof. vm_compute. reflexivity. Qed.
