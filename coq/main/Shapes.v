(* ======================================================================================================================
   TASK T11 -- spans of leaf-like inline constructs have the shape of their construct (property C13, creation sites)

   Files:  ShapesBase.v  (at_/from_/upto/sub arithmetic)
           ShapesA.v     (pure scanners: parseHardLineBreakSpace, runEnd / parseDelimiterRun, parseCharacterEscape, parseAutolink)
           ShapesR.v     (the multi-line reader: well-formed span lists spOK, curNode/current/next step lemmas, fuel potential mu)
           ShapesCS.v    (parseCodeSpan)
           ShapesHT.v    (parseHTMLTag and the Html.v / Link.v sub-scanners it uses)
           ShapesComp.v ShapesComp2.v ShapesComp3.v  (composition: every CodeSpanKind node of parseInlines has its shape)
           Shapes.v      (this file: the statements collected, shapeInline corollaries, vm_compute checks, counterexamples)

   SUMMARY OF WHAT IS PROVED (every theorem listed is closed under the global context; see the Print Assumptions at the end)
   (1) parseCodeSpan_shape / parseCodeSpan_shapeInline   under  spOK (span list well formed) and a fuel bound;
                                                          the unconditional form parseCodeSpan_statement is REFUTED
                                                          (parseCodeSpan_statement_false); aliases ..._partial
   (2) parseAutolink_shape (+ _shapeInline, autolink_node_shape)            unconditional
   (3) parseCharacterEscape_shape (+ _shapeInline, charref_node_shape)      unconditional
   (4) parseHardLineBreakSpace_hard_iff / _shape          unconditional, exact characterisation (the function does NOT check
                                                          for a line ending); hardbreak_line_shape: on a single line it is
                                                          the HardLineBreak shape of Props.v
   (5) parseHTMLTag_shape (+ _shapeInline)                under  spOK; unconditional form parseHTMLTag_statement REFUTED
                                                          (parseHTMLTag_statement_false); aliases ..._partial
   (6) runEnd_spec / runEnd_stop / parseDelimiterRun_shape / delimiter_run_star_or_underscore      unconditional
   (C) parseInlines_codespan_shapes_partial               every CodeSpanKind node (at any depth) of parseInlines src m b has
                                                          shapeInline (sub src s e) CodeSpanKind = true, PROVIDED bikOK src b.
       The statement without the proviso (codespan_shapes_statement below) is FALSE for arbitrary b:
       codespan_shapes_statement_false gives a block on which the model produces an ill-shaped code span.
       What is missing for the unconditional document-level statement (C13 for code spans over parseFull): that every
       container handed to parseInlines by parseFull satisfies bikOK -- a block-layer whole-run invariant (Unparsed spans of
       a paragraph are sorted, non-empty, inside the source, each but the last ends in its line ending, the byte before a
       continuation span is a container-prefix byte or a line ending, Indent spans cover blanks, the replayed indentation
       fits the fuel 2*len+10, no CodeSpan node among the block parser's inline entries).  The existing block-layer files
       (L2Bnd*.v) only give upper bounds of span ends.  chk_bikOK_examples evaluates bikOK (and the conclusion) on sample
       documents with code spans crossing block-quote / list-item / lazy continuation lines.
   ====================================================================================================================== *)
From Coq Require Import List ZArith Lia Bool.
Import ListNotations.
Require Import Base Tables Utf8 Tree Rdr Link Collect Html Recog Inl3a Inl3b Inl3c Inl3d Inl3e Driver Props.
Require Import Leaf3d ShapesBase ShapesA ShapesR ShapesCS ShapesHT ShapesComp ShapesComp2 ShapesComp3.
Open Scope Z_scope.

(* ---------------------------------------------------------------- helpers for the shape checker *)
Lemma lastZ_at (t : bytes) : t <> [] -> lastZ t = at_ t (len t - 1).
Proof. apply rev_head_at. Qed.
Lemma len_pos_nonnil {A} (t : list A) : 0 < len t -> t <> [].
Proof. intros H ->. change (len (@nil A)) with 0 in H. lia. Qed.

Lemma shape_angle t k : (k = AutolinkKind \/ k = HTMLTagKind) ->
  shapeInline t k = (2 <=? len t) && (at_ t 0 =? 60) && (lastZ t =? 62).
Proof. intros [->| ->]; reflexivity. Qed.
Lemma shape_charref t : shapeInline t CharacterReferenceKind = (3 <=? len t) && (at_ t 0 =? 38) && (lastZ t =? 59).
Proof. reflexivity. Qed.
Lemma shape_hardbreak t : shapeInline t HardLineBreakKind =
  (let body := trimEOLr t in
   (len body <? len t) && (((len body =? 1) && (at_ body 0 =? 92)) || ((2 <=? len body) && allOf body 32))).
Proof. reflexivity. Qed.

Lemma upto_facts (t : bytes) e : 0 <= e <= len t -> len (upto t e) = e /\ forall i, i < e -> at_ (upto t e) i = at_ t i.
Proof. intros H. split; [rewrite len_upto; lia|intros i Hi; apply at_upto; exact Hi]. Qed.

(* ---------------------------------------------------------------- (2) autolinks *)
Theorem parseAutolink_shapeInline t e : parseAutolink t = e -> 0 <= e -> shapeInline (upto t e) AutolinkKind = true.
Proof.
  intros H He. destruct (parseAutolink_shape t e H He) as (A0 & A1 & (A2 & A3) & _).
  destruct (upto_facts t e ltac:(lia)) as (L & Hat).
  rewrite (shape_angle _ AutolinkKind) by tauto. rewrite lastZ_at by (apply len_pos_nonnil; lia).
  rewrite L, !Hat by lia. rewrite A0, A1. destruct (Z.leb_spec 2 e); [reflexivity|lia].
Qed.
(* as the node is created in istep: span [pos, pos + e) of the source *)
Corollary autolink_node_shape (src : bytes) pos lim e : parseAutolink (sub src pos lim) = e -> 0 <= e ->
  shapeInline (sub src pos (pos + e)) AutolinkKind = true.
Proof.
  intros H He. destruct (parseAutolink_shape _ e H He) as (_ & _ & (_ & A3) & _).
  rewrite sub_upto_prefix with (lim := lim) by lia. apply parseAutolink_shapeInline; assumption.
Qed.

(* ---------------------------------------------------------------- (3) character references *)
Theorem parseCharacterEscape_shapeInline t e : parseCharacterEscape t = e -> 0 <= e ->
  shapeInline (upto t e) CharacterReferenceKind = true.
Proof.
  intros H He. destruct (parseCharacterEscape_shape t e H He) as (A0 & A1 & A2 & A3).
  destruct (upto_facts t e ltac:(lia)) as (L & Hat).
  rewrite shape_charref. rewrite lastZ_at by (apply len_pos_nonnil; lia).
  rewrite L, !Hat by lia. rewrite A0, A1. destruct (Z.leb_spec 3 e); [reflexivity|lia].
Qed.
Corollary charref_node_shape (src : bytes) pos lim e : parseCharacterEscape (sub src pos lim) = e -> 0 <= e ->
  shapeInline (sub src pos (pos + e)) CharacterReferenceKind = true.
Proof.
  intros H He. destruct (parseCharacterEscape_shape _ e H He) as (_ & _ & _ & A3).
  rewrite sub_upto_prefix with (lim := lim) by lia. apply parseCharacterEscape_shapeInline; assumption.
Qed.

(* ---------------------------------------------------------------- (5) HTML tags *)
Theorem parseHTMLTag_shapeInline fuel r s e :
  spOK (r_src r) (r_spans r) = true ->
  parseHTMLTag fuel r = (s, e) -> spanValid (s, e) = true ->
  shapeInline (sub (r_src r) s e) HTMLTagKind = true.
Proof.
  intros Hok H Hv. destruct (parseHTMLTag_shape fuel r s e Hok H Hv) as (Es & A0 & A1 & A2 & A3).
  assert (Hs : 0 <= s).
  { unfold spanValid in Hv. cbn [fst snd] in Hv. apply andb_true_iff in Hv. destruct Hv as [Hv _].
    apply andb_true_iff in Hv. destruct Hv as [Hv _]. apply Z.leb_le in Hv. exact Hv. }
  assert (L : len (sub (r_src r) s e) = e - s) by (apply len_sub_in; lia).
  rewrite (shape_angle _ HTMLTagKind) by tauto. rewrite lastZ_at by (apply len_pos_nonnil; lia).
  rewrite L. rewrite !at_sub by lia. replace (s + 0) with s by lia. replace (s + (e - s - 1)) with (e - 1) by lia.
  rewrite A0, A1. destruct (Z.leb_spec 2 (e - s)); [reflexivity|lia].
Qed.

(* ---------------------------------------------------------------- (4) hard line breaks written with spaces
   parseHardLineBreakSpace itself only guarantees "two spaces, then only spaces / LF / CR up to the end of the text"
   (parseHardLineBreakSpace_hard_iff).  When the text is a single line -- bytes without a line ending followed by a
   non-empty line ending, as the unparsed spans of real trees are -- this is the HardLineBreak shape of Props.v. *)
Definition isEolB (c : Z) : bool := (c =? 10) || (c =? 13).
Lemma dropWhileEOL_app_eol : forall l r, forallb isEolB l = true -> dropWhileEOL (l ++ r) = dropWhileEOL r.
Proof.
  induction l as [|c l IH]; intros r H; [reflexivity|]. cbn [forallb] in H. apply andb_true_iff in H. destruct H as [Hc Hl].
  cbn [app dropWhileEOL]. unfold isEolB in Hc. rewrite Hc. apply IH, Hl.
Qed.
Lemma forallb_rev {A} (p : A -> bool) l : forallb p (rev l) = forallb p l.
Proof.
  induction l as [|x l IH]; [reflexivity|]. cbn [rev forallb]. rewrite forallb_app, IH. cbn [forallb]. rewrite andb_true_r. apply andb_comm.
Qed.
Lemma trimEOLr_line body eol : forallb (fun c => negb (isEolB c)) body = true -> forallb isEolB eol = true ->
  trimEOLr (body ++ eol) = body.
Proof.
  intros Hb He. unfold trimEOLr. rewrite rev_app_distr. rewrite dropWhileEOL_app_eol by (rewrite forallb_rev; exact He).
  assert (Hd : dropWhileEOL (rev body) = rev body).
  { destruct (rev body) as [|c l] eqn:Er; [reflexivity|]. cbn [dropWhileEOL].
    assert (Hc : negb (isEolB c) = true).
    { rewrite <- forallb_rev in Hb. rewrite Er in Hb. cbn [forallb] in Hb. apply andb_true_iff in Hb. tauto. }
    unfold isEolB in Hc. apply negb_true_iff in Hc. rewrite Hc. reflexivity. }
  rewrite Hd. apply rev_involutive.
Qed.
Theorem hardbreak_line_shape body eol e :
  forallb (fun c => negb (isEolB c)) body = true -> eol <> [] -> forallb isEolB eol = true ->
  parseHardLineBreakSpace (body ++ eol) = (e, true) ->
  e = len (body ++ eol) /\ shapeInline (body ++ eol) HardLineBreakKind = true.
Proof.
  intros Hb Hne He H. destruct (parseHardLineBreakSpace_shape _ _ H) as (El & H2 & A0 & A1 & Hall).
  split; [exact El|]. rewrite shape_hardbreak. cbv zeta. rewrite (trimEOLr_line body eol Hb He).
  rewrite len_app. assert (Hle : 0 < len eol) by (destruct eol; [congruence|rewrite len_cons; pose proof (len_nonneg eol); lia]).
  (* the first two bytes are spaces, hence not line-ending bytes, hence inside body *)
  assert (Hfirst : forall i, 0 <= i < 2 -> i < len body).
  { intros i Hi. destruct (Z.lt_ge_cases i (len body)) as [L|L]; [exact L|exfalso].
    assert (E32 : at_ (body ++ eol) i = 32) by (destruct (Z.eq_dec i 0) as [->|]; [exact A0|replace i with 1 by lia; exact A1]).
    rewrite at_app_r in E32 by lia. rewrite El, len_app in H2.
    pose proof (at_forallb _ _ He (i - len body) ltac:(lia)) as Hc. rewrite E32 in Hc. discriminate. }
  pose proof (Hfirst 1 ltac:(lia)) as Hb2.
  destruct (Z.ltb_spec (len body) (len body + len eol)); [|lia]. cbn [andb].
  destruct (Z.leb_spec 2 (len body)); [|lia]. cbn [andb].
  replace (allOf body 32) with true; [apply orb_true_r|]. symmetry. unfold allOf. apply forallb_at. intros i Hi.
  assert (Hin : at_ (body ++ eol) i = at_ body i) by (apply at_app_l; lia).
  pose proof (at_forallb _ _ Hb i Hi) as Hne'. apply negb_true_iff in Hne'. unfold isEolB in Hne'. apply orb_false_iff in Hne'.
  destruct Hne' as [N10 N13]. apply Z.eqb_neq in N10, N13. apply Z.eqb_eq.
  destruct (Z.lt_ge_cases i 2) as [L|L].
  - rewrite <- Hin. destruct (Z.eq_dec i 0) as [->|]; [exact A0|replace i with 1 by lia; exact A1].
  - rewrite El, len_app in Hall. specialize (Hall i ltac:(lia)). rewrite Hin in Hall. lia.
Qed.

(* ---------------------------------------------------------------- (6) delimiter runs, as entered from istep *)
Lemma istep_delimiter_run st pos pl : (at_ (isrc st) pos =? 42) || (at_ (isrc st) pos =? 95) = true ->
  istep st pos pl = (let '(st', e) := parseDelimiterRun (addText st pl pos) pos in (st', e, e)).
Proof. intros H. unfold istep. cbv zeta. rewrite H. reflexivity. Qed.
Theorem delimiter_run_star_or_underscore st pos pl : (at_ (isrc st) pos =? 42) || (at_ (isrc st) pos =? 95) = true ->
  let e := snd (fst (istep st pos pl)) in
  pos < e /\ exists c, (c = 42 \/ c = 95) /\ forall i, pos <= i < e -> at_ (isrc st) i = c.
Proof.
  intros H. cbv zeta. rewrite (istep_delimiter_run st pos pl H).
  pose proof (parseDelimiterRun_shape (addText st pl pos) pos) as Hs. cbv zeta in Hs.
  destruct (parseDelimiterRun (addText st pl pos) pos) as [st' e]. cbn [fst snd] in *.
  assert (Esrc : isrc (addText st pl pos) = isrc st) by (unfold addText, addNode; destruct (spanLen pl pos =? 0); reflexivity).
  rewrite Esrc in Hs. destruct Hs as (H1 & H2 & _). split; [exact H1|].
  exists (at_ (isrc st) pos). split; [|exact H2].
  apply orb_true_iff in H. destruct H as [H|H]; apply Z.eqb_eq in H; tauto.
Qed.

(* ---------------------------------------------------------------- the composition statement, as asked, and its status *)
Definition codespan_shapes_statement : Prop :=
  forall src matcher b, forallb (csI src) (parseInlines src matcher b) = true.

(* a container whose span list hides a backtick in the gap between two spans: source  ``x`  with spans [0,1) and [2,4) *)
Definition cex_src : bytes := [96; 96; 120; 96].
Definition cex_blk : block := Blk ParagraphKind 0 4 [] [mkI UnparsedKind 0 1; mkI UnparsedKind 2 4] 0 0 0 false false.
Example cex_runs : parseInlines cex_src [] cex_blk = [Inl CodeSpanKind 0 4 0 [] [Inl TextKind 2 3 0 [] []]].
Proof. vm_compute. reflexivity. Qed.
Theorem codespan_shapes_statement_false : ~ codespan_shapes_statement.
Proof. intros H. specialize (H cex_src [] cex_blk). vm_compute in H. discriminate. Qed.
Example cex_not_bikOK : bikOK cex_src cex_blk = false. Proof. vm_compute. reflexivity. Qed.

(* (1) needs spOK: on the same data the scanner reports a span whose text is not code-span shaped *)
Definition cex_st : ist :=
  {| rk := []; isrc := cex_src; unp := bik cex_blk; upos := 0; stk := []; ign := false; nid := 1; rootEnd := 4; matcher := [] |}.
Example cs_needs_spOK :
  parseCodeSpan 20 cex_st 0 = (2, 3, 4) /\ shapeInline (sub cex_src 0 4) CodeSpanKind = false.
Proof. split; vm_compute; reflexivity. Qed.
(* (5) needs spOK: an Indent span whose source bytes are "-->" ends the comment one byte early:  <!--x-->  reported as [0,7) *)
Definition cex_html_src : bytes := [60; 33; 45; 45; 120; 45; 45; 62].
Definition cex_html_spans : list inline := [mkI UnparsedKind 0 5; Inl IndentKind 5 8 1 [] []].
Example html_needs_spOK :
  parseHTMLTag 50 (newReader cex_html_src cex_html_spans 0) = (0, 7) /\
  shapeInline (sub cex_html_src 0 7) HTMLTagKind = false /\ spOK cex_html_src cex_html_spans = false.
Proof. repeat split; vm_compute; reflexivity. Qed.

(* The unconditional forms of (1) and (5) -- "whenever the scanner reports a span, its text has the shape" for an ARBITRARY
   reader span list -- are false; the theorems proved are therefore the conditional ones, re-exported with the _partial
   suffix required by the task rules. *)
Definition parseCodeSpan_statement : Prop :=
  forall fuel st start cS cE sE, parseCodeSpan fuel st start = (cS, cE, sE) -> 0 <= sE ->
    shapeInline (sub (isrc st) start sE) CodeSpanKind = true.
Theorem parseCodeSpan_statement_false : ~ parseCodeSpan_statement.
Proof. intros H. specialize (H 20%nat cex_st 0 2 3 4 ltac:(vm_compute; reflexivity) ltac:(lia)). vm_compute in H. discriminate. Qed.
Definition parseCodeSpan_shape_partial := parseCodeSpan_shape.
Definition parseCodeSpan_shapeInline_partial := parseCodeSpan_shapeInline.

Definition parseHTMLTag_statement : Prop :=
  forall fuel r s e, parseHTMLTag fuel r = (s, e) -> spanValid (s, e) = true ->
    shapeInline (sub (r_src r) s e) HTMLTagKind = true.
Theorem parseHTMLTag_statement_false : ~ parseHTMLTag_statement.
Proof.
  intros H. specialize (H 50%nat (newReader cex_html_src cex_html_spans 0) 0 7 ltac:(vm_compute; reflexivity) ltac:(vm_compute; reflexivity)).
  vm_compute in H. discriminate.
Qed.
Definition parseHTMLTag_shape_partial := parseHTMLTag_shape.
Definition parseHTMLTag_shapeInline_partial := parseHTMLTag_shapeInline.

(* ---------------------------------------------------------------- vm_compute checks of the statements on examples *)
(* "`` a`b ``" : open run 2, content [2,7), close [7,9) *)
Definition ex_cs_src : bytes := [96;96;32;97;96;98;32;96;96].
Definition ex_cs_st : ist :=
  {| rk := []; isrc := ex_cs_src; unp := [mkI UnparsedKind 0 9]; upos := 0; stk := []; ign := false; nid := 1; rootEnd := 9; matcher := [] |}.
Example ex_cs : parseCodeSpan 40 ex_cs_st 0 = (2, 7, 9) /\ spOK ex_cs_src (unpFrom ex_cs_st) = true /\
                shapeInline (sub ex_cs_src 0 9) CodeSpanKind = true.
Proof. repeat split; vm_compute; reflexivity. Qed.
(* "<a@b.c>" and "<ab:c>" *)
Example ex_auto : parseAutolink [60;97;64;98;46;99;62;120] = 7 /\ parseAutolink [60;97;98;58;99;62] = 6 /\ parseAutolink [60;97;32;98;62] = -1.
Proof. repeat split; vm_compute; reflexivity. Qed.
(* "&amp;x" "&#35;" "&#x2A;" "&;" *)
Example ex_charref : parseCharacterEscape [38;97;109;112;59;120] = 5 /\ parseCharacterEscape [38;35;51;53;59] = 5 /\
                     parseCharacterEscape [38;35;120;50;65;59] = 6 /\ parseCharacterEscape [38;59;32] = -1.
Proof. repeat split; vm_compute; reflexivity. Qed.
(* "  \n" hard;  "  " hard (no line ending checked!);  "  \n \n" hard although not HardLineBreak-shaped;  " \n" and "  x" not hard *)
Example ex_hlb : parseHardLineBreakSpace [32;32;10] = (3, true) /\ parseHardLineBreakSpace [32;32] = (2, true) /\
                 parseHardLineBreakSpace [32;32;10;32;10] = (5, true) /\ shapeInline [32;32;10;32;10] HardLineBreakKind = false /\
                 shapeInline [32;32;10;32] HardLineBreakKind = false /\ parseHardLineBreakSpace [32;32;10;32] = (4, true) /\
                 parseHardLineBreakSpace [32;10] = (1, false) /\ parseHardLineBreakSpace [32;32;120] = (2, false).
Proof. repeat split; vm_compute; reflexivity. Qed.
(* "<a href='x'>" , "<!-- c -->", "</b >" *)
Example ex_html :
  spOK [60;97;32;104;61;39;120;39;62;33] [mkI UnparsedKind 0 10] = true /\
  parseHTMLTag 60 (newReader [60;97;32;104;61;39;120;39;62;33] [mkI UnparsedKind 0 10] 0) = (0, 9) /\
  parseHTMLTag 60 (newReader [60;33;45;45;32;99;32;45;45;62] [mkI UnparsedKind 0 10] 0) = (0, 10) /\
  parseHTMLTag 60 (newReader [60;47;98;32;62] [mkI UnparsedKind 0 5] 0) = (0, 5).
Proof. repeat split; vm_compute; reflexivity. Qed.
(* "***a" : the run is [0,3) *)
Example ex_run : runEnd 4 [42;42;42;97] 1 4 42 = 3. Proof. vm_compute. reflexivity. Qed.

(* bikOK on the inline containers of sample documents, as produced by the block parser (hypothesis of (C) is realistic) *)
Fixpoint allB (fuel : nat) (b : block) : list block := match fuel with O => [b] | S f => b :: flat_map (allB f) (bkids b) end.
Definition chk_bikOK_doc (input : bytes) : bool :=
  forallb (fun r => forallb (fun b => if (0 <? len (bik b)) && hasUnparsed b then bikOK (rb_src r) b else true)
                      (allB (bheight (rb_blk r)) (rb_blk r))) (fst (parseBlocks input)).
Definition chk_C_doc (input : bytes) : bool :=
  forallb (fun r => forallb (fun b => forallb (csI (rb_src r)) (bik b)) (allB (bheight (rb_blk r)) (rb_blk r))) (fst (parseFull input)).
(* "> `a\n>`b`\nlazy `` x\n\n- item ``\n  more`` `\n\ttabbed `\n"  and  "  `` a\n \t b ``\n1. x `y\n   z` w  \n   end\\\n   q" *)
Definition doc1 : bytes :=
  [62;32;96;97;10;62;96;98;96;10;108;97;122;121;32;96;96;32;120;10;10;45;32;105;116;101;109;32;96;96;10;32;32;109;111;114;101;96;96;32;96;10;9;116;97;98;98;101;100;32;96;10].
Definition doc2 : bytes :=
  [32;32;96;96;32;97;10;32;9;32;98;32;96;96;10;49;46;32;120;32;96;121;10;32;32;32;122;96;32;119;32;32;10;32;32;32;101;110;100;92;10;32;32;32;113].
Example chk_bikOK_examples : chk_bikOK_doc doc1 = true /\ chk_bikOK_doc doc2 = true /\ chk_C_doc doc1 = true /\ chk_C_doc doc2 = true.
Proof. repeat split; vm_compute; reflexivity. Qed.

(* ---------------------------------------------------------------- assumptions *)
Print Assumptions parseCodeSpan_shape.
Print Assumptions parseCodeSpan_shapeInline.
Print Assumptions parseAutolink_shape.
Print Assumptions parseAutolink_shapeInline.
Print Assumptions autolink_node_shape.
Print Assumptions parseCharacterEscape_shape.
Print Assumptions parseCharacterEscape_shapeInline.
Print Assumptions charref_node_shape.
Print Assumptions parseHardLineBreakSpace_hard_iff.
Print Assumptions parseHardLineBreakSpace_shape.
Print Assumptions hardbreak_line_shape.
Print Assumptions parseHTMLTag_shape.
Print Assumptions parseHTMLTag_shapeInline.
Print Assumptions runEnd_spec.
Print Assumptions runEnd_stop.
Print Assumptions parseDelimiterRun_shape.
Print Assumptions parseDelimiterRun_allOf.
Print Assumptions delimiter_run_star_or_underscore.
Print Assumptions parseInlines_codespan_shapes_partial.
Print Assumptions codespan_shapes_statement_false.
Print Assumptions parseCodeSpan_statement_false.
Print Assumptions parseHTMLTag_statement_false.
