From Coq Require Import List ZArith Lia Bool.
Import ListNotations.
Require Import Base Tree Rdr Link Collect Html Recog LP Rules Starts Driver Rec16 Rec17 Rec18 Cursor CursorX RecBounds NoPanic12 BSTree L2BndS L2Kind2 ShEnv
  EntBase QPure1 QPure2 QPureA1 QPureA2 QPureB1.
Open Scope Z_scope.

(* T64-pure, third goal, part 2: block starts (startATX creates the entry and establishes `atq`), addLineText, processLine.
   B is the buffer; the source of the line parser is a prefix `upto B M` of it that ends at the end of B or behind a line
   ending (EnvB). *)

Section Buffer.
Variable B : bytes.

Definition EnvB (p : lp) : Prop :=
  exists M, source p = upto B M /\ 0 <= lineStart p <= M /\ M <= len B /\ line p = from_ (source p) (lineStart p) /\
            (M < len B -> isEOLb (at_ B (M - 1)) = true).
Lemma EnvB_env p p' : envOf p' = envOf p -> EnvB p -> EnvB p'.
Proof. unfold envOf. intros E (M & H). injection E as E1 E2 E3. exists M. rewrite E1, E2, E3. exact H. Qed.

Lemma isEOLb_z c : isEOLb c = true -> isEOLz c.
Proof. unfold isEOLb, isEOLz. intros H. apply orb_true_iff in H. destruct H as [H|H]; apply Z.eqb_eq in H; tauto. Qed.

(* collectInline at a position without indentation, into the fresh ATX heading block X *)
Lemma aqP_collectInline_flat d p n X : indent p <= 0 -> JU d p -> cblk d p X -> bkids X = [] -> bik X = [] -> aqP B p ->
  (let p0 := if state p =? stOpening then withState p stOpenMatched else p in
   atq B (mkI UnparsedKind (lineStart p0 + li p0) (lineStart (advance p0 n) + li (advance p0 n)))) ->
  aqP B (collectInline p UnparsedKind n).
Proof.
  intros Hz HU Hb Hk Hi Ha Hq. unfold collectInline. destruct (_ =? stDescendTerminated); [exact Ha|]. cbv zeta in *.
  set (p0 := if state p =? stOpening then withState p stOpenMatched else p) in *.
  assert (I0 : indent p0 = indent p) by apply indent_opened.
  replace (0 <? indent p0) with false by (symmetry; apply Z.ltb_ge; lia).
  change (UnparsedKind =? InfoStringKind) with false. cbv iota.
  destruct (same_trans _ _ _ (same_opened p) (same_advance p0 n)) as [Er Ec]. fold p0 in Er, Ec.
  unfold aqP, updCont. cbn [root withRoot setLP]. apply aq_updAt_at; [apply aqP_advance, aqP_opened, Ha|].
  intros x Hx _. unfold cdepth in Hx. rewrite Ec, Er in Hx. fold (cdepth p) in Hx. rewrite (proj1 HU) in Hx. apply Hb in Hx. subst x.
  rewrite Hi. destruct X as [K s e bk ik a nn c l lb]. cbn [bkids bik set_bik app] in *. subst bk ik.
  cbn [aq allP]. split; [|exact I]. intros _ u [<-|[]]. exact Hq.
Qed.

(* ---- block starts ---- *)
Ltac akeep :=
  repeat match goal with
  | |- aq _ (set_bn _ _) => apply aq_set_bn
  | |- aq _ (set_bchar _ _) => apply aq_set_bchar
  | |- aq _ (set_bindent _ _) => apply aq_set_bindent
  end.
Ltac achain HJ HA :=
  repeat match goal with
  | |- aqP _ (consumeLine _) => apply aqP_consumeLine
  | |- aqP _ (endBlock _) => apply aqP_endBlock
  | |- aqP _ (advance _ _) => apply aqP_advance
  | |- aqP _ (consumeIndent _ _) => apply aqP_consumeIndent
  | |- aqP _ (openBlock _ _) => apply aqP_openBlock
  | |- aqP _ (collectInline _ _ _) => apply aqP_collectInline; [jchain HJ|]
  | |- aqP _ (updCont _ _) => apply aqP_updCont_any; [|let b := fresh "b" in let Hb := fresh "Hb" in intros b Hb; akeep; exact Hb]
  end;
  try exact HA.

Lemma aqP_startBlockQuote p : J p -> aqP B p -> aqP B (startBlockQuote p).
Proof. intros HJ H. unfold startBlockQuote. cbv zeta. destruct (_ <=? _); [assumption|]. destruct (negb _); [assumption|].
       destruct (0 <? _); achain HJ H. Qed.

Lemma aqP_startATX p : st_open p -> G p -> J p -> EnvB p -> aqP B p -> aqP B (startATX p).
Proof.
  intros Hs HG H HE Ha. unfold startATX. cbv zeta. destruct (_ <=? _); [assumption|].
  destruct (parseATXHeading (bytesAfterIndent p)) as [[level cs] ce] eqn:Ea. destruct (Z.ltb_spec level 1) as [|Lv]; [assumption|].
  destruct (atx_start _ _ _ _ Ea Lv) as (Bc & Bn).
  destruct (atx_bounds _ _ _ _ Ea Lv) as (Bcs & Bce & _).
  pose proof (atx_tail2 _ _ _ _ Ea Lv) as Tl.
  destruct (start_prelude p ATXHeadingKind HG) as (H2 & R2 & L2).
  set (p1 := consumeIndent p (indent p)) in *. set (p2 := openBlock p1 ATXHeadingKind) in *.
  set (p2' := updCont p2 (fun b => set_bn b level)). assert (H2' : G p2') by exact H2.
  assert (R2' : rest p2' = bytesAfterIndent p) by exact R2. assert (L2' : len (rest p2') = len (line p2') - li p2') by exact L2.
  assert (Hcs : li p2' + cs <= len (line p2')) by (rewrite R2' in L2'; lia).
  destruct (G_advance p2' cs H2' ltac:(lia) Hcs) as (H3 & La & Lna).
  pose proof (rest_advance p2' cs H2' ltac:(lia) Hcs) as R3. rewrite R2' in R3.
  assert (Hz : indent (advance p2' cs) <= 0).
  { apply indent_nonws; [apply H3|]. rewrite R3. apply indentLength_from_nonws; [lia|exact Bn]. }
  assert (S1 : st_open p1) by (apply st_open_consumeIndent, Hs).
  assert (Hst1 : (state p1 =? stDescending) || (state p1 =? stDescendTerminated) = false) by (destruct S1 as [E | E]; rewrite E; reflexivity).
  destruct (openBlock_core p1 ATXHeadingKind (J_consumeIndent _ _ H) Hst1) as (d & pos & HU & Hb). fold p2 in HU, Hb.
  set (X := newBlock ATXHeadingKind pos) in *.
  destruct (JU_updCont_blk d p2 (fun b => set_bn b level) X HU Hb ltac:(reflexivity)) as [HU' Hb']. fold p2' in HU', Hb'.
  assert (HU3 : JU d (advance p2' cs)) by (eapply JU_same; [apply same_advance|exact HU']).
  assert (Hb3 : cblk d (advance p2' cs) (set_bn X level)) by (eapply cblk_same; [apply same_advance|exact Hb']).
  assert (A2 : aqP B p2) by (apply aqP_openBlock, aqP_consumeIndent, Ha).
  assert (A2' : aqP B p2') by (apply aqP_updCont_any; [exact A2|intros b; apply aq_set_bn]).
  assert (A3 : aqP B (advance p2' cs)) by (apply aqP_advance, A2').
  apply aqP_endBlock, aqP_consumeLine.
  apply (aqP_collectInline_flat d _ _ (set_bn X level) Hz HU3 Hb3 eq_refl eq_refl A3).
  (* ---- the new entry ---- *)
  cbv zeta. set (q := advance p2' cs) in *.
  set (q0 := if state q =? stOpening then withState q stOpenMatched else q).
  assert (G0 : G q0) by (apply G_opened, H3).
  assert (C0 : curS q q0) by apply curS_opened. destruct C0 as (Cl & Cln & _ & _).
  assert (Env0 : envOf q0 = envOf p).
  { unfold q0. rewrite env_opened. unfold q. rewrite env_advance. unfold p2'. rewrite env_updCont. unfold p2. rewrite env_openBlock.
    unfold p1. apply env_consumeIndent. }
  assert (Hn : li q0 + (ce - cs) <= len (line q0)) by (rewrite Cl, Cln, La, Lna; rewrite R2' in L2'; lia).
  destruct (G_advance q0 (ce - cs) G0 ltac:(lia) Hn) as (_ & La4 & _).
  assert (Env4 : envOf (advance q0 (ce - cs)) = envOf p) by (rewrite env_advance; exact Env0).
  unfold envOf in Env0, Env4. injection Env0 as _ Els0 Eln0. injection Env4 as _ Els4 _.
  rewrite Els4, Els0, La4, Cl, La.
  change (li p2') with (li p2).
  assert (Eln2 : line p2 = line p) by (rewrite <- Eln0, Cln, Lna; reflexivity).
  assert (Hi2 : 0 <= li p2) by (destruct H2 as ((X0 & _) & _); exact X0).
  change (rest p2') with (rest p2) in *. change (line p2') with (line p2) in *. change (li p2') with (li p2) in *.
  destruct HE as (M & Es & HL0 & HM & El & Hend).
  destruct (line_of B (lineStart p) M ltac:(lia) ltac:(lia)) as [Ll Lat]. rewrite <- Es, <- El in Ll, Lat.
  rewrite Eln2 in *.
  assert (HR : forall j, 0 <= j < len (bytesAfterIndent p) -> at_ (bytesAfterIndent p) j = at_ B (lineStart p + li p2 + j)).
  { intros j Hj. rewrite <- R2'. unfold rest. rewrite Eln2. rewrite at_from by lia. rewrite Lat by (rewrite R2' in L2'; lia). f_equal. lia. }
  unfold atq. cbn [iend istart mkI].
  destruct (Z.eq_dec cs ce) as [Ece|Nce]; [right; left; lia|].
  destruct Tl as [T|[[T1 T2]|[T1 T2]]]; [contradiction| |].
  - right. right. right. rewrite HR in T2 by lia.
    replace (lineStart p + (li p2 + cs + (ce - cs))) with (lineStart p + li p2 + ce) by lia. exact T2.
  - right. right. left.
    destruct (Z.lt_ge_cases M (len B)) as [Lt|Ge]; [|rewrite R2' in L2'; lia].
    exfalso. apply T2. rewrite HR by lia. apply isEOLb_z.
    replace (lineStart p + li p2 + (len (bytesAfterIndent p) - 1)) with (M - 1) by (rewrite R2' in L2'; lia). apply Hend, Lt.
Qed.

Lemma aqP_startFenced p : J p -> aqP B p -> aqP B (startFenced p).
Proof.
  intros HJ H. unfold startFenced. cbv zeta. destruct (_ <=? _); [assumption|].
  destruct (parseCodeFence _) as [[[fc fnn] is_] ie]. destruct (fnn =? 0); [assumption|].
  apply aqP_consumeLine. destruct (spanValid _); achain HJ H.
Qed.
Lemma aqP_startHTML p : J p -> aqP B p -> aqP B (startHTML p).
Proof.
  intros HJ H. unfold startHTML. cbv zeta. destruct (_ <=? _); [assumption|]. destruct (negb _); [assumption|].
  destruct (_ <? 0); [assumption|]. destruct (negb _ && _); [assumption|]. destruct (htmlEnd _ _); achain HJ H.
Qed.
Lemma aqP_startSetext p : aqP B p -> aqP B (startSetext p).
Proof.
  intros H. unfold startSetext. cbv zeta. destruct (negb (containerKind p =? ParagraphKind)) eqn:Ek; [assumption|].
  do 3 (match goal with |- aqP _ (if ?c then _ else _) => destruct c end; [assumption|]).
  apply aqP_endBlock, aqP_consumeLine. apply aqP_updCont_any; [assumption|].
  intros b Hb. apply aq_set_bn, aq_set_bkind; [discriminate|exact Hb].
Qed.
Lemma aqP_startThematic p : J p -> aqP B p -> aqP B (startThematic p).
Proof. intros HJ H. unfold startThematic. cbv zeta. destruct (_ <=? _); [assumption|]. destruct (_ <? 0); [assumption|]. achain HJ H. Qed.
Lemma aqP_startListItem p : J p -> aqP B p -> aqP B (startListItem p).
Proof.
  intros HJ H. unfold startListItem. cbv zeta. destruct (_ <=? _); [assumption|].
  destruct (parseListMarker _) as [[delim n] mend]. destruct (_ || _); [assumption|]. destruct (_ && _); [assumption|].
  match goal with |- context [endBlock ?X] => assert (H1 : aqP B (endBlock X)) end.
  { destruct (negb _ || negb _); achain HJ H. }
  match goal with |- context [endBlock ?X] => set (q := endBlock X) in * end.
  destruct (isRestBlank q); [achain HJ H1|].
  destruct (indent q <? 1); [achain HJ H1|]. destruct (4 <? indent q); achain HJ H1.
Qed.
Lemma aqP_startIndented p : J p -> aqP B p -> aqP B (startIndented p).
Proof. intros HJ H. unfold startIndented. destruct (_ || _ || _); [assumption|]. achain HJ H. Qed.

Definition startOKb (f : lp -> lp) : Prop := forall p, st_open p -> G p -> J p -> EnvB p -> aqP B p -> aqP B (f p).
Lemma blockStarts_okb : Forall startOKb blockStarts.
Proof.
  unfold blockStarts.
  apply Forall_cons; [intros p Hs HG H HE Ha; apply aqP_startBlockQuote; assumption|].
  apply Forall_cons; [intros p Hs HG H HE Ha; apply aqP_startATX; assumption|].
  apply Forall_cons; [intros p Hs HG H HE Ha; apply aqP_startFenced; assumption|].
  apply Forall_cons; [intros p Hs HG H HE Ha; apply aqP_startHTML; assumption|].
  apply Forall_cons; [intros p Hs HG H HE Ha; apply aqP_startSetext; assumption|].
  apply Forall_cons; [intros p Hs HG H HE Ha; apply aqP_startThematic; assumption|].
  apply Forall_cons; [intros p Hs HG H HE Ha; apply aqP_startListItem; assumption|].
  apply Forall_cons; [intros p Hs HG H HE Ha; apply aqP_startIndented; assumption|].
  apply Forall_nil.
Qed.
Lemma aqP_tryStarts : forall fs p, Forall startOKb fs -> Forall startOKj fs -> Forall startOKG fs ->
  (forall f, In f fs -> forall q, envOf (f q) = envOf q) ->
  G p -> J p -> EnvB p -> aqP B p -> aqP B (snd (tryStarts fs p)).
Proof.
  induction fs as [|f r IH]; intros p Hfs Hjs Hgs Hen HG H HE Ha; [assumption|]. cbn [tryStarts]. cbv zeta.
  inversion Hfs as [|? ? Hf Hr]; subst. inversion Hjs as [|? ? Hj Hjr]; subst. inversion Hgs as [|? ? Hg Hgr]; subst.
  assert (A1 : aqP B (f (withState p stOpening))) by (apply Hf; [left; reflexivity|apply G_withState, HG|exact H|exact HE|exact Ha]).
  assert (J1 : J (f (withState p stOpening))) by (apply Hj; [left; reflexivity|apply G_withState, HG|exact H]).
  assert (G1 : G (f (withState p stOpening))) by (apply Hg, G_withState, HG).
  assert (E1 : EnvB (f (withState p stOpening))).
  { eapply EnvB_env; [|exact HE]. rewrite (Hen f (or_introl eq_refl)). reflexivity. }
  destruct (_ || _); [assumption|]. apply IH; try assumption. intros g Hg'. apply Hen. right. exact Hg'.
Qed.
Lemma aqP_opening_loop : forall fuel p, G p -> J p -> EnvB p -> aqP B p -> aqP B (snd (opening_loop fuel p)).
Proof.
  induction fuel as [|f IH]; intros p HG H HE Ha; [assumption|]. cbn [opening_loop].
  destruct (_ || _); [|assumption].
  pose proof (aqP_tryStarts blockStarts p blockStarts_okb blockStarts_okj blockStarts_okG env_blockStarts HG H HE Ha) as A1.
  pose proof (J_tryStarts blockStarts p blockStarts_okj blockStarts_okG HG H) as H1.
  pose proof (G_tryStarts blockStarts p blockStarts_okG HG) as G1.
  pose proof (env_tryStarts blockStarts p env_blockStarts) as E1.
  destruct (tryStarts blockStarts p) as [[|] p1]; cbn [snd] in A1, H1, G1, E1.
  - destruct (_ =? stLineConsumed); [assumption|apply IH; try assumption]. eapply EnvB_env; [exact E1|exact HE].
  - assumption.
Qed.
Lemma aqP_deferredClose p : aqP B p -> aqP B (deferredClose p).
Proof. intros H. unfold deferredClose. cbv zeta. destruct (_ && _); [assumption|apply aqP_closeLastChildAt, H]. Qed.
Lemma aqP_openNewBlocks p am : G p -> J p -> EnvB p -> aqP B p -> aqP B (snd (openNewBlocks p am)).
Proof.
  intros HG H HE Ha. unfold openNewBlocks. destruct (_ =? 0).
  - cbn [snd]. unfold aqP. cbn [root withCont withRoot setLP].
    pose proof (aq_closeBlock B (source p) (lineStart p) (bheight (root p)) (root p) Ha) as Hc.
    destruct (closeBlock _ _ _ _) as [|b r]; [exact Ha|]. cbn [allP] in Hc. tauto.
  - pose proof (aqP_opening_loop (S (length (line p))) p HG H HE Ha) as H1. destruct (opening_loop _ p) as [ht p1]. cbn [snd] in H1.
    destruct am; cbn [snd]; [assumption|apply aqP_deferredClose, H1].
Qed.

Lemma aq_setLastBlankUpTo v : forall d rt, aq B rt -> aq B (setLastBlankUpTo d v rt).
Proof.
  induction d as [|d IH]; intros rt H; cbn [setLastBlankUpTo].
  - cbn [updAt]. apply aq_set_blast, H.
  - apply IH. apply aq_updAt; [intros b Hb; apply aq_set_blast, Hb|assumption].
Qed.

Lemma aqP_go q : J q -> aqP B q ->
  aqP B (let k := containerKind q in
        let inlineKind := if isCode k then TextKind else if k =? HTMLBlockKind then RawHTMLKind else UnparsedKind in
        let q' := updCont q (fun b => set_bik b (bik b ++ [mkI inlineKind (lineStart q + li q) (lineStart q + len (line q))])) in
        if isCode k && negb (hasByteSuffixEOL (line q')) then
          updCont q' (fun b => set_bik b (bik b ++ [mkI SoftLineBreakKind (lineStart q' + len (line q')) (lineStart q' + len (line q'))]))
        else q').
Proof.
  intros HJ Hq. cbv zeta. match goal with |- aqP _ (if ?c then _ else _) => destruct c end.
  - apply aqP_add_ik; [apply J_add_ik, HJ|apply aqP_add_ik; assumption].
  - apply aqP_add_ik; assumption.
Qed.

Lemma aqP_addLineText p : J p -> aqP B p -> aqP B (addLineText p).
Proof.
  intros H Ha. unfold addLineText. cbv zeta.
  set (p1 := if isRestBlank p then _ else p).
  assert (H1 : J p1).
  { unfold p1. destruct (isRestBlank p); [|assumption]. apply J_updCont; [assumption|].
    intros b Nb Hb. destruct (lastBlock b) as [c|] eqn:El; [|split; assumption].
    split; [|rewrite bkind_set_lastBlocks; exact Nb].
    apply (atT_set_lastBlocks b c); [assumption|exact El|]. unfold atL. cbn [forallb]. rewrite atT_set_blast, andb_true_r. eapply atT_lastBlock; eassumption. }
  assert (A1 : aqP B p1).
  { unfold p1. destruct (isRestBlank p); [|assumption]. apply aqP_updCont_any; [assumption|].
    intros b Hb. destruct (lastBlock b) as [c|] eqn:El; [|assumption].
    apply aq_set_lastBlocks; [assumption|]. cbn [allP]. split; [|exact I]. apply aq_set_blast. eapply aq_lastBlock; eassumption. }
  set (p2 := withRoot p1 _).
  assert (H2 : J p2).
  { destruct H1 as [X Y]. split; [unfold p2; cbn [root withRoot setLP]; apply atT_setLastBlankUpTo, X|].
    unfold p2. cbn [root container withRoot setLP cdepth]. fold (cdepth p1).
    eapply spineNA_kinds; [|exact Y]. intros k _. apply kindAt_setLastBlankUpTo. }
  assert (A2 : aqP B p2) by (unfold p2, aqP; cbn [root withRoot setLP]; apply aq_setLastBlankUpTo, A1).
  destruct (acceptsLines _).
  - apply aqP_go.
    + match goal with |- J (if ?c then _ else _) => destruct c end; [|exact H2]. apply J_consumeIndent, J_add_ik, H2.
    + match goal with |- aqP _ (if ?c then _ else _) => destruct c end; [|exact A2]. apply aqP_consumeIndent, aqP_add_ik; assumption.
  - match goal with |- aqP _ (if ?c then _ else _) => destruct c end; [|exact A2].
    apply aqP_go; [apply J_consumeIndent, J_openBlock; [discriminate|exact H2]|apply aqP_consumeIndent, aqP_openBlock, A2].
Qed.

Theorem aq_processLine bi st children ls : 0 <= ls <= bi -> bi <= len B -> (bi < len B -> isEOLb (at_ B (bi - 1)) = true) ->
  atL children = true -> allP (aq B) children ->
  allP (aq B) (fst (fst (processLine st children ls (upto B bi)))).
Proof.
  intros Hls Hbi Hend H Ha. unfold processLine. cbv zeta.
  set (p0 := resetLP st children ls (upto B bi)).
  assert (T0 : atT (root p0) = true) by (cbn [p0 resetLP root atT]; rewrite atl_other by discriminate; exact H).
  assert (S0 : spineNA O (root p0)).
  { intros k b Lk Hb. replace k with O in Hb by lia. cbn in Hb. injection Hb as <-. discriminate. }
  assert (G0 : G p0) by apply G_reset.
  assert (A0 : aqP B p0) by (unfold aqP; cbn [p0 resetLP root aq]; split; [intros E; discriminate E|exact Ha]).
  assert (E0 : EnvB p0) by (exists bi; cbn [p0 resetLP source lineStart line]; repeat split; try lia; exact Hend).
  pose proof (J_descend_loop (bheight (root p0)) _ O T0 S0) as H1.
  pose proof (aqP_descend_loop B (bheight (root p0)) _ O T0 S0 A0) as A1.
  pose proof (G_descend_loop (bheight (root p0)) _ O G0) as G1.
  pose proof (env_descend_loop (bheight (root p0)) p0 O) as Ev1.
  fold (descendOpenBlocks p0) in H1, A1, G1, Ev1.
  destruct (descendOpenBlocks p0) as [am p1]. cbn [snd] in H1, A1, G1, Ev1.
  assert (E1 : EnvB p1) by (eapply EnvB_env; [exact Ev1|exact E0]).
  set (r2 := if negb (state p1 =? stDescendTerminated) then openNewBlocks p1 am else (false, p1)).
  assert (H2 : aqP B (snd r2) /\ (fst r2 = true -> J (snd r2))).
  { unfold r2. destruct (negb _); [split; [apply aqP_openNewBlocks; assumption|apply J_openNewBlocks; assumption]|].
    split; [exact A1|cbn; discriminate]. }
  destruct r2 as [ht p2]. cbn [fst snd] in H2. destruct H2 as (A2 & J2).
  assert (A3 : aqP B (if ht then addLineText p2 else p2)).
  { destruct ht; [apply aqP_addLineText; [apply J2; reflexivity|exact A2]|exact A2]. }
  cbn [fst]. unfold aqP in A3. apply aq_eq in A3. tauto.
Qed.

End Buffer.
Print Assumptions aq_processLine.
