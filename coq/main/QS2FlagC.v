(* QS2FlagC.v -- T58b part C: the eight block starts, tryStarts and the opening loop keep W. *)
From Coq Require Import List ZArith Lia Bool.
Import ListNotations.
Require Import Base Tree Rdr Link Collect Html Recog LP Rules Starts Driver L2Kind2 L2CC TDefs TOcp TInv TDesc TStarts NoPanic47 BSOrph QS2FlagA QS2FlagB.
Open Scope Z_scope.

Definition startOKW (f : lp -> lp) : Prop := forall M p, st_open p -> W M p -> W M (f p).

Lemma W_E M p : W M p -> E p. Proof. intros H; apply H. Qed.
Lemma W_st3 M p : W M p -> st3 p. Proof. intros H; apply H. Qed.
Lemma W_ccP M p : W M p -> ccP p. Proof. intros (a & _); apply a. Qed.

(* the close at the end of the line for a freshly opened block of kind K0 *)
Lemma CloseEnd_consume q K0 : ckind q K0 -> K0 <> ParagraphKind -> K0 <> SetextHeadingKind -> cdepth q = 1%nat -> CloseEnd (consumeLine q).
Proof.
  intros Hk N1 N2 Hd. apply (CloseEnd_kind (consumeLine q) K0); [intros _; eapply ckind_same; [apply same_consumeLine|exact Hk]|exact N1|exact N2|].
  rewrite cd_consumeLine. exact Hd.
Qed.

Lemma W_startBlockQuote : startOKW startBlockQuote.
Proof.
  intros M p _ H. unfold startBlockQuote. cbv zeta. destruct (_ <=? _); [exact H|]. destruct (negb _); [exact H|].
  destruct (W_openBlock M (consumeIndent p (indent p)) BlockQuoteKind (W_consumeIndent _ _ _ H) ltac:(discriminate)) as [H2 _].
  pose proof (W_advance M _ 1 H2) as H3. destruct (0 <? _); [apply W_consumeIndent, H3|exact H3].
Qed.

Lemma W_startATX : startOKW startATX.
Proof.
  intros M p _ H. unfold startATX. cbv zeta. destruct (_ <=? _); [exact H|].
  destruct (parseATXHeading _) as [[level cs] ce]. destruct (level <? 1); [exact H|].
  set (p1 := consumeIndent p (indent p)). assert (H1 : W M p1) by (apply W_consumeIndent, H).
  destruct (W_openBlock M p1 ATXHeadingKind H1 ltac:(discriminate)) as [H2 D2].
  set (p2 := updCont (openBlock p1 ATXHeadingKind) (fun b => set_bn b level)).
  assert (H3 : W M p2) by (apply W_setters; [exact H2|settersK]).
  assert (K3 : ckind p2 ATXHeadingKind) by (apply ckind_updCont; [intros b; apply bkind_set_bn|apply ckind_openBlock3, (W_st3 M), H1]).
  set (q := collectInline (advance p2 cs) UnparsedKind (ce - cs)).
  assert (Hq : W M q) by (apply W_collectInline, W_advance, H3).
  assert (Kq : ckind q ATXHeadingKind) by (apply ckind_collectInline; eapply ckind_same; [apply same_advance|exact K3]).
  assert (Dq : cdepth q = cdepth (openBlock p1 ATXHeadingKind)) by (unfold q; rewrite cdepth_collectInline, cd_advance; reflexivity).
  apply W_endBlock_consume; [exact Hq|lia|]. intros D1. apply (CloseEnd_consume q ATXHeadingKind); [exact Kq|discriminate|discriminate|exact D1].
Qed.

Lemma W_startFenced : startOKW startFenced.
Proof.
  intros M p _ H. unfold startFenced. cbv zeta. destruct (_ <=? _); [exact H|].
  destruct (parseCodeFence _) as [[[fc fnn] is_] ie]. destruct (fnn =? 0); [exact H|].
  destruct (W_openBlock M (consumeIndent p (indent p)) FencedCodeBlockKind (W_consumeIndent _ _ _ H) ltac:(discriminate)) as [H2 D2].
  set (p4 := updCont (updCont (openBlock (consumeIndent p (indent p)) FencedCodeBlockKind) (fun b => set_bn (set_bchar b fc) fnn))
                      (fun b => set_bindent b (indent p))).
  assert (H4 : W M p4) by (apply W_setters; [apply W_setters; [exact H2|settersK]|settersK]).
  assert (D4 : cdepth p4 = cdepth (openBlock (consumeIndent p (indent p)) FencedCodeBlockKind)) by reflexivity.
  destruct (spanValid _).
  - apply W_consumeLine; [apply W_collectInline, W_advance, H4|rewrite cdepth_collectInline, cd_advance; lia].
  - apply W_consumeLine; [exact H4|lia].
Qed.

Lemma W_startHTML : startOKW startHTML.
Proof.
  intros M p _ H. unfold startHTML. cbv zeta. destruct (_ <=? _); [exact H|]. destruct (negb _); [exact H|].
  destruct (_ <? 0); [exact H|]. destruct (negb _ && _); [exact H|].
  destruct (W_openBlock M p HTMLBlockKind H ltac:(discriminate)) as [H2 D2].
  set (p2 := updCont (openBlock p HTMLBlockKind) (fun b => set_bn b (firstHtmlCond 0 7 (bytesAfterIndent p)))).
  assert (H3 : W M p2) by (apply W_setters; [exact H2|settersK]).
  assert (K3 : ckind p2 HTMLBlockKind) by (apply ckind_updCont; [intros b; apply bkind_set_bn|apply ckind_openBlock3, (W_st3 M), H]).
  match goal with |- W M (if ?c then _ else _) => destruct c end; [|exact H3].
  set (q := collectInline p2 RawHTMLKind (len (bytesAfterIndent p2))).
  assert (Hq : W M q) by (apply W_collectInline, H3).
  assert (Kq : ckind q HTMLBlockKind) by (apply ckind_collectInline, K3).
  assert (Dq : cdepth q = cdepth (openBlock p HTMLBlockKind)) by (unfold q; rewrite cdepth_collectInline; reflexivity).
  apply W_endBlock_consume; [exact Hq|lia|]. intros D1. apply (CloseEnd_consume q HTMLBlockKind); [exact Kq|discriminate|discriminate|exact D1].
Qed.

Lemma W_startThematic : startOKW startThematic.
Proof.
  intros M p _ H. unfold startThematic. cbv zeta. destruct (_ <=? _); [exact H|]. destruct (_ <? 0); [exact H|].
  set (p1 := consumeIndent p (indent p)). assert (H1 : W M p1) by (apply W_consumeIndent, H).
  destruct (W_openBlock M p1 ThematicBreakKind H1 ltac:(discriminate)) as [H2 D2].
  set (q := advance (openBlock p1 ThematicBreakKind) (parseThematicBreak (bytesAfterIndent p))).
  assert (Hq : W M q) by (apply W_advance, H2).
  assert (Kq : ckind q ThematicBreakKind) by (eapply ckind_same; [apply same_advance|apply ckind_openBlock3, (W_st3 M), H1]).
  assert (Dq : cdepth q = cdepth (openBlock p1 ThematicBreakKind)) by (unfold q; rewrite cd_advance; reflexivity).
  apply W_endBlock_consume; [exact Hq|lia|]. intros D1. apply (CloseEnd_consume q ThematicBreakKind); [exact Kq|discriminate|discriminate|exact D1].
Qed.

Lemma W_startIndented : startOKW startIndented.
Proof.
  intros M p _ H. unfold startIndented. destruct (_ || _ || _); [exact H|].
  apply (W_openBlock M (consumeIndent p codeBlockIndentLimit) IndentedCodeBlockKind); [apply W_consumeIndent, H|discriminate].
Qed.

(* ---- setext: the paragraph is turned into a heading and closed at the end of the line ---- *)
Lemma lastIsPara_rev l : lastIsPara l = match rev l with x :: _ => bkind x =? ParagraphKind | [] => false end.
Proof. reflexivity. Qed.

Lemma W_startSetext : startOKW startSetext.
Proof.
  intros M p _ H. unfold startSetext. cbv zeta. destruct (negb (containerKind p =? ParagraphKind)) eqn:Ek; [exact H|].
  destruct (_ <=? _); [exact H|]. destruct (_ =? 0); [exact H|].
  destruct (negb (containerHasParagraphContent p)) eqn:Ecp; [exact H|].
  apply negb_false_iff, Z.eqb_eq in Ek. apply negb_false_iff in Ecp.
  set (level := parseSetextHeadingUnderline (bytesAfterIndent p)).
  pose proof H as (a & b & c & d).
  assert (Hd : (1 <= cdepth p)%nat).
  { destruct (cdepth p) eqn:Ed; [|lia]. exfalso. rewrite (containerKind_root p Ed) in Ek. destruct a as (_ & (A & _) & _). rewrite A in Ek. discriminate. }
  set (g := fun b => set_bn (set_bkind b SetextHeadingKind) level).
  set (q := updCont p g).
  assert (Hq : W M q).
  { pose proof (blockStarts_okE) as HE.
    (* E of the intermediate state, as in NoPanic47.blockStarts_okE *)
    assert (Eq : E q).
    { destruct a as [s [a0 b0]]. split; [exact s|]. split; [|exact b0].
      apply ccP_updCont_compat; [exact a0| |].
      - intros x Hx Hc. pose proof (ckind_self p x Hx) as Ex. rewrite Ek in Ex.
        apply cc_parts in Hc. destruct Hc as [C1 _]. rewrite Ex in C1.
        assert (Ekids : bkids x = []) by (apply forallb_false_nil; exact C1).
        destruct x as [K0 s0 e bk ik a1 n c0 l lb]. cbn [bkids bkind] in *. subst bk K0. split; [reflexivity|]. right. split; discriminate.
      - intros E0. exfalso. lia. }
    split; [exact Eq|]. split; [exact b|]. split; [|exact d].
    apply K_updCont; [intros x; destruct x; reflexivity|intros x; destruct x; reflexivity|exact c]. }
  apply W_endBlock_consume; [exact Hq|exact Hd|]. intros D1. change (cdepth q) with (cdepth p) in D1.
  (* the block that is closed *)
  intros c1 Hc1 Ho1.
  assert (Er : root (consumeLine q) = updAt 1 g (root p)).
  { destruct (sameT_consumeLine q) as (Er & _). rewrite Er. unfold q, updCont. cbn [root withRoot setLP]. rewrite D1. reflexivity. }
  assert (Es : source (consumeLine q) = source p) by (destruct (sameT_consumeLine q) as (_ & _ & _ & _ & Es & _); rewrite Es; reflexivity).
  rewrite Er in Hc1. rewrite getAt_updAt_same in Hc1.
  destruct (getAt 1 (root p)) as [c0|] eqn:E0; [|discriminate]. cbn [option_map] in Hc1. inversion Hc1; subst c1. clear Hc1.
  assert (Ecb : contBlock p = c0) by (unfold contBlock; rewrite D1, E0; reflexivity).
  assert (Ek0 : bkind c0 = ParagraphKind) by (rewrite <- Ecb; exact Ek).
  unfold containerHasParagraphContent in Ecp. rewrite Ek, Ecb in Ecp. cbn [negb Z.eqb] in Ecp.
  change (ParagraphKind =? ParagraphKind) with true in Ecp. cbn [negb] in Ecp.
  destruct (bheight_S (root (consumeLine q))) as [f Ef]. rewrite Ef, Es.
  apply (closeBlock_setext_end f (source p) c0 (g c0)).
  - exact Ho1.
  - destruct c0; reflexivity.
  - destruct c0; reflexivity.
  - rewrite Ek0. discriminate.
  - rewrite lastIsPara_rev. exact Ecp.
Qed.

(* ---- list items ---- *)
Lemma W_startListItem : startOKW startListItem.
Proof.
  intros M p Hs H. unfold startListItem. cbv zeta. destruct (_ <=? _); [exact H|].
  destruct (parseListMarker _) as [[delim n] mend]. destruct (_ || _); [exact H|]. destruct (_ && _); [exact H|].
  set (p1 := consumeIndent p (indent p)). assert (H1 : W M p1) by (apply W_consumeIndent, H).
  assert (S1 : st_open p1) by (apply st_open_consumeIndent, Hs).
  set (cdelim := if (containerKind p1 =? ListKind) || (containerKind p1 =? ListItemKind) then bchar (contBlock p1) else 0).
  set (p2 := if negb (containerKind p1 =? ListKind) || negb (cdelim =? delim) then _ else p1).
  assert (H2 : W M p2 /\ st_open p2 /\ containerKind p2 = ListKind).
  { unfold p2. destruct (negb (containerKind p1 =? ListKind) || negb (cdelim =? delim)) eqn:Ec.
    - destruct (W_openBlock M p1 ListKind H1 ltac:(discriminate)) as [Ho _].
      assert (Hq : W M (updCont (openBlock p1 ListKind) (fun b => set_bchar b delim))) by (apply W_setters; [exact Ho|settersK]).
      split; [exact Hq|]. split; [exact (st_open_openBlock p1 ListKind S1)|]. apply containerKind_of; [apply (W_ccP M), Hq|].
      apply ckind_updCont; [intros b; apply bkind_set_bchar|]. apply ckind_openBlock3. apply (W_st3 M), H1.
    - apply orb_false_iff in Ec. destruct Ec as [Ec _]. apply negb_false_iff, Z.eqb_eq in Ec. split; [exact H1|]. split; [exact S1|exact Ec]. }
  destruct H2 as (H2 & S2 & K2).
  destruct (W_openBlock' M p2 ListItemKind H2 ltac:(rewrite K2; reflexivity)) as [H3 D3].
  set (p3 := updCont (openBlock p2 ListItemKind) (fun b => set_bchar b delim)).
  assert (H3' : W M p3) by (apply W_setters; [exact H3|settersK]).
  assert (S3 : st_open p3) by exact (st_open_openBlock p2 ListItemKind S2).
  assert (K3 : containerKind p3 = ListItemKind).
  { apply containerKind_of; [apply (W_ccP M), H3'|]. apply ckind_updCont; [intros b; apply bkind_set_bchar|]. apply ckind_openBlock3, (W_st3 M), H2. }
  destruct (W_openBlock M p3 ListMarkerKind H3' ltac:(discriminate)) as [H4 _].
  assert (D4 : cdepth (openBlock p3 ListMarkerKind) = S (cdepth p3)) by (apply cdepth_openBlock_in; [exact S3|rewrite K3; reflexivity]).
  assert (D3' : cdepth p3 = cdepth (openBlock p2 ListItemKind)) by reflexivity.
  set (p5 := advance (openBlock p3 ListMarkerKind) mend).
  assert (H5 : W M p5) by (apply W_advance, H4).
  assert (D5 : cdepth p5 = S (cdepth p3)) by (unfold p5; rewrite cd_advance; exact D4).
  assert (Hq : W M (endBlock p5)) by (apply W_endBlock_deep; [exact H5|lia]).
  assert (Dq : cdepth (endBlock p5) = cdepth p3) by (apply cdepth_endBlock; [apply (W_st3 M), H5|exact D5]).
  set (q := endBlock p5) in *.
  destruct (isRestBlank q).
  { apply W_consumeLine; [apply W_setters; [exact Hq|settersK]|]. change (cdepth (updCont q _)) with (cdepth q). lia. }
  destruct (indent q <? 1); [apply W_setters; [exact Hq|settersK]|].
  destruct (4 <? indent q); (apply W_setters; [apply W_consumeIndent, Hq|settersK]).
Qed.

Lemma blockStarts_okW : Forall startOKW blockStarts.
Proof.
  unfold blockStarts.
  repeat (apply Forall_cons; [first [exact W_startBlockQuote|exact W_startATX|exact W_startFenced|exact W_startHTML|exact W_startSetext|exact W_startThematic|exact W_startListItem|exact W_startIndented]|]).
  apply Forall_nil.
Qed.

(* ---- tryStarts / the opening loop ---- *)
(* the context before a start function is tried: the state is irrelevant *)
Definition V (M : Z) (p : lp) : Prop := F p /\ CU p /\ PO p /\ Mp p = M.

Lemma V_W0 M p : V M p -> W M (withState p stOpening).
Proof.
  intros (a & b & c & d). split; [split; [left; left; reflexivity|exact a]|]. split; [exact b|]. split; [|exact d].
  split; [exact c|]. intros S2. cbn in S2. discriminate.
Qed.
Lemma W_V M p : W M p -> V M p.
Proof. intros ((_ & a) & b & (c & _) & d). split; [exact a|]. split; [exact b|]. split; [exact c|exact d]. Qed.

Lemma W_tryStarts : forall fs M p, Forall startOKW fs -> V M p ->
  W M (snd (tryStarts fs p)) \/ (fst (tryStarts fs p) = false /\ V M (snd (tryStarts fs p))).
Proof.
  induction fs as [|f r IH]; intros M p Hfs H; [right; split; [reflexivity|exact H]|]. cbn [tryStarts]. cbv zeta.
  inversion Hfs as [|? ? Hf Hr]; subst.
  assert (H1 : W M (f (withState p stOpening))) by (apply Hf; [left; reflexivity|apply V_W0, H]).
  destruct (_ || _); [left; exact H1|]. apply IH; [exact Hr|apply W_V, H1].
Qed.

Lemma tryStarts_true_state : forall fs p, fst (tryStarts fs p) = true ->
  state (snd (tryStarts fs p)) = stOpenMatched \/ state (snd (tryStarts fs p)) = stLineConsumed.
Proof.
  induction fs as [|f r IH]; intros p H; [discriminate|]. cbn [tryStarts] in *. cbv zeta in *.
  destruct (_ || _) eqn:Ec; [|apply IH, H]. cbn [snd]. apply orb_true_iff in Ec. destruct Ec as [Ec|Ec]; apply Z.eqb_eq in Ec; tauto.
Qed.

(* result of the opening loop: when it reports "no text", the line was consumed by a start and K holds *)
Lemma W_opening_loop : forall fuel M p, V M p ->
  V M (snd (opening_loop fuel p)) /\
  (fst (opening_loop fuel p) = false -> state (snd (opening_loop fuel p)) = stLineConsumed /\ K M (snd (opening_loop fuel p))).
Proof.
  induction fuel as [|f IH]; intros M p H; [split; [exact H|discriminate]|]. cbn [opening_loop].
  destruct (_ || _); [|split; [exact H|discriminate]].
  pose proof (W_tryStarts blockStarts M p blockStarts_okW H) as H1.
  destruct (tryStarts blockStarts p) as [[|] p1] eqn:Et; cbn [fst snd] in H1.
  - destruct H1 as [H1|[H1 _]]; [|discriminate].
    destruct (Z.eqb_spec (state p1) stLineConsumed) as [E2|E2].
    + cbn [fst snd]. split; [apply W_V, H1|]. intros _. split; [exact E2|apply H1].
    + apply IH. apply W_V, H1.
  - cbn [fst snd]. split; [|discriminate]. destruct H1 as [H1|[_ H1]]; [apply W_V, H1|exact H1].
Qed.
