(* ItemSimDrv5.v -- T65: the driver (QS2Drv5.v, T58, adapted to the list item).
   The run of parseBlocks on D (no tab, CR, NUL; no whitespace-only line) is followed through allBlocks / nextBlock / lineLoop / skipLoop
   (skeleton of Total.v, with the "lines accounted" invariant of LA13.v carried along for the lower bounds needed when a root
   block is cut off); the run on item mk N D is one lineLoop: the first line opens list, item and marker, the other lines are
   processed under the open item, the end of input closes item and list.  Since D has no blank line, the blank-line rule never fires at the
   top of the item, so the lastLineBlank flags of the item's children are those of the root blocks of D (no flag machinery needed). *)
From Coq Require Import List ZArith Lia Bool Arith.
Import ListNotations.
Require Import Base Tree Rdr Link Collect Html Recog LP Rules Starts Driver Rec16 Rec17 Rec18 L2Kind L2Kind2 L2CC L2Bnd L2BndS NoPanicAll StreamFuel SliceBase
  TPanicRange TDefs TInv TDesc TLine2 TShift Total LADef LA1 LA11 LA12 LA13 LAOcp LAPad
  DefSpansOcp DefSpansWalk DefSpansDrv SliceNest
  QuoteSimDefs QuoteSimTree QuoteSimNest QuoteSimQLine QuoteSimMap QuoteSimReloc QuoteSimAux QuoteSimLines QuoteSimDrv1 QuoteSimDrv2 QuoteSimDrv3
  QRdrBase QRdrCollect QRdrOcp QS2Drv1 QS2Drv2
  ItemSimDefs ItemSimNest ItemSimQLine ItemSimFirst ItemSimLines ItemSimDrv1 ItemSimDrv2.
Require BlankPrefix QuoteSimDrv4 QS2Reloc QS2Nest QS2Drv5 ItemSimReloc.
Open Scope Z_scope.

Section Drv.
  Variables (mk : bytes) (delim nmk NN KK : Z) (D : bytes).
  Hypothesis K_eq : KK + 0 = len mk + NN.
  Hypothesis N_rng : 1 <= NN <= 4.
  Hypothesis Hmk : mkOK mk delim nmk.
  Hypothesis mk_noEol : BlankPrefix.noEol mk.
  Hypothesis mk_tab : noTab mk.
  Hypothesis mk_nul : noNul mk.
  Hypothesis D_tab : noTab D.
  Hypothesis D_cr : noCR D.
  Hypothesis D_nul : noNul D.
  Hypothesis D_first : exists c0 r0, D = c0 :: r0 /\ isSpaceTabOrLineEnding c0 = false.
  (* D has no whitespace-only line *)
  Hypothesis D_nb : forall a pre body eol post, lineAt D a pre body eol post -> isBlankLine (body ++ eol) = false.
  (* the first line of the result is not a thematic break *)
  Hypothesis D_tb : forall body eol post, lineAt D 0 [] body eol post -> parseThematicBreak (mk ++ spaces NN ++ body ++ eol) < 0.
  Notation Q := (Idoc mk NN D).
  Notation LBA := (QS2Drv5.LBA D).
  Notation sg := (sgI KK D).
  Notation eB := (eBI KK D).
  Notation lpm := (lpI KK D).
  Notation MO := (MOI KK D).
  Notation epsK := (epsBK KK D).

  Lemma N_pos : 0 <= NN. Proof. lia. Qed.
  Lemma W_pos : 0 < len mk.
  Proof. destruct Hmk as [(m0 & mr & E & _) _ _]. rewrite E, len_cons. pose proof (len_nonneg mr). lia. Qed.
  Lemma K_pos : 1 <= KK. Proof. pose proof W_pos. lia. Qed.
  Lemma D_first10 : exists c r, D = c :: r /\ c <> 10.
  Proof. destruct D_first as (c0 & r0 & E & Hc). exists c0, r0. split; [exact E|]. intros ->. discriminate Hc. Qed.
  Lemma D_ne : D <> []. Proof. destruct D_first as (c0 & r0 & E & _). rewrite E. discriminate. Qed.

  (* ---- bytes ---- *)
  Lemma Forall_indentAux (P : Z -> Prop) : P 32 -> forall l b, Forall P l -> Forall P (indentAux KK b l).
  Proof.
    intros H2. induction l as [|c l IH]; intros b H; [constructor|]. inversion H as [|? ? Hc Hl]. cbn [indentAux].
    apply Forall_app. split; [destruct b; [unfold spaces; apply Forall_forall; intros y Hy; apply repeat_spec in Hy; subst y; exact H2|constructor]|].
    constructor; [exact Hc|apply IH, Hl].
  Qed.
  Lemma Forall_item (P : Z -> Prop) : P 32 -> Forall P mk -> Forall P D -> Forall P Q.
  Proof.
    intros H2 Hm HD. unfold Idoc, item. apply Forall_app. split; [exact Hm|]. apply Forall_app. split.
    - unfold spaces. apply Forall_forall. intros x Hx. apply repeat_spec in Hx. subst x. exact H2.
    - replace (len mk + NN) with KK by lia. apply Forall_indentAux; assumption.
  Qed.
  Lemma Q_nul : noNul Q. Proof. apply Forall_item; [discriminate|exact mk_nul|exact D_nul]. Qed.
  Lemma Q_tab : noTab Q. Proof. apply Forall_item; [discriminate|exact mk_tab|exact D_tab]. Qed.
  Lemma Q_first : exists m0 rest, Q = m0 :: rest /\ isSpaceTabOrLineEnding m0 = false.
  Proof.
    destruct Hmk as [(m0 & mr & Emk & Hsp & _) _ _]. exists m0, (mr ++ spaces NN ++ indentAux (len mk + NN) false D). split; [unfold Idoc, item; rewrite Emk at 1; reflexivity|].
    pose proof mk_noEol as He. rewrite Emk in He. inversion He as [|? ? H0 _]; subst. unfold isSpaceTabOrLineEnding. unfold isSpTab in Hsp.
    apply orb_false_iff in Hsp. destruct Hsp as [H32 H9]. apply orb_false_iff in H0. destruct H0 as [H10 H13]. rewrite H32, H9, H10, H13. reflexivity.
  Qed.

  (* ---- a line of D and the corresponding line of item D ---- *)
  Lemma line_geomI o ls : 0 <= o -> 0 <= ls -> o + ls < len D -> (o + ls = 0 \/ at_ D (o + ls - 1) = 10) ->
    exists pre body eol post, lineAt D (o + ls) pre body eol post /\ lineEnd (from_ D o) ls = ls + len body + len eol /\
      lineEnd Q (epsK (o + ls)) = epsK (o + (ls + len body + len eol)) /\
      epsK (o + (ls + len body + len eol)) = epsK (o + ls) + KK + len body + len eol /\
      LBA (o + (ls + len body + len eol)) /\ o + (ls + len body + len eol) <= len D.
  Proof.
    intros Ho Hls Hlt Hb. destruct (lineAt_exists D (o + ls) ltac:(lia) Hb) as (pre & body & eol & post & L).
    exists pre, body, eol, post. split; [exact L|]. pose proof L as (ED & Ha & Hbn & He & Hp & Hne).
    pose proof (lineAt_lineEnd D _ _ _ _ _ D_cr L) as E1.
    destruct (lineAt_I mk NN KK K_eq N_pos mk_noEol D _ _ _ _ _ D_cr L) as (Q1 & Q2 & Q3 & Q4). pose proof (len_nonneg body) as Hlb. pose proof (len_nonneg eol) as Hle.
    assert (Hlen : o + ls + len body + len eol <= len D) by (rewrite ED, !len_app; pose proof (len_nonneg post); lia).
    assert (Hpos : 0 < len body + len eol) by (destruct body; [destruct eol; [contradiction|rewrite len_cons; pose proof (len_nonneg eol); lia]|rewrite len_cons; pose proof (len_nonneg body); lia]).
    assert (E3 : epsK (o + (ls + len body + len eol)) = epsK (o + ls) + KK + len body + len eol).
    { replace (o + (ls + len body + len eol)) with (o + ls + (len body + len eol)) by lia. rewrite (lineAt_epsBK_in KK D _ _ _ _ _ (len body + len eol) L) by lia. lia. }
    split; [rewrite QS2Drv5.lineEnd_from by lia; lia|]. split; [rewrite E3; exact Q2|]. split; [exact E3|]. split; [|lia].
    destruct He as [->|[-> ->]].
    - right. left. change (len [10]) with 1 in *. split; [lia|]. rewrite ED. replace (o + (ls + len body + 1) - 1) with (len (pre ++ body) + 0) by (rewrite len_app; lia).
      rewrite app_assoc. rewrite at_app_shift by lia. reflexivity.
    - right. right. rewrite ED, !len_app. change (len (@nil Z)) with 0. lia.
  Qed.

  (* ---- progress of the nested run: a line loop over the children ch of the document ([] before the first line, then [list]) ---- *)
  Definition QLc (f : nat) (stQ : Z) (ch : list block) (lsq : Z) : nb := lineLoop f stQ ch lsq (QS Q lsq).
  Lemma QLc_step f stQ ch lsq bl' st' :
    processLine stQ ch lsq (upto Q (lineEnd Q lsq)) = ([bl'], st', 0) -> isOpen bl' = true ->
    QLc (S f) stQ ch lsq = QLc f st' [bl'] (lineEnd Q lsq).
  Proof.
    intros E Ho. unfold QLc. cbn [lineLoop]. cbn [buf bi QS]. rewrite E. change (negb (0 =? 0)) with false. cbv iota.
    unfold makeRoot. rewrite Ho. reflexivity.
  Qed.
  Lemma QLc_fin f stQ ch lsq bl' st' :
    processLine stQ ch lsq (upto Q (lineEnd Q lsq)) = ([bl'], st', 0) -> isOpen bl' = false ->
    QLc (S f) stQ ch lsq = NBBlock (qroot Q bl') (qend Q lsq bl').
  Proof.
    intros E Ho. unfold QLc. cbn [lineLoop]. cbn [buf bi QS]. rewrite E. change (negb (0 =? 0)) with false. cbv iota.
    unfold makeRoot. rewrite Ho. reflexivity.
  Qed.
  Definition QStep (lsq stQ : Z) (ch : list block) (k : nat) (lsq' stQ' : Z) (ch' : list block) : Prop :=
    (forall f, QLc (k + f) stQ ch lsq = QLc f stQ' ch' lsq') /\ Z.of_nat k <= lsq' - lsq.
  Definition QDone (lsq stQ : Z) (ch : list block) (k : nat) (bF : block) : Prop :=
    (forall f, QLc (k + S f) stQ ch lsq = NBBlock (qroot Q bF) (qend Q (len Q) bF)) /\ Z.of_nat k <= len Q - lsq.
  Lemma QStep_refl lsq stQ ch : QStep lsq stQ ch 0 lsq stQ ch.
  Proof. split; [intros f; reflexivity|lia]. Qed.
  Lemma QStep_trans l1 s1 b1 k1 l2 s2 b2 k2 l3 s3 b3 : QStep l1 s1 b1 k1 l2 s2 b2 -> QStep l2 s2 b2 k2 l3 s3 b3 -> QStep l1 s1 b1 (k1 + k2) l3 s3 b3.
  Proof. intros [A1 A2] [B1 B2]. split; [intros f; rewrite <- Nat.add_assoc, A1, B1; reflexivity|lia]. Qed.
  Lemma QStep_Done l1 s1 b1 k1 l2 s2 b2 k2 bF : QStep l1 s1 b1 k1 l2 s2 b2 -> QDone l2 s2 b2 k2 bF -> QDone l1 s1 b1 (k1 + k2) bF.
  Proof. intros [A1 A2] [B1 B2]. split; [intros f; rewrite <- Nat.add_assoc, A1, B1; reflexivity|lia]. Qed.

  (* ---- the correspondence between the children of the open item and the children of the plain document ---- *)
  Definition mkr : block := markerBlk 0 (0 + len mk).
  Definition lSk : block := listSk 0 delim.
  Definition iSk : block := itemSk 0 KK delim.
  Definition CorrI (o : Z) (buf0 : bytes) (bi0 : Z) (ks done : list block) (ch : list block) : Prop :=
    (ch = [] /\ o + bi0 = 0 /\ ks = [] /\ done = []) \/
    (exists bl it, ch = [bl] /\ bkind bl = ListKind /\ isOpen bl = true /\ auxOf bl = lSk /\ bkids bl = [it] /\
       bkind it = ListItemKind /\ isOpen it = true /\ auxOf it = iSk /\
       0 < o + bi0 /\ Forall closedB done /\ bkids it = (mkr :: done) ++ map (MO o) ks /\
       QS2Reloc.ceL0 (upto buf0 bi0) (upto Q (epsK (o + bi0))) (sg o) ks).

  Lemma HM_HMk ks : HM ks -> HMk ks.
  Proof. intros (pre & c & -> & Ho & Hh). unfold HMk. rewrite rev_app_distr. cbn. tauto. Qed.
  Lemma bindent_auxOf b v : auxOf b = itemSk 0 v delim -> bindent b = v.
  Proof. destruct b. unfold auxOf, itemSk, itemBlk. cbn. intros E. inversion E. reflexivity. Qed.
  Lemma closedB_mkr : closedB mkr.
  Proof. unfold closedB, isOpen, mkr, markerBlk. cbn [bend]. apply Z.ltb_ge. pose proof W_pos. lia. Qed.

  (* one line of both runs *)
  Lemma step_lineI o ls st stQ ks done ch : 0 <= o -> 0 <= ls -> o + ls < len D -> (o + ls = 0 \/ at_ D (o + ls - 1) = 10) ->
    ccF ks = true -> (st = stDescendTerminated -> HMk ks) -> stQ <> stDescendTerminated \/ ch <> [] -> CorrI o (from_ D o) ls ks done ch ->
    la (upto (from_ D o) (lineEnd (from_ D o) ls)) ls (docRoot ks) ->
    let bi := lineEnd (from_ D o) ls in
    let r := processLine st ks ls (upto (from_ D o) bi) in
    fst (fst r) <> [] ->
    exists bl', processLine stQ ch (epsK (o + ls)) (upto Q (lineEnd Q (epsK (o + ls)))) = ([bl'], snd (fst r), snd r) /\
                isOpen bl' = true /\
                CorrI o (from_ D o) bi (fst (fst r)) done [bl'] /\
                lineEnd Q (epsK (o + ls)) = epsK (o + bi) /\ epsK (o + ls) < epsK (o + bi) /\ ls < bi /\ LBA (o + bi) /\ o + bi <= len D.
  Proof.
    intros Ho Hls Hlt Hb Hcc Hst HstQ HC Hla. cbv zeta. intros Hne.
    destruct (line_geomI o ls Ho Hls Hlt Hb) as (pre & body & eol & post & L & G1 & G2 & G3 & G4 & G5).
    pose proof (len_nonneg body) as Hlb. pose proof (len_nonneg eol) as Hle.
    assert (Hpos : 0 < len body + len eol).
    { destruct L as (_ & _ & _ & _ & _ & Hne0). destruct body; [destruct eol; [contradiction|rewrite len_cons; pose proof (len_nonneg eol); lia]|rewrite len_cons; pose proof (len_nonneg body); lia]. }
    rewrite G1 in Hla, Hne. rewrite G1, G2, G3. pose proof K_pos as HK.
    destruct HC as [(Ech & E0 & Eks & Edn)|(bl & it & Ech & Kl & Ol & Al & El & Ki & Oi & Ai & Ha0 & Hcl & Ekids & Hce)].
    - (* the first line *)
      subst ch ks done. assert (o = 0 /\ ls = 0) by lia. destruct H as [-> ->]. cbn [Z.add] in *.
      pose proof L as (ED & Ha & Hbn & He & Hp & Hne0).
      assert (Epre : pre = []) by (destruct pre; [reflexivity|rewrite len_cons in Ha; pose proof (len_nonneg pre); lia]). subst pre.
      assert (Hb0 : exists c0 r, body = c0 :: r /\ isSpaceTabOrLineEnding c0 = false).
      { destruct D_first as (c0 & r0 & ED0 & Hc0). cbn [app] in ED. rewrite ED0 in ED. destruct body as [|b0 br].
        - exfalso. destruct He as [->|[-> ->]]; [cbn [app] in ED; inversion ED; subst c0; discriminate Hc0|contradiction].
        - cbn [app] in ED. inversion ED; subst b0. exists c0, br. split; [reflexivity|exact Hc0]. }
      assert (HstQ' : stQ <> stDescendTerminated) by (destruct HstQ as [H|H]; [exact H|contradiction]).
      destruct (line_stepI_first mk NN KK D K_eq N_pos K_pos mk_noEol D_first10 D_tab D_cr D_nul delim nmk body eol post stQ Hmk N_rng mk_tab L Hb0 (D_tb body eol post L) HstQ')
        as (bl' & it' & beta & P1 & P2 & P3 & P4 & P5 & P6 & P7 & P8 & P9 & P10 & P11 & P12).
      cbv zeta in *. replace (0 + len body + len eol) with (len body + len eol) in * by lia. replace (0 + KK + len body + len eol) with (KK + len body + len eol) in * by lia.
      change (epsK 0) with 0 in *. replace (0 + KK + len body + len eol) with (KK + len body + len eol) in * by lia.
      (* the state of the plain run on its first line does not matter *)
      assert (EsD : from_ (upto (from_ D 0) (len body + len eol)) 0 = body ++ eol).
      { rewrite upto_from_comm by lia. rewrite from_from by lia. replace (0 + (len body + len eol)) with (0 + len body + len eol) by lia. apply (lineAt_line D 0 [] body eol post L). }
      assert (Hne' : from_ (upto (from_ D 0) (len body + len eol)) 0 <> []) by (rewrite EsD; exact Hne0).
      assert (Hst0 : stQ = stDescendTerminated -> HMk []) by (intros E; contradiction).
      rewrite (processLine_state stQ [] 0 _ Hne' Hst0) in P1, P10, P11, P12.
      rewrite (processLine_state st [] 0 _ Hne' Hst) in Hne |- *.
      assert (Eb : beta = false) by (destruct beta; [exfalso; apply Hne, P11; reflexivity|reflexivity]).
      subst beta. cbn [QS2Nest.blankFr fst] in P9, P10.
      exists bl'.
      split; [exact P1|]. split; [exact P3|]. split; [|repeat split; lia || assumption].
      right. exists bl', it'. split; [reflexivity|]. split; [exact P2|]. split; [exact P3|]. split; [exact P4|]. split; [exact P5|].
      split; [exact P6|]. split; [exact P7|]. split; [exact P8|].
      split; [lia|]. split; [constructor|]. split; [exact P10|].
      replace (epsK (0 + (len body + len eol))) with (KK + len body + len eol) by (rewrite G3; reflexivity). exact P12.
    - (* a line under the open item *)
      subst ch.
      assert (Hce0 : QS2Reloc.ceL0 (upto (from_ D o) (ls + len body + len eol)) (upto Q (epsK (o + ls) + KK + len body + len eol)) (sg o) ks).
      { unfold QS2Reloc.ceL0 in *. revert Hce. apply Forall_impl. intros b.
        apply (ceB0_ext _ _ (sg o) (upto (from_ D o) (ls + len body + len eol)) (upto Q (epsK (o + ls) + KK + len body + len eol)) ls (epsK (o + ls))).
        - symmetry. apply upto_upto. lia.
        - symmetry. apply upto_upto. lia. }
      assert (Hce' : QS2Reloc.ceL (upto (from_ D o) (ls + len body + len eol)) (upto Q (epsK (o + ls) + KK + len body + len eol)) (sg o)
                       (OPd (upto (from_ D o) (ls + len body + len eol)) (sg o)) ks).
      { apply (strengthenL _ _ _ ls); [apply Forall_upto, Forall_from, D_cr| |exact Hla|exact Hce0].
        rewrite len_upto' by (rewrite len_from by lia; lia). lia. }
      destruct (line_stepI mk NN KK D K_eq N_pos K_pos mk_noEol D_first10 D_tab D_cr D_nul o ls (o + ls) pre body eol post st stQ ks bl it (mkr :: done, iSk)
                  Ho Hls eq_refl Ha0 L (D_nb _ _ _ _ _ L) Hcc Hce' Hst Kl Ol El Ki Oi (bindent_auxOf it KK Ai) Ai Ekids ltac:(constructor; [apply closedB_mkr|exact Hcl]))
        as (bl' & it' & beta & P1 & P2 & P3 & P4 & P5 & P6 & P7 & P8 & P9 & P10 & P11 & P12). cbv zeta in *.
      assert (Eb : beta = false) by (destruct beta; [exfalso; apply Hne, P11; reflexivity|reflexivity]).
      subst beta. cbn [QS2Nest.blankFr fst] in P9, P10.
      exists bl'. split; [exact P1|]. split; [exact P3|]. split; [|repeat split; lia || assumption].
      right. exists bl', it'. split; [reflexivity|]. split; [exact P2|]. split; [exact P3|]. split; [rewrite P4; exact Al|]. split; [exact P5|].
      split; [exact P6|]. split; [exact P7|]. split; [exact P8|]. split; [lia|]. split; [inversion P9; assumption|]. split; [exact P10|].
      replace (epsK (o + (ls + len body + len eol))) with (epsK (o + ls) + KK + len body + len eol) by (symmetry; exact G3). exact P12.
  Qed.

  (* ---- the end of input ---- *)
  Lemma lenQ_eq : len Q = epsK (len D). Proof. apply (len_item_epsBK mk NN KK K_eq N_pos D D_ne D_first10). Qed.

  Lemma eofClose_MI f o ks ls : 0 <= o -> 0 <= ls -> o + ls = len D -> (ks = [] \/ 0 < ls) ->
    la (upto (from_ D o) ls) ls (docRoot ks) ->
    QS2Reloc.ceL0 (upto (from_ D o) ls) (upto Q (epsK (o + ls))) (sg o) ks ->
    eofClose f (upto Q (epsK (o + ls))) (map (MO o) ks) (eB o ls) = map (MO o) (eofClose f (upto (from_ D o) ls) ks ls) /\
    QS2Reloc.ceL0 (upto (from_ D o) ls) (upto Q (epsK (o + ls))) (sg o) (eofClose f (upto (from_ D o) ls) ks ls).
  Proof.
    intros Ho Hls Hend Hk Hla Hce0. unfold eofClose. rewrite <- map_rev. destruct (rev ks) as [|c r] eqn:Er; [split; [reflexivity|exact Hce0]|]. cbn [map].
    assert (Hpos : 0 < ls).
    { destruct Hk as [->|Hk]; [discriminate Er|exact Hk]. }
    set (sD := upto (from_ D o) ls) in *. set (sQ := upto Q (epsK (o + ls))) in *.
    assert (Hce : QS2Reloc.ceL sD sQ (sg o) (OPd sD (sg o)) ks).
    { apply (strengthenL _ _ _ ls); [apply Forall_upto, Forall_from, D_cr| |exact Hla|exact Hce0].
      unfold sD. rewrite len_upto' by (rewrite len_from by lia; lia). lia. }
    assert (Hc : QS2Reloc.ceB sD sQ (sg o) (OPd sD (sg o)) c).
    { unfold QS2Reloc.ceL in Hce. rewrite Forall_forall in Hce. apply Hce. apply in_rev. rewrite Er. left. reflexivity. }
    destruct (QS2Reloc.closeBlock_M sD sQ (sg o) (eB o) (lpm o) (eBI_neg KK D o) (fun e He => eBI_pos mk NN KK D K_eq N_pos o e Ho He)
                (OPd sD (sg o)) (OPd_ext sD (sg o)) (lpI_kind KK D o)
                (fun b e => HocpC_line mk NN KK D K_eq N_pos K_pos D_first10 D_nul o ls Ho Hpos ltac:(lia) b e)
                f c ls Hls Hc) as [E1 E2].
    unfold MOI at 1 2. rewrite E1. split.
    - rewrite (removelast_map (rB (sg o) (eB o) (lpm o))), <- map_app. reflexivity.
    - unfold QS2Reloc.ceL0, QS2Reloc.ceL in *. apply Forall_app. split.
      + rewrite Forall_forall in *. intros x Hx. apply Hce0. apply removelast_In'. exact Hx.
      + revert E2. apply Forall_impl. intros x. apply QS2Reloc.ceB_weak.
  Qed.

  (* the final list block: list and item closed at the end of item D, with the looseness lo computed by onCloseList *)
  Definition finalOf (lo : bool) (bl it : block) (kids : list block) : block := closedList lo bl (len Q) (closedItem lo it (len Q) kids).

  Lemma step_eofI o ls st stQ ks done ch : 0 <= o -> 0 <= ls -> o + ls = len D -> (st = stDescendTerminated -> HMk ks) ->
    CorrI o (from_ D o) ls ks done ch -> (ks = [] \/ 0 < ls) -> la (upto (from_ D o) ls) ls (docRoot ks) ->
    let r := processLine st ks ls (upto (from_ D o) ls) in
    snd r = 0 /\
    exists bl it, processLine stQ ch (len Q) (upto Q (lineEnd Q (len Q))) =
                    ([finalOf (looseI bl ((mkr :: done) ++ map (MO o) ks)) bl it ((mkr :: done) ++ map (MO o) (fst (fst r)))], stDescending, 0) /\
      auxOf bl = lSk /\ auxOf it = iSk /\ Forall closedB done /\
      QS2Reloc.ceL0 (upto (from_ D o) ls) Q (sg o) (fst (fst r)) /\
      fst (fst r) = eofClose (bheight (root0 ks) - 1) (upto (from_ D o) ls) ks ls /\
      bkids bl = [it] /\ bkids it = (mkr :: done) ++ map (MO o) ks.
  Proof.
    intros Ho Hls Hend Hst HC Hk0 Hla. cbv zeta.
    destruct HC as [(Ech & E0 & _)|(bl & it & Ech & Kl & Ol & Al & El & Ki & Oi & Ai & Ha0 & Hcl & Ekids & Hce)].
    { exfalso. pose proof D_ne. assert (len D = 0) by lia. destruct D; [contradiction|rewrite len_cons in *; pose proof (len_nonneg b); lia]. }
    subst ch.
    assert (Lb : len (from_ D o) = ls) by (rewrite len_from by lia; lia).
    assert (EsD : upto (from_ D o) ls = from_ D o) by (rewrite <- Lb; apply QS2Drv5.upto_all).
    assert (EQe : upto Q (epsK (o + ls)) = Q) by (rewrite Hend, <- lenQ_eq; apply QS2Drv5.upto_all).
    pose proof (fun f => eofClose_MI f o ks ls Ho Hls Hend Hk0 Hla Hce) as HeofM. rewrite EQe in HeofM.
    rewrite EsD in *.
    assert (Hl : from_ (from_ D o) ls = []) by (rewrite <- Lb; apply QS2Drv5.from_all).
    rewrite (processLine_eof st ks ls (from_ D o) Hl). cbn [fst snd]. split; [reflexivity|].
    assert (Hs4 : eofSt st ks <> stDescendTerminated).
    { unfold eofSt, descState. destruct (lastBlock (root0 ks)) as [c|] eqn:Elb.
      - destruct (isOpen c && hasMatch (bkind c)) eqn:Ec; [discriminate|]. intros E4. specialize (Hst E4). unfold HMk in Hst. unfold lastBlock in Elb. cbn [root0 bkids] in Elb.
        destruct (rev ks) as [|x r]; [discriminate|]. inversion Elb; subst x. destruct Hst as [A B]. rewrite A, B in Ec. discriminate.
      - intros E4. specialize (Hst E4). unfold HMk in Hst. unfold lastBlock in Elb. cbn [root0 bkids] in Elb. destruct (rev ks); [exact Hst|discriminate]. }
    rewrite (eofK_close st ks ls (from_ D o) Hs4).
    rewrite Hend, <- lenQ_eq, QS2Drv5.upto_all in Hce.
    rewrite QS2Drv5.lineEnd_len, QS2Drv5.upto_all.
    rewrite (processLine_item_eof (mkr :: done, iSk) stQ bl it (map (MO o) ks) (len Q) Q (QS2Drv5.from_all Q) Kl Ol El Ki Oi Ekids ltac:(constructor; [apply closedB_mkr|exact Hcl])). cbn [fst].
    assert (Eh : bheight (root0 (map (MO o) ks)) = bheight (root0 ks)).
    { apply bheight_kids_eq. cbn [root0 bkids]. rewrite map_map. apply map_ext. intros x. apply bheight_rB. }
    rewrite Eh.
    assert (EeB : eB o ls = len Q) by (unfold eBI; destruct (Z.ltb_spec ls 0); [lia|]; rewrite Hend; symmetry; apply lenQ_eq).
    destruct (HeofM (bheight (root0 ks) - 1)%nat) as [C1 C2]. rewrite EeB in C1. rewrite C1.
    exists bl, it. split; [reflexivity|]. repeat split; assumption.
  Qed.

  (* ---- cutting a root block off ---- *)
  Definition Gt : bytes -> Prop := fun _ => True.
  Definition DSt (s : bpst) (o : Z) : Prop :=
    buf s = from_ D o /\ 0 <= o <= len D /\ boff s = o /\ Total.DI s /\ LBA (o + bi s) /\
    la (upto (buf s) (bi s)) (bi s) (docRoot (pending s)) /\ invDL (pending s) = true.

  (* what is known about a root block of the plain run when it is cut off *)
  Definition GoodR (r : rootB) : Prop :=
    0 <= rb_start r /\ exists sD sQ M, len sD <= len D - rb_start r /\ M <= len sD /\ QS2Reloc.ceB0 sD sQ (sg (rb_start r)) (rb_blk r) /\
                                      la sD M (rb_blk r) /\ invD (rb_blk r) = true /\ cc (rb_blk r) = true.

  Lemma cut_facts s o ks ns r s' sQ : buf s = from_ D o -> 0 <= o <= len D -> boff s = o -> SI s ks ns -> ccF ks = true -> GoodL 0 ks -> PIc (bi s) ks ->
    LBA (o + bi s) -> la (upto (buf s) (bi s)) (bi s) (docRoot ks) -> QS2Reloc.ceL0 (upto (buf s) (bi s)) sQ (sg o) ks -> invDL ks = true -> makeRoot ks s = Some (r, s') ->
    exists b rest n, ks = b :: rest /\ isOpen b = false /\ n = bend b /\ rb_start r = o /\ rb_blk r = b /\
      DSt s' (o + n) /\ bi s' = bi s - n /\ 0 <= n <= bi s /\ pending s' = map (shiftB (- n)) rest /\
      map (MO o) rest = map (MO (o + n)) (pending s') /\
      QS2Reloc.ceL0 (upto (buf s') (bi s')) sQ (sg (o + n)) (pending s') /\ buf s' = from_ (buf s) n /\ GoodR r /\
      rb_end r = o + n.
  Proof.
    intros Eb Ho Eo HS Hcc HG HP HL Hla Hce Hinv Hm.
    pose proof (DI_makeRoot s ks ns r s' HS Hcc HG HP Hm) as [HDI _].
    pose proof HS as (Hbi & Hbnd & _).
    assert (Hlbd : lbd (buf s) (bi s)).
    { rewrite Eb in *. destruct (QS2Drv5.lbd_of_LBA D o (bi s) ltac:(lia) Hbi ltac:(lia) HL) as [E|E]; [left; exact E|exact E]. }
    assert (Hnn : noNul (buf s)) by (rewrite Eb; apply (QS2Drv5.noNul_from D D_nul)).
    destruct (SL_makeRoot Gt (fun _ _ _ => I) (fun _ _ _ => I) s ks r s' Hbi I Hcc Hla (QS2Drv5.bnd0_noNul _ _ Hnn Hbi) (QS2Drv5.PadF_noNul _ Hnn) Hlbd Hm) as [_ HSL].
    destruct HSL as (_ & _ & _ & Hla' & _).
    unfold makeRoot in Hm. destruct ks as [|b rest]; [discriminate|]. destruct (isOpen b) eqn:Eop; [discriminate|]. inversion Hm; subst r s'. clear Hm.
    cbn [rb_start rb_blk buf bi boff pending] in *.
    assert (Hn0 : 0 <= bend b) by (unfold isOpen in Eop; apply Z.ltb_ge in Eop; exact Eop).
    assert (Hnb : bend b <= bi s).
    { unfold bndL in Hbnd. cbn [forallb] in Hbnd. apply andb_true_iff in Hbnd. destruct Hbnd as [Hb1 _]. destruct (bnd_end _ _ _ Hb1); lia. }
    set (n := bend b) in *.
    assert (Hlenb : len (buf s) = len D - o) by (rewrite Eb; apply len_from; lia).
    exists b, rest, n. split; [reflexivity|]. split; [exact Eop|]. split; [reflexivity|]. split; [exact Eo|]. split; [reflexivity|].
    apply docRoot_parts in Hla. destruct Hla as (_ & Hch & Hal). cbn [tchain allQ] in Hch, Hal. destruct Hch as (_ & _ & Hch). destruct Hal as [Hlab Halr].
    destruct (Z.ltb_spec (bend b) 0); [lia|]. destruct Hch as [_ Hch].
    unfold invDL in Hinv. cbn [forallb] in Hinv. apply andb_true_iff in Hinv. destruct Hinv as [Hinvb Hinvr].
    assert (Hccb : cc b = true /\ forall x, In x rest -> cc x = true).
    { unfold ccF, ccL in Hcc. cbn [forallb] in Hcc. apply andb_true_iff in Hcc. destruct Hcc as [_ Hcc]. apply andb_true_iff in Hcc. destruct Hcc as [Hcb Hcc]. rewrite forallb_forall in Hcc. split; [exact Hcb|exact Hcc]. }
    destruct Hccb as [Hccb Hccr].
    assert (Hge : Forall (geB2 n) rest).
    { apply Forall_forall. intros x Hx.
      apply (la_geB2 (upto (buf s) (bi s)) sQ (sg o) (upto (buf s) (bi s)) (bi s) x (Hccr x Hx)).
      - apply allQ_Forall in Halr. rewrite Forall_forall in Halr. apply Halr, Hx.
      - unfold QS2Reloc.ceL0 in Hce. rewrite Forall_forall in Hce. apply Hce. right. exact Hx.
      - rewrite forallb_forall in Hinvr. apply Hinvr, Hx.
      - split; [exact Hn0|apply (tchain_starts _ _ _ _ _ x Hch Hx)]. }
    split.
    { unfold DSt. cbn [buf bi boff pending]. split; [rewrite Eb; apply from_from; lia|]. split; [lia|]. split.
      - rewrite Eo. rewrite unpadded_noNul by (apply QS2Drv5.noNul_upto, Hnn). rewrite len_upto' by lia. reflexivity.
      - split; [exact HDI|]. split; [replace (o + n + (bi s - n)) with (o + bi s) by lia; exact HL|]. split; [exact Hla'|].
        unfold invDL; rewrite forallb_forall in *; intros y Hy; apply in_map_iff in Hy; destruct Hy as (x & <- & Hx); apply invD_shift; [exact Hn0|apply Hinvr, Hx]. }
    split; [reflexivity|]. split; [lia|]. split; [reflexivity|]. split.
    - rewrite map_map. apply map_ext_in. intros x Hx. rewrite Forall_forall in Hge. symmetry. apply (MOI_cut KK D); [lia|lia|apply Hge, Hx].
    - split; [|split; [reflexivity|split; [unfold GoodR; cbn [rb_start rb_blk]; rewrite Eo; split; [lia|]; exists (upto (buf s) (bi s)), sQ, (bi s); split; [rewrite len_upto' by lia; lia|split; [rewrite len_upto' by lia; lia|split; [unfold QS2Reloc.ceL0 in Hce; inversion Hce; assumption|split; [exact Hlab|split; [exact Hinvb|exact Hccb]]]]]|]]].
      2:{ cbn [rb_end rb_blk]. rewrite Eo, unpadded_noNul by (apply QS2Drv5.noNul_upto, Hnn); rewrite len_upto' by lia; reflexivity. }
      unfold QS2Reloc.ceL0 in *. apply Forall_forall. intros y Hy. apply in_map_iff in Hy. destruct Hy as (x & <- & Hx).
      rewrite <- (from_upto (buf s) (bi s) n) by lia. apply (ceB0I_cut KK D); [rewrite len_upto' by lia; lia|rewrite Forall_forall in Hge; apply Hge, Hx|].
      rewrite Forall_forall in Hce. apply Hce. right. exact Hx.
  Qed.

  (* ---- the line loop ---- *)
  Lemma bloose_lSk bl : auxOf bl = lSk -> bloose bl = false.
  Proof. destruct bl. unfold auxOf, lSk, listSk, listBlk. cbn. intros E. inversion E. reflexivity. Qed.
  Lemma heights_under bl it kids : bkids bl = [it] -> bkids it = kids -> forall x, In x kids -> (bheight x + 2 <= bheight bl)%nat.
  Proof.
    intros E1 E2 x Hx. assert (A : (bheight it < bheight bl)%nat) by (apply bheight_kid; rewrite E1; left; reflexivity).
    assert (B : (bheight x < bheight it)%nat) by (apply bheight_kid; rewrite E2; exact Hx). lia.
  Qed.
  (* how the looseness lo of the final list was computed: from the children of the item just before the end-of-input close *)
  Definition LooseOK (bl : block) (lo : bool) (kidsAll : list block) : Prop :=
    exists oE P ksE fE srcE eE, lo = looseI bl (P ++ map (MO oE) ksE) /\ kidsAll = P ++ map (MO oE) (eofClose fE srcE ksE eE) /\
      (forall x, In x (P ++ map (MO oE) ksE) -> (bheight x + 2 <= bheight bl)%nat) /\ bloose bl = false.
  Definition FinK (o' : Z) (s' : bpst) (done : list block) (bF : block) : Prop :=
    bi s' = len (buf s') /\
    (exists bl it lo, bF = finalOf lo bl it ((mkr :: done) ++ map (MO o') (pending s')) /\ auxOf bl = lSk /\ auxOf it = iSk /\ Forall closedB done /\
                      LooseOK bl lo ((mkr :: done) ++ map (MO o') (pending s'))) /\
    QS2Reloc.ceL0 (upto (buf s') (bi s')) Q (sg o') (pending s') /\ Forall closedB (pending s').
  Definition OutB (o lsq stQ : Z) (ch : list block) (done : list block) (r : rootB) (s' : bpst) : Prop :=
    rb_start r = o /\ GoodR r /\ exists o', DSt s' o' /\ rb_end r = o' /\
      ((exists k stQ' ch', QStep lsq stQ ch k (epsK (o' + bi s')) stQ' ch' /\ CorrI o' (buf s') (bi s') (pending s') (done ++ [MO o (rb_blk r)]) ch' /\ ch' <> [])
       \/ (exists k bF, QDone lsq stQ ch k bF /\ FinK o' s' (done ++ [MO o (rb_blk r)]) bF)).

  Lemma closedB_MO o b : isOpen b = false -> 0 <= o -> closedB (MO o b).
  Proof. intros H Ho. unfold closedB, MOI. rewrite (isOpen_rB (sg o) (eB o) (lpm o) (eBI_neg KK D o) (fun e He => eBI_pos mk NN KK D K_eq N_pos o e Ho He)). exact H. Qed.
  Lemma isOpen_finalOf lo bl it kids : isOpen (finalOf lo bl it kids) = false.
  Proof.
    unfold finalOf, closedList, isOpen. pose proof (len_nonneg Q) as HQ.
    destruct (if lo then set_bloose bl true else bl); cbn [set_bend set_bkids bend]. apply Z.ltb_ge. exact HQ.
  Qed.
  Lemma bend_finalOf lo bl it kids : bend (finalOf lo bl it kids) = len Q.
  Proof. unfold finalOf, closedList. destruct (if lo then set_bloose bl true else bl); reflexivity. Qed.

  Lemma lineLoop_sim : forall fuel st ks ls s ns o stQ ch done,
    0 <= ls <= len (buf s) -> bi s = lineEnd (buf s) ls -> bndL ls ns ks = true -> (ns = false -> ls = len (buf s)) ->
    ccF ks = true -> GoodL 0 ks -> (ks = [] \/ (0 < ls /\ exists c, ks = [c])) ->
    (st = stDescendTerminated -> HM ks) ->
    (ks = [] -> isBlankLine (from_ (upto (buf s) (bi s)) ls) = false /\ (st = stOpening \/ st = stOpenMatched)) ->
    len (buf s) - ls + 1 <= Z.of_nat fuel ->
    la (upto (buf s) (bi s)) ls (docRoot ks) ->
    buf s = from_ D o -> 0 <= o <= len D -> boff s = o -> LBA (o + ls) ->
    CorrI o (buf s) ls ks done ch -> (ch = [] -> stQ <> stDescendTerminated) -> invDL ks = true ->
    match lineLoop fuel st ks ls s with
    | NBBlock r s' => OutB o (epsK (o + ls)) stQ ch done r s'
    | _ => False
    end.
  Proof.
    induction fuel as [|f IH]; intros st ks ls s ns o stQ ch done Hls Hbi Hc Hn Hcc HG HK Hst Hemp Hfuel Hla Eb Ho Eo HL HC HchQ Hinv.
    { exfalso. cbn in Hfuel. lia. }
    cbn [lineLoop].
    destruct (lineEnd_spec (buf s) ls Hls) as [A B]. rewrite <- Hbi in A, B.
    set (ln := from_ (upto (buf s) (bi s)) ls).
    destruct (line_of (buf s) ls (bi s) ltac:(lia) ltac:(lia)) as [Ll _]. fold ln in Ll.
    set (ns' := if ns then hasByteSuffixEOL ln else false).
    assert (Hc' : bndL (bi s) ns' ks = true).
    { unfold ns'. destruct ns.
      - pose proof (bndL_mono ls (bi s) ks ltac:(lia) Hc) as Hm. destruct (hasByteSuffixEOL ln); [exact Hm|apply bndL_weaken, Hm].
      - rewrite (Hn eq_refl) in *. replace (bi s) with (len (buf s)) by lia. exact Hc. }
    assert (Hn' : ns' = false -> bi s = len (buf s)).
    { unfold ns'. destruct ns; [|intros _; rewrite (Hn eq_refl) in *; lia].
      intros Ee. destruct (Z.lt_ge_cases (bi s) (len (buf s))) as [Lt|Ge]; [|lia].
      exfalso. rewrite Hbi in Lt. pose proof (line_hasEOL (buf s) ls Hls Lt) as Hh. rewrite <- Hbi in Hh. fold ln in Hh. congruence. }
    set (src := upto (buf s) (bi s)) in *.
    assert (Hlen : len src = bi s) by (apply len_upto; lia).
    assert (Hnn : noNul (buf s)) by (rewrite Eb; apply (QS2Drv5.noNul_from D D_nul)).
    pose proof (bnd_processLine (bi s) ns' st ks ls src ltac:(lia) ltac:(lia) ltac:(fold ln; lia)
                  ltac:(lia) ltac:(unfold ns'; fold ln; destruct ns; [tauto|discriminate]) Hc') as H1.
    pose proof (cc_processLine st ks ls src Hcc) as H2.
    pose proof (processLine_panic_range st ks ls src) as H3.
    pose proof (processLine_no_panic st ks ls src ltac:(lia) Hcc) as H3'.
    pose proof (processLine_good st ks ls src ltac:(lia) HG (UB_of_bnd ls ns ks ltac:(lia) Hc) Hcc HK Hst Hemp) as H4. cbv zeta in H4.
    pose proof (la_processLine st ks ls src ltac:(lia) (OcpLoopSpec_all src)
                  ltac:(unfold src; apply bnd0_upto; [lia|lia|apply QS2Drv5.bnd0_noNul; [exact Hnn|lia]|intros El; lia])
                  ltac:(unfold src; rewrite Hbi; apply eolEnd_line, Hls) Hcc Hla
                  ltac:(intros E4; destruct (Hst E4) as (pre & c & -> & Hoc & Hhc); exists c; split; [unfold docRoot; cbn [getAt]; unfold lastBlock; cbn [bkids]; rewrite rev_app_distr; reflexivity|split; [unfold isOpen in Hoc; apply Z.ltb_lt, Hoc|exact Hhc]])) as HP.
    cbv zeta in HP. assert (Hll : ls + len (from_ src ls) = bi s) by (fold ln; lia). rewrite Hll in HP.
    assert (Hst' : st = stDescendTerminated -> HMk ks) by (intros E4; apply HM_HMk, Hst, E4).
    pose proof (D_line src (bi s) ns' st ks ls ltac:(lia) ltac:(lia) Hll ltac:(lia)
                  ltac:(unfold ns'; fold ln; destruct ns; [tauto|discriminate]) Hc' Hla Hinv) as H6.
    destruct (Z.eq_dec ls (len (buf s))) as [Eeof|Neof].
    - (* the end of input *)
      assert (Ebi : bi s = ls) by lia.
      assert (Eend : o + ls = len D) by (rewrite Eeof, Eb, len_from by lia; lia).
      unfold src in *. rewrite Ebi in *. rewrite Eb in HC.
      assert (Hk0 : ks = [] \/ 0 < ls) by (destruct HK as [HK|[HK _]]; [left; exact HK|right; exact HK]).
      rewrite Eb in Hla.
      destruct (step_eofI o ls st stQ ks done ch ltac:(lia) ltac:(lia) Eend Hst' HC Hk0 Hla) as (Pn & bl & it & PQ & F3 & F3' & F5 & F7 & F8 & F9 & F10). cbv zeta in *.
      rewrite <- Eb in *.
      destruct (processLine st ks ls (upto (buf s) ls)) as [[ks' st'] pn]. cbn [fst snd] in *. subst pn. change (negb (0 =? 0)) with false. cbv iota.
      destruct H4 as ((G1 & G1') & G2 & G3 & G4). destruct HP as [HP1 HP2].
      assert (HS : SI s ks' ns') by (unfold SI; rewrite Ebi; repeat split; try lia; assumption).
      assert (Hlc : lastClosed ks').
      { apply G3. fold (upto (buf s) ls). apply len0_nil. rewrite len_from by (rewrite len_upto by lia; lia). rewrite len_upto by lia. lia. }
      assert (HPI : PIc (bi s) ks').
      { intros pre c E Hoc. exfalso. destruct Hlc as (pre2 & c2 & E2 & Hc2). rewrite E in E2. apply app_inj_tail in E2. destruct E2 as [_ <-]. congruence. }
      set (lo := looseI bl ((mkr :: done) ++ map (MO o) ks)) in *.
      set (bF := finalOf lo bl it ((mkr :: done) ++ map (MO o) ks')) in *.
      destruct (makeRoot ks' s) as [[r s']|] eqn:Em.
      + rewrite <- Ebi in HP1 at 2. rewrite <- Ebi in HP1 at 1.
        destruct (cut_facts s o ks' ns' r s' Q Eb Ho Eo HS H2 G1 HPI ltac:(rewrite Ebi; exact HL) ltac:(rewrite Ebi in *; exact HP1) ltac:(rewrite Ebi; rewrite Eb; rewrite <- Eb; exact F7) H6 Em)
          as (b & rest & n & Ek & Eop & En & R1 & R2 & R3 & R4 & R5 & R6 & R7 & R8 & R9 & RG & RE).
        split; [exact R1|]. split; [exact RG|]. exists (o + n). split; [exact R3|]. split; [exact RE|]. right.
        assert (ElQ : epsK (o + ls) = len Q) by (rewrite Eend; symmetry; apply lenQ_eq).
        exists O, bF. split.
        * split; [|rewrite ElQ; lia]. intros f0. rewrite ElQ. cbn [Nat.add]. apply (QLc_fin f0 stQ ch (len Q) bF stDescending PQ). apply isOpen_finalOf.
        * unfold FinK.
          split; [rewrite R4, R9, len_from by lia; lia|]. split; [|split; [exact R8|]].
          -- assert (Ekk : (mkr :: done) ++ map (MO o) ks' = (mkr :: done ++ [MO o (rb_blk r)]) ++ map (MO (o + n)) (pending s')).
             { rewrite R2, Ek. cbn [map]. rewrite R7. cbn [app]. rewrite <- app_assoc. reflexivity. }
             exists bl, it, lo. rewrite <- Ekk. split; [reflexivity|]. split; [exact F3|]. split; [exact F3'|]. split.
             ++ apply Forall_app. split; [exact F5|constructor; [rewrite R2; apply closedB_MO; [exact Eop|lia]|constructor]].
             ++ exists o, (mkr :: done), ks, (bheight (root0 ks) - 1)%nat, (upto (buf s) ls), ls. split; [reflexivity|].
                split; [f_equal; f_equal; exact F8|]. split; [apply (heights_under bl it _ F9 F10)|apply bloose_lSk, F3].
          -- rewrite R6. apply (QS2Drv5.closed_rest b rest n ks' G1 Hlc Ek Eop En).
      + exfalso. unfold makeRoot in Em. destruct ks' as [|c rest]; [congruence|]. destruct (isOpen c) eqn:Eoc; [|discriminate].
        pose proof (GoodL_first_open c rest G1 Eoc) as Er. subst rest. exact (lastClosed_single_open c Hlc Eoc).
    - (* a line of the document *)
      assert (Lt : ls < bi s) by (rewrite Hbi; apply lineEnd_progress; lia).
      assert (Hlt : o + ls < len D) by (rewrite Eb, len_from in Hls by lia; rewrite Eb, len_from in Neof by lia; lia).
      assert (Hbd : o + ls = 0 \/ at_ D (o + ls - 1) = 10) by (destruct HL as [E0|[[_ E1]|E2]]; [left; exact E0|right; exact E1|lia]).
      rewrite Eb in HC.
      assert (HstQ : stQ <> stDescendTerminated \/ ch <> []) by (destruct ch; [left; apply HchQ; reflexivity|right; discriminate]).
      destruct (step_lineI o ls st stQ ks done ch ltac:(lia) ltac:(lia) Hlt Hbd Hcc Hst' HstQ HC ltac:(rewrite <- Eb, <- Hbi; exact Hla)
                  ltac:(rewrite <- Eb, <- Hbi; exact (proj1 (proj2 H4)))) as (bl' & PQ & K2 & C2 & Q1 & Q2 & Q3 & Q4 & Q5). cbv zeta in *.
      rewrite <- Eb in *. rewrite <- Hbi in *. fold src in PQ, C2.
      assert (Hlne : from_ src ls <> []) by (intros E0; rewrite E0 in Hll; change (len (@nil Z)) with 0 in Hll; lia).
      destruct (processLine st ks ls src) as [[ks' st'] pn]. cbn [fst snd] in *.
      assert (Epn : pn = 0).
      { destruct (Z.eq_dec pn 0) as [E0|N0]; [exact E0|]. exfalso. apply (H3' pn); [lia|reflexivity]. }
      subst pn. change (negb (0 =? 0)) with false. cbv iota.
      destruct H4 as ((G1 & G1') & G2 & G3 & G4). destruct HP as [HP1 HP2].
      assert (HS : SI s ks' ns') by (repeat split; try lia; assumption).
      assert (HPI : PIc (bi s) ks').
      { intros pre c E Hoc. split; [lia|]. specialize (G1' pre c E). revert G1'. apply Forall_impl. intros x Hx. lia. }
      assert (QS1 : QStep (epsK (o + ls)) stQ ch 1 (epsK (o + bi s)) st' [bl']).
      { split; [|lia]. intros f0. change (1 + f0)%nat with (S f0). rewrite (QLc_step f0 stQ ch (epsK (o + ls)) bl' st' PQ K2), Q1. reflexivity. }
      destruct C2 as [(Ech & _)|(bl2 & it & Ech & Kl & Ol & Al & El & Ki & Oi & Ai & Ha0 & Hcl & Ekids & Hce)]; [discriminate Ech|]. inversion Ech; subst bl2. clear Ech.
      destruct (makeRoot ks' s) as [[r s']|] eqn:Em.
      + destruct (cut_facts s o ks' ns' r s' (upto Q (epsK (o + bi s))) Eb Ho Eo HS H2 G1 HPI Q4 HP1 Hce H6 Em)
          as (b & rest & n & Ek & Eop & En & R1 & R2 & R3 & R4 & R5 & R6 & R7 & R8 & R9 & RG & RE).
        split; [exact R1|]. split; [exact RG|]. exists (o + n). split; [exact R3|]. split; [exact RE|]. left.
        assert (Eo' : o + n + bi s' = o + bi s) by lia.
        exists 1%nat, st', [bl']. rewrite Eo'. split; [exact QS1|]. split; [|discriminate].
        right. exists bl', it. rewrite Eo'. split; [reflexivity|]. split; [exact Kl|]. split; [exact Ol|]. split; [exact Al|]. split; [exact El|].
        split; [exact Ki|]. split; [exact Oi|]. split; [exact Ai|]. split; [lia|]. split.
        * apply Forall_app. split; [exact Hcl|constructor; [rewrite R2; apply closedB_MO; [exact Eop|lia]|constructor]].
        * split; [|exact R8]. rewrite Ekids, R2, Ek. cbn [map]. rewrite R7, R6. cbn [app]. rewrite <- app_assoc. reflexivity.
      + (* no root yet: one open child, go on *)
        unfold makeRoot in Em. destruct ks' as [|c rest]; [congruence|]. destruct (isOpen c) eqn:Eoc; [|discriminate].
        pose proof (GoodL_first_open c rest G1 Eoc) as Er. subst rest.
        assert (Hls' : 0 <= bi s <= len (buf s)) by lia. destruct (lineEnd_spec (buf s) (bi s) Hls') as [A' _].
        assert (Hlbi : lbd (buf s) (bi s)).
        { destruct (Z.eq_dec (bi s) (len (buf s))) as [E|N]; [right; left; exact E|]. destruct (B ltac:(lia)) as [B1 B2]. right; right. exact B2. }
        specialize (IH st' [c] (bi s) {| buf := buf s; bi := lineEnd (buf s) (bi s); boff := boff s; bline := bline s; pending := pending s |} ns' o st' [bl'] done).
        cbn [buf bi boff] in IH.
        specialize (IH Hls' eq_refl H1 Hn' H2 G1 ltac:(right; split; [lia|exists c; reflexivity])
                      ltac:(intros E; destruct (G4 E) as [Hl|Hh]; [exfalso; exact (lastClosed_single_open c Hl Eoc)|exact Hh])
                      ltac:(discriminate) ltac:(lia)).
        assert (Hla2 : la (upto (buf s) (lineEnd (buf s) (bi s))) (bi s) (docRoot [c])).
        { apply (la_agree src); [apply agree_upto; lia| | |exact HP1]; [intros e0 He0 Hbe0; unfold src in Hbe0; apply (bnd0_grow (buf s) (bi s)); try lia; [apply QS2Drv5.bnd0_noNul; [exact Hnn|lia]|assumption]|].
          apply growOK_upto; [lia|lia|exact Hlbi|]. intros El0. lia. }
        assert (C2' : CorrI o (buf s) (bi s) [c] done [bl']).
        { right. exists bl', it. repeat split; assumption. }
        specialize (IH Hla2 Eb Ho Eo Q4 C2' ltac:(discriminate) H6).
        destruct (lineLoop f st' [c] (bi s) _) as [r s'| | |]; try exact IH.
        destruct IH as (R1 & RG & o' & R3 & RE & [(k & stQ' & chn & S1 & S2)|(k & bF & S1 & S2)]).
        * split; [exact R1|]. split; [exact RG|]. exists o'. split; [exact R3|]. split; [exact RE|]. left. exists (1 + k)%nat, stQ', chn. split; [apply (QStep_trans _ _ _ _ _ _ _ _ _ _ _ QS1 S1)|exact S2].
        * split; [exact R1|]. split; [exact RG|]. exists o'. split; [exact R3|]. split; [exact RE|]. right. exists (1 + k)%nat, bF. split; [apply (QStep_Done _ _ _ _ _ _ _ _ _ QS1 S1)|exact S2].
  Qed.

  (* ---- skipping blank lines (there are none); the next block ---- *)
  Definition OutR (lsq stQ : Z) (ch : list block) (done : list block) (r : rootB) (s' : bpst) : Prop :=
    GoodR r /\ exists o', DSt s' o' /\ rb_end r = o' /\
      ((exists k stQ' ch', QStep lsq stQ ch k (epsK (o' + bi s')) stQ' ch' /\ CorrI o' (buf s') (bi s') (pending s') (done ++ [MO (rb_start r) (rb_blk r)]) ch' /\ ch' <> [])
       \/ (exists k bF, QDone lsq stQ ch k bF /\ FinK o' s' (done ++ [MO (rb_start r) (rb_blk r)]) bF)).
  Lemma OutB_R o lsq stQ ch done r s' : OutB o lsq stQ ch done r s' -> OutR lsq stQ ch done r s'.
  Proof. intros (E & G & o' & A & A1 & B). split; [exact G|]. exists o'. rewrite E. split; [exact A|]. split; [exact A1|exact B]. Qed.
  (* the nested run ends with nothing pending in the plain run: the final list block *)
  Definition FinQ (lsq stQ : Z) (ch : list block) (done : list block) : Prop :=
    exists k bF bl it lo, QDone lsq stQ ch k bF /\ bF = finalOf lo bl it (mkr :: done) /\ auxOf bl = lSk /\ auxOf it = iSk /\ LooseOK bl lo (mkr :: done).

  Lemma eof_nokids o stQ done ch : 0 <= o -> o = len D -> CorrI o (from_ D o) 0 [] done ch -> FinQ (epsK o) stQ ch done.
  Proof.
    intros Ho Eo HC. destruct (step_eofI o 0 stDescending stQ [] done ch Ho ltac:(lia) ltac:(lia) ltac:(discriminate) HC (or_introl eq_refl)
                ltac:(apply docRoot_parts; split; [lia|]; split; [cbn [tchain]; split; [lia|apply NT_empty; lia]|exact I])) as (_ & bl & it & PQ & F3 & F3' & F5 & _ & F8 & F9 & F10).
    cbv zeta in PQ, F8.
    assert (Er : fst (fst (processLine stDescending [] 0 (upto (from_ D o) 0))) = []).
    { rewrite (processLine_eof stDescending [] 0 (upto (from_ D o) 0)) by reflexivity. cbn [fst]. rewrite eofK_close by (cbn; discriminate). reflexivity. }
    rewrite Er in PQ. cbn [map] in PQ. rewrite app_nil_r in PQ.
    assert (ElQ : epsK o = len Q) by (rewrite Eo; symmetry; apply lenQ_eq).
    exists O, (finalOf (looseI bl (mkr :: done)) bl it (mkr :: done)), bl, it, (looseI bl (mkr :: done)). split; [|split; [reflexivity|split; [exact F3|split; [exact F3'|]]]].
    - split; [|rewrite ElQ; lia]. intros f0. rewrite ElQ. cbn [Nat.add]. apply (QLc_fin f0 stQ ch (len Q) _ stDescending PQ). apply isOpen_finalOf.
    - exists o, (mkr :: done), [], O, [], 0. split; [cbn [map]; rewrite app_nil_r; reflexivity|]. split; [unfold eofClose; cbn [rev map]; rewrite app_nil_r; reflexivity|].
      split; [apply (heights_under bl it _ F9 F10)|apply bloose_lSk, F3].
  Qed.

  Lemma CorrI_nil o o' b0 bi0 b1 bi1 done ch : o + bi0 = o' + bi1 -> ch <> [] -> CorrI o b0 bi0 [] done ch -> CorrI o' b1 bi1 [] done ch.
  Proof.
    intros E Hne [(Ech & _)|(bl & it & Ech & Kl & Ol & Al & El & Ki & Oi & Ai & Ha0 & Hcl & Ekids & _)]; [contradiction|].
    right. exists bl, it. split; [exact Ech|]. split; [exact Kl|]. split; [exact Ol|]. split; [exact Al|]. split; [exact El|]. split; [exact Ki|]. split; [exact Oi|]. split; [exact Ai|].
    split; [lia|]. split; [exact Hcl|]. split; [exact Ekids|constructor].
  Qed.

  Lemma skipLoop_sim : forall fuel s o stQ ch done, bi s = 0 -> pending s = [] -> len (buf s) + 2 <= Z.of_nat fuel ->
    buf s = from_ D o -> 0 <= o <= len D -> boff s = o -> LBA o -> CorrI o (buf s) 0 [] done ch -> (ch = [] -> stQ <> stDescendTerminated) ->
    match skipLoop fuel s with
    | NBBlock r s' => o = rb_start r /\ OutR (epsK o) stQ ch done r s'
    | NBEof _ => FinQ (epsK o) stQ ch done
    | _ => False
    end.
  Proof.
    destruct fuel as [|f]; intros s o stQ ch done Hb Hp Hfuel Eb Ho Eo HL HC HchQ.
    { exfalso. pose proof (len_nonneg (buf s)). cbn in Hfuel. lia. }
    cbn [skipLoop]. cbv zeta. rewrite Hb.
    pose proof (len_nonneg (buf s)) as Hl0.
    destruct (lineEnd_spec (buf s) 0 ltac:(lia)) as [A _].
    assert (Hlenb : len (buf s) = len D - o) by (rewrite Eb; apply len_from; lia).
    destruct (Z.ltb_spec 0 (lineEnd (buf s) 0)) as [L|L]; cbn [negb].
    - assert (Hlt : o < len D) by lia.
      assert (Hbd : o = 0 \/ at_ D (o - 1) = 10) by (destruct HL as [E0|[[_ E1]|E2]]; [left; exact E0|right; exact E1|lia]).
      assert (Ebl : isBlankLine (upto (buf s) (lineEnd (buf s) 0)) = false).
      { rewrite Eb. replace o with (o + 0) in Hlt, Hbd by lia.
        destruct (line_geomI o 0 ltac:(lia) ltac:(lia) Hlt Hbd) as (pre & body & eol & post & L0 & G1 & _).
        pose proof (len_nonneg body) as Hlb. pose proof (len_nonneg eol) as Hle.
        rewrite G1. rewrite upto_from_comm by lia. pose proof (lineAt_line D _ _ _ _ _ L0) as X.
        replace (o + (0 + len body + len eol)) with (o + 0 + len body + len eol) by lia.
        assert (Ef : from_ (upto D (o + 0 + len body + len eol)) o = from_ (upto D (o + 0 + len body + len eol)) (o + 0)) by (f_equal; lia).
        rewrite Ef, X. apply (D_nb _ _ _ _ _ L0). }
      rewrite Ebl.
      pose proof (lineLoop_sim f 0 [] 0 {| buf := buf s; bi := lineEnd (buf s) 0; boff := boff s; bline := bline s; pending := pending s |} true o stQ ch done) as HLs.
      cbn [buf bi boff] in HLs. specialize (HLs ltac:(lia) eq_refl eq_refl ltac:(discriminate) eq_refl I (or_introl eq_refl) ltac:(discriminate)).
      specialize (HLs ltac:(intros _; split; [exact Ebl|left; reflexivity]) ltac:(lia)).
      specialize (HLs ltac:(apply docRoot_parts; split; [lia|]; split; [cbn [tchain]; split; [lia|apply NT_empty; lia]|exact I]) Eb Ho Eo ltac:(replace (o + 0) with o by lia; exact HL) HC HchQ eq_refl).
      replace (o + 0) with o in HLs by lia.
      destruct (lineLoop f 0 [] 0 _) as [r s'| | |]; try (exfalso; exact HLs).
      pose proof HLs as (Er & _). split; [lia|]. apply (OutB_R _ _ _ _ _ _ _ HLs).
    - (* the buffer is exhausted *)
      assert (Eo' : o = len D).
      { destruct (Z.lt_ge_cases 0 (len (buf s))) as [Lp|Lp]; [pose proof (lineEnd_progress (buf s) 0 ltac:(lia)); lia|lia]. }
      rewrite Eb in HC. apply (eof_nokids o stQ done ch ltac:(lia) Eo' HC).
  Qed.

  Lemma nextBlock_sim s o stQ ch done : DSt s o -> CorrI o (buf s) (bi s) (pending s) done ch -> (ch = [] -> stQ <> stDescendTerminated) ->
    match nextBlock (3 + length (buf s))%nat s with
    | NBBlock r s' => OutR (epsK (o + bi s)) stQ ch done r s'
    | NBEof _ => FinQ (epsK (o + bi s)) stQ ch done
    | _ => False
    end.
  Proof.
    intros (Eb & Ho & Eo & HDI & HL & Hla & Hinv) HC HchQ. pose proof HDI as ((ns & HS) & Hcc & HG & HP). unfold nextBlock.
    destruct (makeRoot (pending s) s) as [[r s']|] eqn:Em.
    - destruct HC as [(Ech & _ & Eks & _)|(bl & it & Ech & Kl & Ol & Al & El & Ki & Oi & Ai & Ha0 & Hcl & Ekids & Hce)].
      { exfalso. rewrite Eks in Em. discriminate Em. }
      destruct (cut_facts s o (pending s) ns r s' (upto Q (epsK (o + bi s))) Eb Ho Eo HS Hcc HG HP HL Hla Hce Hinv Em)
        as (b & rest & n & Ek & Eop & En & R1 & R2 & R3 & R4 & R5 & R6 & R7 & R8 & R9 & RG & RE).
      split; [exact RG|]. exists (o + n). split; [exact R3|]. split; [exact RE|]. left. assert (Eo' : o + n + bi s' = o + bi s) by lia.
      exists O, stQ, ch. rewrite Eo'. split; [apply QStep_refl|]. split; [|rewrite Ech; discriminate].
      right. exists bl, it. rewrite Eo'. split; [exact Ech|]. split; [exact Kl|]. split; [exact Ol|]. split; [exact Al|]. split; [exact El|].
      split; [exact Ki|]. split; [exact Oi|]. split; [exact Ai|]. split; [lia|]. split.
      + apply Forall_app. split; [exact Hcl|constructor; [rewrite R2; apply closedB_MO; [exact Eop|lia]|constructor]].
      + split; [|exact R8]. rewrite Ekids, R1, R2, Ek. cbn [map]. rewrite R7, R6. cbn [app]. rewrite <- app_assoc. reflexivity.
    - destruct HS as (Hb & Hc & Hn). pose proof (len_nonneg (buf s)) as Hl0.
      assert (Hnn : noNul (buf s)) by (rewrite Eb; apply (QS2Drv5.noNul_from D D_nul)).
      assert (Hlenb : len (buf s) = len D - o) by (rewrite Eb; apply len_from; lia).
      destruct (pending s) as [|b0 rest] eqn:Ep.
      + set (s1 := {| buf := from_ (buf s) (bi s); bi := 0; boff := boff s + unpadded (upto (buf s) (bi s)); bline := bline s + lineCount (upto (buf s) (bi s)); pending := [] |}).
        assert (Hlen : len (buf s1) = len (buf s) - bi s) by (cbn [buf s1]; apply len_from; lia).
        pose proof (skipLoop_sim (3 + length (buf s))%nat s1 (o + bi s) stQ ch done eq_refl eq_refl ltac:(rewrite Hlen; unfold len; lia)) as HSk.
        specialize (HSk ltac:(cbn [buf s1]; rewrite Eb; apply from_from; lia) ltac:(lia)
                       ltac:(cbn [boff s1]; rewrite Eo, unpadded_noNul by (apply QS2Drv5.noNul_upto, Hnn); rewrite len_upto' by lia; reflexivity) HL).
        assert (HC1 : CorrI (o + bi s) (buf s1) 0 [] done ch).
        { destruct HC as [(Ech & E0 & _ & Edn)|HC2].
          - left. repeat split; try assumption. lia.
          - destruct ch as [|c0 ch0]; [destruct HC2 as (bl & it & Ech & _); discriminate Ech|].
            apply (CorrI_nil o (o + bi s) (buf s) (bi s) (buf s1) 0 done (c0 :: ch0)); [lia|discriminate|right; exact HC2]. }
        specialize (HSk HC1 HchQ). replace (o + bi s + 0) with (o + bi s) in HSk by lia.
        destruct (skipLoop _ s1) as [r s'|s'| |]; try exact HSk. destruct HSk as [_ HSk]. exact HSk.
      + unfold makeRoot in Em. destruct (isOpen b0) eqn:Eob; [|discriminate].
        pose proof (GoodL_first_open b0 rest HG Eob) as Er. subst rest.
        destruct (HP [] b0 eq_refl Eob) as [Hpos _].
        destruct (lineEnd_spec (buf s) (bi s) Hb) as [A' _].
        assert (Hlbi : lbd (buf s) (bi s)).
        { rewrite Eb in *. destruct (QS2Drv5.lbd_of_LBA D o (bi s) ltac:(lia) Hb ltac:(lia) HL) as [E|E]; [left; exact E|exact E]. }
        pose proof (lineLoop_sim (3 + length (buf s))%nat 0 [b0] (bi s) {| buf := buf s; bi := lineEnd (buf s) (bi s); boff := boff s; bline := bline s; pending := [b0] |} ns o stQ ch done) as HLs.
        cbn [buf bi boff] in HLs.
        specialize (HLs Hb eq_refl Hc Hn Hcc HG ltac:(right; split; [exact Hpos|exists b0; reflexivity]) ltac:(discriminate) ltac:(discriminate) ltac:(unfold len; lia)).
        specialize (HLs ltac:(apply (la_agree (upto (buf s) (bi s))); [apply agree_upto; lia| | |exact Hla];
                                [intros e0 He0 Hbe0; apply (bnd0_grow (buf s) (bi s)); try lia; [apply QS2Drv5.bnd0_noNul; [exact Hnn|lia]|assumption]|
                                 apply growOK_upto; [lia|lia|exact Hlbi|intros El0; lia]]) Eb Ho Eo HL HC HchQ Hinv).
        destruct (lineLoop _ 0 [b0] (bi s) _) as [r s'| | |]; try (exfalso; exact HLs).
        apply (OutB_R _ _ _ _ _ _ _ HLs).
  Qed.

  (* ---- the children of the final item: the marker and the images of the root blocks ---- *)
  Definition doneI (acc : list rootB) : list block := map (fun r => MO (rb_start r) (rb_blk r)) acc.
  Lemma doneI_snoc acc r : doneI (acc ++ [r]) = doneI acc ++ [MO (rb_start r) (rb_blk r)].
  Proof. unfold doneI. rewrite map_app. reflexivity. Qed.

  (* ---- after the list is closed: the remaining root blocks are already there ---- *)
  Lemma allBlocks_fin : forall fuel s acc o bF done, DSt s o -> FinK o s done bF -> (length (buf s) < fuel)%nat ->
    done = doneI acc -> Forall GoodR acc ->
    snd (allBlocks fuel s acc) = 0 /\ Forall GoodR (fst (allBlocks fuel s acc)) /\
    exists bl it lo, bF = finalOf lo bl it (mkr :: doneI (fst (allBlocks fuel s acc))) /\ auxOf bl = lSk /\ auxOf it = iSk /\
                     LooseOK bl lo (mkr :: doneI (fst (allBlocks fuel s acc))).
  Proof.
    induction fuel as [|f IH]; intros s acc o bF done HD HF Hf Hacc HGa; [lia|]. cbn [allBlocks].
    pose proof HD as (Eb & Ho & Eo & HDI & HL & Hla & Hinv). pose proof HDI as ((ns & HS) & Hcc & HG & HP).
    destruct HF as (F0 & (bl & it & lo & F1 & F2 & F3 & F5 & F6) & F7 & F8).
    pose proof (nextBlock_total s HDI) as HT. unfold nextBlock in *.
    destruct (makeRoot (pending s) s) as [[r s']|] eqn:Em.
    - cbn [okNB2] in HT. destruct HT as [HT1 HT2].
      destruct (cut_facts s o (pending s) ns r s' Q Eb Ho Eo HS Hcc HG HP HL Hla F7 Hinv Em) as (b & rest & n & Ek & Eop & En & R1 & R2 & R3 & R4 & R5 & R6 & R7 & R8 & R9 & RG & RE).
      assert (Ekk : (mkr :: done) ++ map (MO o) (pending s) = (mkr :: done ++ [MO (rb_start r) (rb_blk r)]) ++ map (MO (o + n)) (pending s')).
      { rewrite R1, R2, Ek. cbn [map]. rewrite R7. cbn [app]. rewrite <- app_assoc. reflexivity. }
      apply (IH s' (acc ++ [r]) (o + n) bF (done ++ [MO (rb_start r) (rb_blk r)]) R3); [|lia| |apply Forall_app; split; [exact HGa|constructor; [exact RG|constructor]]].
      + unfold FinK. split; [rewrite R4, R9, len_from by lia; lia|]. split; [|split; [exact R8|]].
        * exists bl, it, lo. rewrite <- Ekk. split; [exact F1|]. split; [exact F2|]. split; [exact F3|]. split; [|exact F6].
          apply Forall_app. split; [exact F5|constructor; [rewrite R1, R2; apply closedB_MO; [exact Eop|lia]|constructor]].
        * rewrite R6. rewrite Ek in F8, HG. inversion F8 as [|? ? _ Hr]; subst.
          cbn [GoodL] in HG. rewrite Eop in HG. destruct HG as [_ HG]. pose proof (GoodL_closed_gt _ _ HG) as Hgt.
          apply Forall_forall. intros y Hy. apply in_map_iff in Hy. destruct Hy as (x & <- & Hx). rewrite Forall_forall in Hr, Hgt.
          unfold closedB. rewrite isOpen_shiftB; [apply Hr, Hx|lia|apply Hgt, Hx].
      + rewrite doneI_snoc, Hacc. reflexivity.
    - destruct (pending s) as [|b0 rest] eqn:Ep.
      + (* nothing left: the buffer is exhausted *)
        assert (E1 : from_ (buf s) (bi s) = []) by (rewrite F0; apply QS2Drv5.from_all).
        rewrite E1. cbn [skipLoop Nat.add]. cbv zeta. cbn [buf bi]. change (lineEnd [] 0) with 0. cbn [Z.ltb negb snd fst].
        split; [reflexivity|]. split; [exact HGa|]. cbn [map] in F1, F6. rewrite app_nil_r in F1, F6. rewrite Hacc in F1, F6.
        exists bl, it, lo. repeat split; assumption.
      + exfalso. unfold makeRoot in Em. inversion F8 as [|? ? Hc0 _]; subst. unfold closedB in Hc0. rewrite Hc0 in Em. discriminate.
  Qed.

  Lemma allBlocks_run : forall fuel s acc o stQ ch done, DSt s o -> CorrI o (buf s) (bi s) (pending s) done ch -> (ch = [] -> stQ <> stDescendTerminated) ->
    (length (buf s) < fuel)%nat -> done = doneI acc -> Forall GoodR acc ->
    snd (allBlocks fuel s acc) = 0 /\ Forall GoodR (fst (allBlocks fuel s acc)) /\
    exists k bF bl it lo, QDone (epsK (o + bi s)) stQ ch k bF /\ bF = finalOf lo bl it (mkr :: doneI (fst (allBlocks fuel s acc))) /\
                          auxOf bl = lSk /\ auxOf it = iSk /\ LooseOK bl lo (mkr :: doneI (fst (allBlocks fuel s acc))).
  Proof.
    induction fuel as [|f IH]; intros s acc o stQ ch done HD HC HchQ Hf Hacc HGa; [lia|]. cbn [allBlocks].
    pose proof HD as (Eb & Ho & Eo & HDI & HL & Hla & Hinv).
    pose proof (nextBlock_total s HDI) as HT. pose proof (nextBlock_sim s o stQ ch done HD HC HchQ) as HN.
    destruct (nextBlock (3 + length (buf s)) s) as [r s'|s'| |]; try (exfalso; exact HN).
    - cbn [okNB2] in HT. destruct HT as [HT1 HT2]. destruct HN as (RG & o' & R3 & RE & HN').
      assert (HGa' : Forall GoodR (acc ++ [r])) by (apply Forall_app; split; [exact HGa|constructor; [exact RG|constructor]]).
      assert (Hd' : done ++ [MO (rb_start r) (rb_blk r)] = doneI (acc ++ [r])) by (rewrite doneI_snoc, Hacc; reflexivity).
      destruct HN' as [(k & stQ' & chn & S1 & S2 & S3)|(k & bF & S1 & S2)].
      + destruct (IH s' (acc ++ [r]) o' stQ' chn _ R3 S2 ltac:(intros E; contradiction) ltac:(lia) Hd' HGa') as (C0 & CG & k2 & bF & bl & it & lo & T1 & T2 & T3 & T4 & T5).
        split; [exact C0|]. split; [exact CG|]. exists (k + k2)%nat, bF, bl, it, lo. split; [apply (QStep_Done _ _ _ _ _ _ _ _ _ S1 T1)|]. split; [exact T2|]. split; [exact T3|]. split; [exact T4|exact T5].
      + destruct (allBlocks_fin f s' (acc ++ [r]) o' bF _ R3 S2 ltac:(lia) Hd' HGa') as (C0 & CG & bl & it & lo & T2 & T3 & T4 & T5).
        split; [exact C0|]. split; [exact CG|]. exists k, bF, bl, it, lo. split; [exact S1|]. split; [exact T2|]. split; [exact T3|]. split; [exact T4|exact T5].
    - cbn [fst snd]. split; [reflexivity|]. split; [exact HGa|]. destruct HN as (k & bF & bl & it & lo & S1 & F1 & F2 & F3 & F4).
      exists k, bF, bl, it, lo. rewrite <- Hacc. split; [exact S1|]. split; [exact F1|]. split; [exact F2|]. split; [exact F3|exact F4].
  Qed.

  (* ---- the theorem ---- *)
  Definition itemRootOf (b : block) : rootB :=
    {| rb_line := 1; rb_start := 0; rb_end := len Q; rb_src := Q; rb_blk := b |}.

  Theorem parseBlocks_item_sim :
    exists bl it lo, parseBlocks Q = ([itemRootOf (finalOf lo bl it (mkr :: doneI (fst (parseBlocks D))))], 0) /\
                     auxOf bl = lSk /\ auxOf it = iSk /\ LooseOK bl lo (mkr :: doneI (fst (parseBlocks D))) /\ Forall GoodR (fst (parseBlocks D)).
  Proof.
    assert (EpD : pad D = D) by (apply pad_noNul, D_nul). assert (EpQ : pad Q = Q) by (apply pad_noNul, Q_nul).
    pose proof (len_nonneg D) as HlD. pose proof D_ne as Dne.
    assert (HlDp : 0 < len D) by (destruct D; [contradiction|rewrite len_cons; pose proof (len_nonneg b); lia]).
    (* the plain run *)
    set (s0 := {| buf := D; bi := 0; boff := 0; bline := 1; pending := [] |}).
    assert (HD0 : DSt s0 0).
    { unfold DSt, s0. cbn [buf bi boff pending]. split; [reflexivity|]. split; [lia|]. split; [reflexivity|]. split.
      - split; [exists true; unfold SI; cbn [buf bi pending]; repeat split; try lia|]. split; [reflexivity|]. split; [exact I|]. intros pre c E. cbn [pending] in E. destruct pre; discriminate.
      - split; [left; reflexivity|]. split; [|reflexivity]. apply docRoot_parts. split; [lia|]. split; [cbn [tchain]; split; [lia|apply NT_empty; lia]|exact I]. }
    assert (HC0 : CorrI 0 (buf s0) (bi s0) (pending s0) [] []) by (left; repeat split; reflexivity).
    destruct (allBlocks_run (S (length D)) s0 [] 0 0 [] [] HD0 HC0 ltac:(discriminate) ltac:(cbn [buf s0]; lia) eq_refl ltac:(constructor))
      as (C0 & CG & k & bF & bl & it & lo & (T1 & T1b) & T2 & T3 & T4 & T5).
    change (epsK (0 + bi s0)) with 0 in T1, T1b.
    assert (ED : parseBlocks D = allBlocks (S (length D)) s0 []) by (unfold parseBlocks; rewrite EpD; reflexivity).
    rewrite <- ED in T2, T5, CG.
    exists bl, it, lo. split; [|repeat split; assumption].
    set (rootsD := fst (parseBlocks D)) in *. clearbody rootsD.
    (* the nested run *)
    pose proof (len_nonneg Q) as HlQ.
    assert (HlQp : 2 <= len Q).
    { unfold Idoc, item. rewrite !len_app. pose proof W_pos. unfold spaces, len at 2. rewrite repeat_length. pose proof (len_nonneg (indentAux (len mk + NN) false D)). lia. }
    unfold parseBlocks. rewrite EpQ. rewrite BlankPrefix.allBlocks_S. cbn [buf].
    unfold nextBlock. cbn [pending makeRoot bi buf]. change (upto Q 0) with (@nil Z). change (from_ Q 0) with Q.
    change (0 + unpadded []) with 0. change (1 + lineCount []) with 1.
    cbn [skipLoop Nat.add]. cbv zeta. cbn [buf bi boff bline pending].
    assert (He : 0 < lineEnd Q 0) by (apply lineEnd_progress; lia).
    destruct (Z.ltb_spec 0 (lineEnd Q 0)) as [_|L]; [|lia]. cbn [negb].
    assert (Hnb : isBlankLine (upto Q (lineEnd Q 0)) = false).
    { destruct Q_first as (m0 & rest & EQ0 & Hm0). rewrite EQ0 in He |- *. unfold upto.
      destruct (Z.to_nat (lineEnd (m0 :: rest) 0)) as [|n0] eqn:En; [lia|]. cbn [firstn isBlankLine forallb]. rewrite Hm0. reflexivity. }
    rewrite Hnb.
    assert (Es : {| buf := Q; bi := lineEnd Q 0; boff := 0 + unpadded []; bline := 1 + lineCount []; pending := [] |} = QS Q 0) by reflexivity.
    rewrite Es. fold (QLc (S (S (length Q))) 0 [] 0).
    assert (Hk : (k + 1 <= 2 + length Q)%nat) by (unfold len in T1b; lia).
    replace (S (S (length Q))) with (k + S (S (length Q) - k))%nat by lia.
    rewrite (T1 (S (length Q) - k)%nat).
    (* the list is cut off; nothing is left *)
    assert (HQlen : (1 <= length Q)%nat) by (unfold len in HlQp; lia).
    destruct (length Q) as [|nq] eqn:ElQ; [lia|]. cbn [allBlocks].
    unfold qend, qroot. cbn [buf]. rewrite T2, bend_finalOf. rewrite QS2Drv5.from_all.
    assert (Fn : forall x : Z, from_ (@nil Z) x = []) by (intros x; unfold from_; destruct (Z.to_nat x); reflexivity).
    assert (Un : forall x : Z, upto (@nil Z) x = []) by (intros x; unfold upto; destruct (Z.to_nat x); reflexivity).
    unfold nextBlock. cbn [pending makeRoot bi buf length Nat.add]. cbv zeta. rewrite Fn, Un.
    cbn [skipLoop]. cbv zeta. cbn [buf bi]. change (lineEnd [] 0) with 0. change (0 <? 0) with false. cbn [negb app].
    rewrite QS2Drv5.upto_all, (unpadded_noNul Q Q_nul), (fillNulls_noNul Q Q_nul). reflexivity.
  Qed.
End Drv.

Check parseBlocks_item_sim.
Print Assumptions parseBlocks_item_sim.
