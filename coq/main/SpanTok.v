From Coq Require Import List ZArith Lia Bool Permutation.
Import ListNotations.
Require Import Base Tables Utf8 Tree Rdr Link Collect Html Recog Inl3a Inl3b Inl3c Inl3d Inl3e Leaf3a RdrBound SpanForest SpanIds SpanStack SpanEmph SpanSmall.
Open Scope Z_scope.

(* ================================================================================================
   Layer 3: the tokeniser.  State invariant TI at the root level and its preservation by the
   node-adding primitives and the branches of istep that do not involve the multi-line reader.
   ================================================================================================ *)

(* children built from finished inline nodes carry no identities *)
Lemma pidsN_ofInline : forall i, pidsN (ofInline i) = [].
Proof.
  fix IH 1. intros [k s e ind r ks]. cbn [ofInline pidsN]. change (0 <? 0) with false. cbn [app].
  induction ks as [|x ks IHks]; [reflexivity|]. cbn [map flat_map]. rewrite (IH x), IHks. reflexivity.
Qed.
Lemma pidsF_kidsOf l : pidsF (kidsOf l) = [].
Proof. unfold kidsOf, pidsF. induction l as [|x l IH]; [reflexivity|]. cbn [map flat_map]. rewrite pidsN_ofInline, IH. reflexivity. Qed.

Section Tok.
  Variables (src : bytes) (U : list inline) (lo hi re : Z).

  Record TI (st : ist) (le : Z) : Prop := mkTI {
    ti_ok : okF lo le (rk st);
    ti_ids : IdsOK st;
    ti_stk : subIds (map d_node (stk st)) (rk st);
    ti_unp : unp st = U;
    ti_src : isrc st = src;
    ti_re : rootEnd st = re;
    ti_le : le <= hi }.

  Lemma TI_weaken st le le' : TI st le -> le <= le' -> le' <= hi -> TI st le'.
  Proof. intros [A B C D E F G] H1 H2. constructor; try assumption. eapply okF_weaken; [exact A|lia|exact H1]. Qed.
  Lemma TI_setStk_same st le v : TI st le -> map d_node v = map d_node (stk st) -> TI (setStk st v) le.
  Proof. intros [A B C D E F G] H. constructor; try assumption. cbn [stk setStk rk]. rewrite H. exact C. Qed.
  Lemma TI_setIgn st le v : TI st le -> TI (setIgn st v) le.
  Proof. intros [A B C D E F G]. constructor; assumption. Qed.
  Lemma TI_setUpos st le v : TI st le -> TI (setUpos st v) le.
  Proof. intros [A B C D E F G]. constructor; assumption. Qed.
  Lemma TI_advanceTo st le p : TI st le -> TI (advanceTo st p) le.
  Proof. intros H. unfold advanceTo. destruct (0 <=? _); apply TI_setUpos, H. Qed.

  (* appending a node at the root *)
  Lemma TI_push st le n : TI st le -> le <= ps n -> pe n <= hi -> okN n -> pid n = nid st -> pidsF (pkids n) = [] ->
    TI (bumpId (setRk st (rk st ++ [n]))) (pe n).
  Proof.
    intros [A (B1 & B2 & B3) C D E F G] H1 H2 H3 H4 H5. constructor; cbn [rk stk unp isrc rootEnd nid bumpId setRk]; try assumption.
    - apply okF_snoc with (le := le); assumption.
    - unfold IdsOK. cbn [rk nid bumpId setRk]. rewrite pidsF_app. cbn [pidsF flat_map]. rewrite app_nil_r.
      rewrite pidsN_eq, H4, H5. apply Z.ltb_lt in B3. rewrite B3. cbn [app]. apply Z.ltb_lt in B3.
      split; [|split; [|lia]].
      + apply NoDup_app_intro; [exact B1|constructor; [intros []|constructor]|].
        intros x Hx [<-|[]]. rewrite Forall_forall in B2. specialize (B2 _ Hx). lia.
      + apply Forall_app. split; [|constructor; [lia|constructor]].
        rewrite Forall_forall in *. intros x Hx. specialize (B2 x Hx). lia.
    - apply subIds_appr. exact C.
  Qed.

  Lemma TI_addNode st le kind s e kids : TI st le -> le <= s -> s <= e -> e <= hi -> okF s e kids -> pidsF kids = [] ->
    TI (fst (addNode st kind s e kids)) e.
  Proof.
    intros H H1 H2 H3 H4 H5. unfold addNode. destruct (spanLen s e =? 0) eqn:Es; cbn [fst].
    - eapply TI_weaken; [exact H|lia|exact H3].
    - apply spanLen_pos in Es.
      apply (TI_push st le (PN (nid st) kind s e 0 [] kids)); cbn [ps pe pid pkids]; try assumption; try reflexivity.
      apply okN_eq. split; [lia|]. split; [lia|exact H4].
  Qed.
  Lemma TI_addText st le s e : TI st le -> le <= s -> s <= e -> e <= hi -> TI (addText st s e) e.
  Proof. intros H H1 H2 H3. unfold addText. apply (TI_addNode st le); try assumption; try reflexivity. Qed.
  (* the form used before every construct: flush the pending plain text *)
  Lemma TI_flush st le pl pos : TI st le -> le <= pl -> pl <= pos -> pos <= hi -> TI (addText st pl pos) pos.
  Proof. intros H H1 H2 H3. apply (TI_addText st le); assumption. Qed.

  (* adding a delimiter node and pushing it on the stack *)
  Lemma TI_addDelim st le s e typ flags n : TI st le -> le <= s -> 0 <= s -> s < e -> e <= hi ->
    let '(st1, id) := addNode st TextKind s e [] in
    TI (setStk st1 (stk st1 ++ [{| d_typ := typ; d_flags := flags; d_n := n; d_node := id |}])) e.
  Proof.
    intros [A (B1 & B2 & B3) C D E F G] H1 H2 H3 H4. unfold addNode.
    assert (Es : spanLen s e =? 0 = false).
    { apply Z.eqb_neq. unfold spanLen. replace (0 <=? s) with true by (symmetry; apply Z.leb_le; lia).
      replace (0 <=? e) with true by (symmetry; apply Z.leb_le; lia). replace (s <=? e) with true by (symmetry; apply Z.leb_le; lia). cbn. lia. }
    rewrite Es.
    pose proof (TI_push st le (PN (nid st) TextKind s e 0 [] []) (mkTI _ _ A (conj B1 (conj B2 B3)) C D E F G)) as HT.
    cbn [ps pe pid pkids] in HT. specialize (HT H1 H4 ltac:(apply okN_leaf; lia) eq_refl eq_refl).
    destruct HT as [A' B' C' D' E' F' G']. constructor; cbn [rk stk unp isrc rootEnd setStk bumpId setRk] in *; try assumption.
    rewrite map_app. cbn [map d_node]. apply subIds_app; [exact C|].
    change (nid st) with (pid (PN (nid st) TextKind s e 0 [] [])). apply subIds_cons; [|exact I].
    unfold leafy. cbn [pkids pid ps pe]. repeat split; try lia.
  Qed.

  (* ---- the entries ---- *)
  Hypothesis HU : okF lo hi (map ofInline U).
  Hypothesis Hhi : hi <= len src.

  Definition nthU (j : Z) : inline := nth (Z.to_nat j) U (mkI 0 0 0).
  Lemma ps_ofInline u : ps (ofInline u) = istart u. Proof. destruct u; reflexivity. Qed.
  Lemma pe_ofInline u : pe (ofInline u) = iend u. Proof. destruct u; reflexivity. Qed.

  Lemma okF_nth : forall l a b k, okF a b l -> (k < length l)%nat ->
    a <= ps (nth k l (ofInline (mkI 0 0 0))) /\ pe (nth k l (ofInline (mkI 0 0 0))) <= b /\ okN (nth k l (ofInline (mkI 0 0 0))).
  Proof.
    induction l as [|x l IH]; intros a b k H Hk; [cbn in Hk; lia|]. cbn [okF] in H. destruct H as (A & B & C).
    pose proof (okN_valid _ B) as V. pose proof (okF_le _ _ _ C) as V2.
    destruct k as [|k]; cbn [nth].
    - repeat split; try assumption; lia.
    - cbn [length] in Hk. destruct (IH (pe x) b k C ltac:(lia)) as (D & E & F). repeat split; try assumption; lia.
  Qed.
  Lemma okF_nth_lt : forall l a b k k', okF a b l -> (k < k')%nat -> (k' < length l)%nat ->
    pe (nth k l (ofInline (mkI 0 0 0))) <= ps (nth k' l (ofInline (mkI 0 0 0))).
  Proof.
    induction l as [|x l IH]; intros a b k k' H Hk Hk'; [cbn in Hk'; lia|]. cbn [okF] in H. destruct H as (A & B & C).
    destruct k' as [|k']; [lia|]. cbn [length] in Hk'. destruct k as [|k]; cbn [nth].
    - destruct (okF_nth l (pe x) b k' C ltac:(lia)) as (D & _). exact D.
    - apply (IH (pe x) b k k' C); lia.
  Qed.
  Lemma nthU_map j : ofInline (nthU j) = nth (Z.to_nat j) (map ofInline U) (ofInline (mkI 0 0 0)).
  Proof. unfold nthU. symmetry. apply map_nth. Qed.
  Lemma entry_bounds j : 0 <= j < len U -> lo <= istart (nthU j) /\ istart (nthU j) <= iend (nthU j) /\ iend (nthU j) <= hi /\ okN (ofInline (nthU j)).
  Proof.
    intros Hj. unfold len in Hj. destruct (okF_nth _ _ _ (Z.to_nat j) HU ltac:(rewrite map_length; lia)) as (A & B & C).
    rewrite <- nthU_map in A, B, C. rewrite ps_ofInline in A. rewrite pe_ofInline in B. pose proof (okN_valid _ C) as V.
    rewrite ps_ofInline, pe_ofInline in V. repeat split; try assumption; lia.
  Qed.
  Lemma entry_order j j' : 0 <= j -> j < j' -> j' < len U -> iend (nthU j) <= istart (nthU j').
  Proof.
    intros H0 H1 H2. unfold len in H2. pose proof (okF_nth_lt _ _ _ (Z.to_nat j) (Z.to_nat j') HU ltac:(lia) ltac:(rewrite map_length; lia)) as H.
    rewrite <- !nthU_map in H. rewrite ps_ofInline, pe_ofInline in H. exact H.
  Qed.
  Lemma last_nth {A} (l : list A) x r d : rev l = x :: r -> x = nth (length l - 1) l d.
  Proof.
    intros H. assert (E : l = rev r ++ [x]) by (rewrite <- (rev_involutive l), H; reflexivity).
    subst l. rewrite app_length. cbn [length]. rewrite app_nth2 by lia. replace (length (rev r) + 1 - 1 - length (rev r))%nat with O by lia. reflexivity.
  Qed.
  Lemma lo_le_hi : lo <= hi. Proof. apply (okF_le _ _ _ HU). Qed.

  Lemma spanEnd_in st : unp st = U -> 0 <= upos st < len U -> spanEnd st = iend (nthU (upos st)).
  Proof. intros E H. unfold spanEnd. rewrite E. destruct (Z.leb_spec (len U) (upos st)); [lia|reflexivity]. Qed.
  Lemma spanEnd_le st : unp st = U -> U <> [] -> 0 <= upos st -> lo <= spanEnd st <= hi.
  Proof.
    intros E HN H0. unfold spanEnd. rewrite E. destruct (Z.leb_spec (len U) (upos st)) as [A|A].
    - destruct (rev U) as [|x r] eqn:Er.
      { exfalso. apply HN. rewrite <- (rev_involutive U), Er. reflexivity. }
      rewrite (last_nth U x r (mkI 0 0 0) Er).
      assert (Hl : (0 < length U)%nat) by (destruct U; [contradiction|cbn; lia]).
      pose proof (entry_bounds (Z.of_nat (length U - 1))) as HB. unfold nthU in HB. rewrite Nat2Z.id in HB. unfold len in HB. specialize (HB ltac:(lia)). lia.
    - pose proof (entry_bounds (upos st) ltac:(lia)) as HB. unfold nthU in HB. lia.
  Qed.

  Definition sameU (st st' : ist) : Prop := unp st' = unp st /\ upos st' = upos st /\ isrc st' = isrc st.
  Lemma sameU_refl st : sameU st st. Proof. repeat split. Qed.
  Lemma sameU_trans a b c : sameU a b -> sameU b c -> sameU a c.
  Proof. intros (A1 & A2 & A3) (B1 & B2 & B3). repeat split; congruence. Qed.
  Lemma sameU_spanEnd st st' : sameU st st' -> spanEnd st' = spanEnd st.
  Proof. intros (A & B & C). unfold spanEnd. rewrite A, B, C. reflexivity. Qed.
  Lemma sameU_isLast st st' : sameU st st' -> isLastSpan st' = isLastSpan st.
  Proof. intros (A & B & C). unfold isLastSpan. rewrite A, B. reflexivity. Qed.
  Lemma sameU_addNode st k s e kids : sameU st (fst (addNode st k s e kids)).
  Proof. unfold addNode. destruct (_ =? 0); repeat split. Qed.
  Lemma sameU_addText st s e : sameU st (addText st s e).
  Proof. apply sameU_addNode. Qed.
  Lemma sameU_frameE st st' : frameE st st' -> sameU st st'.
  Proof. intros (A & B & C & _). repeat split; assumption. Qed.

  (* ---- the loop invariant of the tokeniser: lastEnd <= plainStart <= pos, plainStart <= spanEnd ---- *)
  Hypothesis Hlo : 0 <= lo.
  Definition Pre (st : ist) (pos pl : Z) : Prop :=
    exists le, TI st le /\ le <= pl /\ pl <= pos /\ pos < spanEnd st /\ 0 <= upos st < len U /\ istart (nthU (upos st)) <= pos.
  Definition IS (st : ist) (pos : Z) : Prop := upos st < len U -> istart (nthU (upos st)) <= pos.
  Definition Post (st : ist) (pos pl : Z) : Prop :=
    (exists le, TI st le /\ le <= pl /\ pl <= pos /\ pl <= spanEnd st /\ 0 <= upos st) /\ IS st pos.

  Lemma TI_lo st le : TI st le -> lo <= le. Proof. intros H. apply (okF_le _ _ _ (ti_ok _ _ H)). Qed.
  Lemma U_nonempty st : 0 <= upos st < len U -> U <> [].
  Proof. intros H E. rewrite E in H. cbn in H. lia. Qed.
  Lemma Pre_facts st pos pl : Pre st pos pl ->
    exists le, TI st le /\ le <= pl /\ pl <= pos /\ pos < spanEnd st /\ 0 <= upos st < len U /\ 0 <= pl /\ spanEnd st <= hi /\ spanEnd st <= len src.
  Proof.
    intros (le & HT & A & B & C & D & _). exists le. pose proof (TI_lo _ _ HT).
    pose proof (spanEnd_le st (ti_unp _ _ HT) (U_nonempty st D) ltac:(lia)).
    split; [exact HT|]. split; [exact A|]. split; [exact B|]. split; [exact C|]. split; [exact D|]. lia.
  Qed.
  Lemma Post_keep st pos pl pos' : Pre st pos pl -> pos <= pos' -> Post st pos' pl.
  Proof. intros (le & HT & A & B & C & D & I0) H. split; [exists le; split; [exact HT|]; lia|]. intros _. lia. Qed.

  (* after flushing the pending text and adding one node [pos, e] inside the current entry *)
  Lemma Post_node st pos pl kind e kids : Pre st pos pl -> pos <= e -> e <= spanEnd st -> okF pos e kids -> pidsF kids = [] ->
    Post (fst (addNode (addText st pl pos) kind pos e kids)) e e.
  Proof.
    intros HP He1 He2 Hk Hp. destruct (Pre_facts _ _ _ HP) as (le & HT & A & B & C & D & E & F & G).
    pose proof (TI_flush st le pl pos HT A B ltac:(lia)) as H1.
    pose proof (TI_addNode _ pos kind pos e kids H1 ltac:(lia) He1 ltac:(lia) Hk Hp) as H2.
    pose proof (sameU_trans _ _ _ (sameU_addText st pl pos) (sameU_addNode (addText st pl pos) kind pos e kids)) as Hs.
    destruct HP as (_ & _ & _ & _ & _ & _ & I0).
    split.
    - exists e. split; [exact H2|]. split; [lia|]. split; [lia|].
      rewrite (sameU_spanEnd _ _ Hs). destruct Hs as (_ & Hu & _). rewrite Hu. split; [exact He2|lia].
    - unfold IS. destruct Hs as (_ & Hu & _). rewrite Hu. intros _. lia.
  Qed.

  Lemma B_delim st pos pl : Pre st pos pl ->
    let '(st', e) := parseDelimiterRun (addText st pl pos) pos in Post st' e e.
  Proof.
    intros HP. destruct (Pre_facts _ _ _ HP) as (le & HT & A & B & C & D & E & F & G).
    pose proof (TI_flush st le pl pos HT A B ltac:(lia)) as H1.
    pose proof (sameU_addText st pl pos) as Hs. unfold parseDelimiterRun. cbv zeta.
    rewrite (sameU_spanEnd _ _ Hs). destruct Hs as (Hs1 & Hs2 & Hs3). rewrite Hs3.
    destruct (runEnd_bounds (length (isrc st)) (isrc st) (pos + 1) (spanEnd st) (at_ (isrc st) pos)) as [R1 R2]. specialize (R2 ltac:(lia)).
    set (e := runEnd (length (isrc st)) (isrc st) (pos + 1) (spanEnd st) (at_ (isrc st) pos)) in *.
    pose proof (TI_addDelim (addText st pl pos) pos pos e (if at_ (isrc st) pos =? 42 then tStar else tUnder)
                  (fActive + emphasisFlags (isrc st) pos e) (spanLen pos e) H1 ltac:(lia) ltac:(lia) ltac:(lia) ltac:(lia)) as H2.
    destruct (addNode (addText st pl pos) TextKind pos e []) as [st1 id] eqn:Ea.
    assert (Hs' : sameU (addText st pl pos) st1) by (replace st1 with (fst (addNode (addText st pl pos) TextKind pos e [])) by (rewrite Ea; reflexivity); apply sameU_addNode).
    destruct HP as (_ & _ & _ & _ & _ & _ & I0).
    split.
    - exists e. split; [exact H2|]. split; [lia|]. split; [lia|].
      unfold spanEnd in *. cbn [unp upos isrc setStk]. destruct Hs' as (T1 & T2 & T3). rewrite T1, T2, T3, Hs1, Hs2, Hs3. split; [exact R2|lia].
    - unfold IS. cbn [upos setStk]. destruct Hs' as (_ & T2 & _). rewrite T2, Hs2. intros _. lia.
  Qed.

  Lemma sameU_setIgn st v : sameU st (setIgn st v). Proof. repeat split. Qed.
  Lemma sameU_setStk st v : sameU st (setStk st v). Proof. repeat split. Qed.

  (* the state after flushing the pending plain text *)
  Lemma Flush st pos pl : Pre st pos pl ->
    TI (addText st pl pos) pos /\ sameU st (addText st pl pos) /\ 0 <= pos /\ spanEnd st <= hi /\ spanEnd st <= len src /\ 0 <= upos st < len U /\
    istart (nthU (upos st)) <= pos.
  Proof.
    intros HP. destruct (Pre_facts _ _ _ HP) as (le & HT & A & B & C & D & E & F & G).
    destruct HP as (_ & _ & _ & _ & _ & _ & I0).
    split; [apply (TI_flush st le); try assumption; lia|]. split; [apply sameU_addText|]. lia.
  Qed.
  Lemma Post_same st st1 le e : TI st1 le -> sameU st st1 -> le <= e -> e <= spanEnd st -> spanEnd st <= hi -> 0 <= upos st ->
    istart (nthU (upos st)) <= e -> Post st1 e e.
  Proof.
    intros HT Hs A B C D I0. split.
    - exists e. split; [eapply TI_weaken; [exact HT|lia|lia]|]. rewrite (sameU_spanEnd _ _ Hs).
      destruct Hs as (_ & Hu & _). rewrite Hu. lia.
    - unfold IS. destruct Hs as (_ & Hu & _). rewrite Hu. intros _. exact I0.
  Qed.
  Lemma Post_add st st1 le kind s e kids : TI st1 le -> sameU st st1 -> le <= s -> s <= e -> e <= spanEnd st -> spanEnd st <= hi -> 0 <= upos st ->
    istart (nthU (upos st)) <= e -> okF s e kids -> pidsF kids = [] -> Post (fst (addNode st1 kind s e kids)) e e.
  Proof.
    intros HT Hs A B C D E I0 Hk Hp.
    pose proof (TI_addNode st1 le kind s e kids HT A B ltac:(lia) Hk Hp) as H2.
    apply (Post_same st _ e); try assumption; try lia. eapply sameU_trans; [exact Hs|apply sameU_addNode].
  Qed.
  Lemma Post_addText st st1 le s e : TI st1 le -> sameU st st1 -> le <= s -> s <= e -> e <= spanEnd st -> spanEnd st <= hi -> 0 <= upos st ->
    istart (nthU (upos st)) <= e -> Post (addText st1 s e) e e.
  Proof. intros. unfold addText. eapply Post_add; try eassumption; try reflexivity; try (cbn; lia). Qed.
  Lemma Post_setIgn st pos pl v : Post st pos pl -> Post (setIgn st v) pos pl.
  Proof. intros [(le & HT & A) I0]. split; [exists le; split; [apply TI_setIgn, HT|exact A]|exact I0]. Qed.

  Lemma B_open st pos pl w typ : Pre st pos pl -> 1 <= w -> pos + w <= spanEnd st ->
    let '(st1, id) := addNode (addText st pl pos) TextKind pos (pos + w) [] in
    Post (setStk st1 (stk st1 ++ [{| d_typ := typ; d_flags := fActive; d_n := 0; d_node := id |}])) (pos + w) (pos + w).
  Proof.
    intros HP Hw He. destruct (Flush _ _ _ HP) as (H1 & Hs & P0 & F & G & D & I0).
    pose proof (TI_addDelim (addText st pl pos) pos pos (pos + w) typ fActive 0 H1 ltac:(lia) ltac:(lia) ltac:(lia) ltac:(lia)) as H2.
    destruct (addNode (addText st pl pos) TextKind pos (pos + w) []) as [st1 id] eqn:Ea.
    assert (Hs' : sameU (addText st pl pos) st1) by (replace st1 with (fst (addNode (addText st pl pos) TextKind pos (pos + w) [])) by (rewrite Ea; reflexivity); apply sameU_addNode).
    apply (Post_same st _ (pos + w)); try assumption; try lia.
    eapply sameU_trans; [exact Hs|]. eapply sameU_trans; [exact Hs'|apply sameU_setStk].
  Qed.

  Lemma sub_len_entry st pos : isrc st = src -> 0 <= pos -> pos <= spanEnd st -> spanEnd st <= len src -> len (sub (isrc st) pos (spanEnd st)) = spanEnd st - pos.
  Proof. intros E A B C. rewrite E. apply len_sub; lia. Qed.

  Lemma B_backslash st pos pl : Pre st pos pl ->
    let '(st', e) := parseBackslash (addText st pl pos) pos in Post st' e e.
  Proof.
    intros HP. destruct (Flush _ _ _ HP) as (H1 & Hs & P0 & F & G & D & I0). destruct HP as (le0 & _ & _ & _ & C & _).
    unfold parseBackslash. cbv zeta. rewrite (sameU_spanEnd _ _ Hs), (sameU_isLast _ _ Hs).
    destruct ((spanEnd st <=? pos + 1) || _ || _) eqn:E1.
    - destruct (isLastSpan st).
      + apply (Post_addText st _ pos); try assumption; lia.
      + destruct (eolRun_bounds (length (isrc (addText st pl pos))) (isrc (addText st pl pos)) (pos + 1) (spanEnd st)) as [R1 R2]. specialize (R2 ltac:(lia)).
        apply (Post_add st _ pos _ pos _ []); [apply TI_setIgn, H1|eapply sameU_trans; [exact Hs|apply sameU_setIgn]|lia|lia|exact R2|exact F|lia|lia|cbn; lia|reflexivity].
    - apply orb_false_iff in E1. destruct E1 as [E1 _]. apply orb_false_iff in E1. destruct E1 as [E1 _]. apply Z.leb_gt in E1.
      destruct (isASCIIPunctuation _); [apply (Post_addText st _ pos)|apply (Post_addText st _ pos)]; try assumption; lia.
  Qed.

  (* ---- moving the entry cursor ---- *)
  Definition Bend : Z := match rev U with l :: _ => iend l | [] => len src end.
  Lemma spanEnd_out st : unp st = U -> isrc st = src -> len U <= upos st -> spanEnd st = Bend.
  Proof. intros E E2 H. unfold spanEnd, Bend. rewrite E, E2. destruct (Z.leb_spec (len U) (upos st)); [reflexivity|lia]. Qed.
  Lemma Bend_le : U <> [] -> lo <= Bend <= hi.
  Proof.
    intros HN. pose (st0 := {| rk := []; isrc := src; unp := U; upos := len U; stk := []; ign := false; nid := 1; rootEnd := re; matcher := [] |}).
    pose proof (spanEnd_le st0 eq_refl HN ltac:(cbn; apply len_nonneg)) as H. rewrite (spanEnd_out st0 eq_refl eq_refl) in H by (cbn; lia). exact H.
  Qed.
  Lemma hd_skipn : forall k (l : list inline) n, hd_error (skipn k l) = Some n -> (k < length l)%nat /\ n = nth k l (mkI 0 0 0).
  Proof.
    induction k as [|k IH]; intros l n H; destruct l as [|x l]; cbn in H; try discriminate.
    - inversion H; subst. cbn. split; [lia|reflexivity].
    - destruct (IH l n H) as [A B]. cbn. split; [lia|exact B].
  Qed.
  Lemma from_from {A} (l : list A) a b : 0 <= a -> 0 <= b -> from_ (from_ l a) b = from_ l (a + b).
  Proof. intros Ha Hb. unfold from_. rewrite skipn_skipn'. f_equal. lia. Qed.
  Lemma nodeIndex_found j p : 0 <= j -> 0 <= nodeIndexForPosition (from_ U j) p ->
    j + nodeIndexForPosition (from_ U j) p < len U /\ spanHas (nthU (j + nodeIndexForPosition (from_ U j) p)) p = true.
  Proof.
    intros Hj Hi. unfold nodeIndexForPosition in *.
    destruct (nodeIdx_has (from_ U j) p 0 ltac:(lia) Hi) as (n & E & Hh). rewrite Z.sub_0_r in E.
    set (i := nodeIdx (from_ U j) p 0) in *.
    rewrite from_from in E by lia. change (from_ U (j + i)) with (skipn (Z.to_nat (j + i)) U) in E.
    apply hd_skipn in E. destruct E as [A B]. unfold len, nthU. rewrite <- B. split; [lia|exact Hh].
  Qed.
  Lemma advanceTo_spec st p : unp st = U -> isrc st = src -> 0 <= upos st ->
    0 <= upos (advanceTo st p) /\ unp (advanceTo st p) = U /\ isrc (advanceTo st p) = isrc st /\
    (p < spanEnd (advanceTo st p) \/ spanEnd (advanceTo st p) = Bend) /\ IS (advanceTo st p) p.
  Proof.
    intros E E2 H0. unfold advanceTo, unpFrom. rewrite E.
    destruct (Z.leb_spec 0 (nodeIndexForPosition (from_ U (upos st)) p)) as [A|A].
    - destruct (nodeIndex_found (upos st) p H0 A) as [B C]. cbn [upos unp isrc setUpos].
      split; [lia|]. split; [exact E|]. split; [reflexivity|]. split.
      + left. rewrite spanEnd_in; cbn [upos unp setUpos]; [|exact E|lia]. apply spanHas_lt. exact C.
      + unfold IS. cbn [upos setUpos]. intros _. unfold spanHas in C. rewrite !andb_true_iff in C. destruct C as ((_ & C) & _). apply Z.leb_le in C. exact C.
    - cbn [upos unp isrc setUpos]. pose proof (len_nonneg U). split; [lia|]. split; [exact E|]. split; [reflexivity|]. split.
      + right. apply spanEnd_out; cbn [upos unp isrc setUpos]; [exact E|exact E2|lia].
      + unfold IS. cbn [upos setUpos]. lia.
  Qed.
  Lemma unpFrom_same st st' : sameU st st' -> unpFrom st' = unpFrom st.
  Proof. intros (A & B & _). unfold unpFrom. rewrite A, B. reflexivity. Qed.
  Lemma rfuel_same st st' : sameU st st' -> rfuelOf st' = rfuelOf st.
  Proof. intros (_ & _ & C). unfold rfuelOf. rewrite C. reflexivity. Qed.

  (* ---- what the tokeniser needs from the multi-line scanners (discharged in layer 4) ---- *)
  Definition inEntry (st : ist) (pos : Z) : Prop :=
    unp st = U /\ isrc st = src /\ 0 <= upos st < len U /\ istart (nthU (upos st)) <= pos < iend (nthU (upos st)).

  Definition SpecHTML : Prop := forall st pos, inEntry st pos ->
    let '(ts, te) := parseHTMLTag (rfuelOf st) (newReader src (unpFrom st) pos) in
    spanValid (ts, te) = true ->
    ts = pos /\ pos <= te /\ te <= Bend /\
    okF ts te (kidsOf (collectTextNodes (rfuelOf st) (newReader src (unpFrom st) ts) te RawHTMLKind false)).

  Definition SpecCode : Prop := forall st pos, inEntry st pos ->
    let '(cS, cE, sE) := parseCodeSpan (rfuelOf st) st pos in
    pos <= cS /\
    (0 <= sE -> forall st1, sameU st st1 ->
       exists st2 kids, collectCodeSpan st1 pos sE cS cE = fst (addNode st2 CodeSpanKind pos sE kids) /\
         (st2 = st1 \/ exists up, st2 = setUpos st1 up) /\ 0 <= upos st2 < len U /\ sE <= iend (nthU (upos st2)) /\ istart (nthU (upos st2)) <= sE /\
         pos <= sE /\ okF pos sE kids /\ pidsF kids = []).

  Hypothesis HHtml : SpecHTML.
  Hypothesis HCode : SpecCode.

  Lemma Pre_inEntry st pos pl : Pre st pos pl -> istart (nthU (upos st)) <= pos -> inEntry st pos.
  Proof.
    intros (le & HT & A & B & C & D & _) H. unfold inEntry. split; [exact (ti_unp _ _ HT)|]. split; [exact (ti_src _ _ HT)|]. split; [exact D|].
    rewrite (spanEnd_in st (ti_unp _ _ HT) D) in C. lia.
  Qed.

  Lemma B_html st pos pl : Pre st pos pl -> istart (nthU (upos st)) <= pos ->
    let '(ts, te) := parseHTMLTag (rfuelOf st) (newReader (isrc st) (unpFrom st) pos) in
    if negb (spanValid (ts, te)) then Post st (pos + 1) pl else
    let st1 := addText st pl ts in
    let kids := kidsOf (collectTextNodes (rfuelOf st) (newReader (isrc st) (unpFrom st1) ts) te RawHTMLKind false) in
    Post (advanceTo (fst (addNode st1 HTMLTagKind ts te kids)) te) te te.
  Proof.
    intros HP Hin. pose proof (Pre_inEntry _ _ _ HP Hin) as HE. pose proof (HHtml st pos HE) as HS.
    destruct HE as (EU & ES & HU1 & HU2). rewrite ES.
    destruct (parseHTMLTag (rfuelOf st) (newReader src (unpFrom st) pos)) as [ts te].
    destruct (spanValid (ts, te)) eqn:Ev; cbn [negb]; [|apply (Post_keep st pos pl); [exact HP|lia]].
    destruct (HS eq_refl) as (-> & H1 & H2 & H3). cbv zeta.
    destruct (Flush _ _ _ HP) as (T1 & Hs & P0 & F & G & D & I0).
    rewrite (unpFrom_same _ _ Hs).
    set (kids := kidsOf (collectTextNodes (rfuelOf st) (newReader src (unpFrom st) pos) te RawHTMLKind false)) in *.
    pose proof (Bend_le (U_nonempty st D)) as HB.
    pose proof (TI_addNode _ pos HTMLTagKind pos te kids T1 ltac:(lia) H1 ltac:(lia) H3 (pidsF_kidsOf _)) as T2.
    set (st2 := fst (addNode (addText st pl pos) HTMLTagKind pos te kids)) in *.
    assert (Hs2 : sameU st st2) by (eapply sameU_trans; [exact Hs|apply sameU_addNode]).
    destruct (advanceTo_spec st2 te (ti_unp _ _ T2) (ti_src _ _ T2) ltac:(destruct Hs2 as (_ & -> & _); lia)) as (A1 & A2 & A3 & A4 & A5).
    split; [|exact A5]. exists te. split; [apply TI_advanceTo, T2|]. lia.
  Qed.

  Lemma B_code st pos pl : Pre st pos pl -> istart (nthU (upos st)) <= pos ->
    let '(cS, cE, sE) := parseCodeSpan (rfuelOf st) st pos in
    if 0 <=? sE then Post (collectCodeSpan (addText st pl pos) pos sE cS cE) sE sE else Post st cS pl.
  Proof.
    intros HP Hin. pose proof (Pre_inEntry _ _ _ HP Hin) as HE. pose proof (HCode st pos HE) as HS.
    destruct (parseCodeSpan (rfuelOf st) st pos) as [[cS cE] sE]. destruct HS as [H1 H2].
    destruct (Z.leb_spec 0 sE) as [A|A]; [|apply (Post_keep st pos pl); assumption].
    destruct (Flush _ _ _ HP) as (T1 & Hs & P0 & F & G & D & I0).
    destruct (H2 A (addText st pl pos) Hs) as (st2 & kids & E & Hst2 & Hu & He & Hi2 & Hle & Hk & Hp). rewrite E.
    assert (T2 : TI st2 pos) by (destruct Hst2 as [->|(up & ->)]; [exact T1|apply TI_setUpos, T1]).
    pose proof (entry_bounds (upos st2) Hu) as (B1 & B2 & B3 & B4).
    pose proof (TI_addNode st2 pos CodeSpanKind pos sE kids T2 ltac:(lia) Hle ltac:(lia) Hk Hp) as T3.
    pose proof (sameU_addNode st2 CodeSpanKind pos sE kids) as Hs3. split.
    - exists sE. split; [exact T3|].
      rewrite (sameU_spanEnd _ _ Hs3). destruct Hs3 as (_ & -> & _).
      rewrite (spanEnd_in st2 (ti_unp _ _ T2) Hu). lia.
    - unfold IS. destruct Hs3 as (_ & -> & _). intros _. exact Hi2.
  Qed.

  (* ================= the closing bracket ================= *)
  Lemma TI_PEI st le : TI st le -> PEI CRoot 0 st (rk st).
  Proof. intros [A B C D E F G]. constructor; [reflexivity|exact B|exact C|]. pose proof (len_nonneg (stk st)). lia. Qed.
  Lemma PEI_TI st st' le : TI st le -> PEI CRoot 0 st' (rk st) -> rk st' = rk st -> unp st' = unp st -> isrc st' = isrc st -> rootEnd st' = rootEnd st -> TI st' le.
  Proof.
    intros [A B C D E F G] [R I S Bd] E1 E2 E3 E4.
    constructor; [rewrite E1; exact A|exact I|rewrite E1; exact S|congruence|congruence|congruence|exact G].
  Qed.
  Lemma TI_delstack st le i : TI st le -> 0 <= i < len (stk st) -> TI (setStk st (delStack (stk st) i (i + 1))) le.
  Proof.
    intros HT Hi. destruct (PEI_delcloser CRoot 0 st (rk st) i (TI_PEI _ _ HT) ltac:(lia)) as [HP _].
    apply (PEI_TI st _ le HT HP); reflexivity.
  Qed.

  Lemma lfl_spec : forall fuel st i le, TI st le -> i < len (stk st) ->
    TI (fst (lfl fuel st i)) le /\ sameU st (fst (lfl fuel st i)) /\
    (snd (lfl fuel st i) = -1 \/ (fst (lfl fuel st i) = st /\ 0 <= snd (lfl fuel st i) < len (stk st))).
  Proof.
    induction fuel as [|f IH]; intros st i le HT Hi; cbn [lfl].
    - cbn [fst snd]. split; [exact HT|]. split; [apply sameU_refl|left; reflexivity].
    - destruct (Z.ltb_spec i 0) as [A|A]; cbn [fst snd]; [split; [exact HT|]; split; [apply sameU_refl|left; reflexivity]|].
      destruct (_ || _).
      + destruct (negb _); cbn [fst snd].
        * split; [apply TI_delstack; [exact HT|lia]|]. split; [apply sameU_setStk|left; reflexivity].
        * split; [exact HT|]. split; [apply sameU_refl|right; split; [reflexivity|lia]].
      + apply IH; [exact HT|lia].
  Qed.
  Lemma lookFor_spec st le : TI st le ->
    TI (fst (lookForLinkOrImage st)) le /\ sameU st (fst (lookForLinkOrImage st)) /\
    (snd (lookForLinkOrImage st) = -1 \/ (fst (lookForLinkOrImage st) = st /\ 0 <= snd (lookForLinkOrImage st) < len (stk st))).
  Proof. intros HT. unfold lookForLinkOrImage. apply lfl_spec; [exact HT|lia]. Qed.

  Lemma pidsF_wrapped_tail pre a post newId kind s e : 0 < newId ->
    Permutation (pidsF (pre ++ a :: [PN newId kind s e 0 [] post])) (newId :: pidsF (pre ++ a :: post)).
  Proof.
    intros Hn. rewrite !pidsF_app, !pidsF_cons. cbn [pidsN pidsF flat_map]. apply Z.ltb_lt in Hn. rewrite Hn. fold (pidsF post).
    rewrite !app_nil_r. cbn [app]. rewrite !(app_assoc (pidsF pre) (pidsN a)). apply Permutation_sym.
    exact (Permutation_middle (pidsF pre ++ pidsN a) (pidsF post) newId).
  Qed.

  Lemma wrap_none st le kind S1 od S2 : TI st le -> stk st = S1 ++ od :: S2 ->
    exists pre bracket post,
      rk st = pre ++ bracket :: post /\ pid bracket = d_node od /\ leafy bracket /\ nodeOf st (d_node od) = bracket /\
      subIds (map d_node S1) pre /\ subIds (map d_node S2) post /\
      snd (wrap st kind (d_node od) None) = nid st /\ 0 < nid st /\
      rk (fst (wrap st kind (d_node od) None)) = pre ++ [bracket; PN (nid st) kind (pe bracket) re 0 [] post] /\
      IdsOK (fst (wrap st kind (d_node od) None)) /\ stk (fst (wrap st kind (d_node od) None)) = stk st /\
      sameU st (fst (wrap st kind (d_node od) None)) /\ rootEnd (fst (wrap st kind (d_node od) None)) = re.
  Proof.
    intros [A (B1 & B2 & B3) C D E F G] Hs. rewrite Hs, map_app in C. cbn [map] in C.
    apply subIds_split in C. destruct C as (pre & bracket & post & Erk & Eb & Lb & SA & SB).
    exists pre, bracket, post. pose proof Lb as (_ & Pb & _). rewrite Eb in Pb.
    assert (Hnd : NoDup (pidsF (plug CRoot (pre ++ bracket :: post)))) by (cbn [plug]; rewrite <- Erk; exact B1).
    split; [exact Erk|]. split; [exact Eb|]. split; [exact Lb|].
    split; [apply (st_nodeOf CRoot pre bracket post (d_node od) st); try assumption|].
    split; [exact SA|]. split; [exact SB|]. split; [reflexivity|]. split; [exact B3|].
    unfold wrap. cbn [fst rk stk bumpId setRk rootEnd]. rewrite F.
    assert (Ew : wrapIn (fsize (rk st)) (nid st) kind (d_node od) None None re (rk st) = pre ++ [bracket; PN (nid st) kind (pe bracket) re 0 [] post]).
    { rewrite Erk. rewrite (wrap_plug CRoot pre bracket post (d_node od) Pb Eb Hnd). cbn [plug].
      apply wrapLevel_none; [apply (lvl_pre_top CRoot pre bracket post (d_node od) Pb Eb Hnd)|exact Eb]. }
    rewrite Ew. split; [reflexivity|]. split; [|split; [reflexivity|split; [repeat split|reflexivity]]].
    unfold IdsOK. cbn [rk nid bumpId setRk].
    assert (P : Permutation (pidsF (pre ++ [bracket; PN (nid st) kind (pe bracket) re 0 [] post])) (nid st :: pidsF (rk st))).
    { rewrite Erk. apply pidsF_wrapped_tail. exact B3. }
    split; [|split; [|lia]].
    - eapply Permutation_NoDup; [apply Permutation_sym; exact P|]. constructor; [|exact B1].
      intros Hin. rewrite Forall_forall in B2. specialize (B2 _ Hin). lia.
    - eapply Forall_perm; [apply Permutation_sym; exact P|]. constructor; [lia|].
      rewrite Forall_forall in *. intros x Hx. specialize (B2 x Hx). lia.
  Qed.

  Lemma upd_last st P LN lid g : rk st = P ++ [LN] -> pid LN = lid -> 0 < lid -> IdsOK st -> pidsN (g LN) = pidsN LN ->
    rk (updN st lid g) = P ++ [g LN] /\ IdsOK (updN st lid g).
  Proof. intros Hrk Hl Hp Hi Hg. apply (IdsOK_upd CRoot P LN [] lid st g); assumption. Qed.

  Lemma d_node_clearFlag d f : d_node (clearFlag d f) = d_node d.
  Proof. unfold clearFlag. destruct (hasFlag d f); reflexivity. Qed.
  Lemma clear_map (g : Z -> delim -> bool) : forall (l : list delim) (idx : list Z), length idx = length l ->
    map d_node (map (fun id : Z * delim => let '(i, d) := id in if g i d then clearFlag d fActive else d) (combine idx l)) = map d_node l.
  Proof.
    induction l as [|d l IH]; intros idx H; destruct idx as [|i idx]; try (cbn in H; discriminate); [reflexivity|].
    cbn [combine map]. rewrite IH by (cbn in H; lia). f_equal. destruct (g i d); [apply d_node_clearFlag|reflexivity].
  Qed.

  Lemma finishLink_spec st kind S1 od S2 pre bracket lid kd s E ref K :
    rk st = pre ++ [bracket; PN lid kd s E 0 ref K] -> IdsOK st -> stk st = S1 ++ od :: S2 ->
    pid bracket = d_node od -> 0 < d_node od ->
    subIds (map d_node S2) K ->
    exists K', rk (finishLink st kind (len S1)) = pre ++ [PN lid kd s E 0 ref K'] /\ (forall a b, okF a b K -> okF a b K') /\
       IdsOK (finishLink st kind (len S1)) /\ map d_node (stk (finishLink st kind (len S1))) = map d_node S1 /\
       sameU st (finishLink st kind (len S1)) /\ rootEnd (finishLink st kind (len S1)) = rootEnd st.
  Proof.
    intros Hrk Hids Hs Eb Pb HS2. unfold finishLink.
    assert (Eod : nthD (stk st) (len S1) = od) by (rewrite Hs; apply nthD_app_len; reflexivity). rewrite Eod.
    set (c := CLast (pre ++ [bracket]) (PN lid kd s E 0 ref K)).
    assert (HP : PEI c (len S1 + 1) st K).
    { constructor; [|exact Hids| |].
      - rewrite Hrk. cbn [plug c setKids]. rewrite <- app_assoc. reflexivity.
      - rewrite Hs. change (od :: S2) with ([od] ++ S2). rewrite app_assoc.
        rewrite (from_app_len (S1 ++ [od]) S2) by (rewrite len_app, len_cons, len_nil; lia). exact HS2.
      - rewrite Hs, len_app, len_cons. pose proof (len_nonneg S1). pose proof (len_nonneg S2). lia. }
    destruct (processEmphasis_level c (len S1 + 1) st K HP) as (K' & R1 & I1 & Hok & F1 & St1).
    set (st1 := processEmphasis st (len S1 + 1)) in *.
    cbn [plug c setKids] in R1. rewrite <- app_assoc in R1. cbn [app] in R1.
    assert (St1' : stk st1 = S1 ++ [od]).
    { rewrite St1, Hs. change (od :: S2) with ([od] ++ S2). rewrite app_assoc. apply upto_app_len. rewrite len_app, len_cons, len_nil. lia. }
    destruct (IdsOK_remove CRoot pre bracket [PN lid kd s E 0 ref K'] (d_node od) st1 R1 Pb Eb I1) as [R2 I2].
    cbn [plug] in R2. set (st2 := removeNode st1 (d_node od)) in *.
    assert (St3 : delStack (stk st2) (len S1) (len S1 + 1) = S1).
    { change (stk st2) with (stk st1). rewrite St1'. rewrite <- (app_nil_r (S1 ++ [od])). rewrite <- app_assoc.
      rewrite (delStack_spec S1 [od] [] (len S1) (len S1 + 1)); [apply app_nil_r|reflexivity|rewrite len_cons, len_nil; lia]. }
    rewrite St3. exists K'.
    assert (Hsame : sameU st st2) by (apply sameU_frameE in F1; exact F1).
    assert (Hre : rootEnd st2 = rootEnd st) by (destruct F1 as (_ & _ & _ & _ & Hr & _); exact Hr).
    destruct (kind =? LinkKind); cbn [rk stk setStk].
    - split; [exact R2|]. split; [exact Hok|]. split; [exact I2|]. split; [|split; [exact Hsame|exact Hre]].
      apply clear_map. rewrite map_length, seq_length. reflexivity.
    - split; [exact R2|]. split; [exact Hok|]. split; [exact I2|]. split; [reflexivity|split; [exact Hsame|exact Hre]].
  Qed.

  Lemma link_final pre bracket post le le2 E extras lid kd ref K' :
    okF lo le (pre ++ bracket :: post) -> le <= le2 -> okF le2 E extras ->
    (forall a b, okF a b (post ++ extras) -> okF a b K') ->
    okF lo E (pre ++ [PN lid kd (ps bracket) E 0 ref K']).
  Proof.
    intros H Hle Hex HK. apply okF_app in H. destruct H as (m & H1 & H2). cbn [okF] in H2. destruct H2 as (A1 & A2 & A3).
    pose proof (okN_valid _ A2) as V. pose proof (okF_le _ _ _ A3) as V2. pose proof (okF_le _ _ _ Hex) as V3.
    apply okF_app. exists m. split; [exact H1|]. cbn [okF ps pe]. split; [exact A1|]. split; [|lia].
    apply okN_eq. split; [lia|]. split; [lia|]. apply HK. apply okF_app. exists le. split.
    - eapply okF_weaken; [exact A3|lia|lia].
    - eapply okF_weaken; [exact Hex|lia|lia].
  Qed.

  Lemma appendKid_last st P lid kd s e ind r K X : rk st = P ++ [PN lid kd s e ind r K] -> 0 < lid -> IdsOK st -> pidsN X = [] ->
    rk (appendKid st lid X) = P ++ [PN lid kd s e ind r (K ++ [X])] /\ IdsOK (appendKid st lid X).
  Proof.
    intros Hrk Hl Hi HX. unfold appendKid.
    apply (upd_last st P (PN lid kd s e ind r K) lid (fun n => setKids n (pkids n ++ [X])) Hrk eq_refl Hl Hi).
    cbn [setKids pkids pidsN]. f_equal. fold (pidsF K). fold (pidsF (K ++ [X])). rewrite pidsF_app. cbn [pidsF flat_map]. rewrite HX. rewrite !app_nil_r. reflexivity.
  Qed.
  Lemma setSpan_last st P lid kd s e ind r K s' e' : rk st = P ++ [PN lid kd s e ind r K] -> 0 < lid -> IdsOK st ->
    rk (updN st lid (fun n => setSpan n s' e')) = P ++ [PN lid kd s' e' ind r K] /\ IdsOK (updN st lid (fun n => setSpan n s' e')).
  Proof. intros Hrk Hl Hi. apply (upd_last st P (PN lid kd s e ind r K) lid (fun n => setSpan n s' e') Hrk eq_refl Hl Hi). reflexivity. Qed.
  Lemma setRefSpan_last st P lid kd s e ind r K s' e' r' : rk st = P ++ [PN lid kd s e ind r K] -> 0 < lid -> IdsOK st ->
    rk (updN st lid (fun n => setRef (setSpan n s' e') r')) = P ++ [PN lid kd s' e' ind r' K] /\ IdsOK (updN st lid (fun n => setRef (setSpan n s' e') r')).
  Proof. intros Hrk Hl Hi. apply (upd_last st P (PN lid kd s e ind r K) lid (fun n => setRef (setSpan n s' e') r') Hrk eq_refl Hl Hi). reflexivity. Qed.

  (* from the shape of the link node to the invariant after finishLink *)
  Lemma link_finish st0 le st2 kind S1 od S2 pre bracket post lid kd E ref extras le2 :
    TI st0 le -> rk st0 = pre ++ bracket :: post -> stk st0 = S1 ++ od :: S2 -> pid bracket = d_node od -> leafy bracket ->
    subIds (map d_node S1) pre -> subIds (map d_node S2) post ->
    rk st2 = pre ++ [bracket; PN lid kd (ps bracket) E 0 ref (post ++ extras)] -> IdsOK st2 -> stk st2 = stk st0 ->
    unp st2 = U -> isrc st2 = src -> rootEnd st2 = re ->
    le <= le2 -> okF le2 E extras -> E <= hi ->
    TI (finishLink st2 kind (len S1)) E /\ sameU st2 (finishLink st2 kind (len S1)).
  Proof.
    intros HT Hrk0 Hs0 Eb Lb SA SB Hrk2 I2 Hs2 HU2 Hsrc2 Hre2 Hle Hex HE.
    pose proof Lb as (_ & Pb & _). rewrite Eb in Pb.
    destruct (finishLink_spec st2 kind S1 od S2 pre bracket lid kd (ps bracket) E ref (post ++ extras) Hrk2 I2 ltac:(rewrite Hs2; exact Hs0) Eb Pb
                ltac:(apply subIds_appr; exact SB)) as (K' & R & Hok & I & Sd & Hsame & Hre).
    split; [|exact Hsame]. destruct Hsame as (X1 & X2 & X3).
    constructor; [| exact I | | congruence | congruence | congruence | exact HE].
    - rewrite R. apply (link_final pre bracket post le le2 E extras); try assumption.
      pose proof (ti_ok _ _ HT) as A. rewrite Hrk0 in A. exact A.
    - rewrite Sd, R. apply subIds_appr. exact SA.
  Qed.

  Definition destNode (fuel : nat) (spans : list inline) (dspan dtext : Z * Z) : pn :=
    PN 0 LinkDestinationKind (fst dspan) (snd dspan) 0 []
       (if spanValid dtext then kidsOf (collectTextNodes fuel (newReader src spans (fst dtext)) (snd dtext) TextKind true) else []).
  Definition titleNode (fuel : nat) (spans : list inline) (tspan ttext : Z * Z) : pn :=
    PN 0 LinkTitleKind (fst tspan) (snd tspan) 0 []
       (if spanValid ttext then kidsOf (collectTextNodes fuel (newReader src spans (fst ttext)) (snd ttext) TextKind true) else []).
  Definition linkExtras (fuel : nat) (spans : list inline) (dspan dtext tspan ttext : Z * Z) : list pn :=
    (if spanValid dspan then [destNode fuel spans dspan dtext] else []) ++
    (if spanValid tspan then [titleNode fuel spans tspan ttext] else []).

  Definition SpecInline : Prop := forall st s, inEntry st (s - 1) -> s < spanEnd st -> at_ src s = 40 ->
    let '(ispan, (dspan, dtext), (tspan, ttext)) := parseInlineLink (rfuelOf st) st s in
    spanValid ispan = true ->
    s <= snd ispan /\ snd ispan <= Bend /\
    okF s (snd ispan) (linkExtras (rfuelOf st) (unpFrom st) dspan dtext tspan ttext).
  Definition SpecLabel : Prop := forall st s, inEntry st (s - 1) -> s < spanEnd st ->
    let '(lspan, linner, _) := parseLinkLabel (rfuelOf st) (newReader src (unpFrom st) s) in
    spanValid lspan = true ->
    s <= fst lspan /\ snd lspan <= Bend /\
    okF (fst lspan) (snd lspan) (kidsOf (collectTextNodes (rfuelOf st) (newReader src (unpFrom st) (fst linner)) (snd linner) TextKind false)).
  Hypothesis HInline : SpecInline.
  Hypothesis HLabel : SpecLabel.

  Lemma pidsN_destNode f sp a b : pidsN (destNode f sp a b) = [].
  Proof. unfold destNode. cbn [pidsN]. change (0 <? 0) with false. cbn [app]. destruct (spanValid b); [apply pidsF_kidsOf|reflexivity]. Qed.
  Lemma pidsN_titleNode f sp a b : pidsN (titleNode f sp a b) = [].
  Proof. unfold titleNode. cbn [pidsN]. change (0 <? 0) with false. cbn [app]. destruct (spanValid b); [apply pidsF_kidsOf|reflexivity]. Qed.

  Lemma stk_addNode st k s e kids : stk (fst (addNode st k s e kids)) = stk st.
  Proof. unfold addNode. destruct (_ =? 0); reflexivity. Qed.
  Lemma stk_addText st s e : stk (addText st s e) = stk st. Proof. apply stk_addNode. Qed.
  Lemma advanceTo_fields st p : rk (advanceTo st p) = rk st /\ stk (advanceTo st p) = stk st /\ unp (advanceTo st p) = unp st /\
    isrc (advanceTo st p) = isrc st /\ rootEnd (advanceTo st p) = rootEnd st /\ nid (advanceTo st p) = nid st.
  Proof. unfold advanceTo. destruct (0 <=? _); repeat split. Qed.
  Lemma inEntry_same st st' pos : inEntry st pos -> sameU st st' -> inEntry st' pos.
  Proof. intros (A & B & C & D) (E1 & E2 & E3). unfold inEntry. rewrite E1, E2, E3. tauto. Qed.

  Lemma B_close st pos pl : Pre st pos pl -> istart (nthU (upos st)) <= pos ->
    let '(st', e) := parseEndBracket (addText st pl pos) pos in Post st' e e.
  Proof.
    intros HP Hin. pose proof (Pre_inEntry _ _ _ HP Hin) as HE.
    destruct (Flush _ _ _ HP) as (T1 & Hs & P0 & F & G & D & I0). destruct HP as (le0 & _ & _ & _ & C & _).
    set (sta := addText st pl pos) in *.
    pose proof (inEntry_same _ _ _ HE Hs) as HEa.
    assert (Hse : spanEnd sta = spanEnd st) by (apply sameU_spanEnd; exact Hs).
    assert (Hua : upos sta = upos st) by (destruct Hs as (_ & X & _); exact X).
    unfold parseEndBracket.
    destruct (lookFor_spec sta pos T1) as (T2 & Hs2 & Hodi).
    destruct (lookForLinkOrImage sta) as [stb odi]. cbn [fst snd] in T2, Hs2, Hodi.
    destruct (Z.ltb_spec odi 0) as [Hneg|Hpos].
    { apply (Post_addText st stb pos); try assumption; try lia. eapply sameU_trans; eassumption. }
    destruct Hodi as [Hodi|[-> Hodi]]; [lia|].
    destruct (stack_split (stk sta) odi Hodi) as (S1 & S2 & ES & LS1).
    set (od := nthD (stk sta) odi) in *.
    set (kind := if d_typ od =? tImage then ImageKind else LinkKind).
    destruct (wrap_none sta pos kind S1 od S2 T1 ES) as (pre & bracket & post & Erk & Eb & Lb & Nb & SA & SB & Wid & Pn & Rw & Iw & Sw & Uw & Rew).
    rewrite Nb. rewrite (ti_src _ _ T1).
    destruct (wrap sta kind (d_node od) None) as [st1 lid] eqn:Ew. cbn [fst snd] in Wid, Rw, Iw, Sw, Uw, Rew.
    assert (Rw' : rk st1 = (pre ++ [bracket]) ++ [PN lid kind (pe bracket) re 0 [] post]) by (rewrite Rw, Wid, <- app_assoc; reflexivity).
    assert (Pl : 0 < lid) by (rewrite Wid; exact Pn).
    assert (HU1 : unp st1 = U) by (destruct Uw as (X & _); rewrite X; exact (ti_unp _ _ T1)).
    assert (Hsrc1 : isrc st1 = src) by (destruct Uw as (_ & _ & X); rewrite X; exact (ti_src _ _ T1)).
    assert (Hup1 : upos st1 = upos st) by (destruct Uw as (_ & X & _); rewrite X; exact Hua).
    (* failure: the bracket stays a text node, the opener leaves the stack *)
    assert (Hfail : Post (setStk (addText sta pos (pos + 1)) (delStack (stk sta) odi (odi + 1))) (pos + 1) (pos + 1)).
    { pose proof (TI_addText sta pos pos (pos + 1) T1 ltac:(lia) ltac:(lia) ltac:(lia)) as T3.
      pose proof (TI_delstack (addText sta pos (pos + 1)) (pos + 1) odi T3 ltac:(rewrite stk_addText; exact Hodi)) as T4.
      rewrite stk_addText in T4.
      apply (Post_same st _ (pos + 1)); try assumption; try lia.
      eapply sameU_trans; [exact Hs|]. eapply sameU_trans; [apply sameU_addText|apply sameU_setStk]. }
    (* success: the generic ending *)
    assert (Hfin : forall st2 E ref extras, rk st2 = (pre ++ [bracket]) ++ [PN lid kind (ps bracket) E 0 ref (post ++ extras)] -> IdsOK st2 ->
              stk st2 = stk sta -> unp st2 = U -> isrc st2 = src -> rootEnd st2 = re -> okF pos E extras -> E <= hi -> E <= spanEnd st2 -> 0 <= upos st2 ->
              IS st2 E -> Post (finishLink st2 kind odi) E E).
    { intros st2 E ref extras R2 I2 S2' U2 Sr2 Re2 Hex HE1 HE2 Hu2 HIS. rewrite <- app_assoc in R2. cbn [app] in R2.
      rewrite <- LS1.
      destruct (link_finish sta pos st2 kind S1 od S2 pre bracket post lid kind E ref extras pos T1 Erk ES Eb Lb SA SB R2 I2 S2' U2 Sr2 Re2 ltac:(lia) Hex HE1) as [T3 Hs3].
      split.
      - exists E. split; [exact T3|]. rewrite (sameU_spanEnd _ _ Hs3). destruct Hs3 as (_ & -> & _). lia.
      - unfold IS in *. destruct Hs3 as (_ & -> & _). exact HIS. }
    pose proof (Bend_le (U_nonempty st D)) as HB.
    assert (Hfin2 : forall st3 E ref extras, rk st3 = (pre ++ [bracket]) ++ [PN lid kind (ps bracket) E 0 ref (post ++ extras)] -> IdsOK st3 ->
              stk st3 = stk sta -> unp st3 = U -> isrc st3 = src -> rootEnd st3 = re -> upos st3 = upos st -> okF pos E extras -> E <= Bend ->
              Post (finishLink (advanceTo st3 (E - 1)) kind odi) E E).
    { intros st3 E ref extras R3 I3 S3 U3 Sr3 Re3 Up3 Hex HE1.
      destruct (advanceTo_fields st3 (E - 1)) as (Q1 & Q2 & Q3 & Q4 & Q5 & Q6).
      destruct (advanceTo_spec st3 (E - 1) U3 Sr3 ltac:(lia)) as (A1 & A2 & A3 & A4 & A5).
      apply (Hfin (advanceTo st3 (E - 1)) E ref extras); try congruence; try lia.
      - unfold IdsOK. rewrite Q1, Q6. exact I3.
      - unfold IS in *. intros X. specialize (A5 X). lia. }
    assert (Hsimple : forall E L, pos + 1 <= E -> E <= spanEnd st ->
              let '(st', e) := (if negb (matchRef sta L)
                                then (setStk (addText sta pos (pos + 1)) (delStack (stk sta) odi (odi + 1)), pos + 1)
                                else (finishLink (updN st1 lid (fun n : pn => setRef (setSpan n (ps bracket) E) L)) kind odi, E)) in
              Post st' e e).
    { intros E L HE1 HE2. destruct (negb (matchRef sta L)); [exact Hfail|].
      destruct (setRefSpan_last st1 (pre ++ [bracket]) lid kind (pe bracket) re 0 [] post (ps bracket) E L Rw' Pl Iw) as [R2 I2].
      rewrite <- (app_nil_r post) in R2.
      apply (Hfin _ E L []); try assumption; try lia.
      - cbn. lia.
      - change (spanEnd (updN st1 lid (fun n : pn => setRef (setSpan n (ps bracket) E) L))) with (spanEnd st1).
        rewrite (sameU_spanEnd _ _ Uw). lia.
      - change (0 <= upos st1). lia.
      - unfold IS. change (upos st1 < len U -> istart (nthU (upos st1)) <= E). rewrite Hup1. intros _. lia. }
    set (ti := if (pos + 1 <? spanEnd sta) && (at_ src (pos + 1) =? 40)
               then let '(ispan, (dspan, dtext), (tspan, ttext)) := parseInlineLink (rfuelOf sta) sta (pos + 1) in
                    if spanValid ispan then Some (ispan, dspan, dtext, tspan, ttext) else None
               else None).
    destruct ti as [[[[[ispan dspan] dtext] tspan] ttext]|] eqn:Eti.
    - (* inline link *)
      unfold ti in Eti. destruct ((pos + 1 <? spanEnd sta) && (at_ src (pos + 1) =? 40)) eqn:Ec; [|discriminate].
      apply andb_true_iff in Ec. destruct Ec as [Ec Ec40]. apply Z.ltb_lt in Ec. apply Z.eqb_eq in Ec40.
      pose proof (HInline sta (pos + 1) ltac:(replace (pos + 1 - 1) with pos by lia; exact HEa) Ec Ec40) as HS.
      destruct (parseInlineLink (rfuelOf sta) sta (pos + 1)) as [[ispan' [dspan' dtext']] [tspan' ttext']].
      destruct (spanValid ispan') eqn:Ev; [|discriminate]. inversion Eti; subst ispan' dspan' dtext' tspan' ttext'. clear Eti.
      destruct (HS eq_refl) as (H1 & H2 & H3). clear HS.
        destruct (setSpan_last st1 (pre ++ [bracket]) lid kind (pe bracket) re 0 [] post (ps bracket) (snd ispan) Rw' Pl Iw) as [R2 I2].
        set (st2 := updN st1 lid (fun n : pn => setSpan n (ps bracket) (snd ispan))) in *.
        assert (Euf : unpFrom st2 = unpFrom sta) by (apply (unpFrom_same sta st2); exact Uw).
        unfold linkExtras in H3.
        destruct (spanValid dspan) eqn:Ed; destruct (spanValid tspan) eqn:Et.
        * rewrite Euf.
          destruct (appendKid_last st2 (pre ++ [bracket]) lid kind (ps bracket) (snd ispan) 0 [] post (destNode (rfuelOf sta) (unpFrom sta) dspan dtext) R2 Pl I2 (pidsN_destNode _ _ _ _)) as [R3 I3].
          fold (destNode (rfuelOf sta) (unpFrom sta) dspan dtext).
          set (st3 := appendKid st2 lid (destNode (rfuelOf sta) (unpFrom sta) dspan dtext)) in *.
          assert (Euf3 : unpFrom st3 = unpFrom sta) by exact Euf. rewrite Euf3.
          destruct (appendKid_last st3 (pre ++ [bracket]) lid kind (ps bracket) (snd ispan) 0 [] (post ++ [destNode (rfuelOf sta) (unpFrom sta) dspan dtext]) (titleNode (rfuelOf sta) (unpFrom sta) tspan ttext) R3 Pl I3 (pidsN_titleNode _ _ _ _)) as [R4 I4].
          fold (titleNode (rfuelOf sta) (unpFrom sta) tspan ttext).
          set (st4 := appendKid st3 lid (titleNode (rfuelOf sta) (unpFrom sta) tspan ttext)) in *.
          apply (Hfin2 st4 (snd ispan) [] ([destNode (rfuelOf sta) (unpFrom sta) dspan dtext] ++ [titleNode (rfuelOf sta) (unpFrom sta) tspan ttext])); try assumption; try lia; [rewrite (app_assoc post); exact R4|eapply okF_weaken; [exact H3|lia|lia]].
        * rewrite Euf.
          destruct (appendKid_last st2 (pre ++ [bracket]) lid kind (ps bracket) (snd ispan) 0 [] post (destNode (rfuelOf sta) (unpFrom sta) dspan dtext) R2 Pl I2 (pidsN_destNode _ _ _ _)) as [R3 I3].
          fold (destNode (rfuelOf sta) (unpFrom sta) dspan dtext).
          set (st3 := appendKid st2 lid (destNode (rfuelOf sta) (unpFrom sta) dspan dtext)) in *.
          rewrite app_nil_r in H3.
          apply (Hfin2 st3 (snd ispan) [] [destNode (rfuelOf sta) (unpFrom sta) dspan dtext]); try assumption; try lia. eapply okF_weaken; [exact H3|lia|lia].
        * rewrite Euf.
          destruct (appendKid_last st2 (pre ++ [bracket]) lid kind (ps bracket) (snd ispan) 0 [] post (titleNode (rfuelOf sta) (unpFrom sta) tspan ttext) R2 Pl I2 (pidsN_titleNode _ _ _ _)) as [R3 I3].
          fold (titleNode (rfuelOf sta) (unpFrom sta) tspan ttext).
          set (st3 := appendKid st2 lid (titleNode (rfuelOf sta) (unpFrom sta) tspan ttext)) in *.
          cbn [app] in H3.
          apply (Hfin2 st3 (snd ispan) [] [titleNode (rfuelOf sta) (unpFrom sta) tspan ttext]); try assumption; try lia. eapply okF_weaken; [exact H3|lia|lia].
        * cbn [app] in H3. rewrite <- (app_nil_r post) in R2.
          apply (Hfin2 st2 (snd ispan) [] []); try assumption; try lia. eapply okF_weaken; [exact H3|lia|lia].

    - (* reference links *)
      clear Eti ti.
      destruct ((pos + 2 <? spanEnd sta) && (at_ src (pos + 1) =? 91) && (at_ src (pos + 2) =? 93)) eqn:EC.
      + cbn [negb andb]. apply andb_true_iff in EC. destruct EC as [EC _]. apply andb_true_iff in EC. destruct EC as [EC _]. apply Z.ltb_lt in EC.
        apply (Hsimple (pos + 3)); lia.
      + cbn [negb andb].
        destruct ((pos + 1 <? spanEnd sta) && (at_ src (pos + 1) =? 91)) eqn:EL.
        * apply andb_true_iff in EL. destruct EL as [EL _]. apply Z.ltb_lt in EL.
          pose proof (HLabel sta (pos + 1) ltac:(replace (pos + 1 - 1) with pos by lia; exact HEa) EL) as HS.
          destruct (parseLinkLabel (rfuelOf sta) (newReader src (unpFrom sta) (pos + 1))) as [[lspan linner] rl].
          destruct (spanValid lspan) eqn:Evl; [|apply (Hsimple (pos + 1)); lia].
          destruct (HS eq_refl) as (H1 & H2 & H3). clear HS.
          destruct (negb (matchRef sta _)); [exact Hfail|].
          set (lkids := collectTextNodes (rfuelOf sta) (newReader src (unpFrom sta) (fst linner)) (snd linner) TextKind false) in *.
          set (LN := PN 0 LinkLabelKind (fst lspan) (snd lspan) 0 (transformLinkReference (rfuelOf sta) src lkids) (kidsOf lkids)).
          assert (HLN : pidsN LN = []) by (unfold LN; cbn [pidsN]; change (0 <? 0) with false; cbn [app]; apply pidsF_kidsOf).
          destruct (appendKid_last st1 (pre ++ [bracket]) lid kind (pe bracket) re 0 [] post LN Rw' Pl Iw HLN) as [R2 I2].
          set (st2 := appendKid st1 lid LN) in *.
          destruct (setSpan_last st2 (pre ++ [bracket]) lid kind (pe bracket) re 0 [] (post ++ [LN]) (ps bracket) (snd lspan) R2 Pl I2) as [R3 I3].
          unfold spanValid in Evl. apply andb_true_iff in Evl. destruct Evl as [Evl Ev3]. apply andb_true_iff in Evl. destruct Evl as [Ev1 Ev2].
          apply Z.leb_le in Ev1, Ev2, Ev3.
          apply (Hfin2 _ (snd lspan) [] [LN]); try assumption; try lia.
          cbn [okF]. unfold LN at 1 3. cbn [ps pe]. split; [lia|]. split; [|lia]. unfold LN. apply okN_eq. split; [lia|]. split; [lia|exact H3].
        * change (spanValid nullSpan) with false. cbv iota. apply (Hsimple (pos + 1)); lia.
  Qed.

  Lemma Pre_IS st pos pl : Pre st pos pl -> istart (nthU (upos st)) <= pos.
  Proof. intros (_ & _ & _ & _ & _ & _ & I0). exact I0. Qed.

  Lemma istep_ok st pos pl : Pre st pos pl -> let '(st', pos', pl') := istep st pos pl in Post st' pos' pl'.
  Proof.
    intros HP. pose proof (Pre_IS _ _ _ HP) as I0. unfold istep. cbv zeta.
    destruct (Flush _ _ _ HP) as (T1 & Hs & P0 & F & G & D & _).
    pose proof HP as (le0 & T0 & _ & _ & C & _).
    pose proof (ti_src _ _ T0) as Esrc.
    destruct ((at_ (isrc st) pos =? 42) || (at_ (isrc st) pos =? 95)).
    { pose proof (B_delim st pos pl HP) as H. destruct (parseDelimiterRun (addText st pl pos) pos) as [st' e]. exact H. }
    destruct (at_ (isrc st) pos =? 91).
    { pose proof (B_open st pos pl 1 tLink HP ltac:(lia) ltac:(lia)) as H.
      destruct (addNode (addText st pl pos) TextKind pos (pos + 1) []) as [st1 id]. exact H. }
    destruct (at_ (isrc st) pos =? 93).
    { pose proof (B_close st pos pl HP I0) as H. destruct (parseEndBracket (addText st pl pos) pos) as [st' e]. exact H. }
    destruct (at_ (isrc st) pos =? 33).
    { destruct (Z.leb_spec (spanEnd st) (pos + 1)) as [A|A]; cbn [orb]; [apply (Post_keep st pos pl); [exact HP|lia]|].
      destruct (negb _); [apply (Post_keep st pos pl); [exact HP|lia]|].
      pose proof (B_open st pos pl 2 tImage HP ltac:(lia) ltac:(lia)) as H.
      destruct (addNode (addText st pl pos) TextKind pos (pos + 2) []) as [st1 id]. exact H. }
    destruct (at_ (isrc st) pos =? 32).
    { pose proof (hlb_bounds (sub (isrc st) pos (spanEnd st))) as Hb. rewrite (sub_len_entry st pos Esrc) in Hb by lia.
      destruct (parseHardLineBreakSpace (sub (isrc st) pos (spanEnd st))) as [e ok]. cbn [fst] in Hb.
      destruct (ok && negb (isLastSpan st)); [|apply (Post_keep st pos pl); [exact HP|lia]].
      apply Post_setIgn. apply Post_node; [exact HP|lia|lia|cbn; lia|reflexivity]. }
    destruct (at_ (isrc st) pos =? 96).
    { pose proof (B_code st pos pl HP I0) as H. destruct (parseCodeSpan (rfuelOf st) st pos) as [[cS cE] sE].
      destruct (0 <=? sE); exact H. }
    destruct (at_ (isrc st) pos =? 60).
    { destruct (Z.leb_spec 0 (parseAutolink (sub (isrc st) pos (spanEnd st)))) as [A|A].
      - pose proof (parseAutolink_bounds _ A) as Hb. rewrite (sub_len_entry st pos Esrc) in Hb by lia.
        set (ae := parseAutolink (sub (isrc st) pos (spanEnd st))) in *.
        apply Post_node; [exact HP|lia|lia| |reflexivity].
        cbn [okF ps pe]. split; [lia|]. split; [apply okN_leaf; lia|lia].
      - pose proof (B_html st pos pl HP I0) as H.
        destruct (parseHTMLTag (rfuelOf st) (newReader (isrc st) (unpFrom st) pos)) as [ts te].
        destruct (negb (spanValid (ts, te))); exact H. }
    destruct (at_ (isrc st) pos =? 92).
    { pose proof (B_backslash st pos pl HP) as H. destruct (parseBackslash (addText st pl pos) pos) as [st' e]. exact H. }
    destruct (at_ (isrc st) pos =? 38).
    { destruct (Z.ltb_spec (parseCharacterEscape (sub (isrc st) pos (spanEnd st))) 0) as [A|A]; [apply (Post_keep st pos pl); [exact HP|lia]|].
      pose proof (parseCharacterEscape_bounds _ A) as Hb. rewrite (sub_len_entry st pos Esrc) in Hb by lia.
      apply Post_node; [exact HP|lia|lia|cbn; lia|reflexivity]. }
    destruct (at_ (isrc st) pos =? 10).
    { rewrite (sameU_isLast _ _ Hs). destruct (negb (isLastSpan st)).
      - apply Post_node; [exact HP|lia|lia|cbn; lia|reflexivity].
      - apply (Post_same st _ pos); try assumption; lia. }
    destruct (at_ (isrc st) pos =? 13).
    { rewrite (sameU_isLast _ _ Hs), (sameU_spanEnd _ _ Hs).
      assert (Hw : pos + (if (pos + 1 <? spanEnd st) && (at_ (isrc st) (pos + 1) =? 10) then 2 else 1) <= spanEnd st /\
                   1 <= (if (pos + 1 <? spanEnd st) && (at_ (isrc st) (pos + 1) =? 10) then 2 else 1)).
      { destruct (Z.ltb_spec (pos + 1) (spanEnd st)); cbn [andb]; [destruct (_ =? 10)|]; lia. }
      destruct Hw as [Hw1 Hw2].
      destruct (negb (isLastSpan st)).
      - apply Post_node; [exact HP|lia|lia|cbn; lia|reflexivity].
      - apply (Post_same st _ pos); try assumption; lia. }
    apply (Post_keep st pos pl); [exact HP|lia].
  Qed.

  (* ---- the loops ---- *)
  Definition Fin (st : ist) (pl : Z) : Prop := exists le, TI st le /\ le <= pl /\ pl <= spanEnd st /\ 0 <= upos st.

  Lemma iloop_ok : forall fuel st pos pl, Post st pos pl -> let '(st', pl') := iloop fuel st pos pl in Fin st' pl'.
  Proof.
    induction fuel as [|f IH]; intros st pos pl HP; cbn [iloop].
    - destruct HP as [(le & HT & A & B & C & D) _]. exists le. tauto.
    - pose proof HP as [(le & HT & A & B & C & D) HI].
      rewrite (ti_unp _ _ HT).
      destruct (Z.ltb_spec (upos st) (len U)) as [L1|L1]; cbn [andb]; [|exists le; tauto].
      destruct (Z.ltb_spec pos (spanEnd st)) as [L2|L2]; [|exists le; tauto].
      assert (HPre : Pre st pos pl).
      { exists le. split; [exact HT|]. split; [exact A|]. split; [exact B|]. split; [exact L2|]. split; [lia|]. apply HI. exact L1. }
      pose proof (istep_ok st pos pl HPre) as H. destruct (istep st pos pl) as [[st' pos'] pl']. apply IH. exact H.
  Qed.

  Lemma TI_copy st le u : TI st le -> le <= istart u -> iend u <= hi -> okN (ofInline u) -> TI (setRk st (rk st ++ [ofInline u])) (iend u).
  Proof.
    intros [A (B1 & B2 & B3) C D E F G] H1 H2 H3. constructor; cbn [rk stk unp isrc rootEnd setRk]; try assumption.
    - rewrite <- pe_ofInline. apply okF_snoc with (le := le); [exact A|rewrite ps_ofInline; exact H1|exact H3].
    - unfold IdsOK. cbn [rk nid setRk]. rewrite pidsF_app. cbn [pidsF flat_map]. rewrite pidsN_ofInline. cbn [app]. rewrite app_nil_r. tauto.
    - apply subIds_appr. exact C.
  Qed.

  Definition OI (st : ist) : Prop := exists le, TI st le /\ 0 <= upos st /\ (upos st < len U -> le <= istart (nthU (upos st))).

  Lemma outer_ok : forall fuel st, OI st -> exists le, TI (outer fuel st) le.
  Proof.
    induction fuel as [|f IH]; intros st (le & HT & H0 & Hle); cbn [outer]; [exists le; exact HT|].
    rewrite (ti_unp _ _ HT).
    destruct (Z.leb_spec (len U) (upos st)) as [L|L]; [exists le; exact HT|].
    specialize (Hle L). destruct (entry_bounds (upos st) ltac:(lia)) as (B1 & B2 & B3 & B4).
    fold (nthU (upos st)). set (u := nthU (upos st)) in *.
    assert (Hnext : forall st1 le1, TI st1 le1 -> upos st1 = upos st -> le1 <= iend u -> OI (setUpos st1 (upos st1 + 1))).
    { intros st1 le1 T1 E1 H1. exists le1. split; [apply TI_setUpos, T1|]. cbn [upos setUpos]. split; [lia|]. intros L2.
      rewrite E1 in *. pose proof (entry_order (upos st) (upos st + 1) H0 ltac:(lia) L2) as Ho. fold u in Ho. lia. }
    apply IH.
    destruct (ikind u =? 0); [apply (Hnext _ le); [apply TI_setIgn, HT|reflexivity|lia]|].
    destruct (ikind u =? IndentKind).
    { destruct (negb (ign st)); [apply (Hnext _ (iend u)); [apply (TI_copy st le); assumption|reflexivity|lia]|apply (Hnext _ le); [exact HT|reflexivity|lia]]. }
    destruct (ikind u =? UnparsedKind).
    { assert (Hse : spanEnd st = iend u) by (apply spanEnd_in; [exact (ti_unp _ _ HT)|lia]).
      change (isrc (setIgn st false)) with (isrc st).
      set (pos0 := if ign st then skipSpTab (length (isrc st)) (isrc st) (istart u) (spanEnd st) else istart u).
      assert (Hp0 : istart u <= pos0 <= spanEnd st).
      { unfold pos0. destruct (ign st); [|lia]. destruct (skipSpTab_bounds (length (isrc st)) (isrc st) (istart u) (spanEnd st)) as [X1 X2]. specialize (X2 ltac:(lia)). lia. }
      assert (HPost : Post (setIgn st false) pos0 pos0).
      { split.
        - exists le. split; [apply TI_setIgn, HT|]. change (spanEnd (setIgn st false)) with (spanEnd st). cbn [upos setIgn]. lia.
        - unfold IS. cbn [upos setIgn]. intros _. fold u. lia. }
      pose proof (iloop_ok (S (length (isrc st))) (setIgn st false) pos0 pos0 HPost) as H.
      destruct (iloop (S (length (isrc st))) (setIgn st false) pos0 pos0) as [st' pl']. destruct H as (le' & T' & A' & B' & C').
      pose proof (spanEnd_le st' (ti_unp _ _ T') (U_nonempty st ltac:(lia)) C') as Hb.
      pose proof (TI_addText st' le' pl' (spanEnd st') T' A' B' ltac:(lia)) as T2.
      exists (spanEnd st'). split; [apply TI_setUpos, T2|].
      pose proof (sameU_addText st' pl' (spanEnd st')) as (_ & Eu & _). cbn [upos setUpos]. rewrite Eu. split; [lia|]. intros L2.
      rewrite (spanEnd_in st' (ti_unp _ _ T') ltac:(lia)). apply entry_order; lia. }
    apply (Hnext _ (iend u)); [apply (TI_copy (setIgn st false) le); [apply TI_setIgn, HT|assumption|assumption|assumption]|reflexivity|lia].
  Qed.

  Theorem parseInlines_okF m rootE : rootE = re ->
    let st0 := {| rk := []; isrc := src; unp := U; upos := 0; stk := []; ign := false; nid := 1; rootEnd := rootE; matcher := m |} in
    okF lo hi (rk (processEmphasis (outer (S (length U)) st0) 0)).
  Proof.
    intros -> st0.
    assert (H0 : OI st0).
    { exists lo. split.
      - constructor; cbn [rk stk unp isrc rootEnd st0]; try reflexivity; try exact I; try apply lo_le_hi.
        + cbn. lia.
        + unfold IdsOK. cbn [rk nid st0 pidsF flat_map]. split; [constructor|]. split; [constructor|lia].
      - cbn [upos st0]. split; [lia|]. intros L. apply (entry_bounds 0). lia. }
    destruct (outer_ok (S (length U)) st0 H0) as (le & HT).
    destruct (processEmphasis_spans_partial (outer (S (length U)) st0) lo le (conj (ti_ids _ _ HT) (ti_stk _ _ HT)) (ti_ok _ _ HT)) as (Hok & _).
    eapply okF_weaken; [exact Hok|lia|exact (ti_le _ _ HT)].
  Qed.
End Tok.
