From Coq Require Import List ZArith Lia Bool.
Import ListNotations.
Require Import Base Tree Driver Props Rec17 Rec18 L2Kind L2CC LADef LA1 LA2.
Open Scope Z_scope.

(* ===== from the invariant to the statement: the leaves of a closed block tile its span ===== *)

Lemma tileS_cat src a b c l1 l2 : tileS src a b l1 -> tileS src b c l2 -> tileS src a c (l1 ++ l2).
Proof.
  intros H1 H2. apply tileS_app. destruct (tileS_end _ _ _ _ H1) as [E1 E2]. split.
  - eapply tileS_hi; [exact H1|lia|apply NT_empty; lia].
  - eapply tileS_lo; eassumption.
Qed.

Lemma entryLeaves_eq b : entryLeaves b =
  if isLeafK (bkind b) then map ispan (bik b)
  else if bkind b =? ListMarkerKind then [(bstart b, bend b)]
  else if bkind b =? LinkReferenceDefinitionKind then defSpans (bik b)
  else flat_map entryLeaves (bkids b).
Proof. destruct b; reflexivity. Qed.

Lemma la_leaves src M : forall b, cc b = true -> 0 <= bend b -> la src M b -> tileS src (bstart b) (bend b) (entryLeaves b).
Proof.
  fix IH 1. intros [K s e bk ik a n c l lb] Hcc He. cbn [bend] in He. cbn [la bstart bend]. intros (A & B & S4 & C & D).
  assert (E : (e <? 0) = false) by (apply Z.ltb_ge; exact He). rewrite E in C.
  rewrite entryLeaves_eq. cbn [bkind bik bstart bend bkids].
  destruct (isLeafK K); [apply C|]. destruct (K =? ListMarkerKind) eqn:EL.
  { cbn [tileS fst snd]. split; [lia|]. split; [apply NT_empty; lia|]. split; [lia|]. split; [lia|apply NT_empty; lia]. }
  destruct (K =? LinkReferenceDefinitionKind); [apply C|]. destruct C as [C _].
  apply cc_parts in Hcc. destruct Hcc as [_ Hcc]. cbn [bkids] in Hcc. unfold ccL in Hcc.
  clear A B S4. revert s C. induction bk as [|x r IHr]; intros s C; cbn [tchain flat_map] in *; [exact C|].
  destruct C as (C1 & C2 & C3). destruct D as [D1 D2]. cbn [forallb] in Hcc. apply andb_true_iff in Hcc. destruct Hcc as [Hx Hr].
  destruct (Z.ltb_spec (bend x) 0) as [L|L]; [destruct C3; discriminate|]. destruct C3 as [C3 C4].
  eapply tileS_cat; [|apply (IHr Hr D2 (bend x) C4)].
  eapply tileS_lo; [apply (IH x Hx L D1)|exact C1|exact C2].
Qed.

(* ---- a tiling is pairwise disjoint, and covers exactly once every byte that must be covered ---- *)
Lemma tileS_disj src lo hi l : tileS src lo hi l -> disjFrom lo l.
Proof. revert lo. induction l as [|se r IH]; intros lo H; [exact I|]. destruct H as (A & _ & B & C). split; [exact A|split; [exact B|apply IH, C]]. Qed.

Definition inb (se : Z * Z) (p : Z) : bool := (fst se <=? p) && (p <? snd se).
Lemma cover_acc ls p : forall a, fold_left (fun a se => if (fst se <=? p) && (p <? snd se) then a + 1 else a) ls a =
  a + fold_left (fun a se => if (fst se <=? p) && (p <? snd se) then a + 1 else a) ls 0.
Proof.
  induction ls as [|se r IH]; intros a; cbn [fold_left]; [lia|].
  destruct ((fst se <=? p) && (p <? snd se)); [rewrite (IH (a + 1)), (IH (0 + 1))|rewrite (IH a), (IH 0)]; lia.
Qed.
Lemma cover_cons se r p : cover (se :: r) p = (if inb se p then 1 else 0) + cover r p.
Proof. unfold cover, inb. cbn [fold_left]. rewrite cover_acc. destruct ((fst se <=? p) && (p <? snd se)); reflexivity. Qed.
Lemma cover_nil p : cover [] p = 0. Proof. reflexivity. Qed.

Lemma tileS_cover src : forall l lo hi, tileS src lo hi l ->
  forall p, (p < lo -> cover l p = 0) /\ (hi <= p -> cover l p = 0) /\ (0 <= cover l p <= 1) /\
            (lo <= p < hi -> tx (at_ src p) = true -> cover l p = 1).
Proof.
  induction l as [|se r IH]; intros lo hi H p; cbn [tileS] in H.
  - rewrite cover_nil. split; [reflexivity|]. split; [reflexivity|]. split; [lia|]. intros Hp Ht. destruct H as [_ H]. rewrite (H p Hp) in Ht. discriminate.
  - destruct H as (A & B & C & D). pose proof (tileS_le _ _ _ _ D) as Hle. destruct (IH _ _ D p) as (I1 & I2 & I3 & I4).
    rewrite cover_cons. unfold inb. destruct (Z.leb_spec (fst se) p) as [L1|L1]; destruct (Z.ltb_spec p (snd se)) as [L2|L2]; cbn [andb].
    + rewrite I1 by lia. split; [lia|]. split; [lia|]. split; [lia|]. intros; lia.
    + split; [lia|]. split; [intros; rewrite I2 by lia; lia|]. split; [lia|]. intros Hp Ht. rewrite I4; [lia|lia|exact Ht].
    + rewrite I1 by lia. split; [lia|]. split; [lia|]. split; [lia|]. intros Hp Ht. rewrite (B p ltac:(lia)) in Ht. discriminate.
    + lia.
Qed.
