(* T66 (1): the first definition found by onCloseParagraph depends only on the entries before its end.
   Two runs of the reader over the same source Q: r with spans sp (all ending at or before E), r' with spans sp ++ X (the entries
   of X start at or after E).  They agree as long as the position is before E (relation PR); they part when `next` leaves the
   last span of sp: r is exhausted, r' goes on in X.  The last span of sp ends with its line ending at E - 1, so this happens
   only when a line ending is consumed, i.e. in readEOL. *)
From Coq Require Import List ZArith Lia Bool.
Import ListNotations.
Require Import Base Tree Rdr Link Collect LP ShapesBase ShapesR IFBase IFLink IFCollect LADef LARpce QRdrOcp ReparseOcpLocal.
Open Scope Z_scope.

Lemma skipn_app_cons {A} : forall n (l Y : list A) a t, skipn n l = a :: t -> skipn n (l ++ Y) = (a :: t) ++ Y.
Proof.
  induction n as [|n IH]; intros l Y a t H; [cbn in *; subst; reflexivity|]. destruct l as [|x l]; [discriminate|]. cbn [skipn app] in *. apply IH, H.
Qed.
Lemma nextSpan_app : forall a b, nextSpan (a ++ b) = match nextSpan a with Some (i, sp) => Some (i, sp ++ b) | None => nextSpan b end.
Proof.
  induction a as [|x a IH]; intros b; [reflexivity|]. cbn [app nextSpan]. destruct (_ || _ || _); [reflexivity|apply IH].
Qed.

Lemma ocp_loop_pre : forall n F src o orph r res, exists tl, ocp_loop n F src o orph r res = res ++ tl.
Proof.
  induction n as [|n IH]; intros F src o orph r res; cbn [ocp_loop]; [eexists; reflexivity|].
  repeat match goal with
         | |- exists tl, (let '(_, _) := ?x in _) = _ => destruct x
         | |- exists tl, (if ?c then _ else _) = _ => destruct c
         | |- exists tl, match ?oo with Some _ => _ | None => _ end = _ => destruct oo
         end;
  first [ eexists; reflexivity
        | eexists; rewrite <- !app_assoc; reflexivity
        | match goal with |- exists tl, ocp_loop n ?F0 ?s0 ?o0 ?or0 ?r0 ?a0 = _ => destruct (IH F0 s0 o0 or0 r0 a0) as [t Ht]; rewrite Ht; eexists; rewrite <- !app_assoc; reflexivity end ].
Qed.

Ltac fld := cbn [r_src r_pos r_vpos r_prev r_spans]; try reflexivity; try assumption; try congruence.

Section PF.
  Variables (Q : bytes) (E : Z) (X : list inline).
  Hypothesis HE : 0 <= E < len Q.
  Hypothesis HN : forall i, 0 <= i < len Q -> at_ Q i <> 0.
  Hypothesis HX : Forall (fun u => E <= istart u) X.

  Definition gp (u : inline) : Prop :=
    0 <= istart u /\ istart u < iend u /\ iend u <= E /\ (ikind u = UnparsedKind \/ ikind u = IndentKind).
  Definition lastOK (sp : list inline) : Prop :=
    forall pre n, sp = pre ++ [n] -> ikind n = UnparsedKind /\ iend n = E /\ isEOLz (at_ Q (E - 1)) = true.
  Definition GSp (sp : list inline) : Prop := Forall gp sp /\ lastOK sp.
  Definition PR (r r' : reader) : Prop :=
    r_src r = Q /\ r_src r' = Q /\ r_pos r' = r_pos r /\ r_vpos r' = r_vpos r /\ r_prev r' = r_prev r /\
    (exists Y, (Y = X \/ Y = []) /\ r_spans r' = r_spans r ++ Y) /\ GSp (r_spans r) /\ spW Q (r_spans r') = true.

  Lemma GSp_nil : GSp []. Proof. split; [constructor|]. intros pre n H. destruct pre; discriminate. Qed.
  Lemma GSp_app_r pre l : GSp (pre ++ l) -> GSp l.
  Proof. intros [A B]. split; [apply Forall_app in A; apply A|]. intros p n H. apply (B (pre ++ p) n). rewrite H, app_assoc. reflexivity. Qed.
  Lemma GSp_skipn n l : GSp l -> GSp (skipn n l).
  Proof. intros H. rewrite <- (firstn_skipn n l) in H. apply GSp_app_r in H. exact H. Qed.
  Lemma PR_PL r r' : PR r r' -> PL Q r'. Proof. intros (_ & B & _ & _ & _ & _ & _ & W). split; assumption. Qed.

  Lemma nodeIdx_app : forall sp Y pos k, Forall gp sp -> Forall (fun u => E <= istart u) Y -> pos < E -> nodeIdx (sp ++ Y) pos k = nodeIdx sp pos k.
  Proof.
    induction sp as [|i r IH]; intros Y pos k G HY L.
    - cbn [app nodeIdx]. destruct Y as [|y Y']; [reflexivity|]. cbn [nodeIdx]. pose proof (Forall_inv HY) as Hy. cbv beta in Hy.
      destruct (Z.ltb_spec pos (istart y)); [reflexivity|lia].
    - cbn [app nodeIdx]. destruct (pos <? istart i); [reflexivity|]. destruct (spanHas i pos); [reflexivity|]. apply IH; [apply (Forall_inv_tail G)|exact HY|exact L].
  Qed.
  Lemma Yok Y : Y = X \/ Y = [] -> Forall (fun u => E <= istart u) Y.
  Proof. intros [->| ->]; [exact HX|constructor]. Qed.

  (* ---------------- curNode, current ---------------- *)
  Lemma PR_curNode r r' : PR r r' -> r_pos r < E -> fst (curNode r') = fst (curNode r) /\ PR (snd (curNode r)) (snd (curNode r')).
  Proof.
    intros (A & B & P & V & Pv & (Y & HY & Sp) & G & W) L. unfold curNode. cbv zeta. unfold nodeIndexForPosition.
    rewrite Sp, P, (nodeIdx_app _ Y _ 0 (proj1 G) (Yok Y HY) L).
    destruct (nodeIdx_split (r_spans r) (r_pos r) 0 ltac:(lia)) as [H|(H1 & pre & n & rest & E1 & E2 & E3)].
    - destruct (Z.ltb_spec (nodeIdx (r_spans r) (r_pos r) 0) 0); [|lia]. cbn [fst snd]. split; [reflexivity|].
      split; [exact A|]. split; [exact B|]. split; [fld|]. split; [fld|]. split; [fld|]. cbn [r_spans].
      split; [exists []; split; [right; reflexivity|reflexivity]|]. split; [apply GSp_nil|reflexivity].
    - destruct (Z.ltb_spec (nodeIdx (r_spans r) (r_pos r) 0) 0); [lia|]. cbn [fst snd]. unfold from_.
      replace (nodeIdx (r_spans r) (r_pos r) 0 - 0) with (nodeIdx (r_spans r) (r_pos r) 0) in E2 by lia.
      rewrite (skipn_app_cons _ _ Y n rest E2), E2. split; [reflexivity|].
      split; [exact A|]. split; [exact B|]. split; [fld|]. split; [fld|]. split; [fld|]. cbn [r_spans].
      split; [exists Y; split; [exact HY|reflexivity]|]. split; [rewrite <- E2; apply GSp_skipn, G|].
      rewrite <- (skipn_app_cons _ _ Y n rest E2), <- Sp. apply spW_skipn, W.
  Qed.
  Lemma PR_current r r' : PR r r' -> r_pos r < E ->
    fst (current r') = fst (current r) /\ PR (snd (current r)) (snd (current r')) /\ r_pos (snd (current r)) = r_pos r.
  Proof.
    intros H L. pose proof H as (A & B & P & V & Pv & _). destruct (PR_curNode r r' H L) as [E1 E2].
    pose proof (current_fields r) as F. cbv zeta in F. split; [|split; [|apply F]].
    - unfold current. rewrite A, B, P, V. destruct (len Q <=? r_pos r); [reflexivity|].
      destruct (curNode r) as [n r1]. destruct (curNode r') as [n' r1']. cbn [fst snd] in *. subst n'.
      destruct (okind n =? IndentKind); [reflexivity|]. destruct (_ =? 0); reflexivity.
    - unfold current. rewrite A, B, P. destruct (Z.leb_spec (len Q) (r_pos r)); [lia|].
      destruct (curNode r) as [n r1]. destruct (curNode r') as [n' r1']. cbn [fst snd] in *. subst n'.
      destruct (okind n =? IndentKind); [exact E2|]. rewrite V. destruct (_ =? 0); exact E2.
  Qed.

  (* ---------------- next: same, or the crossing ---------------- *)
  Definition Cross (r r' : reader) : Prop :=
    fst (next r') = true /\ E <= r_pos (snd (next r')) /\ fst (next r) = false /\ r_spans (snd (next r)) = [] /\ r_src (snd (next r)) = Q /\
    r_pos (snd (next r)) = E /\ r_pos r = E - 1 /\ r_prev (snd (next r)) = E - 1 /\ r_prev (snd (next r')) = E - 1 /\ isEOLz (fst (current r)) = true.
  Lemma nextSpan_readable i l : ikind i = UnparsedKind \/ ikind i = IndentKind -> nextSpan (i :: l) = Some (i, i :: l).
  Proof. intros [K|K]; cbn [nextSpan]; rewrite K; reflexivity. Qed.

  Lemma PR_next r r' : PR r r' -> r_pos r < E ->
    (fst (next r') = fst (next r) /\ PR (snd (next r)) (snd (next r'))) \/ Cross r r'.
  Proof.
    intros H L. destruct (PR_curNode r r' H L) as [E1 E2]. pose proof H as (A & B & P & V & Pv & _).
    destruct (curNode_cases r) as [Ec|(pre & n & rest & Es & Ec & Eh)].
    - left. unfold next. rewrite Ec in *. destruct (curNode r') as [n' r1']. cbn [fst snd] in *. subst n'. split; [reflexivity|exact E2].
    - pose proof (spanHas_range _ _ Eh) as (R1 & R2 & R3).
      assert (Ecur : fst (current r) = if ikind n =? IndentKind then 32 else at_ Q (r_pos r)).
      { unfold current. rewrite A. destruct (Z.leb_spec (len Q) (r_pos r)); [lia|]. rewrite Ec. cbn [okind]. destruct (ikind n =? IndentKind); [reflexivity|].
        destruct (Z.eqb_spec (at_ Q (r_pos r)) 0) as [E0|_]; [exfalso; apply (HN (r_pos r)); [lia|exact E0]|reflexivity]. }
      unfold Cross. unfold next. rewrite Ec in *. destruct (curNode r') as [n' r1'] eqn:Ec'. cbn [fst snd] in E1, E2. subst n'.
      destruct E2 as (A1 & B1 & P1 & V1 & Pv1 & (Y & HY & Sp1) & G1 & W1). cbn [withSpans r_src r_pos r_vpos r_prev r_spans] in *.
      destruct r1' as [s' sp' p' v' pv']. cbn [r_src r_pos r_vpos r_prev r_spans] in *. subst s' sp' p' v' pv'. rewrite A.
      assert (Gn : gp n) by (apply (Forall_inv (proj1 G1))). destruct Gn as (C1 & C2 & C3 & C4).
      destruct ((ikind n =? IndentKind) && (r_vpos r <? iindent n)) eqn:Eb1.
      { left. cbn [fst snd]. split; [reflexivity|]. split; [reflexivity|]. split; [reflexivity|]. split; [reflexivity|]. split; [reflexivity|]. split; [reflexivity|].
        cbn [r_spans]. split; [exists Y; split; [exact HY|reflexivity]|]. split; [exact G1|exact W1]. }
      destruct (negb (ikind n =? IndentKind) && (r_pos r + 1 <? iend n)) eqn:Eb2.
      { left. cbn [fst snd]. split; [reflexivity|]. split; [reflexivity|]. split; [reflexivity|]. split; [reflexivity|]. split; [reflexivity|]. split; [reflexivity|].
        cbn [r_spans]. split; [exists Y; split; [exact HY|reflexivity]|]. split; [exact G1|exact W1]. }
      cbn [tl app]. rewrite nextSpan_app. destruct rest as [|i rest2].
      + cbn [nextSpan]. destruct (nextSpan Y) as [[i sp]|] eqn:EnY.
        * right. cbn [fst snd r_spans r_src r_pos r_prev].
          destruct (proj2 G1 [] n eq_refl) as (K1 & K2 & K3).
          assert (Ki : (ikind n =? IndentKind) = false) by (rewrite K1; reflexivity). rewrite Ki in Eb2. cbn [negb andb] in Eb2. apply Z.ltb_ge in Eb2.
          destruct (nextSpan_split _ _ _ EnY) as (pre' & rest' & Y1 & _).
          assert (Hi : E <= istart i). { pose proof (Yok Y HY) as F. rewrite Y1 in F. apply Forall_app in F. destruct F as [_ F]. apply (Forall_inv F). }
          assert (Ep : r_pos r = E - 1) by lia.
          repeat split; try reflexivity; try lia. rewrite Ecur, Ki, Ep. exact K3.
        * left. cbn [fst snd]. split; [reflexivity|]. split; [reflexivity|]. split; [reflexivity|]. split; [reflexivity|]. split; [reflexivity|]. split; [reflexivity|].
          cbn [r_spans]. split; [exists []; split; [right; reflexivity|reflexivity]|]. split; [apply GSp_nil|reflexivity].
      + assert (Gi : gp i) by (apply (Forall_inv (Forall_inv_tail (proj1 G1)))). destruct Gi as (D1 & D2 & D3 & D4).
        rewrite (nextSpan_readable i rest2 D4). left. cbn [fst snd]. split; [reflexivity|]. split; [reflexivity|]. split; [reflexivity|]. split; [reflexivity|]. split; [reflexivity|]. split; [reflexivity|].
        cbn [r_spans]. split; [exists Y; split; [exact HY|reflexivity]|]. split; [apply (GSp_app_r [n]), G1|]. apply (spW_app_r Q [n]). exact W1.
  Qed.
  Lemma PR_next_lt r r' : PR r r' -> r_pos r < E -> (r_pos (snd (next r')) < E \/ fst (next r') = false) ->
    fst (next r') = fst (next r) /\ PR (snd (next r)) (snd (next r')).
  Proof. intros H L Hc. destruct (PR_next r r' H L) as [X0|(C1 & C2 & _)]; [exact X0|]. destruct Hc as [Hc|Hc]; [lia|congruence]. Qed.

  (* ---------------- stepping ---------------- *)
  Lemma cstep r r' : PR r r' -> r_pos r < E ->
    exists c r1 r1', current r = (c, r1) /\ current r' = (c, r1') /\ PR r1 r1' /\ r_pos r1 = r_pos r /\ r_pos r1' = r_pos r.
  Proof.
    intros H L. destruct (PR_current r r' H L) as (E1 & E2 & E3). destruct (current r) as [c r1]. destruct (current r') as [c' r1']. cbn [fst snd] in *. subst c'.
    exists c, r1, r1'. split; [reflexivity|]. split; [reflexivity|]. split; [exact E2|]. split; [exact E3|]. destruct E2 as (_ & _ & P & _). lia.
  Qed.
  Lemma PL_next r : PL Q r -> PL Q (snd (next r)). Proof. intros H. apply (next_W Q r H). Qed.
  Lemma PL_current r : PL Q r -> PL Q (snd (current r)). Proof. intros H. apply (cur_facts Q r H). Qed.
  Lemma PR_pos r r' : PR r r' -> r_pos r' = r_pos r. Proof. intros (_ & _ & P & _). exact P. Qed.

  (* position never decreases (on the side of r') *)
  Lemma ge_next r : PL Q r -> r_pos r <= r_pos (snd (next r)). Proof. intros H. apply (next_W Q r H). Qed.
  Lemma ge_sls_loop f r : PL Q r -> r_pos r <= r_pos (snd (skipLinkSpace_loop f r)). Proof. intros H. apply (sls_loop_prog Q f r H). Qed.
  Lemma ge_sls f r : PL Q r -> r_pos r <= r_pos (snd (skipLinkSpace f r)). Proof. intros H. apply (skipLinkSpace_prog Q f r H). Qed.
  Lemma ge_sst f r : PL Q r -> r_pos r <= r_pos (snd (skipSpacesAndTabs f r)). Proof. intros H. apply (sst_prog Q f r H). Qed.
  Lemma ge_readEOL f r : PL Q r -> r_pos r <= r_pos (snd (readEOL f r)). Proof. intros H. apply (readEOL_prog Q f r H). Qed.
  Lemma ge_ld_angle f r st : PL Q r -> r_pos r <= r_pos (snd (ld_angle f r st)). Proof. intros H. apply (ld_angle_prog Q f r st H). Qed.
  Lemma ge_ld_bare f r pn : PL Q r -> r_pos r <= r_pos (ld_bare f r pn). Proof. intros H. apply (ld_bare_prog Q f r pn H). Qed.
  Lemma ge_lt_loop f r st tm : PL Q r -> r_pos r <= r_pos (snd (lt_loop f r st tm)). Proof. intros H. apply (lt_loop_prog Q f r st tm H). Qed.
  Lemma ge_label f r : PL Q r -> r_pos r <= r_pos (snd (parseLinkLabel f r)). Proof. intros H. apply (parseLinkLabel_prog Q f r H). Qed.
  Lemma ge_dest f r : PL Q r -> r_pos r <= r_pos (snd (parseLinkDestination f r)). Proof. intros H. apply (parseLinkDestination_prog Q f r H). Qed.
  Lemma ge_title f r : PL Q r -> r_pos r <= r_pos (snd (parseLinkTitle f r)). Proof. intros H. apply (parseLinkTitle_prog Q f r H). Qed.

  Definition Same {X0} (a b : X0 * reader) : Prop := fst a = fst b /\ PR (snd a) (snd b).

  (* one `next` inside a loop: same (and then the loop goes on from related readers, or the position has reached E), or crossed *)
  Lemma nfw r r' : PR r r' -> r_pos r < E ->
    (fst (next r') = fst (next r) /\ PR (snd (next r)) (snd (next r'))) \/ (fst (next r') = true /\ E <= r_pos (snd (next r'))).
  Proof. intros H L. destruct (PR_next r r' H L) as [X0|(C1 & C2 & _)]; [left; exact X0|right; split; assumption]. Qed.

  Lemma sls_loop_fw : forall f r r', PR r r' -> r_pos r < E ->
    Same (skipLinkSpace_loop f r) (skipLinkSpace_loop f r') \/ E <= r_pos (snd (skipLinkSpace_loop f r')).
  Proof.
    induction f as [|f IH]; intros r r' H L; cbn [skipLinkSpace_loop]; [left; split; [reflexivity|exact H]|].
    destruct (cstep r r' H L) as (c & r1 & r1' & Ec & Ec' & H1 & P1 & P1'). rewrite Ec, Ec'.
    destruct (isSpaceTabOrLineEnding c); [|left; split; [reflexivity|exact H1]].
    pose proof (PL_next r1' (PR_PL _ _ H1)) as PLn.
    destruct (nfw r1 r1' H1 ltac:(lia)) as [[En Hn]|[C1 C2]]; destruct (next r1) as [ok r2]; destruct (next r1') as [ok' r2']; cbn [fst snd] in *.
    - subst ok'. destruct ok; [|left; split; [reflexivity|exact Hn]].
      destruct (Z_lt_ge_dec (r_pos r2) E) as [L2|G2]; [apply IH; assumption|]. right. pose proof (ge_sls_loop f r2' PLn). rewrite (PR_pos _ _ Hn) in *. lia.
    - subst ok'. right. pose proof (ge_sls_loop f r2' PLn). lia.
  Qed.
  Lemma sls_fw f r r' : PR r r' -> r_pos r < E -> Same (skipLinkSpace f r) (skipLinkSpace f r') \/ E <= r_pos (snd (skipLinkSpace f r')).
  Proof.
    intros H L. unfold skipLinkSpace. destruct (cstep r r' H L) as (c & r1 & r1' & Ec & Ec' & H1 & P1 & P1'). rewrite Ec, Ec'.
    destruct (c =? 0); [left; split; [reflexivity|exact H1]|]. apply sls_loop_fw; [exact H1|lia].
  Qed.
  Lemma sst_fw : forall f r r', PR r r' -> r_pos r < E ->
    Same (skipSpacesAndTabs f r) (skipSpacesAndTabs f r') \/ E <= r_pos (snd (skipSpacesAndTabs f r')).
  Proof.
    induction f as [|f IH]; intros r r' H L; cbn [skipSpacesAndTabs]; [left; split; [reflexivity|exact H]|].
    destruct (cstep r r' H L) as (c & r1 & r1' & Ec & Ec' & H1 & P1 & P1'). rewrite Ec, Ec'.
    destruct (isSpTab c); [|left; split; [reflexivity|exact H1]].
    pose proof (PL_next r1' (PR_PL _ _ H1)) as PLn.
    destruct (nfw r1 r1' H1 ltac:(lia)) as [[En Hn]|[C1 C2]]; destruct (next r1) as [ok r2]; destruct (next r1') as [ok' r2']; cbn [fst snd] in *.
    - subst ok'. destruct ok; [|left; split; [reflexivity|exact Hn]].
      destruct (Z_lt_ge_dec (r_pos r2) E) as [L2|G2]; [apply IH; assumption|]. right. pose proof (ge_sst f r2' PLn). rewrite (PR_pos _ _ Hn) in *. lia.
    - subst ok'. right. pose proof (ge_sst f r2' PLn). lia.
  Qed.

  (* ---------------- parseLinkLabel ---------------- *)
  Definition SameO (a b : option (reader * Z)) : Prop :=
    match a, b with None, None => True | Some (x, c), Some (x', c') => c = c' /\ PR x x' | _, _ => False end.
  Definition CrossO (b : option (reader * Z)) : Prop := match b with Some (x', _) => E <= r_pos x' | None => True end.
  Lemma ge_ll_skip f r ch : PL Q r -> match ll_skip f r ch with Some (x, _) => r_pos r <= r_pos x | None => True end.
  Proof. intros H. destruct (ll_skip f r ch) as [[x c]|] eqn:Es; [|exact Logic.I]. apply (ll_skip_prog Q f r ch x c H Es). Qed.
  Lemma ge_ll_body f r ch ie : PL Q r -> match ll_body f r ch ie with Some (x, _) => r_pos r <= r_pos x | None => True end.
  Proof. intros H. destruct (ll_body f r ch ie) as [[x c]|] eqn:Es; [|exact Logic.I]. apply (ll_body_prog Q f r ch ie x c H Es). Qed.
  Lemma CrossO_ge_skip f r ch : PL Q r -> E <= r_pos r -> CrossO (ll_skip f r ch).
  Proof. intros H G. pose proof (ge_ll_skip f r ch H) as X0. unfold CrossO. destruct (ll_skip f r ch) as [[x c]|]; [lia|exact Logic.I]. Qed.
  Lemma CrossO_ge_body f r ch ie : PL Q r -> E <= r_pos r -> CrossO (ll_body f r ch ie).
  Proof. intros H G. pose proof (ge_ll_body f r ch ie H) as X0. unfold CrossO. destruct (ll_body f r ch ie) as [[x c]|]; [lia|exact Logic.I]. Qed.

  Lemma ll_skip_cross f r' chars : PL Q r' -> E <= r_pos (snd (next r')) -> CrossO (ll_skip (S f) r' chars).
  Proof.
    intros H G. cbn [ll_skip]. cbv zeta. pose proof (PL_next r' H) as PLn. destruct (next r') as [ok r1']. cbn [snd] in *.
    destruct ok; cbn [negb]; [|exact Logic.I]. pose proof (PL_current r1' PLn) as PLc. pose proof (current_fields r1') as F. cbv zeta in F.
    destruct (current r1') as [c r2']. cbn [snd] in *. destruct (_ || _ || _); [exact Logic.I|]. destruct (negb _); [cbn; lia|].
    apply CrossO_ge_skip; [exact PLc|lia].
  Qed.
  Lemma ll_skip_fw : forall f r r' chars, PR r r' -> r_pos r < E -> SameO (ll_skip f r chars) (ll_skip f r' chars) \/ CrossO (ll_skip f r' chars).
  Proof.
    induction f as [|f IH]; intros r r' chars H L; [left; exact Logic.I|].
    destruct (nfw r r' H L) as [[En Hn]|[C1 C2]]; [|right; apply ll_skip_cross; [apply (PR_PL _ _ H)|exact C2]].
    destruct (Z_lt_ge_dec (r_pos (snd (next r))) E) as [L1|G1].
    - cbn [ll_skip]. cbv zeta. destruct (next r) as [ok r1]; destruct (next r') as [ok' r1']; cbn [fst snd] in *; subst ok'.
      destruct ok; cbn [negb]; [|left; exact Logic.I].
      destruct (cstep r1 r1' Hn L1) as (c & r2 & r2' & Ec & Ec' & H2 & P2 & P2'). rewrite Ec, Ec'.
      destruct ((maxChars <=? chars + 1) || (c =? 91) || (c =? 93)); [left; exact Logic.I|].
      destruct (negb (isSpaceTabOrLineEnding c)); [left; split; [reflexivity|exact H2]|]. apply IH; [exact H2|lia].
    - destruct (fst (next r)) eqn:Eo.
      + right. apply ll_skip_cross; [apply (PR_PL _ _ H)|]. rewrite (PR_pos _ _ Hn). lia.
      + left. cbn [ll_skip]. cbv zeta. destruct (next r) as [ok r1]; destruct (next r') as [ok' r1']; cbn [fst snd] in *; subst ok' ok. exact Logic.I.
  Qed.

  Lemma ll_body_fw : forall f r r' chars ie, PR r r' -> r_pos r < E ->
    SameO (ll_body f r chars ie) (ll_body f r' chars ie) \/ CrossO (ll_body f r' chars ie).
  Proof.
    induction f as [|f IH]; intros r r' chars ie H L; cbn [ll_body]; cbv zeta; [left; exact Logic.I|].
    destruct (cstep r r' H L) as (c & r1 & r1' & Ec & Ec' & H1 & P1 & P1'). rewrite Ec, Ec'.
    destruct (negb ((chars <? maxChars) && negb (c =? 91) && negb (c =? 93))); [left; split; [reflexivity|exact H1]|].
    rewrite P1, P1'. pose proof (PL_next r1' (PR_PL _ _ H1)) as PLn.
    destruct (c =? 92).
    - destruct (nfw r1 r1' H1 ltac:(lia)) as [[En Hn]|[C1 C2]]; destruct (next r1) as [ok r2]; destruct (next r1') as [ok' r2']; cbn [fst snd] in *; subst ok'.
      + destruct ok; cbn [negb]; [|left; exact Logic.I].
        destruct (Z_lt_ge_dec (r_pos r2) E) as [L2|G2].
        * destruct (cstep r2 r2' Hn L2) as (c2 & r3 & r3' & Ec2 & Ec2' & H3 & P3 & P3'). rewrite Ec2, Ec2'. rewrite P3, P3'.
          pose proof (PL_next r3' (PR_PL _ _ H3)) as PLn3.
          destruct (nfw r3 r3' H3 ltac:(lia)) as [[En3 Hn3]|[D1 D2]]; destruct (next r3) as [ok3 r4]; destruct (next r3') as [ok3' r4']; cbn [fst snd] in *; subst ok3'.
          -- destruct ok3; cbn [negb]; [|left; exact Logic.I].
             destruct (Z_lt_ge_dec (r_pos r4) E) as [L4|G4]; [apply IH; assumption|]. right. apply CrossO_ge_body; [exact PLn3|]. rewrite (PR_pos _ _ Hn3). lia.
          -- cbn [negb]. right. apply CrossO_ge_body; [exact PLn3|exact D2].
        * right. pose proof (PL_current r2' PLn) as PLc. pose proof (current_fields r2') as F. cbv zeta in F. destruct (current r2') as [c2 r3']. cbn [snd] in *.
          pose proof (PL_next r3' PLc) as PLn3. pose proof (ge_next r3' PLc) as Gn. destruct (next r3') as [ok3 r4']. cbn [snd] in *.
          destruct ok3; cbn [negb]; [|exact Logic.I]. apply CrossO_ge_body; [exact PLn3|]. rewrite (PR_pos _ _ Hn) in *. lia.
      + cbn [negb]. right. pose proof (PL_current r2' PLn) as PLc. pose proof (current_fields r2') as F. cbv zeta in F. destruct (current r2') as [c2 r3']. cbn [snd] in *.
        pose proof (PL_next r3' PLc) as PLn3. pose proof (ge_next r3' PLc) as Gn. destruct (next r3') as [ok3 r4']. cbn [snd] in *.
        destruct ok3; cbn [negb]; [|exact Logic.I]. apply CrossO_ge_body; [exact PLn3|]. lia.
    - destruct (nfw r1 r1' H1 ltac:(lia)) as [[En Hn]|[C1 C2]]; destruct (next r1) as [ok r2]; destruct (next r1') as [ok' r2']; cbn [fst snd] in *; subst ok'.
      + destruct ok; cbn [negb]; [|left; exact Logic.I].
        destruct (Z_lt_ge_dec (r_pos r2) E) as [L2|G2]; [apply IH; assumption|]. right. apply CrossO_ge_body; [exact PLn|]. rewrite (PR_pos _ _ Hn). lia.
      + cbn [negb]. right. apply CrossO_ge_body; [exact PLn|exact C2].
  Qed.

  Definition Alt3 (a b : (Z * Z) * (Z * Z) * reader) : Prop :=
    Same a b \/ E <= r_pos (snd b) \/ spanValid (fst (fst b)) = false.

  (* the end of parseLinkLabel once the body has been read, on the side of r' *)
  Definition labelEnd (start is0 : Z) (o : option (reader * Z)) (rn : reader) : (Z * Z) * (Z * Z) * reader :=
    match o with
    | None => (nullSpan, nullSpan, rn)
    | Some (r2, innerEnd) =>
      let '(c2, r3) := current r2 in
      if negb (c2 =? 93) then (nullSpan, nullSpan, r3) else
      let spanEnd := r_pos r3 + 1 in
      let '(_, r4) := next r3 in
      ((start, spanEnd), (is0, innerEnd), r4)
    end.
  Lemma labelEnd_ge start is0 o rn : (o = None -> E <= r_pos rn) -> (forall x c, o = Some (x, c) -> PL Q x /\ E <= r_pos x) -> E <= r_pos (snd (labelEnd start is0 o rn)).
  Proof.
    intros Gn Ho. unfold labelEnd. destruct o as [[r2 ie]|]; [|exact (Gn eq_refl)]. destruct (Ho r2 ie eq_refl) as [H2 G2].
    pose proof (PL_current r2 H2) as H3. pose proof (current_fields r2) as F. cbv zeta in F. destruct (current r2) as [c2 r3]. cbn [snd] in *.
    destruct (negb (c2 =? 93)); [cbn [snd]; lia|]. cbv zeta. pose proof (ge_next r3 H3) as G4. destruct (next r3) as [ok4 r4]. cbn [snd] in *. lia.
  Qed.
  Lemma parseLinkLabel_eq f r : parseLinkLabel f r =
    let '(c, r0) := current r in
    if negb (c =? 91) then (nullSpan, nullSpan, r0) else
    match ll_skip f r0 0 with
    | None => (nullSpan, nullSpan, r0)
    | Some (r1, chars) => labelEnd (r_pos r0) (r_pos r1) (ll_body f r1 chars (-1)) r1
    end.
  Proof.
    unfold parseLinkLabel, labelEnd. destruct (current r) as [c r0]. destruct (negb (c =? 91)); [reflexivity|]. cbv zeta.
    destruct (ll_skip f r0 0) as [[r1 chars]|]; [|reflexivity]. destruct (ll_body f r1 chars (-1)) as [[r2 ie]|]; reflexivity.
  Qed.

  Lemma parseLinkLabel_fw f r r' : PR r r' -> r_pos r < E -> Alt3 (parseLinkLabel f r) (parseLinkLabel f r').
  Proof.
    intros H L. rewrite !parseLinkLabel_eq. destruct (cstep r r' H L) as (c & r0 & r0' & Ec & Ec' & H0 & P0 & P0'). rewrite Ec, Ec'.
    destruct (negb (c =? 91)); [left; split; [reflexivity|exact H0]|]. rewrite P0, P0'.
    pose proof (ge_ll_skip f r0' 0 (PR_PL _ _ H0)) as Gs.
    assert (Hsk : forall x ch, ll_skip f r0' 0 = Some (x, ch) -> PL Q x) by (intros x ch Es; apply (ll_skip_prog Q f r0' 0 x ch (PR_PL _ _ H0) Es)).
    assert (Hbd : forall x ch y ie, PL Q x -> ll_body f x ch (-1) = Some (y, ie) -> PL Q y /\ r_pos x <= r_pos y).
    { intros x ch y ie Hx Eb. pose proof (ll_body_prog Q f x ch (-1) y ie Hx Eb) as (A1 & A2 & _). split; assumption. }
    destruct (ll_skip_fw f r0 r0' 0 H0 ltac:(lia)) as [Hs|Hs]; unfold SameO, CrossO in Hs;
      destruct (ll_skip f r0 0) as [[r1 ch]|]; destruct (ll_skip f r0' 0) as [[r1' ch']|]; try contradiction.
    - (* the skip agrees *)
      destruct Hs as [<- H1]. rewrite <- (PR_pos _ _ H1).
      destruct (Z_lt_ge_dec (r_pos r1) E) as [L1|G1].
      + destruct (ll_body_fw f r1 r1' ch (-1) H1 L1) as [Hb|Hb]; unfold SameO, CrossO in Hb;
          destruct (ll_body f r1 ch (-1)) as [[r2 ie]|] eqn:Eb; destruct (ll_body f r1' ch (-1)) as [[r2' ie']|] eqn:Eb'; try contradiction.
        * destruct Hb as [<- H2]. destruct (Z_lt_ge_dec (r_pos r2) E) as [L2|G2].
          -- unfold labelEnd. destruct (cstep r2 r2' H2 L2) as (c2 & r3 & r3' & Ec2 & Ec2' & H3 & P3 & P3'). rewrite Ec2, Ec2'.
             destruct (negb (c2 =? 93)); [left; split; [reflexivity|exact H3]|]. cbv zeta. rewrite P3, P3'.
             destruct (nfw r3 r3' H3 ltac:(lia)) as [[En Hn]|[C1 C2]]; destruct (next r3) as [ok4 r4]; destruct (next r3') as [ok4' r4']; cbn [fst snd] in *.
             ++ left. split; [rewrite (PR_pos _ _ H1); reflexivity|exact Hn].
             ++ right. left. exact C2.
          -- right. left. apply labelEnd_ge; [discriminate|].
             intros x c0 Ex. inversion Ex; subst. destruct (Hbd r1' ch x c0 (Hsk _ _ eq_refl) Eb'). split; [assumption|]. rewrite (PR_pos _ _ H2). lia.
        * left. split; [reflexivity|exact H1].
        * right. left. apply labelEnd_ge; [discriminate|].
          intros x c0 Ex. inversion Ex; subst. destruct (Hbd r1' ch x c0 (Hsk _ _ eq_refl) Eb'). split; assumption.
        * right. right. reflexivity.
        * right. left. apply labelEnd_ge; [discriminate|].
          intros x c0 Ex. inversion Ex; subst. destruct (Hbd r1' ch x c0 (Hsk _ _ eq_refl) Eb'). split; assumption.
        * right. right. reflexivity.
      + right. left. apply labelEnd_ge; [intros _; rewrite (PR_pos _ _ H1); lia|].
        intros x c0 Ex. destruct (Hbd r1' ch x c0 (Hsk _ _ eq_refl) Ex). split; [assumption|]. rewrite (PR_pos _ _ H1) in *. lia.
    - left. split; [reflexivity|exact H0].
    - right. left. apply labelEnd_ge; [intros _; exact Hs|]. intros x c0 Ex. destruct (Hbd r1' ch' x c0 (Hsk _ _ eq_refl) Ex). split; [assumption|lia].
    - right. right. reflexivity.
    - right. left. apply labelEnd_ge; [intros _; exact Hs|]. intros x c0 Ex. destruct (Hbd r1' ch' x c0 (Hsk _ _ eq_refl) Ex). split; [assumption|lia].
    - right. right. reflexivity.
  Qed.

  (* ---------------- parseLinkDestination ---------------- *)
  Lemma pos_current r : r_pos (snd (current r)) = r_pos r. Proof. pose proof (current_fields r) as F. cbv zeta in F. apply F. Qed.
  Lemma ld_angle_cross f r' st : PL Q r' -> E <= r_pos (snd (next r')) -> E <= r_pos (snd (ld_angle (S f) r' st)).
  Proof.
    intros H G. cbn [ld_angle]. pose proof (PL_next r' H) as PLn. destruct (next r') as [ok r1']. cbn [snd] in *.
    destruct ok; cbn [negb]; [|exact G]. pose proof (PL_current r1' PLn) as PLc. pose proof (pos_current r1') as F.
    destruct (current r1') as [c r2']. cbn [snd] in *. destruct (_ || _); [cbn [snd]; lia|].
    destruct (c =? 92).
    - pose proof (PL_next r2' PLc) as PLn3. pose proof (ge_next r2' PLc) as G3. destruct (next r2') as [ok2 r3']. cbn [snd] in *.
      destruct ok2; cbn [negb]; [|cbn [snd]; lia]. pose proof (PL_current r3' PLn3) as PLc4. pose proof (pos_current r3') as F4.
      destruct (current r3') as [c2 r4']. cbn [snd] in *. destruct (_ || _); [cbn [snd]; lia|]. pose proof (ge_ld_angle f r4' st PLc4). lia.
    - destruct (c =? 62).
      + pose proof (ge_next r2' PLc) as G3. destruct (next r2') as [ok3 r3']. cbn [snd] in *. lia.
      + pose proof (ge_ld_angle f r2' st PLc). lia.
  Qed.
  Lemma ld_angle_fw : forall f r r' st, PR r r' -> r_pos r < E -> Alt3 (ld_angle f r st) (ld_angle f r' st).
  Proof.
    induction f as [|f IH]; intros r r' st H L; [left; split; [reflexivity|exact H]|].
    destruct (nfw r r' H L) as [[En Hn]|[C1 C2]]; [|right; left; apply ld_angle_cross; [apply (PR_PL _ _ H)|exact C2]].
    destruct (Z_lt_ge_dec (r_pos (snd (next r))) E) as [L1|G1].
    2:{ destruct (fst (next r)) eqn:Eo.
        - right. left. apply ld_angle_cross; [apply (PR_PL _ _ H)|]. rewrite (PR_pos _ _ Hn). lia.
        - left. cbn [ld_angle]. destruct (next r) as [ok r1]; destruct (next r') as [ok' r1']; cbn [fst snd] in *; subst ok' ok. split; [reflexivity|exact Hn]. }
    cbn [ld_angle]. destruct (next r) as [ok r1]; destruct (next r') as [ok' r1']; cbn [fst snd] in *; subst ok'.
    destruct ok; cbn [negb]; [|left; split; [reflexivity|exact Hn]].
    destruct (cstep r1 r1' Hn L1) as (c & r2 & r2' & Ec & Ec' & H2 & P2 & P2'). rewrite Ec, Ec'.
    destruct ((c =? 13) || (c =? 10)); [left; split; [reflexivity|exact H2]|].
    pose proof (PR_PL _ _ H2) as PL2. pose proof (PL_next r2' PL2) as PLn3.
    destruct (c =? 92).
    - destruct (nfw r2 r2' H2 ltac:(lia)) as [[En3 Hn3]|[D1 D2]]; destruct (next r2) as [ok2 r3]; destruct (next r2') as [ok2' r3']; cbn [fst snd] in *; subst ok2'.
      + destruct ok2; cbn [negb]; [|left; split; [reflexivity|exact Hn3]].
        destruct (Z_lt_ge_dec (r_pos r3) E) as [L3|G3].
        * destruct (cstep r3 r3' Hn3 L3) as (c2 & r4 & r4' & Ec4 & Ec4' & H4 & P4 & P4'). rewrite Ec4, Ec4'.
          destruct ((c2 =? 10) || (c2 =? 13)); [left; split; [reflexivity|exact H4]|]. apply IH; [exact H4|lia].
        * right. left. pose proof (PL_current r3' PLn3) as PLc4. pose proof (pos_current r3') as F4. destruct (current r3') as [c2 r4']. cbn [snd] in *.
          rewrite (PR_pos _ _ Hn3) in *. destruct (_ || _); [cbn [snd]; lia|]. pose proof (ge_ld_angle f r4' st PLc4). lia.
      + cbn [negb]. right. left. pose proof (PL_current r3' PLn3) as PLc4. pose proof (pos_current r3') as F4. destruct (current r3') as [c2 r4']. cbn [snd] in *.
        destruct (_ || _); [cbn [snd]; lia|]. pose proof (ge_ld_angle f r4' st PLc4). lia.
    - destruct (c =? 62); [|apply IH; [exact H2|lia]].
      destruct (nfw r2 r2' H2 ltac:(lia)) as [[En3 Hn3]|[D1 D2]]; destruct (next r2) as [ok3 r3]; destruct (next r2') as [ok3' r3']; cbn [fst snd] in *.
      + left. destruct Hn3 as (X1 & X2 & X3 & X4 & X5 & X6). split; [cbn [fst]; rewrite X5; reflexivity|]. cbn [snd]. repeat (split; [assumption|]). exact X6.
      + right. left. exact D2.
  Qed.

  Definition AltR (a b : reader) : Prop := PR a b \/ E <= r_pos b.
  Lemma ld_bare_fw : forall f r r' pn, PR r r' -> r_pos r < E -> AltR (ld_bare f r pn) (ld_bare f r' pn).
  Proof.
    induction f as [|f IH]; intros r r' pn H L; [left; exact H|]. cbn [ld_bare].
    destruct (cstep r r' H L) as (c & r1 & r1' & Ec & Ec' & H1 & P1 & P1'). rewrite Ec, Ec'.
    destruct (isASCIIControl c || (c =? 32)); [left; exact H1|].
    assert (Hstep : forall pn', AltR (let '(ok, r2) := next r1 in if ok then ld_bare f r2 pn' else r2) (let '(ok, r2) := next r1' in if ok then ld_bare f r2 pn' else r2)).
    { intros pn'. pose proof (PL_next r1' (PR_PL _ _ H1)) as PLn.
      destruct (nfw r1 r1' H1 ltac:(lia)) as [[En Hn]|[C1 C2]]; destruct (next r1) as [ok r2]; destruct (next r1') as [ok' r2']; cbn [fst snd] in *; subst ok'.
      - destruct ok; [|left; exact Hn]. destruct (Z_lt_ge_dec (r_pos r2) E) as [L2|G2]; [apply IH; assumption|]. right. pose proof (ge_ld_bare f r2' pn' PLn). rewrite (PR_pos _ _ Hn) in *. lia.
      - right. pose proof (ge_ld_bare f r2' pn' PLn). lia. }
    destruct (c =? 92).
    - pose proof (PL_next r1' (PR_PL _ _ H1)) as PLn.
      assert (Hq : forall x, PL Q x -> E <= r_pos x ->
                E <= r_pos (let '(c2, r3) := current x in if isASCIIControl c2 || (c2 =? 32) then r3 else let '(ok2, r4) := next r3 in if ok2 then ld_bare f r4 pn else r4)).
      { intros x Hx Gx. pose proof (PL_current x Hx) as PLc. pose proof (pos_current x) as F. destruct (current x) as [c2 r3]. cbn [snd] in *.
        destruct (_ || _); [lia|]. pose proof (PL_next r3 PLc) as PLn4. pose proof (ge_next r3 PLc) as G4. destruct (next r3) as [ok2 r4]. cbn [snd] in *.
        destruct ok2; [pose proof (ge_ld_bare f r4 pn PLn4); lia|lia]. }
      destruct (nfw r1 r1' H1 ltac:(lia)) as [[En Hn]|[C1 C2]]; destruct (next r1) as [ok r2]; destruct (next r1') as [ok' r2']; cbn [fst snd] in *; subst ok'.
      + destruct ok; cbn [negb]; [|left; exact Hn].
        destruct (Z_lt_ge_dec (r_pos r2) E) as [L2|G2]; [|right; apply Hq; [exact PLn|rewrite (PR_pos _ _ Hn); lia]].
        destruct (cstep r2 r2' Hn L2) as (c2 & r3 & r3' & Ec3 & Ec3' & H3 & P3 & P3'). rewrite Ec3, Ec3'.
        destruct (isASCIIControl c2 || (c2 =? 32)); [left; exact H3|].
        pose proof (PL_next r3' (PR_PL _ _ H3)) as PLn4.
        destruct (nfw r3 r3' H3 ltac:(lia)) as [[En4 Hn4]|[D1 D2]]; destruct (next r3) as [ok2 r4]; destruct (next r3') as [ok2' r4']; cbn [fst snd] in *; subst ok2'.
        * destruct ok2; [|left; exact Hn4]. destruct (Z_lt_ge_dec (r_pos r4) E) as [L4|G4]; [apply IH; assumption|]. right. pose proof (ge_ld_bare f r4' pn PLn4). rewrite (PR_pos _ _ Hn4) in *. lia.
        * right. pose proof (ge_ld_bare f r4' pn PLn4). lia.
      + cbn [negb]. right. apply Hq; [exact PLn|exact C2].
    - destruct (c =? 40); [apply Hstep|]. destruct (c =? 41); [|apply Hstep]. destruct (pn - 1 <? 0); [left; exact H1|apply Hstep].
  Qed.
  Lemma parseLinkDestination_fw f r r' : PR r r' -> r_pos r < E -> Alt3 (parseLinkDestination f r) (parseLinkDestination f r').
  Proof.
    intros H L. unfold parseLinkDestination. destruct (cstep r r' H L) as (c & r0 & r0' & Ec & Ec' & H0 & P0 & P0'). rewrite Ec, Ec'. rewrite P0, P0'.
    destruct (c =? 60); [apply ld_angle_fw; [exact H0|lia]|].
    destruct (_ && _ && _); [|left; split; [reflexivity|exact H0]]. cbv zeta.
    destruct (ld_bare_fw f r0 r0' 0 H0 ltac:(lia)) as [Hb|Hb]; [|right; left; exact Hb].
    left. split; [cbn [fst]; rewrite (PR_pos _ _ Hb); reflexivity|exact Hb].
  Qed.

  (* ---------------- parseLinkTitle ---------------- *)
  Lemma lt_loop_cross f r' st tm : PL Q r' -> E <= r_pos (snd (next r')) -> E <= r_pos (snd (lt_loop (S f) r' st tm)).
  Proof.
    intros H G. cbn [lt_loop]. pose proof (PL_next r' H) as PLn. destruct (next r') as [ok r1']. cbn [snd] in *.
    destruct ok; cbn [negb]; [|exact G]. pose proof (PL_current r1' PLn) as PLc. pose proof (pos_current r1') as F.
    destruct (current r1') as [c r2']. cbn [snd] in *. destruct (c =? 92).
    - pose proof (PL_next r2' PLc) as PLn3. pose proof (ge_next r2' PLc) as G3. destruct (next r2') as [ok2 r3']. cbn [snd] in *.
      destruct ok2; cbn [negb]; [|cbn [snd]; lia]. pose proof (ge_lt_loop f r3' st tm PLn3). lia.
    - destruct (c =? tm).
      + pose proof (ge_next r2' PLc) as G3. destruct (next r2') as [ok3 r3']. cbn [snd] in *. lia.
      + pose proof (ge_lt_loop f r2' st tm PLc). lia.
  Qed.
  Lemma lt_loop_fw : forall f r r' st tm, PR r r' -> r_pos r < E -> Alt3 (lt_loop f r st tm) (lt_loop f r' st tm).
  Proof.
    induction f as [|f IH]; intros r r' st tm H L; [left; split; [reflexivity|exact H]|].
    destruct (nfw r r' H L) as [[En Hn]|[C1 C2]]; [|right; left; apply lt_loop_cross; [apply (PR_PL _ _ H)|exact C2]].
    destruct (Z_lt_ge_dec (r_pos (snd (next r))) E) as [L1|G1].
    2:{ destruct (fst (next r)) eqn:Eo.
        - right. left. apply lt_loop_cross; [apply (PR_PL _ _ H)|]. rewrite (PR_pos _ _ Hn). lia.
        - left. cbn [lt_loop]. destruct (next r) as [ok r1]; destruct (next r') as [ok' r1']; cbn [fst snd] in *; subst ok' ok. split; [reflexivity|exact Hn]. }
    cbn [lt_loop]. destruct (next r) as [ok r1]; destruct (next r') as [ok' r1']; cbn [fst snd] in *; subst ok'.
    destruct ok; cbn [negb]; [|left; split; [reflexivity|exact Hn]].
    destruct (cstep r1 r1' Hn L1) as (c & r2 & r2' & Ec & Ec' & H2 & P2 & P2'). rewrite Ec, Ec'.
    pose proof (PR_PL _ _ H2) as PL2. pose proof (PL_next r2' PL2) as PLn3.
    destruct (c =? 92).
    - destruct (nfw r2 r2' H2 ltac:(lia)) as [[En3 Hn3]|[D1 D2]]; destruct (next r2) as [ok2 r3]; destruct (next r2') as [ok2' r3']; cbn [fst snd] in *; subst ok2'.
      + destruct ok2; cbn [negb]; [|left; split; [reflexivity|exact Hn3]].
        destruct (Z_lt_ge_dec (r_pos r3) E) as [L3|G3]; [apply IH; assumption|]. right. left. pose proof (ge_lt_loop f r3' st tm PLn3). rewrite (PR_pos _ _ Hn3) in *. lia.
      + cbn [negb]. right. left. pose proof (ge_lt_loop f r3' st tm PLn3). lia.
    - destruct (c =? tm); [|apply IH; [exact H2|lia]].
      destruct (nfw r2 r2' H2 ltac:(lia)) as [[En3 Hn3]|[D1 D2]]; destruct (next r2) as [ok3 r3]; destruct (next r2') as [ok3' r3']; cbn [fst snd] in *.
      + left. destruct Hn3 as (X1 & X2 & X3 & X4 & X5 & X6). split; [cbn [fst]; rewrite X5; reflexivity|]. cbn [snd]. repeat (split; [assumption|]). exact X6.
      + right. left. exact D2.
  Qed.
  Lemma parseLinkTitle_fw f r r' : PR r r' -> r_pos r < E -> Alt3 (parseLinkTitle f r) (parseLinkTitle f r').
  Proof.
    intros H L. unfold parseLinkTitle. destruct (cstep r r' H L) as (c & r0 & r0' & Ec & Ec' & H0 & P0 & P0'). rewrite Ec, Ec'. rewrite P0, P0'.
    destruct (negb _); [left; split; [reflexivity|exact H0]|]. apply lt_loop_fw; [exact H0|lia].
  Qed.

  (* ---------------- readEOL: the crossing ---------------- *)
  Lemma A_next_lt r r' : PR r r' -> r_pos r < E -> fst (next r) = true -> r_pos (snd (next r)) < E.
  Proof.
    intros (A & _ & _ & _ & _ & _ & (G & _) & _) L Ht. destruct (next r) as [ok r1] eqn:En. cbn [fst snd] in *. subst ok.
    destruct (next_true r r1 En) as (node & rest & Ec & Hh & (pre & Es) & S1 & P1 & Hcase).
    pose proof (spanHas_range _ _ Hh) as (B1 & B2 & B3). rewrite Es in G. apply Forall_app in G. destruct G as [_ G].
    destruct (Forall_inv G) as (C1 & C2 & C3 & _).
    destruct Hcase as [(K & P & Sp)|[(K & P & P' & Sp)|(pre' & j & rest' & R1 & Sp & P & _)]]; try lia.
    pose proof (Forall_inv_tail G) as Gr. rewrite R1 in Gr. apply Forall_app in Gr. destruct Gr as [_ Gr]. destruct (Forall_inv Gr) as (D1 & D2 & D3 & _). lia.
  Qed.
  Lemma sptab_not_eol c : isSpTab c = true -> isEOLz c = false.
  Proof. unfold isSpTab, isEOLz. intros H. apply orb_true_iff in H. destruct H as [H|H]; apply Z.eqb_eq in H; subst c; reflexivity. Qed.

  Lemma sst_same : forall f r r', PR r r' -> r_pos r < E ->
    Same (skipSpacesAndTabs f r) (skipSpacesAndTabs f r') /\ (fst (skipSpacesAndTabs f r) = true -> r_pos (snd (skipSpacesAndTabs f r)) < E).
  Proof.
    induction f as [|f IH]; intros r r' H L; cbn [skipSpacesAndTabs]; [split; [split; [reflexivity|exact H]|discriminate]|].
    destruct (cstep r r' H L) as (c & r1 & r1' & Ec & Ec' & H1 & P1 & P1'). rewrite Ec, Ec'.
    destruct (isSpTab c) eqn:Esp; [|split; [split; [reflexivity|exact H1]|intros _; cbn [snd]; lia]].
    destruct (PR_next r1 r1' H1 ltac:(lia)) as [[En Hn]|Cr].
    - pose proof (A_next_lt r1 r1' H1 ltac:(lia)) as Hlt. destruct (next r1) as [ok r2]; destruct (next r1') as [ok' r2']; cbn [fst snd] in *; subst ok'.
      destruct ok; [apply IH; [exact Hn|apply Hlt; reflexivity]|]. split; [split; [reflexivity|exact Hn]|discriminate].
    - exfalso. destruct Cr as (_ & _ & _ & _ & _ & _ & _ & _ & _ & Ce). pose proof (current_current r) as CC. rewrite Ec in CC. cbn [snd] in CC. rewrite CC in Ce. cbn [fst] in Ce.
      rewrite (sptab_not_eol c Esp) in Ce. discriminate.
  Qed.

  (* after the crossing: on the short side the end E and an exhausted reader at E; on the long side an end at or after E *)
  Definition CrossedEOL (a b : Z * reader) : Prop :=
    fst a = E /\ r_spans (snd a) = [] /\ r_pos (snd a) = E /\ r_src (snd a) = Q /\ E <= fst b.
  Lemma prev_current r : r_prev (snd (current r)) = r_prev r. Proof. pose proof (current_fields r) as F. cbv zeta in F. apply F. Qed.
  Lemma readEOL_fw f r r' : PR r r' -> r_pos r < E -> Same (readEOL f r) (readEOL f r') \/ CrossedEOL (readEOL f r) (readEOL f r').
  Proof.
    intros H L. unfold readEOL. destruct (sst_same f r r' H L) as [[E1 H1] Lt1].
    destruct (skipSpacesAndTabs f r) as [ok r1]. destruct (skipSpacesAndTabs f r') as [ok' r1']. cbn [fst snd] in *. subst ok'.
    destruct ok; cbn [negb]; [|left; split; [cbn [fst]; rewrite (PR_pos _ _ H1); reflexivity|exact H1]].
    specialize (Lt1 eq_refl). destruct (cstep r1 r1' H1 Lt1) as (c & r2 & r2' & Ec & Ec' & H2 & P2 & P2'). rewrite Ec, Ec'.
    assert (Hprev : forall x x', PR x x' -> r_prev x' = r_prev x) by (intros x x' (_ & _ & _ & _ & X0 & _); exact X0).
    assert (HcrossA : forall x x', Cross x x' -> CrossedEOL (r_prev (snd (next x)) + 1, snd (next x)) (r_prev (snd (next x')) + 1, snd (next x'))).
    { intros x x' (_ & _ & _ & C4 & C5 & C6 & _ & C8 & C9 & _). unfold CrossedEOL. cbn [fst snd]. rewrite C8, C9. repeat split; try assumption; lia. }
    destruct (c =? 13).
    - destruct (PR_next r2 r2' H2 ltac:(lia)) as [[En Hn]|Cr].
      + pose proof (A_next_lt r2 r2' H2 ltac:(lia)) as Hlt. destruct (next r2) as [ok2 r3]; destruct (next r2') as [ok2' r3']; cbn [fst snd] in *; subst ok2'.
        destruct ok2; cbn [negb]; [|left; split; [cbn [fst]; rewrite (Hprev _ _ Hn); reflexivity|exact Hn]].
        specialize (Hlt eq_refl). destruct (cstep r3 r3' Hn Hlt) as (c2 & r4 & r4' & Ec4 & Ec4' & H4 & P4 & P4'). rewrite Ec4, Ec4'.
        destruct (c2 =? 10).
        * destruct (PR_next r4 r4' H4 ltac:(lia)) as [[En5 Hn5]|Cr5].
          -- destruct (next r4) as [ok5 r5]; destruct (next r4') as [ok5' r5']; cbn [fst snd] in *. left. split; [cbn [fst]; rewrite (Hprev _ _ Hn5); reflexivity|exact Hn5].
          -- right. pose proof (HcrossA _ _ Cr5) as X0. destruct (next r4) as [ok5 r5]; destruct (next r4') as [ok5' r5']. exact X0.
        * left. split; [cbn [fst]; rewrite (Hprev _ _ H4); reflexivity|exact H4].
      + right. destruct Cr as (C1 & C2 & C3 & C4 & C5 & C6 & C7 & C8 & C9 & _).
        pose proof (PR_PL _ _ H2) as PL2. pose proof (PL_next r2' PL2) as PLn.
        destruct (next r2) as [ok2 r3]; destruct (next r2') as [ok2' r3']; cbn [fst snd] in *; subst ok2 ok2'. cbn [negb].
        pose proof (pos_current r3') as F4. pose proof (prev_current r3') as F4p. pose proof (PL_current r3' PLn) as PLc. destruct (current r3') as [c2 r4']. cbn [snd] in *.
        unfold CrossedEOL. cbn [fst snd]. split; [lia|]. split; [exact C4|]. split; [exact C6|]. split; [exact C5|].
        destruct (c2 =? 10); [|cbn [fst]; lia].
        pose proof (next_W Q r4' PLc) as (_ & G5 & _). destruct (next r4') as [ok5 r5'] eqn:En5. cbn [fst snd] in *.
        destruct ok5.
        -- destruct (next_true r4' r5' En5) as (_ & _ & _ & _ & _ & _ & P5 & _). lia.
        -- destruct (curNode_cases r4') as [Ecn|(pre & n & rest & Es & Ecn & Eh)].
           ++ unfold next in En5. rewrite Ecn in En5. inversion En5; subst r5'. cbn. lia.
           ++ destruct (next_false r4' r5' En5) as (_ & _ & Hnode). destruct (Hnode n ltac:(rewrite Ecn; reflexivity)) as (P5 & _). lia.
    - destruct (c =? 10).
      + destruct (PR_next r2 r2' H2 ltac:(lia)) as [[En Hn]|Cr].
        * destruct (next r2) as [ok3 r3]; destruct (next r2') as [ok3' r3']; cbn [fst snd] in *. left. split; [cbn [fst]; rewrite (Hprev _ _ Hn); reflexivity|exact Hn].
        * right. pose proof (HcrossA _ _ Cr) as X0. destruct (next r2) as [ok3 r3]; destruct (next r2') as [ok3' r3']. exact X0.
      + left. split; [reflexivity|exact H2].
  Qed.

  (* ---------------- collectTextNodes, transformLinkReferenceSpan on ranges that end before E ---------------- *)
  Lemma cur_pr r r' : PR r r' -> r_pos r < E -> cur r' = cur r.
  Proof. intros H L. unfold cur. apply (PR_current r r' H L). Qed.
  Lemma jumped_pr r r' : PR r r' -> jumped r' = jumped r.
  Proof. intros (_ & _ & P & _ & Pv & _). unfold jumped. rewrite P, Pv. reflexivity. Qed.
  Lemma remaining_pr r r' : PR r r' -> r_pos r < E ->
    fst (remainingNodeBytes r') = fst (remainingNodeBytes r) /\ PR (snd (remainingNodeBytes r)) (snd (remainingNodeBytes r')).
  Proof.
    intros H L. destruct (PR_curNode r r' H L) as [E1 E2]. pose proof H as (A & B & P & _). unfold remainingNodeBytes.
    destruct (curNode r) as [n r1]. destruct (curNode r') as [n' r1']. cbn [fst snd] in *. subst n'. destruct n as [m|]; cbn [fst snd]; [|split; [reflexivity|exact E2]].
    rewrite A, B, P. split; [reflexivity|exact E2].
  Qed.
  Lemma cur_byte_pr r r' m : PR r r' -> r_pos r < E -> fst (curNode r) = Some m -> fst (current r) = if ikind m =? IndentKind then 32 else at_ Q (r_pos r).
  Proof.
    intros (A & _) L Ec. destruct (curNode_cases r) as [Ecn|(pre & n & rest & Es & Ecn & Eh)]; rewrite Ecn in Ec; cbn [fst] in Ec; [discriminate|]. inversion Ec; subst n.
    pose proof (spanHas_range _ _ Eh) as (R1 & R2 & R3).
    unfold current. rewrite A. destruct (Z.leb_spec (len Q) (r_pos r)); [lia|]. rewrite Ecn. cbn [okind].
    destruct (ikind m =? IndentKind); [reflexivity|]. destruct (Z.eqb_spec (at_ Q (r_pos r)) 0) as [E0|_]; [exfalso; apply (HN (r_pos r)); [lia|exact E0]|reflexivity].
  Qed.
  (* one step inside a node that is not indentation *)
  Lemma inNode_next r r' m : PR r r' -> r_pos r < E -> fst (curNode r) = Some m -> ikind m <> IndentKind -> r_pos r + 1 < iend m ->
    fst (next r) = true /\ fst (next r') = true /\ PR (snd (next r)) (snd (next r')) /\ r_pos (snd (next r)) = r_pos r + 1 /\ fst (curNode (snd (next r))) = Some m.
  Proof.
    intros H L Ec Hk Hin. destruct (curNode_cases r) as [Ecn|(pre & n & rest & Es & Ecn & Eh)]; rewrite Ecn in Ec; cbn [fst] in Ec; [discriminate|]. inversion Ec; subst n.
    pose proof (spanHas_range _ _ Eh) as (R1 & R2 & R3).
    assert (En : next r = (true, {| r_src := r_src r; r_spans := m :: rest; r_pos := r_pos r + 1;
                                   r_vpos := (if at_ (r_src r) (r_pos r + 1) =? 0 then (if at_ (r_src r) (r_pos r) =? 0 then (r_vpos r + 1) mod 3 else 0) else r_vpos r); r_prev := r_pos r |})).
    { unfold next. rewrite Ecn. cbn [withSpans r_src r_pos r_vpos r_spans]. destruct (Z.eqb_spec (ikind m) IndentKind); [contradiction|]. cbn [andb negb].
      destruct (Z.ltb_spec (r_pos r + 1) (iend m)); [reflexivity|lia]. }
    destruct (PR_next r r' H L) as [[E1 E2]|Cr]; [|destruct Cr as (_ & _ & C3 & _); rewrite En in C3; discriminate].
    rewrite En in *. cbn [fst snd] in *. split; [reflexivity|]. split; [exact E1|]. split; [exact E2|]. split; [reflexivity|].
    rewrite (curNode_head m rest); [reflexivity|reflexivity|]. cbn [r_pos]. apply spanHas_intro; lia.
  Qed.
  Lemma nextN_pr : forall n r r' m, PR r r' -> fst (curNode r) = Some m -> ikind m <> IndentKind -> r_pos r + Z.of_nat n < iend m -> iend m <= E ->
    PR (nextN n r) (nextN n r') /\ r_pos (nextN n r) = r_pos r + Z.of_nat n /\ fst (curNode (nextN n r)) = Some m.
  Proof.
    induction n as [|n IH]; intros r r' m H Ec Hk Hb He; cbn [nextN]; [split; [exact H|split; [lia|exact Ec]]|].
    destruct (inNode_next r r' m H ltac:(lia) Ec Hk ltac:(lia)) as (_ & _ & H1 & P1 & Ec1).
    destruct (IH _ _ m H1 Ec1 Hk ltac:(lia) He) as (A1 & A2 & A3). split; [exact A1|]. split; [lia|exact A3].
  Qed.

  Lemma PR_prev r r' : PR r r' -> r_prev r' = r_prev r. Proof. intros (_ & _ & _ & _ & X0 & _). exact X0. Qed.
  Lemma nstep_lt r r' : PR r r' -> r_pos r < E - 1 -> fst (next r') = fst (next r) /\ PR (snd (next r)) (snd (next r')).
  Proof. intros H L. destruct (PR_next r r' H ltac:(lia)) as [X0|(_ & _ & _ & _ & _ & _ & C7 & _)]; [exact X0|lia]. Qed.

  Lemma skipSameNode_pr : forall f r r' node, PR r r' -> (exists m, fst (curNode r) = Some m /\ ikind m = IndentKind) -> ikind node = IndentKind ->
    PR (skipSameNode f r node) (skipSameNode f r' node).
  Proof.
    induction f as [|f IH]; intros r r' node H (m & Ec & Km) Kn; cbn [skipSameNode]; [exact H|].
    assert (L : r_pos r < E).
    { destruct (curNode_cases r) as [Ecn|(pre & n & rest & Es & Ecn & Eh)]; rewrite Ecn in Ec; cbn [fst] in Ec; [discriminate|]. inversion Ec; subst n.
      pose proof (spanHas_range _ _ Eh) as (R1 & R2 & R3). destruct H as (_ & _ & _ & _ & _ & _ & (G & _) & _). rewrite Es in G. apply Forall_app in G. destruct G as [_ G].
      destruct (Forall_inv G) as (_ & _ & C3 & _). lia. }
    destruct (PR_next r r' H L) as [[En Hn]|Cr].
    2:{ exfalso. destruct Cr as (_ & _ & _ & _ & _ & _ & _ & _ & _ & Ce). rewrite (cur_byte_pr r r' m H L Ec), Km in Ce. cbn in Ce. discriminate. }
    pose proof (A_next_lt r r' H L) as Hlt. destruct (next r) as [ok r1]; destruct (next r') as [ok' r1']; cbn [fst snd] in *; subst ok'.
    destruct ok; cbn [negb]; [|exact Hn]. specialize (Hlt eq_refl). destruct (PR_curNode r1 r1' Hn Hlt) as [E1 E2].
    pose proof (curNode_idem r1) as Hid. destruct (curNode r1) as [n r2]. destruct (curNode r1') as [n' r2']. cbn [fst snd] in *. subst n'.
    destruct n as [m2|]; [|exact E2]. destruct ((ikind m2 =? ikind node) && (istart m2 =? istart node) && (iend m2 =? iend node)) eqn:Eq; [|exact E2].
    apply IH; [exact E2| |exact Kn]. exists m2. split; [rewrite Hid; reflexivity|]. apply andb_true_iff in Eq. destruct Eq as [Eq _]. apply andb_true_iff in Eq. destruct Eq as [Eq _]. apply Z.eqb_eq in Eq. congruence.
  Qed.

  Ltac tlp IH e x x' Hx :=
    let ok := fresh "ok" in let ok' := fresh "ok'" in let r1 := fresh "r" in let r1' := fresh "r'" in let En := fresh "En" in let Hn := fresh "Hn" in
    rewrite ?(PR_pos _ _ Hx); destruct (Z.leb_spec e (r_pos x)); [reflexivity|];
    destruct (nstep_lt x x' Hx ltac:(lia)) as [En Hn]; destruct (next x) as [ok r1]; destruct (next x') as [ok' r1']; cbn [fst snd] in En, Hn; subst ok';
    destruct ok; cbn [negb]; [|reflexivity]; rewrite ?(jumped_pr _ _ Hn), ?(PR_pos _ _ Hn), ?(PR_prev _ _ Hn); destruct (jumped r1); apply IH; assumption.

  Lemma ent_not_eol c : isEntCh c = true -> isEOLz c = false.
  Proof.
    unfold isEntCh, isEOLz, isASCIILetter, isASCIIDigit. intros H. destruct (Z.eqb_spec c 10) as [->|]; [discriminate H|]. destruct (Z.eqb_spec c 13) as [->|]; [discriminate H|]. reflexivity.
  Qed.

  Lemma collect_loop_pr : forall f r r' e tk esc ps acc, PR r r' -> e < E ->
    collect_loop f r' e tk esc ps acc = collect_loop f r e tk esc ps acc.
  Proof.
    induction f as [|f IH]; intros r r' e tk esc ps acc H He; [reflexivity|]. cbn [collect_loop]. rewrite (PR_pos _ _ H).
    destruct (Z.leb_spec e (r_pos r)) as [Le|Le]; [reflexivity|].
    destruct (PR_curNode r r' H ltac:(lia)) as [E1 E2]. pose proof (curNode_fields r) as F0. cbv zeta in F0. pose proof (curNode_idem r) as Hid.
    destruct (curNode r) as [cn r0]. destruct (curNode r') as [cn' r0']. cbn [fst snd] in *. subst cn'. destruct F0 as (_ & P0 & _).
    destruct (okind cn =? IndentKind) eqn:Ek.
    - destruct cn as [n|]; [|discriminate Ek]. cbn [okind] in Ek. apply Z.eqb_eq in Ek.
      rewrite (PR_pos _ _ E2), (PR_prev _ _ E2).
      pose proof (skipSameNode_pr (S f) r0 r0' n E2 ltac:(exists n; split; [rewrite Hid; reflexivity|exact Ek]) Ek) as H1.
      set (r1 := skipSameNode (S f) r0 n) in *. set (r1' := skipSameNode (S f) r0' n) in *. rewrite (PR_pos _ _ H1). apply IH; assumption.
    - destruct (esc && (okind cn =? UnparsedKind)) eqn:Eesc; [|tlp IH e r0 r0' E2].
      destruct (cstep r0 r0' E2 ltac:(lia)) as (c & r1 & r1' & Ec & Ec' & H1 & P1 & P1'). rewrite Ec, Ec'.
      destruct (c =? 92).
      + destruct (nstep_lt r1 r1' H1 ltac:(lia)) as [En Hn]. pose proof (A_next_lt r1 r1' H1 ltac:(lia)) as Hlt.
        destruct (next r1) as [ok r2]; destruct (next r1') as [ok' r2']; cbn [fst snd] in *; subst ok'.
        rewrite (PR_pos _ _ Hn), (PR_prev _ _ Hn). destruct ok; cbn [andb]; [|tlp IH e r2 r2' Hn].
        destruct (Z.ltb_spec (r_pos r2) e) as [Lt|Lt]; cbn [andb]; [|tlp IH e r2 r2' Hn].
        rewrite (cur_pr r2 r2' Hn ltac:(lia)). destruct (isASCIIPunctuation (cur r2)); tlp IH e r2 r2' Hn.
      + destruct (c =? 38) eqn:E38; [|tlp IH e r1 r1' H1].
        destruct (remaining_pr r1 r1' H1 ltac:(lia)) as [R1 R2].
        (* the node of the entity *)
        apply andb_true_iff in Eesc. destruct Eesc as [_ Eu]. apply Z.eqb_eq in Eu.
        destruct cn as [m|]; [|discriminate Eu]. cbn [okind] in Eu.
        assert (Ec1 : fst (curNode r1) = Some m).
        { destruct (curNode_current r0) as [X0|X0]; rewrite Ec in X0; cbn [snd] in X0; [rewrite X0, Hid; reflexivity|rewrite X0, Hid; reflexivity]. }
        assert (Hrem : remainingNodeBytes r1 = (sub Q (r_pos r1) (iend m), snd (curNode r1))).
        { unfold remainingNodeBytes. destruct (curNode r1) as [n1 x1]. cbn [fst snd] in *. subst n1. destruct H1 as (A1 & _). rewrite A1. reflexivity. }
        assert (Hm : istart m <= r_pos r1 < iend m /\ iend m <= E /\ 0 <= istart m).
        { destruct (curNode_cases r1) as [Ecn|(pre & n & rest & Es & Ecn & Eh)]; rewrite Ecn in Ec1; cbn [fst] in Ec1; [discriminate|]. inversion Ec1; subst n.
          pose proof (spanHas_range _ _ Eh) as (R3 & R4 & R5). destruct H1 as (_ & _ & _ & _ & _ & _ & (G & _) & _). rewrite Es in G. apply Forall_app in G. destruct G as [_ G].
          destruct (Forall_inv G) as (_ & _ & C3 & _). lia. }
        rewrite Hrem in R1, R2. cbn [fst snd] in R1, R2. rewrite Hrem. destruct (remainingNodeBytes r1') as [rem' r2']. cbn [fst snd] in *. subst rem'.
        set (rem := sub Q (r_pos r1) (iend m)) in *. set (r2 := snd (curNode r1)) in *.
        destruct (Z.leb_spec 0 (parseCharacterEscape rem)) as [Len|Len]; [|tlp IH e r2 r2' R2].
        destruct (pce_spec rem Len) as [[B1 B2] B3].
        assert (Lrem : len rem = iend m - r_pos r1) by (apply len_sub_in; lia).
        assert (P2 : r_pos r2 = r_pos r1) by (unfold r2; pose proof (curNode_fields r1) as F; cbv zeta in F; apply F).
        assert (Ec2 : fst (curNode r2) = Some m) by (unfold r2; rewrite curNode_idem; exact Ec1).
        assert (Km : ikind m <> IndentKind) by (rewrite Eu; discriminate).
        rewrite (PR_pos _ _ R2).
        destruct (nextN_pr (Z.to_nat (parseCharacterEscape rem - 1)) r2 r2' m R2 Ec2 Km ltac:(lia) ltac:(lia)) as (N1 & N2 & N3).
        set (r3 := nextN _ r2) in *. set (r3' := nextN _ r2') in *.
        assert (L3 : r_pos r3 < E) by lia.
        destruct (PR_next r3 r3' N1 L3) as [[En4 Hn4]|Cr].
        2:{ exfalso. destruct Cr as (_ & _ & _ & _ & _ & _ & _ & _ & _ & Ce). rewrite (cur_byte_pr r3 r3' m N1 L3 N3) in Ce.
            destruct (Z.eqb_spec (ikind m) IndentKind); [contradiction|].
            replace (r_pos r3) with (r_pos r1 + (parseCharacterEscape rem - 1)) in Ce by lia.
            rewrite <- (at_sub Q (r_pos r1) (iend m) (parseCharacterEscape rem - 1)) in Ce by lia. fold rem in Ce.
            rewrite (ent_not_eol _ (B3 (parseCharacterEscape rem - 1) ltac:(lia))) in Ce. discriminate. }
        destruct (next r3) as [ok4 r4]; destruct (next r3') as [ok4' r4']; cbn [fst snd] in *; subst ok4'.
        destruct ok4; cbn [negb]; [|reflexivity]. apply IH; assumption.
  Qed.

  Lemma tlr_skip_pr K acc e : e < E -> (forall x x', PR x x' -> K x' = K x) -> forall k x x', PR x x' -> tlr_skip K acc e k x' = tlr_skip K acc e k x.
  Proof.
    intros He HK. induction k as [|k IH]; intros x x' H; cbn [tlr_skip]; [reflexivity|]. rewrite (PR_pos _ _ H).
    destruct (Z.ltb_spec (r_pos x) e) as [Lt|Lt]; cbn [andb]; [|apply HK, H].
    rewrite (cur_pr x x' H ltac:(lia)). destruct (isSpaceTabOrLineEnding (cur x)); [|apply HK, H].
    destruct (PR_current x x' H ltac:(lia)) as (_ & H1 & P1). destruct (nstep_lt _ _ H1 ltac:(lia)) as [En Hn].
    destruct (next (snd (current x))) as [ok x2]; destruct (next (snd (current x'))) as [ok' x2']; cbn [fst snd] in *; subst ok'.
    destruct ok; [apply IH, Hn|apply HK, Hn].
  Qed.
  Lemma tlr_loop_pr : forall f r r' e acc, PR r r' -> e < E -> tlr_loop f r' e acc = tlr_loop f r e acc.
  Proof.
    induction f as [|f IH]; intros r r' e acc H He; [reflexivity|]. rewrite !tlr_loop_S, (PR_pos _ _ H).
    destruct (Z.leb_spec e (r_pos r)) as [Le|Le]; [reflexivity|].
    destruct (cstep r r' H ltac:(lia)) as (c & r1 & r1' & Ec & Ec' & H1 & P1 & P1'). rewrite Ec, Ec'.
    destruct (nstep_lt r1 r1' H1 ltac:(lia)) as [En Hn].
    destruct (isSpaceTabOrLineEnding c); cbv zeta; destruct (next r1) as [ok r2]; destruct (next r1') as [ok' r2']; cbn [fst snd] in *; subst ok'; destruct ok; cbn [negb]; try reflexivity.
    - apply tlr_skip_pr; [exact He| |exact Hn]. intros x x' Hx. apply IH; assumption.
    - apply IH; assumption.
  Qed.
  Lemma PR_new ik1 p : GSp ik1 -> spW Q (ik1 ++ X) = true -> PR (newReader Q ik1 p) (newReader Q (ik1 ++ X) p).
  Proof.
    intros G W. unfold PR, newReader. cbn. repeat (split; [reflexivity|]). split; [exists X; split; [left; reflexivity|reflexivity]|]. split; [exact G|exact W].
  Qed.
  Lemma collectTextNodes_pr f ik1 p e tk esc : GSp ik1 -> spW Q (ik1 ++ X) = true -> e < E ->
    collectTextNodes f (newReader Q (ik1 ++ X) p) e tk esc = collectTextNodes f (newReader Q ik1 p) e tk esc.
  Proof. intros G W He. unfold collectTextNodes. rewrite (collect_loop_pr f _ _ e tk esc _ [] (PR_new ik1 p G W) He). reflexivity. Qed.
  Lemma tlrs_pr f ik1 s e : GSp ik1 -> spW Q (ik1 ++ X) = true -> e < E ->
    transformLinkReferenceSpan f Q (ik1 ++ X) s e = transformLinkReferenceSpan f Q ik1 s e.
  Proof. intros G W He. unfold transformLinkReferenceSpan. rewrite (tlr_loop_pr f _ _ e [] (PR_new ik1 s G W) He). reflexivity. Qed.
End PF.
(* ====================================================================================================================
   What the lemmas above are for (T66 part (1), NOT closed): a root that is a link reference definition.
   Full statement of the missing step on onCloseParagraph ("the first definition depends only on the entries before its end"):
   the paragraph x has the entries ik1 ++ X, ik1 ending at or before E, X starting at or after E; when closing x gives a
   definition d with end E first, closing the paragraph x1 with the entries ik1 alone gives exactly [d].
   Proved here: the bisimulation PR of the two readers, the characterisation of the only point where they part (PR_next / Cross:
   the step over the line ending at E - 1), the forward lemmas *_fw for every scanner of Link.v, readEOL_fw with CrossedEOL,
   collect_loop_pr / tlr_loop_pr for ranges that end before E, ocp_loop_pre.
   Missing for the statement: the case analysis of the first iteration of ocp_loop, which needs two more invariants --
   on the long run "a span found before the crossing ends before E" (strict progress of parseLinkDestination / parseLinkTitle),
   on the short run "the reader is inside a span or exhausted at E" (so that the step over the line ending fails at E exactly).
   ReparseOcpPrefixTest.v checks the statement by vm_compute on paragraphs holding definitions.
   ==================================================================================================================== *)
Definition first_def_statement : Prop :=
  forall (Q : bytes) (E : Z) (x x1 : block) (X : list inline) (d : block) (rest : list block),
    0 <= E < len Q -> (forall i, 0 <= i < len Q -> at_ Q i <> 0) ->
    bkind x = ParagraphKind -> bkind x1 = ParagraphKind -> bik x = bik x1 ++ X ->
    Forall (fun u => E <= istart u) X -> GSp Q E (bik x1) -> spW Q (bik x) = true ->
    onCloseParagraph Q x = d :: rest -> bkind d = LinkReferenceDefinitionKind -> bend d = E ->
    onCloseParagraph Q x1 = [d].
Print Assumptions PR_next.
Print Assumptions parseLinkLabel_fw.
Print Assumptions parseLinkDestination_fw.
Print Assumptions parseLinkTitle_fw.
Print Assumptions readEOL_fw.
Print Assumptions collectTextNodes_pr.
Print Assumptions tlrs_pr.
