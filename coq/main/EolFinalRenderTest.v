From Coq Require Import List ZArith Lia Bool String Ascii.
Import ListNotations.
Require Import Base Tree Driver Inl3e Render BSTest EolFinalDefs.
Open Scope Z_scope.

Definition c0 := {| softBreak := 0; ignoreRaw := false; filterOn := false; filterP := fun _ => false |}.
Definition c1 := {| softBreak := 1; ignoreRaw := false; filterOn := false; filterP := fun _ => false |}.
Definition c2 := {| softBreak := 2; ignoreRaw := false; filterOn := true; filterP := fun n => Utf8.bytes_eqb n [115;99;114;105;112;116] |}.
Definition c3 := {| softBreak := 0; ignoreRaw := true; filterOn := false; filterP := fun _ => false |}.
Definition c4 := {| softBreak := 2; ignoreRaw := true; filterOn := true; filterP := fun n => Utf8.bytes_eqb n [115;99;114;105;112;116] |}.
Definition cfgs := [c0;c1;c2;c3;c4].
Fixpoint beq (a b : bytes) : bool := match a, b with [], [] => true | x :: a', y :: b' => (x =? y) && beq a' b' | _, _ => false end.
(* 0: equal; 1: new = old ++ [10]; 2: something else *)
Definition cls (c : cfg) (d : bytes) : Z :=
  let o := renderDoc c d in let n := renderDoc c (d ++ [10])%list in
  if beq n o then 0 else if beq n (o ++ [10])%list then 1 else 2.
Definition tst (d : bytes) : list Z := map (fun c => cls c d) cfgs.
Open Scope string_scope.
Definition f1 := bs ("para line one" ++ nl ++ "line two").
Definition f2 := bs ("# heading").
Definition f3 := bs ("Setext" ++ nl ++ "===").
Definition f4 := bs ("```go" ++ nl ++ "code 1" ++ nl ++ "code 2").
Definition f5 := bs ("```" ++ nl ++ "code" ++ nl ++ "```").
Definition f6 := bs ("    indented" ++ nl ++ nl ++ "    more").
Definition f7 := bs ("<div>" ++ nl ++ "html *x*").
Definition f8 := bs ("<div>" ++ nl ++ "html" ++ nl ++ "</div>").
Definition f9 := bs ("<!-- c" ++ nl ++ "d --> x").
Definition f10 := bs ("> quote" ++ nl ++ "lazy").
Definition f11 := bs ("> ```" ++ nl ++ "> code").
Definition f12 := bs ("- a" ++ nl ++ "- b" ++ nl ++ "  - c").
Definition f13 := bs ("1. x" ++ nl ++ nl ++ "   ```" ++ nl ++ "   y").
Definition f14 := bs ("[foo]: /url 'title'").
Definition f15 := bs ("[foo]: /url" ++ nl ++ nl ++ "[foo]").
Definition f16 := bs ("[foo]: /url 'tit" ++ nl ++ "le'" ++ nl ++ "[foo] x").
Definition f17 := bs ("a `code" ++ nl ++ "span` b").
Definition f18 := bs ("trailing  ").
Definition f19 := bs ("hard\").
Definition f20 := bs ("x <b y='z'").
Definition f21 := bs ("x <b y='z'> w").
Definition f22 := bs ("[link](/dest ""ti" ++ nl ++ "tle"") end").
Definition f23 := bs ("* * *").
Definition f24 := bs ("-").
Definition f25 := bs ("- ").
Definition f26 := bs ("~~~" ++ nl).
Definition f27 := bs ("~~~").
Definition f28 := bs ("<script>" ++ nl ++ "a" ++ nl ++ nl ++ "b").
Definition f29 := bs ("text" ++ tab).
Definition f30 := bs (tab ++ "code" ++ tab).
Definition f31 := bs ("> <div>" ++ nl ++ "> x").
Definition f32 := bs ("- <div>" ++ nl ++ "  x").
Definition f33 := bs ("a&amp").
Definition f34 := bs ("&amp;").
Definition f35 := bs ("*emph*").
Definition f36 := bs ("![img](/x").
Definition f37 := bs ("    ").
Definition f38 := bs ("a" ++ nl ++ "    ").
Definition f39 := bs ("```" ++ nl ++ "    ").
Definition f40 := bs ("<a").
(* inputs ending in '>' : excluded by the block-level theorem *)
Definition g1 := bs (" <?>").
Definition g2 := bs ("<div>").
Definition g3 := bs ("<!-- x -->").
Definition g4 := bs ("x <b>").
Definition g5 := bs ("> q" ++ nl ++ ">").
Definition g6 := bs ("<?php" ++ nl ++ "x ?>").
Definition g7 := bs ("<http://a.b>").
Definition g8 := bs ("```" ++ nl ++ "a>").
Definition fdocs := [f1;f2;f3;f4;f5;f6;f7;f8;f9;f10;f11;f12;f13;f14;f15;f16;f17;f18;f19;f20;f21;f22;f23;f24;f25;f26;f27;f28;f29;f30;f31;f32;f33;f34;f35;f36;f37;f38;f39;f40].
Definition gdocs := [g1;g2;g3;g4;g5;g6;g7;g8].
Eval vm_compute in map tst fdocs.
Eval vm_compute in map tst gdocs.
