(* ChkE2.v -- T30, stage 3: the entry bounds through the onClose handlers and closeBlock. *)
From Coq Require Import List ZArith Lia Bool.
Import ListNotations.
Require Import Base Tree Rdr Link Collect Html Recog LP Rules Starts Driver L2Kind2 ShapesBase ChkW1 ChkW2 ChkE1.
Open Scope Z_scope.

Lemma hasRefL_map g : (forall c, hasRefB (g c) = hasRefB c) -> forall l, hasRefL (map g l) = hasRefL l.
Proof. intros Hg. unfold hasRefL. induction l as [|k r IH]; [reflexivity|]. cbn [map existsb]. rewrite Hg, IH. reflexivity. Qed.
Lemma EbL_map M U g : (forall c, Eb M U (g c) = Eb M U c) -> forall l, EbL M U (map g l) = EbL M U l.
Proof. intros Hg. unfold EbL. induction l as [|k r IH]; [reflexivity|]. cbn [map forallb]. rewrite Hg, IH. reflexivity. Qed.
Lemma hasRefB_set_bloose b v : hasRefB (set_bloose b v) = hasRefB b. Proof. apply hasRefB_ext; destruct b; reflexivity. Qed.
Lemma Eb_set_bloose M U b v : Eb M U (set_bloose b v) = Eb M U b. Proof. apply Eb_ext; destruct b; reflexivity. Qed.

Lemma hasRefB_onCloseList b : hasRefB (onCloseList b) = hasRefB b.
Proof.
  unfold onCloseList. cbv zeta. destruct (bloose b || _); [|reflexivity].
  rewrite hasRefB_set_bkids. rewrite (hasRefL_map _ (fun c => hasRefB_set_bloose c true)).
  rewrite hasRefB_eq. destruct b; reflexivity.
Qed.
Lemma Eb_onCloseList M U b : Eb M U (onCloseList b) = Eb M U b.
Proof.
  unfold onCloseList. cbv zeta. destruct (bloose b || _); [|reflexivity].
  rewrite (Eb_eq M U b), Eb_eq. destruct b as [K s e bk ik a n c l lb]. cbn [set_bkids set_bloose bstart bend bik bkids].
  rewrite (EbL_map M U _ (fun c => Eb_set_bloose M U c true)). reflexivity.
Qed.

Lemma hasRefB_set_bik b ik : hasRefB (set_bik b ik) = hasRefB b. Proof. apply hasRefB_ext; destruct b; reflexivity. Qed.
Lemma Eb_set_bik_sub M U b ik : Eb M U b = true -> (forall x, In x ik -> In x (bik b)) -> Eb M U (set_bik b ik) = true.
Proof.
  intros H Hs. apply Eb_parts in H. destruct H as (A & B & C). apply Eb_mk; [destruct b; exact A| |destruct b; exact C].
  replace (bstart (set_bik b ik)) with (bstart b) by (destruct b; reflexivity). replace (bend (set_bik b ik)) with (bend b) by (destruct b; reflexivity).
  replace (bik (set_bik b ik)) with ik by (destruct b; reflexivity). rewrite forallb_forall in *. intros u Hu. apply B, Hs, Hu.
Qed.
Lemma onCloseIndented_sub s0 b x : In x (bik (onCloseIndented s0 b)) -> In x (bik b).
Proof.
  unfold onCloseIndented. cbv zeta. replace (bik (set_bik b _)) with (rev (trimBlankTail s0 (rev
    (match rev (bik b) with
     | [] => bik b
     | [last] => bik b
     | last :: prev :: r => if (ikind last =? SoftLineBreakKind) && (iend last - istart last =? 0) && (ikind prev =? TextKind) && isBlankLine (sub s0 (istart prev) (iend prev)) then rev (prev :: r) else bik b
     end)))) by (destruct b; reflexivity).
  intros Hx. apply in_rev in Hx. apply trimBlankTail_sub in Hx. apply in_rev in Hx.
  destruct (rev (bik b)) as [|lst [|prev r]] eqn:Er; try exact Hx.
  destruct (_ && _ && _ && _); [|exact Hx].
  apply in_rev in Hx. apply in_rev. rewrite Er. right. exact Hx.
Qed.

Lemma hasRefB_refDef s e kids : hasRefB (refDefBlock s e kids) = true. Proof. reflexivity. Qed.

Lemma hasRefB_cut orig pos ik : hasRefB (set_bik (set_bstart orig pos) ik) = hasRefB orig.
Proof. apply hasRefB_ext; destruct orig; reflexivity. Qed.

(* onCloseParagraph: either the block is kept as it is, or a link reference definition comes first *)
Lemma ocp_EP M U : forall fuel rfuel s0 orig orphan r result,
  ((hasRefL result = true /\ EP M U result = true) \/ (result = [] /\ EbH M U orig)) ->
  EP M U (ocp_loop fuel rfuel s0 orig orphan r result) = true.
Proof.
  induction fuel as [|f IH]; intros rfuel s0 orig orphan r result Hres.
  - cbn [ocp_loop]. destruct Hres as [[A B]|[-> B]]; [apply EP_ref; assumption|]. cbn [app EP]. destruct B as [B|B]; rewrite B; [reflexivity|apply orb_true_r].
  - assert (Hkeep : EP M U (result ++ [orig]) = true).
    { destruct Hres as [[A B]|[-> B]]; [apply EP_ref; assumption|]. cbn [app EP]. destruct B as [B|B]; rewrite B; [reflexivity|apply orb_true_r]. }
    assert (Hsn : forall k, hasRefB k = true -> hasRefL (result ++ [k]) = true /\ EP M U (result ++ [k]) = true).
    { intros k Hk. split; [rewrite hasRefL_app; cbn [hasRefL existsb]; rewrite Hk; rewrite orb_true_r; reflexivity|].
      destruct Hres as [[A B]|[-> B]]; [apply EP_ref; assumption|]. cbn [app EP]. rewrite Hk. reflexivity. }
    assert (Hwo : forall res, hasRefL res = true -> EP M U res = true -> EP M U (match orphan with Some o => res ++ [o] | None => res end) = true).
    { intros res A B. destruct orphan as [o|]; [apply EP_ref; assumption|exact B]. }
    cbn [ocp_loop]. cbv zeta.
    destruct (parseLinkLabel rfuel r) as [[lspan linner] r1].
    destruct (negb (spanValid lspan)); [assumption|].
    destruct (current r1) as [c r2]. destruct (negb (c =? 58)); [assumption|].
    destruct (next r2) as [? r3]. destruct (skipLinkSpace rfuel r3) as [ok r4]. destruct (negb ok); [assumption|].
    destruct (parseLinkDestination rfuel r4) as [[dspan dtext] r5]. destruct (negb (spanValid dspan)); [assumption|].
    destruct (readEOL rfuel r5) as [destEOL r6]. destruct (current r6) as [c6 r7].
    destruct (_ && _ && _); [assumption|].
    set (labelInline := Inl LinkLabelKind _ _ 0 _ _). set (destInline := Inl LinkDestinationKind _ _ 0 [] _).
    destruct (Hsn (refDefBlock (fst lspan) destEOL [labelInline; destInline]) eq_refl) as [H2a H2b].
    destruct (skipLinkSpace rfuel r7) as [ok2 r8]. destruct (negb ok2); [apply Hwo; assumption|].
    destruct (parseLinkTitle rfuel r8) as [[tspan ttext] r9].
    destruct (negb (spanValid tspan)).
    { destruct (destEOL <? 0); [assumption|]. destruct (_ <? 0); [apply Hwo; assumption|].
      apply IH. left. split; assumption. }
    destruct (readEOL rfuel r9) as [titleEOL r10].
    destruct (titleEOL <? 0).
    { destruct (destEOL <? 0); [assumption|]. destruct (_ <? 0); [apply Hwo; assumption|].
      rewrite app_assoc. apply EP_ref; assumption. }
    set (titleInline := Inl LinkTitleKind _ _ 0 [] _).
    destruct (Hsn (refDefBlock (fst lspan) titleEOL [labelInline; destInline; titleInline]) eq_refl) as [H3a H3b].
    destruct (_ <? 0); [apply Hwo; assumption|]. apply IH. left. split; assumption.
Qed.
Lemma ocp_hasRef : forall fuel rfuel s0 orig orphan r result,
  hasRefB orig = true \/ hasRefL result = true -> hasRefL (ocp_loop fuel rfuel s0 orig orphan r result) = true.
Proof.
  induction fuel as [|f IH]; intros rfuel s0 orig orphan r result H.
  - cbn [ocp_loop]. rewrite hasRefL_app. cbn [hasRefL existsb]. destruct H as [H|H]; rewrite H; rewrite ?orb_true_r; reflexivity.
  - assert (Hkeep : hasRefL (result ++ [orig]) = true).
    { rewrite hasRefL_app. cbn [hasRefL existsb]. destruct H as [H|H]; rewrite H; rewrite ?orb_true_r; reflexivity. }
    assert (Hsn : forall k, hasRefB k = true -> hasRefL (result ++ [k]) = true).
    { intros k Hk. rewrite hasRefL_app; cbn [hasRefL existsb]; rewrite Hk; rewrite orb_true_r; reflexivity. }
    assert (Hwo : forall res, hasRefL res = true -> hasRefL (match orphan with Some o => res ++ [o] | None => res end) = true).
    { intros res A. destruct orphan as [o|]; [rewrite hasRefL_app, A; reflexivity|exact A]. }
    cbn [ocp_loop]. cbv zeta.
    destruct (parseLinkLabel rfuel r) as [[lspan linner] r1].
    destruct (negb (spanValid lspan)); [assumption|].
    destruct (current r1) as [c r2]. destruct (negb (c =? 58)); [assumption|].
    destruct (next r2) as [? r3]. destruct (skipLinkSpace rfuel r3) as [ok r4]. destruct (negb ok); [assumption|].
    destruct (parseLinkDestination rfuel r4) as [[dspan dtext] r5]. destruct (negb (spanValid dspan)); [assumption|].
    destruct (readEOL rfuel r5) as [destEOL r6]. destruct (current r6) as [c6 r7].
    destruct (_ && _ && _); [assumption|].
    set (labelInline := Inl LinkLabelKind _ _ 0 _ _). set (destInline := Inl LinkDestinationKind _ _ 0 [] _).
    pose proof (Hsn (refDefBlock (fst lspan) destEOL [labelInline; destInline]) eq_refl) as H2.
    destruct (skipLinkSpace rfuel r7) as [ok2 r8]. destruct (negb ok2); [apply Hwo; assumption|].
    destruct (parseLinkTitle rfuel r8) as [[tspan ttext] r9].
    destruct (negb (spanValid tspan)).
    { destruct (destEOL <? 0); [assumption|]. destruct (_ <? 0); [apply Hwo; assumption|]. apply IH. right. exact H2. }
    destruct (readEOL rfuel r9) as [titleEOL r10].
    destruct (titleEOL <? 0).
    { destruct (destEOL <? 0); [assumption|]. destruct (_ <? 0); [apply Hwo; assumption|].
      rewrite app_assoc, hasRefL_app, H2. reflexivity. }
    set (titleInline := Inl LinkTitleKind _ _ 0 [] _).
    pose proof (Hsn (refDefBlock (fst lspan) titleEOL [labelInline; destInline; titleInline]) eq_refl) as H3.
    destruct (_ <? 0); [apply Hwo; assumption|]. apply IH. right. exact H3.
Qed.
Lemma EP_onCloseParagraph M U s0 orig : EbH M U orig -> EP M U (onCloseParagraph s0 orig) = true.
Proof.
  intros H. unfold onCloseParagraph. destruct (bik orig) as [|first rest] eqn:Eb0.
  - cbn [EP]. destruct H as [H|H]; rewrite H; [reflexivity|apply orb_true_r].
  - cbv zeta. apply ocp_EP. right. split; [reflexivity|exact H].
Qed.
Lemma hasRef_onCloseParagraph s0 orig : hasRefB orig = true -> hasRefL (onCloseParagraph s0 orig) = true.
Proof.
  intros H. unfold onCloseParagraph. destruct (bik orig) as [|first rest]; [cbn; rewrite H; reflexivity|].
  cbv zeta. apply ocp_hasRef. left. exact H.
Qed.

(* ---- closeBlock ---- *)
Lemma eb_close s e0 e U u : e0 < 0 -> 0 <= e -> U <= e -> eb s e0 U u = true -> eb s e U u = true.
Proof.
  intros H0 He HU. unfold eb. destruct (negb (cons3 u)); [reflexivity|]. cbn [orb]. intros H. apply andb_true_iff in H. destruct H as [A B].
  rewrite A. cbn [andb]. replace (e0 <? 0) with true in B by (symmetry; apply Z.ltb_lt; lia).
  replace (e <? 0) with false by (symmetry; apply Z.ltb_ge; lia). apply Z.leb_le in B. apply Z.leb_le. lia.
Qed.
Lemma Eb_set_bend M U b e : isOpen b = true -> 0 <= e -> U <= e -> Eb M U b = true -> Eb M U (set_bend b e) = true.
Proof.
  intros Ho He HU H. apply Eb_parts in H. destruct H as (A & B & C). unfold isOpen in Ho. apply Z.ltb_lt in Ho.
  apply Eb_mk; [destruct b; exact A| |destruct b; exact C].
  replace (bstart (set_bend b e)) with (bstart b) by (destruct b; reflexivity). replace (bend (set_bend b e)) with e by (destruct b; reflexivity).
  replace (bik (set_bend b e)) with (bik b) by (destruct b; reflexivity). rewrite forallb_forall in *. intros u Hu.
  apply (eb_close _ (bend b)); [exact Ho|exact He|exact HU|apply B, Hu].
Qed.
Lemma hasRefB_set_bend b e : hasRefB (set_bend b e) = hasRefB b. Proof. apply hasRefB_ext; destruct b; reflexivity. Qed.

Lemma E_closeBlock M U s0 e : 0 <= e -> U <= e -> forall fuel b,
  (EbH M U b -> EP M U (closeBlock fuel s0 b e) = true) /\ (hasRefB b = true -> hasRefL (closeBlock fuel s0 b e) = true).
Proof.
  intros He HU. induction fuel as [|f IH]; intros b.
  { cbn [closeBlock]. split; [intros [H|H]; cbn [EP]; rewrite H; [reflexivity|apply orb_true_r]|intros H; cbn; rewrite H; reflexivity]. }
  cbn [closeBlock]. destruct (isOpen b) eqn:Eo; cbn [negb].
  2:{ split; [intros [H|H]; cbn [EP]; rewrite H; [reflexivity|apply orb_true_r]|intros H; cbn; rewrite H; reflexivity]. }
  cbv zeta.
  set (cl := fun x : block => match lastBlock x with Some c => set_lastBlocks x (closeBlock f s0 c e) | None => x end).
  assert (Hcl : forall y, (EbH M U y -> EbH M U (cl y)) /\ (hasRefB y = true -> hasRefB (cl y) = true)).
  { intros y. unfold cl. destruct (lastBlock y) as [c|] eqn:El; [|tauto]. destruct (IH c) as [I1 I2].
    assert (Hp : hasRefB y = true -> hasRefB (set_lastBlocks y (closeBlock f s0 c e)) = true).
    { intros Hy. apply (hasRefB_set_lastBlocks y c _ El Hy). exact I2. }
    split; [|exact Hp]. intros [Hy|Hy]; [left; apply Hp, Hy|].
    apply (EbH_set_lastBlocks M U y c _ El (or_intror Hy)); [|exact I2].
    apply I1. right. eapply EbH_lastBlock; eassumption. }
  assert (H1 : EbH M U b -> EbH M U (set_bend b e)).
  { intros [H|H]; [left; rewrite hasRefB_set_bend; exact H|right; apply Eb_set_bend; assumption]. }
  assert (P1 : hasRefB b = true -> hasRefB (set_bend b e) = true) by (rewrite hasRefB_set_bend; tauto).
  assert (Hone : forall x, (EbH M U b -> EbH M U x) -> (hasRefB b = true -> hasRefB x = true) ->
            (EbH M U b -> EP M U [x] = true) /\ (hasRefB b = true -> hasRefL [x] = true)).
  { intros x Hx Px. split.
    - intros Hb. cbn [EP]. destruct (Hx Hb) as [R|R]; rewrite R; [reflexivity|apply orb_true_r].
    - intros Hb. cbn [hasRefL existsb]. rewrite (Px Hb). reflexivity. }
  destruct (bkind (set_bend b e) =? ListKind).
  { apply Hone.
    - intros Hb. apply (proj1 (Hcl _)). destruct (H1 Hb) as [R|R]; [left; rewrite hasRefB_onCloseList; exact R|right; rewrite Eb_onCloseList; exact R].
    - intros Hb. apply (proj2 (Hcl _)). rewrite hasRefB_onCloseList. apply P1, Hb. }
  destruct (bkind (set_bend b e) =? IndentedCodeBlockKind).
  { apply Hone.
    - intros Hb. apply (proj1 (Hcl _)). destruct (H1 Hb) as [R|R].
      + left. unfold onCloseIndented. cbv zeta. rewrite hasRefB_set_bik. exact R.
      + right. replace (onCloseIndented s0 (set_bend b e)) with (set_bik (set_bend b e) (bik (onCloseIndented s0 (set_bend b e))))
          by (unfold onCloseIndented; cbv zeta; destruct (set_bend b e); reflexivity).
        apply Eb_set_bik_sub; [exact R|]. intros x Hx. eapply onCloseIndented_sub; exact Hx.
    - intros Hb. apply (proj2 (Hcl _)). unfold onCloseIndented. cbv zeta. rewrite hasRefB_set_bik. apply P1, Hb. }
  destruct (_ || _).
  { split; [intros Hb; apply EP_onCloseParagraph, H1, Hb|intros Hb; apply hasRef_onCloseParagraph, P1, Hb]. }
  apply Hone; [intros Hb; apply (proj1 (Hcl _)), H1, Hb|intros Hb; apply (proj2 (Hcl _)), P1, Hb].
Qed.

(* closing an open block, given the invariant of the block once its end is set *)
Lemma E_closeBlock_closed M U s0 e f b : 0 <= e -> U <= e -> isOpen b = true ->
  (EbH M U (set_bend b e) -> EP M U (closeBlock (S f) s0 b e) = true) /\
  (hasRefB b = true -> hasRefL (closeBlock (S f) s0 b e) = true).
Proof.
  intros He HU Eo. cbn [closeBlock]. rewrite Eo. cbn [negb]. cbv zeta.
  set (cl := fun x : block => match lastBlock x with Some c => set_lastBlocks x (closeBlock f s0 c e) | None => x end).
  assert (Hcl : forall y, (EbH M U y -> EbH M U (cl y)) /\ (hasRefB y = true -> hasRefB (cl y) = true)).
  { intros y. unfold cl. destruct (lastBlock y) as [c|] eqn:El; [|tauto]. destruct (E_closeBlock M U s0 e He HU f c) as [I1 I2].
    assert (Hp : hasRefB y = true -> hasRefB (set_lastBlocks y (closeBlock f s0 c e)) = true).
    { intros Hy. apply (hasRefB_set_lastBlocks y c _ El Hy). exact I2. }
    split; [|exact Hp]. intros [Hy|Hy]; [left; apply Hp, Hy|].
    apply (EbH_set_lastBlocks M U y c _ El (or_intror Hy)); [|exact I2].
    apply I1. right. eapply EbH_lastBlock; eassumption. }
  assert (P1 : hasRefB b = true -> hasRefB (set_bend b e) = true) by (rewrite hasRefB_set_bend; tauto).
  assert (Hone : forall x, (EbH M U (set_bend b e) -> EbH M U x) -> (hasRefB b = true -> hasRefB x = true) ->
            (EbH M U (set_bend b e) -> EP M U [x] = true) /\ (hasRefB b = true -> hasRefL [x] = true)).
  { intros x Hx Px. split.
    - intros Hb. cbn [EP]. destruct (Hx Hb) as [R|R]; rewrite R; [reflexivity|apply orb_true_r].
    - intros Hb. cbn [hasRefL existsb]. rewrite (Px Hb). reflexivity. }
  destruct (bkind (set_bend b e) =? ListKind).
  { apply Hone.
    - intros Hb. apply (proj1 (Hcl _)). destruct Hb as [R|R]; [left; rewrite hasRefB_onCloseList; exact R|right; rewrite Eb_onCloseList; exact R].
    - intros Hb. apply (proj2 (Hcl _)). rewrite hasRefB_onCloseList. apply P1, Hb. }
  destruct (bkind (set_bend b e) =? IndentedCodeBlockKind).
  { apply Hone.
    - intros Hb. apply (proj1 (Hcl _)). destruct Hb as [R|R].
      + left. unfold onCloseIndented. cbv zeta. rewrite hasRefB_set_bik. exact R.
      + right. replace (onCloseIndented s0 (set_bend b e)) with (set_bik (set_bend b e) (bik (onCloseIndented s0 (set_bend b e))))
          by (unfold onCloseIndented; cbv zeta; destruct (set_bend b e); reflexivity).
        apply Eb_set_bik_sub; [exact R|]. intros x Hx. eapply onCloseIndented_sub; exact Hx.
    - intros Hb. apply (proj2 (Hcl _)). unfold onCloseIndented. cbv zeta. rewrite hasRefB_set_bik. apply P1, Hb. }
  destruct (_ || _).
  { split; [intros Hb; apply EP_onCloseParagraph, Hb|intros Hb; apply hasRef_onCloseParagraph, P1, Hb]. }
  apply Hone; [intros Hb; apply (proj1 (Hcl _)), Hb|intros Hb; apply (proj2 (Hcl _)), P1, Hb].
Qed.

(* closing the last child of a block (the function used by closeLastChildAt) *)
Definition CLf' (h : nat) (s0 : bytes) (e : Z) (b : block) : block :=
  match lastBlock b with Some c => set_lastBlocks b (closeBlock h s0 c e) | None => b end.
Lemma E_CLf M U h s0 e : 0 <= e -> U <= e -> forall b,
  (ER M U b = true -> ER M U (CLf' h s0 e b) = true) /\ (Eb M U b = true -> EbH M U (CLf' h s0 e b)) /\
  (hasRefB b = true -> hasRefB (CLf' h s0 e b) = true).
Proof.
  intros He HU b. unfold CLf'. destruct (lastBlock b) as [c|] eqn:El; [|split; [tauto|split; [intros H; right; exact H|tauto]]].
  destruct (E_closeBlock M U s0 e He HU h c) as [I1 I2]. split; [|split].
  - intros H. apply (ER_set_lastBlocks M U b c _ El H); assumption.
  - intros H. apply (EbH_set_lastBlocks M U b c _ El (or_intror H)); [|exact I2]. apply I1. right. eapply EbH_lastBlock; eassumption.
  - intros H. apply (hasRefB_set_lastBlocks b c _ El H). exact I2.
Qed.
