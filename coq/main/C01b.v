From Coq Require Import List ZArith Lia Bool.
Import ListNotations.
Require Import Base Tree Rdr Link Collect Html Recog LP Rules Starts Driver C01a.
Open Scope Z_scope.

(* C01, bookkeeping facts about NUL padding: every clause is for every byte string *)
Definition replaceNul (l : bytes) : bytes := flat_map (fun b => if b =? 0 then [239; 191; 189] else [b]) l.

Lemma pad_app a b : pad (a ++ b) = pad a ++ pad b.
Proof. unfold pad. apply flat_map_app. Qed.
Lemma nullCount_app a b : nullCount (a ++ b) = nullCount a + nullCount b.
Proof. induction a as [|x a IH]; [reflexivity|]. cbn [app nullCount]. rewrite IH. lia. Qed.
Lemma nullCount_pad l : nullCount (pad l) = 3 * nullCount l.
Proof.
  induction l as [|b r IH]; [reflexivity|]. change (pad (b :: r)) with ((if b =? 0 then [0;0;0] else [b]) ++ pad r).
  rewrite nullCount_app, IH. cbn [nullCount]. destruct (b =? 0) eqn:E.
  - change (nullCount [0;0;0]) with 3. lia.
  - cbn [nullCount]. rewrite E. lia.
Qed.
Lemma len_pad l : len (pad l) = len l + 2 * nullCount l.
Proof.
  induction l as [|b r IH]; [reflexivity|]. change (pad (b :: r)) with ((if b =? 0 then [0;0;0] else [b]) ++ pad r).
  unfold len in *. rewrite app_length. cbn [nullCount length]. destruct (b =? 0); cbn [length]; lia.
Qed.
Theorem unpadded_pad l : unpadded (pad l) = len l.
Proof.
  unfold unpadded. rewrite nullCount_pad, len_pad. replace (3 * nullCount l) with (nullCount l * 3) by lia.
  rewrite Z.div_mul by lia. lia.
Qed.

Theorem fill_pad l : fillNulls (pad l) = replaceNul l.
Proof.
  unfold fillNulls. induction l as [|b r IH]; [reflexivity|].
  change (pad (b :: r)) with ((if b =? 0 then [0;0;0] else [b]) ++ pad r).
  change (replaceNul (b :: r)) with ((if b =? 0 then [239;191;189] else [b]) ++ replaceNul r).
  destruct (b =? 0) eqn:E.
  - cbn [app fill_aux Z.eqb]. rewrite IH. reflexivity.
  - cbn [app fill_aux]. rewrite E, IH. reflexivity.
Qed.

Lemma pad_head b r : exists t, pad (b :: r) = (if b =? 0 then 0 else b) :: t /\ (b =? 0 = false -> t = pad r).
Proof. change (pad (b :: r)) with ((if b =? 0 then [0;0;0] else [b]) ++ pad r). destruct (b =? 0); eexists; split; try reflexivity; discriminate. Qed.
Lemma hd_pad_10 r : (match pad r with c :: _ => c =? 10 | [] => false end) = (match r with c :: _ => c =? 10 | [] => false end).
Proof.
  destruct r as [|c r]; [reflexivity|]. change (pad (c :: r)) with ((if c =? 0 then [0;0;0] else [c]) ++ pad r).
  destruct (c =? 0) eqn:E; cbn [app]; [apply Z.eqb_eq in E; subst c; reflexivity|reflexivity].
Qed.
Theorem lineCount_pad l : lineCount (pad l) = lineCount l.
Proof.
  induction l as [|b r IH]; [reflexivity|].
  change (pad (b :: r)) with ((if b =? 0 then [0;0;0] else [b]) ++ pad r).
  destruct (b =? 0) eqn:E.
  - apply Z.eqb_eq in E. subst b. cbn [app lineCount Z.eqb]. rewrite IH. lia.
  - cbn [app lineCount]. rewrite IH. f_equal.
    destruct (b =? 10); [reflexivity|]. destruct (b =? 13); [|reflexivity].
    pose proof (hd_pad_10 r) as Hh.
    assert (G : forall (x y : bytes), (match x with c :: _ => c =? 10 | [] => false end) = (match y with c :: _ => c =? 10 | [] => false end) ->
                match x with c :: _ => if c =? 10 then 0 else 1 | [] => 1 end = match y with c :: _ => if c =? 10 then 0 else 1 | [] => 1 end).
    { intros x y Hxy. destruct x as [|c t]; destruct y as [|c' t']; try reflexivity.
      - destruct (c' =? 10); [discriminate|reflexivity].
      - destruct (c =? 10); [discriminate|reflexivity].
      - rewrite Hxy. reflexivity. }
    apply G, Hh.
Qed.

(* the in-memory entry point starts from the padded input at offset 0, line 1 *)
Lemma unpadded_nil : unpadded [] = 0. Proof. reflexivity. Qed.
Print Assumptions unpadded_pad. Print Assumptions fill_pad. Print Assumptions lineCount_pad.
