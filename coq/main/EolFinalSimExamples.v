From Coq Require Import List ZArith Lia Bool String Ascii.
Import ListNotations.
Require Import Base Tree Driver EolFinalDefs EolBounded.
Open Scope Z_scope.

(* C14 (i), final newline: instances of the full statement on inputs WITH '[' (link reference definitions at the end of
   the input, with and without titles, inside containers, before setext underlines), checked by computation inside Coq
   with the boolean tree equality of EolBounded.v.  They are outside the scope of parseBlocks_final_newline_nobracket. *)
Definition nlS := String (ascii_of_nat 10) EmptyString.
Definition tbS := String (ascii_of_nat 9) EmptyString.
Fixpoint bsS (s : string) : bytes := match s with EmptyString => [] | String c r => Z.of_nat (nat_of_ascii c) :: bsS r end.
Definition finStmt (s : bytes) : Prop :=
  s <> [] -> endsEol s = false -> lastByte s <> 62 ->
  parseBlocks (s ++ [10]) = (finRoots (len s) (fst (parseBlocks s)), snd (parseBlocks s)).
Definition chkFinS (s : bytes) : bool :=
  beqRes (parseBlocks (s ++ [10])) (finRoots (len s) (fst (parseBlocks s)), snd (parseBlocks s)).
Open Scope string_scope.
Definition bracketTests : list string := [
 "[a]: b"; "[a]: b 'c'"; "[a]: b" ++ nlS ++ "'c'"; "[a]: b 'c' x"; "[a]: b" ++ nlS ++ "'c"; "[a]:" ++ nlS ++ "b"; "[a]: <b"; "[a]: b ""c\";
 "[a]: b" ++ nlS ++ "[c]: d"; "x" ++ nlS ++ "[a]: b"; "[a]: b" ++ nlS ++ "==="; "[a]: b 'c'" ++ nlS ++ "==="; "> [a]: b"; "- [a]: b"; "[a]: b" ++ tbS; "[a]: b 'c' ";
 "[a]: b '" ++ nlS ++ "c'"; "[a]"; "[a]: b\"; "[a]: b 'c" ++ nlS ++ nlS ++ "d'"; "[a]: b" ++ nlS ++ "c"; "[a]: b 'c'" ++ nlS ++ "d"; "[a]: b" ++ nlS ++ "'c' d";
 "[a]: b" ++ nlS ++ "'c' "; "[a]:"; "[a]: "; "[a" ; "[a]: b (c)"; "[a]: b (c"; "[a]: b" ++ nlS ++ "(c)"; "[a]: <b> 'c'"; "[a]: <b>'c'";
 "[a]: b" ++ nlS ++ "   'c'"; "[a]: b" ++ nlS ++ "    'c'"; "  [a]: b"; "[a]: b" ++ nlS ++ "- x"; "- [a]: b" ++ nlS ++ "  'c'"; "> [a]: b" ++ nlS ++ "'c'"; "> [a]: b" ++ nlS ++ "> 'c'";
 "[a]: b" ++ nlS ++ "[c]"; "[a]: b" ++ nlS ++ "[c]:"; "[a]: b" ++ nlS ++ "[c]: "; "[a]: b" ++ nlS ++ "[c]: d 'e"; "[a]: b" ++ nlS ++ "---"; "[a]: b" ++ nlS ++ "=";
 "a" ++ nlS ++ "[a]: b" ++ nlS ++ "="; "[a]: b" ++ nlS ++ "x" ++ nlS ++ "="; "[\]: b"; "[a\]: b"; "[a]: b 'c\"; "[a]: b 'c\'"; "[ ]: b"; "[a]: b" ++ nlS ++ "'c'" ++ nlS ++ "="; "[a]: b 'c" ++ nlS ++ "=";
 "[a]: b" ++ nlS ++ "'c" ++ nlS ++ "="; "[a]: b" ++ nlS ++ "'c" ++ nlS ++ "d'"; "[a]: b 'c'" ++ nlS ++ "[d]: e 'f"; "[a]: b" ++ nlS ++ tbS ++ "'c'"; "[a]: b" ++ nlS ++ " "; "[a]: b" ++ nlS ++ "'c'" ++ nlS ++ " ";
 "[a]: b 'c" ++ nlS ++ "d"; "[a]: b" ++ nlS ++ "[c]: d" ++ nlS ++ "e"; "[a]: b" ++ nlS ++ "[c]: d" ++ nlS ++ "'e"; "* [a]: b" ++ nlS ++ "  [c]: d" ++ nlS ++ "x"
].
Close Scope string_scope.

Theorem final_newline_bracket_examples : Forall (fun t => parseBlocks (bsS t ++ [10]) = (finRoots (len (bsS t)) (fst (parseBlocks (bsS t))), snd (parseBlocks (bsS t)))) bracketTests.
Proof.
  apply Forall_forall. intros t Ht. apply beqRes_sound. change (chkFinS (bsS t) = true).
  assert (E : forallb (fun t => chkFinS (bsS t)) bracketTests = true) by (vm_compute; reflexivity).
  rewrite forallb_forall in E. apply E, Ht.
Qed.
Print Assumptions final_newline_bracket_examples.
