From Coq Require Import List ZArith Lia Bool.
Import ListNotations.
Require Import Base Tree Html LP Rules Link Inl3a Render.
Require GenConsts GenClassify.
Open Scope Z_scope.

(* The tie between the hand-written model and what the translator (go/gen) reads off /repo's source on every
   run: GenClassify.v holds the bodies of the expression-only byte classifiers, GenConsts.v every constant and
   package-level string table.  These lemmas are re-checked whenever the generated files change; a change of a
   literal, a boundary or a table in the Go source that the model does not share makes this file fail to compile. *)

Definition allBytes : list Z := map Z.of_nat (seq 0 256).

Definition classifiers_agree (c : Z) : bool :=
  Bool.eqb (GenClassify.isSpaceTabOrLineEnding c) (Base.isSpaceTabOrLineEnding c) &&
  Bool.eqb (GenClassify.isASCIILetter c) (Base.isASCIILetter c) &&
  Bool.eqb (GenClassify.isASCIIDigit c) (Base.isASCIIDigit c) &&
  Bool.eqb (GenClassify.isASCIIPunctuation c) (Base.isASCIIPunctuation c) &&
  Bool.eqb (GenClassify.isASCIIControl c) (Base.isASCIIControl c) &&
  Bool.eqb (GenClassify.isHex c) (Base.isHex c) &&
  (GenClassify.toLowerASCII c =? Base.toLowerASCII c) &&
  Bool.eqb (GenClassify.isUnquotedAttributeValueChar c) (Html.isUnquotedAttributeValueChar c) &&
  (if c <? 16 then GenClassify.urlHexDigit c =? Render.urlHexDigit c else true).

(* all 256 byte values: the complete domain of the Go functions (their parameter type is byte) *)
Lemma tie_classifiers_all : forallb classifiers_agree allBytes = true.
Proof. vm_compute. reflexivity. Qed.

Lemma tie_classifiers : forall c, 0 <= c < 256 -> classifiers_agree c = true.
Proof.
  intros c Hc. pose proof tie_classifiers_all as H. rewrite forallb_forall in H. apply H.
  unfold allBytes. apply in_map_iff. exists (Z.to_nat c). split; [lia|]. apply in_seq. lia.
Qed.

Lemma tie_constants :
  GenConsts.c_ParagraphKind = ParagraphKind /\ GenConsts.c_ThematicBreakKind = ThematicBreakKind /\ GenConsts.c_ATXHeadingKind = ATXHeadingKind /\
  GenConsts.c_SetextHeadingKind = SetextHeadingKind /\ GenConsts.c_IndentedCodeBlockKind = IndentedCodeBlockKind /\
  GenConsts.c_FencedCodeBlockKind = FencedCodeBlockKind /\ GenConsts.c_HTMLBlockKind = HTMLBlockKind /\
  GenConsts.c_LinkReferenceDefinitionKind = LinkReferenceDefinitionKind /\ GenConsts.c_BlockQuoteKind = BlockQuoteKind /\
  GenConsts.c_ListItemKind = ListItemKind /\ GenConsts.c_ListKind = ListKind /\ GenConsts.c_ListMarkerKind = ListMarkerKind /\
  GenConsts.c_documentKind = documentKind /\
  GenConsts.c_TextKind = TextKind /\ GenConsts.c_SoftLineBreakKind = SoftLineBreakKind /\ GenConsts.c_HardLineBreakKind = HardLineBreakKind /\
  GenConsts.c_IndentKind = IndentKind /\ GenConsts.c_CharacterReferenceKind = CharacterReferenceKind /\ GenConsts.c_InfoStringKind = InfoStringKind /\
  GenConsts.c_EmphasisKind = EmphasisKind /\ GenConsts.c_StrongKind = StrongKind /\ GenConsts.c_LinkKind = LinkKind /\ GenConsts.c_ImageKind = ImageKind /\
  GenConsts.c_LinkDestinationKind = LinkDestinationKind /\ GenConsts.c_LinkTitleKind = LinkTitleKind /\ GenConsts.c_LinkLabelKind = LinkLabelKind /\
  GenConsts.c_CodeSpanKind = CodeSpanKind /\ GenConsts.c_AutolinkKind = AutolinkKind /\ GenConsts.c_HTMLTagKind = HTMLTagKind /\
  GenConsts.c_RawHTMLKind = RawHTMLKind /\ GenConsts.c_UnparsedKind = UnparsedKind /\
  GenConsts.c_stateOpening = stOpening /\ GenConsts.c_stateOpenMatched = stOpenMatched /\ GenConsts.c_stateLineConsumed = stLineConsumed /\
  GenConsts.c_stateDescending = stDescending /\ GenConsts.c_stateDescendTerminated = stDescendTerminated /\
  GenConsts.c_codeBlockIndentLimit = codeBlockIndentLimit /\ GenConsts.c_tabStopSize = 4 /\
  GenConsts.c_parseListMarker_maxDigits = 9 /\ GenConsts.c_parseCodeFence_minConsecutive = 3 /\
  GenConsts.c_parseLinkLabel_maxChars = maxChars /\
  GenConsts.c_inlineDelimiterStar = tStar /\ GenConsts.c_inlineDelimiterUnderscore = tUnder /\ GenConsts.c_inlineDelimiterLink = tLink /\
  GenConsts.c_inlineDelimiterImage = tImage /\ GenConsts.c_activeFlag = fActive /\ GenConsts.c_openerFlag = fOpener /\ GenConsts.c_closerFlag = fCloser /\
  GenConsts.c_openersBottomCount = 14 /\
  GenConsts.c_SoftBreakPreserve = 0 /\ GenConsts.c_SoftBreakSpace = 1 /\ GenConsts.c_SoftBreakHarden = 2 /\
  GenConsts.c_NormalizeURI_safeSet = safeSet /\
  GenConsts.c_nullReplacementString = [239; 191; 189] /\ GenConsts.c_blockQuotePrefix = [62] /\
  GenConsts.c_cdataPrefix = cdataPrefix /\ GenConsts.c_cdataSuffix = cdataSuffix /\
  GenConsts.c_htmlCommentPrefix = commentPrefix /\ GenConsts.c_htmlCommentSuffix = commentSuffix /\
  GenConsts.c_htmlBlockStarters1 = starters1 /\ GenConsts.c_htmlBlockEnders1 = enders1 /\
  GenConsts.c_readline_chunkSize = 8192 /\ GenConsts.c_readline_maxBlockSize = 1048576.
Proof. repeat split; reflexivity. Qed.

Print Assumptions tie_classifiers.
Print Assumptions tie_constants.
