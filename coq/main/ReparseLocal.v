From Coq Require Import List ZArith Lia Bool.
Import ListNotations.
Require Import Base Tree LP Rules Starts Driver Rec17 Rec18 Cursor L2BndS StreamFuel TilBase.
Open Scope Z_scope.

(* ================= the line loop reads the buffer only up to the end of the last line it processed ================= *)

Lemma upto_upto {A} (l : list A) N k : 0 <= k <= N -> upto (upto l N) k = upto l k.
Proof. intros H. unfold upto. rewrite firstn_firstn. f_equal. lia. Qed.
Lemma from_upto {A} (l : list A) N k : 0 <= k <= N -> from_ (upto l N) k = upto (from_ l k) (N - k).
Proof.
  intros H. unfold from_, upto. replace (Z.to_nat N) with (Z.to_nat k + Z.to_nat (N - k))%nat by lia.
  generalize (Z.to_nat k) (Z.to_nat (N - k)). clear. intros a b. revert l. induction a as [|a IH]; intros l; [reflexivity|].
  destruct l as [|x l]; [cbn; rewrite firstn_nil; reflexivity|]. cbn [Nat.add firstn skipn]. apply IH.
Qed.

Lemma findEol_upto : forall l k i, 0 <= k -> 0 <= findEol l i < i + k -> findEol (upto l k) i = findEol l i.
Proof.
  induction l as [|c r IH]; intros k i Hk H; [cbn in H; lia|]. cbn [findEol] in H.
  destruct (Z.eq_dec k 0) as [->|Nk].
  { destruct ((c =? 10) || (c =? 13)); [lia|]. exfalso. revert H. clear. intros H.
    assert (G : forall l j, 0 <= findEol l j -> j <= findEol l j).
    { induction l as [|x l IHl]; intros j Hj; [cbn in Hj; lia|]. cbn [findEol] in *. destruct (_ || _); [lia|]. specialize (IHl (j + 1) Hj). lia. }
    destruct H as [H0 H1]. specialize (G r (i + 1) H0). lia. }
  replace k with (1 + (k - 1)) by lia. rewrite upto_cons by lia. cbn [findEol].
  destruct ((c =? 10) || (c =? 13)); [reflexivity|]. apply IH; lia.
Qed.
Lemma findEol_lb : forall l j, 0 <= findEol l j -> j <= findEol l j.
Proof. induction l as [|x l IHl]; intros j Hj; [cbn in Hj; lia|]. cbn [findEol] in *. destruct (_ || _); [lia|]. specialize (IHl (j + 1) Hj). lia. Qed.

Lemma lineEnd_upto B N ls : 0 <= ls <= len B -> lineEnd B ls <= N -> N <= len B -> lineEnd (upto B N) ls = lineEnd B ls.
Proof.
  intros Hls He HN. destruct (Z.eq_dec N (len B)) as [->|NN]; [rewrite upto_all; reflexivity|].
  assert (HlA : len (upto B N) = N) by (apply len_upto; destruct (lineEnd_spec B ls Hls); lia).
  destruct (lineEnd_spec B ls Hls) as [S1 _].
  revert He. unfold lineEnd. cbv zeta.
  destruct (Z.ltb_spec (findEol (from_ B ls) ls) 0) as [L|L]; [lia|].
  destruct (findEol_spec (from_ B ls) ls L ltac:(lia)) as [A Bq]. rewrite len_from in A by lia.
  set (p := findEol (from_ B ls) ls) in *.
  intros He.
  assert (HpN : p < N) by (destruct (at_ B p =? 10); [lia|]; destruct (p + 1 <? len B); [destruct (at_ B (p + 1) =? 10); lia|lia]).
  assert (Ef : findEol (from_ (upto B N) ls) ls = p).
  { rewrite from_upto by lia. apply findEol_upto; [lia|]. fold p. lia. }
  rewrite Ef. destruct (Z.ltb_spec p 0); [lia|].
  rewrite (at_upto_lt B N p HpN). rewrite HlA.
  destruct (at_ B p =? 10); [reflexivity|].
  destruct (Z.ltb_spec (p + 1) (len B)) as [L2|L2]; [|lia].
  destruct (Z.ltb_spec (p + 1) N) as [L3|L3].
  - rewrite (at_upto_lt B N (p + 1) L3). reflexivity.
  - destruct (at_ B (p + 1) =? 10); lia.
Qed.

(* the cut: the children when the first one is closed, and the end of the line just read.  The same loop as lineLoop,
   on the buffer only. *)
Fixpoint cutOf (fuel : nat) (st : Z) (ch : list block) (ls : Z) (B : bytes) : option (block * list block * Z * Z) :=
  match fuel with
  | O => None
  | S f =>
    let bi := lineEnd B ls in
    let '(ch', st', pn) := processLine st ch ls (upto B bi) in
    if negb (pn =? 0) then None else
    match ch' with
    | b :: rest => if isOpen b then cutOf f st' ch' bi B else Some (b, rest, bi, st')
    | [] => cutOf f st' ch' bi B
    end
  end.
Definition rootAt (s : bpst) (b : block) (rest : list block) (bij : Z) : rootB * bpst :=
  let n := bend b in let pre := upto (buf s) n in
  ({| rb_line := bline s; rb_start := boff s; rb_end := boff s + unpadded pre; rb_src := fillNulls pre; rb_blk := b |},
   {| buf := from_ (buf s) n; bi := bij - n; boff := boff s + unpadded pre; bline := bline s + lineCount pre; pending := map (shiftB (- n)) rest |}).

Lemma lineLoop_cutOf : forall f st ch ls s r s', bi s = lineEnd (buf s) ls ->
  (lineLoop f st ch ls s = NBBlock r s' <->
   exists b rest bij st', cutOf f st ch ls (buf s) = Some (b, rest, bij, st') /\ (r, s') = rootAt s b rest bij).
Proof.
  induction f as [|f IH]; intros st ch ls s r s' Hbi; [cbn; split; [discriminate|intros (b & rest & bij & st' & E & _); discriminate]|].
  cbn [lineLoop cutOf]. cbv zeta. rewrite <- Hbi.
  destruct (processLine st ch ls (upto (buf s) (bi s))) as [[ch' st'] pn].
  destruct (negb (pn =? 0)); [split; [discriminate|intros (b & rest & bij & st0 & E & _); discriminate]|].
  set (s1 := {| buf := buf s; bi := lineEnd (buf s) (bi s); boff := boff s; bline := bline s; pending := pending s |}).
  assert (Hrec : lineLoop f st' ch' (bi s) s1 = NBBlock r s' <->
                 exists b rest bij st0, cutOf f st' ch' (bi s) (buf s) = Some (b, rest, bij, st0) /\ (r, s') = rootAt s b rest bij).
  { rewrite (IH st' ch' (bi s) s1 r s' eq_refl). unfold rootAt. cbn [buf boff bline s1]. reflexivity. }
  unfold makeRoot. destruct ch' as [|b rest]; [exact Hrec|]. destruct (isOpen b); [exact Hrec|].
  split.
  - intros E. inversion E; subst. exists b, rest, (bi s), st'. split; reflexivity.
  - intros (b0 & rest0 & bij & st0 & E & E2). inversion E; subst. unfold rootAt in E2. inversion E2; subst. reflexivity.
Qed.

Lemma cutOf_bounds : forall f st ch ls B b rest bij st', 0 <= ls <= len B -> cutOf f st ch ls B = Some (b, rest, bij, st') ->
  ls <= bij <= len B /\ isOpen b = false.
Proof.
  induction f as [|f IH]; intros st ch ls B b rest bij st' Hls E; [discriminate|]. cbn [cutOf] in E. cbv zeta in E.
  destruct (lineEnd_spec B ls Hls) as [A _].
  destruct (processLine st ch ls (upto B (lineEnd B ls))) as [[ch' st1] pn]. destruct (negb (pn =? 0)); [discriminate|].
  assert (Hrec : cutOf f st1 ch' (lineEnd B ls) B = Some (b, rest, bij, st') -> ls <= bij <= len B /\ isOpen b = false).
  { intros E'. destruct (IH st1 ch' (lineEnd B ls) B b rest bij st' ltac:(lia) E'). split; [lia|assumption]. }
  destruct ch' as [|b0 rest0]; [exact (Hrec E)|]. destruct (isOpen b0) eqn:Eo; [exact (Hrec E)|].
  inversion E; subst. split; [lia|exact Eo].
Qed.

(* truncating the buffer at or after the end of the last line read does not change the cut *)
Lemma cutOf_prefix : forall f st ch ls B b rest bij st' N, 0 <= ls <= len B -> cutOf f st ch ls B = Some (b, rest, bij, st') ->
  bij <= N <= len B -> cutOf f st ch ls (upto B N) = Some (b, rest, bij, st').
Proof.
  induction f as [|f IH]; intros st ch ls B b rest bij st' N Hls E HN; [discriminate|].
  pose proof (cutOf_bounds _ _ _ _ _ _ _ _ _ Hls E) as [Hb _].
  cbn [cutOf] in *. cbv zeta in *.
  destruct (lineEnd_spec B ls Hls) as [A _].
  assert (HleN : lineEnd B ls <= N).
  { destruct (processLine st ch ls (upto B (lineEnd B ls))) as [[ch' st1] pn]. destruct (negb (pn =? 0)); [discriminate|].
    assert (Hrec : cutOf f st1 ch' (lineEnd B ls) B = Some (b, rest, bij, st') -> lineEnd B ls <= N).
    { intros E'. destruct (cutOf_bounds f st1 ch' (lineEnd B ls) B b rest bij st' ltac:(lia) E'). lia. }
    destruct ch' as [|b0 rest0]; [exact (Hrec E)|]. destruct (isOpen b0); [exact (Hrec E)|]. inversion E; subst. lia. }
  rewrite (lineEnd_upto B N ls Hls HleN ltac:(lia)). rewrite upto_upto by lia.
  destruct (processLine st ch ls (upto B (lineEnd B ls))) as [[ch' st1] pn]. destruct (negb (pn =? 0)); [discriminate|].
  assert (HlA : len (upto B N) = N) by (apply len_upto; lia).
  assert (Hrec : cutOf f st1 ch' (lineEnd B ls) B = Some (b, rest, bij, st') -> cutOf f st1 ch' (lineEnd B ls) (upto B N) = Some (b, rest, bij, st')).
  { intros E'. apply IH; [lia|exact E'|exact HN]. }
  destruct ch' as [|b0 rest0]; [exact (Hrec E)|]. destruct (isOpen b0); [exact (Hrec E)|exact E].
Qed.
