From Coq Require Import List ZArith Lia Bool.
Import ListNotations.
Require Import Base Tables Utf8 Tree Driver C01a C01b Props Rec17 Rec18 L2BndS.
Open Scope Z_scope.

(* ================= C01 (tiling): pure facts about byte strings, padding and the checker ================= *)

(* ---- small list facts ---- *)
Lemma at_nonneg_oob (l : bytes) i : len l <= i -> at_ l i = 0.
Proof.
  intros H. unfold at_, len in *. destruct (Z.ltb_spec i 0); [reflexivity|]. apply nth_overflow. lia.
Qed.
Lemma at_neg (l : bytes) i : i < 0 -> at_ l i = 0.
Proof. intros H. unfold at_. destruct (Z.ltb_spec i 0); [reflexivity|lia]. Qed.
Lemma at_upto_lt (l : bytes) n i : i < n -> at_ (upto l n) i = at_ l i.
Proof.
  intros Hi. destruct (Z.ltb_spec i 0) as [N|N]; [rewrite !at_neg by lia; reflexivity|].
  destruct (Z.le_gt_cases n (len l)) as [L|L]; [apply at_upto; lia|].
  unfold upto. rewrite firstn_all2; [reflexivity|]. unfold len in L. lia.
Qed.
Lemma len_upto_le {A} (l : list A) n : len (upto l n) <= len l.
Proof. unfold len, upto. rewrite firstn_length. lia. Qed.
Lemma len_upto_min {A} (l : list A) n : 0 <= n -> len (upto l n) = Z.min n (len l).
Proof. intros H. unfold len, upto. rewrite firstn_length. lia. Qed.
Lemma upto_0 {A} (l : list A) : upto l 0 = []. Proof. reflexivity. Qed.
Lemma from_0 {A} (l : list A) : from_ l 0 = l. Proof. reflexivity. Qed.

(* ---- blank bytes ---- *)
Definition blk (c : Z) : bool := isSpaceTabOrLineEnding c.
Lemma isBlankByte_blk c : isBlankByte c = blk c.
Proof. unfold isBlankByte, blk, isSpaceTabOrLineEnding. destruct (c =? 32), (c =? 9), (c =? 13), (c =? 10); reflexivity. Qed.
Lemma blk_nonzero c : blk c = true -> c <> 0.
Proof. intros H ->. discriminate. Qed.
Lemma isSpTab_blk c : isSpTab c = true -> blk c = true.
Proof. unfold isSpTab, blk, isSpaceTabOrLineEnding. intros H. apply orb_true_iff in H. destruct H as [H|H]; rewrite H; rewrite ?orb_true_r; reflexivity. Qed.

(* all bytes of s in [a, b) are blank / are spaces or tabs *)
Definition blankR (s : bytes) (a b : Z) : Prop := forall i, a <= i < b -> blk (at_ s i) = true.
Definition sptR (s : bytes) (a b : Z) : Prop := forall i, a <= i < b -> isSpTab (at_ s i) = true.
Lemma sptR_blankR s a b : sptR s a b -> blankR s a b.
Proof. intros H i Hi. apply isSpTab_blk, H, Hi. Qed.
Lemma blankR_empty s a b : b <= a -> blankR s a b. Proof. intros H i Hi. lia. Qed.
Lemma sptR_empty s a b : b <= a -> sptR s a b. Proof. intros H i Hi. lia. Qed.
Lemma blankR_app s a b c : blankR s a b -> blankR s b c -> blankR s a c.
Proof. intros H1 H2 i Hi. destruct (Z.lt_ge_cases i b); [apply H1|apply H2]; lia. Qed.
Lemma sptR_app s a b c : sptR s a b -> sptR s b c -> sptR s a c.
Proof. intros H1 H2 i Hi. destruct (Z.lt_ge_cases i b); [apply H1|apply H2]; lia. Qed.
Lemma blankR_sub s a b a' b' : blankR s a b -> a <= a' -> b' <= b -> blankR s a' b'.
Proof. intros H Ha Hb i Hi. apply H. lia. Qed.
Lemma sptR_sub s a b a' b' : sptR s a b -> a <= a' -> b' <= b -> sptR s a' b'.
Proof. intros H Ha Hb i Hi. apply H. lia. Qed.
Lemma blankR_upto s n a b : b <= n -> (blankR (upto s n) a b <-> blankR s a b).
Proof. intros Hb. split; intros H i Hi; specialize (H i Hi); [rewrite at_upto_lt in H by lia|rewrite at_upto_lt by lia]; exact H. Qed.
Lemma blankR_from s n a b : 0 <= n -> 0 <= a -> (blankR (from_ s n) a b <-> blankR s (n + a) (n + b)).
Proof.
  intros Hn Ha. split; intros H i Hi.
  - specialize (H (i - n) ltac:(lia)). rewrite at_from in H by lia. replace (n + (i - n)) with i in H by lia. exact H.
  - rewrite at_from by lia. apply H. lia.
Qed.
Lemma blankR_forallb (s : bytes) : blankR s 0 (len s) <-> forallb blk s = true.
Proof.
  split.
  - induction s as [|c r IH]; intros H; [reflexivity|]. cbn [forallb]. apply andb_true_iff. split.
    + specialize (H 0). rewrite at_cons0 in H. apply H. rewrite len_cons. pose proof (len_nonneg r). lia.
    + apply IH. intros i Hi. specialize (H (i + 1)). rewrite at_consS in H by lia. apply H. rewrite len_cons. lia.
  - induction s as [|c r IH]; intros H i Hi; [unfold len in Hi; cbn in Hi; lia|].
    cbn [forallb] in H. apply andb_true_iff in H. destruct H as [Hc Hr]. rewrite len_cons in Hi.
    destruct (Z.eq_dec i 0) as [->|N]; [rewrite at_cons0; exact Hc|].
    replace i with ((i - 1) + 1) by lia. rewrite at_consS by lia. apply IH; [exact Hr|lia].
Qed.
Lemma blankR_sub_forallb (s : bytes) a b : 0 <= a <= b -> b <= len s -> blankR s a b -> forallb blk (sub s a b) = true.
Proof.
  intros Ha Hb H. apply blankR_forallb. unfold sub.
  assert (Hl : len (upto (from_ s a) (b - a)) = b - a).
  { rewrite len_upto_min by lia. rewrite len_from by lia. lia. }
  rewrite Hl. intros i Hi. rewrite at_upto_lt by lia. rewrite at_from by lia. apply H. lia.
Qed.

(* ---- cut positions: not inside a NUL run as far as the two neighbours can tell, and not between CR and LF ---- *)
Definition good (s : bytes) (n : Z) : Prop :=
  n <= 0 \/ len s <= n \/ ((at_ s (n - 1) <> 0 \/ at_ s n <> 0) /\ ~ (at_ s (n - 1) = 13 /\ at_ s n = 10)).
(* line boundaries as lineEnd produces them *)
Definition LBd (s : bytes) (p : Z) : Prop :=
  p = 0 \/ p = len s \/ at_ s (p - 1) = 10 \/ (at_ s (p - 1) = 13 /\ at_ s p <> 10).
Lemma LBd_good s p : LBd s p -> good s p.
Proof.
  intros [H|[H|[H|[H1 H2]]]]; [left; lia|right; left; lia| |]; right; right.
  - split; [left; lia|]. intros [A _]. lia.
  - split; [left; lia|]. intros [_ A]. contradiction.
Qed.
Lemma good_prev s n c : at_ s (n - 1) = c -> c <> 0 -> c <> 13 -> good s n.
Proof. intros E N0 N13. right; right. split; [left; congruence|]. intros [A _]. congruence. Qed.
Lemma good_cur s n c : at_ s n = c -> c <> 0 -> c <> 10 -> good s n.
Proof. intros E N0 N10. right; right. split; [right; congruence|]. intros [_ A]. congruence. Qed.

(* a prefix of the buffer that ends at a line boundary: positions up to it keep their status *)
Lemma good_upto_of s m n : n <= m -> good s n -> good (upto s m) n.
Proof.
  intros Hn [H|[H|[H1 H2]]]; [left; exact H|right; left; pose proof (len_upto_le s m); lia|].
  destruct (Z.eq_dec n m) as [->|N].
  - destruct (Z.le_gt_cases m 0); [left; lia|]. right; left. rewrite len_upto_min by lia. lia.
  - right; right. rewrite !at_upto_lt by lia. tauto.
Qed.
Lemma good_of_upto s m n : 0 <= m <= len s -> n <= m -> LBd s m -> good (upto s m) n -> good s n.
Proof.
  intros Hm Hn HL [H|[H|[H1 H2]]]; [left; exact H| |].
  - rewrite len_upto_min in H by lia. assert (n = m) by lia. subst n. apply LBd_good, HL.
  - destruct (Z.eq_dec n m) as [->|N]; [apply LBd_good, HL|].
    right; right. rewrite !at_upto_lt in H1, H2 by lia. tauto.
Qed.
Lemma good_from s k n : 0 <= k <= n -> good s n -> good (from_ s k) (n - k).
Proof.
  intros Hk [H|[H|[H1 H2]]]; [left; lia| |].
  - destruct (Z.le_gt_cases k (len s)); [right; left; rewrite len_from by lia; lia|].
    right; left. unfold from_, len. rewrite skipn_all2; [cbn; lia|]. unfold len in *. lia.
  - destruct (Z.eq_dec n k) as [->|N]; [left; lia|]. right; right.
    rewrite !at_from by lia. replace (k + (n - k - 1)) with (n - 1) by lia. replace (k + (n - k)) with n by lia. tauto.
Qed.
Lemma LBd_from s k p : 0 <= k <= p -> k <= len s -> LBd s p -> LBd (from_ s k) (p - k).
Proof.
  intros Hk Hl H. destruct (Z.eq_dec p k) as [->|N]; [left; lia|].
  destruct H as [H|[H|[H|[H1 H2]]]]; [lia|right; left; rewrite len_from by lia; lia| |]; right; right.
  - left. rewrite at_from by lia. replace (k + (p - k - 1)) with (p - 1) by lia. exact H.
  - right. rewrite !at_from by lia. replace (k + (p - k - 1)) with (p - 1) by lia. replace (k + (p - k)) with p by lia. tauto.
Qed.

(* the line end computed by lineEnd is a line boundary *)
Lemma lineEnd_LBd buf i : 0 <= i <= len buf -> LBd buf (lineEnd buf i).
Proof.
  intros Hi. unfold lineEnd. cbv zeta.
  destruct (Z.ltb_spec (findEol (from_ buf i) i) 0) as [L|L]; [right; left; reflexivity|].
  destruct (findEol_spec (from_ buf i) i L ltac:(lia)) as [A B]. rewrite len_from in A by lia.
  rewrite at_from in B by lia. replace (i + (findEol (from_ buf i) i - i)) with (findEol (from_ buf i) i) in B by lia.
  set (e := findEol (from_ buf i) i) in *.
  destruct (Z.eqb_spec (at_ buf e) 10) as [E10|N10].
  - right; right; left. replace (e + 1 - 1) with e by lia. exact E10.
  - assert (E13 : at_ buf e = 13).
    { unfold isEOLb in B. apply orb_true_iff in B. destruct B as [B|B]; apply Z.eqb_eq in B; [contradiction|exact B]. }
    destruct (Z.ltb_spec (e + 1) (len buf)) as [L2|L2]; [|right; left; reflexivity].
    destruct (Z.eqb_spec (at_ buf (e + 1)) 10) as [E2|N2].
    + right; right; left. replace (e + 2 - 1) with (e + 1) by lia. exact E2.
    + right; right; right. replace (e + 1 - 1) with e by lia. split; assumption.
Qed.

(* ---- NUL padding ---- *)
Lemma pad_cons b r : pad (b :: r) = (if b =? 0 then [0; 0; 0] else [b]) ++ pad r. Proof. reflexivity. Qed.
Lemma forallb_blk_pad l : forallb blk (pad l) = forallb blk l.
Proof.
  induction l as [|b r IH]; [reflexivity|]. rewrite pad_cons, forallb_app, IH. cbn [forallb].
  destruct (Z.eqb_spec b 0) as [->|N]; [reflexivity|]. cbn [forallb]. rewrite andb_true_r. reflexivity.
Qed.

(* a good position of a padded string is the image of a position of the original string, and the split does not
   separate CR from LF *)
Definition nosplit (a b : bytes) : Prop := ~ (at_ a (len a - 1) = 13 /\ at_ b 0 = 10).
Lemma at_pad_0 r : at_ (pad r) 0 = at_ r 0.
Proof.
  destruct r as [|c r]; [reflexivity|]. rewrite pad_cons. destruct (Z.eqb_spec c 0) as [->|N]; reflexivity.
Qed.
Lemma at_last_snoc (a : bytes) c : at_ (a ++ [c]) (len (a ++ [c]) - 1) = c.
Proof. rewrite len_app. change (len [c]) with 1. rewrite at_app_r by lia. replace (len a + 1 - 1 - len a) with 0 by lia. reflexivity. Qed.

Lemma padCut_of_good : forall rest n, 0 <= n <= len (pad rest) -> good (pad rest) n ->
  exists r1 r2, rest = r1 ++ r2 /\ len (pad r1) = n /\ nosplit r1 r2.
Proof.
  induction rest as [|b r IH]; intros n Hn Hg.
  { exists [], []. change (len (pad [])) with 0 in Hn. repeat split; [change (len (pad [])) with 0; lia|]. intros [_ A]. discriminate. }
  destruct (Z.eq_dec n 0) as [->|N0].
  { exists [], (b :: r). repeat split. intros [A _]. discriminate. }
  rewrite pad_cons in Hn, Hg.
  destruct (Z.eqb_spec b 0) as [->|Nb].
  - (* three NUL bytes *)
    change ([0;0;0] ++ pad r) with (0 :: 0 :: 0 :: pad r) in *.
    assert (Hl : len (0 :: 0 :: 0 :: pad r) = len (pad r) + 3) by (rewrite !len_cons; lia).
    rewrite Hl in Hn.
    assert (A0 : at_ (0 :: 0 :: 0 :: pad r) 0 = 0) by reflexivity.
    assert (A1 : at_ (0 :: 0 :: 0 :: pad r) 1 = 0) by reflexivity.
    assert (A2 : at_ (0 :: 0 :: 0 :: pad r) 2 = 0) by reflexivity.
    assert (H3 : 3 <= n).
    { destruct Hg as [H|[H|[[H|H] _]]]; [lia|rewrite Hl in H; pose proof (len_nonneg (pad r)); lia| |].
      - destruct (Z.eq_dec n 1) as [->|N1]; [change (1 - 1) with 0 in H; congruence|].
        destruct (Z.eq_dec n 2) as [->|N2]; [change (2 - 1) with 1 in H; congruence|]. lia.
      - destruct (Z.eq_dec n 1) as [->|N1]; [congruence|].
        destruct (Z.eq_dec n 2) as [->|N2]; [congruence|]. lia. }
    assert (Hat : forall i, 0 <= i -> at_ (0 :: 0 :: 0 :: pad r) (i + 3) = at_ (pad r) i).
    { intros i Hi. replace (i + 3) with (((i + 1) + 1) + 1) by lia. rewrite !at_consS by lia. reflexivity. }
    destruct (IH (n - 3) ltac:(lia)) as (r1 & r2 & E & El & Hs).
    { destruct Hg as [H|[H|[H1 H2]]]; [lia|right; left; rewrite Hl in H; lia|].
      destruct (Z.eq_dec n 3) as [->|N3]; [left; lia|]. right; right.
      replace n with ((n - 3) + 3) in H1, H2 by lia. replace (n - 3 + 3 - 1) with ((n - 3 - 1) + 3) in H1, H2 by lia.
      rewrite !Hat in H1, H2 by lia. tauto. }
    exists (0 :: r1), r2. split; [rewrite E; reflexivity|]. split.
    + rewrite pad_cons. change (0 =? 0) with true. cbv iota. rewrite len_app. change (len [0;0;0]) with 3. lia.
    + intros [A B]. apply Hs. split; [|exact B].
      destruct r1 as [|x r1']; [cbn in A; discriminate|].
      rewrite len_cons in A. replace (len (x :: r1') + 1 - 1) with ((len (x :: r1') - 1) + 1) in A by lia.
      rewrite at_consS in A; [exact A|]. rewrite len_cons. pose proof (len_nonneg r1'). lia.
  - (* one ordinary byte *)
    change ([b] ++ pad r) with (b :: pad r) in *. rewrite len_cons in Hn.
    destruct (IH (n - 1) ltac:(lia)) as (r1 & r2 & E & El & Hs).
    { destruct Hg as [H|[H|[H1 H2]]]; [lia|right; left; rewrite len_cons in H; lia|].
      destruct (Z.eq_dec n 1) as [->|N1]; [left; lia|]. right; right.
      replace n with ((n - 1) + 1) in H1, H2 by lia. replace (n - 1 + 1 - 1) with ((n - 1 - 1) + 1) in H1, H2 by lia.
      rewrite !at_consS in H1, H2 by lia. tauto. }
    exists (b :: r1), r2. split; [rewrite E; reflexivity|]. split.
    + rewrite pad_cons. apply Z.eqb_neq in Nb. rewrite Nb. change ([b] ++ pad r1) with (b :: pad r1). rewrite len_cons. lia.
    + intros [A B].
      destruct r1 as [|x r1'].
      * (* the cut is right after b *)
        cbn in A. subst b. change (len (pad [])) with 0 in El. assert (n = 1) by lia. subst n.
        destruct Hg as [H|[H|[_ H2]]]; [lia|rewrite len_cons in H; pose proof (len_nonneg (pad r)) as Hnn; assert (HZ : len (pad r) = 0) by lia| ].
        -- cbn [app] in E. subst r2. destruct r as [|y r']; [cbn in B; discriminate|].
           rewrite at_cons0 in B. subst y. rewrite pad_cons in HZ. change (10 =? 0) with false in HZ. cbv iota in HZ.
           change ([10] ++ pad r') with (10 :: pad r') in HZ. rewrite len_cons in HZ. pose proof (len_nonneg (pad r')). lia.
        -- apply H2. split; [reflexivity|]. cbn [app] in E. subst r2.
           change (at_ (13 :: pad r) 1) with (at_ (13 :: pad r) (0 + 1)). rewrite at_consS by lia. rewrite at_pad_0. exact B.
      * apply Hs. split; [|exact B].
        rewrite len_cons in A. replace (len (x :: r1') + 1 - 1) with ((len (x :: r1') - 1) + 1) in A by lia.
        rewrite at_consS in A; [exact A|]. rewrite len_cons. pose proof (len_nonneg r1'). lia.
Qed.

(* ---- line counting over a split that keeps CR LF together ---- *)
Lemma lineCount_app : forall a b, nosplit a b -> lineCount (a ++ b) = lineCount a + lineCount b.
Proof.
  induction a as [|c r IH]; intros b Hs; [reflexivity|].
  destruct r as [|d r'].
  - (* a = [c] *)
    cbn [app lineCount]. destruct (c =? 10); [lia|]. destruct (Z.eqb_spec c 13) as [->|N]; [|lia].
    destruct b as [|y b']; [lia|]. destruct (Z.eqb_spec y 10) as [->|Ny]; [|lia].
    exfalso. apply Hs. split; reflexivity.
  - change ((c :: d :: r') ++ b) with (c :: ((d :: r') ++ b)).
    assert (Hs' : nosplit (d :: r') b).
    { intros [A B]. apply Hs. split; [|exact B]. rewrite len_cons.
      replace (len (d :: r') + 1 - 1) with ((len (d :: r') - 1) + 1) by lia. rewrite at_consS; [exact A|].
      rewrite len_cons. pose proof (len_nonneg r'). lia. }
    specialize (IH b Hs').
    change (lineCount (c :: (d :: r') ++ b)) with
      ((if c =? 10 then 1 else if c =? 13 then (if d =? 10 then 0 else 1) else 0) + lineCount ((d :: r') ++ b)).
    change (lineCount (c :: d :: r')) with
      ((if c =? 10 then 1 else if c =? 13 then (if d =? 10 then 0 else 1) else 0) + lineCount (d :: r')).
    lia.
Qed.
Lemma nosplit_nil_l b : nosplit [] b. Proof. intros [A _]. discriminate. Qed.
Lemma nosplit_nil_r a : nosplit a []. Proof. intros [_ A]. discriminate. Qed.
Lemma at_last_app (a b : bytes) : b <> [] -> at_ (a ++ b) (len (a ++ b) - 1) = at_ b (len b - 1).
Proof.
  intros Hb. rewrite len_app. assert (0 < len b) by (destruct b; [contradiction|rewrite len_cons; pose proof (len_nonneg b); lia]).
  rewrite at_app_r by lia. f_equal. lia.
Qed.
Lemma at_0_app (a b : bytes) : a <> [] -> at_ (a ++ b) 0 = at_ a 0.
Proof. intros Ha. destruct a; [contradiction|reflexivity]. Qed.
(* splitting pre | g ++ r with both cuts clean *)
Lemma nosplit_app_l pre g r : nosplit pre (g ++ r) -> nosplit g r -> nosplit (pre ++ g) r.
Proof.
  intros H1 H2. destruct g as [|x g']; [rewrite app_nil_r; exact H1|].
  intros [A B]. apply H2. split; [|exact B]. rewrite at_last_app in A by discriminate. exact A.
Qed.
Lemma nosplit_app_r pre g r : nosplit pre (g ++ r) -> g <> [] -> nosplit pre g.
Proof. intros H1 Hg [A B]. apply H1. split; [exact A|]. rewrite at_0_app by exact Hg. exact B. Qed.

Lemma specLines_lineCount l : specLines l = lineCount l.
Proof.
  induction l as [|c r IH]; [reflexivity|]. cbn [specLines lineCount]. rewrite IH. reflexivity.
Qed.

(* ---- replacement of NUL ---- *)
Lemma replaceNul_eq l : Props.replaceNul l = C01b.replaceNul l.
Proof.
  induction l as [|c r IH]; [reflexivity|]. cbn [Props.replaceNul]. rewrite IH. reflexivity.
Qed.
Lemma replaceNul_noNul l : forallb (fun c => negb (c =? 0)) l = true -> C01b.replaceNul l = l.
Proof.
  induction l as [|c r IH]; intros H; [reflexivity|]. cbn [forallb] in H. apply andb_true_iff in H. destruct H as [Hc Hr].
  change (C01b.replaceNul (c :: r)) with ((if c =? 0 then [239;191;189] else [c]) ++ C01b.replaceNul r).
  apply negb_true_iff in Hc. rewrite Hc, (IH Hr). reflexivity.
Qed.
Lemma hasBytePrefix_refl l : hasBytePrefix l l = true.
Proof. induction l as [|c r IH]; [reflexivity|]. cbn [hasBytePrefix]. rewrite Z.eqb_refl, IH. reflexivity. Qed.
Lemma bytes_eqb_refl l : Utf8.bytes_eqb l l = true.
Proof. unfold Utf8.bytes_eqb. rewrite Z.eqb_refl, hasBytePrefix_refl. reflexivity. Qed.

(* ---- the checker ---- *)
Definition rootOK (input : bytes) (prevEnd : Z) (r : rootB) : bool :=
  let s := rb_start r in let e := rb_end r in
  (prevEnd <=? s) && (s <=? e) && (e <=? len input) &&
  forallb isBlankByte (sub input prevEnd s) &&
  Utf8.bytes_eqb (rb_src r) (Props.replaceNul (sub input s e)) &&
  (rb_line r =? 1 + specLines (upto input s)) &&
  (if forallb (fun c => negb (c =? 0)) input then e - s =? len (rb_src r) else true).
Fixpoint tilesP (input : bytes) (prevEnd : Z) (rs : list rootB) : bool :=
  match rs with [] => true | r :: rest => rootOK input prevEnd r && tilesP input (rb_end r) rest end.
Lemma tiles_split input : forall rs prevEnd,
  tiles input prevEnd rs = tilesP input prevEnd rs && forallb isBlankByte (from_ input (lastEnd prevEnd rs)).
Proof.
  induction rs as [|r rest IH]; intros prevEnd; [reflexivity|].
  cbn [tiles tilesP lastEnd]. cbv zeta. rewrite IH. unfold rootOK. cbv zeta. rewrite !andb_assoc. reflexivity.
Qed.
Lemma tilesP_app input : forall a prevEnd b,
  tilesP input prevEnd (a ++ b) = tilesP input prevEnd a && tilesP input (lastEnd prevEnd a) b.
Proof.
  induction a as [|r a IH]; intros prevEnd b; [reflexivity|]. cbn [app tilesP lastEnd]. rewrite IH, andb_assoc. reflexivity.
Qed.

(* the clause for one root block, from the decomposition of the input *)
Lemma sub_middle (pre g r1 r2 : bytes) : sub (pre ++ g ++ r1 ++ r2) (len pre + len g) (len pre + len g + len r1) = r1.
Proof.
  unfold sub. replace (pre ++ g ++ r1 ++ r2) with ((pre ++ g) ++ r1 ++ r2) by (symmetry; apply app_assoc).
  replace (len pre + len g) with (len (pre ++ g)) by apply len_app. rewrite from_app.
  replace (len (pre ++ g) + len r1 - len (pre ++ g)) with (len r1) by lia.
  unfold upto, len. rewrite Nat2Z.id. rewrite firstn_app, Nat.sub_diag, firstn_all. cbn. apply app_nil_r.
Qed.
Lemma upto_prefix {A} (a b : list A) : upto (a ++ b) (len a) = a.
Proof. unfold upto, len. rewrite Nat2Z.id, firstn_app, Nat.sub_diag, firstn_all. cbn. apply app_nil_r. Qed.

Lemma rootOK_intro input pre g r1 r2 r :
  input = pre ++ g ++ r1 ++ r2 -> forallb blk g = true ->
  rb_start r = len pre + len g -> rb_end r = rb_start r + len r1 ->
  rb_src r = C01b.replaceNul r1 -> rb_line r = 1 + lineCount (pre ++ g) ->
  rootOK input (len pre) r = true.
Proof.
  intros E Hg Hs He Hsrc Hline. unfold rootOK. cbv zeta.
  pose proof (len_nonneg pre). pose proof (len_nonneg g). pose proof (len_nonneg r1). pose proof (len_nonneg r2).
  assert (Hlen : len input = len pre + len g + len r1 + len r2) by (rewrite E, !len_app; lia).
  assert (S1 : sub input (len pre) (rb_start r) = g).
  { rewrite Hs, E. pose proof (sub_middle pre [] g (r1 ++ r2)) as X. change (len (@nil Z)) with 0 in X.
    cbn [app] in X. replace (len pre + 0) with (len pre) in X by lia. exact X. }
  assert (S2 : sub input (rb_start r) (rb_end r) = r1) by (rewrite He, Hs, E; apply sub_middle).
  assert (S3 : upto input (rb_start r) = pre ++ g).
  { rewrite Hs, E. replace (pre ++ g ++ r1 ++ r2) with ((pre ++ g) ++ r1 ++ r2) by (symmetry; apply app_assoc).
    replace (len pre + len g) with (len (pre ++ g)) by apply len_app. apply upto_prefix. }
  rewrite S1, S2, S3.
  assert (B1 : (len pre <=? rb_start r) = true) by (apply Z.leb_le; lia).
  assert (B2 : (rb_start r <=? rb_end r) = true) by (apply Z.leb_le; lia).
  assert (B3 : (rb_end r <=? len input) = true) by (apply Z.leb_le; lia).
  assert (B4 : forallb isBlankByte g = true).
  { rewrite <- Hg. clear. induction g as [|c g IH]; [reflexivity|]. cbn [forallb]. rewrite IH, isBlankByte_blk. reflexivity. }
  assert (B5 : Utf8.bytes_eqb (rb_src r) (Props.replaceNul r1) = true) by (rewrite replaceNul_eq, Hsrc; apply bytes_eqb_refl).
  assert (B6 : (rb_line r =? 1 + specLines (pre ++ g)) = true) by (apply Z.eqb_eq; rewrite specLines_lineCount; exact Hline).
  rewrite B1, B2, B3, B4, B5, B6. cbn [andb].
  destruct (forallb (fun c => negb (c =? 0)) input) eqn:En; [|reflexivity].
  apply Z.eqb_eq. rewrite Hsrc, replaceNul_noNul; [lia|].
  rewrite E, !forallb_app in En. apply andb_true_iff in En. destruct En as [_ En]. apply andb_true_iff in En. destruct En as [_ En].
  apply andb_true_iff in En. tauto.
Qed.
