(* EmphTok2.v -- layer (b) of the widened slice: the tokeniser loop of Inl3e.v on a line of delimiter runs and text stretches over
   the alphabet of EmphSpec2.v (text bytes: the wider ASCII set and every byte >= 128) produces one text node per token and one
   stack entry per run, with the flags canOpen2 / canClose2 of the CHARACTERS next to the run. *)
From Coq Require Import List ZArith Lia Bool.
Import ListNotations.
Require Import Base Tables Utf8 Tree Rdr Link Collect Html Recog LP Rules Starts Driver Inl3a Inl3b Inl3c Inl3d Inl3e Render SliceBase SlicePara SliceText.
Require Import EmphSpec EmphFlags EmphTok EmphSpec2 EmphFlags2.
Require Emph.
Open Scope Z_scope.

(* a byte of a text stretch *)
Definition textB2 (b : Z) : bool := textAscii2 b || (128 <=? b).
Definition inB2 (b : Z) : bool := isDelimB b || textB2 b.
Lemma textB2_range b : textB2 b = true -> 32 <= b /\ b <> 42 /\ b <> 95 /\ b <> 127.
Proof.
  unfold textB2. intros H. apply orb_true_iff in H. destruct H as [H|H]; [apply textAscii2_range in H; lia|apply Z.leb_le in H; lia].
Qed.
Lemma textB2_cases b : textB2 b = true -> b = 32 \/ (b <> 32 /\ inertByte b = true).
Proof.
  intros H. destruct (Z.eq_dec b 32) as [E|N]; [left; exact E|right; split; [exact N|]].
  unfold textB2 in H. apply orb_true_iff in H. destruct H as [H|H].
  - unfold textAscii2 in H. apply orb_true_iff in H. destruct H as [H|H]; [apply orb_true_iff in H; destruct H as [H|H]; [apply orb_true_iff in H; destruct H as [H|H]|]|].
    + apply letter_range in H. unfold inertByte. cbn [existsb].
      repeat match goal with |- context [b =? ?k] => destruct (Z.eqb_spec b k); [exfalso; lia|] end. reflexivity.
    + unfold isDigitB in H. apply andb_true_iff in H. destruct H as [A B]. apply Z.leb_le in A, B. unfold inertByte. cbn [existsb].
      repeat match goal with |- context [b =? ?k] => destruct (Z.eqb_spec b k); [exfalso; lia|] end. reflexivity.
    + apply Z.eqb_eq in H. contradiction.
    + apply memZ2_In in H. cbn [In asciiPunct2] in H. repeat (destruct H as [H|H]; [subst b; reflexivity|]). contradiction.
  - apply Z.leb_le in H. unfold inertByte. cbn [existsb].
    repeat match goal with |- context [b =? ?k] => destruct (Z.eqb_spec b k); [exfalso; lia|] end. reflexivity.
Qed.

Definition okFirst (txt : bytes) : Prop := exists c rest, textChar c = true /\ txt = enc c ++ rest.
Definition okLast (txt : bytes) : Prop := exists c p, textChar c = true /\ txt = p ++ enc c.

Fixpoint wfSegs2 (g : list seg) : Prop :=
  match g with
  | [] => True
  | SD ch n :: r => isDelimB ch = true /\ (1 <= n)%nat /\ match r with SD ch' _ :: _ => ch' <> ch | _ => True end /\ wfSegs2 r
  | ST txt :: r => txt <> [] /\ forallb textB2 txt = true /\ noDbl txt = true /\ okFirst txt /\ okLast txt /\
                   match r with ST _ :: _ => False | _ => True end /\ wfSegs2 r
  end.

(* ---- skipping a text stretch ---- *)
Lemma iloop_skip2 : forall txt pre rest L fuel st ps,
  forallb textB2 txt = true -> noDbl txt = true -> hd 0 rest <> 32 -> rest <> [] ->
  L = pre ++ txt ++ rest -> IT st L -> (length txt <= fuel)%nat ->
  iloop fuel st (len pre) ps = iloop (fuel - length txt) st (len pre + len txt) ps.
Proof.
  induction txt as [|c r IH]; intros pre rest L fuel st ps Ht Hd Hr Hne HL HI Hf.
  - cbn [length]. rewrite Nat.sub_0_r, sl_len_nil, Z.add_0_r. reflexivity.
  - cbn [forallb] in Ht. apply andb_true_iff in Ht. destruct Ht as [Hc Ht].
    cbn [noDbl] in Hd. apply andb_true_iff in Hd. destruct Hd as [Hd1 Hd].
    cbn [length] in Hf. destruct fuel as [|f]; [lia|].
    pose proof (sl_len_nonneg pre) as Hp0. pose proof (sl_len_nonneg r) as Hr0. pose proof (sl_len_nonneg rest) as Hrest0.
    assert (Hlen : len L = len pre + (len r + 1) + len rest) by (rewrite HL; rewrite !sl_len_app, sl_len_cons; lia).
    assert (Hrest1 : 0 < len rest) by (destruct rest; [contradiction|rewrite sl_len_cons; pose proof (sl_len_nonneg rest); lia]).
    rewrite iloop_S. rewrite (IT_inspan st L HI), (IT_spanEnd st L HI).
    destruct (Z.ltb_spec (len pre) (len L)); [|lia]. cbn [andb].
    assert (Hat : at_ (isrc st) (len pre) = c).
    { destruct HI as (Hsrc & _). rewrite Hsrc, HL. cbn [app]. apply sl_at_app_len. }
    assert (Hstep : istep st (len pre) ps = (st, len pre + 1, ps)).
    { destruct (textB2_cases c Hc) as [->|[N32 Hin]].
      - apply istep_space; [exact Hat|]. rewrite (IT_spanEnd st L HI). destruct HI as (Hsrc & _). rewrite Hsrc.
        assert (Hsub : sub L (len pre) (len L) = 32 :: r ++ rest).
        { rewrite HL. change (pre ++ (32 :: r) ++ rest) with (pre ++ [] ++ ((32 :: r) ++ rest)).
          replace (len pre) with (len pre + len (@nil Z)) at 1 by (rewrite sl_len_nil; lia). apply sub_to_end. }
        rewrite Hsub.
        assert (Hnext : exists x y, r ++ rest = x :: y /\ x <> 32).
        { destruct r as [|x r'].
          - destruct rest as [|x y]; [contradiction|]. exists x, y. split; [reflexivity|exact Hr].
          - exists x, (r' ++ rest). split; [reflexivity|]. cbn [hd] in Hd1. change (32 =? 32) with true in Hd1. cbn [andb] in Hd1.
            apply negb_true_iff in Hd1. apply Z.eqb_neq. exact Hd1. }
        destruct Hnext as (x & y & E & Nx). rewrite E. apply hlbs_single. exact Nx.
      - apply istep_inert. rewrite Hat. exact Hin. }
    rewrite Hstep.
    replace (len pre + 1) with (len (pre ++ [c])) by (rewrite sl_len_app; reflexivity).
    rewrite (IH (pre ++ [c]) rest L f st ps Ht Hd Hr Hne); [| |exact HI|lia].
    + cbn [length]. replace (S f - S (length r))%nat with (f - length r)%nat by lia.
      rewrite sl_len_app. change (len [c]) with 1. rewrite sl_len_cons. f_equal. lia.
    + rewrite HL. rewrite <- app_assoc. reflexivity.
Qed.

(* ---- one delimiter run ---- *)
Lemma istep_run2 st L pre m ch post ps prev nx nxt :
  IT st L -> L = pre ++ repeat ch (S m) ++ post -> isDelimB ch = true -> hd 0 post <> ch -> post <> [] ->
  nbPrev pre prev -> nbNext post nx -> flagWord2 ch prev nx = flagWord2 ch prev nxt ->
  0 <= ps <= len pre ->
  let st1 := addText st ps (len pre) in
  let e := len pre + Z.of_nat (S m) in
  let d := {| Emph.did := Z.to_nat (nid st1 - 1); Emph.dstar := ch =? 42; Emph.dn := S m; Emph.dcur := S m;
              Emph.dopen := canOpen2 ch prev nxt; Emph.dclos := canClose2 ch prev nxt |} in
  1 <= nid st1 ->
  istep st (len pre) ps =
  (setStk (bumpId (setRk st1 (rk st1 ++ [textPN (nid st1) (len pre) e]))) (stk st1 ++ [conc d]), e, e).
Proof.
  intros HI HL Hd Hp Hne Hpre Hpost Hfw Hps st1 e d Hnid.
  assert (Hat : at_ L (len pre) = ch) by (rewrite HL; cbn [repeat app]; apply sl_at_app_len).
  assert (HI1 : IT st1 L).
  { unfold st1, addText, addNode. destruct (spanLen ps (len pre) =? 0); cbn [fst]; [exact HI|].
    eapply IT_same; [| | |exact HI]; reflexivity. }
  unfold istep. cbv zeta. destruct HI as (Hsrc & Hunp & Hupos). rewrite Hsrc, Hat.
  unfold isDelimB in Hd. rewrite Hd. cbv iota. fold st1.
  unfold parseDelimiterRun. cbv zeta. rewrite (IT_spanEnd st1 L HI1). destruct HI1 as (Hsrc1 & Hunp1 & Hupos1). rewrite Hsrc1, Hat.
  assert (He : runEnd (length L) L (len pre + 1) (len L) ch = e).
  { rewrite HL. cbn [repeat]. change (pre ++ (ch :: repeat ch m) ++ post) with (pre ++ [ch] ++ repeat ch m ++ post).
    rewrite app_assoc. replace (len pre + 1) with (len (pre ++ [ch])) by (rewrite sl_len_app; reflexivity).
    rewrite (runEnd_repeat ch m (pre ++ [ch]) post _ Hp Hne).
    - unfold e. rewrite sl_len_app. change (len [ch]) with 1. lia.
    - rewrite !app_length, repeat_length. cbn [length]. lia. }
  rewrite He.
  pose proof (sl_len_nonneg pre) as Hp0.
  rewrite (addNode_some st1 TextKind (len pre) e []) by (unfold e; lia).
  assert (Hfl : emphasisFlags L (len pre) e = flagWord2 ch prev nxt).
  { rewrite <- Hfw. rewrite HL. unfold e. rewrite <- len_repeat with (ch := ch).
    apply (emphasisFlags_spec2 pre (repeat ch (S m)) post ch (repeat ch m)); [reflexivity|exact Hpre|exact Hpost]. }
  rewrite Hfl. f_equal. f_equal. cbn [stk bumpId setRk]. f_equal. f_equal.
  unfold conc, d. cbn [Emph.dstar Emph.dopen Emph.dclos Emph.dn Emph.did].
  rewrite (spanLen_pos (len pre) e) by (unfold e; lia).
  unfold flagWord2. rewrite Z2Nat.id by lia.
  replace (e - len pre) with (Z.of_nat (S m)) by (unfold e; lia).
  replace (nid st1 - 1 + 1) with (nid st1) by lia. reflexivity.
Qed.

(* ---- the whole loop ---- *)
Definition prevAfter (mid : bytes) (prev : option Z) : option Z := match mid with [] => prev | _ => lastRune mid end.
Lemma delimsOf2_pend mid g idx prev :
  delimsOf2 (optST mid ++ g) idx prev = delimsOf2 g (idx + length (optST mid)) (prevAfter mid prev).
Proof.
  destruct mid as [|c r].
  - cbn [optST app length prevAfter]. rewrite Nat.add_0_r. reflexivity.
  - rewrite optST_cons. cbn [app delimsOf2 length prevAfter]. replace (idx + 1)%nat with (S idx) by lia. reflexivity.
Qed.
Lemma okFirst_hd txt : okFirst txt -> exists x r, txt = x :: r /\ nbNext txt (firstRune txt) /\ firstRune txt <> None.
Proof.
  intros (c & rest & Hc & ->). rewrite (firstRune_enc c rest) by (apply cp_of_textChar; exact Hc).
  pose proof (nbNext_char c rest Hc) as Hn. destruct (enc c ++ rest) as [|x r] eqn:E.
  - exfalso. destruct (cp_of_textChar c Hc) as [_ [H|[H|H]]].
    + rewrite enc1 in E by exact H. discriminate.
    + destruct (enc2 c H) as (b0 & b1 & Ee & _). rewrite Ee in E. discriminate.
    + destruct (enc3 c H) as (b0 & b1 & b2 & Ee & _). rewrite Ee in E. discriminate.
  - exists x, r. split; [reflexivity|]. split; [exact Hn|discriminate].
Qed.

Lemma post_facts2 ch n g' : wfSegs2 (SD ch n :: g') ->
  let post := flat g' ++ [10] in
  hd 0 post <> ch /\ post <> [] /\ exists nx, nbNext post nx /\ forall p, flagWord2 ch p nx = flagWord2 ch p (firstChar g').
Proof.
  intros (Hd & Hn & Hnext & Hw). cbn zeta. apply isDelimB_cases in Hd.
  destruct g' as [|[ch' n'|txt] g''].
  - cbn [flat flat_map app hd firstChar]. split; [lia|]. split; [discriminate|]. exists (Some 10). split.
    + split; [reflexivity|apply okCls_lf].
    + intros p. apply flagWord2_lf.
  - destruct Hw as (Hd' & Hn' & _). apply isDelimB_cases in Hd'. destruct n' as [|n']; [lia|].
    rewrite flat_cons. cbn [segBytes repeat app hd firstChar firstRune]. split; [exact Hnext|]. split; [discriminate|].
    exists (Some ch'). split; [apply nbNext_ascii; lia|]. intros p. destruct (Z.ltb_spec ch' 128); [reflexivity|lia].
  - destruct Hw as (Hne & Ht & _ & Hf & _). destruct (okFirst_hd txt Hf) as (x & r & Et & Hnb & _).
    rewrite flat_cons. cbn [segBytes firstChar]. rewrite <- app_assoc.
    assert (Hx : textB2 x = true) by (rewrite Et in Ht; cbn [forallb] in Ht; apply andb_true_iff in Ht; tauto).
    apply textB2_range in Hx. split; [rewrite Et; cbn [app hd]; lia|]. split; [rewrite Et; discriminate|].
    exists (firstRune txt). split; [|reflexivity].
    destruct Hf as (c & rest & Hc & Etxt). rewrite Etxt. rewrite <- app_assoc. rewrite (firstRune_enc c rest) by (apply cp_of_textChar; exact Hc).
    apply nbNext_char. exact Hc.
Qed.
Lemma rest_facts2 g : wfSegs2 g -> match g with ST _ :: _ => False | _ => True end ->
  hd 0 (flat g ++ [10]) <> 32 /\ flat g ++ [10] <> [].
Proof.
  intros Hw Hg. destruct g as [|[ch n|txt] g']; [cbn; split; [lia|discriminate]| |contradiction].
  destruct Hw as (Hd & Hn & _). apply isDelimB_cases in Hd. destruct n as [|n]; [lia|]. rewrite flat_cons.
  cbn [segBytes repeat app hd]. split; [lia|discriminate].
Qed.
Lemma nbPrev_after pre0 mid prev : nbPrev pre0 prev -> (mid = [] \/ okLast mid) -> nbPrev (pre0 ++ mid) (prevAfter mid prev).
Proof.
  intros Hp [->|(c & p & Hc & ->)]; [rewrite app_nil_r; exact Hp|].
  assert (E : prevAfter (p ++ enc c) prev = Some c).
  { unfold prevAfter. destruct (p ++ enc c) eqn:E0.
    - exfalso. destruct p; [|discriminate]. cbn [app] in E0. destruct (cp_of_textChar c Hc) as [_ [H|[H|H]]].
      + rewrite enc1 in E0 by exact H. discriminate.
      + destruct (enc2 c H) as (b0 & b1 & Ee & _). rewrite Ee in E0. discriminate.
      + destruct (enc3 c H) as (b0 & b1 & b2 & Ee & _). rewrite Ee in E0. discriminate.
    - rewrite <- E0. apply lastRune_enc. apply cp_of_textChar. exact Hc. }
  rewrite E, app_assoc. apply nbPrev_char. exact Hc.
Qed.
Lemma nbPrev_repeat p ch m : ch = 42 \/ ch = 95 -> nbPrev (p ++ repeat ch (S m)) (Some ch).
Proof.
  intros H. change (repeat ch (S m)) with (ch :: repeat ch m). rewrite repeat_cons, app_assoc. apply nbPrev_delim. exact H.
Qed.

Lemma tok_pend2 : forall g pre0 mid idx fuel st L prev,
  wfSegs2 g -> (mid = [] \/ (forallb textB2 mid = true /\ noDbl mid = true /\ okLast mid /\ match g with ST _ :: _ => False | _ => True end)) ->
  L = pre0 ++ mid ++ flat g ++ [10] -> nbPrev pre0 prev -> IT st L -> nid st = Z.of_nat idx + 1 -> (length (flat g) < fuel)%nat ->
  exists st', iloop fuel st (len pre0 + len mid) (len pre0) = (st', len L) /\ IT st' L /\
    rk st' = rk st ++ nodesOf (optST mid ++ g) (nid st) (len pre0) /\
    stk st' = stk st ++ map conc (delimsOf2 (optST mid ++ g) idx prev) /\
    nid st' = nid st + len (optST mid ++ g).
Proof.
  induction g as [|x g' IH]; intros pre0 mid idx fuel st L prev Hw Hpend HL Hok HI Hnid Hfuel.
  - (* the line ending *)
    cbn [flat flat_map app] in HL. destruct fuel as [|f]; [cbn in Hfuel; lia|].
    pose proof (sl_len_nonneg pre0) as Hp0. pose proof (sl_len_nonneg mid) as Hm0.
    assert (Hlen : len L = len pre0 + len mid + 1) by (rewrite HL, !sl_len_app; change (len [10]) with 1; lia).
    rewrite iloop_S. rewrite (IT_inspan st L HI), (IT_spanEnd st L HI).
    destruct (Z.ltb_spec (len pre0 + len mid) (len L)); [|lia]. cbn [andb].
    assert (Hat : at_ (isrc st) (len pre0 + len mid) = 10).
    { destruct HI as (Hsrc & _). rewrite Hsrc, HL. apply at_mid. }
    rewrite (istep_lf st _ _ Hat (IT_isLast st L HI)).
    destruct (addText_mid st L (len pre0) mid HI Hp0) as (HI1 & Hrk1 & Hnid1 & Hstk1).
    exists (addText st (len pre0) (len pre0 + len mid)). split.
    { destruct f as [|f]; [cbn [iloop]; rewrite Hlen; reflexivity|].
      rewrite iloop_S. rewrite (IT_inspan _ L HI1), (IT_spanEnd _ L HI1).
      destruct (Z.ltb_spec (len pre0 + len mid + 1) (len L)); [lia|]. cbn [andb]. rewrite Hlen. reflexivity. }
    split; [exact HI1|]. rewrite app_nil_r. split; [exact Hrk1|]. split; [|exact Hnid1].
    rewrite Hstk1. destruct mid; cbn [optST delimsOf2 map]; rewrite app_nil_r; reflexivity.
  - destruct x as [ch n|txt].
    + (* a delimiter run *)
      pose proof (post_facts2 ch n g' Hw) as (Hp & Hne & nx & Hpost & Hfw). destruct Hw as (Hd & Hn & Hnext & Hw').
      destruct n as [|m]; [lia|].
      set (pre := pre0 ++ mid). set (post := flat g' ++ [10]) in *.
      assert (HL' : L = pre ++ repeat ch (S m) ++ post).
      { rewrite HL. unfold pre, post. rewrite flat_cons. cbn [segBytes]. rewrite <- !app_assoc. reflexivity. }
      assert (Hokpre : nbPrev pre (prevAfter mid prev)).
      { unfold pre. apply nbPrev_after; [exact Hok|]. destruct Hpend as [->|(_ & _ & Hl & _)]; [left; reflexivity|right; exact Hl]. }
      assert (Hlp : len pre = len pre0 + len mid) by (unfold pre; apply sl_len_app).
      pose proof (sl_len_nonneg pre0) as Hp0. pose proof (sl_len_nonneg mid) as Hm0.
      destruct (addText_mid st L (len pre0) mid HI Hp0) as (HI1 & Hrk1 & Hnid1 & Hstk1).
      rewrite <- Hlp in HI1, Hrk1, Hnid1, Hstk1.
      destruct fuel as [|f]; [lia|].
      assert (HlenL : len L = len pre + Z.of_nat (S m) + len post).
      { rewrite HL', !sl_len_app, len_repeat. lia. }
      assert (Hpost1 : 0 < len post) by (unfold post; rewrite sl_len_app; change (len [10]) with 1; pose proof (sl_len_nonneg (flat g')); lia).
      rewrite iloop_S. rewrite (IT_inspan st L HI), (IT_spanEnd st L HI). rewrite <- Hlp.
      destruct (Z.ltb_spec (len pre) (len L)); [|lia]. cbn [andb].
      pose proof (sl_len_nonneg (optST mid)) as Ho0.
      rewrite (istep_run2 st L pre m ch post (len pre0) (prevAfter mid prev) nx (firstChar g') HI HL' Hd Hp Hne Hokpre Hpost (Hfw _)) by lia.
      set (st1 := addText st (len pre0) (len pre)) in *.
      set (e := len pre + Z.of_nat (S m)).
      set (d := {| Emph.did := Z.to_nat (nid st1 - 1); Emph.dstar := ch =? 42; Emph.dn := S m; Emph.dcur := S m;
                   Emph.dopen := canOpen2 ch (prevAfter mid prev) (firstChar g'); Emph.dclos := canClose2 ch (prevAfter mid prev) (firstChar g') |}).
      set (st2 := setStk (bumpId (setRk st1 (rk st1 ++ [textPN (nid st1) (len pre) e]))) (stk st1 ++ [conc d])).
      assert (HI2 : IT st2 L) by (eapply IT_same; [| | |exact HI1]; reflexivity).
      set (idx2 := (idx + length (optST mid) + 1)%nat).
      destruct (IH (pre ++ repeat ch (S m)) [] idx2 f st2 L (Some ch) Hw' (or_introl eq_refl)) as (st' & Hrun & HI' & Hrk' & Hstk' & Hnid').
      { rewrite HL'. rewrite <- !app_assoc. reflexivity. }
      { apply nbPrev_repeat. apply isDelimB_cases. exact Hd. }
      { exact HI2. }
      { unfold st2. cbn [nid setStk bumpId setRk]. rewrite Hnid1, Hnid. unfold idx2, len. lia. }
      { rewrite flat_cons, app_length in Hfuel. cbn [segBytes] in Hfuel. rewrite repeat_length in Hfuel. lia. }
      exists st'. rewrite sl_len_nil, Z.add_0_r, sl_len_app, len_repeat in Hrun. fold e in Hrun.
      split; [exact Hrun|]. split; [exact HI'|]. cbn [optST app] in Hrk', Hstk', Hnid'.
      split; [|split].
      * rewrite Hrk'. unfold st2. cbn [rk setStk bumpId setRk nid]. rewrite Hrk1. rewrite <- !app_assoc. f_equal.
        rewrite nodesOf_app, flat_optST. f_equal. cbn [nodesOf app]. unfold segLen. cbn [segBytes]. rewrite len_repeat.
        rewrite Hnid1, <- Hlp. fold e. f_equal. rewrite sl_len_app, len_repeat. fold e. reflexivity.
      * rewrite Hstk'. unfold st2. cbn [stk setStk]. rewrite Hstk1. rewrite <- app_assoc. f_equal.
        rewrite delimsOf2_pend. cbn [delimsOf2 map app]. f_equal.
        -- unfold d. f_equal. f_equal. rewrite Hnid1, Hnid. unfold len. lia.
        -- unfold idx2. replace (S (idx + length (optST mid))) with (idx + length (optST mid) + 1)%nat by lia. reflexivity.
      * rewrite Hnid'. unfold st2. cbn [nid setStk bumpId setRk]. rewrite Hnid1. rewrite !sl_len_app, sl_len_cons. lia.
    + (* a text stretch: nothing is pending *)
      destruct Hw as (Hne & Ht & Hnd & Hfi & Hla & Hnext & Hw').
      destruct Hpend as [->|(_ & _ & _ & [])].
      pose proof (rest_facts2 g' Hw' Hnext) as (Hr32 & Hrne).
      rewrite sl_len_nil, Z.add_0_r. cbn [app] in HL. rewrite flat_cons in HL. cbn [segBytes] in HL. rewrite <- app_assoc in HL.
      rewrite flat_cons, app_length in Hfuel. cbn [segBytes] in Hfuel.
      rewrite (iloop_skip2 txt pre0 (flat g' ++ [10]) L fuel st (len pre0) Ht Hnd Hr32 Hrne HL HI) by lia.
      destruct (IH pre0 txt idx (fuel - length txt)%nat st L prev Hw') as (st' & Hrun & HI' & Hrk' & Hstk' & Hnid').
      { right. split; [exact Ht|]. split; [exact Hnd|]. split; [exact Hla|exact Hnext]. }
      { exact HL. } { exact Hok. } { exact HI. } { exact Hnid. } { lia. }
      exists st'. split; [exact Hrun|]. split; [exact HI'|].
      destruct txt as [|c r]; [contradiction|]. rewrite optST_cons in *. cbn [optST app] in *. tauto.
Qed.

(* ---------------------------------------------------------------------------------------------- *)
(* the tokens of a line of characters                                                              *)
(* ---------------------------------------------------------------------------------------------- *)
Fixpoint wfSegsB (g : list seg) : Prop :=
  match g with
  | [] => True
  | SD ch n :: r => isDelimB ch = true /\ (1 <= n)%nat /\ match r with SD ch' _ :: _ => ch' <> ch | _ => True end /\ wfSegsB r
  | ST txt :: r => txt <> [] /\ forallb textB2 txt = true /\ noDbl txt = true /\ match r with ST _ :: _ => False | _ => True end /\ wfSegsB r
  end.
Definition bdOK (x : seg) : Prop := match x with SD _ _ => True | ST txt => okFirst txt /\ okLast txt end.
Lemma wfSegs2_of : forall g, wfSegsB g -> Forall bdOK g -> wfSegs2 g.
Proof.
  induction g as [|x g IH]; intros Hw Hb; [exact I|]. inversion Hb as [|? ? Hx Hg]; subst. destruct x as [ch n|txt].
  - destruct Hw as (A & B & C & D). cbn [wfSegs2]. repeat split; try assumption. apply IH; assumption.
  - destruct Hw as (A & B & C & D & F). destruct Hx as [Hf Hl]. cbn [wfSegs2]. repeat split; try assumption. apply IH; assumption.
Qed.

Lemma segment_wfB : forall t, forallb inB2 t = true -> noDbl t = true -> wfSegsB (segment t).
Proof.
  induction t as [|c r IH]; intros Ha Hd; [exact I|].
  cbn [forallb] in Ha. apply andb_true_iff in Ha. destruct Ha as [Hc Ha].
  cbn [noDbl] in Hd. apply andb_true_iff in Hd. destruct Hd as [Hd1 Hd].
  specialize (IH Ha Hd). pose proof (segment_flat r) as Hfl. cbn [segment].
  destruct (isDelimB c) eqn:Edc.
  - destruct (segment r) as [|[ch n|txt] g] eqn:E.
    + cbn. repeat split; try lia. exact Edc.
    + destruct (Z.eqb_spec ch c) as [->|N].
      * destruct IH as (A & B & C & D). cbn [wfSegsB]. repeat split; try assumption. lia.
      * cbn [wfSegsB]. split; [exact Edc|]. split; [lia|]. split; [exact N|]. exact IH.
    + cbn [wfSegsB]. split; [exact Edc|]. split; [lia|]. split; [exact I|]. exact IH.
  - unfold inB2 in Hc. rewrite Edc in Hc. cbn [orb] in Hc.
    destruct (segment r) as [|[ch n|txt] g] eqn:E.
    + cbn [wfSegsB]. split; [discriminate|]. cbn [forallb noDbl hd]. rewrite Hc. change (0 =? 32) with false.
      rewrite andb_false_r. repeat split.
    + cbn [wfSegsB]. split; [discriminate|]. cbn [forallb noDbl hd]. rewrite Hc. change (0 =? 32) with false.
      rewrite andb_false_r. split; [reflexivity|]. split; [reflexivity|]. split; [exact I|]. exact IH.
    + destruct IH as (A & B & C & D & F). cbn [wfSegsB]. split; [discriminate|]. cbn [forallb noDbl]. rewrite Hc, B, C.
      assert (Eh : hd 0 txt = hd 0 r).
      { rewrite <- Hfl, flat_cons. cbn [segBytes]. destruct txt; [contradiction|reflexivity]. }
      rewrite Eh, Hd1. repeat split; assumption.
Qed.

Lemma segment_text_app : forall u r, u <> [] -> Forall (fun b => isDelimB b = false) u ->
  segment (u ++ r) = match segment r with ST txt :: g => ST (u ++ txt) :: g | g => ST u :: g end.
Proof.
  induction u as [|b u IH]; intros r Hne Hu; [contradiction|]. inversion Hu as [|? ? Hb Hu']; subst.
  destruct u as [|b' u'].
  - cbn [app segment]. rewrite Hb. destruct (segment r) as [|[ch n|txt] g]; reflexivity.
  - change ((b :: b' :: u') ++ r) with (b :: ((b' :: u') ++ r)). cbn [segment]. rewrite Hb.
    rewrite (IH r ltac:(discriminate) Hu'). destruct (segment r) as [|[ch n|txt] g]; reflexivity.
Qed.

Lemma enc_bytes c : textChar c = true -> enc c <> [] /\ Forall (fun b => textB2 b = true) (enc c).
Proof.
  intros H. destruct (textChar_cases c H) as [(R & _ & _ & Ha)|([U|U] & _)].
  - rewrite enc1 by lia. split; [discriminate|]. constructor; [|constructor]. unfold textB2. rewrite Ha. reflexivity.
  - destruct (enc2 c U) as (b0 & b1 & -> & Hb0 & Hb1 & _). split; [discriminate|].
    repeat constructor; unfold textB2; apply orb_true_iff; right; apply Z.leb_le; lia.
  - destruct (enc3 c U) as (b0 & b1 & b2 & -> & Hb0 & Hb1 & Hb2 & _). split; [discriminate|].
    repeat constructor; unfold textB2; apply orb_true_iff; right; apply Z.leb_le; lia.
Qed.
Lemma okChar_cases c : okChar c = true -> (isDelimB c = true /\ enc c = [c]) \/ (isDelimB c = false /\ textChar c = true).
Proof.
  unfold okChar. destruct (isDelimB c) eqn:E; cbn [orb]; intros H.
  - left. split; [reflexivity|]. apply isDelimB_cases in E. apply enc1. lia.
  - right. split; [reflexivity|exact H].
Qed.

Lemma utf8_cons c cs : utf8 (c :: cs) = enc c ++ utf8 cs. Proof. reflexivity. Qed.

Lemma utf8_inB2 : forall cs, forallb okChar cs = true -> forallb inB2 (utf8 cs) = true.
Proof.
  induction cs as [|c cs IH]; intros H; [reflexivity|]. cbn [forallb] in H. apply andb_true_iff in H. destruct H as [Hc H].
  rewrite utf8_cons, forallb_app, (IH H), andb_true_r. destruct (okChar_cases c Hc) as [(Hd & ->)|(_ & Ht)].
  - cbn [forallb]. unfold inB2. rewrite Hd. reflexivity.
  - destruct (enc_bytes c Ht) as [_ Hb]. apply forallb_forall. intros b Hin. rewrite Forall_forall in Hb. unfold inB2. rewrite (Hb b Hin).
    apply orb_true_r.
Qed.

Lemma segment_bd : forall cs, forallb okChar cs = true -> Forall bdOK (segment (utf8 cs)).
Proof.
  induction cs as [|c cs IH]; intros H; [constructor|]. cbn [forallb] in H. apply andb_true_iff in H. destruct H as [Hc H].
  specialize (IH H). rewrite utf8_cons. destruct (okChar_cases c Hc) as [(Hd & ->)|(Hd & Ht)].
  - cbn [app segment]. rewrite Hd. destruct (segment (utf8 cs)) as [|[ch n|txt] g].
    + constructor; [exact I|constructor].
    + inversion IH; subst. destruct (ch =? c); constructor; try exact I; assumption.
    + constructor; [exact I|exact IH].
  - destruct (enc_bytes c Ht) as [Hne Hb].
    rewrite (segment_text_app (enc c) (utf8 cs) Hne).
    2:{ eapply Forall_impl; [|exact Hb]. cbv beta. intros b Hbb. apply textB2_range in Hbb. unfold isDelimB.
        destruct (Z.eqb_spec b 42); [lia|]. destruct (Z.eqb_spec b 95); [lia|]. reflexivity. }
    destruct (segment (utf8 cs)) as [|[ch n|txt] g].
    + constructor; [|constructor]. split; [exists c, []; rewrite app_nil_r; tauto|exists c, []; tauto].
    + constructor; [|exact IH]. split; [exists c, []; rewrite app_nil_r; tauto|exists c, []; tauto].
    + inversion IH as [|? ? Hx Hg]; subst. cbn [bdOK] in Hx. destruct Hx as [Hf (c2 & p & Hc2 & Ep)]. subst txt.
      constructor; [|exact Hg]. split.
      * exists c, (p ++ enc c2). tauto.
      * exists c2, (enc c ++ p). rewrite <- app_assoc. tauto.
Qed.

Lemma okLine2_parts cs : okLine2 cs = true ->
  exists c r, cs = c :: r /\ isLetterB c = true /\ forallb okChar cs = true /\ noDbl (utf8 cs) = true.
Proof.
  destruct cs as [|c r]; [discriminate|]. unfold okLine2. intros H. apply andb_true_iff in H. destruct H as [H H3].
  apply andb_true_iff in H. destruct H as [H1 H2]. exists c, r. tauto.
Qed.
Lemma segment_wf2 cs : okLine2 cs = true -> wfSegs2 (segment (utf8 cs)).
Proof.
  intros H. destruct (okLine2_parts cs H) as (c & r & _ & _ & Ha & Hd).
  apply wfSegs2_of; [apply segment_wfB; [apply utf8_inB2; exact Ha|exact Hd]|apply segment_bd; exact Ha].
Qed.

(* ---------------------------------------------------------------------------------------------- *)
(* parseInlines up to processEmphasis                                                              *)
(* ---------------------------------------------------------------------------------------------- *)
Theorem parseInlines_tok2 cs : okLine2 cs = true ->
  let t := utf8 cs in let L := t ++ [10] in
  exists st', parseInlines L [] (paraClosed 0 (len L) (len L)) = map toInline (rk (processEmphasis st' 0)) /\
    isrc st' = L /\ rk st' = nodesOf (segment t) 1 0 /\ stk st' = map conc (delimsOf2 (segment t) 0 None) /\
    nid st' = 1 + len (segment t).
Proof.
  intros Hok t L. pose proof (segment_wf2 cs Hok) as Hw. fold t in Hw.
  unfold parseInlines. cbn [paraClosed bik bend length].
  set (st0 := {| rk := []; isrc := L; unp := [mkI UnparsedKind 0 (len L)]; upos := 0; stk := []; ign := false; nid := 1;
                 rootEnd := len L; matcher := [] |}).
  assert (HI0 : IT (setIgn st0 false) L) by (repeat split).
  destruct (tok_pend2 (segment t) [] [] 0%nat (S (length L)) (setIgn st0 false) L None Hw) as (st' & Hrun & HI' & Hrk' & Hstk' & Hnid').
  { left. reflexivity. }
  { rewrite segment_flat. reflexivity. }
  { apply nbPrev_nil. }
  { exact HI0. }
  { reflexivity. }
  { rewrite segment_flat. unfold L. rewrite app_length. cbn [length]. lia. }
  change (len (@nil Z) + len (@nil Z)) with 0 in Hrun. change (len (@nil Z)) with 0 in Hrun, Hrk'.
  cbn [optST app] in Hrk', Hstk', Hnid'. cbn [rk stk nid setIgn st0 app] in Hrk', Hstk', Hnid'.
  assert (Hout : outer 2 st0 = setUpos st' 1).
  { cbn [outer]. change (len (unp st0) <=? upos st0) with false. cbv iota.
    change (nth (Z.to_nat (upos st0)) (unp st0) (mkI 0 0 0)) with (mkI UnparsedKind 0 (len L)).
    change (ikind (mkI UnparsedKind 0 (len L))) with UnparsedKind.
    change (UnparsedKind =? 0) with false. change (UnparsedKind =? IndentKind) with false. change (UnparsedKind =? UnparsedKind) with true.
    cbv iota. change (ign st0) with false. cbv iota. change (istart (mkI UnparsedKind 0 (len L))) with 0.
    change (isrc (setIgn st0 false)) with L. rewrite Hrun.
    rewrite (IT_spanEnd st' L HI'). rewrite addText_none. destruct HI' as (H1 & H2 & H3).
    change (unp (setUpos st' (upos st' + 1))) with (unp st'). change (upos (setUpos st' (upos st' + 1))) with (upos st' + 1).
    rewrite H2, H3. reflexivity. }
  rewrite Hout. exists (setUpos st' 1). split; [reflexivity|]. destruct HI' as (H1 & H2 & H3).
  cbn [isrc rk stk nid setUpos]. repeat split; assumption.
Qed.
Print Assumptions parseInlines_tok2.
