From Coq Require Import List ZArith Lia Bool.
Import ListNotations.
Require Import Base Tree Rdr Link Collect Html Recog LP Rules Starts Driver L2Kind L2CC
  BSDef BSTree ShDef ShLine4 Props LADef LA1 LA11
  EolFinalDefs EolFinalSimBytes EolFinalSimTree EolFinalGenOcp EolFinalGenTree EolFinalGenClose EolFinalSimStreamBase.
Open Scope Z_scope.

(* C14 (i), final newline, every input: at the entry of a line the in-line invariant (qB2) and its environment (EV) come from
   the whole-run invariants of one run: the account la (T21) gives the facts PE about the entries of every paragraph-kind block,
   the block shapes (sh) exclude open setext headings. *)
Fixpoint paraIks (b : block) : list (list inline) :=
  match b with Blk K s e bk ik _ _ _ _ _ => (if isParaK K then [ik] else []) ++ flat_map paraIks bk end.
Lemma paraIks_eq b : paraIks b = (if isParaK (bkind b) then [bik b] else []) ++ flat_map paraIks (bkids b).
Proof. destruct b; reflexivity. Qed.

Lemma peB_collect SS : forall b, incl (paraIks b) SS -> peB SS b = true.
Proof.
  fix IH 1. intros [K s e bk ik a n c l lb] Hi. unfold peB. cbn [allB]. fold (peB SS). cbn [paraIks] in Hi. apply andb_true_iff. split.
  - unfold peP. cbn [bkind bik]. destruct (isParaK K) eqn:Ek; [|reflexivity]. cbn [negb orb]. destruct ik as [|u r]; [reflexivity|].
    apply In_sufIk. apply Hi. left. reflexivity.
  - assert (Hk : incl (flat_map paraIks bk) SS) by (intros x Hx; apply Hi; apply in_or_app; right; exact Hx). clear Hi.
    induction bk as [|x r IHr]; [reflexivity|]. cbn [forallb flat_map] in *. rewrite (IH x) by (intros y Hy; apply Hk; apply in_or_app; left; exact Hy).
    apply IHr. intros y Hy. apply Hk. apply in_or_app. right. exact Hy.
Qed.
Lemma peB_collectL SS K : incl (flat_map paraIks K) SS -> forallb (peB SS) K = true.
Proof.
  induction K as [|x r IH]; intros Hi; [reflexivity|]. cbn [forallb flat_map] in *. rewrite (peB_collect SS x) by (intros y Hy; apply Hi; apply in_or_app; left; exact Hy).
  apply IH. intros y Hy. apply Hi. apply in_or_app. right. exact Hy.
Qed.

Lemma eok_toPara src K u : isParaK K = true -> eok src K u -> eok src ParagraphKind u.
Proof. intros HK (A & B & C). split; [exact A|split; [intros _; apply B, HK|exact C]]. Qed.
Lemma isParaK_leaf K : isParaK K = true -> isLeafK K = true.
Proof. intros H. destruct (paraK_cases K H) as [->| ->]; reflexivity. Qed.
Lemma la_PE src M : forall b, la src M b -> Forall (PE src M) (paraIks b).
Proof.
  fix IH 1. intros [K s e bk ik a n c l lb] H. cbn [la] in H. destruct H as (H1 & H2 & H3 & H4 & H5). cbn [paraIks]. apply Forall_app. split.
  - destruct (isParaK K) eqn:Ek; [|constructor]. constructor; [|constructor]. rewrite (isParaK_leaf K Ek) in H4. destruct H4 as (T & Fe & Io).
    exists s, (if e <? 0 then M else e). split; [lia|]. split; [destruct (Z.ltb_spec e 0); lia|]. split; [exact T|]. split; [|apply Io; reflexivity].
    eapply Forall_impl; [|exact Fe]. intros u. apply eok_toPara, Ek.
  - clear H1 H2 H3 H4. induction bk as [|x r IHr]; [constructor|]. destruct H5 as [Hx Hr]. cbn [flat_map]. apply Forall_app. split; [apply IH, Hx|apply IHr, Hr].
Qed.
Lemma laRoot_PE src M K : la src M (docRoot K) -> Forall (PE src M) (flat_map paraIks K).
Proof. intros H. apply la_PE in H. unfold docRoot in H. cbn [paraIks] in H. exact H. Qed.

Lemma sh_sxB src M : forall b, sh src M b -> sxB b = true.
Proof.
  fix IH 1. intros [K s e bk ik a n c l lb]. cbn [sh]. intros (A & B & C). unfold sxB. cbn [allB]. fold sxB. apply andb_true_iff. split.
  - unfold sxP, isOpen. cbn [bkind bend]. destruct (Z.ltb_spec e 0) as [Lt|Ge]; [|reflexivity]. cbn [andb]. destruct (B Lt) as [(_ & _ & _ & _ & N) _].
    replace (K =? SetextHeadingKind) with false by (symmetry; apply Z.eqb_neq; exact N). reflexivity.
  - clear A B. induction bk as [|x r IHr]; [reflexivity|]. destruct C as [C1 C2]. cbn [forallb]. rewrite (IH x C1). apply IHr, C2.
Qed.
Lemma shKids_sxB src M K : allP (sh src M) K -> forallb sxB K = true.
Proof. induction K as [|x r IH]; [reflexivity|]. intros [A B]. cbn [forallb]. rewrite (sh_sxB src M x A). apply IH, B. Qed.

(* putting the three tree predicates together *)
Lemma allB_and3 (P1 P2 P3 : block -> bool) : forall b, allB P1 b = true -> allB P2 b = true -> allB P3 b = true -> allB (fun x => P1 x && P2 x && P3 x) b = true.
Proof.
  fix IH 1. intros [K s e bk ik a n c l lb] H1 H2 H3. cbn [allB] in *. apply andb_true_iff in H1, H2, H3. destruct H1 as [A1 B1], H2 as [A2 B2], H3 as [A3 B3].
  rewrite A1, A2, A3. cbn [andb]. clear A1 A2 A3. induction bk as [|x r IHr]; [reflexivity|]. cbn [forallb] in *.
  apply andb_true_iff in B1, B2, B3. destruct B1 as [X1 R1], B2 as [X2 R2], B3 as [X3 R3]. rewrite (IH x X1 X2 X3). apply IHr; assumption.
Qed.
Lemma qB2_build L SS src K : forallb (qB L) K = true -> forallb sxB K = true -> forallb (peB SS) K = true -> forallb (qB2 L SS src) K = true.
Proof.
  intros H1 H2 H3. rewrite forallb_forall in *. intros x Hx. unfold qB2.
  apply (allB_and3 (qP L) (nsP src) (peP SS) x); [apply H1, Hx| |apply H3, Hx].
  eapply allB_impl; [|apply H2, Hx]. intros y. apply sxP_nsP.
Qed.
