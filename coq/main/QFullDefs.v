(* QFullDefs.v -- T64: the corrected statement of the block-quote clause of C09 after the inline pass.
   The map of the blocks is QuoteSimDefs.qB with the inline map QInlDefs.qI3 D (sigma D): positions by sigma, ends by the end map,
   and Text AND RawHTML nodes that span several lines cut after every line feed (the quoted run produces one node per line;
   with QuoteSimDefs.qI, which cuts Text nodes only, the statement is false: parseFull_quote_qI_refuted in QFull.v). *)
From Coq Require Import List ZArith Lia Bool.
Import ListNotations.
Require Import Base Tree LP Driver Inl3e QuoteSimDefs QCutsDef QIRdrBase QInlDefs.
Open Scope Z_scope.

Definition qI3D (D : bytes) : inline -> list inline := qI3 D (sigma D).
Fixpoint qB3 (D : bytes) (b : block) : block :=
  match b with Blk k s e bk ik a nn c l lb =>
    Blk k (sigma D s) (epsB D e) (map (qB3 D) bk) (flat_map (qI3D D) ik) a nn c l lb end.
Fixpoint quoteKids3 (D : bytes) (roots : list rootB) : list block :=
  match roots with
  | [] => []
  | r :: rest =>
    let nextStart := match rest with r' :: _ => rb_start r' | [] => len D end in
    let b := qB3 D (shiftB (rb_start r) (rb_blk r)) in
    (if rb_end r <? nextStart then set_blast b true else b) :: quoteKids3 D rest
  end.

Definition parseFull_quote_statement : Prop := forall D, tabFree D -> D <> [] ->
  exists lb, parseFull (quote D) = ([quoteRoot D lb (quoteKids3 D (fst (parseFull D)))], 0).

(* the rendered pieces of the root blocks of a document: renderDoc joins them with two line feeds *)
Require Import Render.
Definition renderPieces (c : cfg) (D : bytes) : list bytes :=
  let '(roots, _) := parseFull D in
  let refs := fold_left (fun a r => extractDefs (bheight (rb_blk r)) (rb_src r) (rb_blk r) a) roots [] in
  map (fun r => renderB (bheight (rb_blk r)) c refs (rb_src r) false (rb_blk r)) roots.
Lemma renderDoc_pieces c D : renderDoc c D = joinBlocks (renderPieces c D).
Proof. unfold renderDoc, renderPieces. destruct (parseFull D). reflexivity. Qed.
Definition s_blockquote : bytes := [98;108;111;99;107;113;117;111;116;101].
(* safe mode: raw HTML is not written *)
Definition renderDoc_quote_statement : Prop := forall c D, ignoreRaw c = true -> tabFree D -> D <> [] ->
  renderDoc c (quote D) = openTag c s_blockquote ++ concat (renderPieces c D) ++ closeTag c s_blockquote.
