(* QuoteSimQLine.v -- T51 (C09, block-quote clause), stage 1, one line:
   processLine on a line "> " ++ rest, with the document's single child an open block quote whose children are done ++ ks,
   equals the line parser started at byte 2 / column 2 (after the marker, state stDescending) directly under a document
   with children ks -- processLineAt 2 2 stDescending ks --, re-wrapped in the quote. *)
From Coq Require Import List ZArith Lia Bool Arith.
Import ListNotations.
Require Import Base Tree Rdr Link Collect Html Recog LP Rules Starts Driver Cursor L2Kind L2CC NoPanic47 QuoteSimTree QuoteSimNest.
Open Scope Z_scope.

Definition processTail (p : lp) : list block * Z * Z :=
  let '(allMatched, p) := descendOpenBlocks p in
  let '(hasText, p) := if negb (state p =? stDescendTerminated) then openNewBlocks p allMatched else (false, p) in
  let p := if hasText then addLineText p else p in
  (bkids (root p), state p, panicked p).
Lemma processLine_tail st ch ls src : processLine st ch ls src = processTail (resetLP st ch ls src).
Proof. unfold processLine, processTail. reflexivity. Qed.

Definition resetLPAt (i0 c0 st : Z) (children : list block) (ls : Z) (src : bytes) : lp :=
  let ln := from_ src ls in
  {| source := src; root := Blk documentKind 0 (-1) children [] 0 0 0 false false; container := Some O;
     lineStart := ls; line := ln; li := i0; col := c0; tabRem := computeTabRem ln i0 c0; state := st; panicked := 0 |}.
Definition processLineAt (i0 c0 st : Z) (children : list block) (ls : Z) (src : bytes) : list block * Z * Z :=
  processTail (resetLPAt i0 c0 st children ls src).

(* ---- the cursor over "> " ---- *)
Lemma cil_S' f p n : consumeIndent_loop (S f) p n =
    if n <=? 0 then p else
    let p := if state p =? stOpening then withState p stOpenMatched else p in
    let inLine := li p <? len (line p) in
    if inLine && (at_ (line p) (li p) =? 32) then
      let i' := li p + 1 in let cl := col p + 1 in
      consumeIndent_loop f (withCursor p i' cl (computeTabRem (line p) i' cl)) (n - 1)
    else if inLine && (at_ (line p) (li p) =? 9) then
      if n <? tabRem p then withCursor p (li p) (col p + n) (tabRem p - n)
      else
        let cl := col p + tabRem p in let i' := li p + 1 in
        consumeIndent_loop f (withCursor p i' cl (computeTabRem (line p) i' cl)) (n - tabRem p)
    else panic p 3.
Proof. reflexivity. Qed.
Lemma cil_0' f p : consumeIndent_loop f p 0 = p. Proof. destruct f; reflexivity. Qed.
Lemma consumeIndent_zero p : consumeIndent p 0 = p. Proof. unfold consumeIndent. apply cil_0'. Qed.
Lemma len2_pos (a b : Z) (r : bytes) : 1 < len (a :: b :: r).
Proof. unfold len. cbn [length]. lia. Qed.

Lemma eatQuote_gen p rest : li p = 0 -> col p = 0 -> line p = 62 :: 32 :: rest -> (state p =? stOpening) = false ->
  eatQuoteMarker p 0 = setLP p (root p) (container p) 2 2 (computeTabRem (line p) 2 2) (state p) (panicked p).
Proof.
  intros Hli Hcol Hln Hst. destruct p as [src rt cont ls ln i cl tr st pn]. cbn [li col line state root container panicked] in *. subst i cl ln.
  pose proof (len2_pos 62 32 rest) as Hlen.
  unfold eatQuoteMarker. cbv zeta. rewrite consumeIndent_zero.
  unfold advance. change (1 <? 0) with false. change (1 =? 0) with false. cbv iota. cbn [state]. rewrite Hst.
  cbn [li line col]. destruct (Z.ltb_spec (len (62 :: 32 :: rest)) (0 + 1)); [lia|].
  change (at_ (62 :: 32 :: rest) 0 =? 9) with false. rewrite andb_false_r.
  change (sub (62 :: 32 :: rest) 0 (0 + 1)) with [62]. change (0 + columnWidth 0 [62]) with 1.
  assert (Et : computeTabRem (62 :: 32 :: rest) (0 + 1) 1 = 0).
  { unfold computeTabRem. change (at_ (62 :: 32 :: rest) (0 + 1) =? 9) with false. rewrite andb_false_r. reflexivity. }
  rewrite Et. unfold withCursor, setLP. cbn [root container li col tabRem state panicked source lineStart line].
  set (p1 := {| source := src; root := rt; container := cont; lineStart := ls; line := 62 :: 32 :: rest; li := 0 + 1; col := 1; tabRem := 0; state := st; panicked := pn |}).
  assert (Ei : (0 <? indent p1) = true).
  { unfold indent, p1. cbn [line li col]. destruct (Z.leb_spec (len (62 :: 32 :: rest)) (0 + 1)); [lia|].
    change (at_ (62 :: 32 :: rest) (0 + 1)) with 32. change (32 =? 32) with true. cbv iota. cbv zeta.
    match goal with |- (0 <? 1 + columnWidth ?c ?w) = true => pose proof (columnWidth_nonneg c w) end. apply Z.ltb_lt. lia. }
  rewrite Ei.
  unfold consumeIndent. change (line p1) with (62 :: 32 :: rest). cbn [length]. rewrite cil_S'.
  change (1 <=? 0) with false. cbv iota. change (state p1) with st. rewrite Hst. cbv zeta.
  change (li p1) with (0 + 1). change (line p1) with (62 :: 32 :: rest). change (col p1) with 1.
  destruct (Z.ltb_spec (0 + 1) (len (62 :: 32 :: rest))); [|lia]. change (at_ (62 :: 32 :: rest) (0 + 1) =? 32) with true. cbn [andb]. cbv iota.
  change (1 - 1) with 0. rewrite cil_0'. reflexivity.
Qed.

(* ---- the first step of the descent: the quote matches "> " ---- *)
Lemma bheight_doc1 bq a b c d e f g h : bheight (Blk documentKind a b [bq] c d e f g h) = S (bheight bq).
Proof. cbn [bheight fold_right]. rewrite Nat.max_0_r. reflexivity. Qed.

Lemma descend_quote st bq ls src rest : from_ src ls = 62 :: 32 :: rest -> bkind bq = BlockQuoteKind -> isOpen bq = true ->
  descendOpenBlocks (resetLP st [bq] ls src) =
  descend_loop (bheight bq)
    {| source := src; root := Blk documentKind 0 (-1) [bq] [] 0 0 0 false false; container := Some 1%nat; lineStart := ls;
       line := 62 :: 32 :: rest; li := 2; col := 2; tabRem := computeTabRem (62 :: 32 :: rest) 2 2; state := stDescending; panicked := 0 |} 1.
Proof.
  intros Hl Hk Ho. unfold descendOpenBlocks, resetLP. rewrite Hl. cbv zeta. cbn [root]. rewrite bheight_doc1.
  cbn [descend_loop]. cbn [root getAt lastBlock bkids rev app]. rewrite Ho. cbn [negb]. cbv zeta. rewrite Hk.
  change (hasMatch BlockQuoteKind) with true. cbn [negb].
  set (p := withState _ stDescending).
  assert (Em : matchRule p = (true, eatQuoteMarker p 0)).
  { unfold matchRule. cbv zeta.
    assert (Ek : containerKind p = BlockQuoteKind) by (unfold containerKind, contBlock, p; cbn; exact Hk). rewrite Ek.
    change ((BlockQuoteKind =? documentKind) || (BlockQuoteKind =? ListKind)) with false.
    change (BlockQuoteKind =? ListItemKind) with false. change (BlockQuoteKind =? BlockQuoteKind) with true. cbv iota.
    unfold matchBlockQuote. cbv zeta.
    assert (Ei : indent p = 0).
    { unfold indent, p. cbn [line li withState withCont setLP]. destruct (Z.leb_spec (len (62 :: 32 :: rest)) 0) as [L|L]; [pose proof (len2_pos 62 32 rest); lia|].
      change (at_ (62 :: 32 :: rest) 0) with 62. reflexivity. }
    rewrite Ei. change (codeBlockIndentLimit <=? 0) with false. cbv iota.
    assert (Eb : bytesAfterIndent p = 62 :: 32 :: rest) by (unfold bytesAfterIndent, LP.rest, p; cbn [line li withState withCont setLP]; reflexivity).
    rewrite Eb. change (hasBytePrefix (62 :: 32 :: rest) [62]) with true. cbn [negb]. reflexivity. }
  rewrite Em. rewrite (eatQuote_gen p rest eq_refl eq_refl eq_refl eq_refl).
  unfold p. cbn [setLP withState withCont state root container source lineStart line panicked].
  change (stDescending =? stDescendTerminated) with false. cbv iota. cbn [negb]. reflexivity.
Qed.

(* ---- the theorem for one line ---- *)
Lemma F_resetLPAt i0 c0 st ks ls src : ccF ks = true -> F (resetLPAt i0 c0 st ks ls src).
Proof.
  intros Hc. split; [|split; cbn; discriminate]. unfold ccP, wf, resetLPAt, cdepth. cbn [root container].
  split; [reflexivity|split; [exact Hc|eexists; reflexivity]].
Qed.

Theorem processLine_quoted (fr : frame) stQ bq ks ls src rest :
  from_ src ls = 62 :: 32 :: rest ->
  bkind bq = BlockQuoteKind -> isOpen bq = true -> auxOf bq = snd fr -> bkids bq = fst fr ++ ks -> Forall closedB (fst fr) ->
  ccF ks = true ->
  exists bq' done',
    processLine stQ [bq] ls src =
      ([bq'], snd (fst (processLineAt 2 2 stDescending ks ls src)), snd (processLineAt 2 2 stDescending ks ls src)) /\
    bkind bq' = BlockQuoteKind /\ isOpen bq' = true /\ auxOf bq' = snd fr /\
    map er done' = map er (fst fr) /\ Forall closedB done' /\
    bkids bq' = done' ++ fst (fst (processLineAt 2 2 stDescending ks ls src)).
Proof.
  intros Hl Hk Ho Ha Hkids Hcl Hcc. rewrite processLine_tail. unfold processLineAt, processTail.
  rewrite (descend_quote stQ bq ls src rest Hl Hk Ho).
  set (q1 := {| source := src; root := Blk documentKind 0 (-1) [bq] [] 0 0 0 false false; container := Some 1%nat; lineStart := ls;
                line := 62 :: 32 :: rest; li := 2; col := 2; tabRem := computeTabRem (62 :: 32 :: rest) 2 2; state := stDescending; panicked := 0 |}).
  set (p0 := resetLPAt 2 2 stDescending ks ls src).
  assert (H0 : N fr p0 q1).
  { unfold p0, q1, resetLPAt. rewrite Hl. cbv zeta. apply N_mk. split.
    - exists O. repeat split. discriminate.
    - exists bq. split; [reflexivity|]. unfold topRel. cbn [bkind bkids]. repeat split; try assumption. exists (fst fr). repeat split; assumption. }
  assert (F0 : F p0) by (apply F_resetLPAt, Hcc).
  unfold descendOpenBlocks.
  pose proof (N_descend_loop fr (bheight (root p0)) (bheight bq) p0 q1 O H0 ltac:(discriminate) ltac:(lia)
                ltac:(unfold q1; cbn [root]; rewrite bheight_doc1; lia)) as [Eam H1].
  pose proof (F_descend_loop (bheight (root p0)) p0 O F0 ltac:(eexists; reflexivity)) as F1.
  pose proof (line_descend_loop (bheight (root p0)) p0 O) as L1.
  destruct (descend_loop (bheight (root p0)) p0 0) as [am p1]. destruct (descend_loop (bheight bq) q1 1) as [am' q1']. cbn [fst snd] in *. subst am'.
  rewrite (N_state _ _ _ H1).
  assert (H2 : relBP fr (if negb (state p1 =? stDescendTerminated) then openNewBlocks p1 am else (false, p1))
                        (if negb (state p1 =? stDescendTerminated) then openNewBlocks q1' am else (false, q1')) /\
               (fst (if negb (state p1 =? stDescendTerminated) then openNewBlocks p1 am else (false, p1)) = true ->
                goodSt' (snd (if negb (state p1 =? stDescendTerminated) then openNewBlocks p1 am else (false, p1))))).
  { destruct (negb _).
    - split.
      + apply N_openNewBlocks; [exact F1|exact H1|]. rewrite L1. unfold p0, resetLPAt. cbn [line]. rewrite Hl. pose proof (len2_pos 62 32 rest). lia.
      + intros Ht Hacc. left. apply (L2Kind2.openNewBlocks_good p1 am Ht Hacc).
    - split; [apply relBP_mk, H1|cbn; discriminate]. }
  destruct H2 as [[Eht H2] G2].
  destruct (if negb (state p1 =? stDescendTerminated) then openNewBlocks p1 am else (false, p1)) as [ht p2].
  destruct (if negb (state p1 =? stDescendTerminated) then openNewBlocks q1' am else (false, q1')) as [ht' q2]. cbn [fst snd] in *. subst ht'.
  assert (H3 : N fr (if ht then addLineText p2 else p2) (if ht then addLineText q2 else q2)).
  { destruct ht; [apply N_addLineText; [exact H2|exact (G2 eq_refl)]|exact H2]. }
  set (p3 := if ht then addLineText p2 else p2) in *. set (q3 := if ht then addLineText q2 else q2) in *. clearbody p3 q3.
  pose proof (N_state _ _ _ H3) as Es. pose proof (N_panicked _ _ _ H3) as Ep.
  destruct H3 as (_ & _ & _ & _ & _ & _ & _ & _ & _ & bq' & Ebq & (K1 & K2 & K3 & KA & dn & E1 & E2 & E3)).
  exists bq', dn. rewrite Ebq, Es, Ep. repeat split; assumption.
Qed.
Print Assumptions processLine_quoted.

(* ---- the end-of-input line ---- *)
Require Import StreamFuel.
Lemma closeBlock_S f src b e : closeBlock (S f) src b e =
    if negb (isOpen b) then [b] else
    let b1 := set_bend b e in
    let closeLast (x : block) : block :=
      match lastBlock x with
      | Some c => set_lastBlocks x (closeBlock f src c e)
      | None => x
      end in
    if bkind b1 =? ListKind then [closeLast (onCloseList b1)]
    else if bkind b1 =? IndentedCodeBlockKind then [closeLast (onCloseIndented src b1)]
    else if (bkind b1 =? ParagraphKind) || (bkind b1 =? SetextHeadingKind) then onCloseParagraph src b1
    else [closeLast b1].
Proof. reflexivity. Qed.
Lemma lastBlock_set_bend b e : lastBlock (set_bend b e) = lastBlock b. Proof. destruct b; reflexivity. Qed.
Lemma bkids_set_bend b e : bkids (set_bend b e) = bkids b. Proof. destruct b; reflexivity. Qed.

(* the children of the document after the end-of-input close, for any sufficient fuel *)
Definition eofClose (f : nat) (src : bytes) (ks : list block) (ls : Z) : list block :=
  match rev ks with c :: _ => removelast ks ++ closeBlock f src c ls | [] => ks end.
Lemma eofK_close st ks ls src : eofSt st ks <> stDescendTerminated ->
  eofK st ks ls src = eofClose (bheight (root0 ks) - 1) src ks ls.
Proof.
  intros Hs. unfold eofK. destruct (Z.eqb_spec (eofSt st ks) stDescendTerminated); [contradiction|].
  pose proof (bheight_pos (root0 ks)). destruct (bheight (root0 ks)) as [|f] eqn:Ef; [lia|]. rewrite closeBlock_S.
  change (isOpen (root0 ks)) with true. cbn [negb]. cbv zeta. change (bkind (set_bend (root0 ks) ls)) with documentKind.
  change (documentKind =? ListKind) with false. change (documentKind =? IndentedCodeBlockKind) with false.
  change ((documentKind =? ParagraphKind) || (documentKind =? SetextHeadingKind)) with false. cbv iota.
  unfold eofClose. replace (S f - 1)%nat with f by lia. unfold lastBlock. cbn [set_bend root0 bkids].
  destruct (rev ks) as [|c r]; reflexivity.
Qed.

Theorem processLine_quoted_eof (fr : frame) stQ bq ks ls src :
  from_ src ls = [] -> bkind bq = BlockQuoteKind -> isOpen bq = true -> bkids bq = fst fr ++ ks -> Forall closedB (fst fr) ->
  processLine stQ [bq] ls src =
    ([set_bkids (set_bend bq ls) (fst fr ++ eofClose (bheight (root0 ks) - 1) src ks ls)], stDescending, 0).
Proof.
  intros Hl Hk Ho Hkids Hcl. rewrite (processLine_eof stQ [bq] ls src Hl).
  assert (Es : eofSt stQ [bq] = stDescending).
  { unfold eofSt, descState. cbn [root0 lastBlock bkids rev app]. rewrite Ho, Hk. reflexivity. }
  rewrite Es. f_equal. f_equal. unfold eofK. rewrite Es. change (stDescending =? stDescendTerminated) with false. cbv iota.
  unfold root0 at 1 2. rewrite bheight_doc1. rewrite closeBlock_S. cbn [negb isOpen bend Z.ltb Z.compare]. cbv zeta.
  cbn [set_bend bkind]. change (documentKind =? ListKind) with false. change (documentKind =? IndentedCodeBlockKind) with false.
  change ((documentKind =? ParagraphKind) || (documentKind =? SetextHeadingKind)) with false. cbv iota.
  cbn [lastBlock bkids rev app set_lastBlocks set_bkids removelast].
  pose proof (bheight_pos bq). destruct (bheight bq) as [|f] eqn:Ef; [lia|]. rewrite closeBlock_S. rewrite Ho. cbn [negb]. cbv zeta.
  rewrite L2CC.bkind_set_bend, Hk. change (BlockQuoteKind =? ListKind) with false. change (BlockQuoteKind =? IndentedCodeBlockKind) with false.
  change ((BlockQuoteKind =? ParagraphKind) || (BlockQuoteKind =? SetextHeadingKind)) with false. cbv iota.
  f_equal. rewrite lastBlock_set_bend. unfold eofClose.
  destruct (rev ks) as [|c r] eqn:Er.
  - assert (ks = []) by (apply (f_equal (@rev block)) in Er; rewrite rev_involutive in Er; exact Er). subst ks. rewrite app_nil_r in *.
    destruct (lastBlock bq) as [c|] eqn:El.
    + assert (Hc : isOpen c = false).
      { rewrite Forall_forall in Hcl. apply Hcl. rewrite <- Hkids. apply lastBlock_in, El. }
      rewrite (closeBlock_closed' f src c ls Hc). rewrite set_lastBlocks_same by (rewrite lastBlock_set_bend; exact El).
      destruct bq; cbn in *. rewrite Hkids. reflexivity.
    + destruct bq; cbn in *. rewrite Hkids. reflexivity.
  - assert (Eks : ks = removelast ks ++ [c]).
    { apply (f_equal (@rev block)) in Er. rewrite rev_involutive in Er. cbn [rev] in Er. rewrite Er, removelast_last. reflexivity. }
    assert (El : lastBlock bq = Some c) by (apply (lastBlock_snoc bq (fst fr ++ removelast ks)); rewrite <- app_assoc, <- Eks; exact Hkids).
    rewrite El.
    assert (Hc1 : (bheight c < bheight bq)%nat) by (apply bheight_last, El).
    assert (Hc2 : (bheight c < bheight (root0 ks))%nat).
    { apply bheight_kid. cbn [root0 bkids]. rewrite Eks. apply in_or_app. right. left. reflexivity. }
    rewrite (closeBlock_fuel src ls f (bheight (root0 ks) - 1) c) by lia.
    unfold set_lastBlocks. rewrite bkids_set_bend, Hkids.
    assert (Hne : ks <> []) by (intros E0; rewrite E0 in Er; discriminate).
    rewrite (removelast_app_ne (fst fr) ks Hne), <- app_assoc. destruct bq; reflexivity.
Qed.
Print Assumptions processLine_quoted_eof.
