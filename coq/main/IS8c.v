From Coq Require Import List ZArith Lia Bool.
Import ListNotations.
Require Import Base Tables Utf8 Tree Rdr Link Collect Html Recog Inl3a Inl3b Inl3c Inl3d Props Leaf3e RdrBound.
Require Import ShapesBase ShapesR GI0 GI1 GI7 IS2 IS1.
Open Scope Z_scope.

(* ================================================================== *)
(* IS8c: bounds of the link-part scanners; children of a code span.    *)
(* ================================================================== *)

Section LB.
  Variable B : Z.
  Hypothesis HB : -1 <= B.
  Notation RB := (RB B).

  Ltac step :=
    repeat match goal with
    | |- context [current ?r] => let H := fresh "Hc" in let c := fresh "c" in let r' := fresh "r" in
        match goal with Hr : RB r |- _ => pose proof (RB_current B r Hr) as H; destruct (current r) as [c r']; cbn [snd] in H end
    | |- context [next ?r] => let H := fresh "Hn" in let ok := fresh "ok" in let r' := fresh "r" in let E := fresh "En" in
        match goal with Hr : RB r |- _ => pose proof (RB_next' B r Hr) as H; destruct (next r) as [ok r'] eqn:E; cbn [snd] in H end
    end.

  Definition resOK (res : (Z * Z) * (Z * Z) * reader) : Prop :=
    spanValid (fst (fst res)) = true -> snd (fst (fst res)) <= B /\ snd (snd (fst res)) <= B.
  Lemma resOK_null tx r : resOK (nullSpan, tx, r). Proof. unfold resOK. cbn. discriminate. Qed.

  Lemma ld_angle_res : forall fuel r start, RB r -> resOK (ld_angle fuel r start).
  Proof.
    induction fuel as [|f IH]; intros r start H; [apply resOK_null|]. cbn [ld_angle]. step.
    destruct (negb ok); [apply resOK_null|]. step.
    destruct (_ || _); [apply resOK_null|].
    destruct (c =? 92).
    { step. destruct (negb ok0); [apply resOK_null|]. step. destruct (_ || _); [apply resOK_null|]. apply IH. assumption. }
    destruct (c =? 62); [|apply IH; assumption]. step. intros _. cbn [fst snd]. destruct Hn0 as (_ & _ & P). lia.
  Qed.
  Lemma parseLinkDestination_res fuel r : RB r -> resOK (parseLinkDestination fuel r).
  Proof.
    intros H. unfold parseLinkDestination. step.
    destruct (c =? 60); [apply ld_angle_res; assumption|].
    destruct (_ && _ && _); [|apply resOK_null].
    pose proof (RB_ld_bare B fuel r0 0 Hc) as (_ & P & _). intros _. cbn [fst snd]. lia.
  Qed.
  Lemma lt_loop_res : forall fuel r start term, RB r -> resOK (lt_loop fuel r start term).
  Proof.
    induction fuel as [|f IH]; intros r start term H; [apply resOK_null|]. cbn [lt_loop]. step.
    destruct (negb ok); [apply resOK_null|]. step.
    destruct (c =? 92).
    { step. destruct (negb ok0); [apply resOK_null|]. apply IH. assumption. }
    destruct (c =? term); [|apply IH; assumption]. step. intros _. cbn [fst snd]. destruct Hn0 as (_ & _ & P). lia.
  Qed.
  Lemma parseLinkTitle_res fuel r : RB r -> resOK (parseLinkTitle fuel r).
  Proof.
    intros H. unfold parseLinkTitle. step. destruct (negb _); [apply resOK_null|]. apply lt_loop_res. assumption.
  Qed.

  (* a successful step starts inside a span *)
  Lemma next_ok_pos r r1 : RB r -> next r = (true, r1) -> r_pos r + 1 <= B.
  Proof.
    intros (A & _) E. destruct (next_true r r1 E) as (node & rest & Ec & Hh & (pre & Epre) & _).
    apply spanHas_range in Hh. rewrite Forall_forall in A. destruct (A node ltac:(rewrite Epre; apply in_or_app; right; left; reflexivity)) as [_ Hn]. lia.
  Qed.
  Lemma ll_body_res : forall fuel r chars ie r' ie', RB r -> ie <= B -> ll_body fuel r chars ie = Some (r', ie') -> ie' <= B.
  Proof.
    induction fuel as [|f IH]; intros r chars ie r' ie' H Hie E; [discriminate|]. cbn [ll_body] in E.
    pose proof (RB_current B r H) as Hc. destruct (current_fields r) as (_ & P1 & _). cbv zeta in P1.
    destruct (current r) as [c r1]. cbn [snd] in *.
    destruct (negb _); [inversion E; subst; exact Hie|].
    destruct (c =? 92).
    - pose proof (RB_next' B r1 Hc) as Hn. destruct (next r1) as [ok r2] eqn:En. cbn [snd] in Hn.
      destruct ok; cbn [negb] in E; [|discriminate]. pose proof (next_ok_pos r1 r2 Hc En) as Hp1.
      pose proof (RB_current B r2 Hn) as Hc2. destruct (current_fields r2) as (_ & P3 & _). cbv zeta in P3.
      destruct (current r2) as [c2 r3]. cbn [snd] in *.
      pose proof (RB_next' B r3 Hc2) as Hn3. destruct (next r3) as [ok2 r4] eqn:En3. cbn [snd] in Hn3.
      destruct ok2; cbn [negb] in E; [|discriminate]. pose proof (next_ok_pos r3 r4 Hc2 En3) as Hp3.
      eapply (IH r4); [exact Hn3| |exact E]. destruct (negb _); lia.
    - pose proof (RB_next' B r1 Hc) as Hn. destruct (next r1) as [ok r2] eqn:En. cbn [snd] in Hn.
      destruct ok; cbn [negb] in E; [|discriminate]. pose proof (next_ok_pos r1 r2 Hc En) as Hp1.
      eapply (IH r2); [exact Hn| |exact E]. destruct (negb _); lia.
  Qed.
  Lemma parseLinkLabel_inner fuel r lspan linner r' : RB r -> parseLinkLabel fuel r = (lspan, linner, r') -> spanValid lspan = true ->
    snd linner <= B.
  Proof.
    intros H E Hv. unfold parseLinkLabel in E. pose proof (RB_current B r H) as Hc. destruct (current r) as [c r0]. cbn [snd] in Hc.
    destruct (negb (c =? 91)); [inversion E; subst; discriminate|].
    destruct (ll_skip fuel r0 0) as [[r1 chars]|] eqn:Es; [|inversion E; subst; discriminate].
    pose proof (RB_ll_skip B fuel r0 0 r1 chars Hc Es) as H1.
    destruct (ll_body fuel r1 chars (-1)) as [[r2 ie]|] eqn:Eb; [|inversion E; subst; discriminate].
    pose proof (ll_body_res fuel r1 chars (-1) r2 ie H1 HB Eb) as Hie.
    destruct (current r2) as [c2 r3]. destruct (negb (c2 =? 93)); [inversion E; subst; discriminate|].
    destruct (next r3) as [ok4 r4]. inversion E; subst. exact Hie.
  Qed.
End LB.

(* ---------------------------------------------------------------- children of a code span *)
Section CSK.
  Variable src : bytes.
  Definition cvT (n : pn) : Prop := csT n /\ vok src n = true.
  Lemma cvT_mk k s e ind : txk k = true -> 0 <= s -> s <= e -> e <= len src -> cvT (PN 0 k s e ind [] []).
  Proof. intros Hk A B C. split; [repeat split; exact Hk|]. cbn [vok forallb]. rewrite span_valid_intro by lia. reflexivity. Qed.

  Lemma spanLen_pos' s e : 0 < spanLen s e -> 0 <= s /\ s < e.
  Proof.
    unfold spanLen. destruct (Z.leb_spec 0 s); cbn [andb]; [|lia]. destruct (Z.leb_spec 0 e); cbn [andb]; [|lia]. destruct (Z.leb_spec s e); lia.
  Qed.
  Lemma cs_addSpan_cvT acc s e : 0 <= s -> e <= len src -> Forall cvT acc -> Forall cvT (cs_addSpan src acc s e).
  Proof.
    intros Hs He H. unfold cs_addSpan. cbv zeta.
    set (t := sub src s e). set (n := len t).
    assert (Hn : n <= Z.max 0 (e - s)) by (apply len_sub_le).
    set (trim := if (2 <=? n) && (at_ t (n - 2) =? 13) && (at_ t (n - 1) =? 10) then 2
                 else if (1 <=? n) && ((at_ t (n - 1) =? 10) || (at_ t (n - 1) =? 13)) then 1 else 0).
    assert (Ht : 0 <= trim <= n).
    { unfold trim. destruct (Z.leb_spec 2 n); cbn [andb]; [destruct (_ && _); [lia|]|]; (destruct (Z.leb_spec 1 n); cbn [andb]; [destruct (_ || _); lia|]); pose proof (ShapesBase.len_nonneg t); unfold n in *; lia. }
    assert (H1 : Forall cvT (if 0 <? spanLen s (e - trim) then acc ++ [PN 0 TextKind s (e - trim) 0 [] []] else acc)).
    { destruct (Z.ltb_spec 0 (spanLen s (e - trim))) as [L|L]; [|exact H]. apply spanLen_pos' in L.
      apply Forall_app. split; [exact H|constructor; [apply cvT_mk; [reflexivity|lia..]|constructor]]. }
    destruct (Z.ltb_spec 0 trim) as [L|L]; [|exact H1].
    apply Forall_app. split; [exact H1|constructor; [|constructor]]. apply cvT_mk; [reflexivity|lia..].
  Qed.

  Lemma cvT_setInd n v : cvT n -> cvT (setInd n v). Proof. destruct n; unfold cvT, csT; cbn; tauto. Qed.
  Lemma cvT_setSpan n s e : cvT n -> 0 <= s -> s <= e -> e <= len src -> cvT (setSpan n s e).
  Proof.
    destruct n as [i k s0 e0 ind r ks]. unfold cvT, csT. cbn [pid pkind pkids setSpan vok]. intros ((A & B & C) & D) H1 H2 H3.
    split; [tauto|]. apply andb_true_iff in D. destruct D as [_ D]. rewrite D, span_valid_intro by lia. reflexivity.
  Qed.
  Lemma cvT_span n : cvT n -> span_valid (len src) (ps n) (pe n) = true.
  Proof. destruct n. unfold cvT. cbn [vok ps pe]. intros (_ & D). apply andb_true_iff in D. tauto. Qed.
  Lemma plen_nz n : (plen n =? 0) = false -> 0 <= ps n /\ ps n < pe n.
  Proof.
    unfold plen, spanLen. intros H. destruct (Z.leb_spec 0 (ps n)); cbn [andb] in H; [|discriminate]. destruct (Z.leb_spec 0 (pe n)); cbn [andb] in H; [|discriminate].
    destruct (Z.leb_spec (ps n) (pe n)); [|discriminate]. apply Z.eqb_neq in H. lia.
  Qed.

  Lemma strip_cvT sl : Forall cvT sl -> Forall cvT (stripCodeSpanSpace src sl).
  Proof.
    intros H. unfold stripCodeSpanSpace.
    destruct (negb (existsb _ sl)); [assumption|].
    destruct sl as [|f r]; [assumption|].
    destruct (rev (f :: r)) as [|lst rr] eqn:Er; [assumption|].
    destruct (negb _ || negb _); [assumption|].
    cbv zeta.
    assert (H1 : Forall cvT (if pkind f =? IndentKind
                             then if pind (setInd f (pind f - 1)) =? 0 then r else setInd f (pind f - 1) :: r
                             else if plen (setSpan f (ps f + 1) (pe f)) =? 0 then r else setSpan f (ps f + 1) (pe f) :: r)).
    { inversion H as [|? ? Hf Hr]; subst.
      destruct (pkind f =? IndentKind); [destruct (pind _ =? 0); [assumption|constructor; [apply cvT_setInd|]; assumption]|].
      destruct (plen (setSpan f (ps f + 1) (pe f)) =? 0) eqn:Ep; [assumption|]. constructor; [|assumption].
      apply plen_nz in Ep. pose proof (span_valid_elim _ _ _ (cvT_span f Hf)) as (A & B & C).
      replace (ps (setSpan f (ps f + 1) (pe f))) with (ps f + 1) in Ep by (destruct f; reflexivity).
      replace (pe (setSpan f (ps f + 1) (pe f))) with (pe f) in Ep by (destruct f; reflexivity).
      apply cvT_setSpan; [exact Hf|lia..]. }
    set (sl1 := if pkind f =? IndentKind then _ else _) in *.
    destruct (rev sl1) as [|l rr'] eqn:Er1; [assumption|].
    assert (H2 : Forall cvT (l :: rr')) by (rewrite <- Er1; apply Forall_rev_; assumption).
    inversion H2 as [|? ? Hl Hrr]; subst.
    destruct (pkind l =? IndentKind).
    - match goal with |- context [if ?c then _ else _] => destruct c end; [apply Forall_rev_; assumption|]. apply (Forall_rev_ cvT (_ :: rr')). constructor; [apply cvT_setInd|]; assumption.
    - destruct (plen (setSpan l (ps l) (pe l - 1)) =? 0) eqn:Ep; [apply Forall_rev_; assumption|].
      apply (Forall_rev_ cvT (_ :: rr')). constructor; [|assumption].
      apply plen_nz in Ep. pose proof (span_valid_elim _ _ _ (cvT_span l Hl)) as (A & B & C).
      replace (ps (setSpan l (ps l) (pe l - 1))) with (ps l) in Ep by (destruct l; reflexivity).
      replace (pe (setSpan l (ps l) (pe l - 1))) with (pe l - 1) in Ep by (destruct l; reflexivity).
      apply cvT_setSpan; [exact Hl|lia..].
  Qed.
  Lemma cvT_both l : Forall cvT l -> Forall csT l /\ vokF src l = true.
  Proof.
    intros H. split; [eapply Forall_impl; [|exact H]; intros a Ha; apply Ha|].
    unfold vokF. apply forallb_forall. intros x Hx. rewrite Forall_forall in H. apply (H x Hx).
  Qed.
End CSK.

(* ---------------------------------------------------------------- the parts of an inline link lie inside the source *)
Lemma RB_newReader src sp pos : spOK src sp = true -> pos <= len src -> RB (len src) (newReader src sp pos).
Proof.
  intros Hok Hp. split; [|cbn [newReader r_pos r_prev]; pose proof (ShapesBase.len_nonneg src); lia].
  cbn [newReader r_spans]. apply Forall_forall. intros x Hx.
  assert (Hall : forall l, spOK src l = true -> forall i, In i l -> istart i < iend i /\ iend i <= len src).
  { induction l as [|y l IH]; intros H i Hi; [contradiction|]. pose proof (spOK_iend _ _ _ H) as He.
    pose proof (spOK_cons _ _ _ H) as (A & B & _ & _ & _ & G). destruct Hi as [->|Hi]; [split; assumption|apply IH; assumption]. }
  destruct (Hall sp Hok x Hx). split; lia.
Qed.

Lemma parseInlineLink_res fuel st start ispan dspan dtext tspan ttext : spOK (isrc st) (unpFrom st) = true -> start + 1 <= len (isrc st) ->
  parseInlineLink fuel st start = (ispan, (dspan, dtext), (tspan, ttext)) -> spanValid ispan = true ->
  (spanValid dspan = true -> snd dspan <= len (isrc st) /\ snd dtext <= len (isrc st)) /\
  (spanValid tspan = true -> snd tspan <= len (isrc st) /\ snd ttext <= len (isrc st)).
Proof.
  intros Hok Hs E Hv. unfold parseInlineLink in E. set (src := isrc st) in *.
  assert (HBl : -1 <= len src) by (pose proof (ShapesBase.len_nonneg src); lia).
  pose proof (RB_newReader src (unpFrom st) (start + 1) Hok Hs) as H0.
  pose proof (RB_skipLinkSpace (len src) fuel _ H0) as H1. destruct (skipLinkSpace fuel (newReader src (unpFrom st) (start + 1))) as [ok r1]. cbn [snd] in H1.
  destruct (negb ok); [inversion E; subst; discriminate|].
  pose proof (RB_parseLinkDestination (len src) fuel r1 H1) as H2. pose proof (parseLinkDestination_res (len src) fuel r1 H1) as Hd.
  destruct (parseLinkDestination fuel r1) as [[dspan0 dtext0] r2]. cbn [snd] in H2. unfold resOK in Hd. cbn [fst snd] in Hd.
  assert (H3 : RB (len src) (snd (if spanValid dspan0 then skipLinkSpace fuel r2 else (true, r2)))).
  { destruct (spanValid dspan0); [apply RB_skipLinkSpace|]; exact H2. }
  destruct (if spanValid dspan0 then skipLinkSpace fuel r2 else (true, r2)) as [ok2 r3]. cbn [snd] in H3.
  destruct (negb ok2); [inversion E; subst; discriminate|].
  pose proof (parseLinkTitle_res (len src) fuel r3 H3) as Ht.
  destruct (parseLinkTitle fuel r3) as [[tspan0 ttext0] r4]. unfold resOK in Ht. cbn [fst snd] in Ht.
  destruct (if spanValid tspan0 then skipLinkSpace fuel r4 else (true, r4)) as [ok3 r5].
  destruct (negb ok3); [inversion E; subst; discriminate|].
  destruct (negb (cur r5 =? 41)); [inversion E; subst; discriminate|].
  inversion E; subst. split; assumption.
Qed.

Lemma parseLinkLabel_inner_le B fuel r lspan linner r' : RB B r -> parseLinkLabel fuel r = (lspan, linner, r') -> spanValid lspan = true ->
  fst linner <= B.
Proof.
  intros H E Hv. unfold parseLinkLabel in E. pose proof (RB_current B r H) as Hc. destruct (current r) as [c r0]. cbn [snd] in Hc.
  destruct (negb (c =? 91)); [inversion E; subst; discriminate|].
  destruct (ll_skip fuel r0 0) as [[r1 chars]|] eqn:Es; [|inversion E; subst; discriminate].
  pose proof (RB_ll_skip B fuel r0 0 r1 chars Hc Es) as H1.
  destruct (ll_body fuel r1 chars (-1)) as [[r2 ie]|] eqn:Eb; [|inversion E; subst; discriminate].
  destruct (current r2) as [c2 r3]. destruct (negb (c2 =? 93)); [inversion E; subst; discriminate|].
  destruct (next r3) as [ok4 r4]. inversion E; subst. cbn [fst]. apply H1.
Qed.
