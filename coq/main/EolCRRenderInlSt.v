From Coq Require Import List ZArith Lia Bool.
Import ListNotations.
Require Import Base Tables Utf8 Tree Rdr Link Collect Html Recog Inl3a Inl3b Inl3c Inl3d Inl3e.
Require Import Leaf3e Leaf3n ShapesBase EolCRRdr EolCRRenderDefs EolCRRenderInlG EolCRRenderInlAuto.
Open Scope Z_scope.

(* ====================================================================================================
   The state invariant IG (every root node satisfies G; the identities on the delimiter stack and the
   next fresh identity are not 0; the entries have no children) and its preservation by the inline
   parser.  The two creation sites that need scanner facts are parameters here:
     - the children of a destination (hypothesis DK of IG_parseEndBracket / IG_istep);
     - the autolink child is discharged by EolCRRenderInlAuto.autolink_child_noEol.
   ==================================================================================================== *)
Definition nz (d : delim) : Prop := d_node d <> 0.

Section St.
  Variable src : bytes.
  Notation G := (G src).

  Record IG (st : ist) : Prop := mkIG {
    ig_g : forallb G (rk st) = true;
    ig_nid : 1 <= nid st;
    ig_stk : Forall nz (stk st);
    ig_src : isrc st = src;
    ig_unp : forall u, In u (unp st) -> ikids u = [] }.

  Lemma nz_nthD l i : Forall nz l -> d_node (nthD l i) <> 0.
  Proof.
    intros H. unfold nthD. destruct (nth_in_or_default (Z.to_nat i) l {| d_typ := 0; d_flags := 0; d_n := 0; d_node := -1 |}) as [Hin|Hd].
    - rewrite Forall_forall in H. apply (H _ Hin).
    - rewrite Hd. cbn. lia.
  Qed.
  Lemma Forall_incl' {A} (P : A -> Prop) a b : (forall x, In x a -> In x b) -> Forall P b -> Forall P a.
  Proof. intros Hi H. rewrite Forall_forall in *. intros x Hx. apply H, Hi, Hx. Qed.
  Lemma upto_in {A} (l : list A) n x : In x (upto l n) -> In x l.
  Proof. unfold upto. revert l. induction (Z.to_nat n) as [|k IH]; intros l H; [destruct H|]. destruct l as [|y l]; [destruct H|]. cbn in *. destruct H; [left; assumption|right; apply IH; assumption]. Qed.
  Lemma from_in {A} (l : list A) n x : In x (from_ l n) -> In x l.
  Proof. unfold from_. revert l. induction (Z.to_nat n) as [|k IH]; intros l H; [exact H|]. destruct l as [|y l]; [destruct H|]. cbn in *. right. apply IH. assumption. Qed.
  Lemma delStack_in {A} (l : list A) i j x : In x (delStack l i j) -> In x l.
  Proof. unfold delStack. intros H. apply in_app_or in H. destruct H; [eapply upto_in|eapply from_in]; eassumption. Qed.

  Lemma IG_setStk st v : IG st -> Forall nz v -> IG (setStk st v).
  Proof. intros [A B C D E] H. constructor; assumption. Qed.
  Lemma IG_setStk_del st i j : IG st -> IG (setStk st (delStack (stk st) i j)).
  Proof. intros H. apply IG_setStk; [exact H|]. eapply Forall_incl'; [apply delStack_in|exact (ig_stk _ H)]. Qed.
  Lemma IG_setStk_incl st v : IG st -> (forall x, In x v -> In x (stk st)) -> IG (setStk st v).
  Proof. intros H Hi. apply IG_setStk; [exact H|]. eapply Forall_incl'; [exact Hi|exact (ig_stk _ H)]. Qed.
  Lemma IG_setStk_upto st i : IG st -> IG (setStk st (upto (stk st) i)).
  Proof. intros H. apply IG_setStk; [exact H|]. eapply Forall_incl'; [apply upto_in|exact (ig_stk _ H)]. Qed.
  Lemma IG_setIgn st v : IG st -> IG (setIgn st v).
  Proof. intros [A B C D E]. constructor; assumption. Qed.
  Lemma IG_setUpos st v : IG st -> IG (setUpos st v).
  Proof. intros [A B C D E]. constructor; assumption. Qed.
  Lemma IG_advanceTo st p : IG st -> IG (advanceTo st p).
  Proof. intros H. unfold advanceTo. destruct (0 <=? _); apply IG_setUpos, H. Qed.
  Lemma IG_setRk st v : IG st -> forallb G v = true -> IG (setRk st v).
  Proof. intros [A B C D E] H. constructor; assumption. Qed.

  (* ---- adding nodes ---- *)
  Lemma IG_addNode st kind s e kids : IG st -> EolCRRenderInlG.G src (PN (nid st) kind s e 0 [] kids) = true ->
    IG (fst (addNode st kind s e kids)) /\ snd (addNode st kind s e kids) <> 0.
  Proof.
    intros H Hn. unfold addNode. destruct (spanLen s e =? 0); cbn [fst snd]; [split; [exact H|lia]|].
    destruct H as [A B C D E]. split; [|lia]. constructor; cbn [rk nid stk isrc unp bumpId setRk]; try assumption; [|lia].
    apply forallb_app_iff. split; [exact A|]. cbn [forallb]. rewrite Hn. reflexivity.
  Qed.
  Lemma IG_addNode_plain st kind s e kids : IG st -> kind <> LinkDestinationKind -> kind <> AutolinkKind -> forallb G kids = true ->
    IG (fst (addNode st kind s e kids)) /\ snd (addNode st kind s e kids) <> 0.
  Proof. intros H K1 K2 Hk. apply IG_addNode; [exact H|]. rewrite G_new by assumption. exact Hk. Qed.
  Lemma IG_plain st kind s e kids : IG st -> kind <> LinkDestinationKind -> kind <> AutolinkKind -> forallb G kids = true ->
    IG (fst (addNode st kind s e kids)).
  Proof. intros H K1 K2 Hk. apply IG_addNode_plain; assumption. Qed.
  Lemma IG_addText st s e : IG st -> IG (addText st s e).
  Proof. intros H. unfold addText. apply IG_plain; [exact H|discriminate|discriminate|reflexivity]. Qed.
  Lemma stk_addNode st kind s e kids : stk (fst (addNode st kind s e kids)) = stk st.
  Proof. unfold addNode. destruct (spanLen s e =? 0); reflexivity. Qed.
  Lemma IG_push st kind s e kids (mk : Z -> delim) : IG st -> kind <> LinkDestinationKind -> kind <> AutolinkKind -> forallb G kids = true ->
    (forall id, d_node (mk id) = id) ->
    IG (setStk (fst (addNode st kind s e kids)) (stk (fst (addNode st kind s e kids)) ++ [mk (snd (addNode st kind s e kids))])).
  Proof.
    intros H K1 K2 Hk Hmk. destruct (IG_addNode_plain st kind s e kids H K1 K2 Hk) as [H1 H2].
    apply IG_setStk; [exact H1|]. apply Forall_app. split; [exact (ig_stk _ H1)|]. constructor; [|constructor]. unfold nz. rewrite Hmk. exact H2.
  Qed.

  (* ---- tree surgery ---- *)
  Lemma IG_wrap st kind startId endId : IG st -> kind <> LinkDestinationKind -> kind <> AutolinkKind -> startId <> 0 ->
    IG (fst (wrap st kind startId endId)) /\ snd (wrap st kind startId endId) = nid st.
  Proof.
    intros [A B C D E] K1 K2 Hs. unfold wrap. cbn [fst snd]. split; [|reflexivity].
    constructor; cbn [rk nid stk isrc unp bumpId setRk]; try assumption; [|lia]. apply G_wrapIn; assumption.
  Qed.
  Lemma IG_removeNode st id : IG st -> id <> 0 -> IG (removeNode st id).
  Proof. intros H Hid. unfold removeNode. apply IG_setRk; [exact H|]. apply G_removeId; [exact Hid|exact (ig_g _ H)]. Qed.
  Lemma IG_updN st id g : IG st -> id <> 0 ->
    (forall n, G n = true -> pkind n <> LinkDestinationKind -> G (g n) = true) -> IG (updN st id g).
  Proof. intros H Hid Hg. unfold updN. apply IG_setRk; [exact H|]. apply G_updNode; [exact Hid|exact Hg|exact (ig_g _ H)]. Qed.
  Lemma IG_updSpan st id (s e : pn -> Z) : IG st -> id <> 0 -> IG (updN st id (fun n => setSpan n (s n) (e n))).
  Proof. intros H Hid. apply IG_updN; [exact H|exact Hid|]. intros n Hn _. rewrite G_setSpan. exact Hn. Qed.
  Lemma IG_updSpanRef st id s e rf : IG st -> id <> 0 -> IG (updN st id (fun n => setRef (setSpan n s e) rf)).
  Proof. intros H Hid. apply IG_updN; [exact H|exact Hid|]. intros n Hn _. rewrite G_setRef, G_setSpan. exact Hn. Qed.
  Lemma IG_appendKid st id k : IG st -> id <> 0 -> G k = true -> IG (appendKid st id k).
  Proof. intros H Hid Hk. unfold appendKid. apply IG_updN; [exact H|exact Hid|]. intros n Hn Hkd. apply G_appendKid; assumption. Qed.

  (* ---- processEmphasis ---- *)
  Ltac ichain :=
    repeat match goal with
    | |- IG (setStk _ (delStack _ _ _)) => apply IG_setStk_incl; [|let x := fresh "x" in let Hx := fresh "Hx" in intros x Hx; apply delStack_in in Hx; exact Hx]
    | |- IG (removeNode _ _) => apply IG_removeNode
    end; try assumption.

  Lemma IG_pe_loop : forall fuel st ob cp, IG st -> IG (pe_loop fuel st ob cp).
  Proof.
    induction fuel as [|f IH]; intros st ob cp H; [assumption|]. cbn [pe_loop].
    destruct (_ <? 0); [assumption|].
    pose proof (fun i => nz_nthD (stk st) i (ig_stk _ H)) as Hnz.
    destruct (_ <=? _).
    - match goal with |- context [wrap ?A ?K ?X ?Y] =>
        assert (HA : IG A);
        [| assert (HK : K <> LinkDestinationKind /\ K <> AutolinkKind);
           [| destruct (IG_wrap A K X Y HA (proj1 HK) (proj2 HK) (Hnz _)) as (HB & _); destruct (wrap A K X Y) as [stB wid]]] end.
      + apply (IG_updSpan _ _ (fun n => ps n + _) (fun n => pe n)); [|apply Hnz].
        apply (IG_updSpan _ _ (fun n => ps n) (fun n => pe n - _)); [exact H|apply Hnz].
      + destruct (_ && _); split; discriminate.
      + cbn [fst] in HB.
        destruct (plen _ =? 0); destruct (plen _ =? 0); apply IH; ichain; apply Hnz.
    - destruct (negb _); apply IH; ichain.
  Qed.
  Lemma IG_processEmphasis st sb : IG st -> IG (processEmphasis st sb).
  Proof. intros H. unfold processEmphasis. apply IG_setStk_upto. apply IG_pe_loop, H. Qed.

  Lemma IG_finishLink st kind odi : IG st -> IG (finishLink st kind odi).
  Proof.
    intros H. unfold finishLink.
    assert (H1 : IG (setStk (removeNode (processEmphasis st (odi + 1)) (d_node (nthD (stk st) odi)))
                          (delStack (stk (removeNode (processEmphasis st (odi + 1)) (d_node (nthD (stk st) odi)))) odi (odi + 1)))).
    { ichain; [apply IG_processEmphasis, H|apply nz_nthD, (ig_stk _ H)]. }
    destruct (kind =? LinkKind); [|exact H1].
    apply IG_setStk; [exact H1|]. apply Forall_forall. intros d Hd. apply in_map_iff in Hd. destruct Hd as ([i d0] & Ed & Hin).
    apply in_combine_r in Hin. pose proof (ig_stk _ H1) as Hs. rewrite Forall_forall in Hs. specialize (Hs d0 Hin).
    subst d. destruct (_ && _); [|exact Hs]. unfold clearFlag. destruct (hasFlag d0 fActive); exact Hs.
  Qed.

  Lemma IG_lfl : forall fuel st i, IG st -> IG (fst (lfl fuel st i)).
  Proof.
    induction fuel as [|f IH]; intros st i H; [assumption|]. cbn [lfl].
    destruct (i <? 0); [assumption|]. destruct (_ || _); [|apply IH; assumption].
    destruct (negb _); cbn [fst]; [ichain|assumption].
  Qed.

  Lemma IG_parseDelimiterRun st pos : IG st -> IG (fst (parseDelimiterRun st pos)).
  Proof.
    intros H. unfold parseDelimiterRun. cbv zeta.
    match goal with |- context [addNode ?a ?b ?c ?d ?e] =>
      pose proof (fun mk => IG_push a b c d e mk H ltac:(discriminate) ltac:(discriminate) eq_refl) as H1;
      destruct (addNode a b c d e) as [st1 id] end.
    cbn [fst snd] in *. apply (H1 (fun id => {| d_typ := _; d_flags := _; d_n := _; d_node := id |})). reflexivity.
  Qed.
  Lemma IG_parseBackslash st pos : IG st -> IG (fst (parseBackslash st pos)).
  Proof.
    intros H. unfold parseBackslash. cbv zeta.
    destruct (_ || _ || _).
    - destruct (isLastSpan st); cbn [fst]; [apply IG_addText; assumption|].
      apply IG_plain; [apply IG_setIgn, H|discriminate|discriminate|reflexivity].
    - destruct (isASCIIPunctuation _); cbn [fst]; apply IG_addText; assumption.
  Qed.

  (* ---- children collected from the source ---- *)
  Lemma lf_ofInline_mkI k s e : k <> AutolinkKind -> k <> LinkDestinationKind -> lf (ofInline (mkI k s e)) = true.
  Proof. intros A B. unfold lf. cbn. apply Z.eqb_neq in A, B. rewrite A, B. reflexivity. Qed.
  Lemma kids_lf tk esc fuel r e : (forall u, In u (r_spans r) -> ikids u = []) -> tk <> AutolinkKind -> tk <> LinkDestinationKind ->
    forallb lf (kidsOf (collectTextNodes fuel r e tk esc)) = true.
  Proof.
    intros Hs K1 K2. unfold kidsOf. apply forallb_forall. intros x Hx. apply in_map_iff in Hx. destruct Hx as (i & <- & Hi).
    pose proof (collectTextNodes_kinds tk esc fuel r e (r_spans r) (fun x H => H)) as H. rewrite Forall_forall in H. specialize (H i Hi).
    destruct H as [(s & e' & ->)|[(s & e' & ->)|(Hin & Hk)]].
    - apply lf_ofInline_mkI; assumption.
    - apply lf_ofInline_mkI; discriminate.
    - specialize (Hs i Hin). destruct i as [k s0 e0 ind rf ks]. cbn [ikids ikind] in *. subst ks k. reflexivity.
  Qed.
  Lemma unpFrom_noKids st : IG st -> forall u, In u (unpFrom st) -> ikids u = [].
  Proof. intros H u Hu. apply (ig_unp _ H). unfold unpFrom in Hu. eapply from_in, Hu. Qed.
  Lemma kids_G st tk esc fuel pos e s0 : IG st -> tk <> AutolinkKind -> tk <> LinkDestinationKind ->
    forallb G (kidsOf (collectTextNodes fuel (newReader s0 (unpFrom st) pos) e tk esc)) = true.
  Proof. intros H K1 K2. apply lfF_G, kids_lf; [cbn [r_spans newReader]; apply unpFrom_noKids, H|assumption|assumption]. Qed.
End St.
