From Coq Require Import List ZArith Lia Bool.
Import ListNotations.
Require Import Base Tables Utf8 Tree Rdr Link Collect Html Recog Inl3a Inl3b Inl3c Inl3d Inl3e SpanStack.
Open Scope Z_scope.

(* bounds of the single-line scanners used by istep *)
Lemma runEnd_bounds : forall fuel src e lim c, e <= runEnd fuel src e lim c /\ (e <= lim -> runEnd fuel src e lim c <= lim).
Proof.
  induction fuel as [|f IH]; intros src e lim c; cbn [runEnd]; [lia|].
  destruct (Z.ltb_spec e lim) as [A|A]; cbn [andb]; [|lia].
  destruct (at_ src e =? c); [|lia]. destruct (IH src (e + 1) lim c) as [B C]. lia.
Qed.
Lemma eolRun_bounds : forall fuel src e lim, e <= eolRun fuel src e lim /\ (e <= lim -> eolRun fuel src e lim <= lim).
Proof.
  induction fuel as [|f IH]; intros src e lim; cbn [eolRun]; [lia|].
  destruct (Z.ltb_spec e lim) as [A|A]; cbn [andb]; [|lia].
  destruct (_ || _); [|lia]. destruct (IH src (e + 1) lim) as [B C]. lia.
Qed.
Lemma skipSpTab_bounds : forall fuel src pos lim, pos <= skipSpTab fuel src pos lim /\ (pos <= lim -> skipSpTab fuel src pos lim <= lim).
Proof.
  induction fuel as [|f IH]; intros src pos lim; cbn [skipSpTab]; [lia|].
  destruct (Z.ltb_spec pos lim) as [A|A]; cbn [andb]; [|lia].
  destruct (isSpTab _); [|lia]. destruct (IH src (pos + 1) lim) as [B C]. lia.
Qed.
Lemma hlb_rest_bounds : forall l i, i <= fst (hlb_rest l i) <= i + len l.
Proof.
  induction l as [|c r IH]; intros i; cbn [hlb_rest fst]; [rewrite len_nil; lia|]. rewrite len_cons. pose proof (len_nonneg r).
  destruct (_ || _ || _); [specialize (IH (i + 1)); lia|cbn [fst]; lia].
Qed.
Lemma hlb_bounds rem : 0 <= fst (parseHardLineBreakSpace rem) <= len rem.
Proof.
  unfold parseHardLineBreakSpace. pose proof (len_nonneg rem).
  destruct rem as [|a r]; [cbn; lia|]. rewrite len_cons. pose proof (len_nonneg r).
  destruct (Z.eq_dec a 32) as [->|N].
  - destruct r as [|b r2]; [cbn [fst]; lia|]. rewrite len_cons in *. pose proof (len_nonneg r2).
    destruct (Z.eq_dec b 32) as [->|N2].
    + pose proof (hlb_rest_bounds r2 2). lia.
    + assert (E : match b with 32 => hlb_rest r2 2 | _ => (1, false) end = (1, false)).
      { destruct b as [|p|p]; try reflexivity. do 6 (destruct p as [p|p|]; try reflexivity). exfalso; apply N2; reflexivity. }
      rewrite E. cbn [fst]. lia.
  - assert (E : (match a with 32 => match r with [] => (1, false) | 32 :: r0 => hlb_rest r0 2 | _ :: _ => (1, false) end | _ => (0, false) end) = (0, false)).
    { destruct a as [|p|p]; try reflexivity. do 6 (destruct p as [p|p|]; try reflexivity). exfalso; apply N; reflexivity. }
    rewrite E. cbn [fst]. lia.
Qed.

Lemma len_from {A} (l : list A) a : 0 <= a <= len l -> len (from_ l a) = len l - a.
Proof. intros H. unfold len, from_ in *. rewrite skipn_length. lia. Qed.
Lemma len_upto_le {A} (l : list A) n : len (upto l n) <= len l.
Proof. unfold len, upto. rewrite firstn_length. lia. Qed.
Lemma len_sub (l : bytes) a b : 0 <= a <= b -> b <= len l -> len (sub l a b) = b - a.
Proof. intros H1 H2. unfold sub, upto. unfold len in *. rewrite firstn_length. unfold from_. rewrite skipn_length. lia. Qed.

Lemma al_uri_bounds : forall l e, al_uri l e = -1 \/ (e < al_uri l e <= e + len l).
Proof.
  induction l as [|c r IH]; intros e; cbn [al_uri]; [left; reflexivity|]. rewrite len_cons. pose proof (len_nonneg r).
  destruct (c =? 62); [right; lia|]. destruct (_ || _ || _); [left; reflexivity|].
  destruct (IH (e + 1)) as [E|E]; [left; exact E|right; lia].
Qed.
Lemma parseAutolink_bounds t : 0 <= parseAutolink t -> 2 <= parseAutolink t <= len t.
Proof.
  unfold parseAutolink. destruct (Z.ltb_spec (len t) 5) as [A|A]; cbn [orb]; [lia|].
  destruct (negb _); [lia|]. cbv zeta.
  destruct (Z.leb_spec 0 (parseEmail (from_ t 1))) as [B|B]; cbn [andb].
  - destruct (Z.ltb_spec (1 + parseEmail (from_ t 1)) (len t)) as [C|C]; cbn [andb].
    + destruct (at_ t (1 + parseEmail (from_ t 1)) =? 62); [lia|].
      destruct (negb _); [lia|]. destruct (Z.ltb_spec (2 + countWhile isSchemeChar (from_ t 2)) 3) as [D|D]; cbn [orb]; [lia|].
      destruct (33 <? _); [lia|]. destruct (Z.leb_spec (len t) (2 + countWhile isSchemeChar (from_ t 2))) as [F|F]; cbn [orb]; [lia|].
      destruct (negb _); [lia|]. intros H.
      destruct (al_uri_bounds (from_ t (2 + countWhile isSchemeChar (from_ t 2) + 1)) (2 + countWhile isSchemeChar (from_ t 2) + 1)) as [E|E]; [lia|].
      rewrite len_from in E by lia. lia.
    + destruct (negb _); [lia|]. destruct (Z.ltb_spec (2 + countWhile isSchemeChar (from_ t 2)) 3) as [D|D]; cbn [orb]; [lia|].
      destruct (33 <? _); [lia|]. destruct (Z.leb_spec (len t) (2 + countWhile isSchemeChar (from_ t 2))) as [F|F]; cbn [orb]; [lia|].
      destruct (negb _); [lia|]. intros H.
      destruct (al_uri_bounds (from_ t (2 + countWhile isSchemeChar (from_ t 2) + 1)) (2 + countWhile isSchemeChar (from_ t 2) + 1)) as [E|E]; [lia|].
      rewrite len_from in E by lia. lia.
  - destruct (negb _); [lia|]. destruct (Z.ltb_spec (2 + countWhile isSchemeChar (from_ t 2)) 3) as [D|D]; cbn [orb]; [lia|].
    destruct (33 <? _); [lia|]. destruct (Z.leb_spec (len t) (2 + countWhile isSchemeChar (from_ t 2))) as [F|F]; cbn [orb]; [lia|].
    destruct (negb _); [lia|]. intros H.
    destruct (al_uri_bounds (from_ t (2 + countWhile isSchemeChar (from_ t 2) + 1)) (2 + countWhile isSchemeChar (from_ t 2) + 1)) as [E|E]; [lia|].
    rewrite len_from in E by lia. lia.
Qed.

Lemma pce_named_bounds : forall l i acc, pce_named l i acc = -1 \/ (i + 2 <= pce_named l i acc <= i + 1 + len l).
Proof.
  induction l as [|c r IH]; intros i acc; cbn [pce_named]; [left; reflexivity|]. rewrite len_cons. pose proof (len_nonneg r).
  destruct (c =? 59); [destruct (_ || _); [left; reflexivity|right; lia]|].
  destruct (_ && _); [left; reflexivity|]. destruct (IH (i + 1) (c :: acc)) as [E|E]; [left; exact E|right; lia].
Qed.
Lemma pce_num_bounds p : forall l i ds, pce_num p l i ds = -1 \/ (ds + i + 1 <= pce_num p l i ds <= ds + i + len l).
Proof.
  induction l as [|c r IH]; intros i ds; cbn [pce_num]; [left; reflexivity|]. rewrite len_cons. pose proof (len_nonneg r).
  destruct (c =? 59); [destruct (i =? 0); [left; reflexivity|right; lia]|].
  destruct (negb _); [left; reflexivity|]. destruct (IH (i + 1) ds) as [E|E]; [left; exact E|right; lia].
Qed.
Lemma parseCharacterEscape_bounds text : 0 <= parseCharacterEscape text -> 1 <= parseCharacterEscape text <= len text.
Proof.
  unfold parseCharacterEscape. destruct (Z.ltb_spec (len text) 3) as [A|A]; cbn [orb]; [lia|].
  destruct (negb (at_ text 0 =? 38)); [lia|]. destruct (negb (at_ text 1 =? 35)).
  - destruct (pce_named_bounds (from_ text 1) 0 []) as [E|E]; [lia|]. rewrite len_from in E by lia. lia.
  - destruct (_ || _).
    + destruct (pce_num_bounds isHex (upto (from_ text 3) 7) 0 3) as [E|E]; [lia|].
      pose proof (len_upto_le (from_ text 3) 7) as H. rewrite len_from in H by lia. lia.
    + destruct (pce_num_bounds isASCIIDigit (upto (from_ text 2) 8) 0 2) as [E|E]; [lia|].
      pose proof (len_upto_le (from_ text 2) 8) as H. rewrite len_from in H by lia. lia.
Qed.

(* the bytes of a character reference after the ampersand are letters, digits, '#' or ';' *)
Definition entChar (c : Z) : bool := isASCIILetter c || isASCIIDigit c || (c =? 35) || (c =? 59).
Lemma at_cons0 (c : Z) l : at_ (c :: l) 0 = c. Proof. reflexivity. Qed.
Lemma at_consS (c : Z) l i : 0 < i -> at_ (c :: l) i = at_ l (i - 1).
Proof.
  intros H. unfold at_. destruct (Z.ltb_spec i 0); [lia|]. destruct (Z.ltb_spec (i - 1) 0); [lia|].
  replace (Z.to_nat i) with (S (Z.to_nat (i - 1))) by lia. reflexivity.
Qed.
Lemma pce_named_chars : forall l i acc, 0 <= i -> 0 <= pce_named l i acc ->
  forall q, 0 <= q < pce_named l i acc - i - 1 -> entChar (at_ l q) = true.
Proof.
  induction l as [|c r IH]; intros i acc Hi H q Hq; cbn [pce_named] in *; [lia|].
  destruct (Z.eqb_spec c 59) as [->|N].
  - destruct (_ || _); [lia|]. assert (q = 0) by lia. subst q. reflexivity.
  - destruct (negb (isASCIILetter c) && negb (isASCIIDigit c)) eqn:Ec; [lia|].
    destruct (Z.eq_dec q 0) as [->|Nq].
    + rewrite at_cons0. unfold entChar. destruct (isASCIILetter c); [reflexivity|]. destruct (isASCIIDigit c); [reflexivity|discriminate].
    + rewrite at_consS by lia. apply (IH (i + 1) (c :: acc)); [lia|exact H|lia].
Qed.
Lemma isHex_entChar c : isHex c = true -> entChar c = true.
Proof.
  unfold isHex, entChar, isASCIILetter. intros H. apply orb_true_iff in H. destruct H as [H|H]; [|rewrite H; rewrite orb_true_r; reflexivity].
  apply orb_true_iff in H. destruct H as [H|H]; apply andb_true_iff in H; destruct H as [H1 H2]; apply Z.leb_le in H1, H2.
  - replace ((97 <=? c) && (c <=? 122)) with true by (symmetry; apply andb_true_iff; split; apply Z.leb_le; lia). rewrite orb_true_r. reflexivity.
  - replace ((65 <=? c) && (c <=? 90)) with true by (symmetry; apply andb_true_iff; split; apply Z.leb_le; lia). reflexivity.
Qed.
Lemma pce_num_chars p : (forall c, p c = true -> entChar c = true) -> forall l i ds, 0 <= i -> 0 <= pce_num p l i ds ->
  forall q, 0 <= q < pce_num p l i ds - ds - i -> entChar (at_ l q) = true.
Proof.
  intros Hp. induction l as [|c r IH]; intros i ds Hi H q Hq; cbn [pce_num] in *; [lia|].
  destruct (Z.eqb_spec c 59) as [->|N].
  - destruct (i =? 0); [lia|]. assert (q = 0) by lia. subst q. reflexivity.
  - destruct (p c) eqn:Ec; cbn [negb] in *; [|lia].
    destruct (Z.eq_dec q 0) as [->|Nq]; [rewrite at_cons0; apply Hp, Ec|].
    rewrite at_consS by lia. apply (IH (i + 1) ds); [lia|exact H|lia].
Qed.
Lemma at_from (l : bytes) a i : 0 <= a -> 0 <= i -> at_ (from_ l a) i = at_ l (a + i).
Proof.
  intros Ha Hi. unfold at_, from_. destruct (Z.ltb_spec i 0); [lia|]. destruct (Z.ltb_spec (a + i) 0); [lia|].
  replace (Z.to_nat (a + i)) with (Z.to_nat a + Z.to_nat i)%nat by lia. generalize (Z.to_nat a) (Z.to_nat i). clear.
  intros n m. revert l. induction n as [|n IH]; intros l; [reflexivity|]. destruct l as [|x l]; [cbn; destruct m; reflexivity|]. cbn [skipn Nat.add nth]. apply IH.
Qed.
Lemma at_upto (l : bytes) n i : 0 <= i < n -> at_ (upto l n) i = at_ l i.
Proof.
  intros Hi. unfold at_, upto. destruct (Z.ltb_spec i 0); [lia|].
  assert (G : forall (k m : nat) (l0 : bytes), (k < m)%nat -> nth k (firstn m l0) 0 = nth k l0 0).
  { induction k as [|k IHk]; intros m l0 Hm; destruct m as [|m]; try lia; destruct l0 as [|x l0]; cbn; try reflexivity. apply IHk. lia. }
  apply G. lia.
Qed.
Lemma parseCharacterEscape_chars text : 0 <= parseCharacterEscape text ->
  forall q, 1 <= q < parseCharacterEscape text -> entChar (at_ text q) = true.
Proof.
  unfold parseCharacterEscape. destruct (Z.ltb_spec (len text) 3) as [A|A]; cbn [orb]; [lia|].
  destruct (negb (at_ text 0 =? 38)); [lia|]. destruct (negb (at_ text 1 =? 35)) eqn:E1.
  - intros H q Hq. pose proof (pce_named_chars (from_ text 1) 0 [] ltac:(lia) H (q - 1) ltac:(lia)) as G.
    rewrite at_from in G by lia. replace (1 + (q - 1)) with q in G by lia. exact G.
  - apply negb_false_iff, Z.eqb_eq in E1.
    destruct ((at_ text 2 =? 120) || (at_ text 2 =? 88)) eqn:E2.
    + intros H q Hq. destruct (Z.eq_dec q 1) as [->|N1]; [rewrite E1; reflexivity|].
      destruct (Z.eq_dec q 2) as [->|N2].
      { apply orb_true_iff in E2. destruct E2 as [E2|E2]; apply Z.eqb_eq in E2; rewrite E2; reflexivity. }
      pose proof (pce_num_bounds isHex (upto (from_ text 3) 7) 0 3) as [B|B]; [lia|].
      pose proof (len_upto_le (from_ text 3) 7) as Lu.
      assert (Lu2 : len (upto (from_ text 3) 7) <= 7).
      { unfold len, upto. rewrite firstn_length. lia. }
      pose proof (pce_num_chars isHex isHex_entChar (upto (from_ text 3) 7) 0 3 ltac:(lia) H (q - 3) ltac:(lia)) as G.
      rewrite at_upto in G by lia. rewrite at_from in G by lia. replace (3 + (q - 3)) with q in G by lia. exact G.
    + intros H q Hq. destruct (Z.eq_dec q 1) as [->|N1]; [rewrite E1; reflexivity|].
      pose proof (pce_num_bounds isASCIIDigit (upto (from_ text 2) 8) 0 2) as [B|B]; [lia|].
      assert (Lu2 : len (upto (from_ text 2) 8) <= 8).
      { unfold len, upto. rewrite firstn_length. lia. }
      assert (Hd : forall c, isASCIIDigit c = true -> entChar c = true).
      { intros c Hc. unfold entChar. rewrite Hc. rewrite orb_true_r. reflexivity. }
      pose proof (pce_num_chars isASCIIDigit Hd (upto (from_ text 2) 8) 0 2 ltac:(lia) H (q - 2) ltac:(lia)) as G.
      rewrite at_upto in G by lia. rewrite at_from in G by lia. replace (2 + (q - 2)) with q in G by lia. exact G.
Qed.
Lemma at_sub (l : bytes) a b i : 0 <= a -> 0 <= i < b - a -> at_ (sub l a b) i = at_ l (a + i).
Proof. intros Ha Hi. unfold sub. rewrite at_upto by lia. apply at_from; lia. Qed.
