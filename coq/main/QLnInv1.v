From Coq Require Import List ZArith Lia Bool.
Import ListNotations.
Require Import Base Tables Utf8 Tree Rdr Link Collect Html Recog LP Rules Starts Driver Props.
Require Import Leaf3e Leaf3n ShapesBase ShapesA ShEnv ShLine1 GI0 IS2 IS1 IS5a QLnDefs QLnCollect.
Open Scope Z_scope.

(* ================================================================================================
   T52, part 1 (ExInv1): a whole-run invariant of the block layer about the CHILDREN of the exempt entries
   (InfoString, LinkLabel, LinkDestination, LinkTitle): every child is childless, of kind Text / Indent /
   CharacterReference, and a CharacterReference child whose span is sane (0 <= s <= e) selects "&" ... ";" (at least three
   bytes) in the buffer B the tree is positioned in.  Every other entry is childless.
   The guard "whose span is sane" makes the predicate stable under the shift of pending blocks without any information on
   positions.  The proof is L2Inv.v (one lemma per model function) with the entry predicate depending on the buffer.
   ================================================================================================ *)

Definition isExK (k : Z) : bool := (k =? InfoStringKind) || (k =? LinkLabelKind) || (k =? LinkDestinationKind) || (k =? LinkTitleKind).
Definition kkind (k : Z) : bool := (k =? TextKind) || (k =? IndentKind) || (k =? CharacterReferenceKind).
Definition crOK (B : bytes) (k : inline) : bool :=
  negb ((ikind k =? CharacterReferenceKind) && (0 <=? istart k) && (istart k <=? iend k)) ||
  ((istart k + 3 <=? iend k) && (at_ B (istart k) =? 38) && (at_ B (iend k - 1) =? 59) && rng crb B (istart k) (iend k)).
Definition kidOK (B : bytes) (k : inline) : bool := nilb (ikids k) && kkind (ikind k) && crOK B k.
(* a soft line break entry of the block layer is empty *)
Definition slOK (u : inline) : bool :=
  negb (ikind u =? CharacterReferenceKind) &&
  (negb ((ikind u =? SoftLineBreakKind) && (0 <=? istart u) && (istart u <=? iend u)) || (iend u <=? istart u)).
Definition eE (B : bytes) (u : inline) : bool := if isExK (ikind u) then forallb (kidOK B) (ikids u) else nilb (ikids u) && slOK u.

Lemma crOK_intro B k : (ikind k = CharacterReferenceKind -> 0 <= istart k -> istart k <= iend k ->
  istart k + 3 <= iend k /\ at_ B (istart k) = 38 /\ at_ B (iend k - 1) = 59 /\ rng crb B (istart k) (iend k) = true) -> crOK B k = true.
Proof.
  intros H. unfold crOK. destruct (Z.eqb_spec (ikind k) CharacterReferenceKind) as [E|E]; [|reflexivity].
  destruct (Z.leb_spec 0 (istart k)); [|reflexivity]. destruct (Z.leb_spec (istart k) (iend k)); [|reflexivity]. cbn [andb negb orb].
  destruct (H E ltac:(lia) ltac:(lia)) as (A & B1 & C & R). rewrite B1, C, R. destruct (Z.leb_spec (istart k + 3) (iend k)); [reflexivity|lia].
Qed.
Lemma crOK_elim B k : crOK B k = true -> ikind k = CharacterReferenceKind -> 0 <= istart k -> istart k <= iend k ->
  istart k + 3 <= iend k /\ at_ B (istart k) = 38 /\ at_ B (iend k - 1) = 59 /\ rng crb B (istart k) (iend k) = true.
Proof.
  unfold crOK. intros H E A B1. rewrite E in H. change (CharacterReferenceKind =? CharacterReferenceKind) with true in H.
  destruct (Z.leb_spec 0 (istart k)); [|lia]. destruct (Z.leb_spec (istart k) (iend k)); [|lia]. cbn [andb negb orb] in H.
  apply andb_true_iff in H. destruct H as [H R]. apply andb_true_iff in H. destruct H as [H H3]. apply andb_true_iff in H. destruct H as [G1 G2]. apply Z.leb_le in G1. apply Z.eqb_eq in G2, H3. tauto.
Qed.

(* shift of pending blocks: the buffer loses its first n bytes, every span moves by -n *)
Lemma crOK_shift B n k : 0 <= n -> crOK B k = true -> crOK (from_ B n) (shiftI (- n) k) = true.
Proof.
  intros Hn H. apply crOK_intro. destruct k as [kd s e ind rf ks]. cbn [shiftI ikind istart iend] in *. intros Ek A B1.
  destruct (Z.leb_spec 0 e) as [L|L]; [|lia].
  destruct (crOK_elim B _ H Ek ltac:(cbn [istart]; lia) ltac:(cbn [istart iend]; lia)) as (P1 & P2 & P3 & P4). cbn [istart iend] in *.
  split; [lia|]. split; [|split].
  - rewrite at_from by lia. replace (n + (s + - n)) with s by lia. exact P2.
  - rewrite at_from by lia. replace (n + (e + - n - 1)) with (e - 1) by lia. exact P3.
  - rewrite rng_spec in *. intros x Hx. rewrite at_from by lia. apply P4. lia.
Qed.
Lemma kidOK_shift B n k : 0 <= n -> kidOK B k = true -> kidOK (from_ B n) (shiftI (- n) k) = true.
Proof.
  intros Hn H. unfold kidOK in *. apply andb_true_iff in H. destruct H as [H H3]. apply andb_true_iff in H. destruct H as [H1 H2].
  rewrite (crOK_shift B n k Hn H3), andb_true_r. destruct k as [kd s e ind rf ks]. cbn [shiftI ikids ikind] in *. rewrite H2, andb_true_r.
  destruct ks; [reflexivity|discriminate].
Qed.
Lemma eE_shift B n u : 0 <= n -> eE B u = true -> eE (from_ B n) (shiftI (- n) u) = true.
Proof.
  intros Hn H. unfold eE in *. destruct u as [kd s e ind rf ks]. cbn [shiftI ikind ikids] in *. destruct (isExK kd).
  - rewrite forallb_forall in *. intros x Hx. apply in_map_iff in Hx. destruct Hx as (k & <- & Hk). apply kidOK_shift; [exact Hn|apply H, Hk].
  - apply andb_true_iff in H. destruct H as [H1 H2]. destruct ks; [|discriminate]. cbn [map nilb andb].
    unfold slOK in *. cbn [ikind istart iend] in *. destruct (kd =? CharacterReferenceKind); [discriminate H2|]. cbn [negb andb] in *.
    destruct (kd =? SoftLineBreakKind); [|reflexivity]. cbn [andb] in *.
    destruct (Z.leb_spec 0 e) as [L|L].
    + destruct (Z.leb_spec 0 (s + - n)); [|reflexivity]. destruct (Z.leb_spec (s + - n) (e + - n)); [|reflexivity]. cbn [andb negb orb].
      destruct (Z.leb_spec 0 s); [|lia]. destruct (Z.leb_spec s e); [|lia]. cbn [andb negb orb] in H2. apply Z.leb_le in H2. apply Z.leb_le. lia.
    + destruct (Z.leb_spec 0 (s + - n)); [|reflexivity]. destruct (Z.leb_spec (s + - n) e); [|reflexivity]. lia.
Qed.

(* a longer buffer that agrees on the non-zero bytes *)
Definition agreeNZ (src B : bytes) : Prop := forall i, at_ src i <> 0 -> at_ B i = at_ src i.
Lemma agreeNZ_upto (B : bytes) k : agreeNZ (upto B k) B.
Proof.
  intros i Hi. destruct (Z.lt_ge_cases i k) as [L|L]; [symmetry; apply at_upto; exact L|].
  exfalso. apply Hi. destruct (Z.lt_ge_cases i 0) as [Ln|Ln]; [apply at_neg; exact Ln|]. apply at_beyond. rewrite len_upto. lia.
Qed.
Lemma crOK_agree src B k : agreeNZ src B -> crOK src k = true -> crOK B k = true.
Proof.
  intros Ha H. apply crOK_intro. intros E A B1. destruct (crOK_elim src k H E A B1) as (P1 & P2 & P3 & P4).
  split; [exact P1|]. split; [rewrite (Ha _ ltac:(rewrite P2; discriminate)); exact P2|]. split; [rewrite (Ha _ ltac:(rewrite P3; discriminate)); exact P3|].
  revert P4. apply rng_ext. intros x _ Hx. rewrite (Ha x (crb_nz _ Hx)). exact Hx.
Qed.
Lemma kidOK_agree src B k : agreeNZ src B -> kidOK src k = true -> kidOK B k = true.
Proof. intros Ha H. unfold kidOK in *. apply andb_true_iff in H. destruct H as [H H3]. rewrite H, (crOK_agree src B k Ha H3). reflexivity. Qed.

(* ---- what the creation sites yield ---- *)
Lemma nOK_charref_inv src s e : nOK src CharacterReferenceKind s e = true -> s + 3 <= e /\ at_ src s = 38 /\ at_ src (e - 1) = 59.
Proof.
  unfold nOK. intros H. apply andb_true_iff in H. destruct H as [Hv Hs]. apply span_valid_elim in Hv.
  rewrite Shapes.shape_charref in Hs. apply andb_true_iff in Hs. destruct Hs as [Hs H3]. apply andb_true_iff in Hs. destruct Hs as [H1 H2].
  apply Z.leb_le in H1. apply Z.eqb_eq in H2, H3. rewrite sub_len in H1 by lia. rewrite sub_at in H2 by lia. rewrite sub_last in H3 by lia.
  replace (s + 0) with s in H2 by lia. split; [lia|]. split; assumption.
Qed.
Lemma kidOK_mk src k s e : kkind k = true -> (k = CharacterReferenceKind -> nOK src CharacterReferenceKind s e = true /\ rng crb src s e = true) -> kidOK src (mkI k s e) = true.
Proof.
  intros Hk Hc. unfold kidOK, mkI. cbn [ikids ikind nilb]. rewrite Hk. cbn [andb]. apply crOK_intro. cbn [ikind istart iend].
  intros E _ _. destruct (Hc E) as [Hn Hr]. destruct (nOK_charref_inv _ _ _ Hn) as (A & B & C). repeat split; assumption.
Qed.

(* the children of an info string *)
Lemma isl_kids src e : forall fuel i ps acc, forallb (kidOK src) acc = true -> forallb (kidOK src) (fst (infoString_loop fuel src i e ps acc)) = true.
Proof.
  induction fuel as [|f IH]; intros i ps acc H; [exact H|]. cbn [infoString_loop].
  destruct (e <=? i); [exact H|].
  assert (Hfl : forall p, forallb (kidOK src) (if ps <? p then acc ++ [mkI TextKind ps p] else acc) = true).
  { intros p. destruct (ps <? p); [|exact H]. rewrite forallb_app, H. cbn [forallb andb]. rewrite kidOK_mk; [reflexivity|reflexivity|discriminate]. }
  destruct (at_ src i =? 92).
  - destruct (_ || _); [apply IH, H|]. apply IH. rewrite forallb_app, Hfl. cbn [forallb andb]. rewrite kidOK_mk; [reflexivity|reflexivity|discriminate].
  - destruct (Z.eqb_spec (at_ src i) 38) as [E38|N38]; [|apply IH, H].
    destruct (Z.ltb_spec (parseCharacterEscape (sub src i e)) 0) as [L|L]; [apply IH, H|].
    apply IH. rewrite forallb_app, Hfl. cbn [forallb andb]. rewrite kidOK_mk; [reflexivity|reflexivity|]. intros _.
    pose proof (at_nonzero_lt src i ltac:(rewrite E38; discriminate)) as Hi.
    split; [apply (charref_at src i e); [lia|reflexivity|exact L]|apply (charref_crb src i e); [lia|reflexivity|exact L]].
Qed.
Lemma eE_info src s e : eE src (parseInfoString src s e) = true.
Proof.
  unfold parseInfoString. pose proof (isl_kids src e (S (Z.to_nat (e - s))) s s [] eq_refl) as H.
  destruct (infoString_loop _ src s e s []) as [acc ps]. cbn [fst] in H. unfold eE. cbn [ikind ikids]. change (isExK InfoStringKind) with true. cbv iota.
  destruct (ps <? e); [|exact H]. rewrite forallb_app, H. cbn [forallb andb]. rewrite kidOK_mk; [reflexivity|reflexivity|discriminate].
Qed.

(* the children of a label / destination / title *)
Lemma kids_collect src ik fuel pos e esc : forallb (eE src) ik = true ->
  forallb (kidOK src) (collectTextNodes fuel (newReader src ik pos) e TextKind esc) = true.
Proof.
  intros Hik. apply forallb_forall. intros x Hx.
  pose proof (collectTextNodes_kindsL src TextKind esc fuel (newReader src ik pos) e ik eq_refl (sublist_refl _)) as H.
  rewrite Forall_forall in H. destruct (H x Hx) as [(s & e' & ->)|[(s & e' & -> & Hok)|(Hin & Hk)]].
  - apply kidOK_mk; [reflexivity|discriminate].
  - apply kidOK_mk; [reflexivity|intros _; exact Hok].
  - rewrite forallb_forall in Hik. specialize (Hik x Hin). unfold eE in Hik. rewrite Hk in Hik. change (isExK IndentKind) with false in Hik. cbv iota in Hik.
    apply andb_true_iff in Hik. destruct Hik as [Hik _]. unfold kidOK. rewrite Hik, Hk. cbn [kkind Z.eqb orb andb]. apply crOK_intro. rewrite Hk. discriminate.
Qed.

Section Inv.
  Variables src B : bytes.
  Hypothesis Hag : agreeNZ src B.
  Notation E := (eE B).

  Lemma E_leaf k s e ind :
    (k = UnparsedKind \/ k = TextKind \/ k = RawHTMLKind \/ k = IndentKind) -> E (Inl k s e ind [] []) = true.
  Proof. intros [->|[->|[->| ->]]]; reflexivity. Qed.
  Lemma E_soft s ind : E (Inl SoftLineBreakKind s s ind [] []) = true.
  Proof.
    unfold eE. cbn [ikind ikids nilb andb]. change (isExK SoftLineBreakKind) with false. cbv iota. unfold slOK. cbn [ikind istart iend].
    rewrite Z.leb_refl. change (SoftLineBreakKind =? CharacterReferenceKind) with false. rewrite orb_true_r. reflexivity.
  Qed.
  Lemma E_of_src u : eE src u = true -> E u = true.
  Proof.
    unfold eE. destruct (isExK (ikind u)); [|tauto]. intros H. rewrite forallb_forall in *. intros k Hk. apply (kidOK_agree src B k Hag), H, Hk.
  Qed.
  Lemma E_info s e : E (parseInfoString src s e) = true. Proof. apply E_of_src, eE_info. Qed.
  Lemma E_to_src_leaf u : E u = true -> isExK (ikind u) = false -> eE src u = true.
  Proof. unfold eE. intros H Hk. rewrite Hk in *. exact H. Qed.
  (* entries of a paragraph: only the childlessness of its Indent entries is used *)
  Lemma E_part ik K s e rf fuel pos e' esc : isExK K = true -> (forall x, In x ik -> ikind x = IndentKind -> ikids x = []) ->
    E (Inl K s e 0 rf (collectTextNodes fuel (newReader src ik pos) e' TextKind esc)) = true.
  Proof.
    intros HK Hik. apply E_of_src. unfold eE. cbn [ikind ikids]. rewrite HK.
    apply forallb_forall. intros x Hx.
    pose proof (collectTextNodes_kindsL src TextKind esc fuel (newReader src ik pos) e' ik eq_refl (sublist_refl _)) as H.
    rewrite Forall_forall in H. destruct (H x Hx) as [(s0 & e0 & ->)|[(s0 & e0 & -> & Hok)|(Hin & Hk)]].
    - apply kidOK_mk; [reflexivity|discriminate].
    - apply kidOK_mk; [reflexivity|intros _; exact Hok].
    - unfold kidOK. rewrite (Hik x Hin Hk), Hk. cbn [nilb kkind Z.eqb orb andb]. apply crOK_intro. rewrite Hk. discriminate.
  Qed.
  Lemma E_indent_kidless ik : forallb E ik = true -> forall x, In x ik -> ikind x = IndentKind -> ikids x = [].
  Proof.
    intros H x Hx Hk. rewrite forallb_forall in H. specialize (H x Hx). unfold eE in H. rewrite Hk in H. change (isExK IndentKind) with false in H. cbv iota in H.
    apply andb_true_iff in H. destruct H as [H _]. apply nilb_true. exact H.
  Qed.

  Fixpoint inv (b : block) : bool :=
    match b with Blk _ _ _ bk ik _ _ _ _ _ => forallb E ik && forallb inv bk end.
  Definition invL (l : list block) : bool := forallb inv l.

  Lemma inv_eq b : inv b = forallb E (bik b) && invL (bkids b).
  Proof. destruct b; reflexivity. Qed.
  Lemma inv_parts b : inv b = true -> forallb E (bik b) = true /\ invL (bkids b) = true.
  Proof. rewrite inv_eq. apply andb_true_iff. Qed.
  Lemma inv_mk b : forallb E (bik b) = true -> invL (bkids b) = true -> inv b = true.
  Proof. intros H1 H2. rewrite inv_eq, H1, H2. reflexivity. Qed.

  (* setters that touch neither the inline entries nor the block children *)
  Lemma inv_set_bend b v : inv (set_bend b v) = inv b. Proof. destruct b; reflexivity. Qed.
  Lemma inv_set_bstart b v : inv (set_bstart b v) = inv b. Proof. destruct b; reflexivity. Qed.
  Lemma inv_set_bkind b v : inv (set_bkind b v) = inv b. Proof. destruct b; reflexivity. Qed.
  Lemma inv_set_bn b v : inv (set_bn b v) = inv b. Proof. destruct b; reflexivity. Qed.
  Lemma inv_set_bchar b v : inv (set_bchar b v) = inv b. Proof. destruct b; reflexivity. Qed.
  Lemma inv_set_bindent b v : inv (set_bindent b v) = inv b. Proof. destruct b; reflexivity. Qed.
  Lemma inv_set_bloose b v : inv (set_bloose b v) = inv b. Proof. destruct b; reflexivity. Qed.
  Lemma inv_set_blast b v : inv (set_blast b v) = inv b. Proof. destruct b; reflexivity. Qed.
  Lemma inv_set_bkids b ks : inv b = true -> invL ks = true -> inv (set_bkids b ks) = true.
  Proof. intros H Hk. apply inv_parts in H. destruct H as [H _]. destruct b. unfold invL in *. cbn [inv set_bkids bik bkids] in *. rewrite H, Hk. reflexivity. Qed.
  Lemma inv_set_bik b ik : inv b = true -> forallb E ik = true -> inv (set_bik b ik) = true.
  Proof. intros H Hk. apply inv_parts in H. destruct H as [_ H]. destruct b. unfold invL in *. cbn [inv set_bik bik bkids] in *. rewrite H, Hk. reflexivity. Qed.
  Lemma inv_add_ik b u : inv b = true -> E u = true -> inv (set_bik b (bik b ++ [u])) = true.
  Proof.
    intros H Hu. apply inv_set_bik; [assumption|]. apply inv_parts in H. destruct H as [H _].
    rewrite forallb_app, H. cbn. rewrite Hu. reflexivity.
  Qed.
  Lemma inv_newBlock k s : inv (newBlock k s) = true. Proof. reflexivity. Qed.

  Lemma invL_app a b : invL (a ++ b) = invL a && invL b. Proof. apply forallb_app. Qed.
  Lemma forallb_sub {A} (p : A -> bool) l l' : (forall x, In x l' -> In x l) -> forallb p l = true -> forallb p l' = true.
  Proof. intros Hs H. rewrite forallb_forall in *. auto. Qed.
  Lemma removelast_In {A} (l : list A) x : In x (removelast l) -> In x l.
  Proof.
    induction l as [|y l IH]; [intros []|]. destruct l as [|z l]; [intros []|].
    change (removelast (y :: z :: l)) with (y :: removelast (z :: l)). intros [->|H]; [left; reflexivity|right; apply IH, H].
  Qed.
  Lemma invL_removelast l : invL l = true -> invL (removelast l) = true.
  Proof. apply forallb_sub. intros x. apply removelast_In. Qed.
  Lemma lastBlock_In b c : lastBlock b = Some c -> In c (bkids b).
  Proof.
    unfold lastBlock. intros H. destruct (rev (bkids b)) as [|x r] eqn:Er; [discriminate|]. inversion H; subst.
    apply in_rev. rewrite Er. left. reflexivity.
  Qed.
  Lemma inv_lastBlock b c : inv b = true -> lastBlock b = Some c -> inv c = true.
  Proof.
    intros H Hl. apply inv_parts in H. destruct H as [_ H]. unfold invL in H. rewrite forallb_forall in H.
    apply H. eapply lastBlock_In. exact Hl.
  Qed.
  Lemma inv_set_lastBlocks b repl : inv b = true -> invL repl = true -> inv (set_lastBlocks b repl) = true.
  Proof.
    intros H Hr. unfold set_lastBlocks. apply inv_set_bkids; [assumption|].
    rewrite invL_app, Hr, andb_true_r. apply invL_removelast. apply inv_parts in H. tauto.
  Qed.

  (* right-spine update *)
  Lemma inv_updAt f : (forall b, inv b = true -> inv (f b) = true) ->
    forall d b, inv b = true -> inv (updAt d f b) = true.
  Proof.
    intros Hf. induction d as [|d IH]; intros b H; [apply Hf; assumption|]. cbn [updAt].
    destruct (lastBlock b) as [c|] eqn:El; [|assumption].
    apply inv_set_lastBlocks; [assumption|]. unfold invL. cbn [forallb]. rewrite andb_true_r.
    apply IH. eapply inv_lastBlock; eassumption.
  Qed.

  (* ---- onClose handlers ---- *)
  Lemma trimBlankTail_sub sr : forall rk x, In x (trimBlankTail sr rk) -> In x rk.
  Proof.
    induction rk as [|c r IH]; intros x H; [exact H|]. cbn [trimBlankTail] in H.
    destruct (_ && _); [right; apply IH, H|exact H].
  Qed.
  Lemma inv_onCloseIndented sr b : inv b = true -> inv (onCloseIndented sr b) = true.
  Proof.
    intros H. unfold onCloseIndented. apply inv_set_bik; [assumption|].
    apply inv_parts in H. destruct H as [H _]. revert H. apply forallb_sub. intros x Hx.
    apply in_rev in Hx. apply trimBlankTail_sub in Hx. apply in_rev in Hx.
    destruct (rev (bik b)) as [|lst [|prev r]] eqn:Er; try exact Hx.
    destruct (_ && _ && _ && _); [|exact Hx].
    apply in_rev in Hx. apply in_rev. rewrite Er. right. exact Hx.
  Qed.
  Lemma inv_onCloseList b : inv b = true -> inv (onCloseList b) = true.
  Proof.
    intros H. unfold onCloseList. cbv zeta. destruct (bloose b || _); [|assumption].
    apply inv_set_bkids; [rewrite inv_set_bloose; assumption|].
    apply inv_parts in H. destruct H as [_ H]. unfold invL in *. rewrite forallb_forall in *.
    intros x Hx. apply in_map_iff in Hx. destruct Hx as (y & <- & Hy). rewrite inv_set_bloose. apply H, Hy.
  Qed.

  Lemma inv_refDef s e kids : forallb E kids = true -> inv (refDefBlock s e kids) = true.
  Proof. intros H. unfold refDefBlock. cbn. rewrite H. reflexivity. Qed.

  Lemma from_sub {A} (l : list A) n x : In x (from_ l n) -> In x l.
  Proof. unfold from_. revert l. induction (Z.to_nat n) as [|k IH]; intros l H; [exact H|]. destruct l; [exact H|]. right. apply IH, H. Qed.

  Lemma inv_ocp : forall fuel rfuel orig orphan r result,
    inv orig = true -> (match orphan with Some o => inv o = true | None => True end) -> invL result = true ->
    invL (ocp_loop fuel rfuel src orig orphan r result) = true.
  Proof.
    induction fuel as [|f IH]; intros rfuel orig orphan r result Ho Hor Hr.
    { cbn [ocp_loop]. rewrite invL_app, Hr. cbn. rewrite Ho. reflexivity. }
    assert (Hkeep : invL (result ++ [orig]) = true) by (rewrite invL_app, Hr; cbn; rewrite Ho; reflexivity).
    assert (Hwo : forall res, invL res = true -> invL (match orphan with Some o => res ++ [o] | None => res end) = true).
    { intros res Hres. destruct orphan as [o|]; [|assumption]. rewrite invL_app, Hres. cbn. rewrite Hor. reflexivity. }
    assert (Hcut : forall pos, inv (set_bik (set_bstart orig pos) (from_ (bik orig) (nodeIndexForPosition (bik orig) pos))) = true).
    { intros pos. apply inv_set_bik; [rewrite inv_set_bstart; assumption|].
      apply inv_parts in Ho. destruct Ho as [Ho _]. revert Ho. apply forallb_sub. intros x. apply from_sub. }
    cbn [ocp_loop]. cbv zeta.
    destruct (parseLinkLabel rfuel r) as [[lspan linner] r1].
    destruct (negb (spanValid lspan)); [assumption|].
    destruct (current r1) as [c r2]. destruct (negb (c =? 58)); [assumption|].
    destruct (next r2) as [? r3]. destruct (skipLinkSpace rfuel r3) as [ok r4]. destruct (negb ok); [assumption|].
    destruct (parseLinkDestination rfuel r4) as [[dspan dtext] r5]. destruct (negb (spanValid dspan)); [assumption|].
    destruct (readEOL rfuel r5) as [destEOL r6]. destruct (current r6) as [c6 r7].
    destruct (_ && _ && _); [assumption|].
    set (labelInline := Inl LinkLabelKind _ _ 0 _ _). set (destInline := Inl LinkDestinationKind _ _ 0 [] _).
    assert (Hkl : forall x, In x (bik orig) -> ikind x = IndentKind -> ikids x = []) by (apply E_indent_kidless; apply inv_parts in Ho; tauto).
    assert (Hl : E labelInline = true) by (apply E_part; [reflexivity|exact Hkl]). assert (Hd : E destInline = true) by (apply E_part; [reflexivity|exact Hkl]).
    assert (H2 : invL (result ++ [refDefBlock (fst lspan) destEOL [labelInline; destInline]]) = true).
    { rewrite invL_app, Hr. cbn [invL forallb andb]. rewrite inv_refDef; [reflexivity|]. cbn [forallb]. rewrite Hl, Hd. reflexivity. }
    destruct (skipLinkSpace rfuel r7) as [ok2 r8]. destruct (negb ok2); [apply Hwo; assumption|].
    destruct (parseLinkTitle rfuel r8) as [[tspan ttext] r9].
    destruct (negb (spanValid tspan)).
    { destruct (destEOL <? 0); [assumption|]. destruct (_ <? 0); [apply Hwo; assumption|].
      apply IH; [apply Hcut|assumption|assumption]. }
    destruct (readEOL rfuel r9) as [titleEOL r10].
    destruct (titleEOL <? 0).
    { destruct (destEOL <? 0); [assumption|]. destruct (_ <? 0); [apply Hwo; assumption|].
      rewrite app_assoc, invL_app, H2. cbn. rewrite Hcut. reflexivity. }
    set (titleInline := Inl LinkTitleKind _ _ 0 [] _).
    assert (Ht : E titleInline = true) by (apply E_part; [reflexivity|exact Hkl]).
    assert (H3 : invL (result ++ [refDefBlock (fst lspan) titleEOL [labelInline; destInline; titleInline]]) = true).
    { rewrite invL_app, Hr. cbn [invL forallb andb]. rewrite inv_refDef; [reflexivity|]. cbn [forallb]. rewrite Hl, Hd, Ht. reflexivity. }
    destruct (_ <? 0); [apply Hwo; assumption|]. apply IH; [apply Hcut|assumption|assumption].
  Qed.

  Lemma inv_onCloseParagraph orig : inv orig = true -> invL (onCloseParagraph src orig) = true.
  Proof.
    intros H. unfold onCloseParagraph. destruct (bik orig) as [|first rest] eqn:Eb; [cbn; rewrite H; reflexivity|].
    cbv zeta. rewrite <- Eb. apply inv_ocp; [assumption| |reflexivity].
    destruct (bkind orig =? SetextHeadingKind); [|exact I].
    unfold mkI. cbn [inv forallb]. rewrite E_leaf by tauto. reflexivity.
  Qed.

  Lemma inv_closeBlock e : forall fuel b, inv b = true -> invL (closeBlock fuel src b e) = true.
  Proof.
    induction fuel as [|f IH]; intros b H; [cbn; rewrite H; reflexivity|]. cbn [closeBlock].
    destruct (negb (isOpen b)); [cbn; rewrite H; reflexivity|]. cbv zeta.
    assert (Hcl : forall x, inv x = true ->
              inv (match lastBlock x with Some c => set_lastBlocks x (closeBlock f src c e) | None => x end) = true).
    { intros x Hx. destruct (lastBlock x) as [c|] eqn:El; [|assumption].
      apply inv_set_lastBlocks; [assumption|]. apply IH. eapply inv_lastBlock; eassumption. }
    assert (H1 : inv (set_bend b e) = true) by (rewrite inv_set_bend; assumption).
    destruct (bkind (set_bend b e) =? ListKind).
    { cbn [invL forallb]. rewrite Hcl; [reflexivity|]. apply inv_onCloseList. assumption. }
    destruct (bkind (set_bend b e) =? IndentedCodeBlockKind).
    { cbn [invL forallb]. rewrite Hcl; [reflexivity|]. apply inv_onCloseIndented. assumption. }
    destruct (_ || _); [apply inv_onCloseParagraph; assumption|].
    cbn [invL forallb]. rewrite Hcl; [reflexivity|assumption].
  Qed.

  (* ---- the line parser ---- *)
  Definition invP (p : lp) : Prop := inv (root p) = true.

  Lemma root_advance p n : root (advance p n) = root p.
  Proof. unfold advance. destruct (n <? 0); [reflexivity|]. destruct (n =? 0); [reflexivity|]. cbv zeta.
         destruct (state p =? stOpening); destruct (_ <? _); reflexivity. Qed.
  Lemma root_consumeLine p : root (consumeLine p) = root p.
  Proof. unfold consumeLine. cbv zeta. destruct (_ || _); [apply root_advance|]. destruct (_ =? stDescending); apply root_advance. Qed.
  Lemma root_consumeIndent_loop : forall fuel p n, root (consumeIndent_loop fuel p n) = root p.
  Proof.
    induction fuel as [|f IH]; intros p n; [reflexivity|]. cbn [consumeIndent_loop].
    destruct (n <=? 0); [reflexivity|]. cbv zeta.
    destruct (_ && (_ =? 32)); [rewrite IH; destruct (state p =? stOpening); reflexivity|].
    destruct (_ && (_ =? 9)); [|destruct (state p =? stOpening); reflexivity].
    destruct (n <? _); [destruct (state p =? stOpening); reflexivity|].
    rewrite IH. destruct (state p =? stOpening); reflexivity.
  Qed.
  Lemma root_consumeIndent p n : root (consumeIndent p n) = root p.
  Proof. apply root_consumeIndent_loop. Qed.

  Lemma invP_advance p n : invP p -> invP (advance p n). Proof. unfold invP. rewrite root_advance. tauto. Qed.
  Lemma invP_consumeLine p : invP p -> invP (consumeLine p). Proof. unfold invP. rewrite root_consumeLine. tauto. Qed.
  Lemma invP_consumeIndent p n : invP p -> invP (consumeIndent p n). Proof. unfold invP. rewrite root_consumeIndent. tauto. Qed.
  Lemma invP_withState p s : invP p -> invP (withState p s). Proof. exact (fun H => H). Qed.
  Lemma invP_withCont p c : invP p -> invP (withCont p c). Proof. exact (fun H => H). Qed.
  Lemma invP_panic p n : invP p -> invP (panic p n). Proof. exact (fun H => H). Qed.
  Lemma invP_opened p : invP p -> invP (if state p =? stOpening then withState p stOpenMatched else p).
  Proof. intros H. destruct (_ =? _); assumption. Qed.

  Lemma invP_updCont p f : invP p -> (forall b, inv b = true -> inv (f b) = true) -> invP (updCont p f).
  Proof. intros H Hf. unfold invP, updCont. cbn. apply inv_updAt; assumption. Qed.

  (* the source never changes during a line (ShEnv.v) *)
  Lemma src_of p q : envOf q = envOf p -> source q = source p. Proof. intros H. apply (env_parts _ _ H). Qed.
  Ltac ssrc :=
    repeat first [rewrite (src_of _ _ (env_consumeLine _)) | rewrite (src_of _ _ (env_endBlock _)) | rewrite (src_of _ _ (env_advance _ _))
                 | rewrite (src_of _ _ (env_consumeIndent _ _)) | rewrite (src_of _ _ (env_openBlock _ _)) | rewrite (src_of _ _ (env_collectInline _ _ _))
                 | rewrite (src_of _ _ (env_opened _)) | rewrite (src_of _ _ (env_openBlock_up _ _ _))
                 | rewrite (src_of _ _ (env_updCont _ _)) | rewrite (src_of _ _ (env_closeLastChildAt _ _ _))
                 | rewrite (src_of _ _ (env_withCont _ _)) | rewrite (src_of _ _ (env_withState _ _)) | rewrite (src_of _ _ (env_panic _ _)) ];
    try assumption; try reflexivity.

  Lemma invP_closeLastChildAt p d e : source p = src -> invP p -> invP (closeLastChildAt p d e).
  Proof.
    intros Hs H. unfold invP, closeLastChildAt. cbn. apply inv_updAt; [|assumption].
    intros b Hb. destruct (lastBlock b) as [c|] eqn:El; [|assumption].
    apply inv_set_lastBlocks; [assumption|]. rewrite Hs. apply inv_closeBlock. eapply inv_lastBlock; eassumption.
  Qed.

  Lemma invP_openBlock_up : forall fuel p kind, source p = src -> invP p -> invP (openBlock_up fuel p kind).
  Proof.
    induction fuel as [|f IH]; intros p kind Hs H; [assumption|]. cbn [openBlock_up].
    destruct (canContain _ _); [assumption|]. destruct (cdepth p); [assumption|].
    apply IH; [ssrc|]. apply invP_withCont, invP_closeLastChildAt; assumption.
  Qed.
  Lemma invP_openBlock p kind : source p = src -> invP p -> invP (openBlock p kind).
  Proof.
    intros Hs H. unfold openBlock. destruct (_ || _); [assumption|]. cbv zeta.
    apply invP_withCont. apply invP_updCont.
    - apply invP_closeLastChildAt; [ssrc|]. apply invP_openBlock_up; [ssrc|]. apply invP_opened, H.
    - intros b Hb. apply inv_set_bkids; [assumption|]. rewrite invL_app. apply inv_parts in Hb. destruct Hb as [_ Hb]. rewrite Hb. reflexivity.
  Qed.
  Lemma invP_endBlock p : source p = src -> invP p -> invP (endBlock p).
  Proof.
    intros Hs H. unfold endBlock. destruct (_ || _); [assumption|]. cbv zeta.
    destruct (cdepth _) eqn:Ed; [destruct (state p =? stOpening); assumption|].
    apply invP_withCont, invP_closeLastChildAt; [ssrc|]. apply invP_opened, H.
  Qed.
  Lemma invP_collectInline p kind n : source p = src -> invP p ->
    (kind = UnparsedKind \/ kind = TextKind \/ kind = RawHTMLKind \/ kind = IndentKind \/ kind = InfoStringKind) ->
    invP (collectInline p kind n).
  Proof.
    intros Hs H Hk. unfold collectInline. destruct (_ =? stDescendTerminated); [assumption|]. cbv zeta.
    apply invP_updCont.
    - apply invP_advance. destruct (0 <? _); [|apply invP_opened, H].
      apply invP_updCont; [apply invP_advance, invP_opened, H|].
      intros b Hb. apply inv_add_ik; [assumption|]. apply E_leaf. tauto.
    - intros b Hb. apply inv_add_ik; [assumption|].
      destruct (kind =? InfoStringKind) eqn:Ek.
      + match goal with |- E (parseInfoString ?S _ _) = true => replace S with src; [apply E_info|] end.
        symmetry. destruct (0 <? _); ssrc.
      + unfold mkI. apply E_leaf. destruct Hk as [Hk|[Hk|[Hk|[Hk|Hk]]]]; try tauto. subst kind. discriminate.
  Qed.

  (* match rules *)
  Lemma invP_matchRule p : source p = src -> invP p -> invP (snd (matchRule p)).
  Proof.
    intros Hs H. unfold matchRule. cbv zeta.
    destruct (_ || _); [assumption|].
    destruct (_ =? ListItemKind).
    { unfold matchListItem. destruct (isRestBlank p); [destruct (negb _); [assumption|apply invP_consumeIndent, H]|].
      destruct (_ <=? _); [apply invP_consumeIndent, H|assumption]. }
    destruct (_ =? BlockQuoteKind).
    { unfold matchBlockQuote. cbv zeta. destruct (_ <=? _); [assumption|]. destruct (negb _); [assumption|]. cbn [snd].
      unfold eatQuoteMarker. cbv zeta. destruct (0 <? _); repeat first [apply invP_consumeIndent|apply invP_advance]; assumption. }
    destruct (_ =? FencedCodeBlockKind).
    { unfold matchFenced. cbv zeta. destruct (if _ <? _ then _ else false); cbn [snd]; [apply invP_consumeLine|apply invP_consumeIndent]; assumption. }
    destruct (_ =? IndentedCodeBlockKind).
    { unfold matchIndented. cbv zeta. destruct (_ <? _); [destruct (negb _)|]; cbn [snd]; try apply invP_consumeIndent; assumption. }
    destruct (_ =? HTMLBlockKind).
    { unfold matchHTML. destruct (htmlEnd _ _); [|assumption]. destruct (isRestBlank _); [assumption|]. cbn [snd]. apply invP_consumeLine.
      apply invP_collectInline; [assumption|assumption|tauto]. }
    assumption.
  Qed.

  Lemma invP_descend_loop : forall fuel p d, source p = src -> invP p -> invP (snd (descend_loop fuel p d)).
  Proof.
    induction fuel as [|f IH]; intros p d Hs H; [assumption|]. cbn [descend_loop]. cbv zeta.
    destruct (getAt (S d) (root p)) as [c|]; [|assumption].
    destruct (negb (isOpen c)); [assumption|]. destruct (negb (hasMatch _)); [assumption|].
    pose proof (invP_matchRule (withState (withCont p (Some (S d))) stDescending) Hs H) as H2.
    pose proof (src_of _ _ (env_matchRule (withState (withCont p (Some (S d))) stDescending))) as Hs2.
    destruct (matchRule _) as [ok p2]. cbn [snd] in H2, Hs2. cbn [source withState withCont setLP] in Hs2.
    assert (Hs2' : source p2 = src) by (rewrite Hs2; exact Hs).
    destruct (state p2 =? stDescendTerminated); [cbn [snd]; apply invP_withCont, invP_closeLastChildAt; assumption|].
    destruct (negb ok); [assumption|]. apply IH; assumption.
  Qed.

  (* ---- block starts ---- *)
  Ltac chain H :=
    repeat match goal with
    | |- invP (consumeLine _) => apply invP_consumeLine
    | |- invP (endBlock _) => apply invP_endBlock; [ssrc|]
    | |- invP (advance _ _) => apply invP_advance
    | |- invP (consumeIndent _ _) => apply invP_consumeIndent
    | |- invP (openBlock _ _) => apply invP_openBlock; [ssrc|]
    | |- invP (collectInline _ _ _) => apply invP_collectInline; [ssrc| |tauto]
    | |- invP (updCont _ _) => apply invP_updCont; [|intros ? ?; rewrite ?inv_set_bn, ?inv_set_bchar, ?inv_set_bindent, ?inv_set_bkind; assumption]
    end;
    try exact H.

  Lemma invP_startBlockQuote p : source p = src -> invP p -> invP (startBlockQuote p).
  Proof. intros Hs H. unfold startBlockQuote. cbv zeta. destruct (_ <=? _); [assumption|]. destruct (negb _); [assumption|].
         destruct (0 <? _); chain H. Qed.
  Lemma invP_startATX p : source p = src -> invP p -> invP (startATX p).
  Proof. intros Hs H. unfold startATX. cbv zeta. destruct (_ <=? _); [assumption|].
         destruct (parseATXHeading _) as [[level cs] ce]. destruct (level <? 1); [assumption|]. chain H. Qed.
  Lemma invP_startFenced p : source p = src -> invP p -> invP (startFenced p).
  Proof. intros Hs H. unfold startFenced. cbv zeta. destruct (_ <=? _); [assumption|].
         destruct (parseCodeFence _) as [[[fc fnn] is_] ie]. destruct (fnn =? 0); [assumption|].
         destruct (spanValid _); chain H. Qed.
  Lemma invP_startHTML p : source p = src -> invP p -> invP (startHTML p).
  Proof. intros Hs H. unfold startHTML. cbv zeta. destruct (_ <=? _); [assumption|]. destruct (negb _); [assumption|].
         destruct (_ <? 0); [assumption|]. destruct (negb _ && _); [assumption|]. destruct (htmlEnd _ _); chain H. Qed.
  Lemma invP_startSetext p : source p = src -> invP p -> invP (startSetext p).
  Proof. intros Hs H. unfold startSetext. cbv zeta. destruct (negb _); [assumption|]. destruct (_ <=? _); [assumption|].
         destruct (_ =? 0); [assumption|]. destruct (negb _); [assumption|]. chain H. Qed.
  Lemma invP_startThematic p : source p = src -> invP p -> invP (startThematic p).
  Proof. intros Hs H. unfold startThematic. cbv zeta. destruct (_ <=? _); [assumption|]. destruct (_ <? 0); [assumption|]. chain H. Qed.
  Lemma invP_startListItem p : source p = src -> invP p -> invP (startListItem p).
  Proof.
    intros Hs H. unfold startListItem. cbv zeta. destruct (_ <=? _); [assumption|].
    destruct (parseListMarker _) as [[delim n] mend]. destruct (_ || _); [assumption|]. destruct (_ && _); [assumption|].
    match goal with |- context [endBlock ?X] => assert (H1 : invP (endBlock X) /\ source (endBlock X) = src) end.
    { split; [destruct (negb _ || negb _); chain H|destruct (negb _ || negb _); ssrc]. }
    destruct H1 as [H1 Hs1].
    match goal with |- context [endBlock ?X] => set (q := endBlock X) in * end.
    destruct (isRestBlank q); [chain H1|].
    destruct (indent q <? 1); [chain H1|]. destruct (4 <? indent q); chain H1.
  Qed.
  Lemma invP_startIndented p : source p = src -> invP p -> invP (startIndented p).
  Proof. intros Hs H. unfold startIndented. destruct (_ || _ || _); [assumption|]. chain H. Qed.

  Definition startOKx (f : lp -> lp) : Prop := forall p, source p = src -> invP p -> invP (f p).
  Lemma blockStarts_ok : Forall startOKx blockStarts.
  Proof.
    unfold blockStarts. repeat constructor; intros p Hs H;
      [apply invP_startBlockQuote|apply invP_startATX|apply invP_startFenced|apply invP_startHTML
      |apply invP_startSetext|apply invP_startThematic|apply invP_startListItem|apply invP_startIndented]; assumption.
  Qed.
  Lemma invP_tryStarts : forall fs p, Forall startOKx fs -> (forall f, In f fs -> forall q, envOf (f q) = envOf q) ->
    source p = src -> invP p -> invP (snd (tryStarts fs p)).
  Proof.
    induction fs as [|f r IH]; intros p Hfs He Hs H; [assumption|]. cbn [tryStarts]. cbv zeta. inversion Hfs as [|? ? Hf Hr]; subst.
    assert (H1 : invP (f (withState p stOpening))) by (apply Hf; assumption).
    destruct (_ || _); [assumption|]. apply IH; [assumption|intros g Hg; apply He; right; exact Hg| |assumption].
    rewrite (src_of _ _ (He f (or_introl eq_refl) _)). exact Hs.
  Qed.
  Lemma invP_opening_loop : forall fuel p, source p = src -> invP p -> invP (snd (opening_loop fuel p)).
  Proof.
    induction fuel as [|f IH]; intros p Hs H; [assumption|]. cbn [opening_loop].
    destruct (_ || _); [|assumption].
    pose proof (invP_tryStarts blockStarts p blockStarts_ok env_blockStarts Hs H) as H1.
    pose proof (src_of _ _ (env_tryStarts blockStarts p env_blockStarts)) as Hs1.
    destruct (tryStarts blockStarts p) as [[|] p1]; cbn [snd] in H1, Hs1.
    - destruct (_ =? stLineConsumed); [assumption|apply IH; [rewrite Hs1; exact Hs|assumption]].
    - assumption.
  Qed.
  Lemma invP_deferredClose p : source p = src -> invP p -> invP (deferredClose p).
  Proof. intros Hs H. unfold deferredClose. cbv zeta. destruct (_ && _); [assumption|apply invP_closeLastChildAt; assumption]. Qed.
  Lemma invP_openNewBlocks p am : source p = src -> invP p -> invP (snd (openNewBlocks p am)).
  Proof.
    intros Hs H. unfold openNewBlocks. destruct (_ =? 0).
    - cbn [snd]. unfold invP. cbn. rewrite Hs.
      pose proof (inv_closeBlock (lineStart p) (bheight (root p)) (root p) H) as Hc.
      destruct (closeBlock _ _ _ _) as [|b r]; [assumption|]. cbn in Hc. apply andb_true_iff in Hc. tauto.
    - pose proof (invP_opening_loop (S (length (line p))) p Hs H) as H1.
      pose proof (src_of _ _ (env_opening_loop (S (length (line p))) p)) as Hs1.
      destruct (opening_loop _ p) as [ht p1]. cbn [snd] in H1, Hs1.
      destruct am; cbn [snd]; [assumption|apply invP_deferredClose; [rewrite Hs1; exact Hs|exact H1]].
  Qed.
  Lemma inv_setLastBlankUpTo v : forall d rt, inv rt = true -> inv (setLastBlankUpTo d v rt) = true.
  Proof.
    induction d as [|d IH]; intros rt H; cbn [setLastBlankUpTo].
    - cbn [updAt]. rewrite inv_set_blast. assumption.
    - apply IH. apply inv_updAt; [intros b Hb; rewrite inv_set_blast; assumption|assumption].
  Qed.

  Lemma invP_addLineText p : source p = src -> invP p -> invP (addLineText p).
  Proof.
    intros Hs H. unfold addLineText. cbv zeta.
    set (p1 := if isRestBlank p then _ else p).
    assert (H1 : invP p1).
    { unfold p1. destruct (isRestBlank p); [|assumption]. apply invP_updCont; [assumption|].
      intros b Hb. destruct (lastBlock b) as [c|] eqn:El; [|assumption].
      apply inv_set_lastBlocks; [assumption|]. cbn. rewrite inv_set_blast, andb_true_r. eapply inv_lastBlock; eassumption. }
    set (p2 := withRoot p1 _).
    assert (H2 : invP p2) by (unfold p2, invP; cbn; apply inv_setLastBlankUpTo; exact H1).
    assert (Hgo : forall q, invP q ->
      invP (let k := containerKind q in
            let inlineKind := if isCode k then TextKind else if k =? HTMLBlockKind then RawHTMLKind else UnparsedKind in
            let q' := updCont q (fun b => set_bik b (bik b ++ [mkI inlineKind (lineStart q + li q) (lineStart q + len (line q))])) in
            if isCode k && negb (hasByteSuffixEOL (line q')) then
              updCont q' (fun b => set_bik b (bik b ++ [mkI SoftLineBreakKind (lineStart q' + len (line q')) (lineStart q' + len (line q'))]))
            else q')).
    { intros q Hq. cbv zeta.
      assert (Hq' : invP (updCont q (fun b => set_bik b (bik b ++
                 [mkI (if isCode (containerKind q) then TextKind else if containerKind q =? HTMLBlockKind then RawHTMLKind else UnparsedKind)
                      (lineStart q + li q) (lineStart q + len (line q))])))).
      { apply invP_updCont; [assumption|]. intros b Hb. apply inv_add_ik; [assumption|]. unfold mkI. apply E_leaf.
        destruct (isCode _); [tauto|]. destruct (_ =? HTMLBlockKind); tauto. }
      match goal with |- invP (if ?c then _ else _) => destruct c end; [|exact Hq'].
      apply invP_updCont; [exact Hq'|]. intros b Hb. apply inv_add_ik; [assumption|]. unfold mkI. apply E_soft. }
    match goal with |- invP (if ?c then _ else _) => destruct c end.
    - apply Hgo. match goal with |- invP (if ?c then _ else _) => destruct c end; [|assumption].
      apply invP_consumeIndent. apply invP_updCont; [assumption|]. intros b Hb. apply inv_add_ik; [assumption|]. apply E_leaf. tauto.
    - match goal with |- invP (if ?c then _ else _) => destruct c end; [|assumption]. apply Hgo. apply invP_consumeIndent, invP_openBlock; [|exact H2].
      unfold p2, p1. destruct (isRestBlank p); cbn [source withRoot updCont setLP]; exact Hs.
  Qed.

  Theorem inv_processLine st children ls : invL children = true ->
    invL (fst (fst (processLine st children ls src))) = true.
  Proof.
    intros H. unfold processLine. cbv zeta.
    assert (H0 : invP (resetLP st children ls src)) by (unfold invP; cbn; exact H).
    assert (Hs0 : source (resetLP st children ls src) = src) by reflexivity.
    pose proof (invP_descend_loop (bheight (root (resetLP st children ls src))) _ O Hs0 H0) as H1.
    pose proof (src_of _ _ (env_descend_loop (bheight (root (resetLP st children ls src))) (resetLP st children ls src) O)) as Hs1.
    fold (descendOpenBlocks (resetLP st children ls src)) in H1, Hs1.
    destruct (descendOpenBlocks _) as [am p1]. cbn [snd] in H1, Hs1. rewrite Hs0 in Hs1.
    assert (H2 : invP (snd (if negb (state p1 =? stDescendTerminated) then openNewBlocks p1 am else (false, p1))) /\
                 source (snd (if negb (state p1 =? stDescendTerminated) then openNewBlocks p1 am else (false, p1))) = src).
    { destruct (negb _); [split; [apply invP_openNewBlocks; assumption|rewrite (src_of _ _ (env_openNewBlocks p1 am)); exact Hs1]|split; assumption]. }
    destruct (if negb (state p1 =? stDescendTerminated) then openNewBlocks p1 am else (false, p1)) as [ht p2]. cbn [snd] in H2. destruct H2 as [H2 Hs2].
    cbn [fst].
    assert (H3 : invP (if ht then addLineText p2 else p2)) by (destruct ht; [apply invP_addLineText|]; assumption).
    unfold invP in H3. apply inv_parts in H3. tauto.
  Qed.

End Inv.

Print Assumptions inv_processLine.
