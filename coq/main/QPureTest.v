From Coq Require Import List ZArith Lia Bool String Ascii.
Import ListNotations.
Require Import Base Tree LP Driver Inl3e SliceBase QuoteSimDefs QuoteSimTest QS2Test.
Open Scope Z_scope.
Definition isTextK (K : Z) : bool := (K =? ParagraphKind) || (K =? SetextHeadingKind) || (K =? ATXHeadingKind).
Definition ek3 (K : Z) (u : inline) : bool := if isTextK K then ikind u =? UnparsedKind else negb (ikind u =? UnparsedKind).
Fixpoint pinv (f : nat) (b : block) : bool :=
  match f with O => true | S f' => forallb (ek3 (bkind b)) (bik b) && forallb (pinv f') (bkids b) end.
Fixpoint atxOne (f : nat) (b : block) : bool :=
  match f with O => true | S f' => (negb (bkind b =? ATXHeadingKind) || (len (bik b) <=? 1)) && forallb (atxOne f') (bkids b) end.
Definition chkP (D : bytes) : bool := forallb (fun r => pinv (bheight (rb_blk r)) (rb_blk r)) (fst (parseBlocks D)).
Definition chkA (D : bytes) : bool := forallb (fun r => atxOne (bheight (rb_blk r)) (rb_blk r)) (fst (parseBlocks D)).
Compute (filter (fun s => negb (chkP (s2b s))) (docs ++ docs2)).
Compute (filter (fun s => negb (chkA (s2b s))) (docs ++ docs2)).
Compute (chkP [45;32;97;10;32;9;98]).
Compute (fst (parseBlocks [45;32;97;10;32;9;98])).
Definition A8 : bytes := [97; 32; 10; 35; 60; 45; 62].
Time Compute (filter (fun D => negb (chkP D)) (allStr A8 5)).
Time Compute (filter (fun D => negb (chkA D)) (allStr (9 :: A8) 5)).
