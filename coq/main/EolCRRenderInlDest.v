From Coq Require Import List ZArith Lia Bool.
Import ListNotations.
Require Import Base Tables Utf8 Tree Rdr Link Collect Html Recog Inl3a Inl3b Inl3c Inl3d Inl3e Leaf3a Leaf3e RdrBound.
Require Import SpanForest SpanIds SpanStack SpanEmph SpanSmall SpanTok SpanRdr SpanCollect SpanScan.
Open Scope Z_scope.

(* ====================================================================================================
   The destination scanner under the entry conditions EC: the span of a link destination lies inside
   one Unparsed entry and contains no line ending (the reader would have to read the line ending that
   ends every non-last entry, and both ld_angle and ld_bare stop there).
   ==================================================================================================== *)
Section Dest.
  Variables (src : bytes) (U : list inline) (lo hi : Z).
  Hypothesis HEC : EC src U lo hi.
  Notation nU := (nthU U).
  Notation P := (SpanRdr.P src U).
  Notation AliveAt := (SpanRdr.AliveAt src U).
  Notation Off := (SpanRdr.Off src U).
  Notation RS := (SpanRdr.RS src U).
  Notation foc := (SpanRdr.foc U).
  Notation byteAt := (SpanRdr.byteAt src U).

  Definition NE (i : Z) : Prop := at_ src i <> 10 /\ at_ src i <> 13.
  Definition NER (a b : Z) : Prop := forall i, a <= i < b -> NE i.
  Lemma NER_snoc a b : NER a b -> NE b -> NER a (b + 1).
  Proof. intros H1 H2 i Hi. destruct (Z.eq_dec i b) as [->|N]; [exact H2|apply H1; lia]. Qed.
  Lemma NER_empty a b : b <= a -> NER a b.
  Proof. intros H i Hi. lia. Qed.

  Lemma byteAt_NE r k : ikind (nU k) <> IndentKind -> byteAt r k <> 10 -> byteAt r k <> 13 -> NE (r_pos r).
  Proof.
    intros Ni. unfold SpanRdr.byteAt. apply Z.eqb_neq in Ni. rewrite Ni.
    destruct (Z.eqb_spec (at_ src (r_pos r)) 0) as [E|E]; intros A B; unfold NE; [rewrite E; split; discriminate|tauto].
  Qed.
  Lemma byteAt_not32 r k : byteAt r k <> 32 -> ikind (nU k) <> IndentKind.
  Proof. unfold SpanRdr.byteAt. intros H E. apply Z.eqb_eq in E. rewrite E in H. apply H. reflexivity. Qed.

  Lemma cur_alive r k : AliveAt r k -> current r = (byteAt r k, foc r k) /\ AliveAt (foc r k) k /\ r_pos (foc r k) = r_pos r.
  Proof. intros A. split; [apply (current_alive src U lo hi HEC r k A)|]. split; [apply AliveAt_foc, A|reflexivity]. Qed.

  Lemma step_in r k : AliveAt r k -> ikind (nU k) <> IndentKind -> NE (r_pos r) -> fst (next r) = true ->
    AliveAt (snd (next r)) k /\ r_pos (snd (next r)) = r_pos r + 1.
  Proof.
    intros A Ni Hne Hok. pose proof (alive_pos src U lo hi HEC r k A) as (A1 & A2 & _).
    destruct (next_alive src U lo hi HEC r k A) as (_ & _ & [(_ & Y & [[Z _]|[_ Z]])|[(_ & Hk & _ & Hl & _)|(X & _)]]).
    - contradiction.
    - split; assumption.
    - exfalso. destruct Hl as [Hl|Hl]; [contradiction|].
      destruct (ec_eol _ _ _ _ HEC k ltac:(lia) Hk) as (_ & He). specialize (He Ni).
      replace (iend (nU k) - 1) with (r_pos r) in He by lia. destruct Hne as [N1 N2]. unfold isEOLb in He.
      apply Z.eqb_neq in N1, N2. rewrite N1, N2 in He. discriminate.
    - congruence.
  Qed.
  Lemma step_fail r k : AliveAt r k -> fst (next r) = false -> r_pos (snd (next r)) = r_pos r + 1.
  Proof.
    intros A Hf. destruct (next_alive src U lo hi HEC r k A) as (_ & _ & [(X & _)|[(X & _)|(_ & _ & _ & Ep & _)]]); [congruence|congruence|exact Ep].
  Qed.

  Lemma eol_or c : (c =? 13) || (c =? 10) = false -> c <> 10 /\ c <> 13.
  Proof. intros H. apply orb_false_iff in H. destruct H as [A B]. apply Z.eqb_neq in A, B. tauto. Qed.
  Lemma eol_or' c : (c =? 10) || (c =? 13) = false -> c <> 10 /\ c <> 13.
  Proof. intros H. apply orb_false_iff in H. destruct H as [A B]. apply Z.eqb_neq in A, B. tauto. Qed.
  Lemma spanValid_null : spanValid nullSpan = false. Proof. reflexivity. Qed.

  (* ---- the pointy-bracket form ---- *)
  Lemma ld_angle_ne : forall fuel r start k, AliveAt r k -> ikind (nU k) <> IndentKind -> start <= r_pos r -> NER start (r_pos r + 1) ->
    let '(dspan, dtext, r') := ld_angle fuel r start in
    spanValid dspan = true -> fst dspan = start /\ NER start (snd dspan).
  Proof.
    induction fuel as [|f IH]; intros r start k A Ni Hst Hne; cbn [ld_angle]; [rewrite spanValid_null; discriminate|].
    pose proof (step_in r k A Ni (Hne (r_pos r) ltac:(lia))) as Hs.
    destruct (next r) as [ok r1]. cbn [fst snd] in Hs. destruct ok; cbn [negb]; [|rewrite spanValid_null; discriminate].
    destruct (Hs eq_refl) as (A1 & P1). clear Hs.
    destruct (cur_alive r1 k A1) as (Ec & A2 & P2). rewrite Ec.
    destruct ((byteAt r1 k =? 13) || (byteAt r1 k =? 10)) eqn:E1; [rewrite spanValid_null; discriminate|].
    destruct (eol_or _ E1) as [N10 N13]. pose proof (byteAt_NE r1 k Ni N10 N13) as Hne1.
    assert (Hne2 : NER start (r_pos r1 + 1)) by (rewrite P1; apply NER_snoc; [exact Hne|rewrite <- P1; exact Hne1]).
    destruct (byteAt r1 k =? 92).
    - pose proof (step_in (foc r1 k) k A2 Ni ltac:(rewrite P2; exact Hne1)) as Hs.
      destruct (next (foc r1 k)) as [ok2 r3]. cbn [fst snd] in Hs. destruct ok2; cbn [negb]; [|rewrite spanValid_null; discriminate].
      destruct (Hs eq_refl) as (A3 & P3). clear Hs. rewrite P2 in P3.
      destruct (cur_alive r3 k A3) as (Ec3 & A4 & P4). rewrite Ec3.
      destruct ((byteAt r3 k =? 10) || (byteAt r3 k =? 13)) eqn:E3; [rewrite spanValid_null; discriminate|].
      destruct (eol_or' _ E3) as [M10 M13]. pose proof (byteAt_NE r3 k Ni M10 M13) as Hne3.
      match goal with |- context [ld_angle f ?rr start] =>
        pose proof (IH rr start k A4 Ni ltac:(rewrite P4; lia) ltac:(rewrite P4, P3; apply NER_snoc; [exact Hne2|rewrite <- P3; exact Hne3])) as HI;
        destruct (ld_angle f rr start) as [[dspan dtext] r'] end.
      exact HI.
    - destruct (byteAt r1 k =? 62).
      + pose proof (next_prev_alive src U lo hi HEC (foc r1 k) k A2) as Epv.
        destruct (next (foc r1 k)) as [ok3 r3]. cbn [fst snd] in *. intros _. split; [reflexivity|]. rewrite Epv, P2. exact Hne2.
      + match goal with |- context [ld_angle f ?rr start] =>
          pose proof (IH rr start k A2 Ni ltac:(rewrite P2; lia) ltac:(rewrite P2; exact Hne2)) as HI;
          destruct (ld_angle f rr start) as [[dspan dtext] r'] end.
        exact HI.
  Qed.
  Lemma ld_angle_off fuel r start : Off r -> spanValid (fst (fst (ld_angle fuel r start))) = false.
  Proof.
    intros HO. destruct fuel as [|f]; [reflexivity|]. cbn [ld_angle].
    destruct (next_off src U r HO) as (E1 & _). destruct (next r) as [ok r1]. cbn [fst] in E1. subst ok. reflexivity.
  Qed.

  (* ---- the bare form ---- *)
  Lemma ctrl_eol c : isASCIIControl c || (c =? 32) = false -> c <> 10 /\ c <> 13 /\ c <> 32.
  Proof.
    unfold isASCIIControl. intros H. apply orb_false_iff in H. destruct H as [H H32]. apply orb_false_iff in H. destruct H as [H _].
    apply Z.leb_gt in H. apply Z.eqb_neq in H32. lia.
  Qed.
  Lemma ld_bare_ne : forall fuel r paren start k, AliveAt r k -> NER start (r_pos r) -> NER start (r_pos (ld_bare fuel r paren)).
  Proof.
    induction fuel as [|f IH]; intros r paren start k A Hne; [exact Hne|]. cbn [ld_bare].
    destruct (cur_alive r k A) as (Ec & A1 & P1). rewrite Ec.
    destruct (isASCIIControl (byteAt r k) || (byteAt r k =? 32)) eqn:Ectl; [rewrite P1; exact Hne|].
    destruct (ctrl_eol _ Ectl) as (N10 & N13 & N32). pose proof (byteAt_not32 r k N32) as Ni.
    pose proof (byteAt_NE r k Ni N10 N13) as Hne0.
    assert (Hne1 : NER start (r_pos r + 1)) by (apply NER_snoc; assumption).
    assert (Hstep : forall rr paren', AliveAt rr k -> r_pos rr = r_pos r ->
              NER start (r_pos (let '(ok, r2) := next rr in if ok then ld_bare f r2 paren' else r2))).
    { intros rr paren' Ar Epr. pose proof (step_in rr k Ar Ni ltac:(rewrite Epr; exact Hne0)) as Hs. pose proof (step_fail rr k Ar) as Hf.
      destruct (next rr) as [ok r2]. cbn [fst snd] in Hs, Hf. destruct ok.
      - destruct (Hs eq_refl) as (A2 & P2). apply (IH r2 paren' start k A2). rewrite P2, Epr. exact Hne1.
      - rewrite (Hf eq_refl), Epr. exact Hne1. }
    destruct (byteAt r k =? 92).
    - pose proof (step_in (foc r k) k A1 Ni ltac:(rewrite P1; exact Hne0)) as Hs. pose proof (step_fail (foc r k) k A1) as Hf.
      destruct (next (foc r k)) as [ok r2]. cbn [fst snd] in Hs, Hf. destruct ok; cbn [negb]; [|rewrite (Hf eq_refl), P1; exact Hne1].
      destruct (Hs eq_refl) as (A2 & P2). clear Hs Hf. rewrite P1 in P2.
      destruct (cur_alive r2 k A2) as (Ec2 & A3 & P3). rewrite Ec2.
      destruct (isASCIIControl (byteAt r2 k) || (byteAt r2 k =? 32)) eqn:Ectl2; [rewrite P3, P2; exact Hne1|].
      destruct (ctrl_eol _ Ectl2) as (M10 & M13 & M32). pose proof (byteAt_NE r2 k Ni M10 M13) as Hne2.
      assert (Hne3 : NER start (r_pos r2 + 1)) by (apply NER_snoc; [rewrite P2; exact Hne1|exact Hne2]).
      pose proof (step_in (foc r2 k) k A3 Ni ltac:(rewrite P3; exact Hne2)) as Hs. pose proof (step_fail (foc r2 k) k A3) as Hf.
      destruct (next (foc r2 k)) as [ok2 r4]. cbn [fst snd] in Hs, Hf. destruct ok2.
      + destruct (Hs eq_refl) as (A4 & P4). apply (IH r4 paren start k A4). rewrite P4, P3. exact Hne3.
      + rewrite (Hf eq_refl), P3. exact Hne3.
    - destruct (byteAt r k =? 40); [apply (Hstep (foc r k) (paren + 1) A1 P1)|].
      destruct (byteAt r k =? 41).
      + destruct (paren - 1 <? 0); [rewrite P1; exact Hne|apply (Hstep (foc r k) (paren - 1) A1 P1)].
      + apply (Hstep (foc r k) paren A1 P1).
  Qed.
  Lemma ld_bare_off : forall fuel r paren, Off r -> r_pos (ld_bare fuel r paren) = r_pos r.
  Proof.
    induction fuel as [|f IH]; intros r paren HO; [reflexivity|]. cbn [ld_bare].
    destruct (current_off src U r HO) as (_ & O1 & P1 & _). destruct (current r) as [c r1]. cbn [fst snd] in O1, P1.
    destruct (next_off src U r1 O1) as (F1 & _ & Q1 & _).
    destruct (isASCIIControl c || (c =? 32)); [exact P1|].
    destruct (next r1) as [ok r2]. cbn [fst snd] in F1, Q1. subst ok. cbn [negb].
    destruct (c =? 92); [lia|]. destruct (c =? 40); [lia|]. destruct (c =? 41); [destruct (paren - 1 <? 0); lia|lia].
  Qed.

  Lemma parseLinkDestination_ne fuel s r : RS s r ->
    let '(dspan, dtext, r') := parseLinkDestination fuel r in
    spanValid dspan = true -> NER (fst dspan) (snd dspan).
  Proof.
    intros ([(k & A)|[HO _]] & _); unfold parseLinkDestination.
    - destruct (cur_alive r k A) as (Ec & A1 & P1). rewrite Ec.
      destruct (Z.eqb_spec (byteAt r k) 60) as [E60|N60].
      + assert (Ni : ikind (nU k) <> IndentKind) by (apply (byteAt_not32 r k); lia).
        pose proof (byteAt_NE r k Ni ltac:(lia) ltac:(lia)) as Hne0.
        pose proof (ld_angle_ne fuel (foc r k) (r_pos (foc r k)) k A1 Ni ltac:(lia)
                      ltac:(apply NER_snoc; [apply NER_empty; lia|rewrite P1; exact Hne0])) as H.
        destruct (ld_angle fuel (foc r k) (r_pos (foc r k))) as [[dspan dtext] r'].
        intros Hv. destruct (H Hv) as [E1 E2]. rewrite E1. exact E2.
      + destruct (negb (isASCIIControl (byteAt r k)) && negb (byteAt r k =? 32) && negb (byteAt r k =? 41)); [|rewrite spanValid_null; discriminate].
        intros _. cbn [fst snd]. apply (ld_bare_ne fuel (foc r k) 0 (r_pos (foc r k)) k A1). apply NER_empty. lia.
    - destruct (current_off src U r HO) as (_ & O1 & P1 & _). destruct (current r) as [c r0]. cbn [fst snd] in O1, P1.
      destruct (c =? 60).
      + pose proof (ld_angle_off fuel r0 (r_pos r0) O1) as H. destruct (ld_angle fuel r0 (r_pos r0)) as [[dspan dtext] r']. cbn [fst] in H.
        rewrite H. discriminate.
      + destruct (negb (isASCIIControl c) && negb (c =? 32) && negb (c =? 41)); [|rewrite spanValid_null; discriminate].
        intros _. cbn [fst snd]. rewrite (ld_bare_off fuel r0 0 O1). apply NER_empty. lia.
  Qed.

  (* ---- at the creation site: parseInlineLink started by the closing bracket ---- *)
  Definition SpecDest : Prop := forall st s, inEntry src U st (s - 1) -> s < spanEnd st -> at_ src s = 40 ->
    let '(ispan, (dspan, dtext), (tspan, ttext)) := parseInlineLink (rfuelOf st) st s in
    spanValid ispan = true -> spanValid dspan = true -> NER (fst dspan) (snd dspan).

  Theorem SpecDest_holds : SpecDest.
  Proof.
    intros st s HE Hs H40. destruct (inEntry_reader src U st (s - 1) HE) as (Eu & Es & Hj & Hp & Hse). rewrite Hse in Hs.
    unfold parseInlineLink. rewrite Es, Eu.
    set (j := upos st) in *. set (fuel := rfuelOf st).
    destruct (eb src U lo hi HEC j Hj) as (Bj1 & Bj2 & Bj3). pose proof (ec_lo _ _ _ _ HEC) as Hlo.
    assert (HR0 : RS false (newReader src (from_ U j) (s + 1))).
    { destruct (Z.lt_ge_cases (s + 1) (iend (nU j))) as [L|L]; [apply (RS_new src U lo hi HEC false (s + 1) j j); lia|].
      assert (Ni : ikind (nU j) <> IndentKind) by (intros Ei; pose proof (ec_width _ _ _ _ HEC j Hj Ei); lia).
      assert (Hlast : j + 1 = len U).
      { destruct (Z.eq_dec (j + 1) (len U)) as [X|X]; [exact X|]. exfalso. destruct (ec_eol _ _ _ _ HEC j ltac:(lia) ltac:(lia)) as (_ & He). specialize (He Ni).
        replace (iend (nU j) - 1) with s in He by lia. rewrite H40 in He. discriminate. }
      assert (HN : U <> []) by (apply (U_ne U j); lia).
      replace (s + 1) with P by (rewrite (P_last src U lo hi HEC HN); replace (len U - 1) with j by lia; lia).
      pose proof (P_ge src U lo hi HEC j Hj) as Pg. apply (RS_at_P src U lo hi HEC); lia. }
    destruct (skipLinkSpace_spec src U lo hi HEC fuel false _ HR0) as (K1 & _ & _).
    destruct (skipLinkSpace fuel (newReader src (from_ U j) (s + 1))) as [ok r1]. cbn [fst snd] in *.
    destruct ok; cbn [negb]; [|cbn; discriminate].
    pose proof (parseLinkDestination_ne fuel false r1 K1) as HD.
    destruct (parseLinkDestination fuel r1) as [[dspan dtext] r2].
    destruct (if spanValid dspan then skipLinkSpace fuel r2 else (true, r2)) as [ok2 r3].
    destruct ok2; cbn [negb]; [|cbn; discriminate].
    destruct (parseLinkTitle fuel r3) as [[tspan ttext] r4].
    destruct (if spanValid tspan then skipLinkSpace fuel r4 else (true, r4)) as [ok3 r5].
    destruct ok3; cbn [negb]; [|cbn; discriminate].
    destruct (negb (cur r5 =? 41)); [cbn; discriminate|].
    intros _ Hd. exact (HD Hd).
  Qed.
End Dest.
Print Assumptions SpecDest_holds.
