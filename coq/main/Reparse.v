From Coq Require Import List ZArith Lia Bool.
Import ListNotations.
Require Import Base Tree LP Driver StreamFuel BlankPrefix SliceBase SliceReparse ReparseDefs ReparseLocal ReparseFirst ReparseRun ReparseEof.
Open Scope Z_scope.

(* ================= C16 at the block layer (T50): what is proved =================

   Statements (ReparseDefs.v)
     C16_blocks_literal    the statement as wanted (right-hand side aloneOf r): REFUTED, C16_blocks_literal_refuted
                           ("- a\n\npara\n": the Source of the list contains its trailing blank line, the re-parse sets the
                           root's lastLineBlank flag, aloneOf clears it; the flag of the original root is false there).
     C16_blocks_statement  the corrected statement: the flag of the root is disregarded on both sides
                           (exists r', parseBlocks (rb_src r) = ([r'], 0) /\ aloneOf r' = aloneOf r).  Not refuted: checked by
                           vm_compute on the 336 documents of ReparseTest.v (24 block shapes x 14 following lines; the only
                           failures are the stated exceptions) and exhaustively on all strings of length <= 5 over a 17-byte
                           alphabet and of length <= 7 over {- space LF a > TAB CR} (no counterexample outside the exceptions).

   Theorems (for every input without NUL)
     ReparseLocal.cutOf_prefix            the line loop reads the buffer only up to the end of the last line it processed.
     ReparseRun.C16_cleanCut_partial      a root produced by a call of NextBlock that starts a fresh line loop (no pending
                                          children) and is cut at the position read so far (bi = 0 afterwards: the block was
                                          closed by its own last line, or by the end of the input) re-parses to exactly
                                          itself, re-based - flag included.
     ReparseEof.reparse_clean_call_reduce the remaining roots of fresh line loops (cut at the start T of the line that closed
                                          them): the re-parse of the Source is the same run followed by end of input, so its
                                          block is the one of StreamFuel.eofK stp chp T, where (stp, chp) is the state before
                                          the closing line.  C16 for such a root is exactly
                                             "closing by end of input = closing by the following line" for that ONE line:
                                             processLine stp chp T (Source ++ line) = (rb_blk r :: _, _, 0)   (original run)
                                             eofK stp chp T Source = [c2], c2 = rb_blk r up to the root flag  (to be shown).
   Not proved: that closing equivalence (per block kind), and the roots that come from pending children (a line that closes
   one root child and opens the next). *)

(* a checkable form of cleanCut: the calls of a run, with the two conditions evaluated *)
Fixpoint cleanList (fuel : nat) (s : bpst) : list (rootB * bool) :=
  match fuel with
  | O => []
  | S f => match nextBlock (3 + length (buf s)) s with
           | NBBlock r s' => (r, (match pending s with [] => true | _ => false end) && (bi s' =? 0)) :: cleanList f s'
           | _ => []
           end
  end.
Lemma cleanList_sound : forall fuel s0 s r, Reach s0 s -> In (r, true) (cleanList fuel s) ->
  exists s1 s1', Reach s0 s1 /\ pending s1 = [] /\ nextBlock (3 + length (buf s1)) s1 = NBBlock r s1' /\ bi s1' = 0.
Proof.
  induction fuel as [|f IH]; intros s0 s r HR Hin; [destruct Hin|]. cbn [cleanList] in Hin.
  destruct (nextBlock (3 + length (buf s)) s) as [r1 s1| | |k] eqn:En; try (exfalso; exact Hin).
  destruct Hin as [E|Hin].
  - inversion E as [[E1 E2]]. subst r1. apply andb_true_iff in E2. destruct E2 as [P1 P2]. apply Z.eqb_eq in P2.
    exists s, s1. split; [exact HR|]. split; [destruct (pending s); [reflexivity|discriminate]|]. split; assumption.
  - apply (IH s0 s1 r (Reach_step s0 s r1 s1 HR En) Hin).
Qed.
Theorem C16_checked_partial input r fuel : noNul input -> In (r, true) (cleanList fuel (st0 (pad input))) ->
  parseBlocks (rb_src r) = ([rebase r], 0).
Proof.
  intros Hn Hin. apply (C16_cleanCut_partial input r Hn). destruct (cleanList_sound fuel _ _ r (Reach_refl _) Hin) as (s & s' & H). exists s, s'. exact H.
Qed.
Print Assumptions C16_checked_partial.
Print Assumptions C16_cleanCut_partial.
Print Assumptions reparse_clean_call_reduce.
Print Assumptions C16_blocks_literal_refuted.

(* example: "# h\n\n***\n\n```\nc\n```\nlast" - every root is covered by C16_checked_partial *)
Example ex_cover :
  map snd (cleanList 20 (st0 [35;32;104;10;10;42;42;42;10;10;96;96;96;10;99;10;96;96;96;10;108;97;115;116])) = [true; true; true; true].
Proof. vm_compute. reflexivity. Qed.
