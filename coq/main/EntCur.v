From Coq Require Import List ZArith Lia Bool.
Import ListNotations.
Require Import Base Tree Rdr Link Collect Html Recog LP Rules Starts Driver L2Kind L2CC BSDef BSRdr BSTree BSOcp BSOrph BSClose BSLine1 BSLine2 BSLine3
  GramTree Cursor CursorX ShDef ShRdr ShClose ShEnv ShLine1.
Require Import ShapesBase EntBase EntOcpDefs EntTree.
Open Scope Z_scope.

(* ================================================================================================
   T28, part 3: the line environment, the cursor facts (`clean`: only prefix bytes have been consumed), and the
   "an open paragraph is still reachable" predicate ppT.
   ================================================================================================ *)

(* ---- the line and the buffer ---- *)
Definition envB (B : bytes) (p : lp) : Prop :=
  source p = upto B (lineStart p + len (line p)) /\ line p = from_ (source p) (lineStart p) /\
  0 <= lineStart p /\ lineStart p + len (line p) <= len B /\
  (lineStart p = 0 \/ isEOLz (at_ B (lineStart p - 1)) \/ lineStart p = len B) /\
  lineOK B (lineStart p) (lineStart p + len (line p)).

Lemma envB_env B p p' : envOf p' = envOf p -> envB B p -> envB B p'.
Proof. intros E. destruct (env_parts _ _ E) as (E1 & E2 & E3). unfold envB. rewrite E1, E2, E3. tauto. Qed.

Lemma line_at B p i : envB B p -> 0 <= i < len (line p) -> at_ (line p) i = at_ B (lineStart p + i).
Proof.
  intros (E1 & E2 & E3 & E4 & _) Hi. rewrite E2, E1. rewrite ShapesBase.at_from by lia. apply ShapesBase.at_upto. lia.
Qed.

(* ---- cursor moves over blanks / over prefix bytes ---- *)
Definition spstep (p p' : lp) : Prop := cstep p p' /\ (forall i, li p <= i < li p' -> isSpTab (at_ (line p) i) = true).
Definition gstep (p p' : lp) : Prop := cstep p p' /\ (forall i, li p <= i < li p' -> gapB (at_ (line p) i)).
Definition clean (p : lp) : Prop := forall i, 0 <= i < li p -> gapB (at_ (line p) i).

Lemma isSpTab_gapB c : isSpTab c = true -> gapB c.
Proof. unfold isSpTab, gapB. intros H. apply orb_true_iff in H. destruct H as [H|H]; apply Z.eqb_eq in H; lia. Qed.
Lemma gstep_of_spstep p p' : spstep p p' -> gstep p p'.
Proof. intros [A B]. split; [exact A|]. intros i Hi. apply isSpTab_gapB, B, Hi. Qed.

Lemma cstep_line p p' : cstep p p' -> line p' = line p.
Proof. intros (_ & (_ & E & _) & _). exact E. Qed.

Lemma spstep_refl p : spstep p p. Proof. split; [apply cstep_refl|intros; lia]. Qed.
Lemma spstep_trans a b c : curP a -> spstep a b -> spstep b c -> spstep a c.
Proof.
  intros Ha [A1 A2] [B1 B2]. split; [eapply cstep_trans; eassumption|]. intros i Hi.
  destruct (Z.lt_ge_cases i (li b)) as [L|L]; [apply A2; lia|]. rewrite <- (cstep_line a b A1). apply B2. lia.
Qed.
Lemma gstep_refl p : gstep p p. Proof. split; [apply cstep_refl|intros; lia]. Qed.
Lemma gstep_trans a b c : gstep a b -> gstep b c -> gstep a c.
Proof.
  intros [A1 A2] [B1 B2]. split; [eapply cstep_trans; eassumption|]. intros i Hi.
  destruct (Z.lt_ge_cases i (li b)) as [L|L]; [apply A2; lia|]. rewrite <- (cstep_line a b A1). apply B2. lia.
Qed.
Lemma clean_gstep p p' : gstep p p' -> clean p -> clean p'.
Proof.
  intros [A B] H i Hi. rewrite (cstep_line p p' A). destruct (Z.lt_ge_cases i (li p)) as [L|L]; [apply H; lia|apply B; lia].
Qed.

Lemma spstep_opened p : spstep p (if state p =? stOpening then withState p stOpenMatched else p).
Proof. split; [apply cstep_opened|]. destruct (_ =? _); cbn; intros; lia. Qed.
Lemma spstep_panic p s : spstep p (panic p s). Proof. split; [apply cstep_panic|cbn; intros; lia]. Qed.

Lemma spstep_consumeIndent_loop : forall fuel p n, spstep p (consumeIndent_loop fuel p n).
Proof.
  induction fuel as [|f IH]; intros p n; [apply spstep_refl|]. cbn [consumeIndent_loop].
  destruct (n <=? 0); [apply spstep_refl|]. cbv zeta.
  set (p0 := if state p =? stOpening then withState p stOpenMatched else p).
  assert (E0 : li p0 = li p /\ line p0 = line p) by (unfold p0; destruct (_ =? _); split; reflexivity). destruct E0 as [E1 E2].
  assert (H0 : spstep p p0) by apply spstep_opened.
  assert (Hmv : forall cl tr q, li p0 < len (line p0) -> isSpTab (at_ (line p) (li p)) = true -> spstep (withCursor p0 (li p0 + 1) cl tr) q -> spstep p q).
  { intros cl tr q Hlt Hb [Q1 Q2]. split.
    - eapply cstep_trans; [apply cstep_opened|]. fold p0. eapply cstep_trans; [|exact Q1].
      repeat split; cbn [li withCursor setLP]; lia.
    - intros i Hi. cbn [li line withCursor setLP] in Q2. rewrite E1, E2 in Q2.
      destruct (Z.eq_dec i (li p)) as [->|N]; [exact Hb|apply Q2; lia]. }
  destruct (Z.ltb_spec (li p0) (len (line p0))) as [L|L]; cbn [andb].
  2:{ split; [eapply cstep_trans; [apply cstep_opened|apply cstep_panic]|]. cbn [li panic setLP]. fold p0. rewrite E1. intros; lia. }
  destruct (Z.eqb_spec (at_ (line p0) (li p0)) 32) as [E32|N32].
  { eapply Hmv; [exact L|rewrite <- E1, <- E2, E32; reflexivity|apply IH]. }
  destruct (Z.eqb_spec (at_ (line p0) (li p0)) 9) as [E9|N9].
  2:{ split; [eapply cstep_trans; [apply cstep_opened|apply cstep_panic]|]. cbn [li panic setLP]. fold p0. rewrite E1. intros; lia. }
  destruct (n <? tabRem p0).
  { split; [eapply cstep_trans; [apply cstep_opened|]; fold p0; repeat split; cbn [li withCursor setLP]; lia|]. cbn [li withCursor setLP]. rewrite E1. intros; lia. }
  eapply Hmv; [exact L|rewrite <- E1, <- E2, E9; reflexivity|apply IH].
Qed.
Lemma spstep_consumeIndent p n : spstep p (consumeIndent p n). Proof. apply spstep_consumeIndent_loop. Qed.
Lemma gstep_consumeIndent p n : gstep p (consumeIndent p n). Proof. apply gstep_of_spstep, spstep_consumeIndent. Qed.

(* advancing over one byte known to be '>' *)
Lemma gstep_advance1 p : gapB (at_ (line p) (li p)) -> gstep p (advance p 1).
Proof.
  intros Hb. split; [apply cstep_advance|]. unfold advance. change (1 <? 0) with false. change (1 =? 0) with false. cbv iota zeta.
  set (p0 := if state p =? stOpening then withState p stOpenMatched else p).
  assert (E0 : li p0 = li p /\ line p0 = line p) by (unfold p0; destruct (_ =? _); split; reflexivity). destruct E0 as [E1 E2].
  destruct (_ <? _); cbn [li panic withCursor setLP]; rewrite E1; intros i Hi; [lia|]. replace i with (li p) by lia. exact Hb.
Qed.

(* ---- blank prefix facts ---- *)
Lemma indentLength_spec : forall l, 0 <= indentLength l <= len l /\
  (forall j, 0 <= j < indentLength l -> isSpTab (at_ l j) = true) /\
  (indentLength l < len l -> isSpTab (at_ l (indentLength l)) = false).
Proof.
  induction l as [|c r IH]; [cbn; repeat split; try lia; intros; lia|]. cbn [indentLength]. rewrite ShapesBase.len_cons.
  destruct IH as (A & B & C). destruct (isSpTab c) eqn:Ec.
  - split; [lia|]. split.
    + intros j Hj. destruct (Z.eq_dec j 0) as [->|N]; [exact Ec|]. rewrite ShapesBase.at_S' by lia. apply B. lia.
    + intros H. replace (1 + indentLength r) with (indentLength r + 1) by lia. rewrite ShapesBase.at_S by lia. apply C. lia.
  - pose proof (ShapesBase.len_nonneg r). split; [lia|]. split; [intros; lia|]. intros _. exact Ec.
Qed.

Lemma rest_at p j : 0 <= li p -> 0 <= j -> at_ (rest p) j = at_ (line p) (li p + j).
Proof. intros H Hj. unfold rest. apply ShapesBase.at_from; assumption. Qed.

Lemma hasBytePrefix1 l c : hasBytePrefix l [c] = true -> at_ l 0 = c /\ 0 < len l.
Proof.
  destruct l as [|x r]; [discriminate|]. cbn [hasBytePrefix]. intros H. apply andb_true_iff in H. destruct H as [H _]. apply Z.eqb_eq in H. subst c.
  rewrite ShapesBase.len_cons. pose proof (ShapesBase.len_nonneg r). split; [reflexivity|lia].
Qed.

(* after consuming blanks the cursor sits on a blank or on the first non-blank byte of the rest *)
Lemma after_blanks p p1 c : curP p -> spstep p p1 -> hasBytePrefix (bytesAfterIndent p) [c] = true -> isSpTab c = false ->
  li p <= li p1 <= li p + indentLength (rest p) /\ at_ (line p) (li p + indentLength (rest p)) = c /\
  li p + indentLength (rest p) < len (line p) /\
  (forall j, li p <= j < li p + indentLength (rest p) -> isSpTab (at_ (line p) j) = true).
Proof.
  intros (H0 & Hc) [A B] Hp Hn. unfold bytesAfterIndent in Hp. rewrite trimLeft_from in Hp.
  destruct (indentLength_spec (rest p)) as (I1 & I2 & I3). set (k := indentLength (rest p)) in *.
  assert (Hr : len (rest p) = len (line p) - li p) by (unfold rest; apply ShapesBase.len_from; lia).
  destruct (hasBytePrefix1 _ _ Hp) as [P1 P2].
  assert (Hk : k < len (rest p)).
  { destruct (Z.lt_ge_cases k (len (rest p))) as [L|L]; [exact L|]. rewrite ShapesBase.len_from in P2 by lia. lia. }
  rewrite ShapesBase.at_from in P1 by lia. replace (k + 0) with k in P1 by lia. rewrite rest_at in P1 by lia.
  assert (Hmv : li p <= li p1 <= len (line p)) by (apply A; exact Hc).
  split; [|split; [exact P1|split; [lia|]]].
  - split; [lia|]. destruct (Z.le_gt_cases (li p1) (li p + k)) as [L|L]; [exact L|]. exfalso.
    specialize (B (li p + k) ltac:(lia)). rewrite P1 in B. congruence.
  - intros j Hj. replace j with (li p + (j - li p)) by lia. rewrite <- rest_at by lia. apply I2. lia.
Qed.

(* blank-ness of the rest is not changed by consuming blanks *)
Lemma isBlank_from_step (l : bytes) : forall i j, 0 <= i <= j -> j <= len l ->
  (forall t, i <= t < j -> isSpTab (at_ l t) = true) -> isBlankLine (from_ l i) = isBlankLine (from_ l j).
Proof.
  intros i j Hij Hj Hb. remember (Z.to_nat (j - i)) as k eqn:Ek. revert i Hij Hb Ek.
  induction k as [|k IH]; intros i Hij Hb Ek; [replace j with i by lia; reflexivity|].
  rewrite (Rec16.from_cons l i) by lia. unfold isBlankLine in *. cbn [forallb].
  specialize (Hb i ltac:(lia)) as Hbi. unfold isSpTab in Hbi. unfold isSpaceTabOrLineEnding at 1.
  apply orb_true_iff in Hbi. destruct Hbi as [Hbi|Hbi]; rewrite Hbi; cbn [orb andb]; [|rewrite orb_true_r; cbn [orb andb]];
    apply IH; try lia; intros t Ht; apply Hb; lia.
Qed.
Lemma restBlank_spstep p p' : curP p -> spstep p p' -> isRestBlank p' = isRestBlank p.
Proof.
  intros (H0 & Hc) [A B]. unfold isRestBlank, rest. rewrite (cstep_line p p' A). symmetry.
  assert (Hmv : li p <= li p' <= len (line p)) by (apply A; exact Hc).
  apply isBlank_from_step; [lia|lia|exact B].
Qed.

(* ---- paragraphs still reachable on the open chain ---- *)
Definition openTo (d : nat) (r : block) : Prop := forall j y, (j <= d)%nat -> getAt j r = Some y -> bend y < 0.
Definition ppT (r : block) : Prop := exists d x, getAt d r = Some x /\ bkind x = ParagraphKind /\ openTo d r.

Lemma getAt_plus : forall d k r x, getAt d r = Some x -> getAt (d + k) r = getAt k x.
Proof.
  induction d as [|d IH]; intros k r x H; [inversion H; subst; reflexivity|]. cbn [plus]. rewrite getAt_S in *.
  destruct (lastBlock r) as [c|]; [apply IH; exact H|discriminate].
Qed.
Lemma getAt_updAt_ge f : forall d k r x, getAt d r = Some x -> getAt (d + k) (updAt d f r) = getAt k (f x).
Proof.
  intros d k r x H. apply getAt_plus. rewrite getAt_updAt_same, H. reflexivity.
Qed.
Lemma lastBlock_nn r c : lastBlock r = Some c -> bkids r <> [].
Proof. intros H N. unfold lastBlock in H. rewrite N in H. discriminate. Qed.
(* above the update only the last child changes *)
Lemma getAt_updAt_lt f : forall d j r, (j < d)%nat -> (exists c, getAt d r = Some c) ->
  forall x, getAt j r = Some x -> exists y, getAt j (updAt d f r) = Some y /\ bend y = bend x /\ bkind y = bkind x /\ bstart y = bstart x.
Proof.
  induction d as [|d IH]; intros j r Hj (c0 & Hc) x Hx; [lia|]. cbn [updAt]. rewrite getAt_S in Hc.
  destruct (lastBlock r) as [c|] eqn:El; [|discriminate].
  destruct j as [|j].
  - cbn [getAt] in *. inversion Hx; subst x. eexists. split; [reflexivity|]. split; [apply bend_set_lastBlocks|split; [apply bkind_set_lastBlocks|apply bstart_set_lastBlocks]].
  - rewrite getAt_S in Hx. rewrite El in Hx. rewrite getAt_S, lastBlock_set_last by (eapply lastBlock_nn; exact El).
    apply IH; [lia|eauto|exact Hx].
Qed.
Lemma getAt_updAt_lt_inv f : forall d j r, (j < d)%nat -> (exists c, getAt d r = Some c) ->
  forall y, getAt j (updAt d f r) = Some y -> exists x, getAt j r = Some x /\ bend y = bend x /\ bkind y = bkind x.
Proof.
  intros d j r Hj Hc y Hy. destruct Hc as (c0 & Hc). destruct (getAt_le d j r c0 ltac:(lia) Hc) as (x & Hx).
  destruct (getAt_updAt_lt f d j r Hj ltac:(eauto) x Hx) as (y' & E1 & E2 & E3 & _). rewrite Hy in E1. inversion E1; subst y'.
  exists x. tauto.
Qed.

Lemma getAt_S_kids a b k : bkids a = bkids b -> getAt (S k) a = getAt (S k) b.
Proof. intros E. rewrite !getAt_S. unfold lastBlock. rewrite E. reflexivity. Qed.

(* the old tree's open chain is at least as long as the new one's, above the update *)
Lemma openTo_lt f d r j : (j < d)%nat -> (exists c, getAt d r = Some c) -> openTo j (updAt d f r) -> openTo j r.
Proof.
  intros Hj Hc Ho i z Hi Hz. destruct (getAt_updAt_lt f d i r ltac:(lia) Hc z Hz) as (y & E1 & E2 & _). rewrite <- E2. apply (Ho i y Hi E1).
Qed.

(* updates that keep the span end, the children, and do not create a paragraph *)
Lemma ppT_updAt_keep f d r : (exists c, getAt d r = Some c) ->
  (forall x, getAt d r = Some x -> bend (f x) = bend x /\ bkids (f x) = bkids x /\ (bkind (f x) = ParagraphKind -> bkind x = ParagraphKind)) ->
  ppT (updAt d f r) -> ppT r.
Proof.
  intros Hc Hf (j & y & Hy & Ky & Ho). destruct Hc as (x0 & Hx0).
  destruct (Nat.lt_ge_cases j d) as [L|L].
  - destruct (getAt_updAt_lt_inv f d j r L ltac:(eauto) y Hy) as (x & E1 & _ & E3).
    exists j, x. split; [exact E1|]. split; [congruence|]. eapply openTo_lt; [exact L|eauto|exact Ho].
  - replace j with (d + (j - d))%nat in Hy by lia. rewrite (getAt_updAt_ge f d (j - d) r x0 Hx0) in Hy.
    destruct (Hf x0 Hx0) as (F1 & F2 & F3).
    assert (Hold : forall k z, getAt k (f x0) = Some z -> exists z', getAt (d + k) r = Some z' /\ bend z' = bend z /\ (bkind z = ParagraphKind -> bkind z' = ParagraphKind)).
    { intros k z Hz. rewrite (getAt_plus d k r x0 Hx0). destruct k as [|k].
      - cbn [getAt] in *. inversion Hz; subst z. exists x0. split; [reflexivity|]. split; [symmetry; exact F1|exact F3].
      - rewrite (getAt_S_kids (f x0) x0 k F2) in Hz. exists z. split; [exact Hz|split; [reflexivity|tauto]]. }
    destruct (Hold (j - d)%nat y Hy) as (y' & G1 & _ & G3). replace (d + (j - d))%nat with j in G1 by lia.
    exists j, y'. split; [exact G1|]. split; [apply G3, Ky|].
    intros i z Hi Hz. destruct (Nat.lt_ge_cases i d) as [Li|Li].
    + destruct (getAt_updAt_lt f d i r Li ltac:(eauto) z Hz) as (z' & E1 & E2 & _). rewrite <- E2. apply (Ho i z' Hi E1).
    + assert (Hz' : getAt (i - d) x0 = Some z) by (rewrite <- (getAt_plus d (i - d) r x0 Hx0); replace (d + (i - d))%nat with i by lia; exact Hz).
      assert (exists w, getAt i (updAt d f r) = Some w /\ bend w = bend z).
      { replace i with (d + (i - d))%nat by lia. rewrite (getAt_updAt_ge f d (i - d) r x0 Hx0).
        destruct (i - d)%nat as [|k] eqn:Ek.
        - cbn [getAt] in *. inversion Hz'; subst z. exists (f x0). split; [reflexivity|exact F1].
        - rewrite (getAt_S_kids (f x0) x0 k F2). exists z. split; [exact Hz'|reflexivity]. }
      destruct H as (w & W1 & W2). rewrite <- W2. apply (Ho i w Hi W1).
Qed.

(* updates that keep end and kind of the block at depth d and make its last child closed (or keep it childless) *)
Lemma ppT_updAt_cut f d r : (exists c, getAt d r = Some c) ->
  (forall x, getAt d r = Some x -> bend (f x) = bend x /\ bkind (f x) = bkind x /\ (forall z, lastBlock (f x) = Some z -> 0 <= bend z \/ (bkind z <> ParagraphKind /\ bkids z = []))) ->
  ppT (updAt d f r) -> ppT r.
Proof.
  intros Hc Hf (j & y & Hy & Ky & Ho). destruct Hc as (x0 & Hx0). destruct (Hf x0 Hx0) as (F1 & F2 & F3).
  destruct (Nat.lt_ge_cases j d) as [L|L].
  - destruct (getAt_updAt_lt_inv f d j r L ltac:(eauto) y Hy) as (x & E1 & _ & E3).
    exists j, x. split; [exact E1|]. split; [congruence|]. eapply openTo_lt; [exact L|eauto|exact Ho].
  - assert (Hod : openTo d r).
    { intros i z Hi Hz. destruct (Nat.lt_ge_cases i d) as [Li|Li].
      - destruct (getAt_updAt_lt f d i r Li ltac:(eauto) z Hz) as (z' & E1 & E2 & _). rewrite <- E2. apply (Ho i z' ltac:(lia) E1).
      - replace i with d in Hz by lia. rewrite Hx0 in Hz. inversion Hz; subst z. rewrite <- F1.
        apply (Ho d (f x0) L). rewrite getAt_updAt_same, Hx0. reflexivity. }
    replace j with (d + (j - d))%nat in Hy by lia. rewrite (getAt_updAt_ge f d (j - d) r x0 Hx0) in Hy.
    destruct (j - d)%nat as [|k] eqn:Ek.
    + cbn [getAt] in Hy. inversion Hy; subst y. exists d, x0. split; [exact Hx0|]. split; [congruence|exact Hod].
    + exfalso. rewrite getAt_S in Hy. destruct (lastBlock (f x0)) as [z|] eqn:El; [|discriminate].
      assert (Hz : getAt (S d) (updAt d f r) = Some z).
      { replace (S d) with (d + 1)%nat by lia. rewrite (getAt_updAt_ge f d 1 r x0 Hx0). rewrite getAt_S, El. reflexivity. }
      pose proof (Ho (S d) z ltac:(lia) Hz) as Hopen.
      destruct (F3 z eq_refl) as [Hcl|[Hnp Hnk]]; [lia|].
      destruct k as [|k]; [cbn [getAt] in Hy; inversion Hy; subst y; contradiction|].
      rewrite getAt_S in Hy. unfold lastBlock in Hy. rewrite Hnk in Hy. discriminate.
Qed.

(* no reachable paragraph: the container is not a paragraph and has no open child *)
Lemma canContain_para k : canContain ParagraphKind k = false.
Proof. reflexivity. Qed.
Lemma noPara p : ccP p -> containerKind p <> ParagraphKind ->
  (forall c, getAt (S (cdepth p)) (root p) = Some c -> 0 <= bend c \/ (bkind c <> ParagraphKind /\ bkids c = [])) -> ~ ppT (root p).
Proof.
  intros (_ & Hcc & (x0 & Hx0)) Hk Hch (j & y & Hy & Ky & Ho).
  destruct (Nat.lt_ge_cases j (cdepth p)) as [L|L].
  - destruct (getAt_le (cdepth p) (S j) (root p) x0 ltac:(lia) Hx0) as (z & Hz).
    pose proof (cc_spine j (root p) y z Hcc Hy Hz) as Hcan. rewrite Ky, canContain_para in Hcan. discriminate.
  - destruct (Nat.eq_dec j (cdepth p)) as [->|N].
    + apply Hk. unfold containerKind, contBlock. rewrite Hy. exact Ky.
    + destruct (getAt_le j (S (cdepth p)) (root p) y ltac:(lia) Hy) as (c & Hc).
      destruct (Hch c Hc) as [Hcl|[Hnp Hnk]]; [pose proof (Ho (S (cdepth p)) c ltac:(lia) Hc); lia|].
      destruct (Nat.eq_dec j (S (cdepth p))) as [->|N2]; [rewrite Hc in Hy; inversion Hy; subst y; contradiction|].
      replace j with (S (cdepth p) + S (j - S (cdepth p) - 1))%nat in Hy by lia.
      rewrite (getAt_plus _ _ _ c Hc) in Hy. rewrite getAt_S in Hy. unfold lastBlock in Hy. rewrite Hnk in Hy. discriminate.
Qed.

(* the reachable-paragraph predicate only looks at the tree *)
Definition Rr (p : lp) : Prop := ppT (root p) -> clean p.
Lemma Rr_gstep p p' : gstep p p' -> Rr p -> Rr p'.
Proof. intros H R Hp. pose proof H as (((E1 & _) & _) & _). rewrite E1 in Hp. eapply clean_gstep; [exact H|apply R, Hp]. Qed.
Lemma Rr_none p p' : cstep p p' -> ~ ppT (root p) -> Rr p'.
Proof. intros ((E1 & _) & _) N Hp. rewrite E1 in Hp. contradiction. Qed.
